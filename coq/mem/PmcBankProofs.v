(** Proofs about banked local memories (model: PmcBank.v). *)
From VMem Require Import Pmc PmcBank PmcLemmas PmcProofs.
From Coq Require Import Lia ZifyN ZifyNat ZifyBool.
From RecordUpdate Require Import RecordSet.
Import RecordSetNotations.
Open Scope N_scope.

(** * Stages 10 and 12 with a finder *)

(** every request they create is addressed to the owner of ITS OWN address *)
Lemma pull_rsps_f_routed finder loc l : forall m,
  Forall (fun w => routed finder (MWrReq w)) (fst (fst (pull_rsps_f finder loc l m))).
Proof.
  induction l as [|r rest IH]; intros m; cbn; [constructor|].
  destruct (lookup (pr_id r) m) as [a|]; cbn; [|constructor].
  specialize (IH (delete (pr_id r) m)).
  destruct (pull_rsps_f finder loc rest (delete (pr_id r) m)) as [[ws m'] c]; cbn in *.
  constructor; [reflexivity | exact IH].
Qed.

Lemma mk_read_f_routed finder s q : routed finder (MRdReq (mk_read_f finder s q)).
Proof. reflexivity. Qed.

(** ... and they are the stages of Pmc.v up to that destination *)
Lemma pull_rsps_f_flat finder loc memc l : forall m,
  pull_rsps loc memc l m =
  (let '(ws, m', c) := pull_rsps_f finder loc l m in
   (map (fun w => mkWrReq (wq_src w) memc (wq_addr w) (wq_data w)) ws, m', c)).
Proof.
  induction l as [|r rest IH]; intros m; cbn; [reflexivity|].
  destruct (lookup (pr_id r) m) as [a|]; cbn; [|reflexivity].
  rewrite (IH (delete (pr_id r) m)).
  destruct (pull_rsps_f finder loc rest (delete (pr_id r) m)) as [[ws m'] c]; reflexivity.
Qed.

Lemma pull_rsps_f_stamp finder loc memc l m :
  map MWrReq (fst (fst (pull_rsps_f finder loc l m))) =
  map (stamp finder) (map MWrReq (fst (fst (pull_rsps loc memc l m)))).
Proof.
  rewrite (pull_rsps_f_flat finder).
  pose proof (pull_rsps_f_routed finder loc l m) as R.
  destruct (pull_rsps_f finder loc l m) as [[ws m'] c]; cbn in *.
  induction R as [|w ws Hw _ IH]; cbn; [reflexivity|].
  rewrite <- IH. f_equal. destruct w; cbn in *. congruence.
Qed.

Lemma mk_read_f_stamp finder s q :
  MRdReq (mk_read_f finder s q) = stamp finder (MRdReq (mk_read s q)).
Proof. reflexivity. Qed.

Lemma stamp_routed finder m : routed finder (stamp finder m).
Proof. destruct m; cbn; reflexivity. Qed.

Lemma flatten_stamp finder memc m : flatten memc (stamp finder m) = flatten memc m.
Proof. destruct m; reflexivity. Qed.

(** * One request served by the bank it names *)

Lemma write_outside st a d x : ~ (a <= x < a + N.of_nat (length d)) -> write st a d x = st x.
Proof.
  intros H. unfold write.
  destruct ((a <=? x) && (x <? a + N.of_nat (length d))) eqn:E; [|reflexivity].
  exfalso. apply H. lia.
Qed.

Lemma write_inside st st' a d x : a <= x < a + N.of_nat (length d) -> write st a d x = write st' a d x.
Proof.
  intros H. unfold write.
  destruct ((a <=? x) && (x <? a + N.of_nat (length d))) eqn:E; [reflexivity|]. lia.
Qed.

(** A correctly addressed write whose bytes have one owner is, through the
    owning banks, exactly the write; cells a bank does not own do not change. *)
Lemma bank_write_view finder bs q :
  routed finder (MWrReq q) -> piece_local finder (MWrReq q) ->
  forall bs' rsp, bank_serve bs (MWrReq q) = Some (bs', rsp) ->
  (forall x, bview finder bs' x = write (bview finder bs) (wq_addr q) (wq_data q) x) /\
  (forall b x, finder x <> b -> bs' b x = bs b x).
Proof.
  cbn. intros Hr Hl bs' rsp E. injection E as <- _. split.
  - intros x. unfold bview.
    destruct (N.le_gt_cases (wq_addr q) x) as [H1|H1];
      [destruct (N.lt_ge_cases x (wq_addr q + N.of_nat (length (wq_data q)))) as [H2|H2]|].
    + assert (finder x = finder (wq_addr q)) as Hx.
      { replace x with (wq_addr q + (x - wq_addr q)) by lia. apply Hl. lia. }
      rewrite Hr, Hx, N.eqb_refl. apply write_inside. lia.
    + rewrite (write_outside (fun a => bs (finder a) a)) by lia.
      destruct (finder x =? wq_dst q); [apply write_outside; lia | reflexivity].
    + rewrite (write_outside (fun a => bs (finder a) a)) by lia.
      destruct (finder x =? wq_dst q); [apply write_outside; lia | reflexivity].
  - intros b x Hb.
    destruct (b =? wq_dst q) eqn:E; [|reflexivity].
    apply N.eqb_eq in E. subst b.
    apply write_outside. intros Hin. apply Hb.
    replace x with (wq_addr q + (x - wq_addr q)) by lia.
    rewrite Hr. apply Hl. lia.
Qed.

(** A correctly addressed read returns the bytes seen through the owning banks. *)
Lemma bank_read_view finder bs q :
  routed finder (MRdReq q) -> piece_local finder (MRdReq q) ->
  read (bs (rq_dst q)) (rq_addr q) (rq_size q) = read (bview finder bs) (rq_addr q) (rq_size q).
Proof.
  cbn. intros Hr Hl. unfold read. apply map_ext_in. intros j Hj.
  apply in_seq in Hj. unfold bview. rewrite Hl by lia. rewrite Hr. reflexivity.
Qed.

(** the reply of the named bank is the reply of the flat memory up to the bank's name *)
Lemma bank_serve_flat finder bs m :
  routed finder m -> piece_local finder m ->
  match bank_serve bs m, mem_serve (bview finder bs) m with
  | Some (bs', r1), Some (st', r2) =>
    (forall x, bview finder bs' x = st' x) /\
    (forall b x, finder x <> b -> bs' b x = bs b x) /\
    match r1, r2 with
    | MDReady d1, MDReady d2 => dr_data d1 = dr_data d2 /\ dr_rspto d1 = dr_rspto d2 /\ dr_dst d1 = dr_dst d2
    | MWDone w1, MWDone w2 => wd_dst w1 = wd_dst w2
    | _, _ => False
    end
  | None, None => True
  | _, _ => False
  end.
Proof.
  intros Hr Hl. destruct m; cbn; trivial.
  - split; [reflexivity|]. split; [reflexivity|].
    split; [|split; reflexivity]. apply bank_read_view; assumption.
  - destruct (bank_write_view finder bs m Hr Hl _ _ eq_refl) as [H1 H2].
    split; [exact H1|]. split; [exact H2|reflexivity].
Qed.

(** What the seeded class does in the model: a write stamped with the owner of
    the page's first address lands in a bank that does not own it and is not
    seen through the owning banks. *)
Lemma page_stamp_loses_bytes :
  let finder := interleaved 1024 2 in
  let bs : banks := fun _ _ => 0 in
  let q := mkWrReq 3 0 1024 [7] in
  match bank_serve bs (stamp_page finder 0 (MWrReq q)) with
  | Some (bs', _) => bview finder bs' 1024 = 0 /\ bs' 0 1024 = 7 /\ finder 1024 = 1
  | None => False
  end.
Proof. vm_compute. repeat split. Qed.

(** * mem.InterleavedAddressPortMapper: 64-byte pieces at 64-aligned addresses
      have one owner when the granularity is a multiple of 64 *)
Lemma interleaved_piece_local k n a j :
  k <> 0 -> j < 64 -> interleaved (64 * k) n (64 * a + j) = interleaved (64 * k) n (64 * a).
Proof.
  intros Hk Hj. unfold interleaved. f_equal.
  rewrite <- !N.div_div by lia.
  f_equal.
  rewrite (N.mul_comm 64 a), N.div_add_l, N.div_small, N.add_0_r, N.div_mul by lia.
  reflexivity.
Qed.

(** * The system: through the owning banks it IS the system of Pmc.v *)
Section Sys.
Context (fa fb : N -> N).

Definition view_ok (b : bsys) : Prop :=
  (forall x, bview fa (bka b) x = sta (flat b) x) /\
  (forall x, bview fb (bkb b) x = stb (flat b) x).

Lemma getst_setmr w v s : getst w (setmr w v s) = getst w s.
Proof. destruct w; reflexivity. Qed.

Lemma bstep_flat b e : flat (bstep fa fb b e) = fst (step (flat b) e).
Proof.
  unfold bstep. destruct (served1 (flat b) e) as [[w m]|]; [|reflexivity].
  destruct (bank_serve (getbk w b) (stamp (fw fa fb w) m)) as [[bs' r]|]; [|reflexivity].
  destruct w; reflexivity.
Qed.

Lemma brun_flat evs : forall b, flat (brun fa fb b evs) = run (flat b) evs.
Proof.
  induction evs as [|e r IH]; intros b; cbn; [reflexivity|].
  unfold brun in IH. rewrite IH, bstep_flat. reflexivity.
Qed.

(** a step that serves nothing leaves both stores alone *)
Opaque tick.
Lemma step_store_unserved s e : served1 s e = None ->
  sta (fst (step s e)) = sta s /\ stb (fst (step s e)) = stb s.
Proof.
  unfold served1, step.
  destruct (crashed (pa s) || crashed (pb s)); [split; reflexivity|].
  destruct e as [w|w|k|w|w k|w k|w m|w|m]; cbn;
  repeat match goal with
  | |- context [if ?c then _ else _] => destruct c
  | |- context [match ?x with Some _ => _ | None => _ end] => destruct x
  | |- context [match ?x with [] => _ | _ :: _ => _ end] => destruct x
  | |- context [let '(_, _) := ?x in _] => destruct x
  | w : who |- _ => destruct w
  end; cbn; intros H; try discriminate; split; reflexivity.
Qed.

Transparent tick.

(** a step that serves [m] at [w] applies [mem_serve] to that store only *)
Lemma step_store_served s e w m : served1 s e = Some (w, m) ->
  exists st' r, mem_serve (getst w s) m = Some (st', r) /\
    getst w (fst (step s e)) = st' /\
    match w with PA => stb (fst (step s e)) = stb s | PB => sta (fst (step s e)) = sta s end.
Proof.
  unfold served1, step.
  destruct (crashed (pa s) || crashed (pb s)); [discriminate|].
  destruct e as [w'|w'|k|w'|w' k|w' k|w' m'|w'|m']; try discriminate.
  destruct (nth_error (getmq w' s) k) as [p|]; [|discriminate].
  destruct (mem_serve (getst w' s) p) as [[st' r]|] eqn:E; [|discriminate].
  intros H. injection H as <- <-. exists st', r. split; [exact E|].
  destruct w'; split; reflexivity.
Qed.

Lemma bstep_view b e :
  view_ok b ->
  match served1 (flat b) e with Some (w, m) => piece_local (fw fa fb w) m | None => True end ->
  view_ok (bstep fa fb b e) /\
  (forall bk x, fa x <> bk -> bka (bstep fa fb b e) bk x = bka b bk x) /\
  (forall bk x, fb x <> bk -> bkb (bstep fa fb b e) bk x = bkb b bk x).
Proof.
  intros [Va Vb] Hl. unfold bstep, view_ok.
  destruct (served1 (flat b) e) as [[w m]|] eqn:S.
  - destruct (step_store_served _ _ _ _ S) as (st' & r & Em & Hst & Hother).
    pose proof (bank_serve_flat (fw fa fb w) (getbk w b) (stamp (fw fa fb w) m)
                  (stamp_routed _ _)) as F.
    assert (piece_local (fw fa fb w) (stamp (fw fa fb w) m)) as Hl'
      by (destruct m; exact Hl).
    specialize (F Hl').
    assert (mem_serve (bview (fw fa fb w) (getbk w b)) (stamp (fw fa fb w) m) <> None /\
            forall st2 r2, mem_serve (bview (fw fa fb w) (getbk w b)) (stamp (fw fa fb w) m) = Some (st2, r2) ->
            forall x, st2 x = st' x) as [Hne Heq].
    { destruct m; cbn in Em |- *; try discriminate; injection Em as <- _.
      - split; [discriminate|]. intros st2 r2 E2. injection E2 as <- _.
        intros x. destruct w; cbn; [apply Va | apply Vb].
      - split; [discriminate|]. intros st2 r2 E2. injection E2 as <- _.
        intros x. unfold write.
        destruct ((wq_addr m <=? x) && (x <? wq_addr m + N.of_nat (length (wq_data m))));
          [reflexivity|]. destruct w; cbn; [apply Va | apply Vb]. }
    destruct (bank_serve (getbk w b) (stamp (fw fa fb w) m)) as [[bs' r1]|];
      destruct (mem_serve (bview (fw fa fb w) (getbk w b)) (stamp (fw fa fb w) m)) as [[st2 r2]|];
      try contradiction; try (exfalso; apply Hne; reflexivity).
    destruct F as (F1 & F2 & _). specialize (Heq _ _ eq_refl).
    destruct w; cbn in *.
    + repeat split.
      * intros x. rewrite Hst, <- Heq. exact (F1 x).
      * intros x. rewrite Hother. exact (Vb x).
      * exact F2.
    + repeat split.
      * intros x. rewrite Hother. exact (Va x).
      * intros x. rewrite Hst, <- Heq. exact (F1 x).
      * exact F2.
  - destruct (step_store_unserved _ _ S) as [Ha Hb]. cbn.
    repeat split; intros; try reflexivity.
    + rewrite Ha. apply Va.
    + rewrite Hb. apply Vb.
Qed.

(** For EVERY pair of finders and every run: through the owning banks the two
    banked memories are the two memories of the flat system, and no bank was
    written at an address it does not own. *)
Theorem banked_view_is_flat evs : forall b,
  view_ok b -> served_local fa fb (flat b) evs ->
  let b' := brun fa fb b evs in
  flat b' = run (flat b) evs /\ view_ok b' /\
  (forall bk x, fa x <> bk -> bka b' bk x = bka b bk x) /\
  (forall bk x, fb x <> bk -> bkb b' bk x = bkb b bk x).
Proof.
  induction evs as [|e r IH]; intros b V L; cbn.
  - repeat split; try apply V; reflexivity.
  - destruct L as [L1 L2].
    destruct (bstep_view b e V L1) as (V1 & Na & Nb).
    rewrite <- bstep_flat in L2.
    destruct (IH _ V1 L2) as (I1 & I2 & I3 & I4).
    cbn in *. split; [rewrite <- bstep_flat; exact I1|]. split; [exact I2|].
    split; intros bk x Hx; [rewrite I3, Na | rewrite I4, Nb]; auto.
Qed.
End Sys.

(** * The page-copy theorem through the banked view *)
Section Lift.
Variables ra ca la ma rb cb lb mb : N.
Variables sa0 sb0 : store.
Variables fa fb : N -> N.
Variables bka0 bkb0 : banks.
Hypothesis Hra : ra <> 0.
Hypothesis Hrb : rb <> 0.
Hypothesis Hrab : ra <> rb.
Hypothesis Hma : ma <> 0 /\ ma <> la.
Hypothesis Hmb : mb <> 0 /\ mb <> lb.
Hypothesis Hva : forall x, bview fa bka0 x = sa0 x.
Hypothesis Hvb : forall x, bview fb bkb0 x = sb0 x.

Let s0 := s_init ra ca la ma rb cb lb mb sa0 sb0.

Theorem banked_copies_page evs :
  Forall (ok_ev ca rb) evs -> served_local fa fb s0 evs ->
  let b := brun fa fb (mkB s0 bka0 bkb0) evs in
  let s := flat b in
  s = run s0 evs /\
  crashed (pa s) = false /\ crashed (pb s) = false /\
  (forall x, bview fb (bkb b) x = sb0 x) /\
  (forall bk x, fa x <> bk -> bka b bk x = bka0 bk x) /\
  (forall bk x, fb x <> bk -> bkb b bk x = bkb0 bk x) /\
  match cur_mig (pa s) with
  | None => forall x, bview fa (bka b) x = fold_left (copy_req sb0) (completed s) sa0 x
  | Some r => forall x,
      bview fa (bka b) x = fold_left (copy_req sb0) (completed s) sa0 x \/
      (mg_wr r <= x < mg_wr r + mg_size r /\ bview fa (bka b) x = sb0 (mg_rd r + (x - mg_wr r)))
  end.
Proof.
  intros Hok Hloc b s.
  destruct (banked_view_is_flat fa fb evs (mkB s0 bka0 bkb0)) as (E & [Va Vb] & Na & Nb).
  { split; [exact Hva | exact Hvb]. }
  { exact Hloc. }
  fold b in E, Va, Vb, Na, Nb. fold s in E, Va, Vb. cbn in E.
  pose proof (reach ra ca la ma rb cb lb mb sa0 sb0 Hra Hrb Hrab Hma Hmb evs Hok) as H.
  fold s0 in H. rewrite <- E in H.
  destruct (store_of_inv ra ca la ma rb cb lb mb sa0 sb0 Hra Hrb Hrab Hma Hmb s H) as [Hb Ha].
  split; [exact E|]. split; [apply H|]. split; [apply H|].
  split; [intros x; rewrite Vb; apply Hb|].
  split; [exact Na|]. split; [exact Nb|].
  destruct (cur_mig (pa s)) as [r|].
  - intros x. rewrite Va. apply Ha.
  - intros x. rewrite Va. apply Ha.
Qed.
End Lift.

(** * Which finders: every 64-byte piece of the pages has one owner
    The requests a memory serves during a run of the two controllers are the
    64-byte pieces of the page being migrated (invariant of PmcProofs.v), so
    [served_local] follows from a condition on the accepted requests alone. *)
Section Local.
Variables ra ca la ma rb cb lb mb : N.
Variables sa0 sb0 : store.
Variables fa fb : N -> N.
Hypothesis Hra : ra <> 0.
Hypothesis Hrb : rb <> 0.
Hypothesis Hrab : ra <> rb.
Hypothesis Hma : ma <> 0 /\ ma <> la.
Hypothesis Hmb : mb <> 0 /\ mb <> lb.

Definition req_local (r : migreq) : Prop :=
  forall i j, i < mg_size r / 64 -> j < 64 ->
    fa (mg_wr r + 64 * i + j) = fa (mg_wr r + 64 * i) /\
    fb (mg_rd r + 64 * i + j) = fb (mg_rd r + 64 * i).

Definition ok_ev_local (e : ev) : Prop :=
  ok_ev ca rb e /\ match e with ECtrlReq PA m => req_local m | _ => True end.

Let INV := Inv2 ra ca la ma rb cb lb mb sa0 sb0.

Opaque tick.
Lemma g_acc_step (P : migreq -> Prop) s e :
  Forall P (g_acc s) -> match e with ECtrlReq PA m => P m | _ => True end ->
  Forall P (g_acc (fst (step s e))).
Proof.
  intros HG He. unfold step.
  destruct (crashed (pa s) || crashed (pb s)); [exact HG|].
  destruct e as [w|w|k|w|w k|w k|w m|w|m]; cbn;
  repeat match goal with
  | |- context [if ?c then _ else _] => destruct c
  | |- context [match ?x with Some _ => _ | None => _ end] => destruct x
  | |- context [match ?x with [] => _ | _ :: _ => _ end] => destruct x
  | |- context [let '(_, _) := ?x in _] => destruct x
  | w : who |- _ => destruct w
  end; cbn; try exact HG.
  apply Forall_app. split; [exact HG | constructor; [exact He | constructor]].
Qed.
Transparent tick.

Lemma served_in_mq s e w m : served1 s e = Some (w, m) -> In m (getmq w s).
Proof.
  unfold served1. destruct (crashed (pa s) || crashed (pb s)); [discriminate|].
  destruct e as [w'|w'|k|w'|w' k|w' k|w' m'|w'|m']; try discriminate.
  destruct (nth_error (getmq w' s) k) as [p|] eqn:E; [|discriminate].
  destruct (mem_serve (getst w' s) p); [|discriminate].
  intros H. injection H as <- <-. eapply nth_error_In; eauto.
Qed.

Lemma served_is_local s e w m :
  INV s -> Forall req_local (g_acc s) -> served1 s e = Some (w, m) ->
  piece_local (fw fa fb w) m.
Proof.
  intros [H _] HG S. apply served_in_mq in S.
  pose proof (i_phase _ _ _ _ _ _ _ _ _ _ _ H) as P. unfold Phase in P.
  destruct (i_queue _ _ _ _ _ _ _ _ _ _ _ H) as (waiting & _ & EQ).
  pose proof (i_K _ _ _ _ _ _ _ _ _ _ _ H) as K.
  assert (In m (toks2 s) \/ In m (toks1 s)) as Hin.
  { destruct w; cbn in S; [left; unfold toks2 | right; unfold toks1];
      rewrite !in_app_iff; tauto. }
  assert (forall t, NoTok sa0 sb0 t -> t = s -> False) as Hno.
  { intros t (T1 & T2 & _) ->. rewrite T1, T2 in Hin. destruct Hin as [[]|[]]. }
  destruct (cur_mig (pa s)) as [r|] eqn:Ec; destruct (handling (pa s));
    destruct (to_ctrl (pa s)); try contradiction; try (exfalso; eapply Hno; eauto; fail).
  destruct P as (b & T).
  assert (req_local r) as Hr.
  { rewrite <- (firstn_skipn (ndone s) (g_acc s)) in HG. apply Forall_app in HG.
    destruct HG as [_ HG]. rewrite EQ in HG. cbn in HG. inversion HG; assumption. }
  destruct w; cbn in S |- *.
  - pose proof (k_mqa _ K) as KQ. rewrite Forall_forall in KQ. destruct (KQ _ S) as [q ->].
    pose proof (tf_ok2 _ _ _ _ _ _ _ _ _ _ _ _ _ _ _ _ T) as O. rewrite Forall_forall in O.
    assert (In (MWrReq q) (toks2 s)) as I2 by (unfold toks2; rewrite !in_app_iff; tauto).
    destruct (O _ I2) as (i & Hi & ->). unfold piece_local. cbn.
    unfold chunk, read. rewrite map_length, seq_length. intros j Hj.
    apply Hr; [exact Hi | lia].
  - pose proof (k_mqb _ K) as KQ. rewrite Forall_forall in KQ. destruct (KQ _ S) as [q ->].
    pose proof (tf_ok1 _ _ _ _ _ _ _ _ _ _ _ _ _ _ _ _ T) as O. rewrite Forall_forall in O.
    assert (In (MRdReq q) (toks1 s)) as I1 by (unfold toks1; rewrite !in_app_iff; tauto).
    destruct (O _ I1) as (i & Hi & ->). unfold piece_local. cbn. intros j Hj.
    apply Hr; [exact Hi | exact Hj].
Qed.

Lemma served_local_holds evs : forall s,
  INV s -> Forall req_local (g_acc s) -> Forall ok_ev_local evs -> served_local fa fb s evs.
Proof.
  induction evs as [|e r IH]; intros s HI HG Hok; cbn; [trivial|].
  inversion Hok as [|? ? [Ho Hl] Hrest]; subst. split.
  - destruct (served1 s e) as [[w m]|] eqn:S; [|trivial]. eapply served_is_local; eauto.
  - apply IH; [apply step_inv; assumption | apply g_acc_step; assumption | assumption].
Qed.

Variables bka0 bkb0 : banks.
Hypothesis Hva : forall x, bview fa bka0 x = sa0 x.
Hypothesis Hvb : forall x, bview fb bkb0 x = sb0 x.
Let s0 := s_init ra ca la ma rb cb lb mb sa0 sb0.

(** The page-copy theorem over banked memories, for EVERY pair of finders under
    which the 64-byte pieces of the requested pages have one owner each. *)
Theorem banked_copies_page_local evs :
  Forall ok_ev_local evs ->
  let b := brun fa fb (mkB s0 bka0 bkb0) evs in
  let s := flat b in
  s = run s0 evs /\
  crashed (pa s) = false /\ crashed (pb s) = false /\
  (forall x, bview fb (bkb b) x = sb0 x) /\
  (forall bk x, fa x <> bk -> bka b bk x = bka0 bk x) /\
  (forall bk x, fb x <> bk -> bkb b bk x = bkb0 bk x) /\
  match cur_mig (pa s) with
  | None => forall x, bview fa (bka b) x = fold_left (copy_req sb0) (completed s) sa0 x
  | Some r => forall x,
      bview fa (bka b) x = fold_left (copy_req sb0) (completed s) sa0 x \/
      (mg_wr r <= x < mg_wr r + mg_size r /\ bview fa (bka b) x = sb0 (mg_rd r + (x - mg_wr r)))
  end.
Proof.
  intros Hok.
  apply (banked_copies_page ra ca la ma rb cb lb mb sa0 sb0 fa fb bka0 bkb0
           Hra Hrb Hrab Hma Hmb Hva Hvb evs).
  - eapply Forall_impl; [|exact Hok]. intros e [H _]. exact H.
  - apply served_local_holds; [apply init_inv2; assumption | constructor | exact Hok].
Qed.
End Local.

(** interleaved finders with a granularity that is a multiple of 64 satisfy
    [req_local] for 64-aligned pages *)
Lemma interleaved_req_local ka na kb nb r :
  ka <> 0 -> kb <> 0 -> mg_wr r mod 64 = 0 -> mg_rd r mod 64 = 0 ->
  req_local (interleaved (64 * ka) na) (interleaved (64 * kb) nb) r.
Proof.
  intros Ha Hb Hw Hr i j _ Hj.
  apply N.div_exact in Hw; [|lia]. apply N.div_exact in Hr; [|lia].
  rewrite Hw, Hr, <- !N.mul_add_distr_l.
  split; apply interleaved_piece_local; assumption.
Qed.
