(** Both directions at once, part 4: whole stages on one controller (both
    directions, no panic, every buffer still classified), ticks. *)
From Coq Require Import Permutation ZifyN ZifyNat ZifyBool.
From VMem Require Import Pmc PmcLemmas PmcProofs PmcBi PmcBi2 PmcBi3.
From RecordUpdate Require Import RecordSet.
Import RecordSetNotations.
Open Scope N_scope.

Ltac simp_s :=
  unfold Sc, Pc in *;
  repeat rewrite ?getp_setp, ?getp_setp_o, ?getp_setp_o', ?net_setp, ?getmq_setp, ?getmr_setp, ?getst_setp,
                 ?gacc_setp, ?gdone_setp, ?ndonew_setp_o, ?completedw_setp_o, ?basew_setp_o in *.

Section Bi4.
Variable cf : names.
Hypothesis Hok : names_okb cf.
Notation R := (nR cf).
Notation C := (nC cf).
Notation L := (nL cf).
Notation M := (nM cf).
Notation s0 := (nS0 cf).
Notation ro := (nRO cf).
Notation OKW w := (okM (R w) (L w) (M w) (R (other w)) (L (other w)) (M (other w)) (s0 (other w))).
Notation INVB := (InvB cf).
Notation INVD := (InvD cf).
Notation T1 := (toks1 cf).
Notation T2 := (toks2 cf).
Notation T3 := (toks3 cf).
Notation FO := (fo cf).
Notation OWN := (own cf).
Notation EXL := (EX cf).

(** assembling the system invariant after controller [X] changed *)
Lemma assemble X p' s :
  INVB s -> crashed p' = false -> cfg_is p' (R X) (C X) (L X) (M X) ->
  EXL (rem_in p') -> EXL (rem_out p') -> EXL (loc_in p') -> EXL (loc_out p') ->
  INVD X (setp X p' s) -> INVD (other X) (setp X p' s) ->
  INVB (setp X p' s).
Proof.
  intros HB Hc Hcfg E1 E2 E3 E4 D1 D2. destruct HB as [cA cB fA fB [x1 x2 x3 x4 x5 x6 x7 x8 x9 x10 x11 x12 x13] dA dB].
  destruct X; cbn in *; constructor; cbn; auto; constructor; cbn; auto.
Qed.

Lemma own_some w m : OWN w m = true -> OWN PA m = true \/ OWN PB m = true.
Proof. destruct w; auto. Qed.

(** a send loop whose elements are valid messages of some direction *)
Lemma send_ex {T} (inj : T -> pmsg) (l : list T) out :
  (forall x, In x l -> send_valid (inj x) = true /\ (OWN PA (inj x) = true \/ OWN PB (inj x) = true)) ->
  EXL out ->
  exists out' kept p, send_all inj out l = (out', kept, p, false) /\ EXL out'.
Proof.
  intros Hv He. destruct (send_all_spec inj l out) as (mv & kept & p & Hp & _ & E).
  { rewrite Forall_forall. intros; apply Hv; auto. }
  exists (out ++ map inj mv), kept, p. split; auto. apply Forall_app; split; auto.
  rewrite Forall_forall. intros m Hm.
  assert (Hin : In m (map inj l)).
  { eapply Permutation_in; [symmetry; exact Hp|]. apply in_or_app; auto. }
  apply in_map_iff in Hin. destruct Hin as (x & <- & Hx). apply Hv; auto.
Qed.

Lemma ok_t1 w s m : INVB s -> In m (T1 w s) -> (isPQ m \/ isPR m \/ isRQ m \/ isWQ m) ->
  send_valid m = true /\ (OWN PA m = true \/ OWN PB m = true).
Proof.
  intros HB Hin Hk. destruct (in_t1 cf w s m Hin (dir cf s w HB)) as (r & b & Hokm).
  split; [eapply (okw_valid cf Hok); eauto|eapply own_some, (ok_own cf); eauto].
Qed.
Lemma ok_t2 w s m : INVB s -> In m (T2 w s) -> (isPQ m \/ isPR m \/ isRQ m \/ isWQ m) ->
  send_valid m = true /\ (OWN PA m = true \/ OWN PB m = true).
Proof.
  intros HB Hin Hk. destruct (in_t2 cf w s m Hin (dir cf s w HB)) as (r & b & Hokm).
  split; [eapply (okw_valid cf Hok); eauto|eapply own_some, (ok_own cf); eauto].
Qed.

Ltac dirs X HB Pk Sk :=
  first [ apply (Pk cf Hok X _ HB) | pattern X at 1; rewrite <- (other_other X); apply (Sk cf Hok (other X) _ HB) ].

(** the same stage seen from the other direction: [X] is the source of [other X] *)
Lemma as_source X p' s : INVD (other X) (setp (other (other X)) p' s) -> INVD (other X) (setp X p' s).
Proof. rewrite other_other. auto. Qed.

Lemma X1 X s : INVB s -> INVB (setp X (fst (sendMigrationReqToAnotherPMC (getp X s))) s).
Proof.
  intros HB.
  assert (D1 := ltac:(first [exact (P1 cf Hok X s HB)|exact (P1 cf X s HB)])).
  assert (D2 := ltac:(first [exact (S1 cf Hok (other X) s HB)|exact (S1 cf (other X) s HB)])). rewrite other_other in D2.
  revert D1 D2. unfold sendMigrationReqToAnotherPMC.
  destruct (is_nil (to_pull (getp X s))); [cbn; rewrite setp_same; auto|].
  destruct (send_ex MPullReq (to_pull (getp X s)) (rem_out (getp X s))) as (o & k & p & E & Ee).
  { intros x Hx. apply (ok_t1 X s); auto; [|left; eexists; eauto].
    unfold toks1, Pc. repeat rewrite in_app_iff. left. apply in_map. auto. }
  { apply (ex_ro cf s X), HB. }
  rewrite E. cbn [fst]. intros D1 D2.
  apply assemble; cbn; auto; try apply (cfg_of cf s X HB).
  - apply (ex_ri cf s X), HB.
  - apply (ex_li cf s X), HB.
  - apply (ex_lo cf s X), HB.
Qed.

Ltac asm X HB := apply assemble; cbn; auto; try apply (cfg_of cf _ X HB);
  try (apply (ex_ri cf _ X), HB); try (apply (ex_ro cf _ X), HB);
  try (apply (ex_li cf _ X), HB); try (apply (ex_lo cf _ X), HB).

Lemma X2 X s : INVB s -> INVB (setp X (fst (sendReadReqLocalMemPort (getp X s))) s).
Proof.
  intros HB.
  assert (D1 := ltac:(first [exact (P2 cf Hok X s HB)|exact (P2 cf X s HB)])).
  assert (D2 := ltac:(first [exact (S2 cf Hok (other X) s HB)|exact (S2 cf (other X) s HB)])). rewrite other_other in D2.
  revert D1 D2. unfold sendReadReqLocalMemPort.
  destruct (is_nil (to_read (getp X s))); [cbn; rewrite setp_same; auto|].
  destruct (send_ex MRdReq (to_read (getp X s)) (loc_out (getp X s))) as (o & k & p & E & Ee).
  { intros x Hx. apply (ok_t1 (other X) s); auto; [|right; right; left; eexists; eauto].
    unfold toks1, Sc. rewrite other_other. repeat rewrite in_app_iff. do 5 right. left. apply in_map. auto. }
  { apply (ex_lo cf s X), HB. }
  rewrite E. cbn [fst]. intros D1 D2. asm X HB.
Qed.

Lemma X4 X s : INVB s -> INVB (setp X (fst (sendDataReadyRspToRequestingPMC (getp X s))) s).
Proof.
  intros HB.
  assert (D1 := ltac:(first [exact (P4 cf Hok X s HB)|exact (P4 cf X s HB)])).
  assert (D2 := ltac:(first [exact (S4 cf Hok (other X) s HB)|exact (S4 cf (other X) s HB)])). rewrite other_other in D2.
  revert D1 D2. unfold sendDataReadyRspToRequestingPMC.
  destruct (is_nil (to_rsp (getp X s))); [cbn; rewrite setp_same; auto|].
  destruct (send_ex MPullRsp (to_rsp (getp X s)) (rem_out (getp X s))) as (o & k & p & E & Ee).
  { intros x Hx. apply (ok_t1 (other X) s); auto; [|right; left; eexists; eauto].
    unfold toks1, Sc. rewrite other_other. repeat rewrite in_app_iff. do 11 right. left. apply in_map. auto. }
  { apply (ex_ro cf s X), HB. }
  rewrite E. cbn [fst]. intros D1 D2. asm X HB.
Qed.

Lemma X5 X s : INVB s -> INVB (setp X (fst (sendWriteReqLocalMemPort (getp X s))) s).
Proof.
  intros HB.
  assert (D1 := ltac:(first [exact (P5 cf Hok X s HB)|exact (P5 cf X s HB)])).
  assert (D2 := ltac:(first [exact (S5 cf Hok (other X) s HB)|exact (S5 cf (other X) s HB)])). rewrite other_other in D2.
  revert D1 D2. unfold sendWriteReqLocalMemPort.
  destruct (send_ex MWrReq (write_reqs (getp X s)) (loc_out (getp X s))) as (o & k & p & E & Ee).
  { intros x Hx. apply (ok_t2 X s); auto; [|right; right; right; eexists; eauto].
    unfold toks2, Pc. repeat rewrite in_app_iff. left. apply in_map. auto. }
  { apply (ex_lo cf s X), HB. }
  rewrite E. cbn [fst]. intros D1 D2. asm X HB.
Qed.

Lemma X3 X s : INVB s -> INVB (setp X (fst (sendMigrationCompleteRspToCtrlPort (getp X s))) s).
Proof.
  intros HB.
  assert (D1 := ltac:(first [exact (P3 cf Hok X s HB)|exact (P3 cf X s HB)])).
  assert (D2 := ltac:(first [exact (S3 cf Hok (other X) s HB)|exact (S3 cf (other X) s HB)])). rewrite other_other in D2.
  revert D1 D2. unfold sendMigrationCompleteRspToCtrlPort.
  case_eq (to_ctrl (getp X s)); [intros r Etc|intros Etc; cbn; rewrite setp_same; auto].
  pose proof (dir cf s X HB) as Hd.
  assert (Hv : send_valid (MMigRsp r) = true).
  { assert (Hin : In (MMigRsp r) (map (rspw cf X) (completedw X s))).
    { rewrite <- (d_rsp _ _ _ Hd). unfold Pc. rewrite Etc. cbn. repeat rewrite in_app_iff. cbn. tauto. }
    apply in_map_iff in Hin. destruct Hin as (q & Eq & Hq). apply firstn_incl in Hq.
    pose proof (d_wf _ _ _ Hd) as Hw. rewrite Forall_forall in Hw. destruct (Hw q Hq) as (_ & _ & W1 & W2 & _).
    inversion Eq; subst r. unfold send_valid; cbn. apply valid_neq; auto. }
  rewrite Hv. cbn [negb].
  destruct (can_push (ctl_out (getp X s))); [|cbn; rewrite setp_same; auto].
  cbn [fst]. intros D1 D2. asm X HB. apply (crashed_of cf s X HB).
Qed.

Lemma X6 X s : INVB s -> INVB (setp X (fst (processFromOutside (getp X s))) s).
Proof.
  intros HB.
  assert (D1 := ltac:(first [exact (P6 cf Hok X s HB)|exact (P6 cf X s HB)])).
  assert (D2 := ltac:(first [exact (S6 cf Hok (other X) s HB)|exact (S6 cf (other X) s HB)])). rewrite other_other in D2.
  revert D1 D2. unfold processFromOutside.
  destruct (rem_in (getp X s)) as [|m rest] eqn:Er; [cbn; rewrite setp_same; auto|].
  pose proof (ex_ri cf s X (b_ex _ _ HB)) as E. rewrite Er in E.
  assert (Hk : isPQ m \/ isPR m).
  { inversion E as [|? ? Hm _]; subst. destruct (ex_cls cf X m Hm) as [Ho|Ho].
    - right. pose proof (k_rip _ _ _ (d_K _ _ _ (dir cf s X HB))) as K. unfold KF, Pc in K.
      rewrite Er, fo_cons_own in K by auto. inversion K; auto.
    - left. pose proof (k_ris _ _ _ (d_K _ _ _ (dir cf s (other X) HB))) as K. unfold KF, Sc in K.
      rewrite other_other, Er, fo_cons_own in K by auto. inversion K; auto. }
  destruct Hk as [(q & ->)|(q & ->)]; cbn [fst]; intros D1 D2; asm X HB;
    try apply (crashed_of cf s X HB); eapply tail_F; eauto.
Qed.

Lemma X8 X s : INVB s -> recv_wdone (getp X s) = None -> INVB (setp X (fst (processFromMemCtrl (getp X s))) s).
Proof.
  intros HB Hnone.
  assert (D1 := ltac:(first [exact (P8 cf Hok X s HB Hnone)|exact (P8 cf X s HB Hnone)])).
  assert (D2 := ltac:(first [exact (S8 cf Hok (other X) s HB)|exact (S8 cf (other X) s HB)])). rewrite other_other in D2.
  revert D1 D2. unfold processFromMemCtrl.
  destruct (loc_in (getp X s)) as [|m rest] eqn:Er; [cbn; rewrite setp_same; auto|].
  pose proof (ex_li cf s X (b_ex _ _ HB)) as E. rewrite Er in E.
  assert (Hk : isDR m \/ isWD m).
  { inversion E as [|? ? Hm _]; subst. destruct (ex_cls cf X m Hm) as [Ho|Ho].
    - right. pose proof (k_lip _ _ _ (d_K _ _ _ (dir cf s X HB))) as K. unfold KF, Pc in K.
      rewrite Er, fo_cons_own in K by auto. inversion K; auto.
    - left. pose proof (k_lis _ _ _ (d_K _ _ _ (dir cf s (other X) HB))) as K. unfold KF, Sc in K.
      rewrite other_other, Er, fo_cons_own in K by auto. inversion K; auto. }
  destruct Hk as [(q & ->)|(q & ->)]; cbn [fst]; intros D1 D2; asm X HB;
    try apply (crashed_of cf s X HB); eapply tail_F; eauto.
Qed.

Lemma X7 X s : INVB s -> notP1 (getp X s) -> INVB (setp X (fst (processFromCtrlPort (getp X s))) s).
Proof.
  intros HB HQ.
  assert (D1 := ltac:(first [exact (P7 cf Hok X s HB HQ)|exact (P7 cf X s HB HQ)])).
  assert (D2 := ltac:(first [exact (S7 cf Hok (other X) s HB)|exact (S7 cf (other X) s HB)])). rewrite other_other in D2.
  revert D1 D2. unfold processFromCtrlPort.
  destruct (handling (getp X s)); [cbn; rewrite setp_same; auto|].
  destruct (d_queue _ _ _ (dir cf s X HB)) as (wt & Ew & _). unfold Pc in Ew. rewrite Ew.
  destruct wt as [|r wt]; cbn [map fst]; [rewrite setp_same; auto|].
  intros D1 D2. asm X HB. apply (crashed_of cf s X HB).
Qed.

Lemma X9 X s : INVB s -> INVB (setp X (fst (processPageMigrationReqFromCtrlPort (getp X s))) s).
Proof.
  intros HB.
  assert (D1 := ltac:(first [exact (P9 cf Hok X s HB)|exact (P9 cf X s HB)])).
  assert (D2 := ltac:(first [exact (S9 cf Hok (other X) s HB)|exact (S9 cf (other X) s HB)])). rewrite other_other in D2.
  revert D1 D2. unfold processPageMigrationReqFromCtrlPort.
  destruct (cur_mig (getp X s)); [|cbn; rewrite setp_same; auto].
  destruct (handling (getp X s)); [cbn; rewrite setp_same; auto|].
  destruct (gen_pulls _ _ _ _ _ _ _) as [ps ws]. cbn [fst].
  intros D1 D2. asm X HB. apply (crashed_of cf s X HB).
Qed.

Lemma X10 X s : INVB s -> INVB (setp X (fst (processReadPageReqFromAnotherPMC (getp X s))) s).
Proof.
  intros HB.
  assert (D1 := ltac:(first [exact (P10 cf Hok X s HB)|exact (P10 cf X s HB)])).
  assert (D2 := ltac:(first [exact (S10 cf Hok (other X) s HB)|exact (S10 cf (other X) s HB)])). rewrite other_other in D2.
  revert D1 D2. unfold processReadPageReqFromAnotherPMC.
  destruct (is_nil (cur_pull (getp X s))); [cbn; rewrite setp_same; auto|].
  cbn [fst]. intros D1 D2. asm X HB. apply (crashed_of cf s X HB).
Qed.

Lemma X11 X s : INVB s -> INVB (setp X (fst (processDataReadyRspFromMemCtrl (getp X s))) s).
Proof.
  intros HB.
  assert (D1 := ltac:(first [exact (P11 cf Hok X s HB)|exact (P11 cf X s HB)])).
  assert (D2 := ltac:(first [exact (S11 cf Hok (other X) s HB)|exact (S11 cf (other X) s HB)])). rewrite other_other in D2.
  revert D1 D2. unfold processDataReadyRspFromMemCtrl.
  destruct (is_nil (data_ready (getp X s))); [cbn; rewrite setp_same; auto|].
  cbn [fst]. intros D1 D2. asm X HB. apply (crashed_of cf s X HB).
Qed.

Notation TFW w := (TF (R w) (L w) (M w) (R (other w)) (L (other w)) (M (other w)) (s0 (other w))).

Lemma X12 X s : INVB s -> INVB (setp X (fst (processDataPullRsp (getp X s))) s).
Proof.
  intros HB.
  assert (D1 := ltac:(first [exact (P12 cf Hok X s HB)|exact (P12 cf X s HB)])).
  assert (D2 := ltac:(first [exact (S12 cf Hok (other X) s HB)|exact (S12 cf (other X) s HB)])). rewrite other_other in D2.
  revert D1 D2. unfold processDataPullRsp.
  case_eq (is_nil (recv_data (getp X s))); intros En; [cbn; rewrite setp_same; auto|].
  pose proof (dir cf s X HB) as Hd.
  destruct (phasew_tf cf X s (d_phase _ _ _ Hd)) as (r & b & Ecm & Eh & Etc & HT).
  { left. unfold toks1, Pc. destruct (recv_data (getp X s)); [discriminate|].
    intros E. repeat (apply app_eq_nil in E; destruct E as [_ E]). discriminate. }
  set (rest := map MPullReq (to_pull (getp X s)) ++ FO X (rem_out (getp X s)) ++ FO X (net s) ++
    FO X (rem_in (getp (other X) s)) ++ map MPullReq (cur_pull (getp (other X) s)) ++
    map MRdReq (to_read (getp (other X) s)) ++ FO X (loc_out (getp (other X) s)) ++ FO X (getmq (other X) s) ++
    FO X (getmr (other X) s) ++ FO X (loc_in (getp (other X) s)) ++ map MDReady (data_ready (getp (other X) s)) ++
    map MPullRsp (to_rsp (getp (other X) s)) ++ FO X (rem_out (getp (other X) s)) ++ FO X (rem_in (getp X s))).
  assert (P : Permutation (T1 X s) (map MPullRsp (recv_data (getp X s)) ++ rest))
    by (unfold toks1, rest, Pc, Sc; perm).
  eapply TF_perm in HT; [|exact P|reflexivity|reflexivity].
  destruct (names4 cf Hok X) as (N1 & N2 & N3 & N4 & N5).
  apply (TF_pull _ _ _ _ _ _ _ N1 N2 N3 N4 N5) in HT. destruct HT as (ws & idm' & E & HT).
  destruct (cfg_of cf s X HB) as (E1 & E2 & E3 & E4 & E5).
  rewrite E3, E4. unfold Pc in E. rewrite E. cbn [fst]. intros D1 D2. asm X HB. apply (crashed_of cf s X HB).
Qed.

Lemma X13 X s : INVB s -> INVB (setp X (fst (processWriteDoneRspFromMemCtrl (getp X s))) s).
Proof.
  intros HB.
  assert (D1 := ltac:(first [exact (P13 cf Hok X s HB)|exact (P13 cf X s HB)])).
  assert (D2 := ltac:(first [exact (S13 cf Hok (other X) s HB)|exact (S13 cf (other X) s HB)])). rewrite other_other in D2.
  revert D1 D2. unfold processWriteDoneRspFromMemCtrl.
  case_eq (recv_wdone (getp X s)); [intros wd Ew|intros Ew; cbn; rewrite setp_same; auto].
  pose proof (dir cf s X HB) as Hd.
  destruct (phasew_tf cf X s (d_phase _ _ _ Hd)) as (r & b & Ecm & Eh & Etc & HT).
  { right; right. unfold toks3, Pc. rewrite Ew. cbn.
    intros E. repeat (apply app_eq_nil in E; destruct E as [_ E]). discriminate. }
  assert (P3 : Permutation (T3 X s) (MWDone wd :: (FO X (getmr X s) ++ FO X (loc_in (getp X s)))))
    by (unfold toks3, Pc; rewrite Ew; cbn; perm).
  assert (Hpos : (num_pending (getp X s) - 1 <? 0)%Z = false).
  { destruct HT. apply Permutation_length in P3. cbn [length] in P3. apply Z.ltb_ge. unfold Pc in *. lia. }
  cbv zeta. rewrite Hpos. unfold Pc in Ecm. rewrite Ecm.
  destruct (num_pending (getp X s) - 1 =? 0)%Z; cbn [fst]; intros D1 D2; asm X HB; apply (crashed_of cf s X HB).
Qed.

(** ** A whole tick of controller [X] *)
Definition QB (s : sys) : Prop := Q (pa s) /\ Q (pb s).
Definition Inv2B (s : sys) : Prop := INVB s /\ QB s.

Definition StepX (X : who) (Pre Post : sys -> Prop) (f : pmc -> pmc * bool) : Prop :=
  forall s, Pre s -> Post (setp X (fst (f (getp X s))) s).

Lemma andthen_X X Pre Mid Post f g :
  StepX X Pre Mid f -> (forall s, Mid s -> crashed (getp X s) = false) -> StepX X Mid Post g ->
  StepX X Pre Post (andthen f g).
Proof.
  intros Hf Hc Hg s Hs. unfold andthen. specialize (Hf s Hs).
  destruct (f (getp X s)) as [p1 b1]. cbn [fst] in Hf.
  pose proof (Hc _ Hf) as Hcr. rewrite getp_setp in Hcr. rewrite Hcr.
  specialize (Hg _ Hf). rewrite getp_setp in Hg. destruct (g p1) as [p2 b2]. cbn [fst] in *.
  rewrite setp_twice in Hg. exact Hg.
Qed.

(** what the other controller's [Q] needs: it is untouched *)
Lemma Q_other X p s : Q (getp (other X) (setp X p s)) <-> Q (getp (other X) s).
Proof. rewrite getp_setp_o. tauto. Qed.

Definition QX (X : who) (s : sys) : Prop := Q (getp X s).
Definition QO (X : who) (s : sys) : Prop := Q (getp (other X) s).

Lemma tick_X X : StepX X (fun s => INVB s /\ QX X s /\ QO X s) (fun s => INVB s /\ QX X s /\ QO X s) tick.
Proof.
  unfold tick, stages. cbn [fold_right]. unfold QX, QO.
  pose (I2 := fun s => INVB s /\ Q (getp X s) /\ Q (getp (other X) s)).
  pose (IW := fun s => INVB s /\ recv_wdone (getp X s) = None /\ Q (getp (other X) s)).
  pose (I0 := fun s => INVB s /\ Q (getp (other X) s)).
  pose (IN := fun s => INVB s /\ notP1 (getp X s) /\ Q (getp (other X) s)).
  assert (C2 : forall s, I2 s -> crashed (getp X s) = false) by (intros s [H _]; apply (crashed_of cf s X H)).
  assert (CW : forall s, IW s -> crashed (getp X s) = false) by (intros s [H _]; apply (crashed_of cf s X H)).
  assert (C0 : forall s, I0 s -> crashed (getp X s) = false) by (intros s [H _]; apply (crashed_of cf s X H)).
  assert (CN : forall s, IN s -> crashed (getp X s) = false) by (intros s [H _]; apply (crashed_of cf s X H)).
  apply (andthen_X X I2 I2); [intros s (H & HQ & HO); split; [apply X1; auto|rewrite getp_setp, getp_setp_o; split; auto; apply (keepQ1 _ _ _ _ (HM cf Hok PA) (HM cf Hok PB)); auto]|exact C2|].
  apply (andthen_X X I2 I2); [intros s (H & HQ & HO); split; [apply X2; auto|rewrite getp_setp, getp_setp_o; split; auto; apply (keepQ2 _ _ _ _ (HM cf Hok PA) (HM cf Hok PB)); auto]|exact C2|].
  apply (andthen_X X I2 I2); [intros s (H & HQ & HO); split; [apply X3; auto|rewrite getp_setp, getp_setp_o; split; auto; apply (keepQ3 _ _ _ _ (HM cf Hok PA) (HM cf Hok PB)); auto]|exact C2|].
  apply (andthen_X X I2 I2); [intros s (H & HQ & HO); split; [apply X4; auto|rewrite getp_setp, getp_setp_o; split; auto; apply (keepQ4 _ _ _ _ (HM cf Hok PA) (HM cf Hok PB)); auto]|exact C2|].
  apply (andthen_X X I2 I2); [intros s (H & HQ & HO); split; [apply X5; auto|rewrite getp_setp, getp_setp_o; split; auto; apply (keepQ5 _ _ _ _ (HM cf Hok PA) (HM cf Hok PB)); auto]|exact C2|].
  apply (andthen_X X I2 I2); [intros s (H & HQ & HO); split; [apply X6; auto|rewrite getp_setp, getp_setp_o; split; auto; apply (keepQ6 _ _ _ _ (HM cf Hok PA) (HM cf Hok PB)); auto]|exact C2|].
  apply (andthen_X X I2 IW); [intros s (H & HQ & HO); split; [apply X7; auto; apply HQ|rewrite getp_setp, getp_setp_o; split; auto; apply (keep7 _ _ _ _ (HM cf Hok PA) (HM cf Hok PB)); auto]|exact CW|].
  apply (andthen_X X IW I0); [intros s (H & HQ & HO); split; [apply X8; auto|rewrite getp_setp_o; auto]|exact C0|].
  apply (andthen_X X I0 IN); [intros s (H & HO); split; [apply X9; auto|rewrite getp_setp, getp_setp_o; split; auto; apply (get9 _ _ _ _ (HM cf Hok PA) (HM cf Hok PB)); auto]|exact CN|].
  apply (andthen_X X IN IN); [intros s (H & HQ & HO); split; [apply X10; auto|rewrite getp_setp, getp_setp_o; split; auto; apply (keep10 _ _ _ _ (HM cf Hok PA) (HM cf Hok PB)); auto]|exact CN|].
  apply (andthen_X X IN IN); [intros s (H & HQ & HO); split; [apply X11; auto|rewrite getp_setp, getp_setp_o; split; auto; apply (keep11 _ _ _ _ (HM cf Hok PA) (HM cf Hok PB)); auto]|exact CN|].
  apply (andthen_X X IN IN); [intros s (H & HQ & HO); split; [apply X12; auto|rewrite getp_setp, getp_setp_o; split; auto; apply (keep12 _ _ _ _ (HM cf Hok PA) (HM cf Hok PB)); auto]|exact CN|].
  apply (andthen_X X IN I2); [intros s (H & HQ & HO); split; [apply X13; auto|rewrite getp_setp, getp_setp_o; split; auto; apply (get13 _ _ _ _ (HM cf Hok PA) (HM cf Hok PB)); auto]|exact C2|].
  intros s H. cbn. rewrite setp_same. exact H.
Qed.

End Bi4.
