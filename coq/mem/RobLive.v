(** Liveness of the reorder-buffer model: a fair environment round, a ranking function that every
    round strictly decreases while work remains, and the end-to-end consequence used by props/C15.v
    ([rob_liveness]): from a non-crashed, non-flushing state with an empty control queue the buffer
    drains completely within [rank] rounds and every accepted, non-discarded request is answered. *)
From Coq Require Import Arith Lia.
From VLib Require Import Akita ListX.
From VMem Require Import Rob RobProofs RobCtl.
From RecordUpdate Require Import RecordSet.
Import RecordSetNotations.
Open Scope N_scope.

(** * the state the drain starts from *)

(** stored responses are responses (the bottom unit's contract; anything else is a Go panic) *)
Definition rsp_typed (t : tx) : Prop := forall r, t_rsp t = Some r -> is_rsp r = true.

(** bottom IDs that are still "on their way": forwarded requests waiting in the bottom port, requests
    the bottom unit has retrieved and not yet answered ([pend], the environment's state), and
    responses waiting in the bottom port *)
Definition cover (s : rob) (pend : list msg) : list N :=
  map m_id (bot_out s) ++ map m_id pend ++ map m_rspto (bot_in s).

Record Good (s : rob) (pend : list msg) : Prop := {
  gd_nc  : crashed s = false;
  gd_nf  : flushing s = false;
  gd_ctl : ctl_in s = [];
  gd_w   : (1 <= width s)%nat;
  gd_c   : (1 <= cap s)%nat;
  gd_top : Forall (fun m => is_req m = true) (top_in s);
  gd_bot : Forall (fun m => is_rsp m = true) (bot_in s);
  gd_txs : Forall rsp_typed (txs s);
  gd_cov : forall t, In t (txs s) -> t_rsp t = None -> In (t_bid t) (cover s pend)
}.

(** * the ranking function: remaining hops of every message in the system *)
Definition rank' (s : rob) : nat :=
  (6 * length (top_in s) + 2 * length (txs s) + 3 * length (bot_out s)
   + length (bot_in s) + length (top_out s))%nat.
Definition rank (s : rob) (pend : list msg) : nat := (rank' s + 2 * length pend)%nat.

Definition flag (b : bool) : nat := if b then 1%nat else 0%nat.

(** a pipeline stage keeps [Good] and pays for reported progress with rank *)
Definition stage_ok (f : rob -> rob * bool) : Prop :=
  forall s pend, Inv s -> Good s pend ->
    Good (fst (f s)) pend /\ (rank' (fst (f s)) + flag (snd (f s)) <= rank' s)%nat.

Ltac same_state G := split; [exact G|cbn; lia].

Lemma top_down_ok : stage_ok top_down.
Proof.
  intros s pend HI G. unfold top_down.
  destruct (top_in s) as [|req rest] eqn:Etop; [same_state G|].
  destruct (Nat.leb (cap s) (length (txs s))) eqn:Efull; [same_state G|].
  assert (Hreq : is_req req = true /\ Forall (fun m => is_req m = true) rest).
  { pose proof (gd_top _ _ G) as H. rewrite Etop in H. inversion H; auto. }
  destruct Hreq as [Hreq Hrest]. rewrite Hreq. cbn [negb].
  destruct (can_push (pcap s) (bot_out s)) eqn:Epush; cbn [negb]; [|same_state G].
  destruct G as [Gnc Gnf Gctl Gw Gc Gtop Gbot Gtxs Gcov].
  split.
  - constructor; cbn; auto.
    + apply Forall_app; split; auto. constructor; auto. intros r Hr; discriminate.
    + intros t Hin Hn. unfold cover; cbn. apply in_app_iff in Hin as [Hin|[<-|[]]].
      * specialize (Gcov t Hin Hn). unfold cover in Gcov. rewrite map_app.
        rewrite !in_app_iff in *. tauto.
      * cbn. rewrite map_app, !in_app_iff. left; right. cbn. left.
        unfold fwd_req. destruct (m_kind req); reflexivity.
  - unfold rank'; cbn. rewrite Etop, !app_length; cbn [length]. lia.
Qed.

Lemma set_rsp_typed id r l :
  is_rsp r = true -> Forall rsp_typed l -> Forall rsp_typed (set_rsp id r l).
Proof.
  intros Hr; induction 1 as [|t l Ht Hl IH]; simpl; auto.
  destruct (t_bid t =? id); constructor; auto.
  intros r' Hr'; cbn in Hr'. inversion Hr'; subst; auto.
Qed.

Lemma set_rsp_none id r l t' :
  NoDup (map t_bid l) -> In t' (set_rsp id r l) -> t_rsp t' = None ->
  In t' l /\ t_bid t' <> id.
Proof.
  induction l as [|t l IH]; simpl; [tauto|]. intros Hn Hin Hnone.
  inversion Hn as [|? ? Hni Hn']; subst.
  destruct (t_bid t =? id) eqn:E.
  - apply N.eqb_eq in E. destruct Hin as [<-|Hin]; [cbn in Hnone; discriminate|].
    split; auto. intros E'. apply Hni. rewrite E, <- E'. now apply in_map.
  - apply N.eqb_neq in E. destruct Hin as [<-|Hin]; [split; auto|].
    destruct (IH Hn' Hin Hnone); auto.
Qed.

Lemma parse_bottom_ok : stage_ok parse_bottom.
Proof.
  intros s pend HI G. unfold parse_bottom.
  destruct (bot_in s) as [|r rest] eqn:Ebot; [same_state G|].
  destruct G as [Gnc Gnf Gctl Gw Gc Gtop Gbot Gtxs Gcov].
  rewrite Ebot in Gbot. inversion Gbot as [|? ? Hr Hrest]; subst.
  split.
  - constructor; cbn; auto.
    + apply set_rsp_typed; auto.
    + intros t Hin Hn.
      destruct (set_rsp_none _ _ _ _ (i_nodup _ HI) Hin Hn) as [Hin' Hne].
      specialize (Gcov t Hin' Hn). unfold cover in *; cbn. rewrite Ebot in Gcov.
      rewrite !in_app_iff in *. cbn [map In] in Gcov. intuition congruence.
  - unfold rank'; cbn. rewrite Ebot, set_rsp_length. cbn [length]. lia.
Qed.

Lemma bottom_up_ok : stage_ok bottom_up.
Proof.
  intros s pend HI G. unfold bottom_up.
  destruct (txs s) as [|t rest] eqn:Etx; [same_state G|].
  destruct (t_rsp t) as [r|] eqn:Er; [|same_state G].
  assert (Hk : is_rsp r = true).
  { pose proof (gd_txs _ _ G) as H. rewrite Etx in H. inversion H as [|? ? Ht _]; subst. now apply Ht. }
  rewrite Hk. cbn [negb].
  destruct (can_push (pcap s) (top_out s)) eqn:Epush; cbn [negb]; [|same_state G].
  destruct G as [Gnc Gnf Gctl Gw Gc Gtop Gbot Gtxs Gcov].
  split.
  - constructor; cbn; auto.
    + rewrite Etx in Gtxs. now inversion Gtxs.
    + intros t' Hin Hn. apply (Gcov t'); auto. rewrite Etx. now right.
  - unfold rank'; cbn. rewrite Etx, !app_length; cbn [length]. lia.
Qed.

Lemma iter_ok f :
  stage_ok f -> (forall s, Inv s -> Inv (fst (f s))) -> forall n, stage_ok (iter n f).
Proof.
  intros Hf Hi n; induction n as [|n IH]; intros s pend HI G; cbn [iter]; [same_state G|].
  destruct (Hf s pend HI G) as [G1 R1]. specialize (Hi s HI).
  destruct (f s) as [s1 p1]; cbn [fst snd] in *.
  destruct (IH s1 pend Hi G1) as [G2 R2].
  destruct (iter n f s1) as [s2 p2]; cbn [fst snd] in *.
  split; auto. destruct p1, p2; cbn in *; lia.
Qed.

Lemma run_pipeline_ok : stage_ok run_pipeline.
Proof.
  intros s pend HI G. unfold run_pipeline.
  destruct (iter_ok _ bottom_up_ok bottom_up_inv (width s) s pend HI G) as [G1 R1].
  pose proof (iter_inv _ bottom_up_inv (width s) s HI) as I1.
  destruct (iter (width s) bottom_up s) as [s1 p1]; cbn [fst snd] in *.
  destruct (iter_ok _ parse_bottom_ok parse_bottom_inv (width s) s1 pend I1 G1) as [G2 R2].
  pose proof (iter_inv _ parse_bottom_inv (width s) s1 I1) as I2.
  destruct (iter (width s) parse_bottom s1) as [s2 p2]; cbn [fst snd] in *.
  destruct (iter_ok _ top_down_ok top_down_inv (width s) s2 pend I2 G2) as [G3 R3].
  destruct (iter (width s) top_down s2) as [s3 p3]; cbn [fst snd] in *.
  split; auto. destruct p1, p2, p3; cbn in *; lia.
Qed.

Lemma tick_eq s pend : Good s pend -> tick s = run_pipeline s.
Proof.
  intros G. unfold tick, process_ctl. rewrite (gd_ctl _ _ G). cbv iota beta.
  rewrite (gd_nc _ _ G), (gd_nf _ _ G). destruct (run_pipeline s) as [s2 p2]. reflexivity.
Qed.

Lemma tick_ok : stage_ok tick.
Proof. intros s pend HI G. rewrite (tick_eq s pend G). now apply run_pipeline_ok. Qed.

(** * a tick that reports no progress: every stage was blocked in the very same state *)
Lemma iter_head_false f n s :
  (1 <= n)%nat -> snd (iter n f s) = false -> snd (f s) = false.
Proof.
  destruct n; [lia|]. intros _. cbn [iter]. destruct (f s) as [s1 p1].
  destruct (iter n f s1) as [s2 p2]. cbn. intros H; apply Bool.orb_false_iff in H; tauto.
Qed.

Lemma tick_stuck s pend :
  Inv s -> Good s pend -> snd (tick s) = false ->
  fst (tick s) = s /\ snd (bottom_up s) = false /\ snd (parse_bottom s) = false /\
  snd (top_down s) = false.
Proof.
  intros HI G Hp.
  assert (Hq : fst (tick s) = s).
  { apply tick_quiet; auto. apply (gd_nc _ pend). now apply tick_ok. }
  split; auto. revert Hp. rewrite (tick_eq s pend G). unfold run_pipeline.
  pose proof (iter_head_false bottom_up (width s) s (gd_w _ _ G)) as F1.
  pose proof (iter_quiet _ bottom_up_quiet bottom_up_mono (width s) s) as Q1.
  destruct (iter_ok _ bottom_up_ok bottom_up_inv (width s) s pend HI G) as [G1 _].
  pose proof (iter_inv _ bottom_up_inv (width s) s HI) as I1.
  destruct (iter (width s) bottom_up s) as [s1 p1]; cbn [fst snd] in *.
  pose proof (iter_head_false parse_bottom (width s) s1 (gd_w _ _ G)) as F2.
  pose proof (iter_quiet _ parse_bottom_quiet parse_bottom_mono (width s) s1) as Q2.
  destruct (iter_ok _ parse_bottom_ok parse_bottom_inv (width s) s1 pend I1 G1) as [G2 _].
  destruct (iter (width s) parse_bottom s1) as [s2 p2]; cbn [fst snd] in *.
  pose proof (iter_head_false top_down (width s) s2 (gd_w _ _ G)) as F3.
  destruct (iter (width s) top_down s2) as [s3 p3]; cbn [fst snd] in *.
  intros Hp.
  destruct p1; [discriminate|]. destruct p2; [discriminate|]. destruct p3; [discriminate|].
  assert (E1 : s1 = s) by (apply Q1; auto; apply (gd_nc _ _ G1)). subst s1.
  assert (E2 : s2 = s) by (apply Q2; auto; apply (gd_nc _ _ G2)). subst s2.
  auto.
Qed.

Lemma pcap_pos s pend : Good s pend -> (1 <= pcap s)%nat.
Proof. intros G. pose proof (gd_w _ _ G). unfold pcap. lia. Qed.

Lemma stuck_means_done s pend :
  Good s pend ->
  snd (bottom_up s) = false -> snd (parse_bottom s) = false -> snd (top_down s) = false ->
  top_out s = [] -> bot_out s = [] ->
  (pend <> [] /\ (length (bot_in s) < pcap s)%nat) \/ rank s pend = 0%nat.
Proof.
  intros G B1 B2 B3 Et Eb. pose proof (pcap_pos _ _ G) as Hp.
  assert (Ebi : bot_in s = []).
  { unfold parse_bottom in B2. destruct (bot_in s); [reflexivity|discriminate]. }
  destruct pend as [|b pend].
  2:{ left. split; [discriminate|]. rewrite Ebi. cbn. lia. }
  right.
  assert (Hcp : forall l, l = [] -> can_push (pcap s) l = true).
  { intros l ->. unfold can_push. apply Nat.ltb_lt. cbn. lia. }
  assert (Etx : txs s = []).
  { unfold bottom_up in B1. destruct (txs s) as [|t rest] eqn:Etx; [reflexivity|]. exfalso.
    destruct (t_rsp t) as [r|] eqn:Er.
    - assert (Hk : is_rsp r = true).
      { pose proof (gd_txs _ _ G) as H. rewrite Etx in H. inversion H as [|? ? Ht _]; subst. now apply Ht. }
      rewrite Hk, (Hcp _ Et) in B1. discriminate.
    - pose proof (gd_cov _ _ G t) as H. rewrite Etx in H. specialize (H (or_introl eq_refl) Er).
      unfold cover in H. rewrite Eb, Ebi in H. destruct H. }
  assert (Eti : top_in s = []).
  { unfold top_down in B3. destruct (top_in s) as [|req rest] eqn:Eti; [reflexivity|]. exfalso.
    rewrite Etx in B3. cbn [length] in B3.
    pose proof (gd_c _ _ G) as Hc.
    assert (Hl : Nat.leb (cap s) 0 = false) by (apply Nat.leb_gt; lia).
    rewrite Hl in B3.
    assert (Hreq : is_req req = true).
    { pose proof (gd_top _ _ G) as H. rewrite Eti in H. now inversion H. }
    rewrite Hreq, (Hcp _ Eb) in B3. discriminate. }
  unfold rank, rank'. rewrite Etx, Eti, Ebi, Et, Eb. reflexivity.
Qed.

(** * the fair environment, built from the model's own events *)

Lemma run_cons s e evs : run s (e :: evs) = run (fst (step s e)) evs.
Proof. reflexivity. Qed.

Lemma step_tick_fst s : crashed s = false -> fst (step s ETick) = fst (tick s).
Proof.
  intros H. unfold step. rewrite H. destruct (tick s) as [s' p]. cbn.
  destruct (crashed s'); reflexivity.
Qed.

(** retrieve everything that waits in the top port *)
Lemma retr_top_n pend : forall n s,
  Good s pend -> length (top_out s) = n ->
  Good (run s (repeat ERetrTop n)) pend /\
  (rank' (run s (repeat ERetrTop n)) + n = rank' s)%nat /\
  top_out (run s (repeat ERetrTop n)) = [].
Proof.
  induction n as [|n IH]; intros s G Hl.
  - cbn. split; [exact G|split; [lia|]]. destruct (top_out s); [reflexivity|discriminate].
  - destruct (top_out s) as [|m r] eqn:E; [discriminate|]. cbn [length] in Hl.
    cbn [repeat]. rewrite run_cons.
    assert (Es : fst (step s ERetrTop) = s <| top_out := r |> <| g_retr := g_retr s ++ [m] |>).
    { unfold step. rewrite (gd_nc _ _ G), E. reflexivity. }
    rewrite Es.
    assert (G1 : Good (s <| top_out := r |> <| g_retr := g_retr s ++ [m] |>) pend).
    { destruct G. constructor; cbn; auto. }
    destruct (IH _ G1) as (G2 & R2 & T2); [cbn; lia|].
    split; [exact G2|split; [|exact T2]].
    assert (R1 : (rank' (s <| top_out := r |> <| g_retr := g_retr s ++ [m] |>) + 1 = rank' s)%nat).
    { unfold rank'; cbn. rewrite E. cbn [length]. lia. }
    lia.
Qed.

(** the bottom unit retrieves every forwarded request *)
Lemma retr_bot_n : forall n s pend,
  Good s pend -> length (bot_out s) = n ->
  Good (run s (repeat ERetrBot n)) (pend ++ bot_out s) /\
  (rank' (run s (repeat ERetrBot n)) + 3 * n = rank' s)%nat /\
  bot_out (run s (repeat ERetrBot n)) = [].
Proof.
  induction n as [|n IH]; intros s pend G Hl.
  - cbn. destruct (bot_out s) eqn:E; [|discriminate]. rewrite app_nil_r.
    split; [exact G|split; [lia|reflexivity]].
  - destruct (bot_out s) as [|m r] eqn:E; [discriminate|]. cbn [length] in Hl.
    cbn [repeat]. rewrite run_cons.
    assert (Es : fst (step s ERetrBot) = s <| bot_out := r |> <| g_bretr := g_bretr s ++ [m] |>).
    { unfold step. rewrite (gd_nc _ _ G), E. reflexivity. }
    rewrite Es.
    assert (G1 : Good (s <| bot_out := r |> <| g_bretr := g_bretr s ++ [m] |>) (pend ++ [m])).
    { destruct G as [Gnc Gnf Gctl Gw Gc Gtop Gbot Gtxs Gcov]. constructor; cbn; auto.
      intros t Hin Hn. specialize (Gcov t Hin Hn). unfold cover in *; cbn. rewrite E in Gcov.
      rewrite map_app. cbn [map] in *. rewrite !in_app_iff in *. cbn [In] in *. tauto. }
    destruct (IH _ _ G1) as (G2 & R2 & T2); [cbn; lia|].
    cbn in G2. rewrite <- app_assoc in G2. cbn in G2.
    split; [exact G2|split; [|exact T2]].
    assert (R1 : (rank' (s <| bot_out := r |> <| g_bretr := g_bretr s ++ [m] |>) + 3 = rank' s)%nat).
    { unfold rank'; cbn. rewrite E. cbn [length]. lia. }
    lia.
Qed.

(** the bottom unit's contract: a response of the right kind that names the request it answers *)
Definition bottom_contract (rf : msg -> msg) : Prop :=
  forall b, is_rsp (rf b) = true /\ m_rspto (rf b) = m_id b.

(** the bottom unit answers its pending requests in order, as long as the port accepts *)
Fixpoint deliver (rf : msg -> msg) (s : rob) (pend : list msg) : rob * list msg :=
  match pend with
  | [] => (s, [])
  | b :: p' =>
    match step s (EDeliverBot (rf b)) with
    | (s', OAcc true) => deliver rf s' p'
    | _ => (s, pend)
    end
  end.

Lemma step_deliver_bot s m :
  crashed s = false ->
  step s (EDeliverBot m) =
  if can_push (pcap s) (bot_in s) then (s <| bot_in := bot_in s ++ [m] |>, OAcc true)
  else (s, OAcc false).
Proof. intros H. unfold step. rewrite H. reflexivity. Qed.

Lemma deliver_ok rf :
  bottom_contract rf -> forall pend s, Inv s -> Good s pend ->
  Inv (fst (deliver rf s pend)) /\
  Good (fst (deliver rf s pend)) (snd (deliver rf s pend)) /\
  (rank (fst (deliver rf s pend)) (snd (deliver rf s pend)) <= rank s pend)%nat /\
  (pend <> [] -> (length (bot_in s) < pcap s)%nat ->
   (rank (fst (deliver rf s pend)) (snd (deliver rf s pend)) < rank s pend)%nat).
Proof.
  intros Hrf; induction pend as [|b p' IH]; intros s HI G.
  - cbn. split; [exact HI|split; [exact G|split; [lia|]]]. intros H; now destruct H.
  - cbn [deliver]. pose proof (step_inv s (EDeliverBot (rf b)) HI) as I1.
    rewrite (step_deliver_bot s (rf b) (gd_nc _ _ G)) in *.
    destruct (can_push (pcap s) (bot_in s)) eqn:Epush; cbn [fst snd] in *.
    + assert (G1 : Good (s <| bot_in := bot_in s ++ [rf b] |>) p').
      { destruct (Hrf b) as [Hk Hto].
        destruct G as [Gnc Gnf Gctl Gw Gc Gtop Gbot Gtxs Gcov]. constructor; cbn; auto.
        - apply Forall_app; split; auto.
        - intros t Hin Hn. specialize (Gcov t Hin Hn). unfold cover in *; cbn.
          rewrite map_app. cbn [map] in *. rewrite Hto. rewrite !in_app_iff in *.
          cbn [In] in *. tauto. }
      destruct (IH _ I1 G1) as (I2 & G2 & R2 & _).
      assert (R1 : (rank (s <| bot_in := bot_in s ++ [rf b] |>) p' + 1 = rank s (b :: p'))%nat).
      { unfold rank, rank'; cbn. rewrite app_length. cbn [length]. lia. }
      split; [exact I2|split; [exact G2|split; [lia|]]]. intros _ _. lia.
    + split; [exact HI|split; [exact G|split; [lia|]]]. intros _ Hroom. unfold can_push in Epush.
      apply Nat.ltb_ge in Epush. lia.
Qed.

(** one fair round: the buffer ticks; the requester collects every response; the bottom unit
    collects every forwarded request and answers what it holds, oldest first, while the port
    accepts.  No new request and no control message arrives. *)
Definition round (rf : msg -> msg) (x : rob * list msg) : rob * list msg :=
  let s1 := fst (step (fst x) ETick) in
  let s2 := run s1 (repeat ERetrTop (length (top_out s1))) in
  let s3 := run s2 (repeat ERetrBot (length (bot_out s2))) in
  deliver rf s3 (snd x ++ bot_out s2).

Fixpoint rounds (rf : msg -> msg) (n : nat) (x : rob * list msg) : rob * list msg :=
  match n with O => x | S n' => rounds rf n' (round rf x) end.

Lemma round_ok rf :
  bottom_contract rf -> forall s pend, Inv s -> Good s pend ->
  Inv (fst (round rf (s, pend))) /\
  Good (fst (round rf (s, pend))) (snd (round rf (s, pend))) /\
  (rank (fst (round rf (s, pend))) (snd (round rf (s, pend))) <= pred (rank s pend))%nat.
Proof.
  intros Hrf s pend HI G. unfold round. cbn [fst snd].
  rewrite (step_tick_fst s (gd_nc _ _ G)).
  destruct (tick_ok s pend HI G) as [G1 R1]. pose proof (tick_inv s HI) as I1.
  destruct (snd (tick s)) eqn:Ep.
  - remember (fst (tick s)) as s1 eqn:E1.
    destruct (retr_top_n pend _ s1 G1 eq_refl) as (G2 & R2 & _).
    pose proof (run_inv (repeat ERetrTop (length (top_out s1))) s1 I1) as I2.
    remember (run s1 (repeat ERetrTop (length (top_out s1)))) as s2 eqn:E2.
    destruct (retr_bot_n _ s2 pend G2 eq_refl) as (G3 & R3 & _).
    pose proof (run_inv (repeat ERetrBot (length (bot_out s2))) s2 I2) as I3.
    remember (run s2 (repeat ERetrBot (length (bot_out s2)))) as s3 eqn:E3.
    destruct (deliver_ok rf Hrf _ s3 I3 G3) as (I4 & G4 & R4 & _).
    split; [|split]; auto. unfold rank in *. rewrite app_length in R4. cbn [flag] in R1. lia.
  - destruct (tick_stuck s pend HI G Ep) as (Eq & B1 & B2 & B3). rewrite Eq in *.
    destruct (retr_top_n pend _ s G eq_refl) as (G2 & R2 & _).
    pose proof (run_inv (repeat ERetrTop (length (top_out s))) s HI) as I2.
    destruct (Nat.eq_dec (length (top_out s)) 0) as [Z1|NZ1].
    2:{ remember (run s (repeat ERetrTop (length (top_out s)))) as s2 eqn:E2.
        destruct (retr_bot_n _ s2 pend G2 eq_refl) as (G3 & R3 & _).
        pose proof (run_inv (repeat ERetrBot (length (bot_out s2))) s2 I2) as I3.
        remember (run s2 (repeat ERetrBot (length (bot_out s2)))) as s3 eqn:E3.
        destruct (deliver_ok rf Hrf _ s3 I3 G3) as (I4 & G4 & R4 & _).
        split; [|split]; auto. unfold rank in *. rewrite app_length in R4. lia. }
    rewrite Z1 in *. cbn [repeat] in *. change (run s []) with s in *.
    destruct (retr_bot_n _ s pend G eq_refl) as (G3 & R3 & _).
    pose proof (run_inv (repeat ERetrBot (length (bot_out s))) s HI) as I3.
    destruct (Nat.eq_dec (length (bot_out s)) 0) as [Z2|NZ2].
    2:{ remember (run s (repeat ERetrBot (length (bot_out s)))) as s3 eqn:E3.
        destruct (deliver_ok rf Hrf _ s3 I3 G3) as (I4 & G4 & R4 & _).
        split; [|split]; auto. unfold rank in *. rewrite app_length in R4. lia. }
    assert (Et : top_out s = []) by (now apply length_zero_iff_nil).
    assert (Eb : bot_out s = []) by (now apply length_zero_iff_nil).
    rewrite Z2 in *. cbn [repeat] in *. change (run s []) with s in *.
    rewrite Eb, app_nil_r in *.
    destruct (deliver_ok rf Hrf _ s HI G) as (I4 & G4 & R4 & S4).
    split; [|split]; auto.
    destruct (stuck_means_done s pend G B1 B2 B3 Et Eb) as [[Hne Hroom]|Hz].
    + specialize (S4 Hne Hroom). lia.
    + lia.
Qed.

Lemma rounds_ok rf :
  bottom_contract rf -> forall n s pend, Inv s -> Good s pend ->
  Inv (fst (rounds rf n (s, pend))) /\
  Good (fst (rounds rf n (s, pend))) (snd (rounds rf n (s, pend))) /\
  (rank (fst (rounds rf n (s, pend))) (snd (rounds rf n (s, pend))) <= rank s pend - n)%nat.
Proof.
  intros Hrf; induction n as [|n IH]; intros s pend HI G.
  - cbn. split; [exact HI|split; [exact G|lia]].
  - cbn [rounds]. destruct (round_ok rf Hrf s pend HI G) as (I1 & G1 & R1).
    destruct (round rf (s, pend)) as [s1 p1]; cbn [fst snd] in *.
    destruct (IH s1 p1 I1 G1) as (I2 & G2 & R2). split; [exact I2|split; [exact G2|lia]].
Qed.

(** * consequences *)
Lemma rank_zero s pend :
  rank s pend = 0%nat ->
  txs s = [] /\ top_in s = [] /\ top_out s = [] /\ bot_out s = [] /\ bot_in s = [] /\ pend = [].
Proof.
  unfold rank, rank'. intros H. repeat split; apply length_zero_iff_nil; lia.
Qed.

(** with every fate "answered" carrying its response, the RspTo sequence is the list of the
    non-discarded requests' IDs *)
Lemma resp_of_ids l :
  Forall fate_ok l -> map m_rspto (resp_of l) = map req_id (filter snd l).
Proof.
  induction 1 as [|[t b] l Hf Hl IH]; [reflexivity|].
  change (resp_of ((t, b) :: l)) with (resp1 (t, b) ++ resp_of l).
  rewrite map_app, IH. unfold resp1; cbn [fst snd filter]. destruct b; [|reflexivity].
  destruct (Hf eq_refl) as (r & Hr & _). cbn [fst] in Hr. rewrite Hr. cbn [map app].
  now rewrite answer_rspto.
Qed.

Definition drained_result (s' : rob) (pend' : list msg) : Prop :=
  crashed s' = false /\ flushing s' = false /\
  txs s' = [] /\ top_in s' = [] /\ top_out s' = [] /\ bot_out s' = [] /\ bot_in s' = [] /\
  pend' = [] /\
  g_retr s' = resp_of (g_fate s') /\
  map t_top (map fst (g_fate s')) = accepted (g_seen s') /\
  map fst (g_seen s') = g_deliv s' /\
  map m_rspto (g_retr s') = map req_id (filter snd (g_fate s')).

Theorem drain_liveness rf s pend n :
  bottom_contract rf -> Inv s -> Good s pend -> (rank s pend <= n)%nat ->
  drained_result (fst (rounds rf n (s, pend))) (snd (rounds rf n (s, pend))).
Proof.
  intros Hrf HI G Hn. destruct (rounds_ok rf Hrf n s pend HI G) as (I2 & G2 & R2).
  destruct (rounds rf n (s, pend)) as [s' p']; cbn [fst snd] in *.
  assert (Hz : rank s' p' = 0%nat) by lia.
  destruct (rank_zero _ _ Hz) as (E1 & E2 & E3 & E4 & E5 & E6).
  pose proof I2 as I2'. inv_split I2'.
  rewrite E1, app_nil_r in Hacc. rewrite E2, app_nil_r in Hdeliv. rewrite E3, app_nil_r in Hretr.
  unfold drained_result. repeat split; auto.
  - apply (gd_nc _ _ G2).
  - apply (gd_nf _ _ G2).
  - congruence.
  - rewrite Hretr, Hout. now apply resp_of_ids.
Qed.

(** * what the drain does to the logs: nothing is discarded, nothing is dropped, nothing new arrives *)
Definition only_served (s s' : rob) : Prop :=
  (exists k, g_fate s' = g_fate s ++ map (fun t => (t, true)) k) /\
  (exists j, g_seen s' = g_seen s ++ map (fun m => (m, true)) j) /\
  g_deliv s' = g_deliv s.

Lemma os_refl s : only_served s s.
Proof. split; [|split]; [exists []|exists []|]; cbn; now rewrite ?app_nil_r. Qed.
Lemma os_trans a b c : only_served a b -> only_served b c -> only_served a c.
Proof.
  intros ([k1 F1] & [j1 S1] & D1) ([k2 F2] & [j2 S2] & D2). split; [|split].
  - exists (k1 ++ k2). now rewrite F2, F1, map_app, app_assoc.
  - exists (j1 ++ j2). now rewrite S2, S1, map_app, app_assoc.
  - congruence.
Qed.

Ltac os_same := apply os_refl.
Ltac os_logs := split; [|split]; cbn; [exists []|exists []|]; cbn; now rewrite ?app_nil_r.

Lemma top_down_os s : only_served s (fst (top_down s)).
Proof.
  unfold top_down. destruct (top_in s) as [|req rest]; [os_same|].
  destruct (Nat.leb _ _); [os_same|].
  destruct (negb (is_req req)); [os_logs|].
  destruct (negb _); [os_same|].
  split; [|split]; cbn; [exists []; now rewrite app_nil_r|exists [req]; reflexivity|reflexivity].
Qed.
Lemma parse_bottom_os s : only_served s (fst (parse_bottom s)).
Proof. unfold parse_bottom. destruct (bot_in s); [os_same|os_logs]. Qed.
Lemma bottom_up_os s : only_served s (fst (bottom_up s)).
Proof.
  unfold bottom_up. destruct (txs s) as [|t rest]; [os_same|].
  destruct (t_rsp t); [|os_same].
  destruct (negb (is_rsp m)); [os_logs|].
  destruct (negb _); [os_same|].
  split; [|split]; cbn; [exists [t]; reflexivity|exists []; now rewrite app_nil_r|reflexivity].
Qed.
Lemma iter_os (f : rob -> rob * bool) :
  (forall s, only_served s (fst (f s))) -> forall n s, only_served s (fst (iter n f s)).
Proof.
  intros Hf; induction n as [|n IH]; intros s; cbn [iter]; [apply os_refl|].
  specialize (Hf s). destruct (f s) as [s1 p1]; cbn [fst] in Hf.
  specialize (IH s1). destruct (iter n f s1) as [s2 p2]; cbn [fst] in *.
  eapply os_trans; eauto.
Qed.
Lemma run_pipeline_os s : only_served s (fst (run_pipeline s)).
Proof.
  unfold run_pipeline.
  pose proof (iter_os _ bottom_up_os (width s) s) as H1.
  destruct (iter (width s) bottom_up s) as [s1 p1]; cbn [fst] in H1.
  pose proof (iter_os _ parse_bottom_os (width s) s1) as H2.
  destruct (iter (width s) parse_bottom s1) as [s2 p2]; cbn [fst] in H2.
  pose proof (iter_os _ top_down_os (width s) s2) as H3.
  destruct (iter (width s) top_down s2) as [s3 p3]; cbn [fst] in *.
  eauto using os_trans.
Qed.

Definition env_ev (e : ev) : bool :=
  match e with ERetrTop | ERetrBot | EDeliverBot _ => true | _ => false end.
Lemma step_env_os s e : env_ev e = true -> only_served s (fst (step s e)).
Proof.
  unfold step. destruct (crashed s); [intros; os_same|].
  destruct e; try discriminate; intros _.
  - destruct (can_push _ _); [os_logs|os_same].
  - destruct (top_out s); [os_same|os_logs].
  - destruct (bot_out s); [os_same|os_logs].
Qed.
Lemma run_repeat_os e : env_ev e = true -> forall n s, only_served s (run s (repeat e n)).
Proof.
  intros He; induction n as [|n IH]; intros s; [apply os_refl|].
  cbn [repeat]. rewrite run_cons. eapply os_trans; [apply (step_env_os s e He)|apply IH].
Qed.
Lemma deliver_os rf : forall pend s, only_served s (fst (deliver rf s pend)).
Proof.
  induction pend as [|b p' IH]; intros s; cbn [deliver]; [apply os_refl|].
  pose proof (step_env_os s (EDeliverBot (rf b)) eq_refl) as H.
  destruct (step s (EDeliverBot (rf b))) as [s1 o]; cbn [fst] in H.
  destruct o as [[|]| | |]; try apply os_refl.
  eapply os_trans; [exact H|apply IH].
Qed.

Lemma round_os rf s pend : Good s pend -> only_served s (fst (round rf (s, pend))).
Proof.
  intros G. unfold round. cbn [fst snd]. rewrite (step_tick_fst s (gd_nc _ _ G)).
  rewrite (tick_eq s pend G).
  eapply os_trans; [apply run_pipeline_os|].
  eapply os_trans; [apply (run_repeat_os ERetrTop eq_refl)|].
  eapply os_trans; [apply (run_repeat_os ERetrBot eq_refl)|].
  apply deliver_os.
Qed.

Lemma rounds_os rf :
  bottom_contract rf -> forall n s pend, Inv s -> Good s pend ->
  only_served s (fst (rounds rf n (s, pend))).
Proof.
  intros Hrf; induction n as [|n IH]; intros s pend HI G; [apply os_refl|].
  cbn [rounds]. destruct (round_ok rf Hrf s pend HI G) as (I1 & G1 & _).
  pose proof (round_os rf s pend G) as O1.
  destruct (round rf (s, pend)) as [s1 p1]; cbn [fst snd] in *.
  eapply os_trans; [exact O1|apply IH; auto].
Qed.

Lemma accepted_served (l : list msg) : accepted (map (fun m => (m, true)) l) = l.
Proof. induction l; cbn; [reflexivity|]. unfold accepted in *; cbn. now f_equal. Qed.

(** exactly the transactions buffered at the start, then the queued requests, are retired, all
    of them answered *)
Lemma served_exactly s s' :
  Inv s -> Inv s' -> only_served s s' -> txs s' = [] -> top_in s' = [] ->
  exists k, g_fate s' = g_fate s ++ map (fun t => (t, true)) k /\
            map t_top k = map t_top (txs s) ++ top_in s.
Proof.
  intros HI HI' ([k F] & [j S] & D) Etx Eti. exists k. split; [exact F|].
  pose proof (i_deliv _ HI) as D0. pose proof (i_deliv _ HI') as D1.
  pose proof (i_acc _ HI) as A0. pose proof (i_acc _ HI') as A1.
  rewrite Eti, app_nil_r, S, map_app, map_fst_tag, D, <- D0 in D1.
  apply app_inv_head in D1. subst j.
  rewrite Etx, app_nil_r, F, S, accepted_app, accepted_served, <- A0 in A1.
  rewrite !map_app, map_fst_tag, <- app_assoc in A1.
  now apply app_inv_head in A1.
Qed.

Theorem drain_serves rf s pend n :
  bottom_contract rf -> Inv s -> Good s pend -> (rank s pend <= n)%nat ->
  let s' := fst (rounds rf n (s, pend)) in
  exists k, g_fate s' = g_fate s ++ map (fun t => (t, true)) k /\
            map t_top k = map t_top (txs s) ++ top_in s.
Proof.
  intros Hrf HI G Hn s'.
  destruct (drain_liveness rf s pend n Hrf HI G Hn) as (_ & _ & Etx & Eti & _).
  destruct (rounds_ok rf Hrf n s pend HI G) as (I2 & _).
  apply served_exactly; auto. apply rounds_os; auto.
Qed.
