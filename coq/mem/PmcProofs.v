(** Invariant of the two-controller system of Pmc.v and the lemmas behind
    props/C19.v.  Controller A pulls pages from controller B (requests are
    offered to A's control port only: one puller per source at a time). *)
From Coq Require Import Permutation ZifyN ZifyNat ZifyBool.
From VMem Require Import Pmc PmcLemmas.
From RecordUpdate Require Import RecordSet.
Import RecordSetNotations.
Open Scope N_scope.

Definition olist {T} (o : option T) : list T := match o with Some x => [x] | None => [] end.

(** identifier carried by a message of the pull pipeline *)
Definition tid (m : pmsg) : id :=
  match m with
  | MPullReq q => pq_id q | MPullRsp p => pr_id p | MRdReq q => rq_id q
  | MDReady d => dr_rspto d | _ => (0, 0)
  end.
Definition waddr (m : pmsg) : N := match m with MWrReq w => wq_addr w | _ => 0 end.

Definition isPQ (m : pmsg) : Prop := exists q, m = MPullReq q.
Definition isPR (m : pmsg) : Prop := exists q, m = MPullRsp q.
Definition isRQ (m : pmsg) : Prop := exists q, m = MRdReq q.
Definition isWQ (m : pmsg) : Prop := exists q, m = MWrReq q.
Definition isDR (m : pmsg) : Prop := exists q, m = MDReady q.
Definition isWD (m : pmsg) : Prop := exists q, m = MWDone q.

Definition nch (r : migreq) : N := mg_size r / 64.

Section Two.
Variables ra ca la ma rb cb lb mb : N.
Variables sa0 sb0 : store.
Hypothesis Hra : ra <> 0.
Hypothesis Hrb : rb <> 0.
Hypothesis Hrab : ra <> rb.
Hypothesis Hma : ma <> 0 /\ ma <> la.
Hypothesis Hmb : mb <> 0 /\ mb <> lb.

Definition s_init : sys := init_sys (init_pmc ra ca la ma) (init_pmc rb cb lb mb) sa0 sb0.

Definition wf_req (r : migreq) : Prop :=
  mg_remote r = rb /\ mg_size r mod 64 = 0 /\ mg_src r <> 0 /\ mg_src r <> ca.

(** the environment of the theorems: anything, except that migration requests
    go to A only, are well formed, and nobody else talks on the network *)
Definition ok_ev (e : ev) : Prop :=
  match e with
  | ECtrlReq PA m => wf_req m
  | ECtrlReq PB _ => False
  | EInject _ => False
  | _ => True
  end.

(** what a finished migration must have done to A's memory *)
Definition copy_req (st : store) (r : migreq) : store :=
  fun a => if (mg_wr r <=? a) && (a <? mg_wr r + mg_size r)
           then sb0 (mg_rd r + (a - mg_wr r)) else st a.

Definition rsp_of (r : migreq) : pmsg := MMigRsp (mkMigRsp ca (mg_src r)).

(** number of completion responses created so far *)
Definition ndone (s : sys) : nat :=
  (length (g_done s) + length (ctl_out (pa s)) + length (olist (to_ctrl (pa s))))%nat.
Definition completed (s : sys) : list migreq := firstn (ndone s) (g_acc s).
Definition base (s : sys) : store := fold_left copy_req (completed s) sa0.

(** ** Messages of the pipeline for request [r] whose pull IDs start at [b] *)
Section Tok.
Variables (r : migreq) (b : N).

Definition chunk (i : N) : list N := read sb0 (mg_rd r + 64 * i) 64.

Definition okM (m : pmsg) : Prop :=
  match m with
  | MPullReq q => exists i, i < nch r /\ q = mkPullReq (ra, b + i) ra rb (mg_rd r + 64 * i) 64
  | MRdReq q => exists i, i < nch r /\ q = mkRdReq (ra, b + i) lb mb (mg_rd r + 64 * i) 64
  | MDReady d => exists i, i < nch r /\ dr_rspto d = (ra, b + i) /\ dr_data d = chunk i
  | MPullRsp p => exists i, i < nch r /\ p = mkPullRsp (ra, b + i) rb ra (chunk i)
  | MWrReq w => exists i, i < nch r /\ w = mkWrReq la ma (mg_wr r + 64 * i) (chunk i)
  | MWDone _ => True
  | _ => False
  end.

Definition written (st : store) (i : N) : Prop :=
  forall j, j < 64 -> st (mg_wr r + 64 * i + j) = sb0 (mg_rd r + 64 * i + j).

(** [t1]: messages that still carry a pull ID; [t2]: write requests not yet
    performed; [t3]: write acknowledgements not yet counted *)
Record TF (t1 t2 t3 : list pmsg) (idm : list (id * N)) (np : Z) (st bs : store) : Prop := {
  tf_ok1 : Forall okM t1;
  tf_ok2 : Forall okM t2;
  tf_nd : NoDup (map tid t1);
  tf_i1 : forall i a, i < nch r -> lookup (ra, b + i) idm = Some a -> a = mg_wr r + 64 * i;
  tf_i2 : forall m, In m t1 -> lookup (tid m) idm <> None;
  tf_np : np = Z.of_nat (length t1 + length t2 + length t3);
  tf_cov : forall i, i < nch r ->
           written st i \/ In (ra, b + i) (map tid t1) \/ In (mg_wr r + 64 * i) (map waddr t2);
  tf_st : forall a, st a = bs a \/
                    (mg_wr r <= a < mg_wr r + 64 * nch r /\ st a = sb0 (mg_rd r + (a - mg_wr r)));
  tf_pos : (0 < np)%Z \/ nch r = 0    (* a transfer with chunks left is never at count 0 *)
}.

Lemma TF_repl t1 t1' xs xs' rest t2 t3 idm np st bs :
  Permutation t1 (xs ++ rest) -> Permutation t1' (xs' ++ rest) ->
  Forall2 (fun m m' => tid m' = tid m /\ (okM m -> okM m')) xs xs' ->
  TF t1 t2 t3 idm np st bs -> TF t1' t2 t3 idm np st bs.
Proof.
  intros P1 P2 F [ok1 ok2 nd i1 i2 np' cov st' pos].
  assert (Hids : map tid xs' = map tid xs).
  { clear -F. induction F as [|x y l l' [E _] _ IH]; cbn; congruence. }
  assert (Pid : Permutation (map tid t1) (map tid t1')).
  { rewrite (Permutation_map tid P1), (Permutation_map tid P2), !map_app, Hids. reflexivity. }
  constructor; auto.
  - eapply Permutation_Forall; [symmetry; exact P2|].
    eapply Permutation_Forall in ok1; [|exact P1].
    apply Forall_app in ok1. destruct ok1 as [oxs orest]. apply Forall_app. split; auto.
    clear -F oxs. induction F as [|x y l l' [_ E] _ IH]; auto.
    inversion oxs; subst. constructor; auto.
  - eapply Permutation_NoDup; eauto.
  - intros m Hm. eapply Permutation_in in Hm; [|exact P2].
    assert (In (tid m) (map tid t1)).
    { eapply Permutation_in; [symmetry; exact Pid|]. apply in_map.
      eapply Permutation_in; [symmetry; exact P2|exact Hm]. }
    apply in_map_iff in H. destruct H as (m0 & E & Hm0). rewrite <- E. auto.
  - rewrite np'. apply Permutation_length in P1, P2. rewrite P1, P2, !app_length.
    f_equal. f_equal. f_equal. f_equal. apply (f_equal (@length _)) in Hids.
    rewrite !map_length in Hids. auto.
  - intros i Hi. destruct (cov i Hi) as [H|[H|H]]; auto. right; left.
    eapply Permutation_in; eauto.
Qed.

Lemma TF_perm t1 t2 t3 t1' t2' t3' idm np st bs :
  Permutation t1 t1' -> Permutation t2 t2' -> Permutation t3 t3' ->
  TF t1 t2 t3 idm np st bs -> TF t1' t2' t3' idm np st bs.
Proof.
  intros P1 P2 P3 H.
  assert (H1 : TF t1' t2 t3 idm np st bs).
  { eapply (TF_repl t1 t1' [] [] t1'); eauto. }
  clear H. destruct H1 as [ok1 ok2 nd i1 i2 np' cov st' pos].
  constructor; auto.
  - eapply Permutation_Forall; eauto.
  - rewrite np'. apply Permutation_length in P2, P3. congruence.
  - intros i Hi. destruct (cov i Hi) as [H|[H|H]]; auto. right; right.
    eapply Permutation_in; [apply Permutation_map; exact P2|auto].
Qed.

(** stage 12: a pull response becomes a write request *)
Lemma TF_pull1 p t1 t2 t3 idm np st bs :
  TF (MPullRsp p :: t1) t2 t3 idm np st bs ->
  exists a, lookup (pr_id p) idm = Some a /\
    TF t1 (t2 ++ [MWrReq (mkWrReq la ma a (pr_data p))]) t3 (delete (pr_id p) idm) np st bs.
Proof.
  intros [ok1 ok2 nd i1 i2 np' cov st' pos].
  inversion ok1 as [|? ? Hp ok1']; subst. destruct Hp as (i & Hi & ->). cbn [pr_id pr_data].
  cbn [map tid pr_id] in nd. inversion nd as [|? ? Hnin nd']; subst.
  destruct (lookup (ra, b + i) idm) as [a|] eqn:El.
  2:{ exfalso. apply (i2 (MPullRsp (mkPullRsp (ra, b + i) rb ra (chunk i)))); cbn; auto. }
  pose proof (i1 i a Hi El) as ->. eexists; split; [reflexivity|].
  constructor; auto.
  - apply Forall_app; split; auto. constructor; auto. exists i; auto.
  - intros i0 a0 Hi0 Hl. apply lookup_delete_some in Hl. destruct Hl as [Hl _]. eauto.
  - intros m Hm. rewrite lookup_delete_other; [apply i2; right; auto|].
    intros E. apply Hnin. rewrite <- E. apply in_map. auto.
  - try rewrite np'. cbn [length]. rewrite app_length. cbn [length]. lia.
  - intros i0 Hi0. destruct (cov i0 Hi0) as [H|[H|H]]; auto.
    + cbn [map tid pr_id] in H. destruct H as [H|H]; auto.
      inversion H. assert (i = i0) by lia. subst i0. right; right.
      rewrite map_app, in_app_iff. right. cbn. auto.
    + right; right. rewrite map_app, in_app_iff. auto.
Qed.

Lemma TF_pull : forall (l : list pullrsp) t1 t2 t3 idm np st bs,
  TF (map MPullRsp l ++ t1) t2 t3 idm np st bs ->
  exists ws idm', pull_rsps la ma l idm = (ws, idm', false) /\
    TF t1 (t2 ++ map MWrReq ws) t3 idm' np st bs.
Proof.
  induction l as [|p l IH]; intros t1 t2 t3 idm np st bs H.
  - exists [], idm. cbn. rewrite app_nil_r. auto.
  - cbn [map app] in H. apply TF_pull1 in H. destruct H as (a & El & H).
    apply IH in H. destruct H as (ws & idm' & E & H).
    cbn [pull_rsps]. rewrite El, E. eexists; eexists; split; [reflexivity|].
    rewrite <- app_assoc in H. exact H.
Qed.

(** a memory performs a write request *)
Lemma TF_write t1 t2 t2' t3 w wd idm np st bs :
  Permutation t2 (MWrReq w :: t2') ->
  TF t1 t2 t3 idm np st bs ->
  TF t1 t2' (t3 ++ [wd]) idm np (write st (wq_addr w) (wq_data w)) bs.
Proof.
  intros P H. apply (TF_perm _ _ _ _ _ _ _ _ _ _ (Permutation_refl t1) P (Permutation_refl t3)) in H.
  destruct H as [ok1 ok2 nd i1 i2 np' cov st' pos].
  inversion ok2 as [|? ? Hw ok2']; subst. destruct Hw as (i & Hi & ->). cbn [wq_addr wq_data].
  assert (Hwi : written (write st (mg_wr r + 64 * i) (chunk i)) i).
  { intros j Hj. unfold chunk. rewrite write_read_in by lia. f_equal. lia. }
  assert (Hwo : forall i0, i0 <> i -> written st i0 -> written (write st (mg_wr r + 64 * i) (chunk i)) i0).
  { intros i0 Hn Hw j Hj. unfold chunk. rewrite write_read_out by lia. auto. }
  constructor; auto.
  - try rewrite np'. cbn [length]. rewrite app_length. cbn [length]. lia.
  - intros i0 Hi0. destruct (N.eq_dec i0 i) as [->|Hn]; auto.
    destruct (cov i0 Hi0) as [H|[H|H]]; auto.
    cbn [map waddr wq_addr] in H. destruct H as [H|H]; auto. exfalso. lia.
  - intros a. unfold chunk.
    destruct (N.lt_ge_cases a (mg_wr r + 64 * i)) as [Hlt|Hge].
    { rewrite write_read_out by lia. auto. }
    destruct (N.lt_ge_cases a (mg_wr r + 64 * i + 64)) as [Hlt2|Hge2].
    2:{ rewrite write_read_out by lia. auto. }
    right. rewrite write_read_in by lia. split; [lia|]. f_equal. lia.
Qed.

(** stage 13: an acknowledgement is counted *)
Lemma TF_count t1 t2 t3 t3' x idm np st bs :
  Permutation t3 (x :: t3') -> (np - 1 <> 0)%Z ->
  TF t1 t2 t3 idm np st bs -> TF t1 t2 t3' idm (np - 1)%Z st bs.
Proof.
  intros P Hnz [ok1 ok2 nd i1 i2 np' cov st' pos].
  apply Permutation_length in P. cbn [length] in P. constructor; auto; lia.
Qed.

Lemma TF_last t1 t2 t3 t3' x idm np st bs :
  mg_size r mod 64 = 0 ->
  Permutation t3 (x :: t3') -> (np - 1 = 0)%Z ->
  TF t1 t2 t3 idm np st bs ->
  t1 = [] /\ t2 = [] /\ t3' = [] /\ forall a, st a = copy_req bs r a.
Proof.
  intros Hsz P Hnp [ok1 ok2 nd i1 i2 np' cov st' pos].
  apply Permutation_length in P. cbn [length] in P.
  assert (length t1 = 0%nat /\ length t2 = 0%nat /\ length t3' = 0%nat) as (L1 & L2 & L3) by lia.
  apply length_zero_iff_nil in L1, L2, L3. subst. repeat split; auto.
  intros a. unfold copy_req.
  assert (Esz : mg_size r = 64 * nch r).
  { unfold nch. pose proof (N.div_mod (mg_size r) 64). lia. }
  destruct (mg_wr r <=? a) eqn:E1; cbn [andb].
  2:{ apply N.leb_gt in E1. destruct (st' a) as [H|[H _]]; auto. lia. }
  destruct (a <? mg_wr r + mg_size r) eqn:E2.
  2:{ apply N.ltb_ge in E2. destruct (st' a) as [H|[H _]]; auto. lia. }
  apply N.leb_le in E1. apply N.ltb_lt in E2.
  set (d := a - mg_wr r). set (i := d / 64). set (j := d mod 64).
  assert (Hd : d = 64 * i + j) by (apply N.div_mod; lia).
  assert (Hj : j < 64) by (apply N.mod_lt; lia).
  assert (Hi : i < nch r).
  { apply N.div_lt_upper_bound; [lia|]. lia. }
  destruct (cov i Hi) as [H|[H|H]]; [|cbn in H; tauto|cbn in H; tauto].
  specialize (H j Hj). replace a with (mg_wr r + 64 * i + j) by lia. rewrite H. f_equal. lia.
Qed.

(** stage 9: the pull requests of a new migration *)
Lemma TF_gen idm st bs :
  (forall a, st a = bs a) ->
  let n := N.to_nat (nch r) in
  TF (map MPullReq (map (fun i => mkPullReq (ra, b + N.of_nat i) ra rb (mg_rd r + 64 * N.of_nat i) 64) (seq 0 n)))
     [] []
     (insert_all (map (fun i => ((ra, b + N.of_nat i), mg_wr r + 64 * N.of_nat i)) (seq 0 n)) idm)
     (Z.of_N (nch r)) st bs.
Proof.
  intros Hst n.
  assert (Hkeys : NoDup (map (fun i => (ra, b + N.of_nat i)) (seq 0 n))).
  { apply FinFun.Injective_map_NoDup; [|apply seq_NoDup].
    intros x y E. inversion E. lia. }
  assert (Hlk : forall i, i < nch r ->
            lookup (ra, b + i) (insert_all (map (fun i => ((ra, b + N.of_nat i), mg_wr r + 64 * N.of_nat i)) (seq 0 n)) idm)
            = Some (mg_wr r + 64 * i)).
  { intros i Hi. unfold insert_all. rewrite lookup_app.
    rewrite (lookup_NoDup _ _ (mg_wr r + 64 * i)); auto.
    - rewrite map_rev. eapply Permutation_NoDup; [apply Permutation_rev|].
      rewrite map_map. cbn [fst]. exact Hkeys.
    - rewrite <- in_rev. apply in_map_iff. exists (N.to_nat i).
      rewrite N2Nat.id. split; auto. apply in_seq. subst n. lia. }
  constructor.
  - rewrite Forall_forall. intros m Hm. rewrite map_map in Hm. apply in_map_iff in Hm.
    destruct Hm as (i & <- & Hi). apply in_seq in Hi. cbn. exists (N.of_nat i). split; auto. subst n. lia.
  - constructor.
  - rewrite !map_map. cbn [tid pq_id]. exact Hkeys.
  - intros i a Hi Hl. rewrite Hlk in Hl by auto. congruence.
  - intros m Hm. rewrite map_map in Hm. apply in_map_iff in Hm.
    destruct Hm as (i & <- & Hi). apply in_seq in Hi. cbn [tid pq_id].
    rewrite (Hlk (N.of_nat i)) by (subst n; lia). discriminate.
  - rewrite !map_length, seq_length. cbn [length]. subst n. lia.
  - intros i Hi. right; left. rewrite !map_map. cbn [tid pq_id]. apply in_map_iff.
    exists (N.to_nat i). rewrite N2Nat.id. split; auto. apply in_seq. subst n. lia.
  - intros a. left. auto.
  - destruct (N.eq_dec (nch r) 0); [right|left]; lia.
Qed.

Lemma TF_ext t1 t2 t3 idm np st bs st' bs' :
  (forall a, st' a = st a) -> (forall a, bs' a = bs a) ->
  TF t1 t2 t3 idm np st bs -> TF t1 t2 t3 idm np st' bs'.
Proof.
  intros E1 E2 [ok1 ok2 nd i1 i2 np' cov stc pos]. constructor; auto.
  - intros i Hi. destruct (cov i Hi) as [H|H]; auto. left. intros j Hj. rewrite E1. auto.
  - intros a. rewrite E1, E2. auto.
Qed.

End Tok.
(** ** The system invariant *)
Definition toks1 (s : sys) : list pmsg :=
  map MPullReq (to_pull (pa s)) ++ rem_out (pa s) ++ net s ++ rem_in (pb s) ++
  map MPullReq (cur_pull (pb s)) ++ map MRdReq (to_read (pb s)) ++ loc_out (pb s) ++ mqb s ++
  mrb s ++ loc_in (pb s) ++ map MDReady (data_ready (pb s)) ++ map MPullRsp (to_rsp (pb s)) ++
  rem_out (pb s) ++ rem_in (pa s) ++ map MPullRsp (recv_data (pa s)).
Definition toks2 (s : sys) : list pmsg :=
  map MWrReq (write_reqs (pa s)) ++ loc_out (pa s) ++ mqa s.
Definition toks3 (s : sys) : list pmsg :=
  mra s ++ loc_in (pa s) ++ map MWDone (olist (recv_wdone (pa s))).

(** messages between B's remote port and B's reply list: they will be answered
    to whatever [requester] holds *)
Definition blen (s : sys) : nat :=
  (length (cur_pull (pb s)) + length (to_read (pb s)) + length (loc_out (pb s)) + length (mqb s) +
   length (mrb s) + length (loc_in (pb s)) + length (data_ready (pb s)))%nat.

Record Kinds (s : sys) : Prop := {
  k_roa : Forall isPQ (rem_out (pa s));
  k_ria : Forall isPR (rem_in (pa s));
  k_loa : Forall isWQ (loc_out (pa s));
  k_lia : Forall isWD (loc_in (pa s));
  k_rob : Forall isPR (rem_out (pb s));
  k_rib : Forall isPQ (rem_in (pb s));
  k_lob : Forall isRQ (loc_out (pb s));
  k_lib : Forall isDR (loc_in (pb s));
  k_net : Forall (fun m => isPQ m \/ isPR m) (net s);
  k_mqa : Forall isWQ (mqa s);
  k_mra : Forall isWD (mra s);
  k_mqb : Forall isRQ (mqb s);
  k_mrb : Forall isDR (mrb s)
}.

Definition cfg_is (p : pmc) (r c l m : N) : Prop :=
  n_remote p = r /\ n_ctrl p = c /\ n_local p = l /\ n_mem p = m /\ xfer p = 64.

(** A never acts as a source, B never as a puller *)
Definition Apristine (p : pmc) : Prop :=
  cur_pull p = [] /\ to_read p = [] /\ data_ready p = [] /\ to_rsp p = [].
Definition Bpristine (p : pmc) : Prop :=
  cur_mig p = None /\ handling p = false /\ to_pull p = [] /\ recv_data p = [] /\
  write_reqs p = [] /\ recv_wdone p = None /\ to_ctrl p = None /\ ctl_in p = [] /\ ctl_out p = [].

Definition NoTok (s : sys) : Prop :=
  toks1 s = [] /\ toks2 s = [] /\ toks3 s = [] /\ num_pending (pa s) = (-1)%Z /\
  forall a, sta s a = base s a.

Definition Phase (s : sys) : Prop :=
  match cur_mig (pa s), handling (pa s), to_ctrl (pa s) with
  | None, false, None => NoTok s                       (* idle *)
  | Some _, false, None => NoTok s                     (* request taken, pulls not yet generated *)
  | Some r, true, None =>                              (* transferring *)
    exists b, TF r b (toks1 s) (toks2 s) (toks3 s) (idmap (pa s)) (num_pending (pa s)) (sta s) (base s)
  | None, true, Some _ => NoTok s                      (* completion waiting for the control port *)
  | _, _, _ => False
  end.

Record Inv (s : sys) : Prop := {
  i_crA : crashed (pa s) = false;
  i_crB : crashed (pb s) = false;
  i_cfgA : cfg_is (pa s) ra ca la ma;
  i_cfgB : cfg_is (pb s) rb cb lb mb;
  i_A : Apristine (pa s);
  i_B : Bpristine (pb s);
  i_stb : forall a, stb s a = sb0 a;
  i_req : (0 < blen s)%nat -> requester (pb s) = ra;
  i_K : Kinds s;
  i_queue : exists waiting, ctl_in (pa s) = map MMigReq waiting /\
                            skipn (ndone s) (g_acc s) = olist (cur_mig (pa s)) ++ waiting;
  i_nd : (ndone s <= length (g_acc s))%nat;
  i_rsp : g_done s ++ ctl_out (pa s) ++ map MMigRsp (olist (to_ctrl (pa s))) = map rsp_of (completed s);
  i_wf : Forall wf_req (g_acc s);
  i_phase : Phase s
}.

Lemma init_inv : Inv s_init.
Proof.
  constructor; cbn; auto; try (repeat split; reflexivity).
  all: try (unfold blen; cbn; lia).
  all: try (constructor; cbn; constructor).
  all: try (exists []; auto).
Qed.

(** ** Steps *)
Arguments ndone : simpl never.
Arguments completed : simpl never.
Arguments base : simpl never.
Lemma setp_pa_same s : s <| pa := pa s |> = s.
Proof. destruct s; reflexivity. Qed.
Lemma setp_pb_same s : s <| pb := pb s |> = s.
Proof. destruct s; reflexivity. Qed.

Definition PresA (f : pmc -> pmc * bool) : Prop :=
  forall s, Inv s -> Inv (s <| pa := fst (f (pa s)) |>).
Definition PresB (f : pmc -> pmc * bool) : Prop :=
  forall s, Inv s -> Inv (s <| pb := fst (f (pb s)) |>).

Ltac inv_destruct H :=
  destruct H as [crA crB cfgA cfgB iA iB istb ireq iK iqueue ind irsp iwf iphase].

Lemma Phase_repl s s' xs xs' rest :
  cur_mig (pa s') = cur_mig (pa s) -> handling (pa s') = handling (pa s) ->
  to_ctrl (pa s') = to_ctrl (pa s) -> idmap (pa s') = idmap (pa s) ->
  num_pending (pa s') = num_pending (pa s) ->
  (forall a, sta s' a = sta s a) -> (forall a, base s' a = base s a) ->
  Permutation (toks1 s) (xs ++ rest) -> Permutation (toks1 s') (xs' ++ rest) ->
  (forall r b, Forall2 (fun m m' => tid m' = tid m /\ (okM r b m -> okM r b m')) xs xs') ->
  Permutation (toks2 s) (toks2 s') -> Permutation (toks3 s) (toks3 s') ->
  Phase s -> Phase s'.
Proof.
  intros E1 E2 E3 E4 E5 Est Ebs P1 P1' F P2 P3 H.
  assert (HN : NoTok s -> NoTok s').
  { intros (T1 & T2 & T3 & Hnp & Hst). rewrite T1 in P1. rewrite T2 in P2. rewrite T3 in P3.
    apply Permutation_nil in P1, P2, P3. apply app_eq_nil in P1. destruct P1 as [-> ->].
    specialize (F (mkMigReq 0 0 0 0 0 0) 0). inversion F; subst. cbn in P1'.
    symmetry in P1'. apply Permutation_nil in P1'.
    repeat split; auto; try congruence. }
  unfold Phase in *. rewrite E1, E2, E3, E4, E5.
  destruct (cur_mig (pa s)) as [r|], (handling (pa s)), (to_ctrl (pa s)); auto.
  destruct H as (b & H). exists b.
  eapply TF_ext; [exact Est|exact Ebs|].
  eapply TF_perm; [reflexivity|exact P2|exact P3|].
  eapply (TF_repl r b (toks1 s) (toks1 s') xs xs' rest); [exact P1|exact P1'|apply F|exact H].
Qed.

Lemma Phase_perm s s' :
  cur_mig (pa s') = cur_mig (pa s) -> handling (pa s') = handling (pa s) ->
  to_ctrl (pa s') = to_ctrl (pa s) -> idmap (pa s') = idmap (pa s) ->
  num_pending (pa s') = num_pending (pa s) ->
  (forall a, sta s' a = sta s a) -> (forall a, base s' a = base s a) ->
  Permutation (toks1 s) (toks1 s') -> Permutation (toks2 s) (toks2 s') ->
  Permutation (toks3 s) (toks3 s') ->
  Phase s -> Phase s'.
Proof.
  intros. eapply (Phase_repl s s' [] [] (toks1 s')); eauto.
Qed.

Lemma Phase_ok1 s m : Phase s -> In m (toks1 s) -> exists r b, okM r b m.
Proof.
  unfold Phase. intros H Hin.
  assert (HN : NoTok s -> False) by (intros (T1 & _); rewrite T1 in Hin; inversion Hin).
  destruct (cur_mig (pa s)) as [r|], (handling (pa s)), (to_ctrl (pa s)); try tauto.
  destruct H as (b & H). exists r, b. destruct H. rewrite Forall_forall in tf_ok3. auto.
Qed.
Lemma Phase_ok2 s m : Phase s -> In m (toks2 s) -> exists r b, okM r b m.
Proof.
  unfold Phase. intros H Hin.
  assert (HN : NoTok s -> False) by (intros (_ & T2 & _); rewrite T2 in Hin; inversion Hin).
  destruct (cur_mig (pa s)) as [r|], (handling (pa s)), (to_ctrl (pa s)); try tauto.
  destruct H as (b & H). exists r, b. destruct H. rewrite Forall_forall in tf_ok4. auto.
Qed.

Ltac easy_fields :=
  try assumption; try reflexivity;
  try (unfold cfg_is, Apristine, Bpristine in *; cbn; assumption).
Ltac in_toks E := unfold toks1, toks2, toks3; rewrite ?E; repeat rewrite in_app_iff; cbn [In map]; tauto.
Ltac phase_perm H := eapply Phase_perm; [..|exact H]; try reflexivity; try (intros; reflexivity).
Ltac fa_tail H E := rewrite E in H; inversion H; subst; assumption.

Lemma B6 : PresB processFromOutside.
Proof.
  intros s H. inv_destruct H. unfold processFromOutside.
  destruct (rem_in (pb s)) as [|m rest] eqn:Erin.
  { cbn. rewrite setp_pb_same. constructor; auto. }
  assert (Hm : isPQ m) by (destruct iK; rewrite Erin in *; inversion k_rib0; auto).
  destruct Hm as (q & ->). cbn [fst].
  constructor; cbn; easy_fields.
  - intros _. destruct (Phase_ok1 s (MPullReq q) iphase) as (r & b & i & Hi & ->); [in_toks Erin|reflexivity].
  - destruct iK; constructor; cbn; try assumption. fa_tail k_rib0 Erin.
  - phase_perm iphase. unfold toks1; cbn. rewrite Erin. perm.
Qed.

Lemma PresA_noop f : (forall s, Inv s -> fst (f (pa s)) = pa s) -> PresA f.
Proof. intros H s Hi. rewrite (H s Hi), setp_pa_same. exact Hi. Qed.
Lemma PresB_noop f : (forall s, Inv s -> fst (f (pb s)) = pb s) -> PresB f.
Proof. intros H s Hi. rewrite (H s Hi), setp_pb_same. exact Hi. Qed.

Lemma Forall_map_is {T} (inj : T -> pmsg) (P : pmsg -> Prop) (l : list T) :
  (forall x, P (inj x)) -> Forall P (map inj l).
Proof. intros H. induction l; constructor; auto. Qed.

Ltac kinds iK := destruct iK; constructor; cbn; try assumption.

(** *** B: the source side *)
Lemma B1 : PresB sendMigrationReqToAnotherPMC.
Proof.
  apply PresB_noop. intros s H. inv_destruct H. destruct iB as (_ & _ & E & _).
  unfold sendMigrationReqToAnotherPMC. rewrite E. reflexivity.
Qed.
Lemma B3 : PresB sendMigrationCompleteRspToCtrlPort.
Proof.
  apply PresB_noop. intros s H. inv_destruct H. destruct iB as (_ & _ & _ & _ & _ & _ & E & _).
  unfold sendMigrationCompleteRspToCtrlPort. rewrite E. reflexivity.
Qed.
Lemma B5 : PresB sendWriteReqLocalMemPort.
Proof.
  apply PresB_noop. intros s H. inv_destruct H. destruct iB as (_ & _ & _ & _ & E & _).
  unfold sendWriteReqLocalMemPort. rewrite E. cbn.
  destruct (pb s); cbn in *. subst. reflexivity.
Qed.
Lemma B7 : PresB processFromCtrlPort.
Proof.
  apply PresB_noop. intros s H. inv_destruct H. destruct iB as (_ & E1 & _ & _ & _ & _ & _ & E2 & _).
  unfold processFromCtrlPort. rewrite E1, E2. reflexivity.
Qed.
Lemma B9 : PresB processPageMigrationReqFromCtrlPort.
Proof.
  apply PresB_noop. intros s H. inv_destruct H. destruct iB as (E & _).
  unfold processPageMigrationReqFromCtrlPort. rewrite E. reflexivity.
Qed.
Lemma B12 : PresB processDataPullRsp.
Proof.
  apply PresB_noop. intros s H. inv_destruct H. destruct iB as (_ & _ & _ & E & _).
  unfold processDataPullRsp. rewrite E. reflexivity.
Qed.
Lemma B13 : PresB processWriteDoneRspFromMemCtrl.
Proof.
  apply PresB_noop. intros s H. inv_destruct H. destruct iB as (_ & _ & _ & _ & _ & E & _).
  unfold processWriteDoneRspFromMemCtrl. rewrite E. reflexivity.
Qed.

Lemma B2 : PresB sendReadReqLocalMemPort.
Proof.
  intros s H. inv_destruct H. unfold sendReadReqLocalMemPort.
  destruct (is_nil (to_read (pb s))) eqn:En.
  { cbn. rewrite setp_pb_same. constructor; auto. }
  assert (Hv : Forall (fun x => send_valid (MRdReq x) = true) (to_read (pb s))).
  { rewrite Forall_forall. intros x Hx. pose proof (in_map MRdReq _ _ Hx) as Hin.
    destruct (Phase_ok1 s (MRdReq x) iphase) as (r & b & i & Hi & ->).
    { unfold toks1. repeat rewrite in_app_iff. tauto. }
    unfold send_valid; cbn. apply valid_neq; tauto. }
  destruct (send_all_spec MRdReq (to_read (pb s)) (loc_out (pb s)) Hv) as (mv & kept & p & Hp & Hlen & E).
  rewrite E. cbn [fst].
  constructor; cbn; easy_fields.
  - intros Hlt. apply ireq. unfold blen. rewrite app_length, map_length in Hlt. lia.
  - kinds iK. apply Forall_app; split; auto. apply Forall_map_is. intros x; eexists; eauto.
  - phase_perm iphase. unfold toks1; cbn. perm.
Qed.

Lemma B4 : PresB sendDataReadyRspToRequestingPMC.
Proof.
  intros s H. inv_destruct H. unfold sendDataReadyRspToRequestingPMC.
  destruct (is_nil (to_rsp (pb s))) eqn:En.
  { cbn. rewrite setp_pb_same. constructor; auto. }
  assert (Hv : Forall (fun x => send_valid (MPullRsp x) = true) (to_rsp (pb s))).
  { rewrite Forall_forall. intros x Hx. pose proof (in_map MPullRsp _ _ Hx) as Hin.
    destruct (Phase_ok1 s (MPullRsp x) iphase) as (r & b & i & Hi & ->).
    { unfold toks1. repeat rewrite in_app_iff. tauto. }
    unfold send_valid; cbn. apply valid_neq; auto. }
  destruct (send_all_spec MPullRsp (to_rsp (pb s)) (rem_out (pb s)) Hv) as (mv & kept & p & Hp & Hlen & E).
  rewrite E. cbn [fst].
  constructor; cbn; easy_fields.
  - kinds iK. apply Forall_app; split; auto. apply Forall_map_is. intros x; eexists; eauto.
  - phase_perm iphase. unfold toks1; cbn. perm.
Qed.

Lemma B8 : PresB processFromMemCtrl.
Proof.
  intros s H. inv_destruct H. unfold processFromMemCtrl.
  destruct (loc_in (pb s)) as [|m rest] eqn:Elin.
  { cbn. rewrite setp_pb_same. constructor; auto. }
  assert (Hm : isDR m) by (destruct iK; rewrite Elin in *; inversion k_lib0; auto).
  destruct Hm as (d & ->). cbn [fst].
  constructor; cbn; easy_fields.
  - intros Hlt. apply ireq. unfold blen. rewrite Elin. rewrite app_length in Hlt. cbn [length] in *. lia.
  - kinds iK. fa_tail k_lib0 Elin.
  - phase_perm iphase. unfold toks1; cbn. rewrite Elin. perm.
Qed.

Lemma B10 : PresB processReadPageReqFromAnotherPMC.
Proof.
  intros s H. inv_destruct H. unfold processReadPageReqFromAnotherPMC.
  destruct (is_nil (cur_pull (pb s))) eqn:En.
  { cbn. rewrite setp_pb_same. constructor; auto. }
  cbn [fst].
  constructor; cbn; easy_fields.
  - intros Hlt. apply ireq. unfold blen. rewrite app_length, map_length in Hlt. cbn [length] in *. lia.
  - kinds iK.
  - eapply (Phase_repl s _ (map MPullReq (cur_pull (pb s)))
              (map MRdReq (map (mk_read (pb s)) (cur_pull (pb s))))
              (map MPullReq (to_pull (pa s)) ++ rem_out (pa s) ++ net s ++ rem_in (pb s) ++
               map MRdReq (to_read (pb s)) ++ loc_out (pb s) ++ mqb s ++ mrb s ++ loc_in (pb s) ++
               map MDReady (data_ready (pb s)) ++ map MPullRsp (to_rsp (pb s)) ++
               rem_out (pb s) ++ rem_in (pa s) ++ map MPullRsp (recv_data (pa s))));
      [reflexivity|reflexivity|reflexivity|reflexivity|reflexivity|intros; reflexivity|intros; reflexivity
      | | | |reflexivity|reflexivity|exact iphase].
    + unfold toks1. perm.
    + unfold toks1; cbn. perm.
    + intros r b. destruct cfgB as (_ & _ & E3 & E4 & _). clear En ireq.
      induction (cur_pull (pb s)) as [|q l IH]; cbn [map]; constructor; auto.
      split; [reflexivity|]. intros (i & Hi & ->). exists i. split; auto.
      unfold mk_read. cbn. rewrite E3, E4. reflexivity.
Qed.

Lemma B11 : PresB processDataReadyRspFromMemCtrl.
Proof.
  intros s H. inv_destruct H. unfold processDataReadyRspFromMemCtrl.
  destruct (is_nil (data_ready (pb s))) eqn:En.
  { cbn. rewrite setp_pb_same. constructor; auto. }
  assert (Hreq : requester (pb s) = ra).
  { apply ireq. unfold blen. destruct (data_ready (pb s)); [discriminate|]. cbn [length]. lia. }
  cbn [fst].
  constructor; cbn; easy_fields.
  - intros Hlt. apply ireq. unfold blen. cbn [length] in *. lia.
  - kinds iK.
  - eapply (Phase_repl s _ (map MDReady (data_ready (pb s)))
              (map MPullRsp (map (mk_rsp (pb s)) (data_ready (pb s))))
              (map MPullReq (to_pull (pa s)) ++ rem_out (pa s) ++ net s ++ rem_in (pb s) ++
               map MPullReq (cur_pull (pb s)) ++ map MRdReq (to_read (pb s)) ++ loc_out (pb s) ++
               mqb s ++ mrb s ++ loc_in (pb s) ++ map MPullRsp (to_rsp (pb s)) ++
               rem_out (pb s) ++ rem_in (pa s) ++ map MPullRsp (recv_data (pa s))));
      [reflexivity|reflexivity|reflexivity|reflexivity|reflexivity|intros; reflexivity|intros; reflexivity
      | | | |reflexivity|reflexivity|exact iphase].
    + unfold toks1. perm.
    + unfold toks1; cbn. perm.
    + intros r b. destruct cfgB as (E1 & _). clear En ireq.
      induction (data_ready (pb s)) as [|q l IH]; cbn [map]; constructor; auto.
      split; [reflexivity|]. intros (i & Hi & E5 & E6). exists i. split; auto.
      unfold mk_rsp. rewrite E1, Hreq, E5, E6. reflexivity.
Qed.

(** *** A: the pulling side *)
Lemma A2 : PresA sendReadReqLocalMemPort.
Proof.
  apply PresA_noop. intros s H. inv_destruct H. destruct iA as (_ & E & _).
  unfold sendReadReqLocalMemPort. rewrite E. reflexivity.
Qed.
Lemma A4 : PresA sendDataReadyRspToRequestingPMC.
Proof.
  apply PresA_noop. intros s H. inv_destruct H. destruct iA as (_ & _ & _ & E).
  unfold sendDataReadyRspToRequestingPMC. rewrite E. reflexivity.
Qed.
Lemma A10 : PresA processReadPageReqFromAnotherPMC.
Proof.
  apply PresA_noop. intros s H. inv_destruct H. destruct iA as (E & _).
  unfold processReadPageReqFromAnotherPMC. rewrite E. reflexivity.
Qed.
Lemma A11 : PresA processDataReadyRspFromMemCtrl.
Proof.
  apply PresA_noop. intros s H. inv_destruct H. destruct iA as (_ & _ & E & _).
  unfold processDataReadyRspFromMemCtrl. rewrite E. reflexivity.
Qed.

Lemma A1 : PresA sendMigrationReqToAnotherPMC.
Proof.
  intros s H. inv_destruct H. unfold sendMigrationReqToAnotherPMC.
  destruct (is_nil (to_pull (pa s))) eqn:En.
  { cbn. rewrite setp_pa_same. constructor; auto. }
  assert (Hv : Forall (fun x => send_valid (MPullReq x) = true) (to_pull (pa s))).
  { rewrite Forall_forall. intros x Hx. pose proof (in_map MPullReq _ _ Hx) as Hin.
    destruct (Phase_ok1 s (MPullReq x) iphase) as (r & b & i & Hi & ->).
    { unfold toks1. repeat rewrite in_app_iff. tauto. }
    unfold send_valid; cbn. apply valid_neq; auto. }
  destruct (send_all_spec MPullReq (to_pull (pa s)) (rem_out (pa s)) Hv) as (mv & kept & p & Hp & Hlen & E).
  rewrite E. cbn [fst].
  constructor; cbn; easy_fields.
  - kinds iK. apply Forall_app; split; auto. apply Forall_map_is. intros x; eexists; eauto.
  - phase_perm iphase. unfold toks1; cbn. perm.
Qed.

Lemma A5 : PresA sendWriteReqLocalMemPort.
Proof.
  intros s H. inv_destruct H. unfold sendWriteReqLocalMemPort.
  assert (Hv : Forall (fun x => send_valid (MWrReq x) = true) (write_reqs (pa s))).
  { rewrite Forall_forall. intros x Hx. pose proof (in_map MWrReq _ _ Hx) as Hin.
    destruct (Phase_ok2 s (MWrReq x) iphase) as (r & b & i & Hi & ->).
    { unfold toks2. repeat rewrite in_app_iff. tauto. }
    unfold send_valid; cbn. apply valid_neq; tauto. }
  destruct (send_all_spec MWrReq (write_reqs (pa s)) (loc_out (pa s)) Hv) as (mv & kept & p & Hp & Hlen & E).
  rewrite E. cbn [fst].
  constructor; cbn; easy_fields.
  - kinds iK. apply Forall_app; split; auto. apply Forall_map_is. intros x; eexists; eauto.
  - phase_perm iphase. unfold toks2; cbn. perm.
Qed.

Lemma A6 : PresA processFromOutside.
Proof.
  intros s H. inv_destruct H. unfold processFromOutside.
  destruct (rem_in (pa s)) as [|m rest] eqn:Erin.
  { cbn. rewrite setp_pa_same. constructor; auto. }
  assert (Hm : isPR m) by (destruct iK; rewrite Erin in *; inversion k_ria0; auto).
  destruct Hm as (q & ->). cbn [fst].
  constructor; cbn; easy_fields.
  - kinds iK. fa_tail k_ria0 Erin.
  - phase_perm iphase. unfold toks1; cbn. rewrite Erin. perm.
Qed.

Lemma A8 s : Inv s -> recv_wdone (pa s) = None -> Inv (s <| pa := fst (processFromMemCtrl (pa s)) |>).
Proof.
  intros H Hnone. inv_destruct H. unfold processFromMemCtrl.
  destruct (loc_in (pa s)) as [|m rest] eqn:Elin.
  { cbn. rewrite setp_pa_same. constructor; auto. }
  assert (Hm : isWD m) by (destruct iK; rewrite Elin in *; inversion k_lia0; auto).
  destruct Hm as (q & ->). cbn [fst].
  constructor; cbn; easy_fields.
  - kinds iK. fa_tail k_lia0 Elin.
  - phase_perm iphase. unfold toks3; cbn. rewrite Elin, Hnone. cbn. perm.
Qed.

Lemma skipn_cons_split {T} n : forall (l : list T) x w,
  skipn n l = x :: w ->
  firstn (S n) l = firstn n l ++ [x] /\ skipn (S n) l = w /\ (S n <= length l)%nat.
Proof.
  induction n as [|n IH]; intros l x w H.
  - cbn in H. subst l. cbn. repeat split; auto. lia.
  - destruct l as [|y l]; [discriminate|]. cbn [skipn] in H. apply IH in H.
    destruct H as (H1 & H2 & H3). rewrite !firstn_cons, H1.
    split; [reflexivity|]. split; [exact H2|cbn [length]; lia].
Qed.

Lemma firstn_incl {T} n (l : list T) x : In x (firstn n l) -> In x l.
Proof. intros H. rewrite <- (firstn_skipn n l). apply in_or_app; auto. Qed.
Lemma skipn_incl {T} n (l : list T) x : In x (skipn n l) -> In x l.
Proof. intros H. rewrite <- (firstn_skipn n l). apply in_or_app; auto. Qed.

Lemma phase_to_ctrl s r : Phase s -> to_ctrl (pa s) = Some r ->
  cur_mig (pa s) = None /\ handling (pa s) = true /\ NoTok s.
Proof.
  unfold Phase. intros H E. rewrite E in H.
  destruct (cur_mig (pa s)), (handling (pa s)); tauto.
Qed.

Lemma A3 : PresA sendMigrationCompleteRspToCtrlPort.
Proof.
  intros s H. inv_destruct H. unfold sendMigrationCompleteRspToCtrlPort.
  destruct (to_ctrl (pa s)) as [r|] eqn:Etc.
  2:{ cbn. rewrite setp_pa_same. rewrite <- Etc in irsp. constructor; auto. }
  destruct (phase_to_ctrl s r iphase Etc) as (Ecm & Eh & HN).
  assert (Hv : send_valid (MMigRsp r) = true).
  { assert (Hin : In (MMigRsp r) (map rsp_of (completed s))).
    { rewrite <- irsp. cbn. repeat rewrite in_app_iff. cbn. tauto. }
    apply in_map_iff in Hin. destruct Hin as (q & Eq & Hq). apply firstn_incl in Hq.
    rewrite Forall_forall in iwf. destruct (iwf q Hq) as (_ & _ & W1 & W2).
    inversion Eq; subst r. unfold send_valid; cbn. apply valid_neq; auto. }
  rewrite Hv. cbn [negb].
  destruct (can_push (ctl_out (pa s))) eqn:Ecp.
  2:{ cbn. rewrite setp_pa_same. rewrite <- Etc in irsp. constructor; auto. }
  cbn [fst].
  match goal with |- Inv ?s1 =>
    assert (Hnd : ndone s1 = ndone s) by (unfold ndone; cbn; rewrite Etc, app_length; cbn; lia);
    assert (Hc : completed s1 = completed s) by (unfold completed; rewrite Hnd; reflexivity);
    assert (Hb : base s1 = base s) by (unfold base; rewrite Hc; reflexivity)
  end.
  constructor; try rewrite Hnd; try rewrite Hc; cbn; easy_fields.
  - kinds iK.
  - destruct iqueue as (w & E1 & E2). rewrite Ecm in E2. exists w. auto.
  - rewrite <- irsp. cbn. rewrite ?app_nil_r. reflexivity.
  - destruct HN as (T1 & T2 & T3 & Hnp & Hst). repeat split; try assumption.
    intros a. rewrite Hb. apply Hst.
Qed.

Lemma A7 s : Inv s -> (handling (pa s) = false -> cur_mig (pa s) = None) ->
  Inv (s <| pa := fst (processFromCtrlPort (pa s)) |>).
Proof.
  intros H Hq. inv_destruct H. unfold processFromCtrlPort.
  destruct (handling (pa s)) eqn:Eh.
  { cbn. rewrite setp_pa_same. constructor; auto. }
  specialize (Hq eq_refl).
  destruct iqueue as (w & Ew & Eq).
  destruct w as [|r w].
  { rewrite Ew. cbn. rewrite setp_pa_same. constructor; auto. exists []. auto. }
  rewrite Ew. cbn [map fst].
  constructor; cbn; easy_fields.
  - kinds iK.
  - exists w. split; [reflexivity|].
    transitivity (olist (cur_mig (pa s)) ++ r :: w); [exact Eq|rewrite Hq; reflexivity].
  - unfold Phase in *. cbn. rewrite Eh. rewrite Hq, Eh in iphase.
    destruct (to_ctrl (pa s)); [tauto|]. exact iphase.
Qed.

Lemma A9 : PresA processPageMigrationReqFromCtrlPort.
Proof.
  intros s H. inv_destruct H. unfold processPageMigrationReqFromCtrlPort.
  case_eq (cur_mig (pa s)); [intros r Ecm|intros Ecm].
  2:{ cbn. rewrite setp_pa_same. constructor; auto. }
  case_eq (handling (pa s)); intros Eh.
  { cbn. rewrite setp_pa_same. constructor; auto. }
  assert (HN : NoTok s /\ to_ctrl (pa s) = None).
  { unfold Phase in iphase. rewrite Ecm, Eh in iphase. destruct (to_ctrl (pa s)); tauto. }
  destruct HN as ((T1 & T2 & T3 & Hnp & Hst) & Etc).
  assert (Hwf : wf_req r).
  { destruct iqueue as (w & _ & Eq). rewrite Ecm in Eq. rewrite Forall_forall in iwf.
    apply iwf. apply (skipn_incl (ndone s)). rewrite Eq. cbn. auto. }
  destruct Hwf as (W1 & W2 & _).
  destruct cfgA as (E1 & E2 & E3 & E4 & E5).
  rewrite gen_pulls_spec, E1, E5, W1. cbn [fst].
  match goal with |- Inv ?s1 =>
    assert (P1 : Permutation (toks1 s1)
       (map MPullReq (map (fun i => mkPullReq (ra, next_id (pa s) + N.of_nat i) ra rb
                                      (mg_rd r + 64 * N.of_nat i) 64)
                          (seq 0 (N.to_nat (nch r)))) ++ toks1 s))
      by (unfold toks1, nch; cbn; perm)
  end.
  rewrite T1, app_nil_r in P1.
  constructor; cbn; easy_fields.
  - unfold cfg_is; cbn; auto.
  - kinds iK.
  - unfold Phase. cbn. rewrite Ecm, Etc. exists (next_id (pa s)).
    eapply TF_perm; [symmetry; exact P1| | |apply TF_gen; exact Hst].
    + rewrite <- T2. reflexivity.
    + rewrite <- T3. reflexivity.
Qed.

Lemma phase_tf s : Phase s -> (toks1 s <> [] \/ toks2 s <> [] \/ toks3 s <> []) ->
  exists r b, cur_mig (pa s) = Some r /\ handling (pa s) = true /\ to_ctrl (pa s) = None /\
    TF r b (toks1 s) (toks2 s) (toks3 s) (idmap (pa s)) (num_pending (pa s)) (sta s) (base s).
Proof.
  unfold Phase. intros H Hne.
  assert (HN : NoTok s -> False) by (intros (T1 & T2 & T3 & _); tauto).
  destruct (cur_mig (pa s)) as [r|], (handling (pa s)), (to_ctrl (pa s)); try tauto.
  destruct H as (b & H). eauto 10.
Qed.

Lemma A12 : PresA processDataPullRsp.
Proof.
  intros s H. inv_destruct H. unfold processDataPullRsp.
  case_eq (is_nil (recv_data (pa s))); intros En.
  { cbn. rewrite setp_pa_same. constructor; auto. }
  destruct (phase_tf s iphase) as (r & b & Ecm & Eh & Etc & HT).
  { left. unfold toks1. destruct (recv_data (pa s)); [discriminate|].
    intros E. repeat (apply app_eq_nil in E; destruct E as [_ E]). discriminate. }
  set (rest := map MPullReq (to_pull (pa s)) ++ rem_out (pa s) ++ net s ++ rem_in (pb s) ++
    map MPullReq (cur_pull (pb s)) ++ map MRdReq (to_read (pb s)) ++ loc_out (pb s) ++ mqb s ++
    mrb s ++ loc_in (pb s) ++ map MDReady (data_ready (pb s)) ++ map MPullRsp (to_rsp (pb s)) ++
    rem_out (pb s) ++ rem_in (pa s)).
  assert (P : Permutation (toks1 s) (map MPullRsp (recv_data (pa s)) ++ rest)) by (unfold toks1, rest; perm).
  eapply TF_perm in HT; [|exact P|reflexivity|reflexivity].
  apply TF_pull in HT. destruct HT as (ws & idm' & E & HT).
  destruct cfgA as (E1 & E2 & E3 & E4 & E5).
  rewrite E3, E4, E. cbn [fst].
  constructor; cbn; easy_fields.
  - unfold cfg_is; cbn; auto.
  - kinds iK.
  - unfold Phase. cbn. rewrite Ecm, Eh, Etc. exists b.
    eapply TF_perm; [| | |exact HT].
    + unfold toks1, rest; cbn. perm.
    + unfold toks2; cbn. perm.
    + reflexivity.
Qed.

Lemma A13 : PresA processWriteDoneRspFromMemCtrl.
Proof.
  intros s H. inv_destruct H. unfold processWriteDoneRspFromMemCtrl.
  case_eq (recv_wdone (pa s)); [intros w Ew|intros Ew].
  2:{ cbn. rewrite setp_pa_same. constructor; auto. }
  destruct (phase_tf s iphase) as (r & b & Ecm & Eh & Etc & HT).
  { right; right. unfold toks3. rewrite Ew. cbn.
    intros E. repeat (apply app_eq_nil in E; destruct E as [_ E]). discriminate. }
  assert (P3 : Permutation (toks3 s) (MWDone w :: (mra s ++ loc_in (pa s)))) by (unfold toks3; rewrite Ew; cbn; perm).
  assert (Hpos : (num_pending (pa s) - 1 <? 0)%Z = false).
  { destruct HT. apply Permutation_length in P3. cbn [length] in P3. apply Z.ltb_ge. lia. }
  cbv zeta. rewrite Hpos.
  destruct iqueue as (wt & Ewt & Eq). rewrite Ecm in Eq. cbn [olist app] in Eq.
  destruct (skipn_cons_split _ _ _ _ Eq) as (S1 & S2 & S3).
  assert (Hwf : wf_req r).
  { rewrite Forall_forall in iwf. apply iwf. apply (skipn_incl (ndone s)). rewrite Eq. cbn. auto. }
  destruct cfgA as (E1 & E2 & E3 & E4 & E5).
  case_eq (num_pending (pa s) - 1 =? 0)%Z; intros Ez.
  - rewrite Ecm. cbn [fst].
    apply Z.eqb_eq in Ez.
    destruct (TF_last r b _ _ _ _ _ _ _ _ _ (proj1 (proj2 Hwf)) P3 Ez HT) as (T1 & T2 & T3 & Hst).
    apply app_eq_nil in T3. destruct T3 as (T3a & T3b).
    match goal with |- Inv ?s1 =>
      assert (Hnd : ndone s1 = S (ndone s)) by (unfold ndone; cbn; rewrite Etc; cbn; lia);
      assert (Hc : completed s1 = completed s ++ [r]) by (unfold completed; rewrite Hnd; exact S1);
      assert (Hb : base s1 = copy_req (base s) r) by (unfold base; rewrite Hc, fold_left_app; reflexivity)
    end.
    constructor; try rewrite Hnd; try rewrite Hc; cbn; easy_fields.
    + unfold cfg_is; cbn; auto.
    + kinds iK.
    + exists wt. split; [exact Ewt|exact S2].
    + rewrite map_app, <- irsp, Etc, E2. cbn. rewrite !app_nil_r, <- app_assoc. reflexivity.
    + unfold Phase. cbn. rewrite Eh. unfold NoTok. rewrite Hb. cbn.
      repeat split; try assumption.
      unfold toks3; cbn. rewrite T3a, T3b. reflexivity.
  - cbn [fst]. apply Z.eqb_neq in Ez.
    constructor; cbn; easy_fields.
    + unfold cfg_is; cbn; auto.
    + kinds iK.
    + exists wt. rewrite Ecm. auto.
    + unfold Phase. cbn. rewrite Ecm, Eh, Etc. exists b.
      eapply TF_perm; [reflexivity|reflexivity| |eapply TF_count; [exact P3|exact Ez|exact HT]].
      unfold toks3; cbn. perm.
Qed.

(** ** A whole tick *)
Definition notP1 (p : pmc) : Prop := handling p = false -> cur_mig p = None.
Definition Q (p : pmc) : Prop := recv_wdone p = None /\ notP1 p.
(** the invariant between events *)
Definition Inv2 (s : sys) : Prop := Inv s /\ Q (pa s).

Definition StepA (Pre Post : sys -> Prop) (f : pmc -> pmc * bool) : Prop :=
  forall s, Pre s -> Post (s <| pa := fst (f (pa s)) |>).
Definition StepB (Pre Post : sys -> Prop) (f : pmc -> pmc * bool) : Prop :=
  forall s, Pre s -> Post (s <| pb := fst (f (pb s)) |>).

Lemma set_pa_twice s p1 p2 : s <| pa := p1 |> <| pa := p2 |> = s <| pa := p2 |>.
Proof. destruct s; reflexivity. Qed.
Lemma set_pb_twice s p1 p2 : s <| pb := p1 |> <| pb := p2 |> = s <| pb := p2 |>.
Proof. destruct s; reflexivity. Qed.

Lemma andthen_A Pre Mid Post f g :
  StepA Pre Mid f -> (forall s, Mid s -> crashed (pa s) = false) -> StepA Mid Post g ->
  StepA Pre Post (andthen f g).
Proof.
  intros Hf Hc Hg s Hs. unfold andthen. specialize (Hf s Hs).
  destruct (f (pa s)) as [p1 b1]. cbn [fst] in Hf.
  pose proof (Hc _ Hf) as Hcr. cbn in Hcr. rewrite Hcr.
  specialize (Hg _ Hf). cbn in Hg. destruct (g p1) as [p2 b2]. cbn [fst] in *.
  rewrite set_pa_twice in Hg. exact Hg.
Qed.
Lemma andthen_B Pre Mid Post f g :
  StepB Pre Mid f -> (forall s, Mid s -> crashed (pb s) = false) -> StepB Mid Post g ->
  StepB Pre Post (andthen f g).
Proof.
  intros Hf Hc Hg s Hs. unfold andthen. specialize (Hf s Hs).
  destruct (f (pb s)) as [p1 b1]. cbn [fst] in Hf.
  pose proof (Hc _ Hf) as Hcr. cbn in Hcr. rewrite Hcr.
  specialize (Hg _ Hf). cbn in Hg. destruct (g p1) as [p2 b2]. cbn [fst] in *.
  rewrite set_pb_twice in Hg. exact Hg.
Qed.

Ltac crunch :=
  repeat match goal with
         | |- context [match ?x with _ => _ end] => destruct x eqn:?
         end; cbn in *; try tauto; try congruence.

Lemma keepQ1 p : Q p -> Q (fst (sendMigrationReqToAnotherPMC p)).
Proof. unfold Q, notP1, sendMigrationReqToAnotherPMC. intros. crunch. Qed.
Lemma keepQ2 p : Q p -> Q (fst (sendReadReqLocalMemPort p)).
Proof. unfold Q, notP1, sendReadReqLocalMemPort. intros. crunch. Qed.
Lemma keepQ3 p : Q p -> Q (fst (sendMigrationCompleteRspToCtrlPort p)).
Proof. unfold Q, notP1, sendMigrationCompleteRspToCtrlPort. intros. crunch. Qed.
Lemma keepQ4 p : Q p -> Q (fst (sendDataReadyRspToRequestingPMC p)).
Proof. unfold Q, notP1, sendDataReadyRspToRequestingPMC. intros. crunch. Qed.
Lemma keepQ5 p : Q p -> Q (fst (sendWriteReqLocalMemPort p)).
Proof. unfold Q, notP1, sendWriteReqLocalMemPort. intros. crunch. Qed.
Lemma keepQ6 p : Q p -> Q (fst (processFromOutside p)).
Proof. unfold Q, notP1, processFromOutside. intros. crunch. Qed.
Lemma keep7 p : Q p -> recv_wdone (fst (processFromCtrlPort p)) = None.
Proof. unfold Q, notP1, processFromCtrlPort. intros. crunch. Qed.
Lemma get9 p : notP1 (fst (processPageMigrationReqFromCtrlPort p)).
Proof. unfold notP1, processPageMigrationReqFromCtrlPort. crunch. Qed.
Lemma keep10 p : notP1 p -> notP1 (fst (processReadPageReqFromAnotherPMC p)).
Proof. unfold notP1, processReadPageReqFromAnotherPMC. intros. crunch. Qed.
Lemma keep11 p : notP1 p -> notP1 (fst (processDataReadyRspFromMemCtrl p)).
Proof. unfold notP1, processDataReadyRspFromMemCtrl. intros. crunch. Qed.
Lemma keep12 p : notP1 p -> notP1 (fst (processDataPullRsp p)).
Proof. unfold notP1, processDataPullRsp. intros. crunch. Qed.
Lemma get13 p : notP1 p -> Q (fst (processWriteDoneRspFromMemCtrl p)).
Proof. unfold Q, notP1, processWriteDoneRspFromMemCtrl. intros. crunch. Qed.

Lemma tick_A : StepA Inv2 Inv2 tick.
Proof.
  unfold tick, stages. cbn [fold_right].
  pose (IW := fun s => Inv s /\ recv_wdone (pa s) = None).
  pose (IN := fun s => Inv s /\ notP1 (pa s)).
  assert (C2 : forall s, Inv2 s -> crashed (pa s) = false) by (intros s [H _]; apply H).
  assert (CW : forall s, IW s -> crashed (pa s) = false) by (intros s [H _]; apply H).
  assert (CN : forall s, IN s -> crashed (pa s) = false) by (intros s [H _]; apply H).
  assert (CI : forall s, Inv s -> crashed (pa s) = false) by (intros s H; apply H).
  apply (andthen_A Inv2 Inv2); [intros s [H HQ]; split; [apply A1; auto|cbn; apply keepQ1; auto]|exact C2|].
  apply (andthen_A Inv2 Inv2); [intros s [H HQ]; split; [apply A2; auto|cbn; apply keepQ2; auto]|exact C2|].
  apply (andthen_A Inv2 Inv2); [intros s [H HQ]; split; [apply A3; auto|cbn; apply keepQ3; auto]|exact C2|].
  apply (andthen_A Inv2 Inv2); [intros s [H HQ]; split; [apply A4; auto|cbn; apply keepQ4; auto]|exact C2|].
  apply (andthen_A Inv2 Inv2); [intros s [H HQ]; split; [apply A5; auto|cbn; apply keepQ5; auto]|exact C2|].
  apply (andthen_A Inv2 Inv2); [intros s [H HQ]; split; [apply A6; auto|cbn; apply keepQ6; auto]|exact C2|].
  apply (andthen_A Inv2 IW); [intros s [H HQ]; split; [apply A7; [auto|apply HQ]|cbn; apply keep7; auto]|exact CW|].
  apply (andthen_A IW Inv); [intros s [H HQ]; apply A8; auto|exact CI|].
  apply (andthen_A Inv IN); [intros s H; split; [apply A9; auto|cbn; apply get9]|exact CN|].
  apply (andthen_A IN IN); [intros s [H HQ]; split; [apply A10; auto|cbn; apply keep10; auto]|exact CN|].
  apply (andthen_A IN IN); [intros s [H HQ]; split; [apply A11; auto|cbn; apply keep11; auto]|exact CN|].
  apply (andthen_A IN IN); [intros s [H HQ]; split; [apply A12; auto|cbn; apply keep12; auto]|exact CN|].
  apply (andthen_A IN Inv2); [intros s [H HQ]; split; [apply A13; auto|cbn; apply get13; auto]|exact C2|].
  intros s H. cbn. rewrite setp_pa_same. exact H.
Qed.

Lemma tick_B : StepB Inv2 Inv2 tick.
Proof.
  unfold tick, stages. cbn [fold_right].
  assert (C2 : forall s, Inv2 s -> crashed (pb s) = false) by (intros s [H _]; apply H).
  assert (L : forall f, PresB f -> StepB Inv2 Inv2 f).
  { intros f Hf s [H HQ]. split; [apply Hf; auto|exact HQ]. }
  repeat (apply (andthen_B Inv2 Inv2); [apply L; auto using B1, B2, B3, B4, B5, B6, B7, B8, B9, B10, B11, B12, B13|exact C2|]).
  intros s H. cbn. rewrite setp_pb_same. exact H.
Qed.

(** ** Environment events *)
Lemma nth_error_perm {T} (l : list T) : forall k m,
  nth_error l k = Some m -> Permutation l (m :: remove_nth k l).
Proof.
  induction l as [|x l IH]; intros [|k] m H; cbn in *; try discriminate.
  - inversion H; subst. reflexivity.
  - apply IH in H. etransitivity; [apply perm_skip, H|]. apply perm_swap.
Qed.
Lemma Forall_remove_nth {T} (P : T -> Prop) (l : list T) : forall k,
  Forall P l -> Forall P (remove_nth k l).
Proof.
  induction l as [|x l IH]; intros [|k] H; cbn; auto; inversion H; subst; auto.
Qed.
Lemma nth_error_Forall {T} (P : T -> Prop) (l : list T) k m :
  Forall P l -> nth_error l k = Some m -> P m.
Proof. intros H E. rewrite Forall_forall in H. apply H. eapply nth_error_In; eauto. Qed.
Lemma read_ext st st' a n : (forall x, st x = st' x) -> read st a n = read st' a n.
Proof. intros H. unfold read. apply map_ext. intros; apply H. Qed.

Lemma step_unfold s e : Inv s -> step s e =
  match e with
  | ETick w =>
    let '(p, pr) := tick (getp w s) in
    (setp w p s, if crashed p then OCrash else OTick pr)
  | ESendRemote w =>
    match rem_out (getp w s) with
    | [] => (s, OMsg None)
    | m :: r => (setp w (getp w s <| rem_out := r |>) s <| net := net s ++ [m] |>, OMsg (Some m))
    end
  | EDeliverRemote k =>
    match nth_error (net s) k with
    | None => (s, OAcc false)
    | Some m =>
      let to (w : who) :=
        if can_push (rem_in (getp w s))
        then (setp w (getp w s <| rem_in := rem_in (getp w s) ++ [m] |>) s
                <| net := remove_nth k (net s) |>, OAcc true)
        else (s, OAcc false) in
      if msg_dst m =? n_remote (pa s) then to PA
      else if msg_dst m =? n_remote (pb s) then to PB
      else (s, OAcc false)
    end
  | ESendLocal w =>
    match loc_out (getp w s) with
    | [] => (s, OMsg None)
    | m :: r => (setmq w (getmq w s ++ [m]) (setp w (getp w s <| loc_out := r |>) s), OMsg (Some m))
    end
  | EMemServe w k =>
    match nth_error (getmq w s) k with
    | None => (s, OMsg None)
    | Some m =>
      match mem_serve (getst w s) m with
      | None => (s, OMsg None)
      | Some (st', rsp) =>
        (setmr w (getmr w s ++ [rsp]) (setmq w (remove_nth k (getmq w s)) (setst w st' s)),
         OMsg (Some rsp))
      end
    end
  | EDeliverLocal w k =>
    match nth_error (getmr w s) k with
    | None => (s, OAcc false)
    | Some m =>
      if can_push (loc_in (getp w s))
      then (setmr w (remove_nth k (getmr w s))
              (setp w (getp w s <| loc_in := loc_in (getp w s) ++ [m] |>) s), OAcc true)
      else (s, OAcc false)
    end
  | ECtrlReq w m =>
    if can_push (ctl_in (getp w s))
    then (let s1 := setp w (getp w s <| ctl_in := ctl_in (getp w s) ++ [MMigReq m] |>) s in
          match w with PA => s1 <| g_acc := g_acc s ++ [m] |> | PB => s1 <| g_accb := g_accb s ++ [m] |> end, OAcc true)
    else (s, OAcc false)
  | ETakeCtrl w =>
    match ctl_out (getp w s) with
    | [] => (s, OMsg None)
    | m :: r =>
      (let s1 := setp w (getp w s <| ctl_out := r |>) s in
       match w with PA => s1 <| g_done := g_done s ++ [m] |> | PB => s1 <| g_doneb := g_doneb s ++ [m] |> end, OMsg (Some m))
    end
  | EInject m => (s <| net := net s ++ [m] |>, OAcc true)
  end.
Proof. intros H. unfold step. rewrite (i_crA _ H), (i_crB _ H). reflexivity. Qed.

Lemma ev_send_remote_A s : Inv s -> Inv (fst (step s (ESendRemote PA))).
Proof.
  intros H. rewrite step_unfold by auto. inv_destruct H. cbn [getp setp].
  destruct (rem_out (pa s)) as [|m r] eqn:E; [cbn; constructor; auto|]. cbn [fst].
  assert (Hm : isPQ m) by (destruct iK; rewrite E in *; inversion k_roa0; auto).
  constructor; cbn; easy_fields.
  - kinds iK. fa_tail k_roa0 E. apply Forall_app; split; auto.
  - phase_perm iphase. unfold toks1; cbn. rewrite E. perm.
Qed.

Lemma ev_send_remote_B s : Inv s -> Inv (fst (step s (ESendRemote PB))).
Proof.
  intros H. rewrite step_unfold by auto. inv_destruct H. cbn [getp setp].
  destruct (rem_out (pb s)) as [|m r] eqn:E; [cbn; constructor; auto|]. cbn [fst].
  assert (Hm : isPR m) by (destruct iK; rewrite E in *; inversion k_rob0; auto).
  constructor; cbn; easy_fields.
  - kinds iK. fa_tail k_rob0 E. apply Forall_app; split; auto.
  - phase_perm iphase. unfold toks1; cbn. rewrite E. perm.
Qed.

Lemma ev_deliver_remote s k : Inv s -> Inv (fst (step s (EDeliverRemote k))).
Proof.
  intros H. rewrite step_unfold by auto. inv_destruct H.
  destruct (nth_error (net s) k) as [m|] eqn:En; [|cbn; constructor; auto].
  pose proof (nth_error_perm _ _ _ En) as Hp.
  assert (Hin : In m (toks1 s)).
  { unfold toks1. repeat rewrite in_app_iff. right; right; left. eapply nth_error_In; eauto. }
  destruct (Phase_ok1 s m iphase Hin) as (r & b & Hok).
  destruct cfgA as (EA1 & EA). destruct cfgB as (EB1 & EB).
  assert (Hk : isPQ m \/ isPR m) by (destruct iK; eapply nth_error_Forall in k_net0; eauto).
  cbv zeta. rewrite EA1, EB1.
  destruct Hk as [(q & ->)|(q & ->)]; cbn in Hok; destruct Hok as (i & Hi & ->); cbn [msg_dst pq_dst pr_dst].
  - replace (rb =? ra) with false by (symmetry; apply N.eqb_neq; auto).
    rewrite N.eqb_refl. cbn [getp setp].
    destruct (can_push (rem_in (pb s))); [|cbn; constructor; auto; split; auto].
    cbn [fst]. constructor; cbn; easy_fields.
    + unfold cfg_is; auto.
    + unfold cfg_is; cbn; auto.
    + kinds iK.
      * apply Forall_app; split; auto. constructor; auto. eexists; eauto.
      * apply Forall_remove_nth; auto.
    + phase_perm iphase. unfold toks1; cbn. perm.
  - rewrite N.eqb_refl. cbn [getp setp].
    destruct (can_push (rem_in (pa s))); [|cbn; constructor; auto; split; auto].
    cbn [fst]. constructor; cbn; easy_fields.
    + unfold cfg_is; cbn; auto.
    + unfold cfg_is; auto.
    + kinds iK.
      * apply Forall_app; split; auto. constructor; auto. eexists; eauto.
      * apply Forall_remove_nth; auto.
    + phase_perm iphase. unfold toks1; cbn. perm.
Qed.

Lemma ev_send_local_A s : Inv s -> Inv (fst (step s (ESendLocal PA))).
Proof.
  intros H. rewrite step_unfold by auto. inv_destruct H. cbn [getp setp getmq setmq].
  destruct (loc_out (pa s)) as [|m r] eqn:E; [cbn; constructor; auto|]. cbn [fst].
  assert (Hm : isWQ m) by (destruct iK; rewrite E in *; inversion k_loa0; auto).
  constructor; cbn; easy_fields.
  - kinds iK. fa_tail k_loa0 E. apply Forall_app; split; auto.
  - phase_perm iphase. unfold toks2; cbn. rewrite E. perm.
Qed.

Lemma ev_send_local_B s : Inv s -> Inv (fst (step s (ESendLocal PB))).
Proof.
  intros H. rewrite step_unfold by auto. inv_destruct H. cbn [getp setp getmq setmq].
  destruct (loc_out (pb s)) as [|m r] eqn:E; [cbn; constructor; auto|]. cbn [fst].
  assert (Hm : isRQ m) by (destruct iK; rewrite E in *; inversion k_lob0; auto).
  constructor; cbn; easy_fields.
  - intros Hlt. apply ireq. unfold blen. rewrite E. rewrite app_length in Hlt. cbn [length] in *. lia.
  - kinds iK. fa_tail k_lob0 E. apply Forall_app; split; auto.
  - phase_perm iphase. unfold toks1; cbn. rewrite E. perm.
Qed.

Lemma ev_deliver_local_A s k : Inv s -> Inv (fst (step s (EDeliverLocal PA k))).
Proof.
  intros H. rewrite step_unfold by auto. inv_destruct H. cbn [getp setp getmr setmr].
  destruct (nth_error (mra s) k) as [m|] eqn:En; [|cbn; constructor; auto].
  pose proof (nth_error_perm _ _ _ En) as Hp.
  assert (Hm : isWD m) by (destruct iK; eapply nth_error_Forall in k_mra0; eauto).
  destruct (can_push (loc_in (pa s))); [|cbn; constructor; auto].
  cbn [fst]. constructor; cbn; easy_fields.
  - kinds iK. apply Forall_app; split; auto. apply Forall_remove_nth; auto.
  - phase_perm iphase. unfold toks3; cbn. perm.
Qed.

Lemma ev_deliver_local_B s k : Inv s -> Inv (fst (step s (EDeliverLocal PB k))).
Proof.
  intros H. rewrite step_unfold by auto. inv_destruct H. cbn [getp setp getmr setmr].
  destruct (nth_error (mrb s) k) as [m|] eqn:En; [|cbn; constructor; auto].
  pose proof (nth_error_perm _ _ _ En) as Hp.
  assert (Hm : isDR m) by (destruct iK; eapply nth_error_Forall in k_mrb0; eauto).
  destruct (can_push (loc_in (pb s))); [|cbn; constructor; auto].
  cbn [fst]. constructor; cbn; easy_fields.
  - intros Hlt. apply ireq. unfold blen. apply Permutation_length in Hp.
    rewrite app_length in Hlt. cbn [length] in *. lia.
  - kinds iK. apply Forall_app; split; auto. apply Forall_remove_nth; auto.
  - phase_perm iphase. unfold toks1; cbn. perm.
Qed.

Lemma ev_mem_serve_A s k : Inv s -> Inv (fst (step s (EMemServe PA k))).
Proof.
  intros H. rewrite step_unfold by auto. inv_destruct H. cbn [getp setp getmr setmr getmq setmq getst setst].
  destruct (nth_error (mqa s) k) as [m|] eqn:En; [|cbn; constructor; auto].
  pose proof (nth_error_perm _ _ _ En) as Hp.
  assert (Hm : isWQ m) by (destruct iK; eapply nth_error_Forall in k_mqa0; eauto).
  destruct Hm as (w & ->). cbn [mem_serve fst].
  destruct (phase_tf s iphase) as (r & b & Ecm & Eh & Etc & HT).
  { right; left. unfold toks2. intros E. repeat (apply app_eq_nil in E; destruct E as [_ E]).
    rewrite E in En. destruct k; discriminate. }
  assert (P2 : Permutation (toks2 s)
            (MWrReq w :: (map MWrReq (write_reqs (pa s)) ++ loc_out (pa s) ++ remove_nth k (mqa s))))
    by (unfold toks2; perm).
  pose proof (TF_write r b _ _ _ _ w (MWDone (mkWDone (wq_dst w) (wq_src w))) _ _ _ _ P2 HT) as HT'.
  constructor; cbn; easy_fields.
  - kinds iK. apply Forall_remove_nth; auto.
    apply Forall_app; split; auto. constructor; auto. eexists; eauto.
  - unfold Phase. cbn. rewrite Ecm, Eh, Etc. exists b.
    eapply TF_perm; [reflexivity|reflexivity| |exact HT'].
    unfold toks3; cbn. perm.
Qed.

Lemma ev_mem_serve_B s k : Inv s -> Inv (fst (step s (EMemServe PB k))).
Proof.
  intros H. rewrite step_unfold by auto. inv_destruct H. cbn [getp setp getmr setmr getmq setmq getst setst].
  destruct (nth_error (mqb s) k) as [m|] eqn:En; [|cbn; constructor; auto].
  pose proof (nth_error_perm _ _ _ En) as Hp.
  assert (Hm : isRQ m) by (destruct iK; eapply nth_error_Forall in k_mqb0; eauto).
  destruct Hm as (q & ->). cbn [mem_serve fst].
  constructor; cbn; easy_fields.
  - intros Hlt. apply ireq. unfold blen in *. cbn in Hlt. apply Permutation_length in Hp.
    rewrite app_length in Hlt. cbn [length] in *. lia.
  - kinds iK. apply Forall_remove_nth; auto.
    apply Forall_app; split; auto. constructor; auto. eexists; eauto.
  - eapply (Phase_repl s _ [MRdReq q]
              [MDReady (mkDReady (rq_dst q) (rq_src q) (rq_id q) (read (stb s) (rq_addr q) (rq_size q)))]
              (map MPullReq (to_pull (pa s)) ++ rem_out (pa s) ++ net s ++ rem_in (pb s) ++
               map MPullReq (cur_pull (pb s)) ++ map MRdReq (to_read (pb s)) ++ loc_out (pb s) ++
               remove_nth k (mqb s) ++ mrb s ++ loc_in (pb s) ++ map MDReady (data_ready (pb s)) ++
               map MPullRsp (to_rsp (pb s)) ++ rem_out (pb s) ++ rem_in (pa s) ++
               map MPullRsp (recv_data (pa s))));
      [reflexivity|reflexivity|reflexivity|reflexivity|reflexivity|intros; reflexivity|intros; reflexivity
      | | | |reflexivity|reflexivity|exact iphase].
    + unfold toks1. perm.
    + unfold toks1; cbn. perm.
    + intros r b. constructor; [|constructor]. split; [reflexivity|].
      intros (i & Hi & ->). unfold okM. exists i. split; [exact Hi|]. split; [reflexivity|].
      unfold chunk. cbn [dr_data rq_addr rq_size]. apply read_ext. exact istb.
Qed.

Lemma firstn_app_le {T} n (l1 l2 : list T) : (n <= length l1)%nat -> firstn n (l1 ++ l2) = firstn n l1.
Proof.
  intros H. rewrite firstn_app. replace (n - length l1)%nat with 0%nat by lia.
  cbn. apply app_nil_r.
Qed.
Lemma skipn_app_le {T} n (l1 l2 : list T) : (n <= length l1)%nat -> skipn n (l1 ++ l2) = skipn n l1 ++ l2.
Proof.
  intros H. rewrite skipn_app. replace (n - length l1)%nat with 0%nat by lia. reflexivity.
Qed.

Lemma ev_ctrl_req s m : wf_req m -> Inv s -> Inv (fst (step s (ECtrlReq PA m))).
Proof.
  intros Hwf H. rewrite step_unfold by auto. inv_destruct H. cbn [getp setp].
  destruct (can_push (ctl_in (pa s))); [|cbn; constructor; auto].
  cbv zeta. cbn [fst].
  match goal with |- Inv ?s1 =>
    assert (Hnd : ndone s1 = ndone s) by reflexivity;
    assert (Hc : completed s1 = completed s) by (unfold completed; rewrite Hnd; cbn; apply firstn_app_le; exact ind);
    assert (Hb : base s1 = base s) by (unfold base; rewrite Hc; reflexivity)
  end.
  constructor; try rewrite Hnd; try rewrite Hc; cbn; easy_fields.
  - kinds iK.
  - destruct iqueue as (w & E1 & E2). exists (w ++ [m]). rewrite E1, map_app. split; [reflexivity|].
    rewrite skipn_app_le by exact ind. rewrite E2, app_assoc. reflexivity.
  - rewrite app_length. cbn. lia.
  - apply Forall_app; split; auto.
  - eapply Phase_perm; [..|exact iphase]; try reflexivity; try (intros; reflexivity).
    intros a. rewrite Hb. reflexivity.
Qed.

Lemma ev_take_ctrl_A s : Inv s -> Inv (fst (step s (ETakeCtrl PA))).
Proof.
  intros H. rewrite step_unfold by auto. inv_destruct H. cbn [getp setp].
  destruct (ctl_out (pa s)) as [|m r] eqn:E; [cbn; constructor; auto; rewrite E; auto|].
  cbv zeta. cbn [fst].
  match goal with |- Inv ?s1 =>
    assert (Hnd : ndone s1 = ndone s) by (unfold ndone; cbn; rewrite E, app_length; cbn; lia);
    assert (Hc : completed s1 = completed s) by (unfold completed; rewrite Hnd; reflexivity);
    assert (Hb : base s1 = base s) by (unfold base; rewrite Hc; reflexivity)
  end.
  constructor; try rewrite Hnd; try rewrite Hc; cbn; easy_fields.
  - kinds iK.
  - rewrite <- irsp. rewrite <- app_assoc. reflexivity.
  - eapply Phase_perm; [..|exact iphase]; try reflexivity; try (intros; reflexivity).
    intros a. rewrite Hb. reflexivity.
Qed.

Lemma ev_take_ctrl_B s : Inv s -> Inv (fst (step s (ETakeCtrl PB))).
Proof.
  intros H. rewrite step_unfold by auto. cbn [getp setp].
  destruct (i_B _ H) as (_ & _ & _ & _ & _ & _ & _ & _ & E). rewrite E. exact H.
Qed.

Lemma step_Q s e : Inv s -> (forall w, e <> ETick w) -> Q (pa s) -> Q (pa (fst (step s e))).
Proof.
  intros H Hne HQ. rewrite step_unfold by auto. unfold Q, notP1 in *.
  destruct e as [w|w|k|w|w k|w k|w m|w|m]; [exfalso; eapply Hne; eauto|..];
    try destruct w; cbv zeta; cbn [getp setp getmq setmq getmr setmr getst setst]; crunch.
Qed.

Lemma step_inv s e : ok_ev e -> Inv2 s -> Inv2 (fst (step s e)).
Proof.
  intros Hok [H HQ].
  destruct e as [w|w|k|w|w k|w k|w m|w|m].
  - rewrite step_unfold by auto. destruct w; cbn [getp setp].
    + pose proof (tick_A s (conj H HQ)) as HT. destruct (tick (pa s)) as [p pr]. exact HT.
    + pose proof (tick_B s (conj H HQ)) as HT. destruct (tick (pb s)) as [p pr]. exact HT.
  - split; [|apply step_Q; auto; discriminate]. destruct w; [apply ev_send_remote_A|apply ev_send_remote_B]; auto.
  - split; [|apply step_Q; auto; discriminate]. apply ev_deliver_remote; auto.
  - split; [|apply step_Q; auto; discriminate]. destruct w; [apply ev_send_local_A|apply ev_send_local_B]; auto.
  - split; [|apply step_Q; auto; discriminate]. destruct w; [apply ev_mem_serve_A|apply ev_mem_serve_B]; auto.
  - split; [|apply step_Q; auto; discriminate]. destruct w; [apply ev_deliver_local_A|apply ev_deliver_local_B]; auto.
  - split; [|apply step_Q; auto; discriminate]. destruct w; [apply ev_ctrl_req; auto|destruct Hok].
  - split; [|apply step_Q; auto; discriminate]. destruct w; [apply ev_take_ctrl_A|apply ev_take_ctrl_B]; auto.
  - destruct Hok.
Qed.

Lemma run_inv evs : forall s, Forall ok_ev evs -> Inv2 s -> Inv2 (run s evs).
Proof.
  induction evs as [|e evs IH]; intros s Hok H; [exact H|].
  inversion Hok; subst. cbn. apply IH; auto. apply step_inv; auto.
Qed.

Lemma init_inv2 : Inv2 s_init.
Proof. split; [apply init_inv|]. split; [reflexivity|intros _; reflexivity]. Qed.

(** ** What the invariant says *)

(** A's memory is exactly the result of the completed migrations, applied in
    order, unless a migration is being transferred; then it may differ only
    inside the destination range of that migration, byte by byte old or new. *)
Lemma store_of_inv s : Inv s ->
  (forall a, stb s a = sb0 a) /\
  match cur_mig (pa s) with
  | None => forall a, sta s a = base s a
  | Some r => forall a, sta s a = base s a \/
                        (mg_wr r <= a < mg_wr r + mg_size r /\ sta s a = sb0 (mg_rd r + (a - mg_wr r)))
  end.
Proof.
  intros H. split; [apply H|]. pose proof (i_phase _ H) as Hp. unfold Phase in Hp.
  destruct (cur_mig (pa s)) as [r|] eqn:Ecm.
  - assert (Hwf : wf_req r).
    { destruct (i_queue _ H) as (w & _ & Eq). rewrite Ecm in Eq.
      pose proof (i_wf _ H) as Hw. rewrite Forall_forall in Hw.
      apply Hw. apply (skipn_incl (ndone s)). rewrite Eq. cbn. auto. }
    assert (Esz : mg_size r = 64 * nch r).
    { destruct Hwf as (_ & Hm & _). unfold nch. pose proof (N.div_mod (mg_size r) 64). lia. }
    destruct (handling (pa s)), (to_ctrl (pa s)); try tauto.
    + destruct Hp as (b & HT). intros a. destruct (tf_st _ _ _ _ _ _ _ _ _ HT a) as [E|[E1 E2]]; auto.
      right. split; [lia|auto].
    + destruct Hp as (_ & _ & _ & _ & Hst). intros a. left. auto.
  - destruct (handling (pa s)), (to_ctrl (pa s)); try tauto; apply Hp.
Qed.

Lemma copy_req_spec st r a :
  (mg_wr r <= a < mg_wr r + mg_size r -> copy_req st r a = sb0 (mg_rd r + (a - mg_wr r))) /\
  (a < mg_wr r \/ mg_wr r + mg_size r <= a -> copy_req st r a = st a).
Proof.
  unfold copy_req. split; intros H.
  - destruct (mg_wr r <=? a) eqn:E1; [|apply N.leb_gt in E1; lia].
    destruct (a <? mg_wr r + mg_size r) eqn:E2; [|apply N.ltb_ge in E2; lia]. reflexivity.
  - destruct (mg_wr r <=? a) eqn:E1; cbn; auto.
    destruct (a <? mg_wr r + mg_size r) eqn:E2; cbn; auto.
    apply N.leb_le in E1. apply N.ltb_lt in E2. lia.
Qed.

Lemma reach evs : Forall ok_ev evs -> Inv (run s_init evs).
Proof. intros H. apply (run_inv evs s_init H init_inv2). Qed.

Lemma completion_once evs : Forall ok_ev evs ->
  let s := run s_init evs in
  g_done s ++ ctl_out (pa s) ++ map MMigRsp (olist (to_ctrl (pa s))) =
    map (fun r => MMigRsp (mkMigRsp ca (mg_src r))) (completed s) /\
  length (completed s) = ndone s /\ (ndone s <= length (g_acc s))%nat /\
  ctl_out (pb s) = [].
Proof.
  intros Hok s. pose proof (reach evs Hok) as H. fold s in H.
  split; [exact (i_rsp _ H)|]. split; [|split; [exact (i_nd _ H)|apply (i_B _ H)]].
  unfold completed. apply firstn_length_le. exact (i_nd _ H).
Qed.

Lemma requests_queue evs : Forall ok_ev evs ->
  let s := run s_init evs in
  exists waiting,
    ctl_in (pa s) = map MMigReq waiting /\
    g_acc s = completed s ++ olist (cur_mig (pa s)) ++ waiting.
Proof.
  intros Hok s. pose proof (reach evs Hok) as H. fold s in H.
  destruct (i_queue _ H) as (w & E1 & E2). exists w. split; [exact E1|].
  rewrite <- E2. unfold completed. symmetry. apply firstn_skipn.
Qed.

Lemma one_page evs r : Forall ok_ev evs ->
  let s := run s_init evs in
  g_acc s = [r] -> ndone s = 1%nat ->
  (forall a, mg_wr r <= a < mg_wr r + mg_size r -> sta s a = sb0 (mg_rd r + (a - mg_wr r))) /\
  (forall a, a < mg_wr r \/ mg_wr r + mg_size r <= a -> sta s a = sa0 a) /\
  (forall a, stb s a = sb0 a).
Proof.
  intros Hok s Hacc Hnd. pose proof (reach evs Hok) as H. fold s in H.
  destruct (store_of_inv _ H) as [Hb Ha].
  destruct (i_queue _ H) as (w & _ & E2). rewrite Hacc, Hnd in E2. cbn in E2.
  destruct (cur_mig (pa s)); [discriminate|].
  assert (Hbase : forall a, base s a = copy_req sa0 r a).
  { intros a. unfold base, completed. rewrite Hacc, Hnd. reflexivity. }
  repeat split; auto; intros a Hr; rewrite Ha, Hbase; apply copy_req_spec; auto.
Qed.

End Two.

Lemma requester_overwritten p q rest :
  rem_in p = MPullReq q :: rest ->
  requester (fst (processFromOutside p)) = pq_src q.
Proof. intros E. unfold processFromOutside. rewrite E. reflexivity. Qed.

(** the port names akita's Send accepts for the messages of the protocol *)
Definition names_ok (ra la ma rb lb mb : N) : Prop :=
  ra <> 0 /\ rb <> 0 /\ ra <> rb /\ (ma <> 0 /\ ma <> la) /\ (mb <> 0 /\ mb <> lb).

Lemma copy_spec sb0 st r a :
  (mg_wr r <= a < mg_wr r + mg_size r -> copy_req sb0 st r a = sb0 (mg_rd r + (a - mg_wr r))) /\
  (a < mg_wr r \/ mg_wr r + mg_size r <= a -> copy_req sb0 st r a = st a).
Proof.
  unfold copy_req. split; intros H.
  - destruct (mg_wr r <=? a) eqn:E1; [|apply N.leb_gt in E1; lia].
    destruct (a <? mg_wr r + mg_size r) eqn:E2; [|apply N.ltb_ge in E2; lia]. reflexivity.
  - destruct (mg_wr r <=? a) eqn:E1; cbn; auto.
    destruct (a <? mg_wr r + mg_size r) eqn:E2; cbn; auto.
    apply N.leb_le in E1. apply N.ltb_lt in E2. lia.
Qed.
