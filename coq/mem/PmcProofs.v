(** Invariant of the two-controller system of Pmc.v and the lemmas behind
    props/C19.v.  Controller A pulls pages from controller B (requests are
    offered to A's control port only: one puller per source at a time). *)
From Coq Require Import Permutation ZifyN ZifyNat ZifyBool.
From VMem Require Import Pmc PmcLemmas.
From RecordUpdate Require Import RecordSet.
Import RecordSetNotations.
Open Scope N_scope.

Definition olist {T} (o : option T) : list T := match o with Some x => [x] | None => [] end.

(** identifier carried by a message of the pull pipeline *)
Definition tid (m : pmsg) : id :=
  match m with
  | MPullReq q => pq_id q | MPullRsp p => pr_id p | MRdReq q => rq_id q
  | MDReady d => dr_rspto d | _ => (0, 0)
  end.
Definition waddr (m : pmsg) : N := match m with MWrReq w => wq_addr w | _ => 0 end.

Definition isPQ (m : pmsg) : Prop := exists q, m = MPullReq q.
Definition isPR (m : pmsg) : Prop := exists q, m = MPullRsp q.
Definition isRQ (m : pmsg) : Prop := exists q, m = MRdReq q.
Definition isWQ (m : pmsg) : Prop := exists q, m = MWrReq q.
Definition isDR (m : pmsg) : Prop := exists q, m = MDReady q.
Definition isWD (m : pmsg) : Prop := exists q, m = MWDone q.

Definition nch (r : migreq) : N := mg_size r / 64.

Section Two.
Variables ra ca la ma rb cb lb mb : N.
Variables sa0 sb0 : store.
Hypothesis Hra : ra <> 0.
Hypothesis Hrb : rb <> 0.
Hypothesis Hrab : ra <> rb.
Hypothesis Hma : ma <> 0 /\ ma <> la.
Hypothesis Hmb : mb <> 0 /\ mb <> lb.

Definition s_init : sys := init_sys (init_pmc ra ca la ma) (init_pmc rb cb lb mb) sa0 sb0.

Definition wf_req (r : migreq) : Prop :=
  mg_remote r = rb /\ mg_size r mod 64 = 0 /\ mg_src r <> 0 /\ mg_src r <> ca.

(** the environment of the theorems: anything, except that migration requests
    go to A only, are well formed, and nobody else talks on the network *)
Definition ok_ev (e : ev) : Prop :=
  match e with
  | ECtrlReq PA m => wf_req m
  | ECtrlReq PB _ => False
  | EInject _ => False
  | _ => True
  end.

(** what a finished migration must have done to A's memory *)
Definition copy_req (st : store) (r : migreq) : store :=
  fun a => if (mg_wr r <=? a) && (a <? mg_wr r + mg_size r)
           then sb0 (mg_rd r + (a - mg_wr r)) else st a.

Definition rsp_of (r : migreq) : pmsg := MMigRsp (mkMigRsp ca (mg_src r)).

(** number of completion responses created so far *)
Definition ndone (s : sys) : nat :=
  (length (g_done s) + length (ctl_out (pa s)) + length (olist (to_ctrl (pa s))))%nat.
Definition completed (s : sys) : list migreq := firstn (ndone s) (g_acc s).
Definition base (s : sys) : store := fold_left copy_req (completed s) sa0.

(** ** Messages of the pipeline for request [r] whose pull IDs start at [b] *)
Section Tok.
Variables (r : migreq) (b : N).

Definition chunk (i : N) : list N := read sb0 (mg_rd r + 64 * i) 64.

Definition okM (m : pmsg) : Prop :=
  match m with
  | MPullReq q => exists i, i < nch r /\ q = mkPullReq (ra, b + i) ra rb (mg_rd r + 64 * i) 64
  | MRdReq q => exists i, i < nch r /\ q = mkRdReq (ra, b + i) lb mb (mg_rd r + 64 * i) 64
  | MDReady d => exists i, i < nch r /\ dr_rspto d = (ra, b + i) /\ dr_data d = chunk i
  | MPullRsp p => exists i, i < nch r /\ p = mkPullRsp (ra, b + i) rb ra (chunk i)
  | MWrReq w => exists i, i < nch r /\ w = mkWrReq la ma (mg_wr r + 64 * i) (chunk i)
  | MWDone _ => True
  | _ => False
  end.

Definition written (st : store) (i : N) : Prop :=
  forall j, j < 64 -> st (mg_wr r + 64 * i + j) = sb0 (mg_rd r + 64 * i + j).

(** [t1]: messages that still carry a pull ID; [t2]: write requests not yet
    performed; [t3]: write acknowledgements not yet counted *)
Record TF (t1 t2 t3 : list pmsg) (idm : list (id * N)) (np : Z) (st bs : store) : Prop := {
  tf_ok1 : Forall okM t1;
  tf_ok2 : Forall okM t2;
  tf_nd : NoDup (map tid t1);
  tf_i1 : forall i a, i < nch r -> lookup (ra, b + i) idm = Some a -> a = mg_wr r + 64 * i;
  tf_i2 : forall m, In m t1 -> lookup (tid m) idm <> None;
  tf_np : np = Z.of_nat (length t1 + length t2 + length t3);
  tf_cov : forall i, i < nch r ->
           written st i \/ In (ra, b + i) (map tid t1) \/ In (mg_wr r + 64 * i) (map waddr t2);
  tf_st : forall a, st a = bs a \/
                    (mg_wr r <= a < mg_wr r + 64 * nch r /\ st a = sb0 (mg_rd r + (a - mg_wr r)))
}.

Lemma TF_repl t1 t1' xs xs' rest t2 t3 idm np st bs :
  Permutation t1 (xs ++ rest) -> Permutation t1' (xs' ++ rest) ->
  Forall2 (fun m m' => tid m' = tid m /\ (okM m -> okM m')) xs xs' ->
  TF t1 t2 t3 idm np st bs -> TF t1' t2 t3 idm np st bs.
Proof.
  intros P1 P2 F [ok1 ok2 nd i1 i2 np' cov st'].
  assert (Hids : map tid xs' = map tid xs).
  { clear -F. induction F as [|x y l l' [E _] _ IH]; cbn; congruence. }
  assert (Pid : Permutation (map tid t1) (map tid t1')).
  { rewrite (Permutation_map tid P1), (Permutation_map tid P2), !map_app, Hids. reflexivity. }
  constructor; auto.
  - eapply Permutation_Forall; [symmetry; exact P2|].
    eapply Permutation_Forall in ok1; [|exact P1].
    apply Forall_app in ok1. destruct ok1 as [oxs orest]. apply Forall_app. split; auto.
    clear -F oxs. induction F as [|x y l l' [_ E] _ IH]; auto.
    inversion oxs; subst. constructor; auto.
  - eapply Permutation_NoDup; eauto.
  - intros m Hm. eapply Permutation_in in Hm; [|exact P2].
    assert (In (tid m) (map tid t1)).
    { eapply Permutation_in; [symmetry; exact Pid|]. apply in_map.
      eapply Permutation_in; [symmetry; exact P2|exact Hm]. }
    apply in_map_iff in H. destruct H as (m0 & E & Hm0). rewrite <- E. auto.
  - rewrite np'. apply Permutation_length in P1, P2. rewrite P1, P2, !app_length.
    f_equal. f_equal. f_equal. f_equal. apply (f_equal (@length _)) in Hids.
    rewrite !map_length in Hids. auto.
  - intros i Hi. destruct (cov i Hi) as [H|[H|H]]; auto. right; left.
    eapply Permutation_in; eauto.
Qed.

Lemma TF_perm t1 t2 t3 t1' t2' t3' idm np st bs :
  Permutation t1 t1' -> Permutation t2 t2' -> Permutation t3 t3' ->
  TF t1 t2 t3 idm np st bs -> TF t1' t2' t3' idm np st bs.
Proof.
  intros P1 P2 P3 H.
  assert (H1 : TF t1' t2 t3 idm np st bs).
  { eapply (TF_repl t1 t1' [] [] t1'); eauto. }
  clear H. destruct H1 as [ok1 ok2 nd i1 i2 np' cov st'].
  constructor; auto.
  - eapply Permutation_Forall; eauto.
  - rewrite np'. apply Permutation_length in P2, P3. congruence.
  - intros i Hi. destruct (cov i Hi) as [H|[H|H]]; auto. right; right.
    eapply Permutation_in; [apply Permutation_map; exact P2|auto].
Qed.

(** stage 12: a pull response becomes a write request *)
Lemma TF_pull1 p t1 t2 t3 idm np st bs :
  TF (MPullRsp p :: t1) t2 t3 idm np st bs ->
  exists a, lookup (pr_id p) idm = Some a /\
    TF t1 (t2 ++ [MWrReq (mkWrReq la ma a (pr_data p))]) t3 (delete (pr_id p) idm) np st bs.
Proof.
  intros [ok1 ok2 nd i1 i2 np' cov st'].
  inversion ok1 as [|? ? Hp ok1']; subst. destruct Hp as (i & Hi & ->). cbn [pr_id pr_data].
  cbn [map tid pr_id] in nd. inversion nd as [|? ? Hnin nd']; subst.
  destruct (lookup (ra, b + i) idm) as [a|] eqn:El.
  2:{ exfalso. apply (i2 (MPullRsp (mkPullRsp (ra, b + i) rb ra (chunk i)))); cbn; auto. }
  pose proof (i1 i a Hi El) as ->. eexists; split; [reflexivity|].
  constructor; auto.
  - apply Forall_app; split; auto. constructor; auto. exists i; auto.
  - intros i0 a0 Hi0 Hl. apply lookup_delete_some in Hl. destruct Hl as [Hl _]. eauto.
  - intros m Hm. rewrite lookup_delete_other; [apply i2; right; auto|].
    intros E. apply Hnin. rewrite <- E. apply in_map. auto.
  - try rewrite np'. cbn [length]. rewrite app_length. cbn [length]. lia.
  - intros i0 Hi0. destruct (cov i0 Hi0) as [H|[H|H]]; auto.
    + cbn [map tid pr_id] in H. destruct H as [H|H]; auto.
      inversion H. assert (i = i0) by lia. subst i0. right; right.
      rewrite map_app, in_app_iff. right. cbn. auto.
    + right; right. rewrite map_app, in_app_iff. auto.
Qed.

Lemma TF_pull : forall (l : list pullrsp) t1 t2 t3 idm np st bs,
  TF (map MPullRsp l ++ t1) t2 t3 idm np st bs ->
  exists ws idm', pull_rsps la ma l idm = (ws, idm', false) /\
    TF t1 (t2 ++ map MWrReq ws) t3 idm' np st bs.
Proof.
  induction l as [|p l IH]; intros t1 t2 t3 idm np st bs H.
  - exists [], idm. cbn. rewrite app_nil_r. auto.
  - cbn [map app] in H. apply TF_pull1 in H. destruct H as (a & El & H).
    apply IH in H. destruct H as (ws & idm' & E & H).
    cbn [pull_rsps]. rewrite El, E. eexists; eexists; split; [reflexivity|].
    rewrite <- app_assoc in H. exact H.
Qed.

(** a memory performs a write request *)
Lemma TF_write t1 t2 t2' t3 w wd idm np st bs :
  Permutation t2 (MWrReq w :: t2') ->
  TF t1 t2 t3 idm np st bs ->
  TF t1 t2' (t3 ++ [wd]) idm np (write st (wq_addr w) (wq_data w)) bs.
Proof.
  intros P H. apply (TF_perm _ _ _ _ _ _ _ _ _ _ (Permutation_refl t1) P (Permutation_refl t3)) in H.
  destruct H as [ok1 ok2 nd i1 i2 np' cov st'].
  inversion ok2 as [|? ? Hw ok2']; subst. destruct Hw as (i & Hi & ->). cbn [wq_addr wq_data].
  assert (Hwi : written (write st (mg_wr r + 64 * i) (chunk i)) i).
  { intros j Hj. unfold chunk. rewrite write_read_in by lia. f_equal. lia. }
  assert (Hwo : forall i0, i0 <> i -> written st i0 -> written (write st (mg_wr r + 64 * i) (chunk i)) i0).
  { intros i0 Hn Hw j Hj. unfold chunk. rewrite write_read_out by lia. auto. }
  constructor; auto.
  - try rewrite np'. cbn [length]. rewrite app_length. cbn [length]. lia.
  - intros i0 Hi0. destruct (N.eq_dec i0 i) as [->|Hn]; auto.
    destruct (cov i0 Hi0) as [H|[H|H]]; auto.
    cbn [map waddr wq_addr] in H. destruct H as [H|H]; auto. exfalso. lia.
  - intros a. unfold chunk.
    destruct (N.lt_ge_cases a (mg_wr r + 64 * i)) as [Hlt|Hge].
    { rewrite write_read_out by lia. auto. }
    destruct (N.lt_ge_cases a (mg_wr r + 64 * i + 64)) as [Hlt2|Hge2].
    2:{ rewrite write_read_out by lia. auto. }
    right. rewrite write_read_in by lia. split; [lia|]. f_equal. lia.
Qed.

(** stage 13: an acknowledgement is counted *)
Lemma TF_count t1 t2 t3 t3' x idm np st bs :
  Permutation t3 (x :: t3') ->
  TF t1 t2 t3 idm np st bs -> TF t1 t2 t3' idm (np - 1)%Z st bs.
Proof.
  intros P [ok1 ok2 nd i1 i2 np' cov st']. constructor; auto.
  apply Permutation_length in P. cbn [length] in P. lia.
Qed.

Lemma TF_last t1 t2 t3 t3' x idm np st bs :
  mg_size r mod 64 = 0 ->
  Permutation t3 (x :: t3') -> (np - 1 = 0)%Z ->
  TF t1 t2 t3 idm np st bs ->
  t1 = [] /\ t2 = [] /\ t3' = [] /\ forall a, st a = copy_req bs r a.
Proof.
  intros Hsz P Hnp [ok1 ok2 nd i1 i2 np' cov st'].
  apply Permutation_length in P. cbn [length] in P.
  assert (length t1 = 0%nat /\ length t2 = 0%nat /\ length t3' = 0%nat) as (L1 & L2 & L3) by lia.
  apply length_zero_iff_nil in L1, L2, L3. subst. repeat split; auto.
  intros a. unfold copy_req.
  assert (Esz : mg_size r = 64 * nch r).
  { unfold nch. pose proof (N.div_mod (mg_size r) 64). lia. }
  destruct (mg_wr r <=? a) eqn:E1; cbn [andb].
  2:{ apply N.leb_gt in E1. destruct (st' a) as [H|[H _]]; auto. lia. }
  destruct (a <? mg_wr r + mg_size r) eqn:E2.
  2:{ apply N.ltb_ge in E2. destruct (st' a) as [H|[H _]]; auto. lia. }
  apply N.leb_le in E1. apply N.ltb_lt in E2.
  set (d := a - mg_wr r). set (i := d / 64). set (j := d mod 64).
  assert (Hd : d = 64 * i + j) by (apply N.div_mod; lia).
  assert (Hj : j < 64) by (apply N.mod_lt; lia).
  assert (Hi : i < nch r).
  { apply N.div_lt_upper_bound; [lia|]. lia. }
  destruct (cov i Hi) as [H|[H|H]]; [|cbn in H; tauto|cbn in H; tauto].
  specialize (H j Hj). replace a with (mg_wr r + 64 * i + j) by lia. rewrite H. f_equal. lia.
Qed.

(** stage 9: the pull requests of a new migration *)
Lemma TF_gen idm st bs :
  (forall a, st a = bs a) ->
  let n := N.to_nat (nch r) in
  TF (map MPullReq (map (fun i => mkPullReq (ra, b + N.of_nat i) ra rb (mg_rd r + 64 * N.of_nat i) 64) (seq 0 n)))
     [] []
     (insert_all (map (fun i => ((ra, b + N.of_nat i), mg_wr r + 64 * N.of_nat i)) (seq 0 n)) idm)
     (Z.of_N (nch r)) st bs.
Proof.
  intros Hst n.
  assert (Hkeys : NoDup (map (fun i => (ra, b + N.of_nat i)) (seq 0 n))).
  { apply FinFun.Injective_map_NoDup; [|apply seq_NoDup].
    intros x y E. inversion E. lia. }
  assert (Hlk : forall i, i < nch r ->
            lookup (ra, b + i) (insert_all (map (fun i => ((ra, b + N.of_nat i), mg_wr r + 64 * N.of_nat i)) (seq 0 n)) idm)
            = Some (mg_wr r + 64 * i)).
  { intros i Hi. unfold insert_all. rewrite lookup_app.
    rewrite (lookup_NoDup _ _ (mg_wr r + 64 * i)); auto.
    - rewrite map_rev. eapply Permutation_NoDup; [apply Permutation_rev|].
      rewrite map_map. cbn [fst]. exact Hkeys.
    - rewrite <- in_rev. apply in_map_iff. exists (N.to_nat i).
      rewrite N2Nat.id. split; auto. apply in_seq. subst n. lia. }
  constructor.
  - rewrite Forall_forall. intros m Hm. rewrite map_map in Hm. apply in_map_iff in Hm.
    destruct Hm as (i & <- & Hi). apply in_seq in Hi. cbn. exists (N.of_nat i). split; auto. subst n. lia.
  - constructor.
  - rewrite !map_map. cbn [tid pq_id]. exact Hkeys.
  - intros i a Hi Hl. rewrite Hlk in Hl by auto. congruence.
  - intros m Hm. rewrite map_map in Hm. apply in_map_iff in Hm.
    destruct Hm as (i & <- & Hi). apply in_seq in Hi. cbn [tid pq_id].
    rewrite (Hlk (N.of_nat i)) by (subst n; lia). discriminate.
  - rewrite !map_length, seq_length. cbn [length]. subst n. lia.
  - intros i Hi. right; left. rewrite !map_map. cbn [tid pq_id]. apply in_map_iff.
    exists (N.to_nat i). rewrite N2Nat.id. split; auto. apply in_seq. subst n. lia.
  - intros a. left. auto.
Qed.

Lemma TF_ext t1 t2 t3 idm np st bs st' bs' :
  (forall a, st' a = st a) -> (forall a, bs' a = bs a) ->
  TF t1 t2 t3 idm np st bs -> TF t1 t2 t3 idm np st' bs'.
Proof.
  intros E1 E2 [ok1 ok2 nd i1 i2 np' cov stc]. constructor; auto.
  - intros i Hi. destruct (cov i Hi) as [H|H]; auto. left. intros j Hj. rewrite E1. auto.
  - intros a. rewrite E1, E2. auto.
Qed.

End Tok.
(** ** The system invariant *)
Definition toks1 (s : sys) : list pmsg :=
  map MPullReq (to_pull (pa s)) ++ rem_out (pa s) ++ net s ++ rem_in (pb s) ++
  map MPullReq (cur_pull (pb s)) ++ map MRdReq (to_read (pb s)) ++ loc_out (pb s) ++ mqb s ++
  mrb s ++ loc_in (pb s) ++ map MDReady (data_ready (pb s)) ++ map MPullRsp (to_rsp (pb s)) ++
  rem_out (pb s) ++ rem_in (pa s) ++ map MPullRsp (recv_data (pa s)).
Definition toks2 (s : sys) : list pmsg :=
  map MWrReq (write_reqs (pa s)) ++ loc_out (pa s) ++ mqa s.
Definition toks3 (s : sys) : list pmsg :=
  mra s ++ loc_in (pa s) ++ map MWDone (olist (recv_wdone (pa s))).

(** messages between B's remote port and B's reply list: they will be answered
    to whatever [requester] holds *)
Definition blen (s : sys) : nat :=
  (length (cur_pull (pb s)) + length (to_read (pb s)) + length (loc_out (pb s)) + length (mqb s) +
   length (mrb s) + length (loc_in (pb s)) + length (data_ready (pb s)))%nat.

Record Kinds (s : sys) : Prop := {
  k_roa : Forall isPQ (rem_out (pa s));
  k_ria : Forall isPR (rem_in (pa s));
  k_loa : Forall isWQ (loc_out (pa s));
  k_lia : Forall isWD (loc_in (pa s));
  k_rob : Forall isPR (rem_out (pb s));
  k_rib : Forall isPQ (rem_in (pb s));
  k_lob : Forall isRQ (loc_out (pb s));
  k_lib : Forall isDR (loc_in (pb s));
  k_net : Forall (fun m => isPQ m \/ isPR m) (net s);
  k_mqa : Forall isWQ (mqa s);
  k_mra : Forall isWD (mra s);
  k_mqb : Forall isRQ (mqb s);
  k_mrb : Forall isDR (mrb s)
}.

Definition cfg_is (p : pmc) (r c l m : N) : Prop :=
  n_remote p = r /\ n_ctrl p = c /\ n_local p = l /\ n_mem p = m /\ xfer p = 64.

(** A never acts as a source, B never as a puller *)
Definition Apristine (p : pmc) : Prop :=
  cur_pull p = [] /\ to_read p = [] /\ data_ready p = [] /\ to_rsp p = [].
Definition Bpristine (p : pmc) : Prop :=
  cur_mig p = None /\ handling p = false /\ to_pull p = [] /\ recv_data p = [] /\
  write_reqs p = [] /\ recv_wdone p = None /\ to_ctrl p = None /\ ctl_in p = [] /\ ctl_out p = [].

Definition NoTok (s : sys) : Prop :=
  toks1 s = [] /\ toks2 s = [] /\ toks3 s = [] /\ num_pending (pa s) = (-1)%Z /\
  forall a, sta s a = base s a.

Definition Phase (s : sys) : Prop :=
  match cur_mig (pa s), handling (pa s), to_ctrl (pa s) with
  | None, false, None => NoTok s                       (* idle *)
  | Some _, false, None => NoTok s                     (* request taken, pulls not yet generated *)
  | Some r, true, None =>                              (* transferring *)
    exists b, TF r b (toks1 s) (toks2 s) (toks3 s) (idmap (pa s)) (num_pending (pa s)) (sta s) (base s)
  | None, true, Some _ => NoTok s                      (* completion waiting for the control port *)
  | _, _, _ => False
  end.

Record Inv (s : sys) : Prop := {
  i_crA : crashed (pa s) = false;
  i_crB : crashed (pb s) = false;
  i_cfgA : cfg_is (pa s) ra ca la ma;
  i_cfgB : cfg_is (pb s) rb cb lb mb;
  i_A : Apristine (pa s);
  i_B : Bpristine (pb s);
  i_stb : forall a, stb s a = sb0 a;
  i_req : (0 < blen s)%nat -> requester (pb s) = ra;
  i_K : Kinds s;
  i_queue : exists waiting, ctl_in (pa s) = map MMigReq waiting /\
                            skipn (ndone s) (g_acc s) = olist (cur_mig (pa s)) ++ waiting;
  i_nd : (ndone s <= length (g_acc s))%nat;
  i_rsp : g_done s ++ ctl_out (pa s) ++ map MMigRsp (olist (to_ctrl (pa s))) = map rsp_of (completed s);
  i_wf : Forall wf_req (g_acc s);
  i_phase : Phase s
}.

Lemma init_inv : Inv s_init.
Proof.
  constructor; cbn; auto; try (repeat split; reflexivity).
  all: try (unfold blen; cbn; lia).
  all: try (constructor; cbn; constructor).
  all: try (exists []; auto).
Qed.

(** ** Steps *)
Arguments ndone : simpl never.
Arguments completed : simpl never.
Arguments base : simpl never.
Lemma setp_pa_same s : s <| pa := pa s |> = s.
Proof. destruct s; reflexivity. Qed.
Lemma setp_pb_same s : s <| pb := pb s |> = s.
Proof. destruct s; reflexivity. Qed.

Definition PresA (f : pmc -> pmc * bool) : Prop :=
  forall s, Inv s -> Inv (s <| pa := fst (f (pa s)) |>).
Definition PresB (f : pmc -> pmc * bool) : Prop :=
  forall s, Inv s -> Inv (s <| pb := fst (f (pb s)) |>).

Ltac inv_destruct H :=
  destruct H as [crA crB cfgA cfgB iA iB istb ireq iK iqueue ind irsp iwf iphase].

Lemma Phase_repl s s' xs xs' rest :
  cur_mig (pa s') = cur_mig (pa s) -> handling (pa s') = handling (pa s) ->
  to_ctrl (pa s') = to_ctrl (pa s) -> idmap (pa s') = idmap (pa s) ->
  num_pending (pa s') = num_pending (pa s) ->
  (forall a, sta s' a = sta s a) -> (forall a, base s' a = base s a) ->
  Permutation (toks1 s) (xs ++ rest) -> Permutation (toks1 s') (xs' ++ rest) ->
  (forall r b, Forall2 (fun m m' => tid m' = tid m /\ (okM r b m -> okM r b m')) xs xs') ->
  Permutation (toks2 s) (toks2 s') -> Permutation (toks3 s) (toks3 s') ->
  Phase s -> Phase s'.
Proof.
  intros E1 E2 E3 E4 E5 Est Ebs P1 P1' F P2 P3 H.
  assert (HN : NoTok s -> NoTok s').
  { intros (T1 & T2 & T3 & Hnp & Hst). rewrite T1 in P1. rewrite T2 in P2. rewrite T3 in P3.
    apply Permutation_nil in P1, P2, P3. apply app_eq_nil in P1. destruct P1 as [-> ->].
    specialize (F (mkMigReq 0 0 0 0 0 0) 0). inversion F; subst. cbn in P1'.
    symmetry in P1'. apply Permutation_nil in P1'.
    repeat split; auto; try congruence. }
  unfold Phase in *. rewrite E1, E2, E3, E4, E5.
  destruct (cur_mig (pa s)) as [r|], (handling (pa s)), (to_ctrl (pa s)); auto.
  destruct H as (b & H). exists b.
  eapply TF_ext; [exact Est|exact Ebs|].
  eapply TF_perm; [reflexivity|exact P2|exact P3|].
  eapply (TF_repl r b (toks1 s) (toks1 s') xs xs' rest); [exact P1|exact P1'|apply F|exact H].
Qed.

Lemma Phase_perm s s' :
  cur_mig (pa s') = cur_mig (pa s) -> handling (pa s') = handling (pa s) ->
  to_ctrl (pa s') = to_ctrl (pa s) -> idmap (pa s') = idmap (pa s) ->
  num_pending (pa s') = num_pending (pa s) ->
  (forall a, sta s' a = sta s a) -> (forall a, base s' a = base s a) ->
  Permutation (toks1 s) (toks1 s') -> Permutation (toks2 s) (toks2 s') ->
  Permutation (toks3 s) (toks3 s') ->
  Phase s -> Phase s'.
Proof.
  intros. eapply (Phase_repl s s' [] [] (toks1 s')); eauto.
Qed.

Lemma Phase_ok1 s m : Phase s -> In m (toks1 s) -> exists r b, okM r b m.
Proof.
  unfold Phase. intros H Hin.
  assert (HN : NoTok s -> False) by (intros (T1 & _); rewrite T1 in Hin; inversion Hin).
  destruct (cur_mig (pa s)) as [r|], (handling (pa s)), (to_ctrl (pa s)); try tauto.
  destruct H as (b & H). exists r, b. destruct H. rewrite Forall_forall in tf_ok3. auto.
Qed.
Lemma Phase_ok2 s m : Phase s -> In m (toks2 s) -> exists r b, okM r b m.
Proof.
  unfold Phase. intros H Hin.
  assert (HN : NoTok s -> False) by (intros (_ & T2 & _); rewrite T2 in Hin; inversion Hin).
  destruct (cur_mig (pa s)) as [r|], (handling (pa s)), (to_ctrl (pa s)); try tauto.
  destruct H as (b & H). exists r, b. destruct H. rewrite Forall_forall in tf_ok4. auto.
Qed.

Ltac easy_fields :=
  try assumption; try reflexivity;
  try (unfold cfg_is, Apristine, Bpristine in *; cbn; assumption).
Ltac in_toks E := unfold toks1, toks2, toks3; rewrite ?E; repeat rewrite in_app_iff; cbn [In map]; tauto.
Ltac phase_perm H := eapply Phase_perm; [..|exact H]; try reflexivity; try (intros; reflexivity).
Ltac fa_tail H E := rewrite E in H; inversion H; subst; assumption.

Lemma B6 : PresB processFromOutside.
Proof.
  intros s H. inv_destruct H. unfold processFromOutside.
  destruct (rem_in (pb s)) as [|m rest] eqn:Erin.
  { cbn. rewrite setp_pb_same. constructor; auto. }
  assert (Hm : isPQ m) by (destruct iK; rewrite Erin in *; inversion k_rib0; auto).
  destruct Hm as (q & ->). cbn [fst].
  constructor; cbn; easy_fields.
  - intros _. destruct (Phase_ok1 s (MPullReq q) iphase) as (r & b & i & Hi & ->); [in_toks Erin|reflexivity].
  - destruct iK; constructor; cbn; try assumption. fa_tail k_rib0 Erin.
  - phase_perm iphase. unfold toks1; cbn. rewrite Erin. perm.
Qed.

Lemma PresA_noop f : (forall s, Inv s -> fst (f (pa s)) = pa s) -> PresA f.
Proof. intros H s Hi. rewrite (H s Hi), setp_pa_same. exact Hi. Qed.
Lemma PresB_noop f : (forall s, Inv s -> fst (f (pb s)) = pb s) -> PresB f.
Proof. intros H s Hi. rewrite (H s Hi), setp_pb_same. exact Hi. Qed.

Lemma Forall_map_is {T} (inj : T -> pmsg) (P : pmsg -> Prop) (l : list T) :
  (forall x, P (inj x)) -> Forall P (map inj l).
Proof. intros H. induction l; constructor; auto. Qed.

Ltac kinds iK := destruct iK; constructor; cbn; try assumption.

(** *** B: the source side *)
Lemma B1 : PresB sendMigrationReqToAnotherPMC.
Proof.
  apply PresB_noop. intros s H. inv_destruct H. destruct iB as (_ & _ & E & _).
  unfold sendMigrationReqToAnotherPMC. rewrite E. reflexivity.
Qed.
Lemma B3 : PresB sendMigrationCompleteRspToCtrlPort.
Proof.
  apply PresB_noop. intros s H. inv_destruct H. destruct iB as (_ & _ & _ & _ & _ & _ & E & _).
  unfold sendMigrationCompleteRspToCtrlPort. rewrite E. reflexivity.
Qed.
Lemma B5 : PresB sendWriteReqLocalMemPort.
Proof.
  apply PresB_noop. intros s H. inv_destruct H. destruct iB as (_ & _ & _ & _ & E & _).
  unfold sendWriteReqLocalMemPort. rewrite E. cbn.
  destruct (pb s); cbn in *. subst. reflexivity.
Qed.
Lemma B7 : PresB processFromCtrlPort.
Proof.
  apply PresB_noop. intros s H. inv_destruct H. destruct iB as (_ & E1 & _ & _ & _ & _ & _ & E2 & _).
  unfold processFromCtrlPort. rewrite E1, E2. reflexivity.
Qed.
Lemma B9 : PresB processPageMigrationReqFromCtrlPort.
Proof.
  apply PresB_noop. intros s H. inv_destruct H. destruct iB as (E & _).
  unfold processPageMigrationReqFromCtrlPort. rewrite E. reflexivity.
Qed.
Lemma B12 : PresB processDataPullRsp.
Proof.
  apply PresB_noop. intros s H. inv_destruct H. destruct iB as (_ & _ & _ & E & _).
  unfold processDataPullRsp. rewrite E. reflexivity.
Qed.
Lemma B13 : PresB processWriteDoneRspFromMemCtrl.
Proof.
  apply PresB_noop. intros s H. inv_destruct H. destruct iB as (_ & _ & _ & _ & _ & E & _).
  unfold processWriteDoneRspFromMemCtrl. rewrite E. reflexivity.
Qed.

Lemma B2 : PresB sendReadReqLocalMemPort.
Proof.
  intros s H. inv_destruct H. unfold sendReadReqLocalMemPort.
  destruct (is_nil (to_read (pb s))) eqn:En.
  { cbn. rewrite setp_pb_same. constructor; auto. }
  assert (Hv : Forall (fun x => send_valid (MRdReq x) = true) (to_read (pb s))).
  { rewrite Forall_forall. intros x Hx. pose proof (in_map MRdReq _ _ Hx) as Hin.
    destruct (Phase_ok1 s (MRdReq x) iphase) as (r & b & i & Hi & ->).
    { unfold toks1. repeat rewrite in_app_iff. tauto. }
    unfold send_valid; cbn. apply valid_neq; tauto. }
  destruct (send_all_spec MRdReq (to_read (pb s)) (loc_out (pb s)) Hv) as (mv & kept & p & Hp & Hlen & E).
  rewrite E. cbn [fst].
  constructor; cbn; easy_fields.
  - intros Hlt. apply ireq. unfold blen. rewrite app_length, map_length in Hlt. lia.
  - kinds iK. apply Forall_app; split; auto. apply Forall_map_is. intros x; eexists; eauto.
  - phase_perm iphase. unfold toks1; cbn. perm.
Qed.

Lemma B4 : PresB sendDataReadyRspToRequestingPMC.
Proof.
  intros s H. inv_destruct H. unfold sendDataReadyRspToRequestingPMC.
  destruct (is_nil (to_rsp (pb s))) eqn:En.
  { cbn. rewrite setp_pb_same. constructor; auto. }
  assert (Hv : Forall (fun x => send_valid (MPullRsp x) = true) (to_rsp (pb s))).
  { rewrite Forall_forall. intros x Hx. pose proof (in_map MPullRsp _ _ Hx) as Hin.
    destruct (Phase_ok1 s (MPullRsp x) iphase) as (r & b & i & Hi & ->).
    { unfold toks1. repeat rewrite in_app_iff. tauto. }
    unfold send_valid; cbn. apply valid_neq; auto. }
  destruct (send_all_spec MPullRsp (to_rsp (pb s)) (rem_out (pb s)) Hv) as (mv & kept & p & Hp & Hlen & E).
  rewrite E. cbn [fst].
  constructor; cbn; easy_fields.
  - kinds iK. apply Forall_app; split; auto. apply Forall_map_is. intros x; eexists; eauto.
  - phase_perm iphase. unfold toks1; cbn. perm.
Qed.

Lemma B8 : PresB processFromMemCtrl.
Proof.
  intros s H. inv_destruct H. unfold processFromMemCtrl.
  destruct (loc_in (pb s)) as [|m rest] eqn:Elin.
  { cbn. rewrite setp_pb_same. constructor; auto. }
  assert (Hm : isDR m) by (destruct iK; rewrite Elin in *; inversion k_lib0; auto).
  destruct Hm as (d & ->). cbn [fst].
  constructor; cbn; easy_fields.
  - intros Hlt. apply ireq. unfold blen. rewrite Elin. rewrite app_length in Hlt. cbn [length] in *. lia.
  - kinds iK. fa_tail k_lib0 Elin.
  - phase_perm iphase. unfold toks1; cbn. rewrite Elin. perm.
Qed.

Lemma B10 : PresB processReadPageReqFromAnotherPMC.
Proof.
  intros s H. inv_destruct H. unfold processReadPageReqFromAnotherPMC.
  destruct (is_nil (cur_pull (pb s))) eqn:En.
  { cbn. rewrite setp_pb_same. constructor; auto. }
  cbn [fst].
  constructor; cbn; easy_fields.
  - intros Hlt. apply ireq. unfold blen. rewrite app_length, map_length in Hlt. cbn [length] in *. lia.
  - kinds iK.
  - eapply (Phase_repl s _ (map MPullReq (cur_pull (pb s)))
              (map MRdReq (map (mk_read (pb s)) (cur_pull (pb s))))
              (map MPullReq (to_pull (pa s)) ++ rem_out (pa s) ++ net s ++ rem_in (pb s) ++
               map MRdReq (to_read (pb s)) ++ loc_out (pb s) ++ mqb s ++ mrb s ++ loc_in (pb s) ++
               map MDReady (data_ready (pb s)) ++ map MPullRsp (to_rsp (pb s)) ++
               rem_out (pb s) ++ rem_in (pa s) ++ map MPullRsp (recv_data (pa s))));
      [reflexivity|reflexivity|reflexivity|reflexivity|reflexivity|intros; reflexivity|intros; reflexivity
      | | | |reflexivity|reflexivity|exact iphase].
    + unfold toks1. perm.
    + unfold toks1; cbn. perm.
    + intros r b. destruct cfgB as (_ & _ & E3 & E4 & _). clear En ireq.
      induction (cur_pull (pb s)) as [|q l IH]; cbn [map]; constructor; auto.
      split; [reflexivity|]. intros (i & Hi & ->). exists i. split; auto.
      unfold mk_read. cbn. rewrite E3, E4. reflexivity.
Qed.

Lemma B11 : PresB processDataReadyRspFromMemCtrl.
Proof.
  intros s H. inv_destruct H. unfold processDataReadyRspFromMemCtrl.
  destruct (is_nil (data_ready (pb s))) eqn:En.
  { cbn. rewrite setp_pb_same. constructor; auto. }
  assert (Hreq : requester (pb s) = ra).
  { apply ireq. unfold blen. destruct (data_ready (pb s)); [discriminate|]. cbn [length]. lia. }
  cbn [fst].
  constructor; cbn; easy_fields.
  - intros Hlt. apply ireq. unfold blen. cbn [length] in *. lia.
  - kinds iK.
  - eapply (Phase_repl s _ (map MDReady (data_ready (pb s)))
              (map MPullRsp (map (mk_rsp (pb s)) (data_ready (pb s))))
              (map MPullReq (to_pull (pa s)) ++ rem_out (pa s) ++ net s ++ rem_in (pb s) ++
               map MPullReq (cur_pull (pb s)) ++ map MRdReq (to_read (pb s)) ++ loc_out (pb s) ++
               mqb s ++ mrb s ++ loc_in (pb s) ++ map MPullRsp (to_rsp (pb s)) ++
               rem_out (pb s) ++ rem_in (pa s) ++ map MPullRsp (recv_data (pa s))));
      [reflexivity|reflexivity|reflexivity|reflexivity|reflexivity|intros; reflexivity|intros; reflexivity
      | | | |reflexivity|reflexivity|exact iphase].
    + unfold toks1. perm.
    + unfold toks1; cbn. perm.
    + intros r b. destruct cfgB as (E1 & _). clear En ireq.
      induction (data_ready (pb s)) as [|q l IH]; cbn [map]; constructor; auto.
      split; [reflexivity|]. intros (i & Hi & E5 & E6). exists i. split; auto.
      unfold mk_rsp. rewrite E1, Hreq, E5, E6. reflexivity.
Qed.

(** *** A: the pulling side *)
Lemma A2 : PresA sendReadReqLocalMemPort.
Proof.
  apply PresA_noop. intros s H. inv_destruct H. destruct iA as (_ & E & _).
  unfold sendReadReqLocalMemPort. rewrite E. reflexivity.
Qed.
Lemma A4 : PresA sendDataReadyRspToRequestingPMC.
Proof.
  apply PresA_noop. intros s H. inv_destruct H. destruct iA as (_ & _ & _ & E).
  unfold sendDataReadyRspToRequestingPMC. rewrite E. reflexivity.
Qed.
Lemma A10 : PresA processReadPageReqFromAnotherPMC.
Proof.
  apply PresA_noop. intros s H. inv_destruct H. destruct iA as (E & _).
  unfold processReadPageReqFromAnotherPMC. rewrite E. reflexivity.
Qed.
Lemma A11 : PresA processDataReadyRspFromMemCtrl.
Proof.
  apply PresA_noop. intros s H. inv_destruct H. destruct iA as (_ & _ & E & _).
  unfold processDataReadyRspFromMemCtrl. rewrite E. reflexivity.
Qed.

Lemma A1 : PresA sendMigrationReqToAnotherPMC.
Proof.
  intros s H. inv_destruct H. unfold sendMigrationReqToAnotherPMC.
  destruct (is_nil (to_pull (pa s))) eqn:En.
  { cbn. rewrite setp_pa_same. constructor; auto. }
  assert (Hv : Forall (fun x => send_valid (MPullReq x) = true) (to_pull (pa s))).
  { rewrite Forall_forall. intros x Hx. pose proof (in_map MPullReq _ _ Hx) as Hin.
    destruct (Phase_ok1 s (MPullReq x) iphase) as (r & b & i & Hi & ->).
    { unfold toks1. repeat rewrite in_app_iff. tauto. }
    unfold send_valid; cbn. apply valid_neq; auto. }
  destruct (send_all_spec MPullReq (to_pull (pa s)) (rem_out (pa s)) Hv) as (mv & kept & p & Hp & Hlen & E).
  rewrite E. cbn [fst].
  constructor; cbn; easy_fields.
  - kinds iK. apply Forall_app; split; auto. apply Forall_map_is. intros x; eexists; eauto.
  - phase_perm iphase. unfold toks1; cbn. perm.
Qed.

Lemma A5 : PresA sendWriteReqLocalMemPort.
Proof.
  intros s H. inv_destruct H. unfold sendWriteReqLocalMemPort.
  assert (Hv : Forall (fun x => send_valid (MWrReq x) = true) (write_reqs (pa s))).
  { rewrite Forall_forall. intros x Hx. pose proof (in_map MWrReq _ _ Hx) as Hin.
    destruct (Phase_ok2 s (MWrReq x) iphase) as (r & b & i & Hi & ->).
    { unfold toks2. repeat rewrite in_app_iff. tauto. }
    unfold send_valid; cbn. apply valid_neq; tauto. }
  destruct (send_all_spec MWrReq (write_reqs (pa s)) (loc_out (pa s)) Hv) as (mv & kept & p & Hp & Hlen & E).
  rewrite E. cbn [fst].
  constructor; cbn; easy_fields.
  - kinds iK. apply Forall_app; split; auto. apply Forall_map_is. intros x; eexists; eauto.
  - phase_perm iphase. unfold toks2; cbn. perm.
Qed.

Lemma A6 : PresA processFromOutside.
Proof.
  intros s H. inv_destruct H. unfold processFromOutside.
  destruct (rem_in (pa s)) as [|m rest] eqn:Erin.
  { cbn. rewrite setp_pa_same. constructor; auto. }
  assert (Hm : isPR m) by (destruct iK; rewrite Erin in *; inversion k_ria0; auto).
  destruct Hm as (q & ->). cbn [fst].
  constructor; cbn; easy_fields.
  - kinds iK. fa_tail k_ria0 Erin.
  - phase_perm iphase. unfold toks1; cbn. rewrite Erin. perm.
Qed.

Lemma A8 s : Inv s -> recv_wdone (pa s) = None -> Inv (s <| pa := fst (processFromMemCtrl (pa s)) |>).
Proof.
  intros H Hnone. inv_destruct H. unfold processFromMemCtrl.
  destruct (loc_in (pa s)) as [|m rest] eqn:Elin.
  { cbn. rewrite setp_pa_same. constructor; auto. }
  assert (Hm : isWD m) by (destruct iK; rewrite Elin in *; inversion k_lia0; auto).
  destruct Hm as (q & ->). cbn [fst].
  constructor; cbn; easy_fields.
  - kinds iK. fa_tail k_lia0 Elin.
  - phase_perm iphase. unfold toks3; cbn. rewrite Elin, Hnone. cbn. perm.
Qed.

Lemma skipn_cons_split {T} n : forall (l : list T) x w,
  skipn n l = x :: w ->
  firstn (S n) l = firstn n l ++ [x] /\ skipn (S n) l = w /\ (S n <= length l)%nat.
Proof.
  induction n as [|n IH]; intros l x w H.
  - cbn in H. subst l. cbn. repeat split; auto. lia.
  - destruct l as [|y l]; [discriminate|]. cbn [skipn] in H. apply IH in H.
    destruct H as (H1 & H2 & H3). rewrite !firstn_cons, H1.
    split; [reflexivity|]. split; [exact H2|cbn [length]; lia].
Qed.

Lemma firstn_incl {T} n (l : list T) x : In x (firstn n l) -> In x l.
Proof. intros H. rewrite <- (firstn_skipn n l). apply in_or_app; auto. Qed.
Lemma skipn_incl {T} n (l : list T) x : In x (skipn n l) -> In x l.
Proof. intros H. rewrite <- (firstn_skipn n l). apply in_or_app; auto. Qed.

Lemma phase_to_ctrl s r : Phase s -> to_ctrl (pa s) = Some r ->
  cur_mig (pa s) = None /\ handling (pa s) = true /\ NoTok s.
Proof.
  unfold Phase. intros H E. rewrite E in H.
  destruct (cur_mig (pa s)), (handling (pa s)); tauto.
Qed.

Lemma A3 : PresA sendMigrationCompleteRspToCtrlPort.
Proof.
  intros s H. inv_destruct H. unfold sendMigrationCompleteRspToCtrlPort.
  destruct (to_ctrl (pa s)) as [r|] eqn:Etc.
  2:{ cbn. rewrite setp_pa_same. constructor; auto. }
  destruct (phase_to_ctrl s r iphase Etc) as (Ecm & Eh & HN).
  assert (Hv : send_valid (MMigRsp r) = true).
  { assert (Hin : In (MMigRsp r) (map rsp_of (completed s))).
    { rewrite <- irsp, Etc. cbn. repeat rewrite in_app_iff. cbn. tauto. }
    apply in_map_iff in Hin. destruct Hin as (q & Eq & Hq). apply firstn_incl in Hq.
    rewrite Forall_forall in iwf. destruct (iwf q Hq) as (_ & _ & W1 & W2).
    inversion Eq; subst r. unfold send_valid; cbn. apply valid_neq; auto. }
  rewrite Hv. cbn [negb].
  destruct (can_push (ctl_out (pa s))) eqn:Ecp.
  2:{ cbn. rewrite setp_pa_same. constructor; auto. }
  cbn [fst].
  match goal with |- Inv ?s1 =>
    assert (Hnd : ndone s1 = ndone s) by (unfold ndone; cbn; rewrite Etc, app_length; cbn; lia);
    assert (Hc : completed s1 = completed s) by (unfold completed; rewrite Hnd; reflexivity);
    assert (Hb : base s1 = base s) by (unfold base; rewrite Hc; reflexivity)
  end.
  constructor; try rewrite Hnd; try rewrite Hc; cbn; easy_fields.

End Two.
