(** Executable model of amd/timing/mem/addresstranslator/addresstranslator.go
    (+ builder.go: port sizes, interleaved port mappers) driven through its
    four ports.  Definitions only; proofs are in AddrTransProofs.v.

    Conventions for [msg] (VLib.Akita) used by this model:
    - access requests (KRead/KWrite): [m_rspto] carries the request's [Info]
      tag (Go: [Info interface{}]; the harness uses small integers, 0 = nil) and
      bit [F_CANWAIT] of [m_flags] is [CanWaitForCoalesce];
    - responses built by the translator have canonical ID 0 (not observable);
    - IDs of translation requests / bottom requests are drawn from two fresh
      supplies (canonical renumbering by first appearance on the port).
    Translation requests and replies have their own records.  A Go
    [*transaction] has the fields translationRsp / translationDone which are
    only ever written together (addresstranslator.go:210-211); the model keeps
    one option field [t_rsp] ([translationDone] = [t_rsp] is [Some]). *)
From VLib Require Import Akita.
From RecordUpdate Require Import RecordSet.
Import RecordSetNotations.
Open Scope N_scope.

(** Port names after renumbering. *)
Definition P_TOP : N := 1.
Definition P_BOT : N := 2.
Definition P_TR  : N := 3.
Definition P_CTL : N := 4.
Definition P_MEM0 : N := 100.   (* memory providers 100, 101, ... *)
Definition P_TLB0 : N := 200.   (* translation providers 200, 201, ... *)

Definition F_CANWAIT : N := 256.

Record config := mkCfg {
  log2ps : N;      (* log2PageSize, < 64 *)
  width : nat;     (* numReqPerCycle; also the size of the data-port buffers *)
  nmem : N;        (* number of memory providers (interleaved by page) *)
  ntr : N;         (* number of translation providers (interleaved by page) *)
  dev : N          (* deviceID *)
}.

Record treq := mkTreq { q_id : N; q_dst : N; q_vaddr : N; q_pid : N; q_dev : N }.
Record trsp := mkTrsp { r_rspto : N; r_paddr : N }.

Record tx := mkTx { t_reqs : list msg; t_q : treq; t_rsp : option trsp }.

(** ghost records *)
Record fwd := mkFwd { f_top : msg; f_q : treq; f_rsp : trsp; f_bot : msg }.
Record ans := mkAns { a_top : msg; a_bot : msg; a_brsp : msg; a_out : msg }.

Record st := mkSt {
  cfg : config;
  flushing : bool;
  txs : list tx;                     (* transactions *)
  inflight : list (msg * msg);       (* inflightReqToBottom: (reqFromTop, reqToBottom) *)
  top_in : list msg; top_out : list msg;
  bot_in : list msg; bot_out : list msg;
  tr_in : list trsp; tr_out : list treq;
  ctl_in : list msg; ctl_out : list msg;
  next_tid : N;                      (* fresh supply: translation-request IDs *)
  next_bid : N;                      (* fresh supply: bottom-request IDs *)
  crashed : bool;                    (* a Go panic was reached *)
  (* ghost logs: never read by the transition function *)
  g_deliv : list msg;                (* top requests whose Deliver was accepted *)
  g_seen : list (msg * bool);        (* removed from top_in: accepted by translate / dropped by restart *)
  g_treq : list treq;                (* translation requests sent *)
  g_trdel : list trsp;               (* translation replies whose Deliver was accepted *)
  g_fwd : list fwd;                  (* forwards: request, lookup, reply used, bottom request *)
  g_disc : list msg;                 (* waiting requests discarded by a flush *)
  g_idisc : list (msg * msg);        (* in-flight pairs discarded by a flush *)
  g_ans : list ans;                  (* answers pushed to top_out *)
  g_tretr : list msg;                (* responses retrieved from top_out by the environment *)
  g_bretr : list msg;                (* bottom requests retrieved from bot_out *)
  g_qretr : list treq;               (* translation requests retrieved from tr_out *)
  g_bdel : list msg;                 (* memory responses whose Deliver was accepted *)
  g_trcons : list trsp;              (* translation replies taken out of tr_in (used or dropped) *)
  g_bcons : list msg                 (* memory responses taken out of bot_in (used or dropped) *)
}.

#[export] Instance eta_st : Settable _ := settable! mkSt
  <cfg; flushing; txs; inflight; top_in; top_out; bot_in; bot_out; tr_in; tr_out; ctl_in; ctl_out;
   next_tid; next_bid; crashed; g_deliv; g_seen; g_treq; g_trdel; g_fwd; g_disc; g_idisc; g_ans;
   g_tretr; g_bretr; g_qretr; g_bdel; g_trcons; g_bcons>.

Definition init (c : config) : st :=
  mkSt c false [] [] [] [] [] [] [] [] [] [] 2000000 1000000 false [] [] [] [] [] [] [] [] [] [] [] [] [] [].

(** akita buffers *)
Definition room {A} (cap : nat) (b : list A) : bool := Nat.ltb (length b) cap.

(** addrToPageID *)
Definition page_of (k a : N) : N := N.shiftl (N.shiftr a k) k.

Definition W64 : N := 18446744073709551616.

(** InterleavedAddressPortMapper with interleaving 2^log2ps (builder.go) *)
Definition mem_dst (c : config) (a : N) : N := P_MEM0 + (a / 2 ^ log2ps c) mod nmem c.
Definition tr_dst (c : config) (a : N) : N := P_TLB0 + (a / 2 ^ log2ps c) mod ntr c.

Definition is_req (m : msg) : bool :=
  match m_kind m with KRead | KWrite => true | _ => false end.
Definition is_rsp (m : msg) : bool :=
  match m_kind m with KDataReady | KWriteDone => true | _ => false end.

(** createTranslatedReadReq / createTranslatedWriteReq (uint64 arithmetic) *)
Definition xaddr (c : config) (paddr a : N) : N := (paddr + a mod 2 ^ log2ps c) mod W64.

Definition xlate (c : config) (id paddr : N) (r : msg) : msg :=
  let a := xaddr c paddr (m_addr r) in
  match m_kind r with
  | KRead => mkMsg id KRead P_BOT (mem_dst c a) (m_rspto r) a (m_size r) 0 [] []
                   (N.land (m_flags r) F_CANWAIT)
  | _     => mkMsg id KWrite P_BOT (mem_dst c a) (m_rspto r) a 0 0 (m_data r) (m_mask r)
                   (N.land (m_flags r) F_CANWAIT)
  end.

(** the response sent to the requester in respond() *)
Definition answer (r rsp : msg) : msg :=
  match m_kind rsp with
  | KDataReady => mkMsg 0 KDataReady P_TOP (m_src r) (m_id r) 0 0 0 (m_data rsp) [] 0
  | _          => mkMsg 0 KWriteDone P_TOP (m_src r) (m_id r) 0 0 0 [] [] 0
  end.

Definition ctl_ack (c : msg) : msg :=
  mkMsg 0 KCtrl P_CTL (m_src c) 0 0 0 0 [] [] F_NOTIFYDONE.

(** first element satisfying [p], with what precedes and follows it *)
Fixpoint split_first {A} (p : A -> bool) (l : list A) : option (list A * A * list A) :=
  match l with
  | [] => None
  | x :: l' =>
    if p x then Some ([], x, l')
    else match split_first p l' with
         | Some (a, y, b) => Some (x :: a, y, b)
         | None => None
         end
  end.

Definition is_done (t : tx) : bool := match t_rsp t with Some _ => true | None => false end.

(** the loop condition of translate(): not done, same page, and then
    incomingReqs[0].PID is read (index panic if there is none) *)
Definition co_match (k : N) (req : msg) (t : tx) : bool :=
  negb (is_done t) && (page_of k (q_vaddr (t_q t)) =? page_of k (m_addr req)) &&
  match t_reqs t with
  | [] => true
  | r0 :: _ => m_pid r0 =? m_pid req
  end.

Definition translate (s : st) : st * bool :=
  match top_in s with
  | [] => (s, false)
  | req :: rest =>
    if negb (is_req req) then (s <| crashed := true |>, false)
    else
      let k := log2ps (cfg s) in
      match split_first (co_match k req) (txs s) with
      | Some (a, t, b) =>
        match t_reqs t with
        | [] => (s <| crashed := true |>, false)
        | _ =>
          (s <| txs := a ++ mkTx (t_reqs t ++ [req]) (t_q t) (t_rsp t) :: b |>
             <| top_in := rest |>
             <| g_seen := g_seen s ++ [(req, true)] |>, true)
        end
      | None =>
        if room (width (cfg s)) (tr_out s) then
          let q := mkTreq (next_tid s) (tr_dst (cfg s) (m_addr req)) (page_of k (m_addr req))
                          (m_pid req) (dev (cfg s)) in
          (s <| tr_out := tr_out s ++ [q] |>
             <| txs := txs s ++ [mkTx [req] q None] |>
             <| top_in := rest |>
             <| next_tid := next_tid s + 1 |>
             <| g_seen := g_seen s ++ [(req, true)] |>
             <| g_treq := g_treq s ++ [q] |>, true)
        else (s, false)
      end
  end.

Definition drainable (t : tx) : bool :=
  is_done t && match t_reqs t with [] => false | _ => true end.

(** what is left of a transaction after its first request was forwarded *)
Definition after_send (t : tx) (rs : list msg) (rsp : trsp) : list tx :=
  match rs with [] => [] | _ => [mkTx rs (t_q t) (Some rsp)] end.

(** the common tail of both phases of parseTranslation: forward [r] *)
Definition send_down (s : st) (a : list tx) (t : tx) (b : list tx) (r : msg) (rs : list msg)
    (rsp : trsp) : st :=
  let m := xlate (cfg s) (next_bid s) (r_paddr rsp) r in
  s <| bot_out := bot_out s ++ [m] |>
    <| inflight := inflight s ++ [(r, m)] |>
    <| txs := a ++ after_send t rs rsp ++ b |>
    <| next_bid := next_bid s + 1 |>
    <| g_fwd := g_fwd s ++ [mkFwd r (t_q t) rsp m] |>.

Definition parse_translation (s : st) : st * bool :=
  match split_first drainable (txs s) with
  | Some (a, t, b) =>
    (* phase 1: drain a completed transaction *)
    match t_reqs t, t_rsp t with
    | r :: rs, Some rsp =>
      if negb (is_req r) then (s <| crashed := true |>, false)
      else if room (width (cfg s)) (bot_out s) then (send_down s a t b r rs rsp, true)
      else (s, false)
    | _, _ => (s <| crashed := true |>, false)
    end
  | None =>
    (* phase 2: a new translation reply *)
    match tr_in s with
    | [] => (s, false)
    | rsp :: rest =>
      match split_first (fun t => q_id (t_q t) =? r_rspto rsp) (txs s) with
      | None => (s <| tr_in := rest |> <| g_trcons := g_trcons s ++ [rsp] |>, true)
      | Some (a, t, b) =>
        (* translationRsp / translationDone are set before anything else *)
        let s1 := s <| txs := a ++ mkTx (t_reqs t) (t_q t) (Some rsp) :: b |> in
        match t_reqs t with
        | [] => (s1 <| crashed := true |>, false)
        | r :: rs =>
          if negb (is_req r) then (s1 <| crashed := true |>, false)
          else if room (width (cfg s)) (bot_out s)
          then (send_down s a t b r rs rsp <| tr_in := rest |>
                                           <| g_trcons := g_trcons s ++ [rsp] |>, true)
          else (s1, false)
        end
      end
    end
  end.

Definition respond (s : st) : st * bool :=
  match bot_in s with
  | [] => (s, false)
  | rsp :: rest =>
    if negb (is_rsp rsp) then (s <| crashed := true |>, false)
    else
      match split_first (fun p => m_id (snd p) =? m_rspto rsp) (inflight s) with
      | None => (s <| bot_in := rest |> <| g_bcons := g_bcons s ++ [rsp] |>, true)
      | Some (a, p, b) =>
        if room (width (cfg s)) (top_out s) then
          let o := answer (fst p) rsp in
          (s <| top_out := top_out s ++ [o] |>
             <| inflight := a ++ b |>
             <| bot_in := rest |>
             <| g_bcons := g_bcons s ++ [rsp] |>
             <| g_ans := g_ans s ++ [mkAns (fst p) (snd p) rsp o] |>, true)
        else (s, false)
      end
  end.

Definition waiting (l : list tx) : list msg := flat_map t_reqs l.

Definition handle_ctrl (s : st) : st * bool :=
  match ctl_in s with
  | [] => (s, false)
  | c :: rest =>
    if negb (kind_eqb (m_kind c) KCtrl) then (s <| crashed := true |>, false)
    else if has_flag c F_DISCARD then
      if room 1 (ctl_out s) then
        (s <| ctl_out := ctl_out s ++ [ctl_ack c] |>
           <| ctl_in := rest |>
           <| g_disc := g_disc s ++ waiting (txs s) |>
           <| g_idisc := g_idisc s ++ inflight s |>
           <| txs := [] |> <| inflight := [] |>
           <| flushing := true |>, true)
      else (s, false)
    else if has_flag c F_RESTART then
      if room 1 (ctl_out s) then
        (s <| ctl_out := ctl_out s ++ [ctl_ack c] |>
           <| g_seen := g_seen s ++ map (fun m => (m, false)) (top_in s) |>
           <| g_trcons := g_trcons s ++ tr_in s |> <| g_bcons := g_bcons s ++ bot_in s |>
           <| top_in := [] |> <| bot_in := [] |> <| tr_in := [] |>
           <| flushing := false |>
           <| ctl_in := rest |>, true)
      else (s, false)
    else (s <| crashed := true |>, false)
  end.

(** a Go panic unwinds the whole Tick: nothing after it runs *)
Definition guard (f : st -> st * bool) (s : st) : st * bool :=
  if crashed s then (s, false) else f s.

Fixpoint iter (n : nat) (f : st -> st * bool) (s : st) : st * bool :=
  match n with
  | O => (s, false)
  | S n' => let '(s1, p1) := guard f s in
            let '(s2, p2) := iter n' f s1 in (s2, p1 || p2)
  end.

Definition run_pipeline (s : st) : st * bool :=
  let w := width (cfg s) in
  let '(s1, p1) := iter w respond s in
  let '(s2, p2) := iter w parse_translation s1 in
  let '(s3, p3) := iter w translate s2 in
  (s3, p1 || p2 || p3).

Definition tick (s : st) : st * bool :=
  let '(s1, p1) := if flushing s then iter (width (cfg s)) parse_translation s
                   else run_pipeline s in
  let '(s2, p2) := guard handle_ctrl s1 in
  (s2, p2 || p1).

Inductive ev :=
| EDeliverTop (m : msg) | EDeliverBot (m : msg) | EDeliverTr (r : trsp) | EDeliverCtl (m : msg)
| ETick | ERetrTop | ERetrBot | ERetrTr | ERetrCtl.

Inductive obs :=
| OAcc (b : bool) | OTick (progress : bool) | OMsg (m : option msg) | OTreq (q : option treq) | OCrash.

Definition step (s : st) (e : ev) : st * obs :=
  if crashed s then (s, OCrash) else
  let w := width (cfg s) in
  match e with
  | EDeliverTop m =>
    if room w (top_in s)
    then (s <| top_in := top_in s ++ [m] |> <| g_deliv := g_deliv s ++ [m] |>, OAcc true)
    else (s, OAcc false)
  | EDeliverBot m =>
    if room w (bot_in s)
    then (s <| bot_in := bot_in s ++ [m] |> <| g_bdel := g_bdel s ++ [m] |>, OAcc true)
    else (s, OAcc false)
  | EDeliverTr r =>
    if room w (tr_in s)
    then (s <| tr_in := tr_in s ++ [r] |> <| g_trdel := g_trdel s ++ [r] |>, OAcc true)
    else (s, OAcc false)
  | EDeliverCtl m =>
    if room 1 (ctl_in s)
    then (s <| ctl_in := ctl_in s ++ [m] |>, OAcc true) else (s, OAcc false)
  | ETick => let '(s', p) := tick s in
             if crashed s' then (s', OCrash) else (s', OTick p)
  | ERetrTop =>
    match top_out s with
    | [] => (s, OMsg None)
    | m :: r => (s <| top_out := r |> <| g_tretr := g_tretr s ++ [m] |>, OMsg (Some m))
    end
  | ERetrBot =>
    match bot_out s with
    | [] => (s, OMsg None)
    | m :: r => (s <| bot_out := r |> <| g_bretr := g_bretr s ++ [m] |>, OMsg (Some m))
    end
  | ERetrTr =>
    match tr_out s with
    | [] => (s, OTreq None)
    | q :: r => (s <| tr_out := r |> <| g_qretr := g_qretr s ++ [q] |>, OTreq (Some q))
    end
  | ERetrCtl =>
    match ctl_out s with [] => (s, OMsg None) | m :: r => (s <| ctl_out := r |>, OMsg (Some m)) end
  end.

Definition run (s : st) (evs : list ev) : st :=
  fold_left (fun s e => fst (step s e)) evs s.

Fixpoint run_obs (s : st) (evs : list ev) : list obs :=
  match evs with
  | [] => []
  | e :: r => let '(s', o) := step s e in o :: run_obs s' r
  end.

(** Correspondence: compare a recorded history of the implementation. *)
Definition treq_eqb (a b : treq) : bool :=
  (q_id a =? q_id b) && (q_dst a =? q_dst b) && (q_vaddr a =? q_vaddr b) &&
  (q_pid a =? q_pid b) && (q_dev a =? q_dev b).

Definition obs_eqb (a b : obs) : bool :=
  match a, b with
  | OAcc x, OAcc y => Bool.eqb x y
  | OTick x, OTick y => Bool.eqb x y
  | OMsg None, OMsg None => true
  | OMsg (Some x), OMsg (Some y) => msg_eqb x y
  | OTreq None, OTreq None => true
  | OTreq (Some x), OTreq (Some y) => treq_eqb x y
  | OCrash, OCrash => true
  | _, _ => false
  end.

Record case := mkCase { c_cfg : config; c_trace : list (ev * obs) }.

Fixpoint first_diff (i : nat) (l1 l2 : list obs) : option nat :=
  match l1, l2 with
  | [], [] => None
  | a :: l1', b :: l2' => if obs_eqb a b then first_diff (S i) l1' l2' else Some i
  | _, _ => Some i
  end.

Definition check_case (c : case) : option nat :=
  first_diff 0 (run_obs (init (c_cfg c)) (map fst (c_trace c))) (map snd (c_trace c)).

Fixpoint mismatches_from (i : nat) (cs : list case) : list (nat * nat) :=
  match cs with
  | [] => []
  | c :: r => match check_case c with
              | None => mismatches_from (S i) r
              | Some k => (i, k) :: mismatches_from (S i) r
              end
  end.
Definition mismatches := mismatches_from 0.

(** ** A fair environment and a ranking function (for the liveness statements
    of props/C16.v; read only ghost logs and buffers, never used by [step]). *)
Definition answered_tr (s : st) (id : N) : bool := existsb (fun r => r_rspto r =? id) (g_trdel s).
Definition answered_bot (s : st) (id : N) : bool := existsb (fun m => m_rspto m =? id) (g_bdel s).
(** lookups / bottom requests the environment has retrieved and not yet answered *)
Definition un_tr (s : st) : list treq := filter (fun q => negb (answered_tr s (q_id q))) (g_qretr s).
Definition un_bot (s : st) : list msg := filter (fun b => negb (answered_bot s (m_id b))) (g_bretr s).

Definition mem_rsp (b : msg) : msg :=
  match m_kind b with
  | KRead => mkMsg 0 KDataReady (m_dst b) P_BOT (m_id b) 0 0 0 [] [] 0
  | _     => mkMsg 0 KWriteDone (m_dst b) P_BOT (m_id b) 0 0 0 [] [] 0
  end.
Definition tr_rsp (oracle : N -> N -> N) (q : treq) : trsp :=
  mkTrsp (q_id q) (oracle (q_pid q) (q_vaddr q)).

(** weight of everything that still has to move, by where it is *)
Definition rank (s : st) : nat :=
  (9 * length (top_in s) + 5 * length (waiting (txs s)) +
   3 * length (tr_out s) + 2 * length (un_tr s) + length (tr_in s) +
   4 * length (bot_out s) + 3 * length (un_bot s) + 2 * length (bot_in s) +
   length (top_out s))%nat.

(** one action of the fair environment: empty the outgoing ports, answer a lookup,
    answer a memory request, otherwise let the translator tick *)
Definition fair_next (oracle : N -> N -> N) (s : st) : ev :=
  match top_out s, bot_out s, tr_out s with
  | _ :: _, _, _ => ERetrTop
  | [], _ :: _, _ => ERetrBot
  | [], [], _ :: _ => ERetrTr
  | [], [], [] =>
    match un_tr s with
    | q :: _ => if room (width (cfg s)) (tr_in s) then EDeliverTr (tr_rsp oracle q)
                else ETick
    | [] =>
      match un_bot s with
      | b :: _ => if room (width (cfg s)) (bot_in s) then EDeliverBot (mem_rsp b) else ETick
      | [] => ETick
      end
    end
  end.

Fixpoint fair_evs (oracle : N -> N -> N) (n : nat) (s : st) : list ev :=
  match n with
  | O => []
  | S n' => if Nat.eqb (rank s) 0 then []
            else let e := fair_next oracle s in e :: fair_evs oracle n' (fst (step s e))
  end.
