(** Executable model of amd/timing/mem/simplebankedmemory (comp.go, builder.go,
    selector.go) over the akita pipeline model of Pipeline.v, driven through its
    Top port.  Definitions only; proofs are in DramProofs.v.

    The model has two modes.  [c_early = true] is the code after the repair
    (the storage access is performed when a request is taken from the top port);
    [c_early = false] is the code as it was before (the access is performed when
    the request leaves its bank).  Everything else is common to both.

    A Go panic makes [tick] return [None]; [step] then freezes the state with
    [crashed := true]. *)
From VLib Require Import Akita.
From VMem Require Import Pipeline.
From RecordUpdate Require Import RecordSet.
Import RecordSetNotations.
Open Scope N_scope.

Definition P_TOP : N := 1.      (* the component's own Top port; 0 is the empty port name *)

Notation "x <- e ;; k" := (match e with Some x => k | None => None end)
  (at level 60, e at next level, right associativity, only parsing).
Notation "' p <- e ;; k" := (match e with Some p => k | None => None end)
  (at level 60, p pattern, e at next level, right associativity, only parsing).

(** ** Configuration (Builder fields) *)

(** mem.InterleavingConverter *)
Record ilv := mkIlv { il_size : N; il_total : N; il_index : N; il_offset : N }.

Record cfg := mkCfg {
  c_early : bool;          (* true: repaired code; false: code before the repair *)
  c_banks : nat;           (* numBanks *)
  c_width : nat;           (* bankPipelineWidth *)
  c_depth : nat;           (* bankPipelineDepth *)
  c_cps : nat;             (* stageLatency *)
  c_topcap : nat;          (* topPortBufferSize (incoming and outgoing) *)
  c_postcap : nat;         (* postPipelineBufSize *)
  c_log2ilv : N;           (* log2InterleaveSize *)
  c_rowlog2 : N;           (* rowBufferSizeLog2 *)
  c_missdelay : nat;       (* rowMissDelay *)
  c_capacity : N;          (* capacity of the new storage *)
  c_aconv : option ilv;    (* AddressConverter *)
  c_bconv : option ilv     (* BankAddressConverter *)
}.

(** configurationMustBeValid (the engine is not modelled) *)
Definition cfg_ok (c : cfg) : bool :=
  Nat.ltb 0 (c_banks c) && Nat.ltb 0 (c_width c) && Nat.ltb 0 (c_depth c) &&
  Nat.ltb 0 (c_cps c) && Nat.ltb 0 (c_topcap c) && Nat.ltb 0 (c_postcap c).

(** InterleavingConverter.ConvertExternalToInternal; [None] = log.Panic or an
    integer division by zero *)
Definition conv (c : ilv) (ext : N) : option N :=
  if ext <? il_offset c then None else
  let addr := ext - il_offset c in
  let round := il_size c * il_total c in
  if round =? 0 then None else
  if negb ((addr mod round) / il_size c =? il_index c) then None else
  Some (addr / round * il_size c + ext mod il_size c).

(** ** Storage (mem.Storage): a byte array, zero where never written; an access
    is refused (and the component panics) when a 4 KiB unit it starts a chunk in
    lies beyond the capacity. *)
Definition store := N -> N.
Definition st_zero : store := fun _ => 0.

Definition unit_size : N := 4096.
Definition oob (cap a len : N) : bool :=
  (0 <? len) && (cap <? N.max a ((a + len - 1) / unit_size * unit_size)).

Definition st_read (st : store) (a : N) (len : nat) : list N :=
  map (fun i => st (a + N.of_nat i)) (seq 0 len).

Definition st_write (st : store) (a : N) (data : list N) : store :=
  fun x => if (a <=? x) && (x <? a + N.of_nat (length data)) then nth (N.to_nat (x - a)) data 0 else st x.

(** the loop of finalizeWrite over req.Data; [None]: DirtyMask shorter than
    Data (index out of range) *)
Fixpoint merge_masked (old data : list N) (mask : list bool) : option (list N) :=
  match data, old with
  | [], _ => Some old
  | d :: data', o :: old' =>
    match mask with
    | [] => None
    | b :: mask' =>
      match merge_masked old' data' mask' with
      | Some r => Some ((if b then d else o) :: r)
      | None => None
      end
    end
  | _ :: _, [] => None
  end.

(** address used for the storage access *)
Definition saddr (c : cfg) (r : msg) : option N :=
  match c_aconv c with
  | None => Some (m_addr r)
  | Some cv => conv cv (m_addr r)
  end.

Definition commit_read (c : cfg) (st : store) (r : msg) : option (list N) :=
  a <- saddr c r ;;
  if oob (c_capacity c) a (m_size r) then None
  else Some (st_read st a (N.to_nat (m_size r))).

(** an empty mask stands for DirtyMask == nil *)
Definition commit_write (c : cfg) (st : store) (r : msg) : option store :=
  a <- saddr c r ;;
  let data := m_data r in
  if oob (c_capacity c) a (N.of_nat (length data)) then None else
  match m_mask r with
  | [] => Some (st_write st a data)
  | mask =>
    new <- merge_masked (st_read st a (length data)) data mask ;;
    Some (st_write st a new)
  end.

(** ** State *)

(** bankPipelineItem.  [i_seq] is a ghost field: the position of the request
    among the requests taken from the top port; no transition reads it. *)
Record item := mkItem { i_req : msg; i_committed : bool; i_data : list N; i_seq : nat }.

Record bank := mkBank {
  b_pipe : pipe item;
  b_post : list item;               (* postPipelineBuf *)
  b_lastrow : N;
  b_rowvalid : bool;
  b_delayq : list (item * nat)      (* delayedItem: item, cyclesLeft *)
}.
#[export] Instance eta_bank : Settable _ := settable! mkBank
  <b_pipe; b_post; b_lastrow; b_rowvalid; b_delayq>.

Record dram := mkDram {
  cf : cfg;
  banks : list bank;
  pending : list item;              (* pendingReqs *)
  stor : store;                     (* Comp.Storage *)
  top_in : list msg; top_out : list msg;
  crashed : bool;
  (* ghost logs: never read by the transition function *)
  g_deliv : list msg;               (* requests whose Deliver was accepted *)
  g_drained : list msg;             (* requests taken from the top port, in order *)
  g_done : list item;               (* items whose response was sent, in order *)
  g_retr : list msg                 (* responses retrieved by the environment *)
}.
#[export] Instance eta_dram : Settable _ := settable! mkDram
  <cf; banks; pending; stor; top_in; top_out; crashed; g_deliv; g_drained; g_done; g_retr>.

Definition init_bank (c : cfg) : bank :=
  mkBank (pipe_clear (c_width c) (c_depth c) (c_cps c)) [] 0 false [].

Definition init (c : cfg) : dram :=
  mkDram c (repeat (init_bank c) (c_banks c)) [] st_zero [] [] false [] [] [] [].

(** ** Responses *)
Definition rsp_of (it : item) : msg :=
  let r := i_req it in
  match m_kind r with
  | KRead => mkMsg 0 KDataReady P_TOP (m_src r) (m_id r) 0 0 0 (i_data it) [] 0
  | _     => mkMsg 0 KWriteDone P_TOP (m_src r) (m_id r) 0 0 0 [] [] 0
  end.

(** the functional access of an item, if it has not been done yet (only in the
    mode before the repair); returns the item as it is afterwards and the store *)
Definition commit_item (c : cfg) (st : store) (it : item) : option (item * store) :=
  match m_kind (i_req it) with
  | KRead =>
    d <- commit_read c st (i_req it) ;;
    Some (mkItem (i_req it) true d (i_seq it), st)
  | KWrite =>
    st' <- commit_write c st (i_req it) ;;
    Some (mkItem (i_req it) true (i_data it) (i_seq it), st')
  | _ => None
  end.

(** ** finalizeBanks *)

(** the `if !item.committed` block of finalizeRead / finalizeWrite *)
Definition late_commit (s : dram) (it : item) : option (item * store) :=
  if c_early (cf s) || i_committed it then Some (it, stor s)
  else commit_item (cf s) (stor s) it.

(** the rest of finalizeRead / finalizeWrite: CanSend, Send, Pop *)
Definition fin_send (s : dram) (b : bank) (it' : item) (st' : store) (rest : list item)
  : option (dram * bank * bool) :=
  if negb (can_push (c_topcap (cf s)) (top_out s))
  then Some (s <| stor := st' |>, b <| b_post := it' :: rest |>, false)
  else
    (* port.Send: msgMustBeValid *)
    if (m_src (i_req it') =? 0) || (m_src (i_req it') =? P_TOP) then None
    else Some (s <| stor := st' |>
                 <| top_out := top_out s ++ [rsp_of it'] |>
                 <| g_done := g_done s ++ [it'] |>,
               b <| b_post := rest |>, true).

Definition is_access (m : msg) : bool :=
  match m_kind m with KRead | KWrite => true | _ => false end.

(** finalizeSingle *)
Definition fin_single (s : dram) (b : bank) : option (dram * bank * bool) :=
  match b_post b with
  | [] => Some (s, b, false)
  | it :: rest =>
    if is_access (i_req it) then
      '(it', st') <- late_commit s it ;;
      fin_send s b it' st' rest
    else None
  end.

Fixpoint fin_bank (fuel : nat) (s : dram) (b : bank) : option (dram * bank * bool) :=
  match fuel with
  | O => Some (s, b, false)
  | S f =>
    '(s1, b1, p) <- fin_single s b ;;
    if p then '(s2, b2, _) <- fin_bank f s1 b1 ;; Some (s2, b2, true)
    else Some (s1, b1, false)
  end.

Fixpoint fin_banks (s : dram) (bs : list bank) : option (dram * list bank * bool) :=
  match bs with
  | [] => Some (s, [], false)
  | b :: r =>
    '(s1, b1, p1) <- fin_bank (S (length (b_post b))) s b ;;
    '(s2, r', p2) <- fin_banks s1 r ;;
    Some (s2, b1 :: r', p1 || p2)
  end.

Definition finalize_banks (s : dram) : option (dram * bool) :=
  '(s', bs, p) <- fin_banks s (banks s) ;;
  Some (s' <| banks := bs |>, p).

(** ** tickPipelines *)
Definition tick_pipe_bank (c : cfg) (b : bank) : bank * bool :=
  let '(p, buf, pr) := pipe_tick (c_postcap c) (b_pipe b) (b_post b) in
  (b <| b_pipe := p |> <| b_post := buf |>, pr).

Fixpoint tick_pipes (c : cfg) (bs : list bank) : list bank * bool :=
  match bs with
  | [] => ([], false)
  | b :: r =>
    let '(b', p1) := tick_pipe_bank c b in
    let '(r', p2) := tick_pipes c r in
    (b' :: r', p1 || p2)
  end.

Definition tick_pipelines (s : dram) : dram * bool :=
  let '(bs, p) := tick_pipes (cf s) (banks s) in (s <| banks := bs |>, p).

(** ** tickDelayQueues *)
Fixpoint delay_loop (cap : nat) (p : pipe item) (buf : list item) (q : list (item * nat))
  : option (pipe item * list item * list (item * nat)) :=
  match q with
  | [] => Some (p, buf, [])
  | (it, n) :: r =>
    let n' := Nat.pred n in
    match n' with
    | O =>
      if pipe_can_accept cap p buf then
        '(p1, buf1) <- pipe_accept cap p buf it ;;
        delay_loop cap p1 buf1 r
      else
        '(p2, buf2, rem) <- delay_loop cap p buf r ;; Some (p2, buf2, (it, n') :: rem)
    | S _ =>
      '(p2, buf2, rem) <- delay_loop cap p buf r ;; Some (p2, buf2, (it, n') :: rem)
    end
  end.

Definition tick_delay_bank (c : cfg) (b : bank) : option (bank * bool) :=
  match b_delayq b with
  | [] => Some (b, false)
  | q =>
    '(p, buf, rem) <- delay_loop (c_postcap c) (b_pipe b) (b_post b) q ;;
    Some (b <| b_pipe := p |> <| b_post := buf |> <| b_delayq := rem |>, true)
  end.

Fixpoint tick_delays (c : cfg) (bs : list bank) : option (list bank * bool) :=
  match bs with
  | [] => Some ([], false)
  | b :: r =>
    '(b', p1) <- tick_delay_bank c b ;;
    '(r', p2) <- tick_delays c r ;;
    Some (b' :: r', p1 || p2)
  end.

Definition tick_delay_queues (s : dram) : option (dram * bool) :=
  '(bs, p) <- tick_delays (cf s) (banks s) ;; Some (s <| banks := bs |>, p).

(** ** dispatchPending *)

(** address used for bank selection and row tracking *)
Definition bank_addr (c : cfg) (r : msg) : option N :=
  match c_bconv c with
  | Some cv => conv cv (m_addr r)
  | None => match c_aconv c with
            | Some cv => conv cv (m_addr r)
            | None => Some (m_addr r)
            end
  end.

(** uint64(1) << log2 *)
Definition ilv_size (c : cfg) : N := if c_log2ilv c <? 64 then 2 ^ c_log2ilv c else 0.

(** interleavedBankSelector.Select *)
Definition select (c : cfg) (addr : N) (nb : nat) : option nat :=
  match nb with
  | O => Some O
  | _ => if ilv_size c =? 0 then None
         else Some (N.to_nat ((addr / ilv_size c) mod N.of_nat nb))
  end.

Definition row_of (c : cfg) (addr : N) (nb : nat) : N :=
  let isz := ilv_size c in
  let block := addr / isz in
  let local_block := block / N.of_nat nb in
  let off := addr mod isz in
  N.shiftr (local_block * isz + off) (c_rowlog2 c).

Fixpoint set_nth {A} (n : nat) (x : A) (l : list A) : list A :=
  match l, n with
  | [], _ => []
  | _ :: r, O => x :: r
  | y :: r, S n' => y :: set_nth n' x r
  end.

(** one iteration of the loop; the boolean tells whether the item left the
    pending list *)
Definition dispatch_one (c : cfg) (bs : list bank) (it : item) : option (list bank * bool) :=
  addr <- bank_addr c (i_req it) ;;
  id <- select c addr (length bs) ;;
  b <- nth_error bs id ;;
  let cap := c_postcap c in
  if (0 <? c_rowlog2 c) && Nat.ltb 0 (c_missdelay c) then
    let row := row_of c addr (length bs) in
    if b_rowvalid b && (b_lastrow b =? row) then
      if negb (pipe_can_accept cap (b_pipe b) (b_post b)) then Some (bs, false)
      else
        '(p, buf) <- pipe_accept cap (b_pipe b) (b_post b) it ;;
        Some (set_nth id (b <| b_pipe := p |> <| b_post := buf |>
                            <| b_lastrow := row |> <| b_rowvalid := true |>) bs, true)
    else
      Some (set_nth id (b <| b_delayq := b_delayq b ++ [(it, c_missdelay c)] |>
                          <| b_lastrow := row |> <| b_rowvalid := true |>) bs, true)
  else
    if negb (pipe_can_accept cap (b_pipe b) (b_post b)) then Some (bs, false)
    else
      '(p, buf) <- pipe_accept cap (b_pipe b) (b_post b) it ;;
      Some (set_nth id (b <| b_pipe := p |> <| b_post := buf |>) bs, true).

Fixpoint dispatch_loop (c : cfg) (bs : list bank) (l : list item)
  : option (list bank * list item * bool) :=
  match l with
  | [] => Some (bs, [], false)
  | it :: r =>
    '(bs1, gone) <- dispatch_one c bs it ;;
    '(bs2, rem, p) <- dispatch_loop c bs1 r ;;
    Some (bs2, if gone then rem else it :: rem, gone || p)
  end.

Definition dispatch_pending (s : dram) : option (dram * bool) :=
  '(bs, rem, p) <- dispatch_loop (cf s) (banks s) (pending s) ;;
  Some (s <| banks := bs |> <| pending := rem |>, p).

(** ** drainTopPort *)
Definition drain_one (s : dram) (m : msg) : option dram :=
  if negb (is_access m) then None else
  let it0 := mkItem m false [] (length (g_drained s)) in
  '(it, st) <- (if c_early (cf s) then commit_item (cf s) (stor s) it0 else Some (it0, stor s)) ;;
  Some (s <| pending := pending s ++ [it] |> <| stor := st |>
          <| g_drained := g_drained s ++ [m] |>).

Fixpoint drain_msgs (s : dram) (l : list msg) : option dram :=
  match l with
  | [] => Some s
  | m :: r => s1 <- drain_one s m ;; drain_msgs s1 r
  end.

Definition drain_top (s : dram) : option (dram * bool) :=
  s' <- drain_msgs (s <| top_in := [] |>) (top_in s) ;;
  Some (s', match top_in s with [] => false | _ => true end).

(** ** middleware.Tick *)
Definition tick (s : dram) : option (dram * bool) :=
  '(s1, p1) <- finalize_banks s ;;
  let '(s2, p2) := tick_pipelines s1 in
  '(s3, p3) <- tick_delay_queues s2 ;;
  '(s4, p4) <- dispatch_pending s3 ;;
  '(s5, p5) <- drain_top s4 ;;
  Some (s5, p1 || p2 || p3 || p4 || p5).

(** ** Environment events *)
Inductive ev := EDeliver (m : msg) | ETick | ERetr.
Inductive obs := OAcc (b : bool) | OTick (progress : bool) | OMsg (m : option msg) | OCrash.

Definition step (s : dram) (e : ev) : dram * obs :=
  if crashed s then (s, OCrash) else
  match e with
  | EDeliver m =>
    if can_push (c_topcap (cf s)) (top_in s)
    then (s <| top_in := top_in s ++ [m] |> <| g_deliv := g_deliv s ++ [m] |>, OAcc true)
    else (s, OAcc false)
  | ETick =>
    match tick s with
    | Some (s', p) => (s', OTick p)
    | None => (s <| crashed := true |>, OCrash)
    end
  | ERetr =>
    match top_out s with
    | [] => (s, OMsg None)
    | m :: r => (s <| top_out := r |> <| g_retr := g_retr s ++ [m] |>, OMsg (Some m))
    end
  end.

Definition run (s : dram) (evs : list ev) : dram :=
  fold_left (fun s e => fst (step s e)) evs s.

Fixpoint run_obs (s : dram) (evs : list ev) : list obs :=
  match evs with
  | [] => []
  | e :: r => let '(s', o) := step s e in o :: run_obs s' r
  end.

(** ** Specification vocabulary: a flat byte array to which the requests are
    applied one after the other (used by the theorems, not by the transitions) *)
Definition apply_req (c : cfg) (st : store) (r : msg) : store :=
  match m_kind r with
  | KWrite => match commit_write c st r with Some st' => st' | None => st end
  | _ => st
  end.

(** the array after the requests [rs] *)
Definition mem_of (c : cfg) (rs : list msg) : store := fold_left (apply_req c) rs st_zero.

(** byte [x] as written by request [r], if [r] is a write that is performed,
    covers [x] and has the byte enabled *)
Definition byte_written (c : cfg) (r : msg) (x : N) : option N :=
  match m_kind r with
  | KWrite =>
    match saddr c r with
    | Some a =>
      let i := N.to_nat (x - a) in
      if oob (c_capacity c) a (N.of_nat (length (m_data r))) then None
      else if Nat.ltb (length (m_mask r)) (length (m_data r)) && negb (Nat.eqb (length (m_mask r)) 0) then None
      else if (a <=? x) && (x <? a + N.of_nat (length (m_data r))) &&
              (match m_mask r with [] => true | mask => nth i mask false end)
           then Some (nth i (m_data r) 0) else None
    | None => None
    end
  | _ => None
  end.

(** the most recent write to byte [x] among [rs] (oldest first) *)
Definition last_write (c : cfg) (rs : list msg) (x : N) : option N :=
  fold_left (fun acc r => match byte_written c r x with Some v => Some v | None => acc end) rs None.

(** response [m] answers request [r]: identifier, routing, kind *)
Definition answers (m r : msg) : Prop :=
  m_rspto m = m_id r /\ m_dst m = m_src r /\ m_src m = P_TOP /\
  m_kind m = match m_kind r with KRead => KDataReady | _ => KWriteDone end.

(** Every response produced so far (retrieved or still in the port) answers the
    request at its own position [k] of the delivery log — no two responses share
    a position, none is spurious. *)
Definition one_rsp_each (s : dram) : Prop :=
  exists ks, NoDup ks /\
    Forall2 (fun m k => exists r, nth_error (g_deliv s) k = Some r /\ is_access r = true /\ answers m r)
            (g_retr s ++ top_out s) ks.

(** ... and a read response carries what a read of the flat byte array yields
    after exactly the requests delivered before position [k]. *)
Definition linearizable_by_arrival (s : dram) : Prop :=
  exists ks, NoDup ks /\
    Forall2 (fun m k => exists r, nth_error (g_deliv s) k = Some r /\ answers m r /\
               (m_kind r = KRead ->
                commit_read (cf s) (mem_of (cf s) (firstn k (g_deliv s))) r = Some (m_data m)))
            (g_retr s ++ top_out s) ks.

(** ** Well-formed configurations and traffic (hypotheses of the no-panic and
    liveness theorems).  They also state the range in which the unbounded
    arithmetic of this model coincides with Go's uint64 arithmetic: no address
    computation wraps around. *)
Definition two64 : N := 18446744073709551616.

Definition req_len (r : msg) : N :=
  match m_kind r with KRead => m_size r | _ => N.of_nat (length (m_data r)) end.

Definition ilv_fits (o : option ilv) : bool :=
  match o with
  | None => true
  | Some cv => (il_size cv * il_total cv <? two64) && (il_offset cv <? two64)
  end.

(** accepted by the builder, interleave size representable, nothing wraps *)
Definition wf_cfg (c : cfg) : bool :=
  cfg_ok c && (c_log2ilv c <? 64) && (c_capacity c + unit_size <? two64) &&
  ilv_fits (c_aconv c) && ilv_fits (c_bconv c).

(** a read or write request from a real requester, inside the storage, accepted
    by the address converters, with a mask that is absent or covers the data,
    and whose byte range does not wrap *)
Definition wf_req (c : cfg) (r : msg) : bool :=
  is_access r && negb (m_src r =? 0) && negb (m_src r =? P_TOP) &&
  match saddr c r with
  | Some a => negb (oob (c_capacity c) a (req_len r))
  | None => false
  end &&
  match bank_addr c r with Some _ => true | None => false end &&
  match m_mask r with [] => true | mk => Nat.leb (length (m_data r)) (length mk) end &&
  (m_addr r + req_len r <=? two64).

Definition wf_ev (c : cfg) (e : ev) : bool :=
  match e with EDeliver m => wf_req c m | _ => true end.

(** ** Correspondence: compare a recorded history of the implementation *)
Definition obs_eqb (a b : obs) : bool :=
  match a, b with
  | OAcc x, OAcc y => Bool.eqb x y
  | OTick x, OTick y => Bool.eqb x y
  | OMsg None, OMsg None => true
  | OMsg (Some x), OMsg (Some y) => msg_eqb x y
  | OCrash, OCrash => true
  | _, _ => false
  end.

Record case := mkCase { k_cfg : cfg; k_trace : list (ev * obs) }.

Fixpoint first_diff (i : nat) (l1 l2 : list obs) : option nat :=
  match l1, l2 with
  | [], [] => None
  | a :: l1', b :: l2' => if obs_eqb a b then first_diff (S i) l1' l2' else Some i
  | _, _ => Some i
  end.

Definition check_case (c : case) : option nat :=
  first_diff 0 (run_obs (init (k_cfg c)) (map fst (k_trace c))) (map snd (k_trace c)).

Fixpoint mismatches_from (i : nat) (cs : list case) : list (nat * nat) :=
  match cs with
  | [] => []
  | c :: r => match check_case c with
              | None => mismatches_from (S i) r
              | Some k => (i, k) :: mismatches_from (S i) r
              end
  end.
Definition mismatches := mismatches_from 0.

(** also report the histories that are outside the hypotheses of the no-panic /
    liveness theorems; their detail is (number of events + 1), which no index of a
    diverging observation can be *)
Definition case_wf (k : case) : bool :=
  wf_cfg (k_cfg k) && forallb (wf_ev (k_cfg k)) (map fst (k_trace k)).
Fixpoint not_wf_from (i : nat) (cs : list case) : list (nat * nat) :=
  match cs with
  | [] => []
  | k :: r => if case_wf k then not_wf_from (S i) r
              else (i, S (length (k_trace k))) :: not_wf_from (S i) r
  end.
Definition audit (cs : list case) : list (nat * nat) := mismatches cs ++ not_wf_from 0 cs.
