(** Invariants of the DRAM model and the lemmas behind props/C17.v. *)
From Coq Require Import Arith Permutation Morphisms.
From VLib Require Import Akita ListX PermAC.
From VMem Require Import Pipeline PipelineProofs Dram.
From RecordUpdate Require Import RecordSet.
Import RecordSetNotations.
Open Scope N_scope.

(** ** Where the items are *)
Definition key (it : item) : nat * msg := (i_seq it, i_req it).
Definition bank_items (b : bank) : list item :=
  map fst (b_delayq b) ++ pipe_items (b_pipe b) ++ b_post b.
Definition banks_items (bs : list bank) : list item := flat_map bank_items bs.
Definition items (s : dram) : list item := pending s ++ banks_items (banks s).

(** the requests taken from the port, each with its position *)
Definition keys_of (l : list msg) : list (nat * msg) := combine (seq 0 (length l)) l.

(** A projection of items is stable if the late functional access (mode before
    the repair) does not change it; in the repaired mode nothing changes items. *)
Definition stable (c : cfg) {K} (f : item -> K) : Prop :=
  c_early c = true \/
  forall st it it' st', commit_item c st it = Some (it', st') -> f it' = f it.

Lemma key_stable c : stable c key.
Proof.
  right. intros st it it' st' H. unfold commit_item in H.
  destruct (m_kind (i_req it)); try discriminate.
  - destruct (commit_read c st (i_req it)); inversion H; reflexivity.
  - destruct (commit_write c st (i_req it)); inversion H; reflexivity.
Qed.

Lemma id_stable c : c_early c = true -> stable c (fun it : item => it).
Proof. intros H; left; exact H. Qed.

(** ** Relation between the state before and after a part of Tick *)
Record sub_ok (s s' : dram) : Prop := {
  so_cf : cf s' = cf s;
  so_in : top_in s' = top_in s;
  so_deliv : g_deliv s' = g_deliv s;
  so_drained : g_drained s' = g_drained s;
  so_retr : g_retr s' = g_retr s;
  so_crashed : crashed s' = crashed s;
  so_done : exists dn, g_done s' = g_done s ++ dn /\ top_out s' = top_out s ++ map rsp_of dn;
  so_perm : forall K (f : item -> K), stable (cf s) f ->
            Permutation (map f (items s' ++ g_done s')) (map f (items s ++ g_done s));
  so_stor : c_early (cf s) = true -> stor s' = stor s
}.

Lemma sub_ok_refl s : sub_ok s s.
Proof.
  constructor; auto. exists []. now rewrite !app_nil_r.
Qed.

Lemma sub_ok_trans s1 s2 s3 : sub_ok s1 s2 -> sub_ok s2 s3 -> sub_ok s1 s3.
Proof.
  intros [] []. constructor; try congruence.
  - destruct so_done0 as [d1 [Ha Hb]], so_done1 as [d2 [Hc Hd]].
    exists (d1 ++ d2). rewrite Hc, Hd, Ha, Hb, map_app, !app_assoc. auto.
  - intros K f Hf. rewrite so_perm1 by (rewrite so_cf0; auto). auto.
  - intros He. rewrite so_stor1 by (rewrite so_cf0; auto). auto.
Qed.

(** a part of Tick that only moves items between pending list and banks *)
Lemma sub_ok_move s bs pd :
  Permutation (pd ++ banks_items bs) (items s) ->
  sub_ok s (s <| banks := bs |> <| pending := pd |>).
Proof.
  intros H. constructor; cbn; auto.
  - exists []. now rewrite !app_nil_r.
  - intros K f _. apply Permutation_map. unfold items at 1; cbn.
    apply Permutation_app_tail. exact H.
Qed.

(** ** finalizeBanks *)

(** what fin_single / fin_bank / fin_banks may change in the global state *)
Definition fin_rel (s s' : dram) (dn : list item) : Prop :=
  cf s' = cf s /\ banks s' = banks s /\ pending s' = pending s /\ top_in s' = top_in s /\
  crashed s' = crashed s /\ g_deliv s' = g_deliv s /\ g_drained s' = g_drained s /\
  g_retr s' = g_retr s /\ g_done s' = g_done s ++ dn /\
  top_out s' = top_out s ++ map rsp_of dn /\
  (c_early (cf s) = true -> stor s' = stor s).

Lemma fin_rel_refl s : fin_rel s s [].
Proof. unfold fin_rel. rewrite !app_nil_r. repeat split; auto. Qed.

Lemma fin_rel_trans s1 s2 s3 d1 d2 : fin_rel s1 s2 d1 -> fin_rel s2 s3 d2 -> fin_rel s1 s3 (d1 ++ d2).
Proof.
  unfold fin_rel. intros (A1&A2&A3&A4&A5&A6&A7&A8&A9&A10&A11) (B1&B2&B3&B4&B5&B6&B7&B8&B9&B10&B11).
  repeat split; try congruence.
  - rewrite B9, A9, app_assoc; auto.
  - rewrite B10, A10, map_app, app_assoc; auto.
  - intros He. rewrite B11 by (rewrite A1; auto). auto.
Qed.

Arguments can_push : simpl never.

Lemma late_commit_spec s it it' st' :
  late_commit s it = Some (it', st') ->
  (forall K (f : item -> K), stable (cf s) f -> f it' = f it) /\
  (c_early (cf s) = true -> st' = stor s).
Proof.
  unfold late_commit. destruct (c_early (cf s) || i_committed it) eqn:Ec; intros H.
  - inversion H; subst. auto.
  - apply orb_false_iff in Ec. destruct Ec as [Ee _]. split; [|congruence].
    intros K f [Hf|Hf]; [congruence|eapply Hf; eauto].
Qed.

Lemma fin_send_spec s b it' st' rest s' b' p :
  fin_send s b it' st' rest = Some (s', b', p) ->
  (c_early (cf s) = true -> st' = stor s) ->
  exists dn post', fin_rel s s' dn /\ b' = b <| b_post := post' |> /\ dn ++ post' = it' :: rest.
Proof.
  unfold fin_send. intros H Hst.
  destruct (negb (can_push (c_topcap (cf s)) (top_out s))).
  - inversion H; subst. exists [], (it' :: rest). split; [|auto].
    unfold fin_rel; cbn. rewrite !app_nil_r. repeat split; auto.
  - destruct ((m_src (i_req it') =? 0) || (m_src (i_req it') =? P_TOP)); [discriminate|].
    inversion H; subst. exists [it'], rest. split; [|auto].
    unfold fin_rel; cbn. repeat split; auto.
Qed.

Lemma fin_single_spec s b s' b' p :
  fin_single s b = Some (s', b', p) ->
  exists dn post', fin_rel s s' dn /\ b' = b <| b_post := post' |> /\
    forall K (f : item -> K), stable (cf s) f -> map f (b_post b) = map f (dn ++ post').
Proof.
  unfold fin_single. intros H. destruct (b_post b) as [|it rest] eqn:Ep.
  { inversion H; subst. exists [], []. split; [apply fin_rel_refl|]. split; auto.
    destruct b'; cbn in *; subst; reflexivity. }
  destruct (is_access (i_req it)); [|discriminate].
  destruct (late_commit s it) as [[it' st']|] eqn:El; [|discriminate].
  destruct (late_commit_spec _ _ _ _ El) as [Hf Hs].
  apply fin_send_spec in H; auto. destruct H as (dn & post' & Hr & Hb & Hd).
  exists dn, post'. split; [exact Hr|]. split; [exact Hb|]. intros K f Hst. rewrite Hd. cbn. rewrite Hf; auto.
Qed.

Lemma fin_bank_spec fuel : forall s b s' b' p,
  fin_bank fuel s b = Some (s', b', p) ->
  exists dn post', fin_rel s s' dn /\ b' = b <| b_post := post' |> /\
    forall K (f : item -> K), stable (cf s) f -> map f (b_post b) = map f (dn ++ post').
Proof.
  induction fuel as [|fuel IH]; intros s b s' b' p H; cbn [fin_bank] in H.
  { inversion H; subst. exists [], (b_post b'). split; [apply fin_rel_refl|]. split; auto.
    destruct b'; reflexivity. }
  destruct (fin_single s b) as [[[s1 b1] p1]|] eqn:E1; [|discriminate].
  apply fin_single_spec in E1. destruct E1 as (d1 & post1 & R1 & B1 & F1).
  destruct p1.
  - destruct (fin_bank fuel s1 b1) as [[[s2 b2] p2]|] eqn:E2; [|discriminate].
    inversion H; subst s' b' p. apply IH in E2. destruct E2 as (d2 & post2 & R2 & B2 & F2).
    exists (d1 ++ d2), post2. split; [eapply fin_rel_trans; eauto|]. split.
    + subst b2 b1. destruct b; reflexivity.
    + intros K f Hf. rewrite F1 by auto. rewrite !map_app.
      assert (Hc : cf s1 = cf s) by apply R1.
      specialize (F2 K f). rewrite Hc in F2. subst b1. cbn in F2. rewrite F2 by auto.
      now rewrite map_app, app_assoc.
  - inversion H; subst. exists d1, post1. auto.
Qed.

Lemma bank_items_post b post' : bank_items (b <| b_post := post' |>) =
  map fst (b_delayq b) ++ pipe_items (b_pipe b) ++ post'.
Proof. destruct b; reflexivity. Qed.

Lemma fin_banks_spec : forall bs s s' bs' p,
  fin_banks s bs = Some (s', bs', p) ->
  exists dn, fin_rel s s' dn /\
    forall K (f : item -> K), stable (cf s) f ->
      Permutation (map f (banks_items bs' ++ dn)) (map f (banks_items bs)).
Proof.
  induction bs as [|b r IH]; intros s s' bs' p H; cbn [fin_banks] in H.
  { inversion H; subst. exists []. split; [apply fin_rel_refl|]. reflexivity. }
  destruct (fin_bank (S (length (b_post b))) s b) as [[[s1 b1] p1]|] eqn:E1; [|discriminate].
  destruct (fin_banks s1 r) as [[[s2 r'] p2]|] eqn:E2; [|discriminate].
  inversion H; subst s' bs' p.
  apply fin_bank_spec in E1. destruct E1 as (d1 & post1 & R1 & B1 & F1).
  apply IH in E2. destruct E2 as (d2 & R2 & F2).
  exists (d1 ++ d2). split; [eapply fin_rel_trans; eauto|].
  intros K f Hf. assert (Hc : cf s1 = cf s) by apply R1.
  specialize (F2 K f). rewrite Hc in F2. specialize (F2 Hf). specialize (F1 K f Hf).
  cbn [banks_items flat_map]. fold (banks_items r'). fold (banks_items r).
  subst b1. rewrite bank_items_post. unfold bank_items.
  rewrite !map_app in *. rewrite F1, <- F2, ?map_app. perm_ac.
Qed.

Lemma finalize_banks_ok s s' p : finalize_banks s = Some (s', p) -> sub_ok s s'.
Proof.
  unfold finalize_banks. destruct (fin_banks s (banks s)) as [[[s1 bs] p1]|] eqn:E; [|discriminate].
  intros H; inversion H; subst s' p. apply fin_banks_spec in E. destruct E as (dn & R & F).
  destruct R as (A1&A2&A3&A4&A5&A6&A7&A8&A9&A10&A11).
  constructor; cbn; auto.
  - exists dn; auto.
  - intros K f Hf. unfold items; cbn. fold (banks_items bs). rewrite A3, A9. specialize (F K f Hf).
    rewrite !map_app in *. rewrite <- F. perm_ac.
Qed.

(** ** tickPipelines *)
Lemma tick_pipes_perm c : forall bs bs' p, tick_pipes c bs = (bs', p) ->
  Permutation (banks_items bs') (banks_items bs).
Proof.
  induction bs as [|b r IH]; intros bs' p H; cbn [tick_pipes] in H.
  { inversion H; reflexivity. }
  unfold tick_pipe_bank in H.
  destruct (pipe_tick (c_postcap c) (b_pipe b) (b_post b)) as [[pp buf] pr] eqn:E.
  destruct (tick_pipes c r) as [r' p2] eqn:E2. inversion H; subst.
  apply pipe_tick_perm in E. cbn [banks_items flat_map]. apply Permutation_app; [|eapply IH; eauto].
  destruct b; unfold bank_items; cbn in *. apply Permutation_app_head. symmetry; exact E.
Qed.

Lemma tick_pipelines_ok s s' p : tick_pipelines s = (s', p) -> sub_ok s s'.
Proof.
  unfold tick_pipelines. destruct (tick_pipes (cf s) (banks s)) as [bs q] eqn:E.
  intros H; inversion H; subst. apply tick_pipes_perm in E.
  replace (s <| banks := bs |>) with (s <| banks := bs |> <| pending := pending s |>) by (destruct s; reflexivity).
  apply sub_ok_move. unfold items. now apply Permutation_app_head.
Qed.

(** ** tickDelayQueues *)
Lemma delay_loop_perm cap : forall q pp buf pp' buf' rem,
  delay_loop cap pp buf q = Some (pp', buf', rem) ->
  Permutation (map fst rem ++ pipe_items pp' ++ buf') (map fst q ++ pipe_items pp ++ buf).
Proof.
  induction q as [|[it n] r IH]; intros pp buf pp' buf' rem H; cbn [delay_loop] in H.
  { inversion H; reflexivity. }
  assert (Hkeep : forall n', ('(p2, buf2, rem0) <- delay_loop cap pp buf r ;; Some (p2, buf2, (it, n') :: rem0)) = Some (pp', buf', rem) ->
           Permutation (map fst rem ++ pipe_items pp' ++ buf') (map fst ((it, n) :: r) ++ pipe_items pp ++ buf)).
  { intros n' H'. destruct (delay_loop cap pp buf r) as [[[p2 buf2] rem0]|] eqn:E; [|discriminate].
    inversion H'; subst. cbn. apply perm_skip. eapply IH; eauto. }
  destruct (Nat.pred n); [|eauto].
  destruct (pipe_can_accept cap pp buf); [|eauto].
  destruct (pipe_accept cap pp buf it) as [[p1 buf1]|] eqn:Ea; [|discriminate].
  apply IH in H. rewrite H. apply pipe_accept_perm in Ea. cbn.
  rewrite Ea. symmetry. apply Permutation_middle.
Qed.

Lemma tick_delays_perm c : forall bs bs' p, tick_delays c bs = Some (bs', p) ->
  Permutation (banks_items bs') (banks_items bs).
Proof.
  induction bs as [|b r IH]; intros bs' p H; cbn [tick_delays] in H.
  { inversion H; reflexivity. }
  destruct (tick_delay_bank c b) as [[b' p1]|] eqn:E1; [|discriminate].
  destruct (tick_delays c r) as [[r' p2]|] eqn:E2; [|discriminate].
  inversion H; subst. cbn [banks_items flat_map]. apply Permutation_app; [|eapply IH; eauto].
  unfold tick_delay_bank in E1. destruct (b_delayq b) eqn:Eq.
  { inversion E1; subst; reflexivity. }
  rewrite <- Eq in E1.
  destruct (delay_loop (c_postcap c) (b_pipe b) (b_post b) (b_delayq b)) as [[[pp buf] rem]|] eqn:El; [|discriminate].
  inversion E1; subst. apply delay_loop_perm in El. destruct b; unfold bank_items; cbn in *. exact El.
Qed.

Lemma tick_delay_queues_ok s s' p : tick_delay_queues s = Some (s', p) -> sub_ok s s'.
Proof.
  unfold tick_delay_queues. destruct (tick_delays (cf s) (banks s)) as [[bs q]|] eqn:E; [|discriminate].
  intros H; inversion H; subst. apply tick_delays_perm in E.
  replace (s <| banks := bs |>) with (s <| banks := bs |> <| pending := pending s |>) by (destruct s; reflexivity).
  apply sub_ok_move. unfold items. now apply Permutation_app_head.
Qed.

(** ** dispatchPending *)
Lemma set_nth_items : forall bs id b b' e,
  nth_error bs id = Some b -> Permutation (bank_items b') (e ++ bank_items b) ->
  Permutation (banks_items (set_nth id b' bs)) (e ++ banks_items bs).
Proof.
  induction bs as [|x r IH]; intros id b b' e Hn Hp; destruct id; cbn in Hn; try discriminate.
  - inversion Hn; subst. cbn [set_nth banks_items flat_map]. rewrite Hp, app_assoc. reflexivity.
  - cbn [set_nth banks_items flat_map]. fold (banks_items (set_nth id b' r)). fold (banks_items r).
    rewrite (IH _ _ _ _ Hn Hp). apply Permutation_app_swap_app.
Qed.

Lemma dispatch_one_perm c bs it bs' gone :
  dispatch_one c bs it = Some (bs', gone) ->
  Permutation (banks_items bs') ((if gone then [it] else []) ++ banks_items bs).
Proof.
  unfold dispatch_one. intros H.
  destruct (bank_addr c (i_req it)) as [addr|]; [|discriminate].
  destruct (select c addr (length bs)) as [id|]; [|discriminate].
  destruct (nth_error bs id) as [b|] eqn:En; [|discriminate].
  assert (Hacc : forall lr rv,
    (if negb (pipe_can_accept (c_postcap c) (b_pipe b) (b_post b)) then Some (bs, false)
     else '(p, buf) <- pipe_accept (c_postcap c) (b_pipe b) (b_post b) it ;;
          Some (set_nth id (mkBank p buf lr rv (b_delayq b)) bs, true)) = Some (bs', gone) ->
    Permutation (banks_items bs') ((if gone then [it] else []) ++ banks_items bs)).
  { intros lr rv H'. destruct (negb (pipe_can_accept (c_postcap c) (b_pipe b) (b_post b))).
    { inversion H'; subst; reflexivity. }
    destruct (pipe_accept (c_postcap c) (b_pipe b) (b_post b) it) as [[p buf]|] eqn:Ea; [|discriminate].
    inversion H'; subst. eapply set_nth_items; eauto. apply pipe_accept_perm in Ea.
    unfold bank_items; cbn. rewrite Ea. symmetry. apply (Permutation_middle _ _ it). }
  destruct ((0 <? c_rowlog2 c) && Nat.ltb 0 (c_missdelay c)).
  - destruct (b_rowvalid b && (b_lastrow b =? row_of c addr (length bs))).
    + destruct b as [bp bpost blr brv bdq]; cbn in *. apply (Hacc (row_of c addr (length bs)) true). exact H.
    + inversion H; subst. eapply set_nth_items; eauto.
      destruct b; unfold bank_items; cbn. rewrite map_app; cbn.
      rewrite <- app_assoc. cbn. symmetry. apply (Permutation_middle _ _ it).
  - destruct b as [bp bpost blr brv bdq]; cbn in *. apply (Hacc blr brv). exact H.
Qed.

Lemma dispatch_loop_perm c : forall l bs bs' rem p,
  dispatch_loop c bs l = Some (bs', rem, p) ->
  Permutation (rem ++ banks_items bs') (l ++ banks_items bs).
Proof.
  induction l as [|it r IH]; intros bs bs' rem p H; cbn [dispatch_loop] in H.
  { inversion H; reflexivity. }
  destruct (dispatch_one c bs it) as [[bs1 gone]|] eqn:E1; [|discriminate].
  destruct (dispatch_loop c bs1 r) as [[[bs2 rem2] p2]|] eqn:E2; [|discriminate].
  inversion H; subst. apply dispatch_one_perm in E1. apply IH in E2.
  destruct gone; cbn in *.
  - rewrite E2, E1. symmetry. apply (Permutation_middle _ _ it).
  - apply perm_skip. rewrite E2, E1. reflexivity.
Qed.

Lemma dispatch_pending_ok s s' p : dispatch_pending s = Some (s', p) -> sub_ok s s'.
Proof.
  unfold dispatch_pending.
  destruct (dispatch_loop (cf s) (banks s) (pending s)) as [[[bs rem] q]|] eqn:E; [|discriminate].
  intros H; inversion H; subst. apply dispatch_loop_perm in E. now apply sub_ok_move.
Qed.

(** ** drainTopPort *)
Lemma combine_app {A B} (l1 l1' : list A) (l2 l2' : list B) :
  length l1 = length l2 -> combine (l1 ++ l1') (l2 ++ l2') = combine l1 l2 ++ combine l1' l2'.
Proof.
  revert l2. induction l1 as [|a l1 IH]; intros [|b l2] Hl; cbn in *; try discriminate; auto.
  f_equal. apply IH. congruence.
Qed.

Lemma keys_of_snoc l m : keys_of (l ++ [m]) = keys_of l ++ [(length l, m)].
Proof.
  unfold keys_of. rewrite app_length. cbn [length]. rewrite Nat.add_1_r, seq_S.
  rewrite combine_app by now rewrite seq_length. reflexivity.
Qed.

Lemma commit_item_key c st it it' st' : commit_item c st it = Some (it', st') -> key it' = key it.
Proof. intros H. destruct (key_stable c) as [Hf|Hf]; [|eapply Hf; eauto].
  unfold commit_item in H. destruct (m_kind (i_req it)); try discriminate.
  - destruct (commit_read c st (i_req it)); inversion H; reflexivity.
  - destruct (commit_write c st (i_req it)); inversion H; reflexivity.
Qed.

Record drain_rel (s s' : dram) (m : msg) (it : item) : Prop := {
  dr_cf : cf s' = cf s; dr_banks : banks s' = banks s; dr_in : top_in s' = top_in s;
  dr_out : top_out s' = top_out s; dr_crashed : crashed s' = crashed s;
  dr_deliv : g_deliv s' = g_deliv s; dr_done : g_done s' = g_done s; dr_retr : g_retr s' = g_retr s;
  dr_pending : pending s' = pending s ++ [it];
  dr_drained : g_drained s' = g_drained s ++ [m];
  dr_key : key it = (length (g_drained s), m);
  dr_acc : is_access m = true;
  dr_early : c_early (cf s) = true ->
             commit_item (cf s) (stor s) (mkItem m false [] (length (g_drained s))) = Some (it, stor s')
}.

Lemma drain_one_spec s m s' : drain_one s m = Some s' -> exists it, drain_rel s s' m it.
Proof.
  unfold drain_one. destruct (is_access m) eqn:Ea; cbn [negb]; [|discriminate].
  destruct (c_early (cf s)) eqn:Ee.
  - destruct (commit_item (cf s) (stor s) _) as [[it st]|] eqn:Ec; [|discriminate].
    intros H; inversion H; subst. exists it. constructor; cbn; auto.
    apply commit_item_key in Ec. exact Ec.
  - intros H; inversion H; subst. eexists. constructor; cbn; auto. intros; congruence.
Qed.

(** ** The accounting invariant (both modes) *)
Record Inv (s : dram) : Prop := {
  i_deliv : g_drained s ++ top_in s = g_deliv s;
  i_out : g_retr s ++ top_out s = map rsp_of (g_done s);
  i_acct : Permutation (map key (items s ++ g_done s)) (keys_of (g_drained s));
  i_acc : Forall (fun m => is_access m = true) (g_drained s)
}.

Lemma flat_map_repeat_nil {A B} (g : A -> list B) x n : g x = [] -> flat_map g (repeat x n) = [].
Proof. intros H. induction n; cbn; auto. now rewrite H, IHn. Qed.

Lemma init_items c : banks_items (repeat (init_bank c) (c_banks c)) = [].
Proof.
  apply flat_map_repeat_nil. unfold bank_items, init_bank, pipe_clear, pipe_items; cbn.
  rewrite app_nil_r. apply flat_map_repeat_nil. apply flat_map_repeat_nil. reflexivity.
Qed.

Lemma init_inv c : Inv (init c).
Proof.
  constructor; cbn; auto. unfold items; cbn. fold (banks_items (repeat (init_bank c) (c_banks c))).
  rewrite init_items. reflexivity.
Qed.

Lemma sub_ok_inv s s' : sub_ok s s' -> Inv s -> Inv s'.
Proof.
  intros [] []. destruct so_done0 as (dn & Hd & Ho). constructor.
  - congruence.
  - rewrite so_retr0, Ho, Hd, map_app, app_assoc. congruence.
  - rewrite so_drained0, <- i_acct0. apply so_perm0, key_stable.
  - congruence.
Qed.

Lemma drain_rel_inv s s' m it rest :
  drain_rel s s' m it ->
  g_drained s ++ m :: rest = g_deliv s -> g_retr s ++ top_out s = map rsp_of (g_done s) ->
  Permutation (map key (items s ++ g_done s)) (keys_of (g_drained s)) ->
  Forall (fun m => is_access m = true) (g_drained s) ->
  g_drained s' ++ rest = g_deliv s' /\ g_retr s' ++ top_out s' = map rsp_of (g_done s') /\
  Permutation (map key (items s' ++ g_done s')) (keys_of (g_drained s')) /\
  Forall (fun m => is_access m = true) (g_drained s').
Proof.
  intros [] H1 H2 H3 H5. split; [|split; [|split]].
  - rewrite dr_drained0, dr_deliv0, <- app_assoc. exact H1.
  - congruence.
  - rewrite dr_drained0, keys_of_snoc, <- H3. unfold items.
    rewrite dr_pending0, dr_banks0, dr_done0, !map_app. cbn [map]. rewrite dr_key0. perm_ac.
  - rewrite dr_drained0. apply Forall_app; split; auto.
Qed.

Lemma drain_msgs_inv : forall l s s',
  drain_msgs s l = Some s' ->
  g_drained s ++ l = g_deliv s -> g_retr s ++ top_out s = map rsp_of (g_done s) ->
  Permutation (map key (items s ++ g_done s)) (keys_of (g_drained s)) ->
  Forall (fun m => is_access m = true) (g_drained s) ->
  top_in s = [] -> Inv s'.
Proof.
  induction l as [|m r IH]; intros s s' H H1 H2 H3 H5 H4; cbn [drain_msgs] in H.
  - inversion H; subst. constructor; auto. rewrite H4. exact H1.
  - destruct (drain_one s m) as [s1|] eqn:E; [|discriminate].
    apply drain_one_spec in E. destruct E as [it E].
    destruct (drain_rel_inv _ _ _ _ r E H1 H2 H3 H5) as (A & B & C & D).
    eapply IH; eauto. destruct E. congruence.
Qed.

Lemma drain_top_inv s s' p : drain_top s = Some (s', p) -> Inv s -> Inv s'.
Proof.
  unfold drain_top. destruct (drain_msgs _ (top_in s)) as [s1|] eqn:E; [|discriminate].
  intros H [A B C D]; inversion H; subst. eapply drain_msgs_inv; eauto.
Qed.

Lemma tick_inv s s' p : tick s = Some (s', p) -> Inv s -> Inv s'.
Proof.
  unfold tick. intros H I.
  destruct (finalize_banks s) as [[s1 p1]|] eqn:E1; [|discriminate].
  destruct (tick_pipelines s1) as [s2 p2] eqn:E2.
  destruct (tick_delay_queues s2) as [[s3 p3]|] eqn:E3; [|discriminate].
  destruct (dispatch_pending s3) as [[s4 p4]|] eqn:E4; [|discriminate].
  destruct (drain_top s4) as [[s5 p5]|] eqn:E5; [|discriminate].
  inversion H; subst. eapply drain_top_inv; eauto.
  eapply sub_ok_inv; [eapply dispatch_pending_ok; eauto|].
  eapply sub_ok_inv; [eapply tick_delay_queues_ok; eauto|].
  eapply sub_ok_inv; [eapply tick_pipelines_ok; eauto|].
  eapply sub_ok_inv; [eapply finalize_banks_ok; eauto|]. exact I.
Qed.

Lemma step_inv s e : Inv s -> Inv (fst (step s e)).
Proof.
  intros I. unfold step. destruct (crashed s); [exact I|]. destruct e as [m| |].
  - destruct (can_push _ _); [|exact I]. destruct I. constructor; cbn; auto.
    rewrite app_assoc. congruence.
  - destruct (tick s) as [[s' p]|] eqn:E; cbn.
    + eapply tick_inv; eauto.
    + destruct I. constructor; cbn; auto.
  - destruct (top_out s) as [|m r] eqn:E; [exact I|]. destruct I. constructor; cbn; auto.
    rewrite <- app_assoc. cbn. congruence.
Qed.

Lemma run_inv evs : forall s, Inv s -> Inv (run s evs).
Proof. induction evs as [|e r IH]; intros s I; cbn; auto. apply IH, step_inv, I. Qed.

(** ** The data invariant of the repaired design: the storage is the flat array
    after all requests taken from the port, and every item carries the data a
    read of the flat array at its position of arrival yields. *)
Definition item_ok (c : cfg) (dr : list msg) (it : item) : Prop :=
  nth_error dr (i_seq it) = Some (i_req it) /\
  match m_kind (i_req it) with
  | KRead => commit_read c (mem_of c (firstn (i_seq it) dr)) (i_req it) = Some (i_data it)
  | KWrite => True
  | _ => False
  end.

Record InvE (s : dram) : Prop := {
  e_early : c_early (cf s) = true;
  e_stor : stor s = mem_of (cf s) (g_drained s);
  e_items : Forall (item_ok (cf s) (g_drained s)) (items s ++ g_done s)
}.

Lemma mem_of_snoc c l m : mem_of c (l ++ [m]) = apply_req c (mem_of c l) m.
Proof. unfold mem_of. now rewrite fold_left_app. Qed.

Lemma firstn_snoc_le {A} (l : list A) m k : (k <= length l)%nat -> firstn k (l ++ [m]) = firstn k l.
Proof.
  intros H. rewrite firstn_app. replace (k - length l)%nat with O by lia.
  cbn. now rewrite app_nil_r.
Qed.

Lemma item_ok_snoc c dr m it : item_ok c dr it -> item_ok c (dr ++ [m]) it.
Proof.
  intros [Hn Hd]. assert (Hlt : (i_seq it < length dr)%nat) by (apply nth_error_Some; congruence).
  split.
  - rewrite nth_error_app1; auto.
  - rewrite firstn_snoc_le by lia. exact Hd.
Qed.

Lemma init_invE c : c_early c = true -> InvE (init c).
Proof.
  intros H. constructor; cbn; auto. unfold items; cbn.
  fold (banks_items (repeat (init_bank c) (c_banks c))). rewrite init_items. constructor.
Qed.

Lemma sub_ok_invE s s' : sub_ok s s' -> InvE s -> InvE s'.
Proof.
  intros [] []. constructor.
  - congruence.
  - rewrite so_stor0, so_cf0, so_drained0; auto.
  - rewrite so_cf0, so_drained0.
    specialize (so_perm0 _ (fun it => it) (id_stable _ e_early0)). rewrite !map_id in so_perm0.
    eapply Permutation_Forall; [symmetry; exact so_perm0|exact e_items0].
Qed.

Lemma drain_rel_invE s s' m it : drain_rel s s' m it -> InvE s -> InvE s'.
Proof.
  intros [] []. specialize (dr_early0 e_early0). constructor.
  - congruence.
  - rewrite dr_cf0, dr_drained0, mem_of_snoc. unfold commit_item in dr_early0. cbn in dr_early0.
    unfold apply_req. unfold is_access in dr_acc0.
    destruct (m_kind m); try discriminate.
    + destruct (commit_read (cf s) (stor s) m); inversion dr_early0; subst. congruence.
    + rewrite <- e_stor0. destruct (commit_write (cf s) (stor s) m); inversion dr_early0; subst. congruence.
  - rewrite dr_cf0, dr_drained0. unfold items. rewrite dr_pending0, dr_banks0, dr_done0.
    assert (Hall : Forall (item_ok (cf s) (g_drained s ++ [m])) (items s ++ g_done s)).
    { eapply Forall_impl; [|exact e_items0]. intros a; apply item_ok_snoc. }
    unfold items in Hall. rewrite !Forall_app in *. destruct Hall as [[H1 H2] H3].
    repeat split; auto. constructor; [|constructor].
    unfold commit_item in dr_early0. cbn in dr_early0. unfold is_access in dr_acc0. unfold item_ok.
    destruct (m_kind m) eqn:Ek; try discriminate.
    + destruct (commit_read (cf s) (stor s) m) as [d|] eqn:Er; inversion dr_early0; subst. cbn.
      rewrite nth_error_app2, Nat.sub_diag by lia. split; [reflexivity|]. rewrite Ek.
      rewrite firstn_app, Nat.sub_diag, firstn_all. cbn. rewrite app_nil_r.
      fold (mem_of (cf s) (g_drained s)). rewrite <- e_stor0. exact Er.
    + destruct (commit_write (cf s) (stor s) m) as [d|] eqn:Er; inversion dr_early0; subst. cbn.
      rewrite nth_error_app2, Nat.sub_diag by lia. split; [reflexivity|]. now rewrite Ek.
Qed.

Lemma drain_msgs_invE : forall l s s', drain_msgs s l = Some s' -> InvE s -> InvE s'.
Proof.
  induction l as [|m r IH]; intros s s' H I; cbn [drain_msgs] in H.
  - inversion H; subst; auto.
  - destruct (drain_one s m) as [s1|] eqn:E; [|discriminate].
    apply drain_one_spec in E. destruct E as [it E]. eapply IH; eauto. eapply drain_rel_invE; eauto.
Qed.

Lemma tick_invE s s' p : tick s = Some (s', p) -> InvE s -> InvE s'.
Proof.
  unfold tick. intros H I.
  destruct (finalize_banks s) as [[s1 p1]|] eqn:E1; [|discriminate].
  destruct (tick_pipelines s1) as [s2 p2] eqn:E2.
  destruct (tick_delay_queues s2) as [[s3 p3]|] eqn:E3; [|discriminate].
  destruct (dispatch_pending s3) as [[s4 p4]|] eqn:E4; [|discriminate].
  destruct (drain_top s4) as [[s5 p5]|] eqn:E5; [|discriminate].
  inversion H; subst. unfold drain_top in E5.
  destruct (drain_msgs _ (top_in s4)) as [s6|] eqn:E6; [|discriminate]. inversion E5; subst.
  eapply drain_msgs_invE; eauto.
  assert (I4 : InvE s4).
  { eapply sub_ok_invE; [eapply dispatch_pending_ok; eauto|].
    eapply sub_ok_invE; [eapply tick_delay_queues_ok; eauto|].
    eapply sub_ok_invE; [eapply tick_pipelines_ok; eauto|].
    eapply sub_ok_invE; [eapply finalize_banks_ok; eauto|]. exact I. }
  destruct I4. constructor; cbn; auto.
Qed.

Lemma step_invE s e : InvE s -> InvE (fst (step s e)).
Proof.
  intros I. unfold step. destruct (crashed s); [exact I|]. destruct e as [m| |].
  - destruct (can_push _ _); [|exact I]. destruct I. constructor; cbn; auto.
  - destruct (tick s) as [[s' p]|] eqn:E; cbn.
    + eapply tick_invE; eauto.
    + destruct I. constructor; cbn; auto.
  - destruct (top_out s) as [|m r] eqn:E; [exact I|]. destruct I. constructor; cbn; auto.
Qed.

Lemma run_invE evs : forall s, InvE s -> InvE (run s evs).
Proof. induction evs as [|e r IH]; intros s I; cbn; auto. apply IH, step_invE, I. Qed.

Lemma step_cf s e : cf (fst (step s e)) = cf s.
Proof.
  unfold step. destruct (crashed s); auto. destruct e as [m| |].
  - destruct (can_push _ _); auto.
  - destruct (tick s) as [[s' p]|] eqn:E; cbn; auto. unfold tick in E.
    destruct (finalize_banks s) as [[s1 p1]|] eqn:E1; [|discriminate].
    destruct (tick_pipelines s1) as [s2 p2] eqn:E2.
    destruct (tick_delay_queues s2) as [[s3 p3]|] eqn:E3; [|discriminate].
    destruct (dispatch_pending s3) as [[s4 p4]|] eqn:E4; [|discriminate].
    destruct (drain_top s4) as [[s5 p5]|] eqn:E5; [|discriminate]. inversion E; subst.
    apply finalize_banks_ok in E1. apply tick_pipelines_ok in E2. apply tick_delay_queues_ok in E3.
    apply dispatch_pending_ok in E4. destruct E1, E2, E3, E4.
    unfold drain_top in E5. destruct (drain_msgs _ (top_in s4)) as [s6|] eqn:E6; [|discriminate].
    inversion E5; subst.
    assert (Hd : forall l a b, drain_msgs a l = Some b -> cf b = cf a).
    { induction l as [|m r IH]; intros a b Hab; cbn [drain_msgs] in Hab; [inversion Hab; auto|].
      destruct (drain_one a m) as [a1|] eqn:Ea; [|discriminate].
      apply drain_one_spec in Ea. destruct Ea as [it []]. rewrite (IH _ _ Hab). auto. }
    rewrite (Hd _ _ _ E6). cbn. congruence.
  - destruct (top_out s); auto.
Qed.

Lemma run_cf evs : forall s, cf (run s evs) = cf s.
Proof. induction evs as [|e r IH]; intros s; cbn; auto. fold (run (fst (step s e)) r). rewrite IH. apply step_cf. Qed.

(** ** What the invariants say about the responses *)
Lemma keys_of_nth : forall l k r, In (k, r) (keys_of l) -> nth_error l k = Some r.
Proof.
  induction l as [|m l IH] using rev_ind; intros k r H; [destruct H|].
  rewrite keys_of_snoc in H. apply in_app_or in H. destruct H as [H|[H|[]]].
  - specialize (IH _ _ H). rewrite nth_error_app1; auto. apply nth_error_Some. congruence.
  - inversion H; subst. now rewrite nth_error_app2, Nat.sub_diag by lia.
Qed.

Lemma keys_of_fst l : map fst (keys_of l) = seq 0 (length l).
Proof.
  unfold keys_of. generalize (seq 0 (length l)) (seq_length (length l) 0). intros sq.
  revert l. induction sq as [|a sq IH]; intros [|m l] H; cbn in *; try discriminate; auto.
  f_equal. apply IH. congruence.
Qed.

Lemma map_fst_key l : map fst (map key l) = map i_seq l.
Proof. rewrite map_map. reflexivity. Qed.

Lemma done_nodup s : Inv s -> NoDup (map i_seq (g_done s)).
Proof.
  intros []. apply (Permutation_map fst) in i_acct0.
  rewrite keys_of_fst, map_fst_key, map_app in i_acct0.
  eapply NoDup_app_r. eapply Permutation_NoDup; [symmetry; exact i_acct0|apply seq_NoDup].
Qed.

Lemma item_position s it : Inv s -> In it (items s ++ g_done s) ->
  nth_error (g_drained s) (i_seq it) = Some (i_req it) /\
  nth_error (g_deliv s) (i_seq it) = Some (i_req it) /\
  firstn (i_seq it) (g_deliv s) = firstn (i_seq it) (g_drained s) /\
  is_access (i_req it) = true.
Proof.
  intros [] Hin. assert (Hk : In (key it) (keys_of (g_drained s))).
  { eapply Permutation_in; [exact i_acct0|]. apply in_map; exact Hin. }
  apply keys_of_nth in Hk. cbn in Hk.
  assert (Hlt : (i_seq it < length (g_drained s))%nat) by (apply nth_error_Some; congruence).
  repeat split; auto.
  - rewrite <- i_deliv0, nth_error_app1; auto.
  - rewrite <- i_deliv0, firstn_app. replace (i_seq it - length (g_drained s))%nat with O by lia.
    cbn. now rewrite app_nil_r.
  - rewrite Forall_forall in i_acc0. apply i_acc0. eapply nth_error_In; eauto.
Qed.

Lemma rsp_of_answers it : answers (rsp_of it) (i_req it).
Proof. unfold answers, rsp_of. destruct (m_kind (i_req it)); cbn; auto. Qed.

Lemma Forall2_map_both {A B C} (R : B -> C -> Prop) (f : A -> B) (g : A -> C) l :
  Forall (fun x => R (f x) (g x)) l -> Forall2 R (map f l) (map g l).
Proof. induction 1; cbn; constructor; auto. Qed.

Lemma inv_one_rsp_each s : Inv s -> one_rsp_each s.
Proof.
  intros I. exists (map i_seq (g_done s)). split; [apply done_nodup; auto|].
  rewrite (i_out _ I). apply Forall2_map_both. apply Forall_forall. intros it Hin.
  destruct (item_position s it I) as (_ & Hn & _ & Ha); [apply in_or_app; auto|].
  exists (i_req it). repeat split; auto; apply rsp_of_answers.
Qed.

Lemma inv_linearizable s : Inv s -> InvE s -> linearizable_by_arrival s.
Proof.
  intros I E. exists (map i_seq (g_done s)). split; [apply done_nodup; auto|].
  rewrite (i_out _ I). apply Forall2_map_both. apply Forall_forall. intros it Hin.
  assert (Hin' : In it (items s ++ g_done s)) by (apply in_or_app; auto).
  destruct (item_position s it I Hin') as (_ & Hn & Hf & Ha).
  exists (i_req it). split; [auto|]. split; [apply rsp_of_answers|]. intros Hk.
  destruct E. rewrite Forall_forall in e_items0. destruct (e_items0 _ Hin') as [_ Hd].
  rewrite Hk in Hd. rewrite Hf. unfold rsp_of. rewrite Hk. cbn. exact Hd.
Qed.

(** ** The flat byte array, byte by byte *)
From Coq Require Import ZifyN ZifyNat ZifyBool.

Lemma st_read_length st a n : length (st_read st a n) = n.
Proof. unfold st_read. now rewrite map_length, seq_length. Qed.

Lemma nth_map_seq {B} (f : nat -> B) d : forall n s i, (i < n)%nat -> nth i (map f (seq s n)) d = f (s + i)%nat.
Proof.
  induction n as [|n IH]; intros s i H; [lia|]. destruct i as [|i]; cbn.
  - now rewrite Nat.add_0_r.
  - rewrite IH by lia. f_equal. lia.
Qed.

Lemma st_read_nth st a n i : (i < n)%nat -> nth i (st_read st a n) 0 = st (a + N.of_nat i).
Proof. intros H. unfold st_read. now rewrite nth_map_seq. Qed.

Lemma commit_read_spec c st r d :
  commit_read c st r = Some d ->
  exists a, saddr c r = Some a /\ oob (c_capacity c) a (m_size r) = false /\
    length d = N.to_nat (m_size r) /\
    forall i, (i < N.to_nat (m_size r))%nat -> nth i d 0 = st (a + N.of_nat i).
Proof.
  unfold commit_read. destruct (saddr c r) as [a|]; [|discriminate].
  destruct (oob (c_capacity c) a (m_size r)) eqn:Eo; [discriminate|]. intros H; inversion H; subst.
  exists a. repeat split; auto using st_read_length, st_read_nth.
Qed.

Lemma merge_masked_spec : forall data old mask new,
  merge_masked old data mask = Some new -> length old = length data ->
  length new = length data /\
  forall i, (i < length data)%nat -> nth i new 0 = if nth i mask false then nth i data 0 else nth i old 0.
Proof.
  induction data as [|d data IH]; intros old mask new H Hl.
  - destruct old; cbn in *; try discriminate. inversion H; subst. split; auto. intros; lia.
  - destruct old as [|o old]; [discriminate|]. destruct mask as [|b mask]; [discriminate|].
    cbn in H. destruct (merge_masked old data mask) as [r|] eqn:E; [|discriminate]. inversion H; subst.
    cbn in Hl. destruct (IH _ _ _ E) as [L N]; [congruence|]. split; [cbn; congruence|].
    intros [|i] Hi; cbn; [destruct b; reflexivity|]. apply N. cbn in Hi. lia.
Qed.

Lemma merge_masked_none : forall data old mask,
  length old = length data -> (length mask < length data)%nat -> merge_masked old data mask = None.
Proof.
  induction data as [|d data IH]; intros old mask Hl Hm; [cbn in *; lia|].
  destruct old as [|o old]; [discriminate|]. destruct mask as [|b mask]; [reflexivity|].
  cbn in *. rewrite IH; auto; lia.
Qed.

Lemma merge_masked_some : forall data old mask,
  length old = length data -> (length data <= length mask)%nat -> exists new, merge_masked old data mask = Some new.
Proof.
  induction data as [|d data IH]; intros old mask Hl Hm; [destruct old; cbn; eauto|].
  destruct old as [|o old]; [discriminate|]. destruct mask as [|b mask]; [cbn in Hm; lia|].
  cbn in *. destruct (IH old mask) as [r ->]; eauto; lia.
Qed.

(** one request applied to the array changes exactly the bytes it writes *)
Lemma apply_req_byte c st r x :
  apply_req c st r x = match byte_written c r x with Some v => v | None => st x end.
Proof.
  unfold apply_req, byte_written. destruct (m_kind r); try reflexivity.
  unfold commit_write. destruct (saddr c r) as [a|]; [|reflexivity].
  destruct (oob (c_capacity c) a (N.of_nat (length (m_data r)))); [reflexivity|].
  set (data := m_data r). destruct (m_mask r) as [|b mk] eqn:Em.
  - cbn [length]. rewrite andb_false_r. unfold st_write. rewrite andb_true_r.
    destruct ((a <=? x) && (x <? a + N.of_nat (length data))); reflexivity.
  - set (mask := b :: mk). replace (negb (Nat.eqb (length mask) 0)) with true by reflexivity.
    rewrite andb_true_r. destruct (Nat.ltb (length mask) (length data)) eqn:El.
    + rewrite merge_masked_none; auto using st_read_length. apply Nat.ltb_lt; auto.
    + apply Nat.ltb_ge in El.
      destruct (merge_masked_some data (st_read st a (length data)) mask) as [new En];
        auto using st_read_length.
      rewrite En. destruct (merge_masked_spec _ _ _ _ En) as [Ln Hn]; auto using st_read_length.
      unfold st_write. rewrite Ln.
      destruct ((a <=? x) && (x <? a + N.of_nat (length data))) eqn:Er; cbn [andb]; [|reflexivity].
      assert (Hi : (N.to_nat (x - a) < length data)%nat) by lia.
      rewrite Hn by exact Hi. destruct (nth (N.to_nat (x - a)) mask false); [reflexivity|].
      rewrite st_read_nth by exact Hi. f_equal. lia.
Qed.

Lemma last_write_snoc c rs r x :
  last_write c (rs ++ [r]) x =
  match byte_written c r x with Some v => Some v | None => last_write c rs x end.
Proof. unfold last_write. now rewrite fold_left_app. Qed.

Lemma mem_of_byte c rs x :
  mem_of c rs x = match last_write c rs x with Some v => v | None => 0 end.
Proof.
  induction rs as [|r rs IH] using rev_ind; [reflexivity|].
  rewrite mem_of_snoc, last_write_snoc, apply_req_byte, IH.
  destruct (byte_written c r x); reflexivity.
Qed.

Lemma byte_written_spec c r x v :
  byte_written c r x = Some v ->
  m_kind r = KWrite /\
  exists a, saddr c r = Some a /\ a <= x < a + N.of_nat (length (m_data r)) /\
    (m_mask r = [] \/ nth (N.to_nat (x - a)) (m_mask r) false = true) /\
    v = nth (N.to_nat (x - a)) (m_data r) 0.
Proof.
  unfold byte_written. destruct (m_kind r); try discriminate.
  destruct (saddr c r) as [a|]; [|discriminate].
  destruct (oob _ _ _); [discriminate|].
  destruct (_ && negb _); [discriminate|].
  destruct ((a <=? x) && (x <? a + N.of_nat (length (m_data r)))) eqn:Er; cbn [andb]; [|discriminate].
  intros H. split; auto. exists a. split; auto. split; [lia|].
  destruct (m_mask r) as [|b mk].
  - inversion H; auto.
  - destruct (nth (N.to_nat (x - a)) (b :: mk) false) eqn:En; inversion H; auto.
Qed.

(** ** The witness against the component before the repair *)
Definition wr (id a : N) (d : list N) (mk : list bool) : msg := mkMsg id KWrite 10 P_TOP 0 a 0 0 d mk 0.
Definition rd (id a n : N) : msg := mkMsg id KRead 10 P_TOP 0 a n 0 [] [] 0.
(** 1 bank, width 1, depth 2, stage latency 1, buffers 4/1, rows of 2^11 bytes, row-miss delay 5 *)
Definition cfg_witness (early : bool) : cfg := mkCfg early 1 1 2 1 4 1 6 11 5 4294967296 None None.
Definition witness : list ev :=
  [EDeliver (wr 1 256 [1;2;3;4] []); EDeliver (rd 2 256 4);
   ETick; ETick; ETick; ETick; ETick; ETick; ETick; ETick; ETick; ETick].

Lemma order_refuted_before_repair :
  exists c evs, cfg_ok c = true /\ c_early c = false /\ ~ linearizable_by_arrival (run (init c) evs).
Proof.
  exists (cfg_witness false), witness. split; [reflexivity|]. split; [reflexivity|].
  unfold linearizable_by_arrival. remember (run (init (cfg_witness false)) witness) as s eqn:Es.
  assert (E1 : g_retr s ++ top_out s =
               [mkMsg 0 KDataReady 1 10 2 0 0 0 [0;0;0;0] [] 0; mkMsg 0 KWriteDone 1 10 1 0 0 0 [] [] 0])
    by (subst s; vm_compute; reflexivity).
  assert (E2 : g_deliv s = [wr 1 256 [1;2;3;4] []; rd 2 256 4]) by (subst s; vm_compute; reflexivity).
  assert (E3 : cf s = cfg_witness false) by (subst s; apply run_cf).
  rewrite E1, E2, E3. clear. intros [ks [_ H]].
  inversion H as [|m k ms ks' Hm Hrest]; subst. destruct Hm as (r & Hn & Ha & Hd).
  destruct k as [|[|k]]; cbn in Hn.
  - inversion Hn; subst r. destruct Ha as [Hid _]. discriminate.
  - inversion Hn; subst r. specialize (Hd eq_refl). vm_compute in Hd. discriminate.
  - destruct k; discriminate.
Qed.
