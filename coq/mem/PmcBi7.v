(** Both directions at once, part 7: every environment event preserves the
    invariant; the theorems. *)
From Coq Require Import Permutation ZifyN ZifyNat ZifyBool.
From VMem Require Import Pmc PmcLemmas PmcProofs PmcBi PmcBi2 PmcBi3 PmcBi4 PmcBi5 PmcBi6.
From RecordUpdate Require Import RecordSet.
Import RecordSetNotations.
Open Scope N_scope.

Section Bi7.
Variable cf : names.
Hypothesis Hok : names_okb cf.
Notation R := (nR cf).
Notation C := (nC cf).
Notation L := (nL cf).
Notation M := (nM cf).
Notation s0 := (nS0 cf).
Notation ro := (nRO cf).
Notation INVB := (InvB cf).
Notation INVD := (InvD cf).
Notation OWN := (own cf).
Notation EXL := (EX cf).

Definition ok_evb (e : ev) : Prop :=
  match e with
  | ECtrlReq w m => wf_reqw cf w m
  | EInject _ => False
  | _ => True
  end.

Lemma ex_tail m l : EXL (m :: l) -> EXL l.
Proof. inversion 1; auto. Qed.
Lemma ex_snoc l m : EXL l -> (OWN PA m = true \/ OWN PB m = true) -> EXL (l ++ [m]).
Proof. intros. apply Forall_app; split; auto. Qed.
Lemma ex_remove l k : EXL l -> EXL (remove_nth k l).
Proof. apply Forall_remove_nth. Qed.
Lemma ex_head m l : EXL (m :: l) -> OWN PA m = true \/ OWN PB m = true.
Proof. inversion 1; auto. Qed.
Lemma ex_nth l k m : EXL l -> nth_error l k = Some m -> OWN PA m = true \/ OWN PB m = true.
Proof. intros E Hn. unfold EX in E. rewrite Forall_forall in E. apply E. eapply nth_error_In; eauto. Qed.

Ltac exh HB := destruct (b_ex _ _ HB); constructor; cbn; auto.

Lemma ev_sr X s : INVB s -> INVB (fst (step s (ESendRemote X))).
Proof.
  intros HB. rewrite step_setters by apply HB.
  destruct (rem_out (getp X s)) as [|m r] eqn:E; [exact HB|]. cbn [fst].
  assert (DA : INVD PA (setnet (net s ++ [m]) (setp X (getp X s <| rem_out := r |>) s)))
    by (destruct X; [exact (SRp cf Hok PA s m r HB E)|exact (SRs cf Hok PA s m r HB E)]).
  assert (DB : INVD PB (setnet (net s ++ [m]) (setp X (getp X s <| rem_out := r |>) s)))
    by (destruct X; [exact (SRs cf Hok PB s m r HB E)|exact (SRp cf Hok PB s m r HB E)]).
  destruct X; cbn in E; (constructor; cbn; auto; try apply HB; exh HB;
    [rewrite E in *; eapply ex_tail; eauto | apply ex_snoc; auto; rewrite E in *; eapply ex_head; eauto]).
Qed.

Lemma ev_sl X s : INVB s -> INVB (fst (step s (ESendLocal X))).
Proof.
  intros HB. rewrite step_setters by apply HB.
  destruct (loc_out (getp X s)) as [|m r] eqn:E; [exact HB|]. cbn [fst].
  assert (DA : INVD PA (setmq X (getmq X s ++ [m]) (setp X (getp X s <| loc_out := r |>) s)))
    by (destruct X; [exact (SLp cf Hok PA s m r HB E)|exact (SLs cf Hok PA s m r HB E)]).
  assert (DB : INVD PB (setmq X (getmq X s ++ [m]) (setp X (getp X s <| loc_out := r |>) s)))
    by (destruct X; [exact (SLs cf Hok PB s m r HB E)|exact (SLp cf Hok PB s m r HB E)]).
  destruct X; cbn in E; (constructor; cbn; auto; try apply HB; exh HB;
    [rewrite E in *; eapply ex_tail; eauto | apply ex_snoc; auto; rewrite E in *; eapply ex_head; eauto]).
Qed.

Lemma ev_dl X k s : INVB s -> INVB (fst (step s (EDeliverLocal X k))).
Proof.
  intros HB. rewrite step_setters by apply HB.
  destruct (nth_error (getmr X s) k) as [m|] eqn:E; [|exact HB].
  destruct (can_push (loc_in (getp X s))); [|exact HB]. cbn [fst].
  pose proof (ex_nth _ _ _ (ex_mr cf s X (b_ex _ _ HB)) E) as Hown.
  assert (DA : INVD PA (setmr X (remove_nth k (getmr X s)) (setp X (getp X s <| loc_in := loc_in (getp X s) ++ [m] |>) s)))
    by (destruct X; [exact (DLp cf Hok PA s k m HB E)|exact (DLs cf Hok PA s k m HB E)]).
  assert (DB : INVD PB (setmr X (remove_nth k (getmr X s)) (setp X (getp X s <| loc_in := loc_in (getp X s) ++ [m] |>) s)))
    by (destruct X; [exact (DLs cf Hok PB s k m HB E)|exact (DLp cf Hok PB s k m HB E)]).
  destruct X; cbn in E; (constructor; cbn; auto; try apply HB; exh HB;
    [apply ex_snoc; auto | apply ex_remove; auto]).
Qed.

Lemma ev_dr k s : INVB s -> INVB (fst (step s (EDeliverRemote k))).
Proof.
  intros HB. rewrite step_setters by apply HB.
  destruct (nth_error (net s) k) as [m|] eqn:E; [|exact HB]. cbv zeta.
  pose proof (ex_nth _ _ _ (x_net _ _ (b_ex _ _ HB)) E) as Hown.
  destruct (b_cfgA _ _ HB) as (EA & _). destruct (b_cfgB _ _ HB) as (EB & _). rewrite EA, EB.
  destruct (msg_dst m =? R PA) eqn:E1.
  - apply N.eqb_eq in E1. destruct (can_push (rem_in (getp PA s))); [|exact HB]. cbn [fst].
    pose proof (DRp cf Hok PA s k m HB E E1) as DA. pose proof (DRs cf Hok PB s k m HB E E1) as DB.
    constructor; cbn; auto; try apply HB. exh HB; [apply ex_snoc; auto|apply ex_remove; auto].
  - destruct (msg_dst m =? R PB) eqn:E2; [|exact HB].
    apply N.eqb_eq in E2. destruct (can_push (rem_in (getp PB s))); [|exact HB]. cbn [fst].
    pose proof (DRs cf Hok PA s k m HB E E2) as DA. pose proof (DRp cf Hok PB s k m HB E E2) as DB.
    constructor; cbn; auto; try apply HB. exh HB; [apply ex_snoc; auto|apply ex_remove; auto].
Qed.

Lemma ev_ms X k s : INVB s -> INVB (fst (step s (EMemServe X k))).
Proof.
  intros HB. rewrite step_setters by apply HB.
  destruct (nth_error (getmq X s) k) as [m|] eqn:E; [|exact HB].
  pose proof (MSp cf Hok X s k m HB E) as HP.
  assert (HS : match mem_serve (getst X s) m with
               | None => False
               | Some (st', rsp) => INVD (other X) (setmr X (getmr X s ++ [rsp]) (setmq X (remove_nth k (getmq X s)) (setst X st' s)))
               end).
  { pose proof (MSs cf Hok (other X) s k m HB) as H. rewrite other_other in H. apply H. exact E. }
  destruct (mem_serve (getst X s) m) as [[st' rsp]|]; [|contradiction]. cbn [fst]. destruct HP as [HP Hown].
  destruct X; cbn in *; (constructor; cbn; auto; try apply HB; exh HB; [apply ex_remove; auto|apply ex_snoc; auto]).
Qed.

Lemma ev_cr X m s : INVB s -> wf_reqw cf X m -> INVB (fst (step s (ECtrlReq X m))).
Proof.
  intros HB Hwf. rewrite step_setters by apply HB.
  destruct (can_push (ctl_in (getp X s))); [|exact HB]. cbn [fst].
  pose proof (CRp cf Hok X s m HB Hwf) as HP.
  pose proof (CRs cf (other X) s m HB) as HS. rewrite other_other in HS.
  destruct X; cbn in *; (constructor; cbn; auto; try apply HB; exh HB).
Qed.

Lemma ev_tc X s : INVB s -> INVB (fst (step s (ETakeCtrl X))).
Proof.
  intros HB. rewrite step_setters by apply HB.
  destruct (ctl_out (getp X s)) as [|m r] eqn:E; [exact HB|]. cbn [fst].
  pose proof (TCp cf X s m r HB E) as HP.
  pose proof (TCs cf (other X) s m r HB) as HS. rewrite other_other in HS.
  destruct X; cbn in *; (constructor; cbn; auto; try apply HB; exh HB).
Qed.

Definition Inv2B (s : sys) : Prop := INVB s /\ Q (pa s) /\ Q (pb s).

Lemma ev_tick X s : Inv2B s -> Inv2B (fst (step s (ETick X))).
Proof.
  intros (HB & QA & QBb). rewrite step_setters by apply HB.
  pose proof (tick_X cf Hok X s) as HT. unfold QX, QO in HT.
  destruct (tick (getp X s)) as [p pr]. cbn [fst] in *.
  destruct X; cbn in *.
  - destruct (HT (conj HB (conj QA QBb))) as (H1 & H2 & H3). split; [exact H1|split; [exact H2|exact H3]].
  - destruct (HT (conj HB (conj QBb QA))) as (H1 & H2 & H3). split; [exact H1|split; [exact H3|exact H2]].
Qed.

Lemma stepB_Q s e : (forall w, e <> ETick w) -> crashed (pa s) = false -> crashed (pb s) = false ->
  Q (pa s) -> Q (pb s) -> Q (pa (fst (step s e))) /\ Q (pb (fst (step s e))).
Proof.
  intros Hne C1 C2 QA QBb. rewrite step_setters by auto. unfold Q, notP1 in *.
  destruct e as [w|w|k|w|w k|w k|w m|w|m]; [exfalso; eapply Hne; eauto|..];
    try destruct w; cbv zeta; cbn;
    repeat match goal with |- context [match ?x with _ => _ end] => destruct x end; cbn; tauto.
Qed.

Lemma stepB_inv s e : ok_evb e -> Inv2B s -> Inv2B (fst (step s e)).
Proof.
  intros Hokev (HB & QA & QBb).
  destruct e as [w|w|k|w|w k|w k|w m|w|m].
  - apply ev_tick. split; [exact HB|split; assumption].
  - split; [apply ev_sr; auto|apply stepB_Q; auto; try apply HB; discriminate].
  - split; [apply ev_dr; auto|apply stepB_Q; auto; try apply HB; discriminate].
  - split; [apply ev_sl; auto|apply stepB_Q; auto; try apply HB; discriminate].
  - split; [apply ev_ms; auto|apply stepB_Q; auto; try apply HB; discriminate].
  - split; [apply ev_dl; auto|apply stepB_Q; auto; try apply HB; discriminate].
  - split; [apply ev_cr; auto|apply stepB_Q; auto; try apply HB; discriminate].
  - split; [apply ev_tc; auto|apply stepB_Q; auto; try apply HB; discriminate].
  - destruct Hokev.
Qed.

Lemma runB_inv evs : forall s, Forall ok_evb evs -> Inv2B s -> Inv2B (run s evs).
Proof.
  induction evs as [|e evs IH]; intros s Hf H; [exact H|].
  inversion Hf; subst. cbn. apply IH; auto. apply stepB_inv; auto.
Qed.

Lemma init2B : Inv2B (sb_init cf).
Proof.
  split; [apply initB|]. split; (split; [reflexivity|intros _; reflexivity]).
Qed.

(** ** What the invariant says, per direction *)
Lemma store_of_invD w s : INVD w s ->
  match cur_mig (getp w s) with
  | None => forall a, getst w s a = basew cf w s a
  | Some r => forall a, getst w s a = basew cf w s a \/
                        (mg_wr r <= a < mg_wr r + mg_size r /\ getst w s a = s0 (other w) (mg_rd r + (a - mg_wr r)))
  end.
Proof.
  intros H. pose proof (d_phase _ _ _ H) as Hp. unfold PhaseW, Pc in Hp.
  destruct (cur_mig (getp w s)) as [r|] eqn:Ecm.
  - destruct (cur_wf cf w s r H Ecm) as (_ & Hm & _).
    assert (Esz : mg_size r = 64 * nch r) by (unfold nch; pose proof (N.div_mod (mg_size r) 64); lia).
    destruct (handling (getp w s)), (to_ctrl (getp w s)); try tauto.
    + destruct Hp as (b & HT). intros a. destruct (tf_st _ _ _ _ _ _ _ _ _ _ _ _ _ _ _ _ HT a) as [E|[E1 E2]]; auto.
      right. split; [lia|auto].
    + destruct Hp as (_ & _ & _ & _ & Hst). intros a. left. auto.
  - destruct (handling (getp w s)), (to_ctrl (getp w s)); try tauto; apply Hp.
Qed.

Theorem bidirectional evs : Forall ok_evb evs ->
  let s := run (sb_init cf) evs in
  crashed (pa s) = false /\ crashed (pb s) = false /\
  forall w,
    (forall a, ro (other w) a -> getst (other w) s a = s0 (other w) a) /\
    match cur_mig (getp w s) with
    | None => forall a, getst w s a = fold_left (copy_req (s0 (other w))) (completedw w s) (s0 w) a
    | Some r => forall a, getst w s a = fold_left (copy_req (s0 (other w))) (completedw w s) (s0 w) a \/
                          (mg_wr r <= a < mg_wr r + mg_size r /\ getst w s a = s0 (other w) (mg_rd r + (a - mg_wr r)))
    end /\
    gdone w s ++ ctl_out (getp w s) ++ map MMigRsp (olist (to_ctrl (getp w s))) =
      map (fun r => MMigRsp (mkMigRsp (C w) (mg_src r))) (completedw w s) /\
    (ndonew w s <= length (gacc w s))%nat /\
    exists waiting, ctl_in (getp w s) = map MMigReq waiting /\
                    gacc w s = completedw w s ++ olist (cur_mig (getp w s)) ++ waiting.
Proof.
  intros Hev s. destruct (runB_inv evs _ Hev init2B) as (HB & _). fold s in HB.
  split; [apply HB|]. split; [apply HB|]. intros w. pose proof (dir cf s w HB) as Hd.
  split; [apply (d_ro _ _ _ Hd)|]. split; [apply (store_of_invD w s Hd)|].
  split; [apply (d_rsp _ _ _ Hd)|]. split; [apply (d_nd _ _ _ Hd)|].
  destruct (d_queue _ _ _ Hd) as (wt & E1 & E2). exists wt. split; [exact E1|].
  unfold Pc in E2. rewrite <- E2. unfold completedw. symmetry. apply firstn_skipn.
Qed.

End Bi7.
