(** Facts about the pieces of the controller model (send loops, pull-request
    generation, the ID map, byte stores) and a small permutation solver. *)
From Coq Require Import Permutation.
From VMem Require Import Pmc.
From RecordUpdate Require Import RecordSet.
Import RecordSetNotations.
Open Scope N_scope.

Lemma id_eqb_eq a b : id_eqb a b = true <-> a = b.
Proof.
  destruct a, b; unfold id_eqb; cbn. rewrite andb_true_iff, !N.eqb_eq.
  split; [intros [-> ->]; auto|inversion 1; auto].
Qed.
Lemma id_eqb_refl a : id_eqb a a = true.
Proof. apply id_eqb_eq; auto. Qed.
Lemma id_eqb_neq a b : id_eqb a b = false <-> a <> b.
Proof.
  split; intros H.
  - intros ->. rewrite id_eqb_refl in H. discriminate.
  - destruct (id_eqb a b) eqn:E; auto. apply id_eqb_eq in E. contradiction.
Qed.

Lemma pmsg_eq_dec : forall a b : pmsg, {a = b} + {a <> b}.
Proof.
  assert (HN : forall a b : N, {a = b} + {a <> b}) by apply N.eq_dec.
  assert (HL : forall a b : list N, {a = b} + {a <> b}) by (apply list_eq_dec, N.eq_dec).
  assert (HI : forall a b : id, {a = b} + {a <> b}) by (intros; decide equality).
  intros a b. decide equality; decide equality.
Qed.

(** * Permutations of concatenations, decided by counting *)
Lemma perm_count (l1 l2 : list pmsg) :
  (forall x, count_occ pmsg_eq_dec l1 x = count_occ pmsg_eq_dec l2 x) -> Permutation l1 l2.
Proof. apply Permutation_count_occ. Qed.
Lemma perm_count_inv (l1 l2 : list pmsg) x :
  Permutation l1 l2 -> count_occ pmsg_eq_dec l1 x = count_occ pmsg_eq_dec l2 x.
Proof. intros H. apply Permutation_count_occ. exact H. Qed.
Lemma count_cons (a : pmsg) l x :
  count_occ pmsg_eq_dec (a :: l) x = (count_occ pmsg_eq_dec [a] x + count_occ pmsg_eq_dec l x)%nat.
Proof. cbn. destruct (pmsg_eq_dec a x); lia. Qed.
Lemma count_nil (x : pmsg) : count_occ pmsg_eq_dec [] x = 0%nat.
Proof. reflexivity. Qed.

Ltac count_norm :=
  repeat rewrite ?map_app, ?count_occ_app, ?count_nil in *;
  repeat match goal with
         | |- context [count_occ pmsg_eq_dec (?a :: ?l) ?x] =>
           lazymatch l with [] => fail | _ => rewrite (count_cons a l x) end
         | H : context [count_occ pmsg_eq_dec (?a :: ?l) ?x] |- _ =>
           lazymatch l with [] => fail | _ => rewrite (count_cons a l x) in H end
         end;
  repeat rewrite ?map_app, ?count_occ_app, ?count_nil in *.

(** proves [Permutation L R] where both sides are built from [++], [::] and
    [map] over the same atoms, using [Permutation] hypotheses *)
Ltac perm :=
  apply perm_count; let x := fresh "x" in intro x;
  repeat match goal with
         | H : Permutation _ _ |- _ => apply (fun h => perm_count_inv _ _ x h) in H
         end;
  cbn [map app] in *; count_norm; cbn [map] in *; lia.

Lemma Permutation_map_inj {T} (inj : T -> pmsg) l l' :
  Permutation l l' -> Permutation (map inj l) (map inj l').
Proof. apply Permutation_map. Qed.

(** * The send loops *)
Lemma send_all_spec {T} (inj : T -> pmsg) (l : list T) : forall out,
  Forall (fun x => send_valid (inj x) = true) l ->
  exists mv kept p,
    Permutation (map inj l) (map inj mv ++ map inj kept) /\
    length l = (length mv + length kept)%nat /\
    send_all inj out l = (out ++ map inj mv, kept, p, false).
Proof.
  induction l as [|x l IH]; intros out Hv.
  - exists [], [], false. cbn. rewrite app_nil_r. auto.
  - inversion Hv as [|? ? Hx Hl]; subst. cbn [send_all]. rewrite Hx. cbn [negb].
    destruct (can_push out).
    + destruct (IH (out ++ [inj x]) Hl) as (mv & kept & p & Hp & Hlen & E). rewrite E.
      exists (x :: mv), kept, true. split; [cbn; auto|]. split; [cbn; lia|].
      cbn. rewrite <- app_assoc. reflexivity.
    + destruct (IH out Hl) as (mv & kept & p & Hp & Hlen & E). rewrite E.
      exists mv, (x :: kept), p. split; [|split; [cbn; lia|reflexivity]].
      cbn [map]. etransitivity; [apply perm_skip, Hp|]. apply Permutation_middle.
Qed.

Lemma valid_neq d s : d <> 0 -> d <> s -> negb (d =? 0) && negb (d =? s) = true.
Proof.
  intros H1 H2. apply N.eqb_neq in H1, H2. rewrite H1, H2. reflexivity.
Qed.

(** * Generating the pull requests *)
Lemma gen_pulls_spec n own dest sz : forall nid rd wr,
  gen_pulls n own dest sz nid rd wr =
  (map (fun i => mkPullReq (own, nid + N.of_nat i) own dest (rd + sz * N.of_nat i) sz) (seq 0 n),
   map (fun i => ((own, nid + N.of_nat i), wr + sz * N.of_nat i)) (seq 0 n)).
Proof.
  induction n as [|n IH]; intros nid rd wr; [reflexivity|].
  cbn [gen_pulls]. rewrite IH. cbn [seq map]. rewrite <- !seq_shift, !map_map.
  rewrite N.mul_0_r, !N.add_0_r. f_equal; f_equal.
  - apply map_ext. intros i. f_equal; [f_equal|]; lia.
  - apply map_ext. intros i. f_equal; [f_equal|]; lia.
Qed.

(** * The ID map *)
Lemma delete_cons k k2 v m :
  delete k ((k2, v) :: m) = if id_eqb k k2 then delete k m else (k2, v) :: delete k m.
Proof. unfold delete. cbn. destruct (id_eqb k k2); reflexivity. Qed.

Lemma lookup_delete_other k k' m : k <> k' -> lookup k (delete k' m) = lookup k m.
Proof.
  intros Hn. induction m as [|[k2 v] m IH]; [reflexivity|]. rewrite delete_cons.
  destruct (id_eqb k' k2) eqn:E.
  - apply id_eqb_eq in E. subst k2. rewrite IH. cbn.
    destruct (id_eqb k k') eqn:E2; auto. apply id_eqb_eq in E2. contradiction.
  - cbn. destruct (id_eqb k k2); auto.
Qed.
Lemma lookup_delete_same k m : lookup k (delete k m) = None.
Proof.
  induction m as [|[k2 v] m IH]; [reflexivity|]. rewrite delete_cons.
  destruct (id_eqb k k2) eqn:E; auto. cbn. rewrite E. auto.
Qed.
Lemma lookup_delete_some k k' m a : lookup k (delete k' m) = Some a -> lookup k m = Some a /\ k <> k'.
Proof.
  intros H. assert (k <> k') by (intros ->; rewrite lookup_delete_same in H; discriminate).
  rewrite lookup_delete_other in H; auto.
Qed.

Lemma lookup_app k m1 m2 :
  lookup k (m1 ++ m2) = match lookup k m1 with Some a => Some a | None => lookup k m2 end.
Proof.
  induction m1 as [|[k2 v] m1 IH]; [reflexivity|]. cbn. destruct (id_eqb k k2); auto.
Qed.

Lemma lookup_In k m a : lookup k m = Some a -> In (k, a) m.
Proof.
  induction m as [|[k2 v] m IH]; cbn; [discriminate|].
  destruct (id_eqb k k2) eqn:E.
  - apply id_eqb_eq in E. subst. inversion 1; auto.
  - auto.
Qed.
Lemma In_lookup k m a : In (k, a) m -> lookup k m <> None.
Proof.
  induction m as [|[k2 v] m IH]; cbn; [tauto|]. intros [H|H].
  - inversion H; subst. rewrite id_eqb_refl. discriminate.
  - destruct (id_eqb k k2); [discriminate|auto].
Qed.
Lemma lookup_NoDup k m a : NoDup (map fst m) -> In (k, a) m -> lookup k m = Some a.
Proof.
  induction m as [|[k2 v] m IH]; cbn; [tauto|]. intros Hn [H|H].
  - inversion H; subst. rewrite id_eqb_refl. auto.
  - inversion Hn; subst. destruct (id_eqb k k2) eqn:E; auto.
    apply id_eqb_eq in E. subst k2. exfalso. apply H2. apply (in_map fst) in H. exact H.
Qed.

(** * Byte stores *)
Lemma read_length st a n : length (read st a n) = N.to_nat n.
Proof. unfold read. now rewrite map_length, seq_length. Qed.
Lemma read_nth st a n j : j < n -> nth (N.to_nat j) (read st a n) 0 = st (a + j).
Proof.
  intros H. unfold read.
  rewrite (nth_indep _ 0 (st (a + N.of_nat 0))) by (rewrite map_length, seq_length; lia).
  rewrite (map_nth (fun j => st (a + N.of_nat j))). rewrite seq_nth by lia. f_equal. lia.
Qed.
Lemma write_in st a d x : a <= x -> x < a + N.of_nat (length d) ->
  write st a d x = nth (N.to_nat (x - a)) d 0.
Proof.
  intros H1 H2. unfold write.
  destruct (a <=? x) eqn:E1; [|apply N.leb_gt in E1; lia].
  destruct (x <? a + N.of_nat (length d)) eqn:E2; [|apply N.ltb_ge in E2; lia]. reflexivity.
Qed.
Lemma write_out st a d x : x < a \/ a + N.of_nat (length d) <= x -> write st a d x = st x.
Proof.
  intros H. unfold write.
  destruct (a <=? x) eqn:E1; cbn; auto.
  destruct (x <? a + N.of_nat (length d)) eqn:E2; cbn; auto.
  apply N.leb_le in E1. apply N.ltb_lt in E2. lia.
Qed.
(** writing a chunk read from another store *)
Lemma write_read_in st st2 a b n x : a <= x -> x < a + n ->
  write st a (read st2 b n) x = st2 (b + (x - a)).
Proof.
  intros H1 H2. rewrite write_in; rewrite ?read_length; try lia.
  apply read_nth. lia.
Qed.
Lemma write_read_out st st2 a b n x : x < a \/ a + n <= x ->
  write st a (read st2 b n) x = st x.
Proof. intros H. apply write_out. rewrite read_length. lia. Qed.

(** precise behaviour of a send loop on a capacity-1 buffer: nothing moves when
    it is occupied, something moves when it is free and the list is not empty *)
Lemma send_all_full {T} (inj : T -> pmsg) out (l : list T) :
  can_push out = false -> Forall (fun x => send_valid (inj x) = true) l ->
  send_all inj out l = (out, l, false, false).
Proof.
  intros Hc. induction l as [|x l IH]; intros Hv; [reflexivity|].
  inversion Hv; subst. cbn [send_all]. rewrite H1, Hc. cbn [negb]. rewrite IH; auto.
Qed.

Lemma send_all_some {T} (inj : T -> pmsg) out (l : list T) :
  can_push out = true -> l <> [] -> Forall (fun x => send_valid (inj x) = true) l ->
  exists mv kept p,
    Permutation (map inj l) (map inj mv ++ map inj kept) /\
    length l = (length mv + length kept)%nat /\ mv <> [] /\
    send_all inj out l = (out ++ map inj mv, kept, p, false).
Proof.
  intros Hc Hne Hv. destruct l as [|x l]; [congruence|].
  inversion Hv; subst. cbn [send_all]. rewrite H1, Hc. cbn [negb].
  destruct (send_all_spec inj l (out ++ [inj x]) H2) as (mv & kept & p & Hp & Hlen & E). rewrite E.
  exists (x :: mv), kept, true. split; [cbn; auto|]. split; [cbn; lia|]. split; [discriminate|].
  cbn. rewrite <- app_assoc. reflexivity.
Qed.

Lemma can_push_nil b : can_push b = true <-> b = [].
Proof. unfold can_push, PCAP. destruct b; cbn; split; auto; discriminate. Qed.
