(** Facts about the akita pipeline model: a pipeline never loses, duplicates or
    invents an element — Tick and Accept only move elements between the stages
    and the post-pipeline buffer. *)
From Coq Require Import List Arith Bool Permutation Lia.
Import ListNotations.
From VMem Require Import Pipeline.

Section PipelineProofs.
Context {A : Type}.
Implicit Types (l : list (slot A)) (buf : list A).

Lemma tick_lane_perm cps cap l buf l' buf' p :
  tick_lane cps cap l buf = (l', buf', p) ->
  Permutation (lane_items l ++ buf) (lane_items l' ++ buf').
Proof.
  revert l' buf' p. induction l as [|s rest IH]; intros l' buf' p H; simpl in H.
  - inversion H; subst. reflexivity.
  - destruct (tick_lane cps cap rest buf) as [[rest1 buf1] p1] eqn:E.
    specialize (IH _ _ _ eq_refl).
    destruct s as [[e [|c]]|].
    + destruct rest1 as [|[x|] r''].
      * destruct (buf_can_push cap buf1); inversion H; subst; cbn in *.
        -- rewrite IH. apply Permutation_cons_append.
        -- now apply perm_skip.
      * inversion H; subst. cbn in *. now apply perm_skip.
      * inversion H; subst. cbn in *. now apply perm_skip.
    + inversion H; subst. cbn. now apply perm_skip.
    + inversion H; subst. cbn. exact IH.
Qed.

Lemma tick_lanes_perm cps cap (ls : list (list (slot A))) buf ls' buf' p :
  tick_lanes cps cap ls buf = (ls', buf', p) ->
  Permutation (flat_map lane_items ls ++ buf) (flat_map lane_items ls' ++ buf').
Proof.
  revert buf ls' buf' p. induction ls as [|l r IH]; intros buf ls' buf' p H; simpl in H.
  - inversion H; subst. reflexivity.
  - destruct (tick_lane cps cap l buf) as [[l1 buf1] p1] eqn:E1.
    destruct (tick_lanes cps cap r buf1) as [[r1 buf2] p2] eqn:E2.
    inversion H; subst. apply tick_lane_perm in E1. apply IH in E2.
    cbn. rewrite <- !app_assoc.
    rewrite Permutation_app_swap_app, E1, Permutation_app_swap_app.
    now apply Permutation_app_head.
Qed.

Lemma pipe_tick_perm cap (p : pipe A) buf p' buf' pr :
  pipe_tick cap p buf = (p', buf', pr) ->
  Permutation (pipe_items p ++ buf) (pipe_items p' ++ buf').
Proof.
  unfold pipe_tick, pipe_items. intros H.
  destruct (tick_lanes (p_cps p) cap (p_lanes p) buf) as [[ls b] q] eqn:E.
  inversion H; subst. cbn. eapply tick_lanes_perm; eauto.
Qed.

Lemma accept_lanes_perm cps (ls ls' : list (list (slot A))) e :
  accept_lanes cps ls e = Some ls' ->
  Permutation (flat_map lane_items ls') (e :: flat_map lane_items ls).
Proof.
  revert ls'. induction ls as [|l r IH]; intros ls' H; simpl in H; [discriminate|].
  assert (Hrec : match accept_lanes cps r e with Some r' => Some (l :: r') | None => None end = Some ls' ->
                 Permutation (flat_map lane_items ls') (e :: flat_map lane_items (l :: r))).
  { destruct (accept_lanes cps r e) as [r'|]; [|discriminate]. intros H'. inversion H'; subst.
    cbn. rewrite (IH _ eq_refl). symmetry. apply Permutation_middle. }
  destruct l as [|[x|] st]; auto.
  inversion H; subst. cbn. reflexivity.
Qed.

Lemma pipe_accept_perm cap (p : pipe A) buf e p' buf' :
  pipe_accept cap p buf e = Some (p', buf') ->
  Permutation (pipe_items p' ++ buf') (e :: pipe_items p ++ buf).
Proof.
  unfold pipe_accept, pipe_items. intros H. destruct (p_nstage p).
  - destruct (buf_can_push cap buf); inversion H; subst.
    rewrite app_assoc. symmetry. apply Permutation_cons_append.
  - destruct (accept_lanes (p_cps p) (p_lanes p) e) as [ls|] eqn:E; inversion H; subst. cbn.
    apply accept_lanes_perm in E. rewrite E. reflexivity.
Qed.

(** CanAccept is exactly the condition under which Accept does not panic. *)
Lemma accept_lanes_some cps (ls : list (list (slot A))) e :
  existsb lane_free ls = true -> exists ls', accept_lanes cps ls e = Some ls'.
Proof.
  induction ls as [|l r IH]; simpl; [discriminate|]. intros H.
  destruct l as [|[x|] st]; simpl in H; eauto;
    destruct (IH H) as [r' ->]; eauto.
Qed.

Lemma pipe_accept_some cap (p : pipe A) buf e :
  pipe_can_accept cap p buf = true -> exists p' buf', pipe_accept cap p buf e = Some (p', buf').
Proof.
  unfold pipe_can_accept, pipe_accept. destruct (p_nstage p); intros H.
  - rewrite H. eauto.
  - destruct (accept_lanes_some (p_cps p) _ e H) as [ls ->]. eauto.
Qed.

End PipelineProofs.
