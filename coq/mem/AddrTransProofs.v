(** Invariant of the address-translator model and the lemmas behind props/C16.v. *)
From Coq Require Import Arith Permutation.
From VLib Require Import Akita ListX.
From VMem Require Import AddrTrans.
From RecordUpdate Require Import RecordSet.
Import RecordSetNotations.
Open Scope N_scope.

Definition accepted (l : list (msg * bool)) : list msg := map fst (filter snd l).
Definition pair_f (f : fwd) : msg * msg := (f_top f, f_bot f).
Definition pair_a (a : ans) : msg * msg := (a_top a, a_bot a).
Definition bid_f (f : fwd) : N := m_id (f_bot f).
Definition rsp_of (t : tx) : list trsp := match t_rsp t with Some r => [r] | None => [] end.

Arguments accepted : simpl never.
Arguments waiting : simpl never.
Arguments xlate : simpl never.
Arguments answer : simpl never.
Arguments page_of : simpl never.
Arguments room : simpl never.
Arguments N.add : simpl never.
Arguments N.ltb : simpl never.
Arguments N.eqb : simpl never.

(** a request [r] belongs to the lookup [q] *)
Definition req_ok (k : N) (q : treq) (r : msg) : Prop :=
  is_req r = true /\ page_of k (m_addr r) = q_vaddr q /\ m_pid r = q_pid q.

Definition tx_ok (k : N) (t : tx) : Prop :=
  t_reqs t <> [] /\ Forall (req_ok k (t_q t)) (t_reqs t) /\
  (forall rsp, t_rsp t = Some rsp -> r_rspto rsp = q_id (t_q t)).

Definition fwd_ok (c : config) (f : fwd) : Prop :=
  req_ok (log2ps c) (f_q f) (f_top f) /\ r_rspto (f_rsp f) = q_id (f_q f) /\
  f_bot f = xlate c (m_id (f_bot f)) (r_paddr (f_rsp f)) (f_top f).

Definition ans_ok (a : ans) : Prop :=
  a_out a = answer (a_top a) (a_brsp a) /\ m_rspto (a_brsp a) = m_id (a_bot a) /\
  is_rsp (a_brsp a) = true.

Record Inv (s : st) : Prop := {
  i_deliv : map fst (g_seen s) ++ top_in s = g_deliv s;
  i_acct  : Permutation (accepted (g_seen s))
                        (map f_top (g_fwd s) ++ g_disc s ++ waiting (txs s));
  i_txs   : Forall (tx_ok (log2ps (cfg s))) (txs s);
  i_txq   : incl (map t_q (txs s)) (g_treq s);
  i_txr   : incl (flat_map rsp_of (txs s)) (g_trdel s);
  i_trin  : incl (tr_in s) (g_trdel s);
  i_fwd   : Forall (fwd_ok (cfg s)) (g_fwd s);
  i_fwq   : incl (map f_q (g_fwd s)) (g_treq s);
  i_fwr   : incl (map f_rsp (g_fwd s)) (g_trdel s);
  i_tid   : Forall (fun q => q_id q < next_tid s) (g_treq s);
  i_tidnd : NoDup (map q_id (g_treq s));
  i_bid   : Forall (fun f => bid_f f < next_bid s) (g_fwd s);
  i_bidnd : NoDup (map bid_f (g_fwd s));
  i_pairs : Permutation (map pair_f (g_fwd s))
                        (map pair_a (g_ans s) ++ g_idisc s ++ inflight s);
  i_ans   : Forall ans_ok (g_ans s);
  i_tretr : g_tretr s ++ top_out s = map a_out (g_ans s);
  i_bretr : g_bretr s ++ bot_out s = map f_bot (g_fwd s);
  i_qretr : g_qretr s ++ tr_out s = g_treq s;
  i_flush : flushing s = true -> txs s = [] /\ inflight s = [];
  i_pt    : (length (top_out s) <= width (cfg s))%nat;
  i_pb    : (length (bot_out s) <= width (cfg s))%nat;
  i_px    : (length (tr_out s) <= width (cfg s))%nat;
  i_pc    : (length (ctl_out s) <= 1)%nat
}.

Ltac inv_split H :=
  destruct H as [Hdeliv Hacct Htxs Htxq Htxr Htrin Hfwd Hfwq Hfwr Htid Htidnd Hbid Hbidnd
                 Hpairs Hans Htretr Hbretr Hqretr Hflush Hpt Hpb Hpx Hpc].

Lemma init_inv c : Inv (init c).
Proof.
  constructor; cbn; auto using NoDup_nil, incl_nil_l; try lia.
  - constructor.
  - constructor.
Qed.

(** ** list helpers *)
Lemma accepted_app l1 l2 : accepted (l1 ++ l2) = accepted l1 ++ accepted l2.
Proof. unfold accepted. now rewrite filter_app, map_app. Qed.

Lemma accepted_dropped (l : list msg) : accepted (map (fun m => (m, false)) l) = [].
Proof. induction l; auto. Qed.

Lemma map_fst_tag {A} (b : bool) (l : list A) : map fst (map (fun t => (t, b)) l) = l.
Proof. induction l; simpl; congruence. Qed.

Lemma waiting_app l1 l2 : waiting (l1 ++ l2) = waiting l1 ++ waiting l2.
Proof. unfold waiting. apply flat_map_app. Qed.

Lemma waiting_cons t l : waiting (t :: l) = t_reqs t ++ waiting l.
Proof. reflexivity. Qed.

Lemma waiting_nil : waiting [] = [].
Proof. reflexivity. Qed.

Lemma split_first_spec {A} (p : A -> bool) l a y b :
  split_first p l = Some (a, y, b) ->
  l = a ++ y :: b /\ p y = true /\ Forall (fun x => p x = false) a.
Proof.
  revert a y b; induction l as [|x l IH]; cbn; intros a y b E; [discriminate|].
  destruct (p x) eqn:Ex.
  - inversion E; subst. repeat split; auto.
  - destruct (split_first p l) as [[[a' y'] b']|]; [|discriminate].
    inversion E; subst. destruct (IH _ _ _ eq_refl) as (-> & Hy & Ha).
    repeat split; auto.
Qed.

Lemma split_first_none {A} (p : A -> bool) l :
  split_first p l = None -> Forall (fun x => p x = false) l.
Proof.
  induction l as [|x l IH]; cbn; intros E; [constructor|].
  destruct (p x) eqn:Ex; [discriminate|].
  destruct (split_first p l) as [[[a' y'] b']|]; [discriminate|]. constructor; auto.
Qed.

Lemma NoDup_snoc_fresh {A} (g : A -> N) (l : list A) (y : A) (n : N) :
  Forall (fun x => g x < n) l -> NoDup (map g l) -> g y = n -> NoDup (map g (l ++ [y])).
Proof.
  intros Hf Hn Hy. rewrite map_app; cbn. apply NoDup_app_intro; auto.
  - constructor; auto using NoDup_nil.
  - intros x Hin [<-|[]]. apply in_map_iff in Hin as (z & Hz & Hin).
    rewrite Forall_forall in Hf. apply Hf in Hin. lia.
Qed.

Lemma Forall_snoc_fresh {A} (g : A -> N) (l : list A) (y : A) (n : N) :
  Forall (fun x => g x < n) l -> g y = n -> Forall (fun x => g x < n + 1) (l ++ [y]).
Proof.
  intros Hf Hy. apply Forall_app; split.
  - eapply Forall_impl; [|exact Hf]. cbn; intros; lia.
  - constructor; auto. lia.
Qed.

Lemma incl_snoc {A} (l m : list A) x : incl l m -> incl (l ++ [x]) (m ++ [x]).
Proof. intros H. apply incl_app; [apply incl_appl; auto|apply incl_appr, incl_refl]. Qed.

Lemma page_of_idem k a : page_of k (page_of k a) = page_of k a.
Proof.
  unfold page_of. f_equal. rewrite N.shiftr_shiftl_l by lia.
  now rewrite N.sub_diag, N.shiftl_0_r.
Qed.

Lemma xlate_id c id p r : m_id (xlate c id p r) = id.
Proof. unfold xlate. destruct (m_kind r); reflexivity. Qed.

(** moving one element to the front on both sides of a permutation goal *)
Ltac pfront x :=
  repeat first [ rewrite <- (Permutation_middle _ _ x) | progress cbn [app] ].

Lemma perm_snoc {A} (x : A) l m : Permutation l m -> Permutation (l ++ [x]) (m ++ [x]).
Proof. intros H. now apply Permutation_app_tail. Qed.

(** ** translate *)
Lemma co_match_ok k req t :
  tx_ok k t -> is_req req = true -> co_match k req t = true -> req_ok k (t_q t) req.
Proof.
  intros (Hne & Hall & _) Hreq Hm. unfold co_match in Hm.
  apply andb_prop in Hm as [Hm Hpid]. apply andb_prop in Hm as [_ Hpage].
  apply N.eqb_eq in Hpage.
  destruct (t_reqs t) as [|r0 rs]; [congruence|].
  inversion Hall as [|? ? (H0 & Hp0 & Hpid0) _]; subst.
  apply N.eqb_eq in Hpid. repeat split; auto.
  - rewrite <- Hp0 in Hpage |- *. now rewrite page_of_idem in Hpage.
  - congruence.
Qed.

Lemma translate_inv s : Inv s -> flushing s = false -> Inv (fst (translate s)).
Proof.
  intros H Hnf; unfold translate.
  destruct (top_in s) as [|req rest] eqn:Etop; [exact H|].
  destruct (is_req req) eqn:Ereq; cbn [negb].
  2:{ inv_split H; constructor; cbn; auto. }
  destruct (split_first _ (txs s)) as [[[a t] b]|] eqn:Esp.
  - apply split_first_spec in Esp as (Etx & Hm & _).
    destruct (t_reqs t) as [|r0 rs] eqn:Er.
    { inv_split H; constructor; cbn; auto. }
    rewrite <- Er.
    inv_split H. rewrite Etx in *.
    apply Forall_app in Htxs as [Htxa Htxb]. inversion Htxb as [|? ? Ht Htxb']; subst.
    constructor; cbn; auto; try (intros; congruence).
    + rewrite map_app, <- app_assoc. cbn. now rewrite <- Hdeliv, Etop.
    + rewrite accepted_app. change (accepted [(req, true)]) with [req].
      rewrite waiting_app, waiting_cons in *. cbn [t_reqs].
      pfront req. apply perm_skip. now rewrite app_nil_r.
    + apply Forall_app; split; auto. constructor; auto.
      destruct Ht as (Hne & Hall & Hr). repeat split; cbn; auto.
      * rewrite Er; intros E; destruct rs; discriminate.
      * apply Forall_app; split; auto. constructor; auto.
        apply co_match_ok; auto. repeat split; auto.
    + rewrite map_app in *. exact Htxq.
    + rewrite flat_map_app in *. exact Htxr.
  - destruct (room _ (tr_out s)) eqn:Eroom; [|exact H].
    unfold room in Eroom. apply Nat.ltb_lt in Eroom.
    inv_split H. constructor; cbn; auto; try (intros; congruence).
    + rewrite map_app, <- app_assoc. cbn. now rewrite <- Hdeliv, Etop.
    + rewrite accepted_app. change (accepted [(req, true)]) with [req].
      rewrite waiting_app. change (waiting [_]) with [req].
      rewrite !app_assoc. apply perm_snoc. now rewrite <- !app_assoc.
    + apply Forall_app; split; auto. constructor; auto.
      repeat split; cbn; auto; try discriminate.
      constructor; auto. repeat split; auto.
    + rewrite map_app. cbn. now apply incl_snoc.
    + rewrite flat_map_app. cbn. now rewrite app_nil_r.
    + now apply incl_appl.
    + now apply Forall_snoc_fresh.
    + eapply NoDup_snoc_fresh; eauto.
    + now rewrite app_assoc, Hqretr.
    + rewrite app_length; cbn; lia.
Qed.
