(** Invariant of the address-translator model and the lemmas behind props/C16.v. *)
From Coq Require Import Arith Permutation.
From VLib Require Import Akita ListX.
From VMem Require Import AddrTrans.
From RecordUpdate Require Import RecordSet.
Import RecordSetNotations.
Open Scope N_scope.

Definition accepted (l : list (msg * bool)) : list msg := map fst (filter snd l).
Definition pair_f (f : fwd) : msg * msg := (f_top f, f_bot f).
Definition pair_a (a : ans) : msg * msg := (a_top a, a_bot a).
Definition bid_f (f : fwd) : N := m_id (f_bot f).
Definition rsp_of (t : tx) : list trsp := match t_rsp t with Some r => [r] | None => [] end.

Arguments accepted : simpl never.
Arguments waiting : simpl never.
Arguments xlate : simpl never.
Arguments answer : simpl never.
Arguments page_of : simpl never.
Arguments room : simpl never.
Arguments N.add : simpl never.
Arguments N.ltb : simpl never.
Arguments N.eqb : simpl never.

Definition tid (t : tx) : N := q_id (t_q t).
Definition key (t : tx) : N * N := (q_vaddr (t_q t), q_pid (t_q t)).
(** (page, PID) of the lookups that are still open (no reply taken yet) *)
Definition okeys (l : list tx) : list (N * N) := map key (filter (fun t => negb (is_done t)) l).
Arguments okeys : simpl never.

(** a request [r] belongs to the lookup [q] *)
Definition req_ok (k : N) (q : treq) (r : msg) : Prop :=
  is_req r = true /\ page_of k (m_addr r) = q_vaddr q /\ m_pid r = q_pid q.

Definition tx_ok (k : N) (t : tx) : Prop :=
  t_reqs t <> [] /\ Forall (req_ok k (t_q t)) (t_reqs t) /\
  (forall rsp, t_rsp t = Some rsp -> r_rspto rsp = q_id (t_q t)).

Definition fwd_ok (c : config) (f : fwd) : Prop :=
  req_ok (log2ps c) (f_q f) (f_top f) /\ r_rspto (f_rsp f) = q_id (f_q f) /\
  f_bot f = xlate c (m_id (f_bot f)) (r_paddr (f_rsp f)) (f_top f).

Definition ans_ok (a : ans) : Prop :=
  a_out a = answer (a_top a) (a_brsp a) /\ m_rspto (a_brsp a) = m_id (a_bot a) /\
  is_rsp (a_brsp a) = true.

(** a lookup is never invented: it was issued for an accepted request *)
Definition treq_ok (c : config) (acc : list msg) (q : treq) : Prop :=
  q_dev q = dev c /\
  (exists r, In r acc /\ req_ok (log2ps c) q r /\ q_dst q = tr_dst c (m_addr r)).

Record Inv (s : st) : Prop := {
  i_deliv : map fst (g_seen s) ++ top_in s = g_deliv s;
  i_acct  : Permutation (accepted (g_seen s))
                        (map f_top (g_fwd s) ++ g_disc s ++ waiting (txs s));
  i_txs   : Forall (tx_ok (log2ps (cfg s))) (txs s);
  i_txq   : incl (map t_q (txs s)) (g_treq s);
  i_txr   : incl (flat_map rsp_of (txs s)) (g_trdel s);
  i_trin  : incl (tr_in s) (g_trdel s);
  i_fwd   : Forall (fwd_ok (cfg s)) (g_fwd s);
  i_fwq   : incl (map f_q (g_fwd s)) (g_treq s);
  i_fwr   : incl (map f_rsp (g_fwd s)) (g_trdel s);
  i_tid   : Forall (fun q => q_id q < next_tid s) (g_treq s);
  i_tidnd : NoDup (map q_id (g_treq s));
  i_treq  : Forall (treq_ok (cfg s) (accepted (g_seen s))) (g_treq s);
  i_bid   : Forall (fun f => bid_f f < next_bid s) (g_fwd s);
  i_bidnd : NoDup (map bid_f (g_fwd s));
  i_pairs : Permutation (map pair_f (g_fwd s))
                        (map pair_a (g_ans s) ++ g_idisc s ++ inflight s);
  i_ans   : Forall ans_ok (g_ans s);
  i_tretr : g_tretr s ++ top_out s = map a_out (g_ans s);
  i_bretr : g_bretr s ++ bot_out s = map f_bot (g_fwd s);
  i_qretr : g_qretr s ++ tr_out s = g_treq s;
  i_flush : flushing s = true -> txs s = [] /\ inflight s = [];
  i_pt    : (length (top_out s) <= width (cfg s))%nat;
  i_pb    : (length (bot_out s) <= width (cfg s))%nat;
  i_px    : (length (tr_out s) <= width (cfg s))%nat;
  i_pc    : (length (ctl_out s) <= 1)%nat;
  i_trcons : g_trcons s ++ tr_in s = g_trdel s;
  i_bcons : g_bcons s ++ bot_in s = g_bdel s;
  i_txnd  : NoDup (map tid (txs s));
  i_open  : NoDup (okeys (txs s));
  i_pci   : (length (ctl_in s) <= 1)%nat
}.

Ltac inv_split H :=
  destruct H as [Hdeliv Hacct Htxs Htxq Htxr Htrin Hfwd Hfwq Hfwr Htid Htidnd Htreq Hbid Hbidnd
                 Hpairs Hans Htretr Hbretr Hqretr Hflush Hpt Hpb Hpx Hpc
                 Htrcons Hbcons Htxnd Hopen Hpci].

Lemma okeys_nil : okeys [] = [].
Proof. reflexivity. Qed.

Lemma init_inv c : Inv (init c).
Proof.
  constructor; cbn; rewrite ?okeys_nil; auto using NoDup_nil, incl_nil_l; try lia.
Qed.

(** ** list helpers *)
Lemma treq_ok_mono c acc acc' l :
  incl acc acc' -> Forall (treq_ok c acc) l -> Forall (treq_ok c acc') l.
Proof.
  intros Hi. apply Forall_impl. intros q (Hd & r & Hin & Hr). split; auto. exists r; auto.
Qed.

Lemma accepted_app l1 l2 : accepted (l1 ++ l2) = accepted l1 ++ accepted l2.
Proof. unfold accepted. now rewrite filter_app, map_app. Qed.

Lemma accepted_dropped (l : list msg) : accepted (map (fun m => (m, false)) l) = [].
Proof. induction l; auto. Qed.

Lemma map_fst_tag {A} (b : bool) (l : list A) : map fst (map (fun t => (t, b)) l) = l.
Proof. induction l; simpl; congruence. Qed.

Lemma waiting_app l1 l2 : waiting (l1 ++ l2) = waiting l1 ++ waiting l2.
Proof. unfold waiting. apply flat_map_app. Qed.

Lemma waiting_cons t l : waiting (t :: l) = t_reqs t ++ waiting l.
Proof. reflexivity. Qed.

Lemma waiting_nil : waiting [] = [].
Proof. reflexivity. Qed.

Lemma split_first_spec {A} (p : A -> bool) l a y b :
  split_first p l = Some (a, y, b) ->
  l = a ++ y :: b /\ p y = true /\ Forall (fun x => p x = false) a.
Proof.
  revert a y b; induction l as [|x l IH]; cbn; intros a y b E; [discriminate|].
  destruct (p x) eqn:Ex.
  - inversion E; subst. repeat split; auto.
  - destruct (split_first p l) as [[[a' y'] b']|]; [|discriminate].
    inversion E; subst. destruct (IH _ _ _ eq_refl) as (-> & Hy & Ha).
    repeat split; auto.
Qed.

Lemma split_first_none {A} (p : A -> bool) l :
  split_first p l = None -> Forall (fun x => p x = false) l.
Proof.
  induction l as [|x l IH]; cbn; intros E; [constructor|].
  destruct (p x) eqn:Ex; [discriminate|].
  destruct (split_first p l) as [[[a' y'] b']|]; [discriminate|]. constructor; auto.
Qed.

Lemma NoDup_snoc_fresh {A} (g : A -> N) (l : list A) (y : A) (n : N) :
  Forall (fun x => g x < n) l -> NoDup (map g l) -> g y = n -> NoDup (map g (l ++ [y])).
Proof.
  intros Hf Hn Hy. rewrite map_app; cbn. apply NoDup_app_intro; auto.
  - constructor; auto using NoDup_nil.
  - intros x Hin [<-|[]]. apply in_map_iff in Hin as (z & Hz & Hin).
    rewrite Forall_forall in Hf. apply Hf in Hin. lia.
Qed.

Lemma Forall_snoc_fresh {A} (g : A -> N) (l : list A) (y : A) (n : N) :
  Forall (fun x => g x < n) l -> g y = n -> Forall (fun x => g x < n + 1) (l ++ [y]).
Proof.
  intros Hf Hy. apply Forall_app; split.
  - eapply Forall_impl; [|exact Hf]. cbn; intros; lia.
  - constructor; auto. lia.
Qed.

Lemma NoDup_map_inj_N {A} (f : A -> N) (l : list A) x y :
  NoDup (map f l) -> In x l -> In y l -> f x = f y -> x = y.
Proof.
  induction l as [|a l IH]; cbn; [tauto|]. intros Hn Hx Hy E.
  inversion Hn as [|? ? Hni Hn']; subst.
  destruct Hx as [->|Hx], Hy as [->|Hy]; auto.
  - exfalso; apply Hni. rewrite E. now apply in_map.
  - exfalso; apply Hni. rewrite <- E. now apply in_map.
Qed.

Lemma incl_snoc {A} (l m : list A) x : incl l m -> incl (l ++ [x]) (m ++ [x]).
Proof. intros H. apply incl_app; [apply incl_appl; auto|apply incl_appr, incl_refl]. Qed.

Lemma page_of_idem k a : page_of k (page_of k a) = page_of k a.
Proof.
  unfold page_of. f_equal. rewrite N.shiftr_shiftl_l by lia.
  now rewrite N.sub_diag, N.shiftl_0_r.
Qed.

Lemma xlate_id c id p r : m_id (xlate c id p r) = id.
Proof. unfold xlate. destruct (m_kind r); reflexivity. Qed.

Lemma okeys_app l1 l2 : okeys (l1 ++ l2) = okeys l1 ++ okeys l2.
Proof. unfold okeys. now rewrite filter_app, map_app. Qed.

Lemma okeys_cons t l : okeys (t :: l) = (if is_done t then [] else [key t]) ++ okeys l.
Proof. unfold okeys. cbn. destruct (is_done t); reflexivity. Qed.

Lemma okeys_In k l : In k (okeys l) -> exists t, In t l /\ is_done t = false /\ key t = k.
Proof.
  unfold okeys. intros H. apply in_map_iff in H as (t & E & Hin).
  apply filter_In in Hin as [Hin Hd]. exists t. repeat split; auto.
  now destruct (is_done t).
Qed.

Lemma NoDup_drop_mid {A} (a b : list A) x : NoDup (a ++ x :: b) -> NoDup (a ++ b).
Proof. apply NoDup_remove_1. Qed.

(** moving one element to the front on both sides of a permutation goal *)
Ltac pfront x :=
  repeat first [ rewrite <- (Permutation_middle _ _ x) | progress cbn [app] ].

Lemma perm_snoc {A} (x : A) l m : Permutation l m -> Permutation (l ++ [x]) (m ++ [x]).
Proof. intros H. now apply Permutation_app_tail. Qed.

(** ** translate *)
Lemma co_match_ok k req t :
  tx_ok k t -> is_req req = true -> co_match k req t = true -> req_ok k (t_q t) req.
Proof.
  intros (Hne & Hall & _) Hreq Hm. unfold co_match in Hm.
  apply andb_prop in Hm as [Hm Hpid]. apply andb_prop in Hm as [_ Hpage].
  apply N.eqb_eq in Hpage.
  destruct (t_reqs t) as [|r0 rs]; [congruence|].
  inversion Hall as [|? ? (H0 & Hp0 & Hpid0) _]; subst.
  apply N.eqb_eq in Hpid. repeat split; auto.
  - rewrite <- Hp0 in Hpage |- *. now rewrite page_of_idem in Hpage.
  - congruence.
Qed.

Lemma txs_tid_fresh l g n :
  incl (map t_q l) g -> Forall (fun q => q_id q < n) g -> Forall (fun t => tid t < n) l.
Proof.
  intros Hi Hf. apply Forall_forall. intros t Ht. rewrite Forall_forall in Hf.
  apply Hf, Hi. now apply in_map.
Qed.

Lemma no_open_match k req l :
  Forall (tx_ok k) l -> Forall (fun t => co_match k req t = false) l ->
  ~ In (page_of k (m_addr req), m_pid req) (okeys l).
Proof.
  intros Hok Hno Hin. apply okeys_In in Hin as (t & Ht & Hd & Hk).
  rewrite Forall_forall in Hok, Hno. specialize (Hok t Ht). specialize (Hno t Ht).
  destruct Hok as (Hne & Hall & _). unfold co_match in Hno. rewrite Hd in Hno. cbn in Hno.
  unfold key in Hk. inversion Hk as [[Hv Hp]].
  destruct (t_reqs t) as [|r0 rs]; [congruence|].
  inversion Hall as [|? ? (_ & Hp0 & Hpid0) _]; subst.
  rewrite <- Hp0 in Hno at 1. rewrite page_of_idem, Hp0, Hv, N.eqb_refl in Hno. cbn in Hno.
  rewrite Hpid0, Hp, N.eqb_refl in Hno. discriminate.
Qed.

Lemma translate_inv s : Inv s -> flushing s = false -> Inv (fst (translate s)).
Proof.
  intros H Hnf; unfold translate.
  destruct (top_in s) as [|req rest] eqn:Etop; [exact H|].
  destruct (is_req req) eqn:Ereq; cbn [negb].
  2:{ inv_split H; constructor; cbn; auto. }
  destruct (split_first _ (txs s)) as [[[a t] b]|] eqn:Esp.
  - apply split_first_spec in Esp as (Etx & Hm & _).
    destruct (t_reqs t) as [|r0 rs] eqn:Er.
    { inv_split H; constructor; cbn; auto. }
    rewrite <- Er.
    inv_split H. rewrite Etx in *.
    apply Forall_app in Htxs as [Htxa Htxb]. inversion Htxb as [|? ? Ht Htxb']; subst.
    constructor; cbn; auto; try (intros; congruence).
    + rewrite map_app, <- app_assoc. cbn. now rewrite <- Hdeliv, Etop.
    + rewrite accepted_app. change (accepted [(req, true)]) with [req].
      rewrite waiting_app, waiting_cons in *. cbn [t_reqs].
      pfront req. apply perm_skip. rewrite !app_nil_r. exact Hacct.
    + apply Forall_app; split; auto. constructor; auto.
      destruct Ht as (Hne & Hall & Hr). repeat split; cbn; auto.
      * rewrite Er; intros E; destruct rs; discriminate.
      * apply Forall_app; split; auto. constructor; auto.
        apply co_match_ok; auto. repeat split; auto.
    + rewrite map_app in *. exact Htxq.
    + rewrite flat_map_app in *. exact Htxr.
    + rewrite accepted_app. eapply treq_ok_mono; [|exact Htreq]. now apply incl_appl.
    + rewrite map_app in *. exact Htxnd.
    + rewrite okeys_app, okeys_cons in *. exact Hopen.
  - apply split_first_none in Esp.
    destruct (room _ (tr_out s)) eqn:Eroom; [|exact H].
    unfold room in Eroom. apply Nat.ltb_lt in Eroom.
    inv_split H. constructor; cbn; auto; try (intros; congruence).
    + rewrite map_app, <- app_assoc. cbn. now rewrite <- Hdeliv, Etop.
    + rewrite accepted_app. change (accepted [(req, true)]) with [req].
      rewrite waiting_app. change (waiting [_]) with [req].
      rewrite !app_assoc. apply perm_snoc. now rewrite <- !app_assoc.
    + apply Forall_app; split; auto. constructor; auto.
      repeat split; cbn; auto; try discriminate.
      constructor; auto. repeat split; auto.
    + rewrite map_app. cbn. now apply incl_snoc.
    + rewrite flat_map_app. cbn. now rewrite app_nil_r.
    + now apply incl_appl.
    + now apply Forall_snoc_fresh.
    + eapply NoDup_snoc_fresh; eauto.
    + rewrite accepted_app. apply Forall_app; split.
      * eapply treq_ok_mono; [|exact Htreq]. now apply incl_appl.
      * constructor; auto. split; auto. exists req. repeat split; auto.
        apply in_or_app; right; now left.
    + now rewrite app_assoc, Hqretr.
    + rewrite app_length; cbn; lia.
    + eapply NoDup_snoc_fresh with (n := next_tid s);
        [eapply txs_tid_fresh; eauto|exact Htxnd|reflexivity].
    + rewrite okeys_app, okeys_cons, okeys_nil. cbn.
      apply NoDup_app_intro; auto.
      * constructor; auto using NoDup_nil.
      * intros x Hx [<-|[]]. eapply no_open_match; eauto.
Qed.

(** ** parseTranslation *)
Lemma waiting_after_send t rs rsp : waiting (after_send t rs rsp) = rs.
Proof. destruct rs; cbn; auto. unfold waiting; cbn. now rewrite app_nil_r. Qed.

Lemma after_send_q t rs rsp : incl (map t_q (after_send t rs rsp)) [t_q t].
Proof. destruct rs; cbn; [apply incl_nil_l|apply incl_refl]. Qed.

Lemma after_send_r t rs rsp : incl (flat_map rsp_of (after_send t rs rsp)) [rsp].
Proof. destruct rs; cbn; [apply incl_nil_l|apply incl_refl]. Qed.

Lemma after_send_ok k t r rs rsp :
  tx_ok k t -> t_reqs t = r :: rs -> r_rspto rsp = q_id (t_q t) ->
  Forall (tx_ok k) (after_send t rs rsp).
Proof.
  intros (Hne & Hall & _) Er Hid. destruct rs as [|r1 rs]; cbn; [constructor|].
  constructor; [|constructor]. rewrite Er in Hall. inversion Hall; subst.
  repeat split; cbn; auto; try discriminate. intros ? E; inversion E; subst; auto.
Qed.

Lemma after_send_tids a t b rs rsp :
  NoDup (map tid (a ++ t :: b)) -> NoDup (map tid (a ++ after_send t rs rsp ++ b)).
Proof.
  intros H. destruct rs; cbn.
  - rewrite map_app in *. cbn in H. now apply NoDup_remove_1 in H.
  - rewrite map_app in *. exact H.
Qed.

Lemma drop_open_keys a t b l :
  okeys l = [] -> NoDup (okeys (a ++ t :: b)) -> NoDup (okeys (a ++ l ++ b)).
Proof.
  intros El H. rewrite !okeys_app, El in *. rewrite okeys_cons in H. cbn.
  destruct (is_done t); cbn in H; auto. now apply NoDup_remove_1 in H.
Qed.

Lemma after_send_okeys t rs rsp : okeys (after_send t rs rsp) = [].
Proof. destruct rs; reflexivity. Qed.

Lemma send_down_inv s a t b r rs rsp :
  Inv s -> txs s = a ++ t :: b -> t_reqs t = r :: rs ->
  r_rspto rsp = q_id (t_q t) -> In rsp (g_trdel s) ->
  room (width (cfg s)) (bot_out s) = true ->
  Inv (send_down s a t b r rs rsp).
Proof.
  intros H Etx Er Hid Hin Eroom. unfold room in Eroom. apply Nat.ltb_lt in Eroom.
  inv_split H. rewrite Etx in *.
  pose proof Htxs as Htxs0.
  apply Forall_app in Htxs as [Htxa Htxb]. inversion Htxb as [|? ? Ht Htxb']; subst.
  assert (Hq : In (t_q t) (g_treq s)).
  { apply Htxq. rewrite map_app; cbn. apply in_or_app; right; left; auto. }
  unfold send_down. constructor; cbn; auto.
  - rewrite map_app; cbn. rewrite !waiting_app, waiting_after_send.
    rewrite waiting_app, waiting_cons, Er in Hacct.
    rewrite Hacct. pfront r. apply perm_skip. now rewrite !app_nil_r.
  - apply Forall_app; split; auto. apply Forall_app; split; auto.
    eapply after_send_ok; eauto.
  - rewrite !map_app. intros x Hx. apply in_app_or in Hx as [Hx|Hx].
    + apply Htxq. rewrite map_app. apply in_or_app; auto.
    + apply in_app_or in Hx as [Hx|Hx].
      * apply after_send_q in Hx as [<-|[]]; auto.
      * apply Htxq. rewrite map_app; cbn. apply in_or_app; right; right; auto.
  - rewrite !flat_map_app. intros x Hx. apply in_app_or in Hx as [Hx|Hx].
    + apply Htxr. rewrite flat_map_app. apply in_or_app; auto.
    + apply in_app_or in Hx as [Hx|Hx].
      * apply after_send_r in Hx as [<-|[]]; auto.
      * apply Htxr. rewrite flat_map_app; cbn. apply in_or_app; right. apply in_or_app; auto.
  - apply Forall_app; split; auto. constructor; auto.
    destruct Ht as (_ & Hall & _). rewrite Er in Hall. inversion Hall; subst.
    repeat split; cbn; auto; try apply H1. now rewrite xlate_id.
  - rewrite map_app; cbn. apply incl_app; auto. intros x [<-|[]]; auto.
  - rewrite map_app; cbn. apply incl_app; auto. intros x [<-|[]]; auto.
  - apply Forall_snoc_fresh; auto. unfold bid_f; cbn. apply xlate_id.
  - eapply NoDup_snoc_fresh; eauto. unfold bid_f; cbn. apply xlate_id.
  - rewrite map_app; cbn. unfold pair_f at 2; cbn. rewrite !app_assoc. apply perm_snoc.
    now rewrite <- !app_assoc.
  - rewrite map_app; cbn. now rewrite app_assoc, Hbretr.
  - intros Hf. destruct (Hflush Hf) as [E _]. destruct a; discriminate.
  - rewrite app_length; cbn; lia.
  - now apply after_send_tids.
  - eapply drop_open_keys; eauto using after_send_okeys.
Qed.

Lemma drop_trin_inv s x rest :
  Inv s -> tr_in s = x :: rest ->
  Inv (s <| tr_in := rest |> <| g_trcons := g_trcons s ++ [x] |>).
Proof.
  intros H E. inv_split H. constructor; cbn; auto.
  - intros y Hy. apply Htrin. rewrite E. now right.
  - rewrite <- app_assoc. cbn. now rewrite <- E.
Qed.

Lemma set_crashed_inv s : Inv s -> Inv (s <| crashed := true |>).
Proof. intros H. inv_split H. constructor; cbn; auto. Qed.

Lemma set_rsp_inv s a t b rsp :
  Inv s -> txs s = a ++ t :: b -> r_rspto rsp = q_id (t_q t) -> In rsp (g_trdel s) ->
  Inv (s <| txs := a ++ mkTx (t_reqs t) (t_q t) (Some rsp) :: b |>).
Proof.
  intros H Etx Hid Hin. inv_split H. rewrite Etx in *.
  apply Forall_app in Htxs as [Htxa Htxb]. inversion Htxb as [|? ? Ht Htxb']; subst.
  constructor; cbn; auto.
  - rewrite waiting_app, waiting_cons in *. exact Hacct.
  - apply Forall_app; split; auto. constructor; auto.
    destruct Ht as (Hne & Hall & _). repeat split; cbn; auto.
    intros ? E; inversion E; subst; auto.
  - rewrite map_app in *. exact Htxq.
  - rewrite flat_map_app in *. cbn in *. intros x Hx.
    apply in_app_or in Hx as [Hx|Hx]; [apply Htxr, in_or_app; auto|].
    destruct Hx as [<-|Hx]; auto. apply Htxr. apply in_or_app; right. apply in_or_app; auto.
  - intros Hf. destruct (Hflush Hf) as [E _]. destruct a; discriminate.
  - rewrite map_app in *. exact Htxnd.
  - change (a ++ mkTx (t_reqs t) (t_q t) (Some rsp) :: b)
      with (a ++ [mkTx (t_reqs t) (t_q t) (Some rsp)] ++ b).
    eapply drop_open_keys; eauto.
Qed.

Lemma parse_translation_inv s : Inv s -> Inv (fst (parse_translation s)).
Proof.
  intros H; unfold parse_translation.
  destruct (split_first drainable (txs s)) as [[[a t] b]|] eqn:Esp.
  - apply split_first_spec in Esp as (Etx & Hd & _).
    destruct (t_reqs t) as [|r rs] eqn:Er; [apply set_crashed_inv; auto|].
    destruct (t_rsp t) as [rsp|] eqn:Ersp; [|apply set_crashed_inv; auto].
    destruct (is_req r); cbn [negb]; [|apply set_crashed_inv; auto].
    destruct (room _ (bot_out s)) eqn:Eroom; [|exact H]. cbn [fst].
    pose proof H as H0. inv_split H0. rewrite Etx in *.
    apply Forall_app in Htxs as [_ Htxb]. inversion Htxb as [|? ? Ht _]; subst.
    eapply send_down_inv; eauto.
    + destruct Ht as (_ & _ & Hr). auto.
    + apply Htxr. rewrite flat_map_app; cbn. apply in_or_app; right.
      unfold rsp_of at 1. rewrite Ersp. now left.
  - destruct (tr_in s) as [|rsp rest] eqn:Etr; [exact H|].
    assert (Hin : In rsp (g_trdel s)).
    { destruct H. apply i_trin0. rewrite Etr; now left. }
    destruct (split_first (fun t => q_id (t_q t) =? r_rspto rsp) (txs s)) as [[[a t] b]|] eqn:Esp2.
    2:{ cbn [fst]. eapply drop_trin_inv; eauto. }
    apply split_first_spec in Esp2 as (Etx & Hid & _). apply N.eqb_eq in Hid. symmetry in Hid.
    pose proof (set_rsp_inv s a t b rsp H Etx Hid Hin) as H1.
    destruct (t_reqs t) as [|r rs] eqn:Er; [apply set_crashed_inv; auto|].
    destruct (is_req r); cbn [negb]; [|apply set_crashed_inv; auto].
    destruct (room _ (bot_out s)) eqn:Eroom; [|exact H1]. cbn [fst].
    apply (drop_trin_inv (send_down s a t b r rs rsp) rsp rest); [eapply send_down_inv; eauto|].
    exact Etr.
Qed.

(** ** respond *)
Lemma respond_inv s : Inv s -> Inv (fst (respond s)).
Proof.
  intros H; unfold respond.
  destruct (bot_in s) as [|rsp rest] eqn:Ebot; [exact H|].
  destruct (is_rsp rsp) eqn:Ersp; cbn [negb]; [|apply set_crashed_inv; auto].
  destruct (split_first _ (inflight s)) as [[[a p] b]|] eqn:Esp.
  2:{ inv_split H; constructor; cbn; auto.
      rewrite <- app_assoc. cbn. now rewrite <- Ebot. }
  apply split_first_spec in Esp as (Einf & Hid & _). apply N.eqb_eq in Hid.
  destruct (room _ (top_out s)) eqn:Eroom; [|exact H].
  unfold room in Eroom. apply Nat.ltb_lt in Eroom.
  inv_split H. rewrite Einf in *. constructor; cbn; auto.
  - rewrite map_app; cbn. unfold pair_a at 2; cbn. rewrite <- surjective_pairing.
    rewrite Hpairs. pfront p. apply perm_skip. now rewrite !app_nil_r.
  - apply Forall_app; split; auto. constructor; auto. repeat split; cbn; auto.
  - rewrite map_app; cbn. now rewrite app_assoc, Htretr.
  - intros Hf. destruct (Hflush Hf) as [_ E]. destruct a; discriminate.
  - rewrite app_length; cbn; lia.
  - rewrite <- app_assoc. cbn. now rewrite <- Ebot.
Qed.

(** ** control *)
Lemma handle_ctrl_inv s : Inv s -> Inv (fst (handle_ctrl s)).
Proof.
  intros H; unfold handle_ctrl.
  destruct (ctl_in s) as [|c rest] eqn:Ectl; [exact H|].
  destruct (kind_eqb (m_kind c) KCtrl); cbn [negb]; [|apply set_crashed_inv; auto].
  destruct (has_flag c F_DISCARD).
  { destruct (room 1 (ctl_out s)) eqn:Eroom; [|exact H].
    unfold room in Eroom. apply Nat.ltb_lt in Eroom.
    inv_split H; constructor; cbn; auto using incl_nil_l.
    - rewrite waiting_nil, app_nil_r. exact Hacct.
    - rewrite app_nil_r. exact Hpairs.
    - rewrite app_length; cbn; lia.
    - constructor.
    - rewrite okeys_nil. constructor.
    - rewrite Ectl in Hpci. cbn in Hpci. lia. }
  destruct (has_flag c F_RESTART); [|apply set_crashed_inv; auto].
  destruct (room 1 (ctl_out s)) eqn:Eroom; [|exact H].
  unfold room in Eroom. apply Nat.ltb_lt in Eroom.
  inv_split H; constructor; cbn; auto using incl_nil_l.
  - rewrite map_app, map_fst_tag, app_nil_r. exact Hdeliv.
  - rewrite accepted_app, accepted_dropped, app_nil_r. exact Hacct.
  - rewrite accepted_app, accepted_dropped, app_nil_r. exact Htreq.
  - intros; discriminate.
  - rewrite app_length; cbn; lia.
  - now rewrite app_nil_r.
  - now rewrite app_nil_r.
  - rewrite Ectl in Hpci. cbn in Hpci. lia.
Qed.

(** ** configuration and flushing flag are untouched by the pipeline stages *)
Definition stable (s s' : st) : Prop := cfg s' = cfg s /\ flushing s' = flushing s.
Lemma stable_refl s : stable s s. Proof. split; auto. Qed.
Lemma stable_trans a b c : stable a b -> stable b c -> stable a c.
Proof. unfold stable; intuition congruence. Qed.

Ltac crush_stable :=
  repeat match goal with
         | |- context [match ?x with _ => _ end] => destruct x
         end; cbn; try apply stable_refl; try (split; reflexivity).

Lemma translate_stable s : stable s (fst (translate s)).
Proof. unfold translate. crush_stable. Qed.
Lemma parse_translation_stable s : stable s (fst (parse_translation s)).
Proof. unfold parse_translation, send_down. crush_stable. Qed.
Lemma respond_stable s : stable s (fst (respond s)).
Proof. unfold respond. crush_stable. Qed.
Lemma handle_ctrl_cfg s : cfg (fst (handle_ctrl s)) = cfg s.
Proof.
  unfold handle_ctrl.
  repeat match goal with |- context [match ?x with _ => _ end] => destruct x end; reflexivity.
Qed.

Lemma guard_stable f s : (forall s, stable s (fst (f s))) -> stable s (fst (guard f s)).
Proof. intros Hf. unfold guard. destruct (crashed s); [apply stable_refl|apply Hf]. Qed.

Lemma iter_stable f : (forall s, stable s (fst (f s))) -> forall n s, stable s (fst (iter n f s)).
Proof.
  intros Hf; induction n as [|n IH]; intros s; cbn; [apply stable_refl|].
  pose proof (guard_stable f s Hf) as H1. destruct (guard f s) as [s1 p1]; cbn in H1.
  specialize (IH s1). destruct (iter n f s1) as [s2 p2]; cbn in *.
  eapply stable_trans; eauto.
Qed.

(** ** lifting the invariant *)
Definition InvNF (s : st) : Prop := Inv s /\ flushing s = false.

Lemma guard_pres (P : st -> Prop) f s :
  (forall s, P s -> P (fst (f s))) -> P s -> P (fst (guard f s)).
Proof. intros Hf H. unfold guard. destruct (crashed s); auto. Qed.

Lemma iter_pres (P : st -> Prop) f :
  (forall s, P s -> P (fst (f s))) -> forall n s, P s -> P (fst (iter n f s)).
Proof.
  intros Hf; induction n as [|n IH]; intros s H; cbn; auto.
  pose proof (guard_pres P f s Hf H) as H1. destruct (guard f s) as [s1 p1]; cbn in H1.
  specialize (IH s1 H1). destruct (iter n f s1) as [s2 p2]; auto.
Qed.

Lemma respond_nf s : InvNF s -> InvNF (fst (respond s)).
Proof.
  intros [H F]. split; [now apply respond_inv|].
  destruct (respond_stable s) as [_ E]. congruence.
Qed.
Lemma parse_translation_nf s : InvNF s -> InvNF (fst (parse_translation s)).
Proof.
  intros [H F]. split; [now apply parse_translation_inv|].
  destruct (parse_translation_stable s) as [_ E]. congruence.
Qed.
Lemma translate_nf s : InvNF s -> InvNF (fst (translate s)).
Proof.
  intros [H F]. split; [now apply translate_inv|].
  destruct (translate_stable s) as [_ E]. congruence.
Qed.

Lemma run_pipeline_inv s : Inv s -> flushing s = false -> Inv (fst (run_pipeline s)).
Proof.
  intros H F. unfold run_pipeline.
  pose proof (iter_pres InvNF respond respond_nf (width (cfg s)) s (conj H F)) as H1.
  destruct (iter (width (cfg s)) respond s) as [s1 p1]; cbn in H1.
  pose proof (iter_pres InvNF _ parse_translation_nf (width (cfg s)) s1 H1) as H2.
  destruct (iter (width (cfg s)) parse_translation s1) as [s2 p2]; cbn in H2.
  pose proof (iter_pres InvNF _ translate_nf (width (cfg s)) s2 H2) as H3.
  destruct (iter (width (cfg s)) translate s2) as [s3 p3]; cbn in H3. apply H3.
Qed.

Lemma run_pipeline_cfg s : cfg (fst (run_pipeline s)) = cfg s.
Proof.
  unfold run_pipeline.
  pose proof (iter_stable _ respond_stable (width (cfg s)) s) as [H1 _].
  destruct (iter (width (cfg s)) respond s) as [s1 p1]; cbn in H1.
  pose proof (iter_stable _ parse_translation_stable (width (cfg s)) s1) as [H2 _].
  destruct (iter (width (cfg s)) parse_translation s1) as [s2 p2]; cbn in H2.
  pose proof (iter_stable _ translate_stable (width (cfg s)) s2) as [H3 _].
  destruct (iter (width (cfg s)) translate s2) as [s3 p3]; cbn in *. congruence.
Qed.

Lemma tick_inv s : Inv s -> Inv (fst (tick s)).
Proof.
  intros H. unfold tick.
  assert (H1 : Inv (fst (if flushing s then iter (width (cfg s)) parse_translation s
                         else run_pipeline s))).
  { destruct (flushing s) eqn:F.
    - apply iter_pres; auto using parse_translation_inv.
    - apply run_pipeline_inv; auto. }
  destruct (if flushing s then _ else _) as [s1 p1]; cbn in H1.
  pose proof (guard_pres Inv handle_ctrl s1 handle_ctrl_inv H1) as H2.
  destruct (guard handle_ctrl s1) as [s2 p2]; exact H2.
Qed.

Lemma tick_cfg s : cfg (fst (tick s)) = cfg s.
Proof.
  unfold tick.
  assert (H1 : cfg (fst (if flushing s then iter (width (cfg s)) parse_translation s
                         else run_pipeline s)) = cfg s).
  { destruct (flushing s).
    - apply (iter_stable _ parse_translation_stable).
    - apply run_pipeline_cfg. }
  destruct (if flushing s then _ else _) as [s1 p1]; cbn in H1.
  assert (H2 : cfg (fst (guard handle_ctrl s1)) = cfg s1).
  { unfold guard. destruct (crashed s1); auto using handle_ctrl_cfg. }
  destruct (guard handle_ctrl s1) as [s2 p2]; cbn in *. congruence.
Qed.

Lemma step_inv s e : Inv s -> Inv (fst (step s e)).
Proof.
  intros H; unfold step. destruct (crashed s); [exact H|].
  destruct e as [m|m|r|m| | | | | ].
  - destruct (room _ _); [|exact H]. inv_split H; constructor; cbn; auto.
    now rewrite app_assoc, Hdeliv.
  - destruct (room _ _); [|exact H]. inv_split H; constructor; cbn; auto.
    now rewrite app_assoc, Hbcons.
  - destruct (room _ _); [|exact H]. inv_split H; constructor; cbn; auto using incl_appl.
    + now apply incl_snoc.
    + now rewrite app_assoc, Htrcons.
  - destruct (room 1 (ctl_in s)) eqn:Er; [|exact H]. unfold room in Er. apply Nat.ltb_lt in Er.
    inv_split H; constructor; cbn; auto. rewrite app_length; cbn; lia.
  - pose proof (tick_inv s H) as H1. destruct (tick s) as [s' p]; cbn in H1.
    destruct (crashed s'); exact H1.
  - destruct (top_out s) as [|m r] eqn:E; [exact H|].
    inv_split H; constructor; cbn; auto.
    + rewrite <- app_assoc. cbn. now rewrite <- E.
    + rewrite E in Hpt. cbn in *. lia.
  - destruct (bot_out s) as [|m r] eqn:E; [exact H|].
    inv_split H; constructor; cbn; auto.
    + rewrite <- app_assoc. cbn. now rewrite <- E.
    + rewrite E in Hpb. cbn in *. lia.
  - destruct (tr_out s) as [|m r] eqn:E; [exact H|].
    inv_split H; constructor; cbn; auto.
    + rewrite <- app_assoc. cbn. now rewrite <- E.
    + rewrite E in Hpx. cbn in *. lia.
  - destruct (ctl_out s) as [|m r] eqn:E; [exact H|].
    inv_split H; constructor; cbn; auto.
    rewrite E in Hpc. cbn in *. lia.
Qed.

Lemma step_cfg s e : cfg (fst (step s e)) = cfg s.
Proof.
  unfold step. destruct (crashed s); [reflexivity|].
  destruct e as [m|m|r|m| | | | | ]; try (destruct (room _ _); reflexivity).
  - pose proof (tick_cfg s) as H1. destruct (tick s) as [s' p]; cbn in H1.
    destruct (crashed s'); exact H1.
  - destruct (top_out s); reflexivity.
  - destruct (bot_out s); reflexivity.
  - destruct (tr_out s); reflexivity.
  - destruct (ctl_out s); reflexivity.
Qed.

Lemma run_inv evs : forall s, Inv s -> Inv (run s evs).
Proof.
  induction evs as [|e evs IH]; intros s H; cbn; auto.
  apply IH. apply step_inv; auto.
Qed.

Lemma run_cfg evs : forall s, cfg (run s evs) = cfg s.
Proof.
  induction evs as [|e evs IH]; intros s; [reflexivity|].
  change (run s (e :: evs)) with (run (fst (step s e)) evs).
  rewrite IH. apply step_cfg.
Qed.

Lemma run_app s e1 e2 : run s (e1 ++ e2) = run (run s e1) e2.
Proof. unfold run. apply fold_left_app. Qed.

(** * Consequences used by props/C16.v *)

Lemma accepted_subseq l : subseq (accepted l) (map fst l).
Proof. unfold accepted. apply subseq_map, subseq_filter. Qed.

Lemma accepted_of_delivered s : Inv s -> subseq (accepted (g_seen s)) (g_deliv s).
Proof.
  intros H. destruct H. rewrite <- i_deliv0.
  eapply subseq_trans; [apply accepted_subseq|apply subseq_app_l].
Qed.

Definition owed (s : st) : list msg := map f_top (g_fwd s) ++ g_disc s ++ waiting (txs s).

Lemma owed_ids_nodup s :
  Inv s -> NoDup (map m_id (g_deliv s)) -> NoDup (map m_id (owed s)).
Proof.
  intros H Hn. pose proof (accepted_of_delivered s H) as Hs. destruct H.
  eapply Permutation_NoDup; [apply Permutation_map; exact i_acct0|].
  eapply subseq_NoDup; [apply subseq_map; exact Hs|exact Hn].
Qed.

Lemma owed_from_delivered s r : Inv s -> In r (owed s) -> In r (g_deliv s).
Proof.
  intros H Hin. pose proof (accepted_of_delivered s H) as Hs. destruct H.
  eapply subseq_In; [exact Hs|]. eapply Permutation_in; [symmetry; exact i_acct0|exact Hin].
Qed.

Lemma fwd_once s :
  Inv s -> NoDup (map m_id (g_deliv s)) -> NoDup (map m_id (map f_top (g_fwd s))).
Proof.
  intros H Hn. pose proof (owed_ids_nodup s H Hn) as Ho. unfold owed in Ho.
  rewrite map_app in Ho. eapply NoDup_app_l; eauto.
Qed.

(** the environment answers a lookup with the page its table holds *)
Definition env_ok (oracle : N -> N -> N) (s : st) : Prop :=
  forall rsp q, In rsp (g_trdel s) -> In q (g_treq s) -> r_rspto rsp = q_id q ->
                r_paddr rsp = oracle (q_pid q) (q_vaddr q).

Lemma fwd_paddr s oracle f :
  Inv s -> env_ok oracle s -> In f (g_fwd s) ->
  is_req (f_top f) = true /\
  f_bot f = xlate (cfg s) (m_id (f_bot f))
                  (oracle (m_pid (f_top f)) (page_of (log2ps (cfg s)) (m_addr (f_top f))))
                  (f_top f).
Proof.
  intros H Henv Hin. destruct H.
  rewrite Forall_forall in i_fwd0. destruct (i_fwd0 _ Hin) as ((Hreq & Hpage & Hpid) & Hto & Hbot).
  split; auto. rewrite Hbot at 1. f_equal.
  rewrite Hpage, Hpid. apply Henv; auto.
  - apply i_fwr0. now apply in_map.
  - apply i_fwq0. now apply in_map.
Qed.

Lemma xaddr_nowrap c p a : p + 2 ^ log2ps c <= W64 -> xaddr c p a = p + a mod 2 ^ log2ps c.
Proof.
  intros Hle. unfold xaddr. apply N.mod_small.
  assert (2 ^ log2ps c <> 0) by (apply N.pow_nonzero; lia).
  pose proof (N.mod_upper_bound a (2 ^ log2ps c) H). lia.
Qed.

Lemma xlate_fields c id p r :
  is_req r = true ->
  let b := xlate c id p r in
  m_id b = id /\ m_kind b = m_kind r /\ m_src b = P_BOT /\
  m_addr b = xaddr c p (m_addr r) /\ m_dst b = mem_dst c (m_addr b) /\
  m_pid b = 0 /\ m_rspto b = m_rspto r /\ m_flags b = N.land (m_flags r) F_CANWAIT /\
  (m_kind r = KRead -> m_size b = m_size r) /\
  (m_kind r = KWrite -> m_data b = m_data r /\ m_mask b = m_mask r).
Proof.
  unfold xlate, is_req. destruct (m_kind r); try discriminate; cbn; intuition discriminate.
Qed.

(** one lookup serves only requests of its own page and process *)
Lemma fwd_share s f1 f2 :
  Inv s -> In f1 (g_fwd s) -> In f2 (g_fwd s) -> q_id (f_q f1) = q_id (f_q f2) ->
  page_of (log2ps (cfg s)) (m_addr (f_top f1)) = page_of (log2ps (cfg s)) (m_addr (f_top f2)) /\
  m_pid (f_top f1) = m_pid (f_top f2).
Proof.
  intros H H1 H2 E. destruct H.
  assert (Eq : f_q f1 = f_q f2).
  { eapply NoDup_map_inj_N; eauto; apply i_fwq0; now apply in_map. }
  rewrite Forall_forall in i_fwd0.
  destruct (i_fwd0 _ H1) as ((_ & Hp1 & Hi1) & _). destruct (i_fwd0 _ H2) as ((_ & Hp2 & Hi2) & _).
  rewrite Hp1, Hp2, Hi1, Hi2, Eq. auto.
Qed.

(** ** responses *)
Lemma answer_rspto r x : m_rspto (answer r x) = m_id r.
Proof. unfold answer; destruct (m_kind x); reflexivity. Qed.
Lemma answer_dst r x : m_dst (answer r x) = m_src r.
Proof. unfold answer; destruct (m_kind x); reflexivity. Qed.
Lemma answer_src r x : m_src (answer r x) = P_TOP.
Proof. unfold answer; destruct (m_kind x); reflexivity. Qed.
Lemma answer_data r x : m_kind x = KDataReady -> m_data (answer r x) = m_data x.
Proof. unfold answer; intros ->; reflexivity. Qed.
Lemma answer_kind r x : is_rsp x = true -> m_kind (answer r x) = m_kind x.
Proof. unfold answer, is_rsp; destruct (m_kind x); try discriminate; reflexivity. Qed.

Definition top_id (p : msg * msg) : N := m_id (fst p).

Lemma rsptos_are_top_ids s :
  Inv s -> map m_rspto (g_tretr s ++ top_out s) = map top_id (map pair_a (g_ans s)).
Proof.
  intros H. destruct H. rewrite i_tretr0, !map_map.
  apply map_ext_in. intros a Ha. rewrite Forall_forall in i_ans0.
  destruct (i_ans0 _ Ha) as (-> & _). now rewrite answer_rspto.
Qed.

Lemma pair_ids_nodup s :
  Inv s -> NoDup (map m_id (g_deliv s)) ->
  NoDup (map top_id (map pair_a (g_ans s) ++ g_idisc s ++ inflight s)).
Proof.
  intros H Hn. pose proof (fwd_once s H Hn) as Hf. destruct H.
  eapply Permutation_NoDup; [apply Permutation_map; exact i_pairs0|].
  rewrite !map_map in *. exact Hf.
Qed.

Lemma rsp_once s :
  Inv s -> NoDup (map m_id (g_deliv s)) -> NoDup (map m_rspto (g_tretr s ++ top_out s)).
Proof.
  intros H Hn. rewrite rsptos_are_top_ids by auto.
  pose proof (pair_ids_nodup s H Hn) as Hp. rewrite map_app in Hp. eapply NoDup_app_l; eauto.
Qed.

Lemma rsp_origin s o :
  Inv s -> In o (g_tretr s ++ top_out s) ->
  exists a f, In a (g_ans s) /\ In f (g_fwd s) /\ a_top a = f_top f /\ a_bot a = f_bot f /\
              o = answer (f_top f) (a_brsp a) /\ m_rspto (a_brsp a) = m_id (f_bot f) /\
              is_rsp (a_brsp a) = true /\ In (f_top f) (g_deliv s).
Proof.
  intros H Hin. pose proof H as H0. destruct H0. rewrite i_tretr0 in Hin.
  apply in_map_iff in Hin as (a & <- & Ha).
  rewrite Forall_forall in i_ans0. destruct (i_ans0 _ Ha) as (Ho & Hto & Hk).
  assert (Hp : In (pair_a a) (map pair_f (g_fwd s))).
  { eapply Permutation_in; [symmetry; exact i_pairs0|].
    apply in_or_app; left. now apply in_map. }
  apply in_map_iff in Hp as (f & Ef & Hf). unfold pair_f, pair_a in Ef. inversion Ef.
  exists a, f. repeat split; auto; try congruence.
  apply owed_from_delivered; auto. unfold owed. apply in_or_app; left. now apply in_map.
Qed.

(** ** the discard logs only grow *)
Definition ext {A} (a b : list A) : Prop := exists l, b = a ++ l.
Lemma ext_refl {A} (a : list A) : ext a a. Proof. exists []; now rewrite app_nil_r. Qed.
Lemma ext_trans {A} (a b c : list A) : ext a b -> ext b c -> ext a c.
Proof. intros [l1 ->] [l2 ->]. exists (l1 ++ l2). now rewrite app_assoc. Qed.
Lemma ext_app {A} (a l : list A) : ext a (a ++ l). Proof. now exists l. Qed.
Lemma ext_In {A} (a b : list A) x : ext a b -> In x a -> In x b.
Proof. intros [l ->] H. apply in_or_app; auto. Qed.

Definition grows (s s' : st) : Prop :=
  ext (g_disc s) (g_disc s') /\ ext (g_idisc s) (g_idisc s') /\
  ext (g_fwd s) (g_fwd s') /\ ext (g_ans s) (g_ans s').
Lemma grows_refl s : grows s s. Proof. repeat split; apply ext_refl. Qed.
Lemma grows_trans a b c : grows a b -> grows b c -> grows a c.
Proof. intros (A1 & A2 & A3 & A4) (B1 & B2 & B3 & B4); repeat split; eauto using ext_trans. Qed.

Ltac crush_grows :=
  repeat match goal with
         | |- context [match ?x with _ => _ end] => destruct x
         end; cbn; try apply grows_refl;
  try (repeat split; cbn; first [apply ext_refl|apply ext_app]).

Lemma translate_grows s : grows s (fst (translate s)).
Proof. unfold translate. crush_grows. Qed.
Lemma parse_translation_grows s : grows s (fst (parse_translation s)).
Proof. unfold parse_translation, send_down. crush_grows. Qed.
Lemma respond_grows s : grows s (fst (respond s)).
Proof. unfold respond. crush_grows. Qed.
Lemma handle_ctrl_grows s : grows s (fst (handle_ctrl s)).
Proof. unfold handle_ctrl. crush_grows. Qed.

Lemma guard_grows f s : (forall s, grows s (fst (f s))) -> grows s (fst (guard f s)).
Proof. intros Hf. unfold guard. destruct (crashed s); [apply grows_refl|apply Hf]. Qed.

Lemma iter_grows f : (forall s, grows s (fst (f s))) -> forall n s, grows s (fst (iter n f s)).
Proof.
  intros Hf; induction n as [|n IH]; intros s; cbn; [apply grows_refl|].
  pose proof (guard_grows f s Hf) as H1. destruct (guard f s) as [s1 p1]; cbn in H1.
  specialize (IH s1). destruct (iter n f s1) as [s2 p2]; cbn in *.
  eapply grows_trans; eauto.
Qed.

Lemma run_pipeline_grows s : grows s (fst (run_pipeline s)).
Proof.
  unfold run_pipeline.
  pose proof (iter_grows _ respond_grows (width (cfg s)) s) as H1.
  destruct (iter (width (cfg s)) respond s) as [s1 p1]; cbn in H1.
  pose proof (iter_grows _ parse_translation_grows (width (cfg s)) s1) as H2.
  destruct (iter (width (cfg s)) parse_translation s1) as [s2 p2]; cbn in H2.
  pose proof (iter_grows _ translate_grows (width (cfg s)) s2) as H3.
  destruct (iter (width (cfg s)) translate s2) as [s3 p3]; cbn in *.
  eauto using grows_trans.
Qed.

Lemma tick_grows s : grows s (fst (tick s)).
Proof.
  unfold tick.
  assert (H1 : grows s (fst (if flushing s then iter (width (cfg s)) parse_translation s
                             else run_pipeline s))).
  { destruct (flushing s).
    - apply iter_grows, parse_translation_grows.
    - apply run_pipeline_grows. }
  destruct (if flushing s then _ else _) as [s1 p1]; cbn in H1.
  pose proof (guard_grows handle_ctrl s1 handle_ctrl_grows) as H2.
  destruct (guard handle_ctrl s1) as [s2 p2]; cbn in *. eauto using grows_trans.
Qed.

Ltac gsolve := first [apply grows_refl | repeat split; cbn; apply ext_refl].

Lemma step_grows s e : grows s (fst (step s e)).
Proof.
  unfold step. destruct (crashed s); [apply grows_refl|].
  destruct e as [m|m|r|m| | | | | ]; try (destruct (room _ _); gsolve).
  - pose proof (tick_grows s) as H1. destruct (tick s) as [s' p]; cbn in H1.
    destruct (crashed s'); exact H1.
  - destruct (top_out s); gsolve.
  - destruct (bot_out s); gsolve.
  - destruct (tr_out s); gsolve.
  - destruct (ctl_out s); gsolve.
Qed.

Lemma run_grows evs : forall s, grows s (run s evs).
Proof.
  induction evs as [|e evs IH]; intros s; [apply grows_refl|].
  change (run s (e :: evs)) with (run (fst (step s e)) evs).
  eapply grows_trans; [apply step_grows|apply IH].
Qed.

(** a request discarded while waiting is never forwarded, hence never answered *)
Lemma discarded_never_forwarded s r :
  Inv s -> NoDup (map m_id (g_deliv s)) -> In r (g_disc s) ->
  ~ In (m_id r) (map m_id (map f_top (g_fwd s))) /\
  ~ In (m_id r) (map m_rspto (g_tretr s ++ top_out s)).
Proof.
  intros H Hn Hin. pose proof (owed_ids_nodup s H Hn) as Ho. unfold owed in Ho.
  rewrite map_app in Ho.
  assert (Hnf : ~ In (m_id r) (map m_id (map f_top (g_fwd s)))).
  { intros Hc. eapply NoDup_app_disj; [exact Ho|exact Hc|].
    apply in_map. apply in_or_app; now left. }
  split; auto. intros Hc. apply Hnf.
  apply in_map_iff in Hc as (o & Eo & Ho').
  apply rsp_origin in Ho' as (a & f & _ & Hf & _ & _ & -> & _); auto.
  rewrite answer_rspto in Eo. rewrite <- Eo. apply in_map. now apply in_map.
Qed.

(** a forwarded request whose in-flight entry was discarded is never answered *)
Lemma discarded_never_answered s p :
  Inv s -> NoDup (map m_id (g_deliv s)) -> In p (g_idisc s) ->
  ~ In (m_id (fst p)) (map m_rspto (g_tretr s ++ top_out s)).
Proof.
  intros H Hn Hin Hc. pose proof (pair_ids_nodup s H Hn) as Hp.
  rewrite rsptos_are_top_ids in Hc by auto. rewrite map_app in Hp.
  eapply NoDup_app_disj; [exact Hp|exact Hc|].
  change (m_id (fst p)) with (top_id p). apply in_map. apply in_or_app; now left.
Qed.

(** what a discard request does when it is taken *)
Lemma discard_effect s c rest :
  ctl_in s = c :: rest -> m_kind c = KCtrl -> has_flag c F_DISCARD = true -> ctl_out s = [] ->
  let s' := fst (handle_ctrl s) in
  txs s' = [] /\ inflight s' = [] /\ flushing s' = true /\
  g_disc s' = g_disc s ++ waiting (txs s) /\ g_idisc s' = g_idisc s ++ inflight s /\
  ctl_out s' = [ctl_ack c] /\ g_fwd s' = g_fwd s /\ g_ans s' = g_ans s /\
  bot_out s' = bot_out s /\ top_out s' = top_out s.
Proof.
  intros Hin Hk Hf Hout. unfold handle_ctrl. rewrite Hin, Hk, Hf, Hout. cbn.
  repeat split; reflexivity.
Qed.

(** ** no Go panic is reachable under protocol-respecting traffic *)
Definition ctl_okb (m : msg) : bool :=
  kind_eqb (m_kind m) KCtrl && (has_flag m F_DISCARD || has_flag m F_RESTART).

Definition benign (e : ev) : bool :=
  match e with
  | EDeliverTop m => is_req m
  | EDeliverBot m => is_rsp m
  | EDeliverCtl m => ctl_okb m
  | _ => true
  end.

Record Safe (s : st) : Prop := {
  s_nc  : crashed s = false;
  s_top : Forall (fun m => is_req m = true) (top_in s);
  s_bot : Forall (fun m => is_rsp m = true) (bot_in s);
  s_ctl : Forall (fun m => ctl_okb m = true) (ctl_in s)
}.

Lemma tx_in_ok s a t b : Inv s -> txs s = a ++ t :: b -> tx_ok (log2ps (cfg s)) t.
Proof.
  intros H E. destruct H. rewrite E in i_txs0.
  apply Forall_app in i_txs0 as [_ Hb]. now inversion Hb.
Qed.

Lemma translate_safe s : Inv s -> Safe s -> Safe (fst (translate s)).
Proof.
  intros H S; pose proof S as [Hnc Ht Hb Hc]; unfold translate.
  destruct (top_in s) as [|req rest] eqn:Etop; [exact S|].
  inversion Ht as [|? ? Hreq Hrest]; subst. rewrite Hreq; cbn [negb].
  destruct (split_first _ (txs s)) as [[[a t] b]|] eqn:Esp.
  - apply split_first_spec in Esp as (Etx & _ & _).
    destruct (tx_in_ok s a t b H Etx) as (Hne & _ & _).
    destruct (t_reqs t) eqn:Er; [congruence|]. constructor; cbn; auto.
  - destruct (room _ _); [|exact S]. constructor; cbn; auto.
Qed.

Lemma send_down_safe s a t b r rs rsp : Safe s -> Safe (send_down s a t b r rs rsp).
Proof. intros [Hnc Ht Hb Hc]. constructor; cbn; auto. Qed.

Lemma parse_translation_safe s : Inv s -> Safe s -> Safe (fst (parse_translation s)).
Proof.
  intros H Hs; unfold parse_translation.
  destruct (split_first drainable (txs s)) as [[[a t] b]|] eqn:Esp.
  - apply split_first_spec in Esp as (Etx & Hd & _).
    destruct (tx_in_ok s a t b H Etx) as (Hne & Hall & _).
    unfold drainable, is_done in Hd.
    destruct (t_reqs t) as [|r rs] eqn:Er; [congruence|].
    destruct (t_rsp t) as [rsp|]; [|discriminate].
    inversion Hall as [|? ? (Hreq & _) _]; subst. rewrite Hreq; cbn [negb].
    destruct (room _ _); [|exact Hs]. now apply send_down_safe.
  - destruct (tr_in s) as [|rsp rest] eqn:Etr; [exact Hs|].
    destruct (split_first (fun t => q_id (t_q t) =? r_rspto rsp) (txs s)) as [[[a t] b]|] eqn:Esp2.
    2:{ destruct Hs; constructor; cbn; auto. }
    apply split_first_spec in Esp2 as (Etx & _ & _).
    destruct (tx_in_ok s a t b H Etx) as (Hne & Hall & _).
    destruct (t_reqs t) as [|r rs] eqn:Er; [congruence|].
    inversion Hall as [|? ? (Hreq & _) _]; subst. rewrite Hreq; cbn [negb].
    destruct (room _ _); cbn [fst].
    + pose proof (send_down_safe s a t b r rs rsp Hs) as [? ? ? ?]. constructor; cbn; auto.
    + destruct Hs; constructor; cbn; auto.
Qed.

Lemma respond_safe s : Inv s -> Safe s -> Safe (fst (respond s)).
Proof.
  intros H S; pose proof S as [Hnc Ht Hb Hc]; unfold respond.
  destruct (bot_in s) as [|rsp rest] eqn:Ebot; [exact S|].
  inversion Hb as [|? ? Hrsp Hrest]; subst. rewrite Hrsp; cbn [negb].
  destruct (split_first _ (inflight s)) as [[[a p] b]|].
  - destruct (room _ _); [|exact S]. constructor; cbn; auto.
  - constructor; cbn; auto.
Qed.

Lemma handle_ctrl_safe s : Inv s -> Safe s -> Safe (fst (handle_ctrl s)).
Proof.
  intros H S; pose proof S as [Hnc Ht Hb Hc]; unfold handle_ctrl.
  destruct (ctl_in s) as [|c rest] eqn:Ectl; [exact S|].
  inversion Hc as [|? ? Hok Hrest]; subst. unfold ctl_okb in Hok.
  apply andb_prop in Hok as [Hk Hfl]. rewrite Hk; cbn [negb].
  destruct (has_flag c F_DISCARD).
  { destruct (room _ _); [|exact S]. constructor; cbn; auto. }
  cbn in Hfl. rewrite Hfl.
  destruct (room _ _); [|exact S]. constructor; cbn; auto.
Qed.

Definition IS (s : st) : Prop := Inv s /\ Safe s.
Definition ISNF (s : st) : Prop := Inv s /\ Safe s /\ flushing s = false.

Lemma respond_isnf s : ISNF s -> ISNF (fst (respond s)).
Proof.
  intros (H & S & F). split; [|split]; [now apply respond_inv|now apply respond_safe|].
  destruct (respond_stable s) as [_ E]. congruence.
Qed.
Lemma parse_translation_isnf s : ISNF s -> ISNF (fst (parse_translation s)).
Proof.
  intros (H & S & F).
  split; [|split]; [now apply parse_translation_inv|now apply parse_translation_safe|].
  destruct (parse_translation_stable s) as [_ E]. congruence.
Qed.
Lemma translate_isnf s : ISNF s -> ISNF (fst (translate s)).
Proof.
  intros (H & S & F). split; [|split]; [now apply translate_inv|now apply translate_safe|].
  destruct (translate_stable s) as [_ E]. congruence.
Qed.
Lemma parse_translation_is s : IS s -> IS (fst (parse_translation s)).
Proof. intros (H & S). split; [now apply parse_translation_inv|now apply parse_translation_safe]. Qed.
Lemma handle_ctrl_is s : IS s -> IS (fst (handle_ctrl s)).
Proof. intros (H & S). split; [now apply handle_ctrl_inv|now apply handle_ctrl_safe]. Qed.

Lemma tick_safe s : Inv s -> Safe s -> Safe (fst (tick s)).
Proof.
  intros H S. unfold tick.
  assert (H1 : IS (fst (if flushing s then iter (width (cfg s)) parse_translation s
                        else run_pipeline s))).
  { destruct (flushing s) eqn:F.
    - apply iter_pres; [apply parse_translation_is|split; auto].
    - unfold run_pipeline.
      pose proof (iter_pres ISNF respond respond_isnf (width (cfg s)) s
                            (conj H (conj S F))) as H1.
      destruct (iter (width (cfg s)) respond s) as [s1 p1]; cbn in H1.
      pose proof (iter_pres ISNF _ parse_translation_isnf (width (cfg s)) s1 H1) as H2.
      destruct (iter (width (cfg s)) parse_translation s1) as [s2 p2]; cbn in H2.
      pose proof (iter_pres ISNF _ translate_isnf (width (cfg s)) s2 H2) as H3.
      destruct (iter (width (cfg s)) translate s2) as [s3 p3]; cbn in *.
      destruct H3 as (? & ? & _). split; auto. }
  destruct (if flushing s then _ else _) as [s1 p1]; cbn in H1.
  pose proof (guard_pres IS handle_ctrl s1 handle_ctrl_is H1) as H2.
  destruct (guard handle_ctrl s1) as [s2 p2]; apply H2.
Qed.

Lemma step_safe s e : Inv s -> Safe s -> benign e = true -> Safe (fst (step s e)).
Proof.
  intros H S Hb. unfold step. destruct S as [Hnc Ht Hbo Hc]. rewrite Hnc.
  destruct e as [m|m|r|m| | | | | ]; cbn in Hb.
  - destruct (room _ _); constructor; cbn; auto. apply Forall_app; split; auto.
  - destruct (room _ _); constructor; cbn; auto. apply Forall_app; split; auto.
  - destruct (room _ _); constructor; cbn; auto.
  - destruct (room _ _); constructor; cbn; auto. apply Forall_app; split; auto.
  - pose proof (tick_safe s H (Build_Safe s Hnc Ht Hbo Hc)) as H1.
    destruct (tick s) as [s' p]; cbn in H1. destruct (crashed s'); exact H1.
  - destruct (top_out s); constructor; cbn; auto.
  - destruct (bot_out s); constructor; cbn; auto.
  - destruct (tr_out s); constructor; cbn; auto.
  - destruct (ctl_out s); constructor; cbn; auto.
Qed.

Lemma run_safe evs : forall s, Inv s -> Safe s -> forallb benign evs = true -> Safe (run s evs).
Proof.
  induction evs as [|e evs IH]; intros s H S Hb; [exact S|].
  cbn in Hb. apply andb_prop in Hb as [He Hr].
  change (run s (e :: evs)) with (run (fst (step s e)) evs).
  apply IH; auto using step_inv, step_safe.
Qed.

Lemma init_safe c : Safe (init c).
Proof. constructor; cbn; auto. Qed.

(** ** progress: nothing is silently stuck *)
Lemma iter_respond_idle n : forall s,
  crashed s = false -> bot_in s = [] -> iter n respond s = (s, false).
Proof.
  induction n as [|n IH]; intros s Hc Hb; cbn; auto.
  unfold guard. rewrite Hc. unfold respond at 1. rewrite Hb. rewrite IH; auto.
Qed.

(** a completed lookup with a waiting request: the request goes down in this
    very tick if the bottom port has room (no memory response pending) *)
Lemma forward_progress s a t b r rs rsp :
  crashed s = false -> flushing s = false -> bot_in s = [] -> (1 <= width (cfg s))%nat ->
  split_first drainable (txs s) = Some (a, t, b) ->
  t_reqs t = r :: rs -> t_rsp t = Some rsp -> is_req r = true ->
  room (width (cfg s)) (bot_out s) = true ->
  ext (g_fwd s ++ [mkFwd r (t_q t) rsp (xlate (cfg s) (next_bid s) (r_paddr rsp) r)])
      (g_fwd (fst (tick s))).
Proof.
  intros Hc Hf Hb Hw Hsp Hr Hrsp Hreq Hroom.
  unfold tick. rewrite Hf. unfold run_pipeline.
  rewrite iter_respond_idle by auto.
  destruct (width (cfg s)) as [|w] eqn:Ew; [lia|].
  remember (iter (S w) translate) as IT eqn:EIT.
  cbn [iter]. unfold guard at 1. rewrite Hc. unfold parse_translation at 1.
  rewrite Hsp, Hr, Hrsp, Hreq. cbn [negb]. rewrite ?Ew in *. rewrite Hroom.
  match goal with |- context [iter w parse_translation ?x] => set (s1 := x) end.
  assert (E0 : g_fwd s1 = g_fwd s ++ [mkFwd r (t_q t) rsp (xlate (cfg s) (next_bid s) (r_paddr rsp) r)])
    by reflexivity.
  pose proof (iter_grows _ parse_translation_grows w s1) as (_ & _ & G1 & _).
  destruct (iter w parse_translation s1) as [a1 q1]; cbn [fst] in G1.
  pose proof (iter_grows _ translate_grows (S w) a1) as (_ & _ & G2 & _). rewrite <- EIT in G2.
  destruct (IT a1) as [a2 q2]; cbn [fst] in G2.
  pose proof (guard_grows handle_ctrl a2 handle_ctrl_grows) as (_ & _ & G3 & _).
  destruct (guard handle_ctrl a2) as [a3 q3]; cbn [fst] in *.
  rewrite <- E0. eauto using ext_trans.
Qed.

(** a memory response for an in-flight request is answered in this very tick
    if the top port has room *)
Lemma respond_progress s x rest a p b :
  crashed s = false -> flushing s = false -> (1 <= width (cfg s))%nat ->
  bot_in s = x :: rest -> is_rsp x = true ->
  split_first (fun p => m_id (snd p) =? m_rspto x) (inflight s) = Some (a, p, b) ->
  room (width (cfg s)) (top_out s) = true ->
  ext (g_ans s ++ [mkAns (fst p) (snd p) x (answer (fst p) x)]) (g_ans (fst (tick s))).
Proof.
  intros Hc Hf Hw Hb Hk Hsp Hroom.
  unfold tick. rewrite Hf. unfold run_pipeline.
  destruct (width (cfg s)) as [|w] eqn:Ew; [lia|].
  remember (iter (S w) parse_translation) as IP eqn:EIP.
  remember (iter (S w) translate) as IT eqn:EIT.
  cbn [iter]. unfold guard at 1. rewrite Hc. unfold respond at 1.
  rewrite Hb, Hk. cbn [negb]. rewrite ?Ew in *. rewrite Hsp, Hroom.
  match goal with |- context [iter w respond ?y] => set (s1 := y) end.
  assert (E0 : g_ans s1 = g_ans s ++ [mkAns (fst p) (snd p) x (answer (fst p) x)]) by reflexivity.
  pose proof (iter_grows _ respond_grows w s1) as (_ & _ & _ & G1).
  destruct (iter w respond s1) as [a1 q1]; cbn [fst] in G1.
  pose proof (iter_grows _ parse_translation_grows (S w) a1) as (_ & _ & _ & G2). rewrite <- EIP in G2.
  destruct (IP a1) as [a2 q2]; cbn [fst] in G2.
  pose proof (iter_grows _ translate_grows (S w) a2) as (_ & _ & _ & G3). rewrite <- EIT in G3.
  destruct (IT a2) as [a3 q3]; cbn [fst] in G3.
  pose proof (guard_grows handle_ctrl a3 handle_ctrl_grows) as (_ & _ & _ & G4).
  destruct (guard handle_ctrl a3) as [a4 q4]; cbn [fst] in *.
  rewrite <- E0. eauto using ext_trans.
Qed.

(** while flushing, nothing is forwarded and nothing is answered *)
Definition frozen (s s' : st) : Prop :=
  txs s' = txs s /\ g_fwd s' = g_fwd s /\ g_ans s' = g_ans s /\ inflight s' = inflight s /\
  bot_out s' = bot_out s /\ top_out s' = top_out s /\ ctl_in s' = ctl_in s /\
  ctl_out s' = ctl_out s /\ flushing s' = flushing s.

Lemma frozen_refl s : frozen s s.
Proof. repeat split. Qed.
Lemma frozen_trans a b c : frozen a b -> frozen b c -> frozen a c.
Proof. unfold frozen. intuition congruence. Qed.

Lemma parse_translation_frozen s : txs s = [] -> frozen s (fst (parse_translation s)).
Proof.
  intros E. unfold parse_translation. rewrite E. cbn.
  destruct (tr_in s); cbn; repeat split.
Qed.

Lemma iter_parse_frozen n : forall s,
  txs s = [] -> frozen s (fst (iter n parse_translation s)).
Proof.
  induction n as [|n IH]; intros s E; cbn; [apply frozen_refl|].
  assert (H1 : frozen s (fst (guard parse_translation s))).
  { unfold guard. destruct (crashed s); [apply frozen_refl|now apply parse_translation_frozen]. }
  destruct (guard parse_translation s) as [s1 p1]; cbn in H1.
  assert (E1 : txs s1 = []) by (destruct H1 as (-> & _); auto).
  specialize (IH s1 E1). destruct (iter n parse_translation s1) as [s2 p2]; cbn in *.
  eapply frozen_trans; eauto.
Qed.

Lemma flushing_inert s :
  Inv s -> flushing s = true -> ctl_in s = [] ->
  let s' := fst (tick s) in
  g_fwd s' = g_fwd s /\ g_ans s' = g_ans s /\ bot_out s' = bot_out s /\ top_out s' = top_out s /\
  txs s' = [] /\ inflight s' = [] /\ flushing s' = true.
Proof.
  intros H Hf Hctl. destruct (i_flush s H Hf) as [Et Ei].
  unfold tick. rewrite Hf.
  pose proof (iter_parse_frozen (width (cfg s)) s Et) as H1.
  destruct (iter (width (cfg s)) parse_translation s) as [s1 p1]; cbn in H1.
  destruct H1 as (E1 & F1 & A1 & I1 & B1 & T1 & C1 & O1 & L1).
  unfold guard. destruct (crashed s1); cbn.
  - repeat split; congruence.
  - unfold handle_ctrl. rewrite C1, Hctl. cbn. repeat split; congruence.
Qed.
