(** Panic freedom and liveness of the DRAM model: shape invariant, a ranking
    function (remaining work) that no part of Tick increases and that a fair
    round strictly decreases while anything is in flight. *)
From Coq Require Import Arith Permutation Lia.
From VLib Require Import Akita ListX PermAC.
From VMem Require Import Pipeline PipelineProofs PipelineLive Dram DramProofs.
From RecordUpdate Require Import RecordSet.
Import RecordSetNotations.
Local Open Scope nat_scope.

Arguments can_push : simpl never.

(** ** Shape of a bank *)
Record bank_wf (c : cfg) (b : bank) : Prop := {
  bw_pipe : pipe_wf (b_pipe b);
  bw_cps : p_cps (b_pipe b) = c_cps c;
  bw_nstage : p_nstage (b_pipe b) = c_depth c;
  bw_width : p_width (b_pipe b) = c_width c;
  bw_dq : Forall (fun x => snd x <= c_missdelay c) (b_delayq b)
}.

(** ** Weights *)
Definition E (c : cfg) : nat := c_cps c * c_depth c + 1.
Definition dq_w (c : cfg) (q : list (item * nat)) : nat :=
  list_sum (map (fun x => snd x + 1 + E c) q).
Definition bank_w (c : cfg) (b : bank) : nat :=
  dq_w c (b_delayq b) + pipe_w (b_pipe b) + length (b_post b).
Definition banks_w (c : cfg) (bs : list bank) : nat := list_sum (map (bank_w c) bs).
Definition Wp (c : cfg) : nat := c_missdelay c + E c + 2.

(** the ranking function *)
Definition mu (s : dram) : nat :=
  length (top_in s) * (Wp (cf s) + 1) + length (pending s) * Wp (cf s) + banks_w (cf s) (banks s).

Definition busy (s : dram) : Prop := top_in s <> [] \/ items s <> [].

Lemma list_sum_cons x l : list_sum (x :: l) = x + list_sum l.
Proof. reflexivity. Qed.

Section Live.
Context (c : cfg) (Hcps : 1 <= c_cps c) (Hdep : 1 <= c_depth c) (Hwid : 1 <= c_width c)
        (Hpost : 1 <= c_postcap c) (Htop : 1 <= c_topcap c).
Set Default Proof Using "All".

Lemma entry_w_E b : bank_wf c b -> entry_w (b_pipe b) = E c.
Proof. intros []. unfold entry_w, E. congruence. Qed.

Lemma dq_w_app q1 q2 : dq_w c (q1 ++ q2) = dq_w c q1 + dq_w c q2.
Proof. unfold dq_w. now rewrite map_app, list_sum_app. Qed.

(** ** finalizeBanks *)
Lemma fin_single_live s b s' b' p :
  fin_single s b = Some (s', b', p) ->
  exists post', b' = b <| b_post := post' |> /\ length post' + b2n p = length (b_post b) /\
    cf s' = cf s /\ (p = false -> s' = s \/ b_post b <> []) /\
    (b_post b = [] -> s' = s /\ b' = b /\ p = false) /\
    (b_post b <> [] -> can_push (c_topcap (cf s)) (top_out s) = true -> p = true).
Proof.
  unfold fin_single. intros H. destruct (b_post b) as [|it rest] eqn:Ep.
  { inversion H; subst. exists []. repeat split; auto; try congruence.
    destruct b'; cbn in *; subst; reflexivity. }
  destruct (is_access (i_req it)); [|discriminate].
  destruct (late_commit s it) as [[it' st']|]; [|discriminate].
  unfold fin_send in H. destruct (can_push (c_topcap (cf s)) (top_out s)); cbn [negb] in H.
  - destruct ((m_src (i_req it') =? 0)%N || (m_src (i_req it') =? P_TOP)%N); [discriminate|].
    inversion H; subst. exists rest. repeat split; auto; try congruence; try (cbn; lia); try (intros; right; congruence).
  - inversion H; subst. exists (it' :: rest). repeat split; auto; try congruence; try (cbn; lia); try (intros; right; congruence).
Qed.

Lemma fin_bank_live fuel : forall s b s' b' p,
  fin_bank fuel s b = Some (s', b', p) ->
  exists post', b' = b <| b_post := post' |> /\ length post' + b2n p <= length (b_post b) /\
    cf s' = cf s /\
    (b_post b = [] -> s' = s /\ b' = b /\ p = false) /\
    (fuel <> 0 -> b_post b <> [] -> can_push (c_topcap (cf s)) (top_out s) = true -> p = true).
Proof.
  induction fuel as [|fuel IH]; intros s b s' b' p H; cbn [fin_bank] in H.
  { inversion H; subst. exists (b_post b'). repeat split; auto; try (cbn; lia); try congruence.
    destruct b'; reflexivity. }
  destruct (fin_single s b) as [[[s1 b1] p1]|] eqn:E1; [|discriminate].
  apply fin_single_live in E1. destruct E1 as (post1 & B1 & L1 & C1 & _ & Z1 & P1).
  destruct p1.
  - destruct (fin_bank fuel s1 b1) as [[[s2 b2] p2]|] eqn:E2; [|discriminate].
    inversion H; subst s' b' p. apply IH in E2. destruct E2 as (post2 & B2 & L2 & C2 & _ & _).
    exists post2. split; [subst b2 b1; destruct b; reflexivity|].
    split; [subst b1; cbn in *; lia|]. split; [congruence|]. split; auto.
    intros Hn. destruct (Z1 Hn) as (_ & _ & Hf). discriminate.
  - inversion H; subst. exists post1. split; [reflexivity|]. split; [lia|]. split; [auto|]. split; [exact Z1|].
    intros _ Hne Hc. apply P1; auto.
Qed.

Lemma bank_w_post b post' : bank_w c (b <| b_post := post' |>) + length (b_post b) = bank_w c b + length post'.
Proof. destruct b; unfold bank_w; cbn. lia. Qed.

Lemma bank_wf_post b post' : bank_wf c b -> bank_wf c (b <| b_post := post' |>).
Proof. intros []. destruct b; constructor; cbn in *; auto. Qed.

Lemma fin_banks_live : forall bs s s' bs' p,
  fin_banks s bs = Some (s', bs', p) -> cf s = c -> Forall (bank_wf c) bs ->
  length bs' = length bs /\ Forall (bank_wf c) bs' /\ cf s' = c /\
  banks_w c bs' + b2n p <= banks_w c bs /\
  (Forall (fun b => b_post b = []) bs -> s' = s /\ bs' = bs /\ p = false) /\
  (Exists (fun b => b_post b <> []) bs -> can_push (c_topcap c) (top_out s) = true -> p = true).
Proof.
  induction bs as [|b r IH]; intros s s' bs' p H Hc Hw; cbn [fin_banks] in H.
  { inversion H; subst s' bs' p. repeat split; auto. intros He; inversion He. }
  destruct (fin_bank (S (length (b_post b))) s b) as [[[s1 b1] p1]|] eqn:E1; [|discriminate].
  destruct (fin_banks s1 r) as [[[s2 r'] p2]|] eqn:E2; [|discriminate].
  inversion H; subst s' bs' p. inversion Hw as [|x y Hb Hr]; subst x y.
  apply fin_bank_live in E1. destruct E1 as (post1 & B1 & L1 & C1 & Z1 & P1).
  destruct (IH _ _ _ _ E2) as (A1 & A2 & A3 & A4 & A5 & A6); [congruence|auto|].
  split; [cbn; lia|]. split; [constructor; auto; subst b1; now apply bank_wf_post|]. split; [auto|].
  split.
  { unfold banks_w in *. cbn [map]. rewrite !list_sum_cons. subst b1. pose proof (bank_w_post b post1).
    destruct p1, p2; cbn [b2n orb] in *; lia. }
  split.
  - intros Hall. inversion Hall as [|x y H1 H2]; subst x y. destruct (Z1 H1) as (-> & -> & ->).
    destruct (A5 H2) as (-> & -> & ->). auto.
  - intros Hex Hcan. inversion Hex as [x y Hne|x y Hex']; subst x y.
    + rewrite P1; auto. rewrite Hc. exact Hcan.
    + destruct (list_eq_nil_dec (b_post b)) as [Hn|Hn].
      * destruct (Z1 Hn) as (-> & _ & ->). rewrite A6; auto.
      * rewrite P1; auto. rewrite Hc. exact Hcan.
Qed.

(** ** tickPipelines *)
Lemma tick_pipe_bank_live b b' p :
  tick_pipe_bank c b = (b', p) -> bank_wf c b ->
  bank_wf c b' /\ bank_w c b' + b2n p <= bank_w c b /\
  (pipe_items (b_pipe b) = [] -> b' = b /\ p = false) /\
  (pipe_items (b_pipe b) <> [] -> b_post b = [] -> p = true).
Proof.
  unfold tick_pipe_bank. destruct (pipe_tick (c_postcap c) (b_pipe b) (b_post b)) as [[pp buf] pr] eqn:Et.
  intros H [W1 W2 W3 W4 W5]; inversion H; subst.
  destruct (pipe_tick_fields _ _ _ _ _ _ Et) as (F1 & F2 & F3).
  split; [|split; [|split]].
  - destruct b; constructor; cbn in *; try congruence. eapply pipe_tick_wf; eauto.
  - apply pipe_tick_w in Et; [|lia]. destruct b; unfold bank_w; cbn in *. lia.
  - intros He. unfold pipe_tick in Et.
    assert (Hl : tick_lanes (p_cps (b_pipe b)) (c_postcap c) (p_lanes (b_pipe b)) (b_post b) =
                 (p_lanes (b_pipe b), b_post b, false)).
    { unfold pipe_items in He. clear -He. generalize (b_post b) as buf0. revert He.
      induction (p_lanes (b_pipe b)) as [|l r IH]; intros He buf0; cbn [tick_lanes]; auto.
      cbn in He. apply app_eq_nil in He. destruct He as [H1 H2].
      rewrite tick_lane_empty by auto. rewrite IH by auto. reflexivity. }
    rewrite Hl in Et. inversion Et; subst. split; auto. destruct b as [[? ? ? ?] ? ? ? ?]; reflexivity.
  - intros Hne Hp. eapply pipe_tick_progress; eauto. rewrite Hp. unfold buf_can_push. cbn [length].
    apply Nat.ltb_lt. lia.
Qed.

Lemma tick_pipes_live : forall bs bs' p,
  tick_pipes c bs = (bs', p) -> Forall (bank_wf c) bs ->
  length bs' = length bs /\ Forall (bank_wf c) bs' /\
  banks_w c bs' + b2n p <= banks_w c bs /\
  (Forall (fun b => pipe_items (b_pipe b) = []) bs -> bs' = bs /\ p = false) /\
  (Exists (fun b => pipe_items (b_pipe b) <> []) bs -> Forall (fun b => b_post b = []) bs -> p = true).
Proof.
  induction bs as [|b r IH]; intros bs' p H Hw; cbn [tick_pipes] in H.
  { inversion H; subst. repeat split; auto. intros He; inversion He. }
  destruct (tick_pipe_bank c b) as [b1 p1] eqn:E1. destruct (tick_pipes c r) as [r1 p2] eqn:E2.
  inversion H; subst bs' p. inversion Hw as [|x y Hb Hr]; subst x y.
  destruct (tick_pipe_bank_live _ _ _ E1) as (B1 & B2 & B3 & B4); auto.
  destruct (IH _ _ eq_refl) as (A1 & A2 & A3 & A4 & A5); auto.
  split; [cbn; lia|]. split; [constructor; auto|]. split.
  { unfold banks_w in *. cbn [map]. rewrite !list_sum_cons. destruct p1, p2; cbn [b2n orb] in *; lia. }
  split.
  - intros Hall. inversion Hall as [|x y Ha Hb']; subst x y.
    destruct (B3 Ha) as (-> & ->). destruct (A4 Hb') as (-> & ->). auto.
  - intros Hex Hall. inversion Hall as [|x y Ha Hb']; subst x y.
    inversion Hex as [x y Hne|x y Hex']; subst x y.
    + rewrite B4; auto.
    + rewrite A5; auto. apply orb_true_r.
Qed.

(** ** tickDelayQueues *)
Lemma delay_loop_live cap : forall q pp buf pp' buf' rem,
  delay_loop cap pp buf q = Some (pp', buf', rem) ->
  pipe_wf pp -> p_cps pp = c_cps c -> p_nstage pp = c_depth c ->
  dq_w c rem + pipe_w pp' <= dq_w c q + pipe_w pp /\ buf' = buf /\ pipe_wf pp' /\
  p_cps pp' = p_cps pp /\ p_nstage pp' = p_nstage pp /\ p_width pp' = p_width pp /\
  (forall n, Forall (fun x => snd x <= n) q -> Forall (fun x => snd x <= n) rem) /\
  (q <> [] -> pipe_can_accept cap pp buf = true -> dq_w c rem + pipe_w pp' < dq_w c q + pipe_w pp).
Proof.
  induction q as [|[it n] r IH]; intros pp buf pp' buf' rem H W Hc Hn; cbn [delay_loop] in H.
  { inversion H; subst pp' buf' rem. repeat split; auto; try apply W. intros Hne; exfalso; apply Hne; reflexivity. }
  assert (Hkeep : forall n', n' <= n -> (n' < n \/ pipe_can_accept cap pp buf = false) ->
    ('(p2, buf2, rem0) <- delay_loop cap pp buf r ;; Some (p2, buf2, (it, n') :: rem0)) = Some (pp', buf', rem) ->
    dq_w c rem + pipe_w pp' <= dq_w c ((it, n) :: r) + pipe_w pp /\ buf' = buf /\ pipe_wf pp' /\
    p_cps pp' = p_cps pp /\ p_nstage pp' = p_nstage pp /\ p_width pp' = p_width pp /\
    (forall m, Forall (fun x => snd x <= m) ((it, n) :: r) -> Forall (fun x => snd x <= m) rem) /\
    ((it, n) :: r <> [] -> pipe_can_accept cap pp buf = true ->
     dq_w c rem + pipe_w pp' < dq_w c ((it, n) :: r) + pipe_w pp)).
  { intros n' Hle Hlt H'. destruct (delay_loop cap pp buf r) as [[[p2 buf2] rem0]|] eqn:El; [|discriminate].
    inversion H'; subst. destruct (IH _ _ _ _ _ El W Hc Hn) as (A1 & A2 & A3 & A4 & A5 & A6 & A7 & A8).
    unfold dq_w in *. cbn [map snd]. rewrite !list_sum_cons.
    split; [lia|]. split; [auto|]. split; [auto|]. split; [auto|]. split; [auto|]. split; [auto|]. split.
    - intros m Hm. inversion Hm; subst. constructor; cbn in *; [lia|auto].
    - intros _ Hca. destruct Hlt as [Hlt|Hlt]; [lia|congruence]. }
  destruct (Nat.pred n) as [|n'] eqn:En.
  - destruct (pipe_can_accept cap pp buf) eqn:Eca.
    + destruct (pipe_accept cap pp buf it) as [[p1 buf1]|] eqn:Ea; [|discriminate].
      destruct (pipe_accept_w _ _ _ _ _ _ Ea W) as (B1 & B2 & B3 & B4 & B5 & B6); [lia|lia|].
      subst buf1. destruct (IH _ _ _ _ _ H B3) as (A1 & A2 & A3 & A4 & A5 & A6 & A7 & A8); [congruence|congruence|].
      unfold dq_w in *. cbn [map snd]. rewrite !list_sum_cons. unfold entry_w in B1. rewrite Hc, Hn in B1.
      unfold E in *.
      split; [lia|]. split; [auto|]. split; [auto|]. split; [congruence|]. split; [congruence|]. split; [congruence|]. split.
      * intros m Hm. inversion Hm; auto.
      * intros _ _. lia.
    + apply (Hkeep 0); auto. lia.
  - apply (Hkeep (S n')); auto; lia.
Qed.

Lemma bank_w_set b pp post rem :
  bank_w c (b <| b_pipe := pp |> <| b_post := post |> <| b_delayq := rem |>) = dq_w c rem + pipe_w pp + length post.
Proof. destruct b; reflexivity. Qed.

Lemma tick_delay_bank_live b b' p :
  tick_delay_bank c b = Some (b', p) -> bank_wf c b ->
  bank_wf c b' /\ bank_w c b' <= bank_w c b /\
  (b_delayq b = [] -> b' = b /\ p = false) /\
  (b_delayq b <> [] -> pipe_can_accept (c_postcap c) (b_pipe b) (b_post b) = true -> bank_w c b' < bank_w c b).
Proof.
  unfold tick_delay_bank. intros H [W1 W2 W3 W4 W5]. destruct (b_delayq b) as [|x q] eqn:Eq.
  { inversion H; subst b' p. split; [constructor; auto; rewrite Eq; constructor|]. split; [lia|]. split; [auto|]. intros Hne; exfalso; apply Hne; reflexivity. }
  rewrite <- Eq in *.
  destruct (delay_loop (c_postcap c) (b_pipe b) (b_post b) (b_delayq b)) as [[[pp buf] rem]|] eqn:El; [|discriminate].
  inversion H; subst. destruct (delay_loop_live _ _ _ _ _ _ _ El W1 W2 W3) as (A1 & A2 & A3 & A4 & A5 & A6 & A7 & A8).
  subst buf. split; [|split; [|split]].
  - destruct b; constructor; cbn in *; auto; congruence.
  - rewrite bank_w_set. unfold bank_w. lia.
  - intros Hn. rewrite Hn in Eq. discriminate.
  - intros Hne Hca. specialize (A8 Hne Hca). rewrite bank_w_set. unfold bank_w. lia.
Qed.

Lemma tick_delays_live : forall bs bs' p,
  tick_delays c bs = Some (bs', p) -> Forall (bank_wf c) bs ->
  length bs' = length bs /\ Forall (bank_wf c) bs' /\ banks_w c bs' <= banks_w c bs /\
  (Forall (fun b => b_delayq b = []) bs -> bs' = bs /\ p = false) /\
  (Exists (fun b => b_delayq b <> []) bs ->
   Forall (fun b => pipe_can_accept (c_postcap c) (b_pipe b) (b_post b) = true) bs ->
   banks_w c bs' < banks_w c bs).
Proof.
  induction bs as [|b r IH]; intros bs' p H Hw; cbn [tick_delays] in H.
  { inversion H; subst bs' p. repeat split; auto. intros He; inversion He. }
  destruct (tick_delay_bank c b) as [[b1 p1]|] eqn:E1; [|discriminate].
  destruct (tick_delays c r) as [[r1 p2]|] eqn:E2; [|discriminate].
  inversion H; subst bs' p. inversion Hw as [|x y Hb Hr]; subst x y.
  destruct (tick_delay_bank_live _ _ _ E1 Hb) as (B1 & B2 & B3 & B4).
  destruct (IH _ _ eq_refl Hr) as (A1 & A2 & A3 & A4 & A5).
  split; [cbn; lia|]. split; [constructor; auto|]. split.
  { unfold banks_w in *. cbn [map]. rewrite !list_sum_cons. lia. }
  split.
  - intros Hall. inversion Hall as [|x y Ha Hb']; subst x y.
    destruct (B3 Ha) as (-> & ->). destruct (A4 Hb') as (-> & ->). auto.
  - intros Hex Hall. inversion Hall as [|x y Ha Hb']; subst x y.
    unfold banks_w in *. cbn [map]. rewrite !list_sum_cons.
    inversion Hex as [x y Hne|x y Hex']; subst x y.
    + specialize (B4 Hne Ha). lia.
    + specialize (A5 Hex' Hb'). lia.
Qed.

(** ** dispatchPending *)
Lemma set_nth_length {B} (x : B) : forall l n, length (set_nth n x l) = length l.
Proof using. induction l as [|y l IH]; intros [|n]; cbn; auto. Qed.

Lemma set_nth_w : forall bs id b b', nth_error bs id = Some b ->
  banks_w c (set_nth id b' bs) + bank_w c b = banks_w c bs + bank_w c b'.
Proof.
  unfold banks_w. induction bs as [|x r IH]; intros [|id] b b' Hn; cbn in Hn; try discriminate.
  - inversion Hn; subst. cbn [set_nth map]. rewrite !list_sum_cons. lia.
  - cbn [set_nth map]. rewrite !list_sum_cons. specialize (IH _ _ b' Hn). lia.
Qed.

Lemma set_nth_Forall {B} (P : B -> Prop) x : forall l n, Forall P l -> P x -> Forall P (set_nth n x l).
Proof using.
  induction l as [|y l IH]; intros [|n] Hl Hx; cbn; auto; inversion Hl; subst; constructor; auto.
Qed.

Lemma bank_w_miss b it n lr rv :
  bank_w c (b <| b_delayq := b_delayq b ++ [(it, n)] |> <| b_lastrow := lr |> <| b_rowvalid := rv |>) =
  bank_w c b + (n + 1 + E c).
Proof.
  destruct b as [bp bpost blr brv bdq]. unfold bank_w. cbn [b_delayq b_pipe b_post set].
  change (dq_w c (bdq ++ [(it, n)]) + pipe_w bp + length bpost = dq_w c bdq + pipe_w bp + length bpost + (n + 1 + E c)).
  rewrite dq_w_app. unfold dq_w at 2. cbn. lia.
Qed.

Lemma dispatch_one_live bs it bs' gone :
  dispatch_one c bs it = Some (bs', gone) -> Forall (bank_wf c) bs ->
  length bs' = length bs /\ Forall (bank_wf c) bs' /\
  (if gone then banks_w c bs' + 1 <= banks_w c bs + Wp c else bs' = bs) /\
  (Forall (fun b => pipe_can_accept (c_postcap c) (b_pipe b) (b_post b) = true) bs -> gone = true).
Proof.
  unfold dispatch_one. intros H Hw.
  destruct (bank_addr c (i_req it)) as [addr|]; [|discriminate].
  destruct (select c addr (length bs)) as [id|]; [|discriminate].
  destruct (nth_error bs id) as [b|] eqn:En; [|discriminate].
  assert (Hb : bank_wf c b) by (rewrite Forall_forall in Hw; apply Hw; eapply nth_error_In; eauto).
  assert (Hacc : forall lr rv,
    (if negb (pipe_can_accept (c_postcap c) (b_pipe b) (b_post b)) then Some (bs, false)
     else '(p, buf) <- pipe_accept (c_postcap c) (b_pipe b) (b_post b) it ;;
          Some (set_nth id (mkBank p buf lr rv (b_delayq b)) bs, true)) = Some (bs', gone) ->
    length bs' = length bs /\ Forall (bank_wf c) bs' /\
    (if gone then banks_w c bs' + 1 <= banks_w c bs + Wp c else bs' = bs) /\
    (Forall (fun b => pipe_can_accept (c_postcap c) (b_pipe b) (b_post b) = true) bs -> gone = true)).
  { intros lr rv H'. destruct (pipe_can_accept (c_postcap c) (b_pipe b) (b_post b)) eqn:Eca; cbn [negb] in H'.
    - destruct (pipe_accept (c_postcap c) (b_pipe b) (b_post b) it) as [[p buf]|] eqn:Ea; [|discriminate].
      inversion H'; subst bs' gone. destruct Hb as [W1 W2 W3 W4 W5].
      destruct (pipe_accept_w _ _ _ _ _ _ Ea W1) as (B1 & B2 & B3 & B4 & B5 & B6); [lia|lia|].
      split; [apply set_nth_length|]. split.
      { apply set_nth_Forall; auto. constructor; cbn; auto; congruence. }
      split; auto.
      pose proof (set_nth_w _ _ _ (mkBank p buf lr rv (b_delayq b)) En) as Hs.
      unfold bank_w in Hs. cbn [b_delayq b_pipe b_post] in Hs. unfold entry_w in B1. rewrite W2, W3 in B1. subst buf.
      unfold Wp, E. lia.
    - inversion H'; subst bs' gone. repeat split; auto. intros Hall.
      rewrite Forall_forall in Hall. rewrite Hall in Eca; [discriminate|]. eapply nth_error_In; eauto. }
  destruct ((0 <? c_rowlog2 c)%N && Nat.ltb 0 (c_missdelay c)).
  - destruct (b_rowvalid b && (b_lastrow b =? row_of c addr (length bs))%N).
    + destruct b as [bp bpost blr brv bdq]; cbn in *. apply (Hacc (row_of c addr (length bs)) true). exact H.
    + inversion H; subst bs' gone. destruct Hb as [W1 W2 W3 W4 W5].
      split; [apply set_nth_length|]. split.
      { apply set_nth_Forall; auto. destruct b; constructor; cbn in *; auto.
        apply Forall_app; split; auto. }
      split; auto.
      match goal with |- context [set_nth id ?b' bs] => pose proof (set_nth_w _ _ _ b' En) as Hs end.
      rewrite bank_w_miss in Hs. unfold Wp. lia.
  - destruct b as [bp bpost blr brv bdq]; cbn in *. apply (Hacc blr brv). exact H.
Qed.

Lemma dispatch_loop_live : forall l bs bs' rem p,
  dispatch_loop c bs l = Some (bs', rem, p) -> Forall (bank_wf c) bs ->
  length bs' = length bs /\ Forall (bank_wf c) bs' /\
  length rem * Wp c + banks_w c bs' + b2n p <= length l * Wp c + banks_w c bs /\
  (l <> [] -> Forall (fun b => pipe_can_accept (c_postcap c) (b_pipe b) (b_post b) = true) bs -> p = true).
Proof.
  induction l as [|it r IH]; intros bs bs' rem p H Hw; cbn [dispatch_loop] in H.
  { inversion H; subst bs' rem p. split; [auto|]. split; [auto|]. split; [cbn; lia|]. intros Hne; exfalso; apply Hne; reflexivity. }
  destruct (dispatch_one c bs it) as [[bs1 gone]|] eqn:E1; [|discriminate].
  destruct (dispatch_loop c bs1 r) as [[[bs2 rem2] p2]|] eqn:E2; [|discriminate].
  inversion H; subst bs' rem p.
  destruct (dispatch_one_live _ _ _ _ E1 Hw) as (B1 & B2 & B3 & B4).
  destruct (IH _ _ _ _ E2 B2) as (A1 & A2 & A3 & A4).
  split; [lia|]. split; [auto|]. split.
  - destruct gone; cbn [length orb b2n] in *.
    + destruct p2; cbn [b2n] in *; lia.
    + subst bs1. lia.
  - intros _ Hall. rewrite (B4 Hall). reflexivity.
Qed.

(** ** drainTopPort *)
Lemma drain_msgs_live : forall l s s', drain_msgs s l = Some s' ->
  cf s' = cf s /\ banks s' = banks s /\ top_in s' = top_in s /\
  length (pending s') = length (pending s) + length l.
Proof.
  induction l as [|m r IH]; intros s s' H; cbn [drain_msgs] in H.
  { inversion H; subst. repeat split; auto. }
  destruct (drain_one s m) as [s1|] eqn:E; [|discriminate].
  apply drain_one_spec in E. destruct E as [it []].
  destruct (IH _ _ H) as (A1 & A2 & A3 & A4). repeat split; try congruence.
  rewrite A4, dr_pending, app_length. cbn. lia.
Qed.

(** ** The whole Tick *)
Record Shape (s : dram) : Prop := {
  sh_cf : cf s = c;
  sh_len : length (banks s) = c_banks c;
  sh_banks : Forall (bank_wf c) (banks s)
}.

Lemma init_bank_wf : bank_wf c (init_bank c).
Proof. constructor; cbn; auto. apply pipe_clear_wf. Qed.

Lemma init_shape : Shape (init c).
Proof.
  constructor; cbn; auto.
  - apply repeat_length.
  - apply Forall_forall. intros b Hb. apply repeat_spec in Hb. subst. apply init_bank_wf.
Qed.

Lemma empty_can_accept bs :
  Forall (bank_wf c) bs -> Forall (fun b => pipe_items (b_pipe b) = []) bs ->
  Forall (fun b => pipe_can_accept (c_postcap c) (b_pipe b) (b_post b) = true) bs.
Proof.
  intros Hw He. rewrite Forall_forall in *. intros b Hb. destruct (Hw b Hb).
  apply pipe_empty_can_accept; auto; try lia.
Qed.

Lemma empty_banks_items bs :
  Forall (fun b => b_post b = []) bs -> Forall (fun b => pipe_items (b_pipe b) = []) bs ->
  Forall (fun b => b_delayq b = []) bs -> banks_items bs = [].
Proof.
  induction bs as [|b r IH]; intros H1 H2 H3; auto.
  inversion H1; inversion H2; inversion H3; subst. cbn [banks_items flat_map].
  fold (banks_items r). rewrite IH; auto. unfold bank_items.
  repeat match goal with H : _ = [] |- _ => rewrite H end. reflexivity.
Qed.

Lemma tick_live s s' p :
  tick s = Some (s', p) -> Shape s ->
  Shape s' /\ mu s' <= mu s /\ top_in s' = [] /\
  (top_out s = [] -> busy s -> mu s' < mu s).
Proof.
  unfold tick. intros H [Scf Slen Sb].
  destruct (finalize_banks s) as [[s1 p1]|] eqn:E1; [|discriminate].
  destruct (tick_pipelines s1) as [s2 p2] eqn:E2.
  destruct (tick_delay_queues s2) as [[s3 p3]|] eqn:E3; [|discriminate].
  destruct (dispatch_pending s3) as [[s4 p4]|] eqn:E4; [|discriminate].
  destruct (drain_top s4) as [[s5 p5]|] eqn:E5; [|discriminate].
  inversion H; subst s' p. clear H.
  (* finalize *)
  unfold finalize_banks in E1.
  destruct (fin_banks s (banks s)) as [[[s1' bs1] q1]|] eqn:F1; [|discriminate]. inversion E1; subst s1 p1. clear E1.
  destruct (fin_banks_spec _ _ _ _ _ F1) as (dn & R & _).
  destruct R as (R1&R2&R3&R4&R5&R6&R7&R8&R9&R10&R11).
  destruct (fin_banks_live _ _ _ _ _ F1 Scf Sb) as (A1 & A2 & A3 & A4 & A5 & A6).
  (* pipelines *)
  unfold tick_pipelines in E2. cbn in E2. rewrite A3 in E2.
  destruct (tick_pipes c bs1) as [bs2 q2] eqn:F2. inversion E2; subst s2 p2. clear E2.
  destruct (tick_pipes_live _ _ _ F2 A2) as (B1 & B2 & B3 & B4 & B5).
  (* delay queues *)
  unfold tick_delay_queues in E3. cbn in E3. rewrite A3 in E3.
  destruct (tick_delays c bs2) as [[bs3 q3]|] eqn:F3; [|discriminate]. inversion E3; subst s3 p3. clear E3.
  destruct (tick_delays_live _ _ _ F3 B2) as (C1 & C2 & C3 & C4 & C5).
  (* dispatch *)
  unfold dispatch_pending in E4. cbn in E4. rewrite A3, R3 in E4.
  destruct (dispatch_loop c bs3 (pending s)) as [[[bs4 rem] q4]|] eqn:F4; [|discriminate].
  inversion E4; subst s4 p4. clear E4.
  destruct (dispatch_loop_live _ _ _ _ _ F4 C2) as (D1 & D2 & D3 & D4).
  (* drain *)
  unfold drain_top in E5. cbn in E5. rewrite R4 in E5.
  destruct (drain_msgs _ (top_in s)) as [s6|] eqn:F5; [|discriminate]. inversion E5; subst s5 p5. clear E5.
  destruct (drain_msgs_live _ _ _ F5) as (G1 & G2 & G3 & G4). cbn in G1, G2, G3, G4.
  assert (Hmu : mu s6 + length (top_in s) + b2n q1 + b2n q2 + (banks_w c bs2 - banks_w c bs3) + b2n q4 <= mu s).
  { unfold mu. rewrite G1, G2, G3, G4, A3, Scf. cbn [length]. lia. }
  split; [|split; [|split]].
  - constructor; try congruence.
  - lia.
  - exact G3.
  - intros Hout [Hb|Hb].
    { destruct (top_in s); [exfalso; apply Hb; reflexivity|]. cbn [length] in Hmu. lia. }
    assert (Hcan : can_push (c_topcap c) (top_out s) = true).
    { rewrite Hout. unfold can_push. cbn [length]. apply Nat.ltb_lt. lia. }
    destruct (Forall_Exists_dec (fun b => b_post b = []) (fun b => list_eq_nil_dec (b_post b)) (banks s)) as [Fp|Ep].
    2:{ assert (q1 = true) as -> by (apply A6; auto). cbn [b2n] in Hmu. lia. }
    destruct (A5 Fp) as (-> & -> & ->).
    destruct (Forall_Exists_dec (fun b => pipe_items (b_pipe b) = [])
                (fun b => list_eq_nil_dec (pipe_items (b_pipe b))) (banks s)) as [Fq|Eq].
    2:{ assert (q2 = true) as -> by (apply B5; auto). cbn [b2n] in Hmu. lia. }
    destruct (B4 Fq) as (-> & ->).
    pose proof (empty_can_accept _ Sb Fq) as Hacc.
    destruct (Forall_Exists_dec (fun b => b_delayq b = []) (fun b => list_eq_nil_dec (b_delayq b)) (banks s)) as [Fd|Ed].
    2:{ assert (banks_w c bs3 < banks_w c (banks s)) by (apply C5; auto). lia. }
    destruct (C4 Fd) as (-> & ->).
    assert (Hp : pending s <> []).
    { intros Hn. apply Hb. unfold items. rewrite Hn, empty_banks_items; auto. }
    assert (q4 = true) as -> by (apply D4; auto). cbn [b2n] in Hmu. lia.
Qed.

End Live.
Unset Default Proof Using.

(** ** Panic freedom *)
Section NoPanic.
Context (c : cfg) (Hbanks : 1 <= c_banks c) (Hilv : (c_log2ilv c < 64)%N).
Set Default Proof Using "All".

Definition wfr (r : msg) : Prop := wf_req c r = true.

Lemma wf_req_parts r : wfr r ->
  is_access r = true /\ (m_src r =? 0)%N = false /\ (m_src r =? P_TOP)%N = false /\
  (exists a, saddr c r = Some a /\ oob (c_capacity c) a (req_len r) = false) /\
  (exists ba, bank_addr c r = Some ba) /\
  (m_mask r = [] \/ length (m_data r) <= length (m_mask r)).
Proof.
  unfold wfr, wf_req. intros H.
  repeat (apply andb_prop in H; let H' := fresh "P" in destruct H as [H H']).
  split; [exact H|]. split; [now apply negb_true_iff|]. split; [now apply negb_true_iff|].
  split. { destruct (saddr c r) as [a|]; [|discriminate]. exists a. split; auto. now apply negb_true_iff. }
  split. { destruct (bank_addr c r) as [ba|]; [|discriminate]. eauto. }
  destruct (m_mask r); [left; auto|right]. apply Nat.leb_le. exact P0.
Qed.

Lemma wf_commit_item st it : wfr (i_req it) -> exists r, commit_item c st it = Some r.
Proof.
  intros H. destruct (wf_req_parts _ H) as (Ha & _ & _ & (a & Hs & Ho) & _ & Hm).
  unfold commit_item, is_access, req_len in *. destruct (m_kind (i_req it)) eqn:Ek; try discriminate.
  - unfold commit_read. rewrite Hs, Ho. eauto.
  - unfold commit_write. rewrite Hs, Ho. destruct (m_mask (i_req it)) as [|b mk] eqn:Em; [eauto|].
    destruct Hm as [Hm|Hm]; [discriminate|].
    destruct (merge_masked_some (m_data (i_req it)) (st_read st a (length (m_data (i_req it)))) (b :: mk)) as [new ->];
      auto using st_read_length. eauto.
Qed.

Lemma i_req_stable c' : stable c' i_req.
Proof.
  right. intros st it it' st' H. unfold commit_item in H.
  destruct (m_kind (i_req it)); try discriminate.
  - destruct (commit_read c' st (i_req it)); inversion H; reflexivity.
  - destruct (commit_write c' st (i_req it)); inversion H; reflexivity.
Qed.

Definition wfis (l : list item) : Prop := Forall wfr (map i_req l).

Lemma fin_single_ok s b : cf s = c -> wfis (b_post b) -> exists r, fin_single s b = Some r.
Proof.
  intros Hc Hw. unfold fin_single. destruct (b_post b) as [|it rest]; [eauto|].
  inversion Hw as [|x y Hit Hrest]; subst x y.
  destruct (wf_req_parts _ Hit) as (Ha & Hs0 & Hs1 & _). rewrite Ha.
  unfold late_commit. rewrite Hc.
  assert (Hl : exists it' st', (if c_early c || i_committed it then Some (it, stor s)
                                else commit_item c (stor s) it) = Some (it', st') /\ i_req it' = i_req it).
  { destruct (c_early c || i_committed it); [eauto|].
    destruct (wf_commit_item (stor s) it Hit) as [[it' st'] E]. exists it', st'. split; auto.
    apply commit_item_key in E. unfold key in E. congruence. }
  destruct Hl as (it' & st' & -> & Hr). unfold fin_send. rewrite Hr, Hs0, Hs1.
  destruct (negb (can_push (c_topcap (cf s)) (top_out s))); cbn [orb]; eauto.
Qed.

Lemma fin_single_keeps s b s' b' p :
  fin_single s b = Some (s', b', p) -> wfis (b_post b) -> wfis (b_post b') /\ cf s' = cf s.
Proof.
  intros H Hw. destruct (fin_single_spec _ _ _ _ _ H) as (dn & post' & R & -> & F).
  split; [|apply R]. specialize (F _ i_req (i_req_stable _)). unfold wfis in *. rewrite F, map_app in Hw.
  apply Forall_app in Hw. destruct b; cbn. apply Hw.
Qed.

Lemma fin_bank_ok fuel : forall s b, cf s = c -> wfis (b_post b) ->
  exists s' b' p, fin_bank fuel s b = Some (s', b', p) /\ cf s' = c.
Proof.
  induction fuel as [|fuel IH]; intros s b Hc Hw; cbn [fin_bank]; [eauto|].
  destruct (fin_single_ok s b Hc Hw) as [[[s1 b1] p1] E1]. rewrite E1.
  destruct (fin_single_keeps _ _ _ _ _ E1 Hw) as [Hw1 Hc1].
  destruct p1; [|exists s1, b1, false; split; congruence].
  destruct (IH s1 b1) as (s2 & b2 & p2 & E2 & Hc2); [congruence|auto|]. rewrite E2. eauto.
Qed.

Lemma fin_banks_ok : forall bs s, cf s = c -> Forall (fun b => wfis (b_post b)) bs ->
  exists r, fin_banks s bs = Some r.
Proof.
  induction bs as [|b r IH]; intros s Hc Hw; cbn [fin_banks]; [eauto|].
  inversion Hw as [|x y Hb Hr]; subst x y.
  destruct (fin_bank_ok (S (length (b_post b))) s b Hc Hb) as (s1 & b1 & p1 & E1 & Hc1). rewrite E1.
  destruct (IH s1 Hc1 Hr) as [[[s2 r'] p2] E2]. rewrite E2. eauto.
Qed.

Lemma delay_loop_ok cap : forall q pp buf, exists r, delay_loop cap pp buf q = Some r.
Proof.
  induction q as [|[it n] r IH]; intros pp buf; cbn [delay_loop]; [eauto|].
  assert (Hk : forall n', exists x, ('(p2, buf2, rem) <- delay_loop cap pp buf r ;; Some (p2, buf2, (it, n') :: rem)) = Some x).
  { intros n'. destruct (IH pp buf) as [[[p2 b2] rem] ->]. eauto. }
  destruct (Nat.pred n); auto.
  destruct (pipe_can_accept cap pp buf) eqn:Ec; auto.
  destruct (pipe_accept_some cap pp buf it Ec) as (p1 & b1 & ->). apply IH.
Qed.

Lemma tick_delays_ok : forall bs, exists r, tick_delays c bs = Some r.
Proof.
  induction bs as [|b r IH]; cbn [tick_delays]; [eauto|].
  assert (Hb : exists x, tick_delay_bank c b = Some x).
  { unfold tick_delay_bank. destruct (b_delayq b) as [|x q] eqn:Eq; [eauto|]. rewrite <- Eq.
    destruct (delay_loop_ok (c_postcap c) (b_delayq b) (b_pipe b) (b_post b)) as [[[pp buf] rem] ->]. eauto. }
  destruct Hb as [[b' p1] ->]. destruct IH as [[r' p2] ->]. eauto.
Qed.

Lemma dispatch_one_ok bs it : 1 <= length bs -> wfr (i_req it) ->
  exists bs' gone, dispatch_one c bs it = Some (bs', gone) /\ length bs' = length bs.
Proof.
  intros Hl Hw. destruct (wf_req_parts _ Hw) as (_ & _ & _ & _ & (addr & Hba) & _).
  unfold dispatch_one. rewrite Hba.
  assert (Hsel : exists id, select c addr (length bs) = Some id /\ id < length bs).
  { unfold select. destruct (length bs) as [|n] eqn:En; [lia|].
    assert (Hi : (ilv_size c =? 0)%N = false).
    { unfold ilv_size. apply N.ltb_lt in Hilv. rewrite Hilv. apply N.eqb_neq. apply N.pow_nonzero. discriminate. }
    rewrite Hi. eexists. split; [reflexivity|].
    assert (Hm : ((addr / ilv_size c) mod N.of_nat (S n) < N.of_nat (S n))%N) by (apply N.mod_lt; lia).
    lia. }
  destruct Hsel as (id & -> & Hid).
  destruct (nth_error bs id) as [b|] eqn:En; [|apply nth_error_None in En; lia].
  assert (Hacc : forall lr rv, exists bs' gone,
    (if negb (pipe_can_accept (c_postcap c) (b_pipe b) (b_post b)) then Some (bs, false)
     else '(p, buf) <- pipe_accept (c_postcap c) (b_pipe b) (b_post b) it ;;
          Some (set_nth id (mkBank p buf lr rv (b_delayq b)) bs, true)) = Some (bs', gone) /\ length bs' = length bs).
  { intros lr rv. destruct (pipe_can_accept (c_postcap c) (b_pipe b) (b_post b)) eqn:Ec; cbn [negb]; [|eauto].
    destruct (pipe_accept_some _ _ _ it Ec) as (p1 & b1 & ->). do 2 eexists. split; [reflexivity|]. apply set_nth_length. }
  destruct ((0 <? c_rowlog2 c)%N && Nat.ltb 0 (c_missdelay c)).
  - destruct (b_rowvalid b && (b_lastrow b =? row_of c addr (length bs))%N).
    + destruct b as [bp bpost blr brv bdq]; cbn in *. apply (Hacc (row_of c addr (length bs)) true).
    + do 2 eexists. split; [reflexivity|]. apply set_nth_length.
  - destruct b as [bp bpost blr brv bdq]; cbn in *. apply (Hacc blr brv).
Qed.

Lemma dispatch_loop_ok : forall l bs, 1 <= length bs -> wfis l -> exists r, dispatch_loop c bs l = Some r.
Proof.
  induction l as [|it r IH]; intros bs Hl Hw; cbn [dispatch_loop]; [eauto|].
  inversion Hw as [|x y Hit Hr]; subst x y.
  destruct (dispatch_one_ok bs it Hl Hit) as (bs1 & gone & -> & L1).
  destruct (IH bs1) as [[[bs2 rem] p2] ->]; [lia|auto|]. eauto.
Qed.

Lemma drain_msgs_ok : forall l s, cf s = c -> Forall wfr l -> exists s', drain_msgs s l = Some s'.
Proof.
  induction l as [|m r IH]; intros s Hc Hw; cbn [drain_msgs]; [eauto|].
  inversion Hw as [|x y Hm Hr]; subst x y.
  assert (H1 : exists s1, drain_one s m = Some s1).
  { unfold drain_one. destruct (wf_req_parts _ Hm) as (Ha & _). rewrite Ha. cbn [negb]. rewrite Hc.
    destruct (c_early c); [|eauto].
    destruct (wf_commit_item (stor s) (mkItem m false [] (length (g_drained s))) Hm) as [[it st] ->]. eauto. }
  destruct H1 as [s1 E1]. rewrite E1. apply IH; auto.
  apply drain_one_spec in E1. destruct E1 as [it []]. congruence.
Qed.

End NoPanic.
Unset Default Proof Using.

(** ** Assembly: reachable states under well-formed configuration and traffic *)
Lemma wf_cfg_parts c : wf_cfg c = true ->
  1 <= c_banks c /\ 1 <= c_width c /\ 1 <= c_depth c /\ 1 <= c_cps c /\ 1 <= c_topcap c /\
  1 <= c_postcap c /\ (c_log2ilv c < 64)%N.
Proof.
  unfold wf_cfg, cfg_ok. intros H.
  repeat (apply andb_prop in H; let H' := fresh "P" in destruct H as [H H']).
  repeat match goal with H : Nat.ltb _ _ = true |- _ => apply Nat.ltb_lt in H end.
  apply N.ltb_lt in P2. repeat split; auto.
Qed.

Record Good (c : cfg) (s : dram) : Prop := {
  gd_inv : Inv s;
  gd_shape : Shape c s;
  gd_alive : crashed s = false;
  gd_traffic : Forall (wfr c) (g_deliv s)
}.

Lemma init_good c : wf_cfg c = true -> Good c (init c).
Proof.
  intros Hc. destruct (wf_cfg_parts _ Hc) as (Hb & Hw & Hd & Hcps & Htop & Hpost & Hilv).
  constructor; cbn; auto using init_inv. apply init_shape; auto.
Qed.

Lemma tick_frame s s' p : tick s = Some (s', p) ->
  cf s' = cf s /\ g_deliv s' = g_deliv s /\ crashed s' = crashed s /\ g_retr s' = g_retr s.
Proof.
  unfold tick. intros H.
  destruct (finalize_banks s) as [[s1 p1]|] eqn:E1; [|discriminate].
  destruct (tick_pipelines s1) as [s2 p2] eqn:E2.
  destruct (tick_delay_queues s2) as [[s3 p3]|] eqn:E3; [|discriminate].
  destruct (dispatch_pending s3) as [[s4 p4]|] eqn:E4; [|discriminate].
  destruct (drain_top s4) as [[s5 p5]|] eqn:E5; [|discriminate]. inversion H; subst.
  apply finalize_banks_ok in E1. apply tick_pipelines_ok in E2. apply tick_delay_queues_ok in E3.
  apply dispatch_pending_ok in E4. destruct E1, E2, E3, E4.
  unfold drain_top in E5. destruct (drain_msgs _ (top_in s4)) as [s6|] eqn:E6; [|discriminate].
  inversion E5; subst.
  assert (Hd : forall l a b, drain_msgs a l = Some b ->
             cf b = cf a /\ g_deliv b = g_deliv a /\ crashed b = crashed a /\ g_retr b = g_retr a).
  { induction l as [|m r IH]; intros a b Hab; cbn [drain_msgs] in Hab; [inversion Hab; auto|].
    destruct (drain_one a m) as [a1|] eqn:Ea; [|discriminate].
    apply drain_one_spec in Ea. destruct Ea as [it []]. destruct (IH _ _ Hab) as (X1 & X2 & X3 & X4).
    repeat split; congruence. }
  destruct (Hd _ _ _ E6) as (X1 & X2 & X3 & X4). cbn in *. repeat split; congruence.
Qed.

Lemma in_post_items bs b it : In b bs -> In it (b_post b) -> In it (banks_items bs).
Proof.
  intros Hb Hi. unfold banks_items. apply in_flat_map. exists b. split; auto.
  unfold bank_items. rewrite !in_app_iff. auto.
Qed.

Lemma inv_items_wf c s : Inv s -> Forall (wfr c) (g_deliv s) -> wfis c (items s).
Proof.
  intros I Hd. unfold wfis. apply Forall_forall. intros r Hr. apply in_map_iff in Hr.
  destruct Hr as (it & <- & Hin).
  destruct (item_position s it I) as (_ & Hn & _); [apply in_or_app; auto|].
  rewrite Forall_forall in Hd. apply Hd. eapply nth_error_In; eauto.
Qed.

Lemma wfis_sub c l1 l2 : (forall it, In it l1 -> In it l2) -> wfis c l2 -> wfis c l1.
Proof.
  unfold wfis. rewrite !Forall_forall. intros Hs H r Hr. apply in_map_iff in Hr.
  destruct Hr as (it & <- & Hin). apply H. apply in_map. auto.
Qed.

(** Tick never panics in a good state *)
Lemma tick_ok c s : wf_cfg c = true -> Good c s -> exists s' p, tick s = Some (s', p).
Proof.
  intros Hc [I [Scf Slen Sb] Ha Ht].
  destruct (wf_cfg_parts _ Hc) as (Hb & Hw & Hd & Hcps & Htop & Hpost & Hilv).
  unfold tick.
  (* finalize *)
  assert (W0 : wfis c (items s)) by (apply inv_items_wf; auto).
  destruct (fin_banks_ok c Hb Hilv (banks s) s Scf) as [[[s1' bs1] q1] F1].
  { apply Forall_forall. intros b Hbin. eapply wfis_sub; [|exact W0].
    intros it Hit. unfold items. apply in_or_app. right. eapply in_post_items; eauto. }
  assert (E1 : finalize_banks s = Some (s1' <| banks := bs1 |>, q1)) by (unfold finalize_banks; rewrite F1; reflexivity).
  rewrite E1. set (s1 := s1' <| banks := bs1 |>) in *.
  pose proof (finalize_banks_ok _ _ _ E1) as O1. pose proof (sub_ok_inv _ _ O1 I) as I1.
  destruct (tick_pipelines s1) as [s2 p2] eqn:E2.
  pose proof (tick_pipelines_ok _ _ _ E2) as O2. pose proof (sub_ok_inv _ _ O2 I1) as I2.
  (* delay queues *)
  assert (C2 : cf s2 = c) by (rewrite (so_cf _ _ O2), (so_cf _ _ O1); auto).
  destruct (tick_delays_ok c Hb Hilv (banks s2)) as [[bs3 q3] F3].
  assert (E3 : tick_delay_queues s2 = Some (s2 <| banks := bs3 |>, q3)) by (unfold tick_delay_queues; rewrite C2, F3; reflexivity).
  rewrite E3. set (s3 := s2 <| banks := bs3 |>) in *.
  pose proof (tick_delay_queues_ok _ _ _ E3) as O3. pose proof (sub_ok_inv _ _ O3 I2) as I3.
  (* dispatch *)
  assert (C3 : cf s3 = c) by (rewrite (so_cf _ _ O3); auto).
  assert (D3 : g_deliv s3 = g_deliv s) by (rewrite (so_deliv _ _ O3), (so_deliv _ _ O2), (so_deliv _ _ O1); auto).
  assert (L3 : length (banks s3) = c_banks c).
  { destruct (fin_banks_live c Hcps Hd Hw Hpost Htop _ _ _ _ _ F1 Scf Sb) as (A1 & A2 & A3 & _).
    unfold tick_pipelines in E2. cbn in E2. rewrite A3 in E2.
    destruct (tick_pipes c bs1) as [bs2 q2] eqn:F2. inversion E2; subst s2 p2.
    destruct (tick_pipes_live c Hcps Hd Hw Hpost Htop _ _ _ F2 A2) as (B1 & B2 & _).
    cbn in F3. destruct (tick_delays_live c Hcps Hd Hw Hpost Htop _ _ _ F3 B2) as (C1 & _).
    cbn. lia. }
  assert (W3 : wfis c (items s3)) by (apply inv_items_wf; auto; rewrite D3; auto).
  destruct (dispatch_loop_ok c Hb Hilv (pending s3) (banks s3)) as [[[bs4 rem] q4] F4]; [lia| |].
  { eapply wfis_sub; [|exact W3]. intros it Hit. unfold items. apply in_or_app. auto. }
  assert (E4 : dispatch_pending s3 = Some (s3 <| banks := bs4 |> <| pending := rem |>, q4))
    by (unfold dispatch_pending; rewrite C3, F4; reflexivity).
  rewrite E4. set (s4 := s3 <| banks := bs4 |> <| pending := rem |>) in *.
  pose proof (dispatch_pending_ok _ _ _ E4) as O4. pose proof (sub_ok_inv _ _ O4 I3) as I4.
  (* drain *)
  assert (T4 : Forall (wfr c) (top_in s4)).
  { destruct I4 as [Id _ _ _]. rewrite (so_deliv _ _ O4), D3 in Id.
    rewrite <- Id in Ht. apply Forall_app in Ht. apply Ht. }
  destruct (drain_msgs_ok c Hb Hilv (top_in s4) (s4 <| top_in := [] |>)) as [s5 F5]; auto.
  unfold drain_top. rewrite F5. eauto.
Qed.

Lemma step_good c s e : wf_cfg c = true -> Good c s -> wf_ev c e = true ->
  Good c (fst (step s e)) /\ snd (step s e) <> OCrash.
Proof.
  intros Hc G He. pose proof G as [I Sh Ha Ht].
  destruct (wf_cfg_parts _ Hc) as (Hb & Hw & Hd & Hcps & Htop & Hpost & Hilv).
  pose proof (step_inv s e I) as I'. unfold step in *. rewrite Ha in *. destruct e as [m| |].
  - destruct (can_push _ _); cbn [fst snd] in *; [|split; [auto|discriminate]].
    split; [|discriminate]. destruct Sh. constructor; cbn; auto.
    + constructor; auto.
    + apply Forall_app; split; auto.
  - destruct (tick_ok c s Hc G) as (s' & p & E). rewrite E in *. cbn [fst snd] in *.
    split; [|discriminate].
    destruct (tick_frame _ _ _ E) as (F1 & F2 & F3 & F4).
    destruct (tick_live c Hcps Hd Hw Hpost Htop _ _ _ E Sh) as (Sh' & _).
    constructor; auto; congruence.
  - destruct (top_out s) as [|m r]; cbn [fst snd] in *; [split; [auto|discriminate]|].
    split; [|discriminate]. destruct Sh. constructor; cbn; auto. constructor; auto.
Qed.

Lemma run_good c evs : wf_cfg c = true -> Forall (fun e => wf_ev c e = true) evs ->
  forall s, Good c s -> Good c (run s evs).
Proof.
  intros Hc. induction evs as [|e r IH]; intros Hw s G; cbn; auto.
  inversion Hw; subst. apply IH; auto. apply step_good; auto.
Qed.

Lemma run_obs_no_crash c evs : wf_cfg c = true -> Forall (fun e => wf_ev c e = true) evs ->
  forall s, Good c s -> ~ In OCrash (run_obs s evs).
Proof.
  intros Hc. induction evs as [|e r IH]; intros Hw s G; cbn; auto.
  inversion Hw; subst. destruct (step_good c s e Hc G) as [G' Ho]; auto.
  destruct (step s e) as [s' o]. cbn in *. intros [Hx|Hx]; [congruence|]. eapply IH; eauto.
Qed.

(** ** Fair rounds: the requester empties the Top port, then the memory ticks *)
Definition retr_all (s : dram) : dram := run s (repeat ERetr (length (top_out s))).
Definition round (s : dram) : dram := fst (step (retr_all s) ETick).
Fixpoint rounds (n : nat) (s : dram) : dram :=
  match n with O => s | S k => rounds k (round s) end.

Lemma retr_all_spec : forall n s, crashed s = false -> length (top_out s) = n ->
  let s' := run s (repeat ERetr n) in
  top_out s' = [] /\ cf s' = cf s /\ banks s' = banks s /\ pending s' = pending s /\
  top_in s' = top_in s /\ g_deliv s' = g_deliv s /\ g_done s' = g_done s /\
  g_retr s' = g_retr s ++ top_out s /\ crashed s' = false.
Proof.
  induction n as [|n IH]; intros s Hc Hl.
  - cbn. destruct (top_out s); [|discriminate]. rewrite app_nil_r. repeat split; auto.
  - change (run s (repeat ERetr (S n))) with (run (fst (step s ERetr)) (repeat ERetr n)).
    unfold step. rewrite Hc. destruct (top_out s) as [|m r] eqn:Eo; [discriminate|]. cbn [fst].
    set (s1 := s <| top_out := r |> <| g_retr := g_retr s ++ [m] |>).
    destruct (IH s1) as (A1&A2&A3&A4&A5&A6&A7&A8&A9); [exact Hc|cbn in *; lia|].
    cbn zeta. repeat split; auto. rewrite A8. subst s1. cbn. rewrite <- app_assoc. reflexivity.
Qed.

Lemma retr_all_good c s : wf_cfg c = true -> Good c s -> Good c (retr_all s).
Proof.
  intros Hc G. unfold retr_all. apply run_good; auto.
  apply Forall_forall. intros e He. apply repeat_spec in He. subst. reflexivity.
Qed.

Lemma round_live c s : wf_cfg c = true -> Good c s ->
  Good c (round s) /\ mu (round s) <= mu s /\ (busy s -> mu (round s) < mu s) /\
  g_deliv (round s) = g_deliv s /\ top_in (round s) = [].
Proof.
  intros Hc G. destruct (wf_cfg_parts _ Hc) as (Hb & Hw & Hd & Hcps & Htop & Hpost & Hilv).
  pose proof (retr_all_good c s Hc G) as G1.
  destruct (retr_all_spec (length (top_out s)) s (gd_alive _ _ G) eq_refl) as (A1&A2&A3&A4&A5&A6&A7&A8&A9).
  fold (retr_all s) in *. unfold round.
  destruct (step_good c (retr_all s) ETick Hc G1 eq_refl) as [G2 _].
  split; [exact G2|]. unfold step in *. rewrite A9 in *.
  destruct (tick_ok c _ Hc G1) as (s' & p & E). rewrite E in *. cbn [fst] in *.
  destruct (tick_live c Hcps Hd Hw Hpost Htop _ _ _ E (gd_shape _ _ G1)) as (_ & L1 & L2 & L3).
  destruct (tick_frame _ _ _ E) as (F1 & F2 & _).
  assert (Hmu : mu (retr_all s) = mu s) by (unfold mu; rewrite A2, A3, A4, A5; reflexivity).
  assert (Hbusy : busy s -> busy (retr_all s)) by (unfold busy, items; rewrite A3, A4, A5; auto).
  split; [lia|]. split; [|split; congruence].
  intros Hbz. specialize (L3 A1 (Hbusy Hbz)). lia.
Qed.

Lemma busy_dec s : {busy s} + {~ busy s}.
Proof.
  unfold busy. destruct (list_eq_nil_dec (top_in s)); [|left; auto].
  destruct (list_eq_nil_dec (items s)); [right; intros [H|H]; auto|left; auto].
Qed.

(** after at most [mu s] fair rounds nothing is in flight *)
Lemma drains c : wf_cfg c = true -> forall k s, mu s <= k -> Good c s ->
  exists n, n <= mu s /\ ~ busy (rounds n s) /\ Good c (rounds n s) /\ g_deliv (rounds n s) = g_deliv s.
Proof.
  intros Hc. induction k as [|k IH]; intros s Hk G.
  - exists 0. cbn [rounds]. split; [lia|]. split; [|auto]. intros Hb.
    destruct (round_live c s Hc G) as (_ & _ & L & _). specialize (L Hb). lia.
  - destruct (busy_dec s) as [Hb|Hb]; [|exists 0; cbn [rounds]; split; [lia|auto]].
    destruct (round_live c s Hc G) as (G' & _ & L & D & _). specialize (L Hb).
    destruct (IH (round s)) as (n & N1 & N2 & N3 & N4); [lia|auto|].
    exists (S n). cbn [rounds]. split; [lia|]. split; [auto|]. split; [auto|]. congruence.
Qed.

(** in a state with nothing in flight every delivered request is answered *)
Lemma idle_answered s : Inv s -> ~ busy s ->
  g_drained s = g_deliv s /\ Permutation (map key (g_done s)) (keys_of (g_deliv s)) /\
  forall k r, nth_error (g_deliv s) k = Some r ->
    exists it, In it (g_done s) /\ i_seq it = k /\ i_req it = r /\
      In (rsp_of it) (g_retr s ++ top_out s) /\ answers (rsp_of it) r.
Proof.
  intros I Hb. unfold busy in Hb.
  assert (Hi : top_in s = []) by (destruct (top_in s); auto; exfalso; apply Hb; left; discriminate).
  assert (Hit : items s = []) by (destruct (items s); auto; exfalso; apply Hb; right; discriminate).
  pose proof I as [Id Io Ia Ic]. rewrite Hi, app_nil_r in Id. rewrite Hit in Ia. cbn in Ia.
  split; [auto|]. split; [congruence|]. intros k r Hn.
  assert (Hk : In (k, r) (keys_of (g_drained s))).
  { rewrite Id. clear -Hn. revert k r Hn. induction (g_deliv s) as [|m l IH] using rev_ind; intros k r Hn.
    - destruct k; discriminate.
    - rewrite keys_of_snoc. apply in_or_app. destruct (Nat.lt_ge_cases k (length l)) as [Hlt|Hge].
      + left. apply IH. rewrite nth_error_app1 in Hn; auto.
      + right. rewrite nth_error_app2 in Hn by lia. destruct (k - length l) as [|j] eqn:Ej; cbn in Hn.
        * inversion Hn; subst. left. f_equal. lia.
        * destruct j; discriminate. }
  eapply Permutation_in in Hk; [|symmetry; exact Ia]. apply in_map_iff in Hk. destruct Hk as (it & Hkey & Hin).
  inversion Hkey; subst. exists it. split; [auto|]. split; [auto|]. split; [auto|]. split.
  - rewrite Io. apply in_map. exact Hin.
  - apply rsp_of_answers.
Qed.

(** ** The ranking function is bounded by the number of items in flight *)
Lemma lane_w_bound cps (l : list (slot item)) : Forall (slot_ok cps) l ->
  lane_w cps l <= length (lane_items l) * (cps * length l + 1).
Proof.
  induction l as [|s rest IH]; intros H; cbn [lane_w length]; [lia|].
  inversion H as [|x y Hs Hr]; subst x y. specialize (IH Hr).
  assert (Hm : length (lane_items rest) * (cps * length rest + 1) <= length (lane_items rest) * (cps * S (length rest) + 1))
    by (apply Nat.mul_le_mono_l; lia).
  destruct s as [[e cl]|]; cbn [slot_w lane_items flat_map slot_items app length] in *;
    change (flat_map slot_items rest) with (lane_items rest) in *.
  - rewrite Nat.mul_succ_l. cbn in Hs.
    pose proof (Nat.mul_succ_r cps (length rest)). pose proof (Nat.mul_comm cps (length rest)).
    remember (length (lane_items rest) * (cps * S (length rest) + 1)) as A.
    remember (length (lane_items rest) * (cps * length rest + 1)) as B. lia.
  - lia.
Qed.

Lemma lanes_w_bound cps n (ls : list (list (slot item))) :
  Forall (fun l => length l = n) ls -> Forall (Forall (slot_ok cps)) ls ->
  lanes_w cps ls <= length (flat_map lane_items ls) * (cps * n + 1).
Proof.
  induction ls as [|l r IH]; intros H1 H2; cbn [lanes_w flat_map length]; [lia|].
  inversion H1 as [|x y Ha Hb]; subst x y. inversion H2 as [|x y Hc Hd]; subst x y.
  specialize (IH Hb Hd). pose proof (lane_w_bound cps l Hc) as Hl. rewrite Ha in Hl.
  rewrite app_length. lia.
Qed.

Lemma bank_w_bound c b : bank_wf c b -> bank_w c b <= length (bank_items b) * Wp c.
Proof.
  intros [[W1 W2 W3] Wc Wn Ww Wd]. unfold bank_w, bank_items. rewrite !app_length, map_length.
  assert (H1 : dq_w c (b_delayq b) <= length (b_delayq b) * Wp c).
  { unfold dq_w, Wp. induction (b_delayq b) as [|[it n] q IH]; cbn [map list_sum fold_right length snd]; [lia|].
    inversion Wd; subst. cbn in *. specialize (IH H2). fold (list_sum (map (fun x : item * nat => snd x + 1 + E c) q)) in *. lia. }
  assert (H2 : pipe_w (b_pipe b) <= length (pipe_items (b_pipe b)) * Wp c).
  { unfold pipe_w, pipe_items. pose proof (lanes_w_bound _ _ _ W2 W3) as Hl. rewrite Wc, Wn in *.
    etransitivity; [exact Hl|]. apply Nat.mul_le_mono_l. unfold Wp, E. lia. }
  assert (H3 : length (b_post b) <= length (b_post b) * Wp c) by (unfold Wp; nia).
  lia.
Qed.

Lemma mu_bound c s : Shape c s ->
  mu s <= (length (top_in s) + length (items s)) * (Wp c + 1).
Proof.
  intros [Scf _ Sb]. unfold mu, items. rewrite Scf, app_length.
  assert (H : banks_w c (banks s) <= length (banks_items (banks s)) * Wp c).
  { unfold banks_w, banks_items. induction (banks s) as [|b r IH]; cbn [map flat_map length]; [cbn; lia|].
    inversion Sb as [|x y H1 H2]; subst x y. rewrite list_sum_cons, app_length. pose proof (bank_w_bound c b H1). specialize (IH H2). lia. }
  nia.
Qed.

(** ** Statements used by props/C17.v *)
Lemma reach_good c evs : wf_cfg c = true -> Forall (fun e => wf_ev c e = true) evs ->
  Good c (run (init c) evs).
Proof. intros Hc Hw. apply run_good; auto. apply init_good; auto. Qed.

Lemma no_panic c evs : wf_cfg c = true -> Forall (fun e => wf_ev c e = true) evs ->
  crashed (run (init c) evs) = false /\ ~ In OCrash (run_obs (init c) evs).
Proof.
  intros Hc Hw. split.
  - apply (gd_alive c). apply reach_good; auto.
  - apply (run_obs_no_crash c); auto. apply init_good; auto.
Qed.

Lemma fair_round_decreases c evs : wf_cfg c = true -> Forall (fun e => wf_ev c e = true) evs ->
  let s := run (init c) evs in
  mu (round s) <= mu s /\ (busy s -> mu (round s) < mu s) /\
  mu s <= (length (top_in s) + length (items s)) * (c_missdelay c + c_cps c * c_depth c + 4).
Proof.
  intros Hc Hw s. pose proof (reach_good c evs Hc Hw) as G. fold s in G.
  destruct (round_live c s Hc G) as (_ & L1 & L2 & _). split; [auto|]. split; [auto|].
  replace (c_missdelay c + c_cps c * c_depth c + 4) with (Wp c + 1) by (unfold Wp, E; lia).
  apply mu_bound. apply G.
Qed.

Lemma every_request_answered c evs : wf_cfg c = true -> Forall (fun e => wf_ev c e = true) evs ->
  let s := run (init c) evs in
  exists n, n <= (length (top_in s) + length (items s)) * (c_missdelay c + c_cps c * c_depth c + 4) /\
    let s' := rounds n s in
    crashed s' = false /\ g_deliv s' = g_deliv s /\ top_in s' = [] /\ items s' = [] /\
    Permutation (map key (g_done s')) (keys_of (g_deliv s)) /\
    forall k r, nth_error (g_deliv s) k = Some r ->
      exists m, In m (g_retr s' ++ top_out s') /\ answers m r.
Proof.
  intros Hc Hw s. pose proof (reach_good c evs Hc Hw) as G. fold s in G.
  destruct (drains c Hc (mu s) s (le_n _) G) as (n & N1 & N2 & N3 & N4).
  exists n. split.
  { etransitivity; [exact N1|].
    replace (c_missdelay c + c_cps c * c_depth c + 4) with (Wp c + 1) by (unfold Wp, E; lia).
    apply mu_bound. apply G. }
  cbn zeta. destruct (idle_answered _ (gd_inv _ _ N3) N2) as (I1 & I2 & I3).
  split; [apply (gd_alive c); auto|]. split; [auto|].
  unfold busy in N2.
  split; [destruct (top_in (rounds n s)); auto; exfalso; apply N2; left; discriminate|].
  split; [destruct (items (rounds n s)); auto; exfalso; apply N2; right; discriminate|].
  rewrite N4 in *. split; [auto|]. intros k r Hn.
  destruct (I3 k r Hn) as (it & _ & _ & _ & Hin & Ha). eauto.
Qed.

(** the well-formedness hypotheses include the absence of uint64 wrap-around *)
Lemma wf_req_no_wrap c r : wf_req c r = true -> (m_addr r + req_len r <= two64)%N.
Proof.
  unfold wf_req. intros H. apply andb_prop in H. destruct H as [_ H]. apply N.leb_le. exact H.
Qed.

Lemma wf_cfg_no_wrap c : wf_cfg c = true ->
  (c_log2ilv c < 64)%N /\ (c_capacity c + unit_size < two64)%N /\
  ilv_fits (c_aconv c) = true /\ ilv_fits (c_bconv c) = true.
Proof.
  unfold wf_cfg. intros H.
  repeat (apply andb_prop in H; let H' := fresh "P" in destruct H as [H H']).
  apply N.ltb_lt in P2. apply N.ltb_lt in P1. auto.
Qed.
