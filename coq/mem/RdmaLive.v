(** End-to-end liveness of the RDMA-engine model under a fair environment,
    with an explicit ranking function.  Proofs only; the model is Rdma.v. *)
From Coq Require Import Arith Permutation Lia.
From VLib Require Import Akita ListX.
From VMem Require Import Rdma RdmaProofs.
From RecordUpdate Require Import RecordSet.
Import RecordSetNotations.
Open Scope N_scope.
Local Open Scope nat_scope.

(** * The fair environment *)

(** The response the remote side (or the local L2) gives to a forwarded request. *)
Definition rsp_for (m : msg) : msg :=
  match m_kind m with
  | KRead => mkMsg 0%N KDataReady (m_dst m) (m_src m) (m_id m) 0%N 0%N 0%N [] [] 0%N
  | _     => mkMsg 0%N KWriteDone (m_dst m) (m_src m) (m_id m) 0%N 0%N 0%N [] [] 0%N
  end.

Lemma rsp_for_rsp m : is_rsp (rsp_for m) = true.
Proof. unfold rsp_for, is_rsp. destruct (m_kind m); reflexivity. Qed.
Lemma rsp_for_to m : m_rspto (rsp_for m) = m_id m.
Proof. unfold rsp_for. destruct (m_kind m); reflexivity. Qed.

(** Environment state: forwarded requests retrieved but not answered yet. *)
Record env := mkEnv { p_in : list msg; p_out : list msg }.

(** one retrieval; reports the message *)
Definition retr (c : cfg) (p : port) (s : st) : st * option msg :=
  match step c s (ERetr p) with
  | (s', OMsg o) => (s', o)
  | (s', _) => (s', None)
  end.

Definition opt_app (l : list msg) (o : option msg) : list msg :=
  match o with Some m => l ++ [m] | None => l end.

(** answer the oldest unanswered request if the port takes the response *)
Definition ans (c : cfg) (p : port) (pend : list msg) (s : st) : st * list msg :=
  match pend with
  | [] => (s, [])
  | m :: r => match step c s (EDeliver p (rsp_for m)) with
              | (s', OAcc true) => (s', r)
              | _ => (s, pend)
              end
  end.

(** The environment's moves act on (engine state, unanswered inside, unanswered outside). *)
Definition ecfg := (st * list msg * list msg)%type.

Definition oRO (c : cfg) (y : ecfg) : ecfg :=
  let '(s, pi, po) := y in let '(s', o) := retr c RO s in (s', opt_app pi o, po).
Definition oRI (c : cfg) (y : ecfg) : ecfg :=
  let '(s, pi, po) := y in (fst (retr c RI s), pi, po).
Definition oDI (c : cfg) (y : ecfg) : ecfg :=
  let '(s, pi, po) := y in let '(s', o) := retr c DI s in (s', pi, opt_app po o).
Definition oDO (c : cfg) (y : ecfg) : ecfg :=
  let '(s, pi, po) := y in (fst (retr c DO s), pi, po).
Definition aRO (c : cfg) (y : ecfg) : ecfg :=
  let '(s, pi, po) := y in let '(s', pi') := ans c RO pi s in (s', pi', po).
Definition aDI (c : cfg) (y : ecfg) : ecfg :=
  let '(s, pi, po) := y in let '(s', po') := ans c DI po s in (s', pi, po').

Fixpoint niter {A} (n : nat) (f : A -> A) (x : A) : A :=
  match n with O => x | S k => niter k f (f x) end.

(** How often each port is served in a round. *)
Record quota := mkQ { k_ro : nat; k_ri : nat; k_di : nat; k_do : nat; k_aro : nat; k_adi : nat }.

Definition quota_ok (q : quota) : Prop :=
  1 <= k_ro q /\ 1 <= k_ri q /\ 1 <= k_di q /\ 1 <= k_do q /\ 1 <= k_aro q /\ 1 <= k_adi q.

(** One fair round: a tick; then the out-buffer of every port is served
    (k_ro, k_ri, k_di, k_do retrievals; a retrieval from an empty buffer is a
    no-op) and each side that owes responses offers the oldest ones (k_aro,
    k_adi attempts; a refused delivery is retried in a later round).  No new
    requests, no control traffic. *)
Definition round (c : cfg) (q : quota) (x : st * env) : st * env :=
  let '(s, e) := x in
  let y1 : ecfg := (fst (step c s ETick), p_in e, p_out e) in
  let y2 := niter (k_ro q) (oRO c) y1 in
  let y3 := niter (k_ri q) (oRI c) y2 in
  let y4 := niter (k_di q) (oDI c) y3 in
  let y5 := niter (k_do q) (oDO c) y4 in
  let y6 := niter (k_aro q) (aRO c) y5 in
  let y7 := niter (k_adi q) (aDI c) y6 in
  let '(s7, pi, po) := y7 in (s7, mkEnv pi po).

Definition rounds (c : cfg) (qs : list quota) (x : st * env) : st * env :=
  fold_left (fun x q => round c q x) qs x.

(** * Rank *)
Definition W (live : bool) (c : chan) : nat :=
  (if live then 5 * length (q_in c) else 0) + 4 * length (f_out c) + 2 * length (r_in c) + length (a_out c).

Arguments W : simpl never.

Definition M (s : st) : nat :=
  W (negb (pause s)) (ch_in s) + W true (ch_out s) + (if draining s then 1 else 0).

Definition R (s : st) (pi po : list msg) : nat := M s + 3 * (length pi + length po).

Definition rank (x : st * env) : nat := R (fst x) (p_in (snd x)) (p_out (snd x)).

(** what the tick must leave alone *)
Definition K (s : st) :=
  (pause s, g_env s, ct_in s, g_fretr (ch_in s), g_rsp (ch_in s), g_fretr (ch_out s), g_rsp (ch_out s)).

Definition view (s : st) := (ch_in s, ch_out s, pause s, draining s).

Definition Fr (s s' : st) : Prop := M s' <= M s /\ K s' = K s.

Lemma Fr_refl s : Fr s s.
Proof. split; auto. Qed.
Lemma Fr_trans a b d : Fr a b -> Fr b d -> Fr a d.
Proof. intros [H1 H2] [H3 H4]; split; [lia|congruence]. Qed.

Lemma view_M s s' : view s' = view s -> M s' = M s.
Proof. unfold view, M. intros E; inversion E as [[E1 E2 E3 E4]]. now rewrite E1, E2, E3, E4. Qed.

(** environment invariant: the unanswered requests are exactly the retrieved
    forwarded requests no response has been delivered for *)
Definition E (c : chan) (pend : list msg) : Prop :=
  Permutation (map m_id (g_fretr c)) (map m_rspto (g_rsp c) ++ map m_id pend).

(** * The tick makes progress or is stuck for a visible reason *)
Definition Prog (c : cfg) (Q : chan * chan * bool * bool -> Prop) (f : st -> st * bool) : Prop :=
  forall s, Good c s -> ct_in s = [] ->
    Fr s (fst (f s)) /\
    (M (fst (f s)) < M s \/ (view (fst (f s)) = view s /\ Q (view s))).

Lemma good_up c s : Good c s -> is_crashed s = false.
Proof. intros G. unfold is_crashed. now rewrite (gd_up _ _ G). Qed.

Lemma Fr_ct s s' : Fr s s' -> ct_in s = [] -> ct_in s' = [].
Proof. intros [_ H] E0. unfold K in H. inversion H. congruence. Qed.

Lemma Fr_pause s s' : Fr s s' -> pause s' = pause s.
Proof. intros [_ H]. unfold K in H. now inversion H. Qed.

Lemma prog_weaken c (Q Q' : chan * chan * bool * bool -> Prop) f : Prog c Q f -> (forall v, Q v -> Q' v) -> Prog c Q' f.
Proof.
  intros H HQ s G Hct. destruct (H s G Hct) as [H1 [H2|[H2 H3]]]; split; auto.
Qed.

Lemma prog_seq2 c (Q1 Q2 : chan * chan * bool * bool -> Prop) f g :
  pres (Good c) f -> Prog c Q1 f -> Prog c Q2 g -> Prog c (fun v => Q1 v /\ Q2 v) (seq2 f g).
Proof.
  intros Hgf Hf Hg s G Hct. unfold seq2.
  specialize (Hf s G Hct). specialize (Hgf s G).
  destruct (f s) as [s1 p1]; cbn [fst] in *.
  rewrite (good_up _ _ Hgf). destruct Hf as [Hfr Hf].
  specialize (Hg s1 Hgf (Fr_ct _ _ Hfr Hct)).
  destruct (g s1) as [s2 p2]; cbn [fst] in *. destruct Hg as [Hfr2 Hg].
  split; [eapply Fr_trans; eauto|].
  destruct Hfr as [Hm1 _]. destruct Hfr2 as [Hm2 _].
  destruct Hf as [Hf|[Hv1 Hq1]]; [left; lia|].
  destruct Hg as [Hg|[Hv2 Hq2]].
  - left. rewrite <- (view_M _ _ Hv1). exact Hg.
  - right. split; [congruence|]. split; auto. now rewrite <- Hv1.
Qed.

Lemma prog_iter c (Q : chan * chan * bool * bool -> Prop) f n :
  pres (Good c) f -> Prog c Q f -> Prog c (fun v => n = 0 \/ Q v) (iter n f).
Proof.
  intros Hgf Hf. induction n as [|n IH]; intros s G Hct; cbn [iter].
  - cbn [fst]. split; [apply Fr_refl|]. right; auto.
  - rewrite (good_up _ _ G).
    specialize (Hf s G Hct). specialize (Hgf s G).
    destruct (f s) as [s1 p1]; cbn [fst] in *. destruct Hf as [Hfr Hf].
    specialize (IH s1 Hgf (Fr_ct _ _ Hfr Hct)).
    destruct (iter n f s1) as [s2 p2]; cbn [fst] in *. destruct IH as [Hfr2 Hg].
    split; [eapply Fr_trans; eauto|].
    destruct Hfr as [Hm1 _]. destruct Hfr2 as [Hm2 _].
    destruct Hf as [Hf|[Hv1 Hq1]]; [left; lia|].
    destruct Hg as [Hg|[Hv2 Hq2]].
    + left. rewrite <- (view_M _ _ Hv1). exact Hg.
    + right. split; [congruence|]. auto.
Qed.

(** ** one data path *)
Lemma accept_cases find pf pa cap c :
  ChanP find pf pa c ->
  (accept find pf cap c = RNone /\ (q_in c = [] \/ cap <= length (f_out c))) \/
  (exists c', accept find pf cap c = ROk c' /\ W true c' + 1 = W true c /\
              g_fretr c' = g_fretr c /\ g_rsp c' = g_rsp c).
Proof.
  intros P. unfold accept.
  destruct (q_in c) as [|r rest] eqn:Eq; [left; auto|].
  pose proof (cp_q _ _ _ _ P) as Hq. rewrite Eq in Hq.
  inversion Hq as [|? ? [Hr [Hs Hd]] Hrest]; subst.
  rewrite Hr, Hd; cbn [negb].
  destruct (can_push cap (f_out c)) eqn:Ep; cbn [negb].
  - right. eexists; split; [reflexivity|]. unfold W; cbn. rewrite Eq, app_length; cbn.
    repeat split; lia.
  - left; split; auto. right. unfold can_push in Ep. apply Nat.ltb_ge in Ep. exact Ep.
Qed.

Lemma complete_cases find pf pa cap c :
  ChanInv find pf pa cap c -> ChanP find pf pa c ->
  (complete pa cap c = RNone /\ (r_in c = [] \/ cap <= length (a_out c))) \/
  (exists c', complete pa cap c = ROk c' /\ (forall live, W live c' + 1 = W live c) /\
              g_fretr c' = g_fretr c /\ g_rsp c' = g_rsp c).
Proof.
  intros H P. generalize (complete_ok _ _ _ _ _ H P). unfold complete.
  destruct (r_in c) as [|r rest] eqn:Er; [left; auto|].
  destruct (negb (is_rsp r)); [contradiction|].
  destruct (find_tx (m_rspto r) (txs c)) as [[t txs']|]; [|contradiction].
  destruct (bad_dst pa (m_src (t_orig t))); [contradiction|].
  destruct (can_push cap (a_out c)) eqn:Ep; cbn [negb]; intros _.
  - right. eexists; split; [reflexivity|]. split; [|split; reflexivity].
    intros live. unfold W; cbn. rewrite Er, app_length; cbn. destruct live; lia.
  - left; split; auto. right. unfold can_push in Ep. apply Nat.ltb_ge in Ep. exact Ep.
Qed.

(** ** the stages *)
Definition St_l1 (cap : nat) (v : chan * chan * bool * bool) : Prop :=
  let '(ci, co, p, dr) := v in p = true \/ q_in ci = [] \/ cap <= length (f_out ci).
Definition St_ic (cap : nat) (v : chan * chan * bool * bool) : Prop :=
  let '(ci, co, p, dr) := v in r_in ci = [] \/ cap <= length (a_out ci).
Definition St_oa (cap : nat) (v : chan * chan * bool * bool) : Prop :=
  let '(ci, co, p, dr) := v in q_in co = [] \/ cap <= length (f_out co).
Definition St_oc (cap : nat) (v : chan * chan * bool * bool) : Prop :=
  let '(ci, co, p, dr) := v in r_in co = [] \/ cap <= length (a_out co).

Lemma prog_process_ctl c : Prog c (fun _ => True) (process_ctl c).
Proof.
  intros s G Hct. unfold process_ctl. rewrite Hct. cbn [fst].
  split; [apply Fr_refl|right; auto].
Qed.

Definition St_dr (cap : nat) (v : chan * chan * bool * bool) : Prop :=
  let '(ci, co, p, dr) := v in dr = false \/ txs ci <> [] \/ txs co <> [] \/ cap = 0.

Lemma draining_ct_out s : ctl_ok s -> draining s = true -> ct_out s = [] /\ g_env s = WaitDrain.
Proof.
  unfold ctl_ok. intros Gc Hd. destruct (g_env s).
  - destruct Gc as (_ & _ & _ & H); congruence.
  - destruct Gc as [(d & _ & _ & _ & _ & _ & H)|(d & H1 & Hcu & Hs & [[_ Ho]|[H _]])]; try congruence. auto.
  - destruct Gc as (d & _ & _ & _ & _ & H); congruence.
  - destruct Gc as [(d & r & _ & _ & _ & _ & _ & H)|(d & _ & _ & _ & H)]; congruence.
Qed.

Lemma prog_drain c : Prog c (St_dr (bufsz c)) (drain c).
Proof.
  intros s G Hct. generalize (drain_good c s G). unfold drain.
  destruct (draining s) eqn:Hd; cbn [negb].
  2:{ intros _. cbn [fst]. split; [apply Fr_refl|right; split; auto]. unfold view, St_dr. auto. }
  unfold fully_drained.
  destruct (txs (ch_out s)) eqn:Eo; cbn [negb].
  2:{ intros _. cbn [fst]. split; [apply Fr_refl|right; split; auto]. unfold view, St_dr.
      rewrite Eo. right; right; left; discriminate. }
  destruct (txs (ch_in s)) eqn:Ei; cbn [negb].
  2:{ intros _. cbn [fst]. split; [apply Fr_refl|right; split; auto]. unfold view, St_dr.
      rewrite Ei. right; left; discriminate. }
  destruct (cur s) as [d|].
  2:{ intros G'. pose proof (gd_up _ _ G') as Hu. cbn in Hu. discriminate. }
  destruct (bad_dst P_CT (m_src d)).
  { intros G'. pose proof (gd_up _ _ G') as Hu. cbn in Hu. discriminate. }
  destruct (draining_ct_out s (gd_ctl _ _ G) Hd) as [Ho _].
  unfold can_push. rewrite Ho. cbn [length].
  destruct (Nat.ltb 0 (bufsz c)) eqn:El; intros _; cbn [fst].
  - unfold Fr, M, K; cbn. rewrite Hd. split; [split; [lia|reflexivity]|left; lia].
  - apply Nat.ltb_ge in El. split; [apply Fr_refl|right; split; auto]. unfold view, St_dr.
    right; right; right. lia.
Qed.

Lemma in_accept_prog c s :
  Good c s -> pause s = false ->
  Fr s (fst (in_accept c s)) /\
  ((snd (in_accept c s) = true /\ M (fst (in_accept c s)) < M s) \/
   (in_accept c s = (s, false) /\ (q_in (ch_in s) = [] \/ bufsz c <= length (f_out (ch_in s))))).
Proof.
  intros G Hp. unfold in_accept.
  destruct (accept_cases _ _ _ (bufsz c) _ (gd_in _ _ G)) as [[Ea Hs]|(c' & Ea & Hw & Hf & Hr)];
    rewrite Ea; cbn [fst snd].
  - split; [apply Fr_refl|right; auto].
  - unfold Fr, M, K; cbn. rewrite Hp in *; cbn [negb]. rewrite Hf, Hr.
    split; [split; [lia|reflexivity]|left; split; [reflexivity|lia]].
Qed.

Lemma l1_loop_prog c n : forall s p,
  Good c s -> pause s = false ->
  Fr s (fst (l1_loop c n s p)) /\
  (M (fst (l1_loop c n s p)) < M s \/
   (view (fst (l1_loop c n s p)) = view s /\
    (n = 0 \/ q_in (ch_in s) = [] \/ bufsz c <= length (f_out (ch_in s))))).
Proof.
  induction n as [|n IH]; intros s p G Hp; cbn [l1_loop].
  - cbn [fst]. split; [apply Fr_refl|right; auto].
  - destruct (in_accept_prog c s G Hp) as [Hfr [[Hs Hm]|[He Hst]]].
    + pose proof (in_accept_good c s G) as G1.
      destruct (in_accept c s) as [s1 p1]; cbn [fst snd] in *. subst p1.
      rewrite (good_up _ _ G1).
      assert (Hp1 : pause s1 = false) by (rewrite (Fr_pause _ _ Hfr); exact Hp).
      destruct (IH s1 true G1 Hp1) as [Hfr2 _].
      split; [eapply Fr_trans; eauto|]. left. destruct Hfr2 as [Hm2 _]. lia.
    + rewrite He. rewrite (good_up _ _ G). cbn [fst].
      split; [apply Fr_refl|right; auto].
Qed.

Lemma prog_from_l1 c : Prog c (St_l1 (bufsz c)) (from_l1 c).
Proof.
  intros s G Hct. unfold from_l1. destruct (pause s) eqn:Hp.
  - cbn [fst]. split; [apply Fr_refl|right; split; auto]. unfold view, St_l1. auto.
  - destruct (l1_loop_prog c (length (q_in (ch_in s))) s false G Hp) as [Hfr [Hm|[Hv Hq]]];
      split; auto.
    right; split; auto. unfold view, St_l1. right.
    destruct Hq as [Hq|[Hq|Hq]]; auto. left. now apply length_zero_iff_nil.
Qed.

Lemma prog_in_complete c : Prog c (St_ic (bufsz c)) (in_complete c).
Proof.
  intros s G Hct. unfold in_complete.
  destruct (complete_cases _ _ _ _ _ (i_in _ _ (gd_inv _ _ G)) (gd_in _ _ G))
    as [[Ea Hs]|(c' & Ea & Hw & Hf & Hr)]; rewrite Ea; cbn [fst snd].
  - split; [apply Fr_refl|right; split; auto].
  - unfold Fr, M, K; cbn. rewrite Hf, Hr. specialize (Hw (negb (pause s))).
    split; [split; [lia|reflexivity]|left; lia].
Qed.

Lemma prog_out_complete c : Prog c (St_oc (bufsz c)) (out_complete c).
Proof.
  intros s G Hct. unfold out_complete.
  destruct (complete_cases _ _ _ _ _ (i_out _ _ (gd_inv _ _ G)) (gd_out _ _ G))
    as [[Ea Hs]|(c' & Ea & Hw & Hf & Hr)]; rewrite Ea; cbn [fst snd].
  - split; [apply Fr_refl|right; split; auto].
  - unfold Fr, M, K; cbn. rewrite Hf, Hr. specialize (Hw true).
    split; [split; [lia|reflexivity]|left; lia].
Qed.

Lemma prog_out_accept c : Prog c (St_oa (bufsz c)) (out_accept c).
Proof.
  intros s G Hct. unfold out_accept.
  destruct (accept_cases _ _ _ (bufsz c) _ (gd_out _ _ G)) as [[Ea Hs]|(c' & Ea & Hw & Hf & Hr)];
    rewrite Ea; cbn [fst snd].
  - split; [apply Fr_refl|right; split; auto].
  - unfold Fr, M, K; cbn. rewrite Hf, Hr.
    split; [split; [lia|reflexivity]|left; lia].
Qed.

Definition widths_ok (c : cfg) : Prop :=
  1 <= bufsz c /\ 1 <= n_oreq c /\ 1 <= n_orsp c /\ 1 <= n_ireq c /\ 1 <= n_irsp c.

Definition St_all (cap : nat) (v : chan * chan * bool * bool) : Prop :=
  St_dr cap v /\ St_l1 cap v /\ St_oc cap v /\ St_oa cap v /\ St_ic cap v.

Lemma prog_tick c : widths_ok c -> Prog c (St_all (bufsz c)) (tick c).
Proof.
  intros (Hb & H1 & H2 & H3 & H4). unfold tick.
  eapply prog_weaken.
  - apply prog_seq2; [apply process_ctl_good|apply prog_process_ctl|].
    apply prog_seq2; [apply drain_good|apply prog_drain|].
    apply prog_seq2; [apply pres_iter, pres_from_l1, in_accept_good| |].
    { apply prog_iter; [apply pres_from_l1, in_accept_good|apply prog_from_l1]. }
    apply prog_seq2; [apply pres_iter, out_complete_good| |].
    { apply prog_iter; [apply out_complete_good|apply prog_out_complete]. }
    apply prog_seq2; [apply pres_iter, out_accept_good| |].
    { apply prog_iter; [apply out_accept_good|apply prog_out_accept]. }
    apply prog_iter; [apply in_complete_good|apply prog_in_complete].
  - cbn beta. intros v (_ & Hdr & [Ha|Ha] & [Hc|Hc] & [Hd|Hd] & [He|He]); try lia.
    repeat split; auto.
Qed.

(** * The environment's moves *)
Record Live (c : cfg) (s : st) (pi po : list msg) : Prop := {
  lv_good : Good c s;
  lv_ct   : ct_in s = [];
  lv_in   : E (ch_in s) pi;
  lv_out  : E (ch_out s) po
}.

Definition Kp (s : st) := (pause s, g_env s).

Lemma E_head_ok find pf pa cap c m r :
  ChanInv find pf pa cap c -> E c (m :: r) -> ok_rsp c (rsp_for m).
Proof.
  intros H He. unfold E in He. cbn in He.
  assert (Hn : NoDup (map m_id (g_fretr c))).
  { pose proof (ci_nodup _ _ _ _ _ H) as Hn.
    assert (Hm : map m_id (g_fretr c ++ f_out c) = map t_fid (g_all c)).
    { rewrite (ci_fwd _ _ _ _ _ H), map_map. apply map_ext. intros t. apply fwd_id. }
    rewrite <- Hm, map_app in Hn. eapply NoDup_app_l; eauto. }
  split; [apply rsp_for_rsp|]. rewrite rsp_for_to. split.
  - eapply Permutation_in; [apply Permutation_sym; exact He|].
    apply in_or_app; right; left; reflexivity.
  - intros Hin. eapply Permutation_NoDup in Hn; [|exact He].
    eapply (NoDup_app_disj _ _ (m_id m) Hn); [exact Hin|left; reflexivity].
Qed.

(** retrieval of a forwarded request on the inside path *)
Lemma retr_RO c s pi po :
  Live c s pi po ->
  Live c (fst (retr c RO s)) (opt_app pi (snd (retr c RO s))) po /\
  Kp (fst (retr c RO s)) = Kp s /\
  (R (fst (retr c RO s)) (opt_app pi (snd (retr c RO s))) po < R s pi po \/
   (retr c RO s = (s, None) /\ f_out (ch_in s) = [])).
Proof.
  intros [G Hct Hi Ho].
  pose proof (step_good c s (ERetr RO) G I) as G'.
  unfold retr. unfold step in *. rewrite (good_up _ _ G) in *. unfold retrieve in *.
  destruct (f_out (ch_in s)) as [|m r] eqn:Ef; cbn [fst snd opt_app] in *.
  - split; [constructor; auto|]. split; auto.
  - split; [|split; [reflexivity|left]].
    + constructor; cbn; auto.
      unfold E in *; cbn. rewrite !map_app; cbn. rewrite app_assoc.
      apply Permutation_app_tail. exact Hi.
    + unfold R, M, W; cbn. rewrite Ef, app_length; cbn. lia.
Qed.

Lemma retr_DI c s pi po :
  Live c s pi po ->
  Live c (fst (retr c DI s)) pi (opt_app po (snd (retr c DI s))) /\
  Kp (fst (retr c DI s)) = Kp s /\
  (R (fst (retr c DI s)) pi (opt_app po (snd (retr c DI s))) < R s pi po \/
   (retr c DI s = (s, None) /\ f_out (ch_out s) = [])).
Proof.
  intros [G Hct Hi Ho].
  pose proof (step_good c s (ERetr DI) G I) as G'.
  unfold retr. unfold step in *. rewrite (good_up _ _ G) in *. unfold retrieve in *.
  destruct (f_out (ch_out s)) as [|m r] eqn:Ef; cbn [fst snd opt_app] in *.
  - split; [constructor; auto|]. split; auto.
  - split; [|split; [reflexivity|left]].
    + constructor; cbn; auto.
      unfold E in *; cbn. rewrite !map_app; cbn. rewrite app_assoc.
      apply Permutation_app_tail. exact Ho.
    + unfold R, M, W; cbn. rewrite Ef, app_length; cbn. lia.
Qed.

(** retrieval of an answer *)
Lemma retr_RI c s pi po :
  Live c s pi po ->
  Live c (fst (retr c RI s)) pi po /\
  Kp (fst (retr c RI s)) = Kp s /\
  (R (fst (retr c RI s)) pi po < R s pi po \/
   (fst (retr c RI s) = s /\ a_out (ch_in s) = [])).
Proof.
  intros [G Hct Hi Ho].
  pose proof (step_good c s (ERetr RI) G I) as G'.
  unfold retr. unfold step in *. rewrite (good_up _ _ G) in *. unfold retrieve in *.
  destruct (a_out (ch_in s)) as [|m r] eqn:Ef; cbn [fst snd] in *.
  - split; [constructor; auto|]. split; auto.
  - split; [|split; [reflexivity|left]].
    + constructor; cbn; auto.
    + unfold R, M, W; cbn. rewrite Ef; cbn. lia.
Qed.

Lemma retr_DO c s pi po :
  Live c s pi po ->
  Live c (fst (retr c DO s)) pi po /\
  Kp (fst (retr c DO s)) = Kp s /\
  (R (fst (retr c DO s)) pi po < R s pi po \/
   (fst (retr c DO s) = s /\ a_out (ch_out s) = [])).
Proof.
  intros [G Hct Hi Ho].
  pose proof (step_good c s (ERetr DO) G I) as G'.
  unfold retr. unfold step in *. rewrite (good_up _ _ G) in *. unfold retrieve in *.
  destruct (a_out (ch_out s)) as [|m r] eqn:Ef; cbn [fst snd] in *.
  - split; [constructor; auto|]. split; auto.
  - split; [|split; [reflexivity|left]].
    + constructor; cbn; auto.
    + unfold R, M, W; cbn. rewrite Ef; cbn. lia.
Qed.

(** answering *)
Lemma ans_RO c s pi po :
  Live c s pi po ->
  Live c (fst (ans c RO pi s)) (snd (ans c RO pi s)) po /\
  Kp (fst (ans c RO pi s)) = Kp s /\
  (R (fst (ans c RO pi s)) (snd (ans c RO pi s)) po < R s pi po \/
   (ans c RO pi s = (s, pi) /\ (pi = [] \/ bufsz c <= length (r_in (ch_in s))))).
Proof.
  intros [G Hct Hi Ho]. unfold ans.
  destruct pi as [|m r]; cbn [fst snd].
  - split; [constructor; auto|]. split; auto.
  - pose proof (E_head_ok _ _ _ _ _ _ _ (i_in _ _ (gd_inv _ _ G)) Hi) as Hok.
    pose proof (step_good c s (EDeliver RO (rsp_for m)) G Hok) as G'.
    unfold step in *. rewrite (good_up _ _ G) in *. unfold deliver in *.
    destruct (can_push (bufsz c) (r_in (ch_in s))) eqn:Ep; cbn [fst snd] in *.
    + split; [|split; [reflexivity|left]].
      * constructor; cbn; auto.
        unfold E in *; cbn in *. rewrite map_app, <- app_assoc; cbn. rewrite rsp_for_to. exact Hi.
      * unfold R, M, W; cbn. rewrite app_length; cbn. lia.
    + split; [constructor; auto|]. split; auto. right; split; auto. right.
      unfold can_push in Ep. apply Nat.ltb_ge in Ep. exact Ep.
Qed.

Lemma ans_DI c s pi po :
  Live c s pi po ->
  Live c (fst (ans c DI po s)) pi (snd (ans c DI po s)) /\
  Kp (fst (ans c DI po s)) = Kp s /\
  (R (fst (ans c DI po s)) pi (snd (ans c DI po s)) < R s pi po \/
   (ans c DI po s = (s, po) /\ (po = [] \/ bufsz c <= length (r_in (ch_out s))))).
Proof.
  intros [G Hct Hi Ho]. unfold ans.
  destruct po as [|m r]; cbn [fst snd].
  - split; [constructor; auto|]. split; auto.
  - pose proof (E_head_ok _ _ _ _ _ _ _ (i_out _ _ (gd_inv _ _ G)) Ho) as Hok.
    pose proof (step_good c s (EDeliver DI (rsp_for m)) G Hok) as G'.
    unfold step in *. rewrite (good_up _ _ G) in *. unfold deliver in *.
    destruct (can_push (bufsz c) (r_in (ch_out s))) eqn:Ep; cbn [fst snd] in *.
    + split; [|split; [reflexivity|left]].
      * constructor; cbn; auto.
        unfold E in *; cbn in *. rewrite map_app, <- app_assoc; cbn. rewrite rsp_for_to. exact Ho.
      * unfold R, M, W; cbn. rewrite app_length; cbn. lia.
    + split; [constructor; auto|]. split; auto. right; split; auto. right.
      unfold can_push in Ep. apply Nat.ltb_ge in Ep. exact Ep.
Qed.

(** the tick *)
Lemma tick_live c s pi po :
  widths_ok c -> Live c s pi po ->
  Live c (fst (step c s ETick)) pi po /\
  Kp (fst (step c s ETick)) = Kp s /\
  (R (fst (step c s ETick)) pi po < R s pi po \/
   (view (fst (step c s ETick)) = view s /\ St_all (bufsz c) (view s))).
Proof.
  intros Hw [G Hct Hi Ho].
  pose proof (step_good c s ETick G I) as G'.
  assert (Es : fst (step c s ETick) = fst (tick c s)).
  { unfold step. rewrite (good_up _ _ G). destruct (tick c s) as [s' p]. destruct (is_crashed s'); reflexivity. }
  rewrite Es in *.
  destruct (prog_tick c Hw s G Hct) as [[Hm Hk] Hp].
  unfold K in Hk. inversion Hk as [[Hk1 Hk0 Hk2 Hk3 Hk4 Hk5 Hk6]].
  split; [|split].
  - constructor; auto; unfold E in *; congruence.
  - unfold Kp. congruence.
  - destruct Hp as [Hp|Hp]; [left; unfold R; lia|right; exact Hp].
Qed.

(** * One round *)
Definition LiveX (c : cfg) (x : st * env) : Prop := Live c (fst x) (p_in (snd x)) (p_out (snd x)).

Lemma count_txs find pf pa cap c pend :
  ChanInv find pf pa cap c -> E c pend ->
  length (txs c) = length (f_out c) + length pend + length (r_in c).
Proof.
  intros H He.
  pose proof (Permutation_length (ci_perm _ _ _ _ _ H)) as H1.
  pose proof (f_equal (@length _) (ci_fwd _ _ _ _ _ H)) as H2.
  pose proof (f_equal (@length _) (ci_rsp _ _ _ _ _ H)) as H3.
  pose proof (Permutation_length He) as H4.
  rewrite ?app_length, ?map_length in *. lia.
Qed.

Definition sY (y : ecfg) : st := fst (fst y).
Definition piY (y : ecfg) : list msg := snd (fst y).
Definition poY (y : ecfg) : list msg := snd y.
Definition LiveY (c : cfg) (y : ecfg) : Prop := Live c (sY y) (piY y) (poY y).
Definition RY (y : ecfg) : nat := R (sY y) (piY y) (poY y).

Definition OpSpec (c : cfg) (Stk : ecfg -> Prop) (op : ecfg -> ecfg) : Prop :=
  forall y, LiveY c y ->
    LiveY c (op y) /\ Kp (sY (op y)) = Kp (sY y) /\ (RY (op y) < RY y \/ (op y = y /\ Stk y)).

Lemma spec_oRO c : OpSpec c (fun y => f_out (ch_in (sY y)) = []) (oRO c).
Proof.
  intros [[s pi] po] L. unfold LiveY, RY, sY, piY, poY in *. cbn [fst snd] in *.
  destruct (retr_RO c s pi po L) as (L' & K' & T). unfold oRO.
  destruct (retr c RO s) as [s' o]; cbn [fst snd] in *.
  split; auto. split; auto. destruct T as [T|[Q F]]; [left; auto|right]. inversion Q; subst; auto.
Qed.

Lemma spec_oDI c : OpSpec c (fun y => f_out (ch_out (sY y)) = []) (oDI c).
Proof.
  intros [[s pi] po] L. unfold LiveY, RY, sY, piY, poY in *. cbn [fst snd] in *.
  destruct (retr_DI c s pi po L) as (L' & K' & T). unfold oDI.
  destruct (retr c DI s) as [s' o]; cbn [fst snd] in *.
  split; auto. split; auto. destruct T as [T|[Q F]]; [left; auto|right]. inversion Q; subst; auto.
Qed.

Lemma spec_oRI c : OpSpec c (fun y => a_out (ch_in (sY y)) = []) (oRI c).
Proof.
  intros [[s pi] po] L. unfold LiveY, RY, sY, piY, poY in *. cbn [fst snd] in *.
  destruct (retr_RI c s pi po L) as (L' & K' & T). unfold oRI. cbn [fst snd].
  split; auto. split; auto. destruct T as [T|[Q F]]; [left; auto|right]. rewrite Q; auto.
Qed.

Lemma spec_oDO c : OpSpec c (fun y => a_out (ch_out (sY y)) = []) (oDO c).
Proof.
  intros [[s pi] po] L. unfold LiveY, RY, sY, piY, poY in *. cbn [fst snd] in *.
  destruct (retr_DO c s pi po L) as (L' & K' & T). unfold oDO. cbn [fst snd].
  split; auto. split; auto. destruct T as [T|[Q F]]; [left; auto|right]. rewrite Q; auto.
Qed.

Lemma spec_aRO c :
  OpSpec c (fun y => piY y = [] \/ bufsz c <= length (r_in (ch_in (sY y)))) (aRO c).
Proof.
  intros [[s pi] po] L. unfold LiveY, RY, sY, piY, poY in *. cbn [fst snd] in *.
  destruct (ans_RO c s pi po L) as (L' & K' & T). unfold aRO.
  destruct (ans c RO pi s) as [s' pi']; cbn [fst snd] in *.
  split; auto. split; auto. destruct T as [T|[Q F]]; [left; auto|right]. inversion Q; subst; auto.
Qed.

Lemma spec_aDI c :
  OpSpec c (fun y => poY y = [] \/ bufsz c <= length (r_in (ch_out (sY y)))) (aDI c).
Proof.
  intros [[s pi] po] L. unfold LiveY, RY, sY, piY, poY in *. cbn [fst snd] in *.
  destruct (ans_DI c s pi po L) as (L' & K' & T). unfold aDI.
  destruct (ans c DI po s) as [s' po']; cbn [fst snd] in *.
  split; auto. split; auto. destruct T as [T|[Q F]]; [left; auto|right]. inversion Q; subst; auto.
Qed.

(** serving a port again never hurts, and an idle service stays idle *)
Lemma niter_mono c Stk op : OpSpec c Stk op -> forall k y,
  LiveY c y -> LiveY c (niter k op y) /\ Kp (sY (niter k op y)) = Kp (sY y) /\ RY (niter k op y) <= RY y.
Proof.
  intros Hop. induction k as [|k IH]; intros y L; cbn [niter]; [auto|].
  destruct (Hop y L) as (L1 & K1 & T1). destruct (IH _ L1) as (L2 & K2 & T2).
  split; auto. split; [congruence|].
  destruct T1 as [T1|[Q _]]; [lia|]. rewrite Q in *. exact T2.
Qed.

Lemma niter_fix {A} (op : A -> A) y : op y = y -> forall k, niter k op y = y.
Proof. intros H. induction k as [|k IH]; cbn [niter]; auto. now rewrite H. Qed.

Lemma spec_iter c Stk op n : 1 <= n -> OpSpec c Stk op -> OpSpec c Stk (niter n op).
Proof.
  intros Hn Hop y L. destruct n as [|k]; [lia|]. cbn [niter].
  destruct (Hop y L) as (L1 & K1 & T1).
  destruct (niter_mono c Stk op Hop k _ L1) as (L2 & K2 & T2).
  split; auto. split; [congruence|].
  destruct T1 as [T1|[Q S0]]; [left; lia|right]. rewrite Q. split; auto. now apply niter_fix.
Qed.

Lemma round_live c q x :
  widths_ok c -> quota_ok q -> LiveX c x ->
  LiveX c (round c q x) /\ Kp (fst (round c q x)) = Kp (fst x) /\
  (rank (round c q x) < rank x \/ (rank (round c q x) = rank x /\ rank x = 0)).
Proof.
  intros Hw (Q1 & Q2 & Q3 & Q4 & Q5 & Q6) L. destruct x as [s e].
  unfold LiveX, rank in *. cbn [fst snd] in *. unfold round.
  destruct (tick_live c s _ _ Hw L) as (L1 & K1 & T1).
  remember (fst (step c s ETick)) as s1 eqn:Es1. clear Es1.
  assert (LY1 : LiveY c (s1, p_in e, p_out e)) by exact L1.
  destruct (spec_iter c _ _ _ Q1 (spec_oRO c) _ LY1) as (L2 & K2 & T2).
  remember (niter (k_ro q) (oRO c) (s1, p_in e, p_out e)) as y2 eqn:E2. clear E2.
  destruct (spec_iter c _ _ _ Q2 (spec_oRI c) _ L2) as (L3 & K3 & T3).
  remember (niter (k_ri q) (oRI c) y2) as y3 eqn:E3. clear E3.
  destruct (spec_iter c _ _ _ Q3 (spec_oDI c) _ L3) as (L4 & K4 & T4).
  remember (niter (k_di q) (oDI c) y3) as y4 eqn:E4. clear E4.
  destruct (spec_iter c _ _ _ Q4 (spec_oDO c) _ L4) as (L5 & K5 & T5).
  remember (niter (k_do q) (oDO c) y4) as y5 eqn:E5. clear E5.
  destruct (spec_iter c _ _ _ Q5 (spec_aRO c) _ L5) as (L6 & K6 & T6).
  remember (niter (k_aro q) (aRO c) y5) as y6 eqn:E6. clear E6.
  destruct (spec_iter c _ _ _ Q6 (spec_aDI c) _ L6) as (L7 & K7 & T7).
  remember (niter (k_adi q) (aDI c) y6) as y7 eqn:E7. clear E7.
  assert (Hfin : forall y : ecfg,
            fst (let '(s7, pi, po) := y in (s7, mkEnv pi po)) = sY y /\
            p_in (snd (let '(s7, pi, po) := y in (s7, mkEnv pi po))) = piY y /\
            p_out (snd (let '(s7, pi, po) := y in (s7, mkEnv pi po))) = poY y).
  { intros [[a b] d]. cbn. auto. }
  destruct (Hfin y7) as (H7a & H7b & H7c). rewrite H7a, H7b, H7c. clear Hfin H7a H7b H7c.
  fold (RY y7). change (R s1 (p_in e) (p_out e)) with (RY (s1, p_in e, p_out e)) in *.
  split; [exact L7|]. split; [unfold sY in *; cbn [fst snd] in *; congruence|].
  destruct T2 as [T2|[Y2 F2]]; [|subst y2];
  (destruct T3 as [T3|[Y3 F3]]; [|subst y3]);
  (destruct T4 as [T4|[Y4 F4]]; [|subst y4]);
  (destruct T5 as [T5|[Y5 F5]]; [|subst y5]);
  (destruct T6 as [T6|[Y6 F6]]; [|subst y6]);
  (destruct T7 as [T7|[Y7 F7]]; [|subst y7]);
  (destruct T1 as [T1|[V1 S1]]; [|assert (T1 : RY (s1, p_in e, p_out e) = R s (p_in e) (p_out e))
                                    by (unfold RY, R, sY, piY, poY; cbn [fst snd]; now rewrite (view_M _ _ V1))]);
  try (left; lia).
  (* nothing moved: everything is empty *)
  right. split; [exact T1|].
  unfold sY, piY, poY in *. cbn [fst snd] in *.
  destruct L as [G Hct Hi Ho].
  pose proof (count_txs _ _ _ _ _ _ (i_in _ _ (gd_inv _ _ G)) Hi) as Ci.
  pose proof (count_txs _ _ _ _ _ _ (i_out _ _ (gd_inv _ _ G)) Ho) as Co.
  unfold view in V1. inversion V1 as [[V1i V1o V1p V1d]]. rewrite V1i, V1o in *.
  destruct Hw as (Hb & _).
  unfold St_all, view, St_dr, St_l1, St_oc, St_oa, St_ic in S1.
  destruct S1 as (Sd & Sl & Soc & Soa & Sic).
  rewrite F2, F3 in *. rewrite F4, F5 in *. cbn [length] in *.
  assert (Ri : r_in (ch_in s) = []) by (destruct Sic as [?|?]; [auto|lia]).
  assert (Ro : r_in (ch_out s) = []) by (destruct Soc as [?|?]; [auto|lia]).
  rewrite Ri, Ro in *. cbn [length] in *.
  assert (Pi : p_in e = []) by (destruct F6 as [?|?]; [auto|lia]).
  assert (Po : p_out e = []) by (destruct F7 as [?|?]; [auto|lia]).
  rewrite Pi, Po in *. cbn [length] in *.
  assert (Qo : q_in (ch_out s) = []) by (destruct Soa as [?|?]; [auto|lia]).
  assert (Ti : txs (ch_in s) = []) by (apply length_zero_iff_nil; lia).
  assert (To : txs (ch_out s) = []) by (apply length_zero_iff_nil; lia).
  assert (Dr : draining s = false).
  { destruct Sd as [?|[?|[?|?]]]; auto; try contradiction; lia. }
  unfold R, M, W. rewrite F2, F3, F4, F5, Ri, Ro, Qo, Dr. cbn [length].
  destruct Sl as [Sl|[Sl|Sl]]; [rewrite Sl; cbn [negb]; lia|rewrite Sl; cbn [length]; destruct (negb (pause s)); lia|lia].
Qed.

Lemma rounds_rank c : widths_ok c -> forall qs x,
  Forall quota_ok qs -> LiveX c x ->
  LiveX c (rounds c qs x) /\ Kp (fst (rounds c qs x)) = Kp (fst x) /\
  rank (rounds c qs x) <= rank x - length qs.
Proof.
  intros Hw. induction qs as [|q qs IH]; intros x Hq L; cbn [rounds fold_left length].
  - split; auto. split; auto. lia.
  - inversion Hq as [|? ? Hq1 Hq2]; subst.
    destruct (round_live c q x Hw Hq1 L) as (L1 & K1 & T1).
    destruct (IH _ Hq2 L1) as (L2 & K2 & T2). unfold rounds in *.
    split; auto. split; [congruence|]. lia.
Qed.

(** * What rank 0 means *)
Definition idle_chan (c : chan) : Prop :=
  f_out c = [] /\ r_in c = [] /\ a_out c = [] /\ txs c = [].

Definition quiescent (s : st) (e : env) : Prop :=
  p_in e = [] /\ p_out e = [] /\ idle_chan (ch_in s) /\ idle_chan (ch_out s) /\
  q_in (ch_out s) = [] /\ (pause s = false -> q_in (ch_in s) = []) /\
  draining s = false /\ crashed s = None.

Lemma rank0_quiescent c x : LiveX c x -> rank x = 0 -> quiescent (fst x) (snd x).
Proof.
  destruct x as [s e]. unfold LiveX, rank. cbn [fst snd]. intros [G Hct Hi Ho] H0.
  pose proof (count_txs _ _ _ _ _ _ (i_in _ _ (gd_inv _ _ G)) Hi) as Ci.
  pose proof (count_txs _ _ _ _ _ _ (i_out _ _ (gd_inv _ _ G)) Ho) as Co.
  unfold R, M, W in H0.
  assert (Dr : draining s = false) by (destruct (draining s); [lia|reflexivity]).
  rewrite Dr in H0.
  unfold quiescent, idle_chan.
  repeat split; try (apply length_zero_iff_nil; lia); auto.
  - intros Hp. rewrite Hp in H0. cbn [negb] in H0. apply length_zero_iff_nil; lia.
  - apply (gd_up _ _ G).
Qed.

(** everything the path ever accepted has been forwarded, answered, and the
    answer taken by the requester *)
Lemma idle_chan_done find pf pa cap c :
  ChanInv find pf pa cap c -> idle_chan c ->
  g_fretr c = map (fwd_of find pf) (g_all c) /\
  g_aretr c = map (answer_of pa) (g_done c) /\
  Permutation (map fst (g_done c)) (g_all c) /\
  map snd (g_done c) = g_rsp c /\
  (q_in c = [] -> map t_orig (g_all c) = g_deliv c).
Proof.
  intros H (Hf & Hr & Ha & Ht).
  pose proof (ci_fwd _ _ _ _ _ H) as H1. pose proof (ci_ans _ _ _ _ _ H) as H2.
  pose proof (ci_perm _ _ _ _ _ H) as H3. pose proof (ci_rsp _ _ _ _ _ H) as H4.
  pose proof (ci_deliv _ _ _ _ _ H) as H5.
  rewrite Hf, Ha, Ht, Hr, ?app_nil_r in *.
  repeat split; auto. intros Hq. rewrite Hq, app_nil_r in H5. exact H5.
Qed.

(** a pending drain has been acknowledged *)
Lemma drain_acked c s :
  Good c s -> ct_in s = [] -> g_env s = WaitDrain -> draining s = false ->
  exists d, cur s = Some d /\ ct_out s = [ctl_rsp FL_DRAIN_RSP d].
Proof.
  intros G Hct He Hd. pose proof (gd_ctl _ _ G) as Gc. unfold ctl_ok in Gc. rewrite He in Gc.
  destruct Gc as [(d & H & _)|(d & _ & Hcu & _ & [[H _]|[_ Ho]])]; try congruence.
  exists d; auto.
Qed.

(** * The environment state of an arbitrary reachable state *)
Definition memN (x : N) (l : list N) : bool := existsb (N.eqb x) l.

Lemma memN_in x l : memN x l = true <-> In x l.
Proof.
  unfold memN. rewrite existsb_exists. split.
  - intros (y & Hy & He). apply N.eqb_eq in He. now subst.
  - intros H. exists x; split; auto. apply N.eqb_refl.
Qed.

Definition unanswered (c : chan) : list msg :=
  filter (fun m => negb (memN (m_id m) (map m_rspto (g_rsp c)))) (g_fretr c).

Lemma NoDup_map_filter {A B} (f : A -> B) p l : NoDup (map f l) -> NoDup (map f (filter p l)).
Proof.
  induction l as [|a l IH]; cbn; intros H; [constructor|].
  inversion H; subst. destruct (p a); cbn; auto.
  constructor; auto. intros Hin. apply H2.
  apply in_map_iff in Hin as (y & <- & Hy). apply filter_In in Hy as [Hy _]. now apply in_map.
Qed.

Lemma unanswered_ok find pf pa cap c :
  ChanInv find pf pa cap c -> ChanP find pf pa c -> E c (unanswered c).
Proof.
  intros H P. unfold E.
  assert (Hn : NoDup (map m_id (g_fretr c))).
  { pose proof (ci_nodup _ _ _ _ _ H) as Hn.
    assert (Hm : map m_id (g_fretr c ++ f_out c) = map t_fid (g_all c)).
    { rewrite (ci_fwd _ _ _ _ _ H), map_map. apply map_ext. intros t. apply fwd_id. }
    rewrite <- Hm, map_app in Hn. eapply NoDup_app_l; eauto. }
  apply NoDup_Permutation; auto.
  - apply NoDup_app_intro.
    + apply (cp_nd _ _ _ _ P).
    + now apply NoDup_map_filter.
    + intros x Hx Hin. unfold unanswered in Hin.
      apply in_map_iff in Hin as (m & <- & Hm). apply filter_In in Hm as [_ Hm].
      apply memN_in in Hx. rewrite Hx in Hm. discriminate.
  - intros x; split; intros Hx.
    + apply in_or_app. destruct (memN x (map m_rspto (g_rsp c))) eqn:Em.
      * left. now apply memN_in.
      * right. apply in_map_iff in Hx as (m & <- & Hm). apply in_map.
        unfold unanswered. apply filter_In; split; auto. now rewrite Em.
    + apply in_app_or in Hx as [Hx|Hx].
      * now apply (cp_in _ _ _ _ P).
      * unfold unanswered in Hx. apply in_map_iff in Hx as (m & <- & Hm).
        apply filter_In in Hm as [Hm _]. now apply in_map.
Qed.

Definition env_of (s : st) : env := mkEnv (unanswered (ch_in s)) (unanswered (ch_out s)).

Lemma env_of_live c s : Good c s -> ct_in s = [] -> LiveX c (s, env_of s).
Proof.
  intros G Hct. unfold LiveX; cbn. constructor; auto.
  - apply (unanswered_ok _ _ _ _ _ (i_in _ _ (gd_inv _ _ G)) (gd_in _ _ G)).
  - apply (unanswered_ok _ _ _ _ _ (i_out _ _ (gd_inv _ _ G)) (gd_out _ _ G)).
Qed.

(** * Liveness *)
Definition bound (s : st) : nat := rank (s, env_of s).

Theorem liveness c evs :
  widths_ok c -> respects c init evs ->
  let s := run c init evs in
  ct_in s = [] ->
  forall qs, Forall quota_ok qs -> bound s <= length qs ->
  let s' := fst (rounds c qs (s, env_of s)) in
  let e' := snd (rounds c qs (s, env_of s)) in
  quiescent s' e' /\ Good c s' /\ pause s' = pause s /\
  (draining s = true -> exists d, cur s' = Some d /\ ct_out s' = [ctl_rsp FL_DRAIN_RSP d]).
Proof.
  intros Hw Hr s Hct qs Hq Hn s' e'.
  assert (G : Good c s) by (apply run_good; [apply init_good|exact Hr]).
  pose proof (env_of_live c s G Hct) as L.
  destruct (rounds_rank c Hw qs _ Hq L) as (L' & K' & Hrk). cbn [fst] in K'.
  unfold bound in Hn.
  assert (H0 : rank (rounds c qs (s, env_of s)) = 0) by lia.
  pose proof (rank0_quiescent c _ L' H0) as Q. fold s' e' in Q.
  unfold Kp in K'. injection K' as Kp1 Kp2. fold s' in Kp1, Kp2.
  split; [exact Q|]. split; [apply (lv_good _ _ _ _ L')|]. split; [exact Kp1|].
  intros Hd. destruct (draining_ct_out s (gd_ctl _ _ G) Hd) as [_ He].
  apply (drain_acked c s' (lv_good _ _ _ _ L') (lv_ct _ _ _ _ L')); [congruence|].
  apply Q.
Qed.

(** ... hence on both paths everything accepted was forwarded, answered and
    the answer taken by the requester (ghost logs of Rdma.v) *)
Definition path_all_answered (find : N -> N) (pf pa : N) (ch : chan) : Prop :=
  g_fretr ch = map (fwd_of find pf) (g_all ch) /\
  g_aretr ch = map (answer_of pa) (g_done ch) /\
  Permutation (map fst (g_done ch)) (g_all ch) /\
  map snd (g_done ch) = g_rsp ch.

Theorem liveness_answered c evs :
  widths_ok c -> respects c init evs ->
  let s := run c init evs in
  ct_in s = [] ->
  forall qs, Forall quota_ok qs -> bound s <= length qs ->
  let s' := fst (rounds c qs (s, env_of s)) in
  path_all_answered (remote_find c) P_RO P_RI (ch_in s') /\
  path_all_answered (local_find c) P_DI P_DO (ch_out s') /\
  map t_orig (g_all (ch_out s')) = g_deliv (ch_out s') /\
  (pause s = false -> map t_orig (g_all (ch_in s')) = g_deliv (ch_in s')).
Proof.
  intros Hw Hr s Hct qs Hq Hn s'.
  destruct (liveness c evs Hw Hr Hct qs Hq Hn) as (Q & G & Hp & _). fold s s' in Q, G, Hp.
  destruct Q as (_ & _ & Ii & Io & Qo & Qi & _).
  destruct (idle_chan_done _ _ _ _ _ (i_in _ _ (gd_inv _ _ G)) Ii) as (A1 & A2 & A3 & A4 & A5).
  destruct (idle_chan_done _ _ _ _ _ (i_out _ _ (gd_inv _ _ G)) Io) as (B1 & B2 & B3 & B4 & B5).
  unfold path_all_answered. repeat split; auto.
  intros Hp0. apply A5, Qi. congruence.
Qed.

(** the rank never grows and drops in every round that starts with work left *)
Theorem rank_decreases c evs :
  widths_ok c -> respects c init evs ->
  let s := run c init evs in
  ct_in s = [] ->
  forall qs q, Forall quota_ok qs -> quota_ok q ->
  let x := rounds c qs (s, env_of s) in
  rank (round c q x) < rank x \/ (rank (round c q x) = 0 /\ rank x = 0).
Proof.
  intros Hw Hr s Hct qs q Hq Hq1 x.
  assert (G : Good c s) by (apply run_good; [apply init_good|exact Hr]).
  pose proof (env_of_live c s G Hct) as L.
  destruct (rounds_rank c Hw qs _ Hq L) as (L' & _ & _). fold x in L'.
  destruct (round_live c q x Hw Hq1 L') as (_ & _ & [T|[T1 T2]]); [left; exact T|right; lia].
Qed.

(** * The rounds are runs of protocol-respecting model events
    (so every theorem about [run c init evs] applies to the states they reach) *)
Definition quiet_ev (e : ev) : Prop :=
  match e with
  | EDeliver RI _ | EDeliver DO _ | EDeliver CT _ => False
  | _ => True
  end.

Lemma respects_app c : forall a s b,
  respects c s a -> respects c (run c s a) b -> respects c s (a ++ b).
Proof.
  induction a as [|e a IH]; intros s b Ha Hb; cbn in *; auto.
  destruct Ha as [H1 H2]. split; auto.
Qed.

Definition ReachOp (c : cfg) (op : ecfg -> ecfg) : Prop :=
  forall y, LiveY c y ->
    exists evl, sY (op y) = run c (sY y) evl /\ respects c (sY y) evl /\ Forall quiet_ev evl.

Lemma reach_retr c p s : fst (retr c p s) = run c s [ERetr p].
Proof. unfold retr, run; cbn. destruct (step c s (ERetr p)) as [s' o]. destruct o; reflexivity. Qed.

Lemma reach_oRO c : ReachOp c (oRO c).
Proof.
  intros [[s pi] po] L. exists [ERetr RO]. unfold oRO, sY. cbn [fst snd].
  pose proof (reach_retr c RO s) as H. destruct (retr c RO s) as [s' o]. cbn [fst snd] in *.
  split; [exact H|]. split; [cbn; auto|]. constructor; cbn; auto.
Qed.
Lemma reach_oDI c : ReachOp c (oDI c).
Proof.
  intros [[s pi] po] L. exists [ERetr DI]. unfold oDI, sY. cbn [fst snd].
  pose proof (reach_retr c DI s) as H. destruct (retr c DI s) as [s' o]. cbn [fst snd] in *.
  split; [exact H|]. split; [cbn; auto|]. constructor; cbn; auto.
Qed.
Lemma reach_oRI c : ReachOp c (oRI c).
Proof.
  intros [[s pi] po] L. exists [ERetr RI]. unfold oRI, sY. cbn [fst snd].
  split; [apply reach_retr|]. split; [cbn; auto|]. constructor; cbn; auto.
Qed.
Lemma reach_oDO c : ReachOp c (oDO c).
Proof.
  intros [[s pi] po] L. exists [ERetr DO]. unfold oDO, sY. cbn [fst snd].
  split; [apply reach_retr|]. split; [cbn; auto|]. constructor; cbn; auto.
Qed.

Lemma reach_aRO c : ReachOp c (aRO c).
Proof.
  intros [[s pi] po] L. unfold LiveY, sY, piY, poY in L. cbn [fst snd] in L.
  destruct L as [G Hct Hi Ho]. unfold aRO, ans, sY. cbn [fst snd].
  destruct pi as [|m r]; [exists []; cbn; auto|].
  pose proof (E_head_ok _ _ _ _ _ _ _ (i_in _ _ (gd_inv _ _ G)) Hi) as Hok.
  destruct (step c s (EDeliver RO (rsp_for m))) as [s' o] eqn:Es.
  destruct o as [[|]| | |]; try (exists []; cbn; auto; fail).
  exists [EDeliver RO (rsp_for m)]. unfold run; cbn. rewrite Es. cbn.
  split; auto. split; [split; [exact Hok|exact I]|]. constructor; cbn; auto.
Qed.
Lemma reach_aDI c : ReachOp c (aDI c).
Proof.
  intros [[s pi] po] L. unfold LiveY, sY, piY, poY in L. cbn [fst snd] in L.
  destruct L as [G Hct Hi Ho]. unfold aDI, ans, sY. cbn [fst snd].
  destruct po as [|m r]; [exists []; cbn; auto|].
  pose proof (E_head_ok _ _ _ _ _ _ _ (i_out _ _ (gd_inv _ _ G)) Ho) as Hok.
  destruct (step c s (EDeliver DI (rsp_for m))) as [s' o] eqn:Es.
  destruct o as [[|]| | |]; try (exists []; cbn; auto; fail).
  exists [EDeliver DI (rsp_for m)]. unfold run; cbn. rewrite Es. cbn.
  split; auto. split; [split; [exact Hok|exact I]|]. constructor; cbn; auto.
Qed.

Lemma reach_niter c Stk op : OpSpec c Stk op -> ReachOp c op -> forall k, ReachOp c (niter k op).
Proof.
  intros Hs Hr. induction k as [|k IH]; intros y L; cbn [niter].
  - exists []; cbn; auto.
  - destruct (Hr y L) as (e1 & H1 & R1 & Q1).
    destruct (Hs y L) as (L1 & _ & _).
    destruct (IH _ L1) as (e2 & H2 & R2 & Q2).
    exists (e1 ++ e2). rewrite run_app, <- H1. split; auto. split.
    + apply respects_app; auto. now rewrite <- H1.
    + apply Forall_app; auto.
Qed.

Lemma reach_chain c op y s0 evl0 :
  ReachOp c op -> LiveY c y ->
  sY y = run c s0 evl0 -> respects c s0 evl0 -> Forall quiet_ev evl0 ->
  exists evl, sY (op y) = run c s0 evl /\ respects c s0 evl /\ Forall quiet_ev evl.
Proof.
  intros Hr L H0 R0 Q0. destruct (Hr y L) as (e1 & H1 & R1 & Q1).
  exists (evl0 ++ e1). rewrite run_app, <- H0. split; auto. split.
  - apply respects_app; auto. now rewrite <- H0.
  - apply Forall_app; auto.
Qed.

Lemma round_reach c q x :
  widths_ok c -> LiveX c x ->
  exists evl, fst (round c q x) = run c (fst x) evl /\ respects c (fst x) evl /\ Forall quiet_ev evl.
Proof.
  intros Hw L. destruct x as [s e]. unfold LiveX in L. cbn [fst snd] in *. unfold round.
  destruct (tick_live c s _ _ Hw L) as (L1 & _ & _).
  assert (LY1 : LiveY c (fst (step c s ETick), p_in e, p_out e)) by exact L1.
  assert (C1 : exists evl, sY (fst (step c s ETick), p_in e, p_out e) = run c s evl /\
                           respects c s evl /\ Forall quiet_ev evl).
  { exists [ETick]. unfold sY, run; cbn. split; auto. split; auto. constructor; cbn; auto. }
  remember (fst (step c s ETick), p_in e, p_out e) as y1 eqn:E1. clear E1.
  destruct C1 as (v1 & H1 & R1 & Q1).
  pose proof (niter_mono c _ _ (spec_oRO c) (k_ro q) _ LY1) as (L2 & _ & _).
  destruct (reach_chain c _ _ _ _ (reach_niter c _ _ (spec_oRO c) (reach_oRO c) (k_ro q)) LY1 H1 R1 Q1) as (v2 & H2 & R2 & Q2).
  remember (niter (k_ro q) (oRO c) y1) as y2 eqn:E2. clear E2.
  pose proof (niter_mono c _ _ (spec_oRI c) (k_ri q) _ L2) as (L3 & _ & _).
  destruct (reach_chain c _ _ _ _ (reach_niter c _ _ (spec_oRI c) (reach_oRI c) (k_ri q)) L2 H2 R2 Q2) as (v3 & H3 & R3 & Q3).
  remember (niter (k_ri q) (oRI c) y2) as y3 eqn:E3. clear E3.
  pose proof (niter_mono c _ _ (spec_oDI c) (k_di q) _ L3) as (L4 & _ & _).
  destruct (reach_chain c _ _ _ _ (reach_niter c _ _ (spec_oDI c) (reach_oDI c) (k_di q)) L3 H3 R3 Q3) as (v4 & H4 & R4 & Q4).
  remember (niter (k_di q) (oDI c) y3) as y4 eqn:E4. clear E4.
  pose proof (niter_mono c _ _ (spec_oDO c) (k_do q) _ L4) as (L5 & _ & _).
  destruct (reach_chain c _ _ _ _ (reach_niter c _ _ (spec_oDO c) (reach_oDO c) (k_do q)) L4 H4 R4 Q4) as (v5 & H5 & R5 & Q5).
  remember (niter (k_do q) (oDO c) y4) as y5 eqn:E5. clear E5.
  pose proof (niter_mono c _ _ (spec_aRO c) (k_aro q) _ L5) as (L6 & _ & _).
  destruct (reach_chain c _ _ _ _ (reach_niter c _ _ (spec_aRO c) (reach_aRO c) (k_aro q)) L5 H5 R5 Q5) as (v6 & H6 & R6 & Q6).
  remember (niter (k_aro q) (aRO c) y5) as y6 eqn:E6. clear E6.
  destruct (reach_chain c _ _ _ _ (reach_niter c _ _ (spec_aDI c) (reach_aDI c) (k_adi q)) L6 H6 R6 Q6) as (v7 & H7 & R7 & Q7).
  remember (niter (k_adi q) (aDI c) y6) as y7 eqn:E7. clear E7.
  exists v7. destruct y7 as [[s7 pi7] po7]. unfold sY in H7. cbn [fst snd] in *. auto.
Qed.

Lemma rounds_reach c : widths_ok c -> forall qs x,
  Forall quota_ok qs -> LiveX c x ->
  exists evl, fst (rounds c qs x) = run c (fst x) evl /\ respects c (fst x) evl /\ Forall quiet_ev evl.
Proof.
  intros Hw. induction qs as [|q qs IH]; intros x Hq L; cbn [rounds fold_left].
  - exists []; cbn; auto.
  - inversion Hq as [|? ? Hq1 Hq2]; subst.
    destruct (round_reach c q x Hw L) as (e1 & H1 & R1 & Q1).
    destruct (round_live c q x Hw Hq1 L) as (L1 & _ & _).
    destruct (IH _ Hq2 L1) as (e2 & H2 & R2 & Q2). unfold rounds in *.
    exists (e1 ++ e2). rewrite run_app, <- H1. split; auto. split.
    + apply respects_app; auto. now rewrite <- H1.
    + apply Forall_app; auto.
Qed.

Theorem liveness_reachable c evs :
  widths_ok c -> respects c init evs ->
  let s := run c init evs in
  ct_in s = [] ->
  forall qs, Forall quota_ok qs ->
  exists evs', fst (rounds c qs (s, env_of s)) = run c init (evs ++ evs') /\
               respects c init (evs ++ evs') /\ Forall quiet_ev evs'.
Proof.
  intros Hw Hr s Hct qs Hq.
  assert (G : Good c s) by (apply run_good; [apply init_good|exact Hr]).
  pose proof (env_of_live c s G Hct) as L.
  destruct (rounds_reach c Hw qs _ Hq L) as (e1 & H1 & R1 & Q1). cbn [fst] in *.
  exists e1. rewrite run_app. split; auto. split; auto. apply respects_app; auto.
Qed.
