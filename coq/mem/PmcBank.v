(** Banked local memories.  In pmc.go the memory controller of a request is
    [MemCtrlFinder.Find(address)] - an arbitrary address-to-port mapper - looked
    up for EVERY read request (processReadPageReqFromAnotherPMC) and EVERY write
    request (processDataPullRsp) with the request's own address.

    This file: the two stages with an arbitrary [finder : address -> bank], a
    memory made of banks in which the bank NAMED IN THE REQUEST serves it, the
    view of such a memory through the owning banks, and the system of two
    controllers over two banked memories.  Definitions only; proofs are in
    PmcBankProofs.v. *)
From VMem Require Export Pmc.
From RecordUpdate Require Import RecordSet.
Import RecordSetNotations.
Open Scope N_scope.

(** * The two stages that consult MemCtrlFinder *)
Section Stages.
Context (finder : N -> N).

(* 10 *)
Definition mk_read_f (s : pmc) (q : pullreq) : rdreq :=
  mkRdReq (pq_id q) (n_local s) (finder (pq_addr q)) (pq_addr q) (pq_size q).
Definition processReadPageReqFromAnotherPMC_f (s : pmc) : pmc * bool :=
  if is_nil (cur_pull s) then (s, false) else
  (s <| to_read := to_read s ++ map (mk_read_f s) (cur_pull s) |> <| cur_pull := [] |>, true).

(* 12 *)
Fixpoint pull_rsps_f (loc : N) (l : list pullrsp) (m : list (id * N))
  : list wrreq * list (id * N) * bool :=
  match l with
  | [] => ([], m, false)
  | r :: rest =>
    match lookup (pr_id r) m with
    | None => ([], m, true)
    | Some a =>
      let '(ws, m', c) := pull_rsps_f loc rest (delete (pr_id r) m) in
      (mkWrReq loc (finder a) a (pr_data r) :: ws, m', c)
    end
  end.
Definition processDataPullRsp_f (s : pmc) : pmc * bool :=
  if is_nil (recv_data s) then (s, false) else
  let '(ws, m', c) := pull_rsps_f (n_local s) (recv_data s) (idmap s) in
  if c then (s <| crashed := true |>, false) else
  (s <| write_reqs := write_reqs s ++ ws |> <| idmap := m' |> <| recv_data := [] |>, true).

Definition stages_f : list (pmc -> pmc * bool) :=
  [ sendMigrationReqToAnotherPMC; sendReadReqLocalMemPort;
    sendMigrationCompleteRspToCtrlPort; sendDataReadyRspToRequestingPMC;
    sendWriteReqLocalMemPort; processFromOutside; processFromCtrlPort;
    processFromMemCtrl; processPageMigrationReqFromCtrlPort;
    processReadPageReqFromAnotherPMC_f; processDataReadyRspFromMemCtrl;
    processDataPullRsp_f; processWriteDoneRspFromMemCtrl ].
Definition tick_f (s : pmc) : pmc * bool :=
  fold_right andthen (fun s => (s, false)) stages_f s.

(** the destination these stages stamp on a request to the local memory *)
Definition stamp (m : pmsg) : pmsg :=
  match m with
  | MRdReq q => MRdReq (mkRdReq (rq_id q) (rq_src q) (finder (rq_addr q)) (rq_addr q) (rq_size q))
  | MWrReq q => MWrReq (mkWrReq (wq_src q) (finder (wq_addr q)) (wq_addr q) (wq_data q))
  | _ => m
  end.

(** [routed m]: the request is addressed to the bank that owns its address *)
Definition routed (m : pmsg) : Prop :=
  match m with
  | MRdReq q => rq_dst q = finder (rq_addr q)
  | MWrReq q => wq_dst q = finder (wq_addr q)
  | _ => True
  end.

(** [piece_local m]: all bytes of the request have one owner (the interleaving
    granularity is a multiple of the 64-byte transfer unit and pages are
    64-aligned; see [interleaved_piece_local]) *)
Definition req_range (m : pmsg) : option (N * N) :=
  match m with
  | MRdReq q => Some (rq_addr q, rq_size q)
  | MWrReq q => Some (wq_addr q, N.of_nat (length (wq_data q)))
  | _ => None
  end.
Definition piece_local (m : pmsg) : Prop :=
  match req_range m with
  | Some (a, n) => forall j, j < n -> finder (a + j) = finder a
  | None => True
  end.
End Stages.

(** a request in the single-controller model: destination replaced by [memc] *)
Definition flatten (memc : N) (m : pmsg) : pmsg :=
  match m with
  | MRdReq q => MRdReq (mkRdReq (rq_id q) (rq_src q) memc (rq_addr q) (rq_size q))
  | MWrReq q => MWrReq (mkWrReq (wq_src q) memc (wq_addr q) (wq_data q))
  | _ => m
  end.

(** what mem.InterleavedAddressPortMapper.Find computes (bank index) *)
Definition interleaved (g n : N) (a : N) : N := (a / g) mod n.

(** * A memory made of banks *)
Definition banks := N -> store.      (* bank name -> its byte array *)

(** reading every address through the bank that owns it *)
Definition bview (finder : N -> N) (bs : banks) : store := fun a => bs (finder a) a.

(** The bank NAMED IN THE REQUEST serves it (a bank stores what it is sent). *)
Definition bank_serve (bs : banks) (m : pmsg) : option (banks * pmsg) :=
  match m with
  | MRdReq q => Some (bs, MDReady (mkDReady (rq_dst q) (rq_src q) (rq_id q)
                                            (read (bs (rq_dst q)) (rq_addr q) (rq_size q))))
  | MWrReq q => Some (fun b => if b =? wq_dst q then write (bs b) (wq_addr q) (wq_data q) else bs b,
                      MWDone (mkWDone (wq_dst q) (wq_src q)))
  | _ => None
  end.

(** * Two controllers over two banked memories
    The controllers, ports, network and queues are those of [sys]; a request
    that reaches a memory carries the destination the controller stamped on it
    ([stamp], i.e. stages 10/12 above) and is served by THAT bank. *)
Record bsys := mkB { flat : sys; bka : banks; bkb : banks }.
Definition getbk (w : who) (b : bsys) : banks := match w with PA => bka b | PB => bkb b end.
Definition setbk (w : who) (v : banks) (b : bsys) : bsys :=
  match w with PA => mkB (flat b) v (bkb b) | PB => mkB (flat b) (bka b) v end.

(** the request a memory-service event serves, if any *)
Definition served1 (s : sys) (e : ev) : option (who * pmsg) :=
  if crashed (pa s) || crashed (pb s) then None else
  match e with
  | EMemServe w k =>
    match nth_error (getmq w s) k with
    | Some m => match mem_serve (getst w s) m with Some _ => Some (w, m) | None => None end
    | None => None
    end
  | _ => None
  end.

Section BSys.
Context (fa fb : N -> N).
Definition fw (w : who) : N -> N := match w with PA => fa | PB => fb end.

Definition bstep (b : bsys) (e : ev) : bsys :=
  let s' := fst (step (flat b) e) in
  match served1 (flat b) e with
  | Some (w, m) =>
    match bank_serve (getbk w b) (stamp (fw w) m) with
    | Some (bs', _) => setbk w bs' (mkB s' (bka b) (bkb b))
    | None => mkB s' (bka b) (bkb b)
    end
  | None => mkB s' (bka b) (bkb b)
  end.
Definition brun (b : bsys) (evs : list ev) : bsys := fold_left bstep evs b.

(** every request served during the run has a single owner *)
Fixpoint served_local (s : sys) (evs : list ev) : Prop :=
  match evs with
  | [] => True
  | e :: r =>
    match served1 s e with
    | Some (w, m) => piece_local (fw w) m
    | None => True
    end /\ served_local (fst (step s e)) r
  end.
End BSys.

(** * The seeded class, in the model: the destination looked up once per page *)
Definition stamp_page (finder : N -> N) (page : N) (m : pmsg) : pmsg :=
  match m with
  | MWrReq q => MWrReq (mkWrReq (wq_src q) (finder page) (wq_addr q) (wq_data q))
  | _ => m
  end.
