(** Invariant of the reorder-buffer model and the lemmas behind props/C15.v. *)
From Coq Require Import Arith.
From VLib Require Import Akita ListX.
From VMem Require Import Rob.
From RecordUpdate Require Import RecordSet.
Import RecordSetNotations.
Open Scope N_scope.

Definition accepted (l : list (msg * bool)) : list msg := map fst (filter snd l).

Definition resp1 (p : tx * bool) : list msg :=
  if snd p then match t_rsp (fst p) with Some r => [answer (fst p) r] | None => [] end else [].
Definition resp_of (l : list (tx * bool)) : list msg := flat_map resp1 l.

Arguments accepted : simpl never.
Arguments resp_of : simpl never.
Arguments Nat.mul : simpl never.

Definition fwd_of (t : tx) : msg := fwd_req (t_bid t) (t_top t).

Definition rsp_ok (t : tx) : Prop :=
  forall r, t_rsp t = Some r -> m_rspto r = t_bid t.
Definition fate_ok (p : tx * bool) : Prop :=
  snd p = true -> exists r, t_rsp (fst p) = Some r /\ m_rspto r = t_bid (fst p) /\ is_rsp r = true.

Record Inv (s : rob) : Prop := {
  i_deliv : map fst (g_seen s) ++ top_in s = g_deliv s;
  i_acc   : map t_top (map fst (g_fate s) ++ txs s) = accepted (g_seen s);
  i_fwd   : g_fwd s = map fwd_of (map fst (g_fate s) ++ txs s);
  i_out   : g_out s = resp_of (g_fate s);
  i_fate  : Forall fate_ok (g_fate s);
  i_rsp   : Forall rsp_ok (txs s);
  i_cap   : (length (txs s) <= cap s)%nat;
  i_fresh : Forall (fun t => t_bid t < next_id s) (txs s);
  i_nodup : NoDup (map t_bid (txs s));
  i_retr  : g_retr s ++ top_out s = g_out s;
  i_bretr : g_bretr s ++ bot_out s = g_fwd s;
  i_pt    : (length (top_out s) <= pcap s)%nat;
  i_pb    : (length (bot_out s) <= pcap s)%nat
}.

Lemma init_inv c w : Inv (init c w).
Proof. constructor; cbn; auto using NoDup_nil; try lia. Qed.

Lemma accepted_app l1 l2 : accepted (l1 ++ l2) = accepted l1 ++ accepted l2.
Proof. unfold accepted. now rewrite filter_app, map_app. Qed.

Lemma accepted_dropped (l : list msg) : accepted (map (fun m => (m, false)) l) = [].
Proof. induction l; auto. Qed.

Lemma resp_of_app l1 l2 : resp_of (l1 ++ l2) = resp_of l1 ++ resp_of l2.
Proof. unfold resp_of. now rewrite flat_map_app. Qed.

Lemma resp_of_discarded (l : list tx) : resp_of (map (fun t => (t, false)) l) = [].
Proof. induction l; auto. Qed.

Lemma map_fst_tag {A} (b : bool) (l : list A) : map fst (map (fun t => (t, b)) l) = l.
Proof. induction l; simpl; congruence. Qed.

(** ** set_rsp keeps everything but the stored response *)
Lemma set_rsp_top id r l : map t_top (set_rsp id r l) = map t_top l.
Proof. induction l as [|t l IH]; simpl; auto. destruct (t_bid t =? id); simpl; congruence. Qed.
Lemma set_rsp_bid id r l : map t_bid (set_rsp id r l) = map t_bid l.
Proof. induction l as [|t l IH]; simpl; auto. destruct (t_bid t =? id); simpl; congruence. Qed.
Lemma set_rsp_fwd id r l : map fwd_of (set_rsp id r l) = map fwd_of l.
Proof. induction l as [|t l IH]; simpl; auto. destruct (t_bid t =? id); unfold fwd_of in *; simpl; congruence. Qed.
Lemma set_rsp_length id r l : length (set_rsp id r l) = length l.
Proof. induction l as [|t l IH]; simpl; auto. destruct (t_bid t =? id); simpl; congruence. Qed.
Lemma set_rsp_ok id r l : m_rspto r = id -> Forall rsp_ok l -> Forall rsp_ok (set_rsp id r l).
Proof.
  intros Hr; induction 1 as [|t l Ht Hl IH]; simpl; auto.
  destruct (t_bid t =? id) eqn:E; constructor; auto.
  apply N.eqb_eq in E. intros r' Hr'; cbn in *. inversion Hr'; subst; auto.
Qed.
Lemma set_rsp_fresh id r l n :
  Forall (fun t => t_bid t < n) l -> Forall (fun t => t_bid t < n) (set_rsp id r l).
Proof.
  induction 1 as [|t l Ht Hl IH]; simpl; auto.
  destruct (t_bid t =? id); constructor; auto.
Qed.

Ltac inv_split H :=
  destruct H as [Hdeliv Hacc Hfwd Hout Hfate Hrsp Hcap Hfresh Hnodup Hretr Hbretr Hpt Hpb].

(** ** the three pipeline stages *)
Lemma top_down_inv s : Inv s -> Inv (fst (top_down s)).
Proof.
  intros H; unfold top_down.
  destruct (top_in s) as [|req rest] eqn:Etop; [exact H|].
  destruct (Nat.leb (cap s) (length (txs s))) eqn:Efull; [exact H|].
  apply Nat.leb_gt in Efull.
  destruct (is_req req) eqn:Ereq; cbn [negb].
  2:{ inv_split H; constructor; cbn; auto. }
  destruct (can_push (pcap s) (bot_out s)) eqn:Epush; cbn [negb]; [|exact H].
  unfold can_push in Epush; apply Nat.ltb_lt in Epush.
  inv_split H; constructor; cbn.
  - rewrite map_app, <- app_assoc. cbn. now rewrite <- Hdeliv, Etop.
  - rewrite app_assoc, map_app, Hacc, accepted_app. reflexivity.
  - rewrite app_assoc, map_app, <- Hfwd. reflexivity.
  - auto.
  - auto.
  - apply Forall_app; split; auto. constructor; auto. intros r Hr; discriminate.
  - rewrite app_length; cbn; lia.
  - apply Forall_app; split.
    + eapply Forall_impl; [|exact Hfresh]. cbn; intros; lia.
    + constructor; auto. cbn; lia.
  - rewrite map_app; cbn. apply NoDup_app_intro; auto.
    + constructor; auto using NoDup_nil.
    + intros x Hin [<-|[]]. apply in_map_iff in Hin as (t & Ht & Hin).
      rewrite Forall_forall in Hfresh. apply Hfresh in Hin. lia.
  - auto.
  - now rewrite app_assoc, Hbretr.
  - auto.
  - rewrite app_length; cbn; unfold pcap in *; cbn; lia.
Qed.

Lemma parse_bottom_inv s : Inv s -> Inv (fst (parse_bottom s)).
Proof.
  intros H; unfold parse_bottom.
  destruct (bot_in s) as [|r rest] eqn:Ebot; [exact H|].
  inv_split H; constructor; cbn; auto.
  - now rewrite map_app, set_rsp_top, <- map_app.
  - now rewrite map_app, set_rsp_fwd, <- map_app.
  - apply set_rsp_ok; auto.
  - now rewrite set_rsp_length.
  - now apply set_rsp_fresh.
  - now rewrite set_rsp_bid.
Qed.

Lemma bottom_up_inv s : Inv s -> Inv (fst (bottom_up s)).
Proof.
  intros H; unfold bottom_up.
  destruct (txs s) as [|t rest] eqn:Etx; [exact H|].
  destruct (t_rsp t) as [r|] eqn:Er; [|exact H].
  destruct (is_rsp r) eqn:Ersp; cbn [negb].
  2:{ inv_split H; constructor; cbn; auto. }
  destruct (can_push (pcap s) (top_out s)) eqn:Epush; cbn [negb]; [|exact H].
  unfold can_push in Epush; apply Nat.ltb_lt in Epush.
  inv_split H. rewrite Etx in *. inversion Hrsp as [|? ? Ht Hrest]; subst.
  inversion Hfresh; subst. cbn in Hnodup. inversion Hnodup; subst.
  constructor; cbn; auto.
  - rewrite (map_app fst), <- app_assoc. exact Hacc.
  - rewrite (map_app fst), <- app_assoc. exact Hfwd.
  - rewrite resp_of_app, <- Hout. unfold resp_of; cbn. unfold resp1; cbn. now rewrite Er.
  - apply Forall_app; split; auto. constructor; auto.
    intros _. exists r; cbn; auto.
  - cbn in Hcap; lia.
  - now rewrite app_assoc, Hretr.
  - rewrite app_length; unfold pcap in *; cbn; lia.
Qed.

Lemma iter_inv (f : rob -> rob * bool) :
  (forall s, Inv s -> Inv (fst (f s))) -> forall n s, Inv s -> Inv (fst (iter n f s)).
Proof.
  intros Hf; induction n as [|n IH]; intros s H; cbn; auto.
  specialize (Hf s H). destruct (f s) as [s1 p1]; cbn in Hf.
  specialize (IH s1 Hf). destruct (iter n f s1) as [s2 p2]; auto.
Qed.

(** the configuration never changes *)
Definition same_cfg (s s' : rob) : Prop := cap s' = cap s /\ width s' = width s.
Lemma same_cfg_refl s : same_cfg s s. Proof. split; auto. Qed.
Lemma same_cfg_trans a b c : same_cfg a b -> same_cfg b c -> same_cfg a c.
Proof. unfold same_cfg; intuition congruence. Qed.

Lemma top_down_cfg s : same_cfg s (fst (top_down s)).
Proof.
  unfold top_down. destruct (top_in s); [apply same_cfg_refl|].
  destruct (Nat.leb _ _); [apply same_cfg_refl|].
  destruct (negb (is_req m)); [split; reflexivity|].
  destruct (negb _); [apply same_cfg_refl|split; reflexivity].
Qed.
Lemma parse_bottom_cfg s : same_cfg s (fst (parse_bottom s)).
Proof. unfold parse_bottom. destruct (bot_in s); [apply same_cfg_refl|split; reflexivity]. Qed.
Lemma bottom_up_cfg s : same_cfg s (fst (bottom_up s)).
Proof.
  unfold bottom_up. destruct (txs s); [apply same_cfg_refl|].
  destruct (t_rsp t); [|apply same_cfg_refl].
  destruct (negb (is_rsp m)); [split; reflexivity|].
  destruct (negb _); [apply same_cfg_refl|split; reflexivity].
Qed.
Lemma iter_cfg (f : rob -> rob * bool) :
  (forall s, same_cfg s (fst (f s))) -> forall n s, same_cfg s (fst (iter n f s)).
Proof.
  intros Hf; induction n as [|n IH]; intros s; cbn; [apply same_cfg_refl|].
  specialize (Hf s). destruct (f s) as [s1 p1]; cbn in Hf.
  specialize (IH s1). destruct (iter n f s1) as [s2 p2]; cbn in *.
  eapply same_cfg_trans; eauto.
Qed.

Lemma run_pipeline_inv s : Inv s -> Inv (fst (run_pipeline s)).
Proof.
  intros H; unfold run_pipeline.
  pose proof (iter_inv _ bottom_up_inv (width s) s H) as H1.
  destruct (iter (width s) bottom_up s) as [s1 p1]; cbn in H1.
  pose proof (iter_inv _ parse_bottom_inv (width s) s1 H1) as H2.
  destruct (iter (width s) parse_bottom s1) as [s2 p2]; cbn in H2.
  pose proof (iter_inv _ top_down_inv (width s) s2 H2) as H3.
  destruct (iter (width s) top_down s2) as [s3 p3]; cbn in H3. exact H3.
Qed.

Lemma run_pipeline_cfg s : same_cfg s (fst (run_pipeline s)).
Proof.
  unfold run_pipeline.
  pose proof (iter_cfg _ bottom_up_cfg (width s) s) as H1.
  destruct (iter (width s) bottom_up s) as [s1 p1]; cbn in H1.
  pose proof (iter_cfg _ parse_bottom_cfg (width s) s1) as H2.
  destruct (iter (width s) parse_bottom s1) as [s2 p2]; cbn in H2.
  pose proof (iter_cfg _ top_down_cfg (width s) s2) as H3.
  destruct (iter (width s) top_down s2) as [s3 p3]; cbn in *.
  eauto using same_cfg_trans.
Qed.

Lemma discard_all_props s :
  Inv s ->
  map t_top (map fst (g_fate (discard_all s)) ++ []) = accepted (g_seen s) /\
  g_fwd s = map fwd_of (map fst (g_fate (discard_all s)) ++ []) /\
  g_out s = resp_of (g_fate (discard_all s)) /\
  Forall fate_ok (g_fate (discard_all s)).
Proof.
  intros H; inv_split H; unfold discard_all; cbn.
  rewrite !app_nil_r, map_app, map_fst_tag. repeat split; auto.
  - now rewrite resp_of_app, resp_of_discarded, app_nil_r.
  - apply Forall_app; split; auto. apply Forall_forall. intros [t b] Hin.
    apply in_map_iff in Hin as (t' & Heq & _). inversion Heq; subst. intros Hc; discriminate.
Qed.

Lemma process_ctl_inv s : Inv s -> Inv (fst (process_ctl s)).
Proof.
  intros H; unfold process_ctl.
  destruct (ctl_in s) as [|c rest] eqn:Ectl; [exact H|].
  destruct (has_flag c F_DISCARD).
  { destruct (can_push 1 (ctl_out s)); [|exact H].
    destruct (discard_all_props s H) as (A & B & C & D).
    inv_split H; constructor; cbn; auto using NoDup_nil; try lia. }
  destruct (has_flag c F_RESTART).
  { destruct (can_push 1 (ctl_out s)); [|exact H].
    destruct (discard_all_props s H) as (A & B & C & D).
    inv_split H; constructor; cbn; auto using NoDup_nil; try lia.
    - rewrite map_app, map_fst_tag, app_nil_r. exact Hdeliv.
    - rewrite accepted_app, accepted_dropped, !app_nil_r. rewrite app_nil_r in A. exact A. }
  inv_split H; constructor; cbn; auto.
Qed.

Lemma process_ctl_cfg s : same_cfg s (fst (process_ctl s)).
Proof.
  unfold process_ctl. destruct (ctl_in s); [apply same_cfg_refl|].
  destruct (has_flag _ _); [destruct (can_push _ _); [split; reflexivity|apply same_cfg_refl]|].
  destruct (has_flag _ _); [destruct (can_push _ _); [split; reflexivity|apply same_cfg_refl]|].
  split; reflexivity.
Qed.

Lemma tick_inv s : Inv s -> Inv (fst (tick s)).
Proof.
  intros H; unfold tick.
  pose proof (process_ctl_inv s H) as H1.
  destruct (process_ctl s) as [s1 p1]; cbn in H1.
  destruct (crashed s1); [exact H1|]. destruct (flushing s1); [exact H1|].
  pose proof (run_pipeline_inv s1 H1) as H2.
  destruct (run_pipeline s1) as [s2 p2]; exact H2.
Qed.

Lemma tick_cfg s : same_cfg s (fst (tick s)).
Proof.
  unfold tick. pose proof (process_ctl_cfg s) as H1.
  destruct (process_ctl s) as [s1 p1]; cbn in H1.
  destruct (crashed s1); [exact H1|]. destruct (flushing s1); [exact H1|].
  pose proof (run_pipeline_cfg s1) as H2.
  destruct (run_pipeline s1) as [s2 p2]; cbn in *. eauto using same_cfg_trans.
Qed.

Lemma step_inv s e : Inv s -> Inv (fst (step s e)).
Proof.
  intros H; unfold step. destruct (crashed s); [exact H|].
  destruct e as [m|m|m| | | | ].
  - destruct (can_push _ _); [|exact H]. inv_split H; constructor; cbn; auto.
    now rewrite app_assoc, Hdeliv.
  - destruct (can_push _ _); [|exact H]. inv_split H; constructor; cbn; auto.
  - destruct (can_push _ _); [|exact H]. inv_split H; constructor; cbn; auto.
  - pose proof (tick_inv s H) as H1. destruct (tick s) as [s' p]; cbn in H1.
    destruct (crashed s'); exact H1.
  - destruct (top_out s) as [|m r] eqn:E; [exact H|].
    inv_split H; constructor; cbn; auto.
    + rewrite <- app_assoc. cbn. now rewrite <- E.
    + rewrite E in Hpt. cbn in *. unfold pcap in *; cbn; lia.
  - destruct (bot_out s) as [|m r] eqn:E; [exact H|].
    inv_split H; constructor; cbn; auto.
    + rewrite <- app_assoc. cbn. now rewrite <- E.
    + rewrite E in Hpb. cbn in *. unfold pcap in *; cbn; lia.
  - destruct (ctl_out s) as [|m r] eqn:E; [exact H|].
    inv_split H; constructor; cbn; auto.
Qed.

Lemma step_cfg s e : same_cfg s (fst (step s e)).
Proof.
  unfold step. destruct (crashed s); [apply same_cfg_refl|].
  destruct e as [m|m|m| | | | ];
    try (destruct (can_push _ _); [split; reflexivity|apply same_cfg_refl]).
  - pose proof (tick_cfg s) as H1. destruct (tick s) as [s' p]; cbn in H1.
    destruct (crashed s'); exact H1.
  - destruct (top_out s); [apply same_cfg_refl|split; reflexivity].
  - destruct (bot_out s); [apply same_cfg_refl|split; reflexivity].
  - destruct (ctl_out s); [apply same_cfg_refl|split; reflexivity].
Qed.

Lemma run_inv evs : forall s, Inv s -> Inv (run s evs).
Proof.
  induction evs as [|e evs IH]; intros s H; cbn; auto.
  apply IH. apply step_inv; auto.
Qed.

Lemma run_cfg evs : forall s, same_cfg s (run s evs).
Proof.
  induction evs as [|e evs IH]; intros s; cbn; [apply same_cfg_refl|].
  eapply same_cfg_trans; [apply step_cfg|apply IH].
Qed.

Lemma run_app s e1 e2 : run s (e1 ++ e2) = run (run s e1) e2.
Proof. unfold run. apply fold_left_app. Qed.

(** * Consequences used by props/C15.v *)

Lemma answer_rspto t r : m_rspto (answer t r) = m_id (t_top t).
Proof. unfold answer; destruct (m_kind r); reflexivity. Qed.
Lemma answer_dst t r : m_dst (answer t r) = m_src (t_top t).
Proof. unfold answer; destruct (m_kind r); reflexivity. Qed.
Lemma answer_data t r : m_kind r = KDataReady -> m_data (answer t r) = m_data r.
Proof. unfold answer; intros ->; reflexivity. Qed.
Lemma answer_kind t r : is_rsp r = true -> m_kind (answer t r) = m_kind r.
Proof. unfold answer, is_rsp; destruct (m_kind r); try discriminate; reflexivity. Qed.

Lemma fwd_req_faithful id r :
  is_req r = true ->
  m_id (fwd_req id r) = id /\ m_kind (fwd_req id r) = m_kind r /\
  m_addr (fwd_req id r) = m_addr r /\ m_pid (fwd_req id r) = m_pid r /\
  (m_kind r = KRead -> m_size (fwd_req id r) = m_size r) /\
  (m_kind r = KWrite -> m_data (fwd_req id r) = m_data r /\ m_mask (fwd_req id r) = m_mask r).
Proof.
  unfold fwd_req, is_req; destruct (m_kind r); try discriminate; cbn; intuition discriminate.
Qed.

Definition req_id (p : tx * bool) : N := m_id (t_top (fst p)).

Lemma resp_of_rspto l : subseq (map m_rspto (resp_of l)) (map req_id l).
Proof.
  induction l as [|[t b] l IH]; [constructor|].
  change (resp_of ((t, b) :: l)) with (resp1 (t, b) ++ resp_of l).
  unfold resp1; cbn [fst snd]. destruct b; [destruct (t_rsp t)|]; cbn.
  - rewrite answer_rspto. apply subseq_take; auto.
  - apply subseq_skip; auto.
  - apply subseq_skip; auto.
Qed.

Lemma req_ids_of_fate s :
  Inv s -> subseq (map req_id (g_fate s)) (map m_id (g_deliv s)).
Proof.
  intros H; inv_split H.
  assert (E : map req_id (g_fate s) = map m_id (map t_top (map fst (g_fate s)))).
  { unfold req_id. now rewrite !map_map. }
  rewrite E. eapply subseq_trans.
  { apply subseq_map. apply (subseq_app_l _ (map t_top (txs s))). }
  rewrite <- map_app, Hacc, <- Hdeliv. apply subseq_map. unfold accepted.
  eapply subseq_trans; [apply subseq_map, subseq_filter|]. apply subseq_app_l.
Qed.

Lemma responses_in_request_order s :
  Inv s -> subseq (map m_rspto (g_retr s ++ top_out s)) (map m_id (g_deliv s)).
Proof.
  intros H. pose proof (req_ids_of_fate s H) as Hs. inv_split H.
  rewrite Hretr, Hout. eapply subseq_trans; [apply resp_of_rspto|exact Hs].
Qed.

Lemma NoDup_map_inj {A B} (f : A -> B) (l : list A) x y :
  NoDup (map f l) -> In x l -> In y l -> f x = f y -> x = y.
Proof.
  induction l as [|a l IH]; cbn; [tauto|]. intros Hn Hx Hy E.
  inversion Hn as [|? ? Hni Hn']; subst.
  destruct Hx as [->|Hx], Hy as [->|Hy]; auto.
  - exfalso; apply Hni. rewrite E. now apply in_map.
  - exfalso; apply Hni. rewrite <- E. now apply in_map.
Qed.

Lemma resp_of_In l m :
  In m (resp_of l) -> exists t r, In (t, true) l /\ t_rsp t = Some r /\ m = answer t r.
Proof.
  unfold resp_of. rewrite in_flat_map. intros ([t b] & Hin & Hm).
  unfold resp1 in Hm; cbn in Hm. destruct b; [|destruct Hm].
  destruct (t_rsp t) as [r|] eqn:E; [|destruct Hm]. destruct Hm as [<-|[]].
  exists t, r; auto.
Qed.

Lemma discarded_never_answered s t :
  Inv s -> NoDup (map m_id (g_deliv s)) -> In (t, false) (g_fate s) ->
  ~ In (m_id (t_top t)) (map m_rspto (g_retr s ++ top_out s)).
Proof.
  intros H Hn Hin Hc. pose proof (req_ids_of_fate s H) as Hs. inv_split H.
  rewrite Hretr, Hout in Hc. apply in_map_iff in Hc as (m & Hm & Hmin).
  apply resp_of_In in Hmin as (t' & r & Hin' & _ & ->). rewrite answer_rspto in Hm.
  assert (Hnd : NoDup (map req_id (g_fate s))) by (eapply subseq_NoDup; eauto).
  assert (E : (t', true) = (t, false)) by (eapply NoDup_map_inj; eauto).
  discriminate.
Qed.

Lemma response_payload s m :
  Inv s -> In m (g_retr s ++ top_out s) ->
  exists t r, In (t, true) (g_fate s) /\ t_rsp t = Some r /\ m_rspto r = t_bid t /\
              is_rsp r = true /\ m = answer t r /\ In (fwd_of t) (g_bretr s ++ bot_out s).
Proof.
  intros H Hin. inv_split H. rewrite Hretr, Hout in Hin.
  apply resp_of_In in Hin as (t & r & Hin & Hr & ->).
  rewrite Forall_forall in Hfate. specialize (Hfate _ Hin eq_refl) as (r' & Hr' & Hto & Hk).
  cbn in *. rewrite Hr in Hr'; inversion Hr'; subst r'.
  exists t, r; repeat split; auto.
  rewrite Hbretr, Hfwd, map_app, in_app_iff. left.
  apply in_map. change t with (fst (t, true)). now apply in_map.
Qed.

(** the fate log and the response log are append-only *)
Definition ext {A} (a b : list A) : Prop := exists l, b = a ++ l.
Lemma ext_refl {A} (a : list A) : ext a a. Proof. exists []; now rewrite app_nil_r. Qed.
Lemma ext_trans {A} (a b c : list A) : ext a b -> ext b c -> ext a c.
Proof. intros [l1 ->] [l2 ->]. exists (l1 ++ l2). now rewrite app_assoc. Qed.
Lemma ext_app {A} (a l : list A) : ext a (a ++ l). Proof. now exists l. Qed.

Definition grows (s s' : rob) : Prop :=
  ext (g_fate s) (g_fate s') /\ ext (g_out s) (g_out s').
Lemma grows_refl s : grows s s. Proof. split; apply ext_refl. Qed.
Lemma grows_trans a b c : grows a b -> grows b c -> grows a c.
Proof. intros [A1 A2] [B1 B2]; split; eauto using ext_trans. Qed.
Ltac gsolve := first [apply grows_refl | split; cbn; first [apply ext_refl | apply ext_app]].

Lemma top_down_grows s : grows s (fst (top_down s)).
Proof.
  unfold top_down. destruct (top_in s); [gsolve|].
  destruct (Nat.leb _ _); [gsolve|].
  destruct (negb (is_req m)); [gsolve|].
  destruct (negb _); gsolve.
Qed.
Lemma parse_bottom_grows s : grows s (fst (parse_bottom s)).
Proof. unfold parse_bottom. destruct (bot_in s); gsolve. Qed.
Lemma bottom_up_grows s : grows s (fst (bottom_up s)).
Proof.
  unfold bottom_up. destruct (txs s); [gsolve|].
  destruct (t_rsp t); [|gsolve].
  destruct (negb (is_rsp m)); [gsolve|].
  destruct (negb _); gsolve.
Qed.
Lemma iter_grows (f : rob -> rob * bool) :
  (forall s, grows s (fst (f s))) -> forall n s, grows s (fst (iter n f s)).
Proof.
  intros Hf; induction n as [|n IH]; intros s; cbn; [apply grows_refl|].
  specialize (Hf s). destruct (f s) as [s1 p1]; cbn in Hf.
  specialize (IH s1). destruct (iter n f s1) as [s2 p2]; cbn in *.
  eapply grows_trans; eauto.
Qed.
Lemma run_pipeline_grows s : grows s (fst (run_pipeline s)).
Proof.
  unfold run_pipeline.
  pose proof (iter_grows _ bottom_up_grows (width s) s) as H1.
  destruct (iter (width s) bottom_up s) as [s1 p1]; cbn in H1.
  pose proof (iter_grows _ parse_bottom_grows (width s) s1) as H2.
  destruct (iter (width s) parse_bottom s1) as [s2 p2]; cbn in H2.
  pose proof (iter_grows _ top_down_grows (width s) s2) as H3.
  destruct (iter (width s) top_down s2) as [s3 p3]; cbn in *.
  eauto using grows_trans.
Qed.
Lemma process_ctl_grows s : grows s (fst (process_ctl s)).
Proof.
  unfold process_ctl. destruct (ctl_in s); [gsolve|].
  destruct (has_flag _ _); [destruct (can_push _ _); gsolve|].
  destruct (has_flag _ _); [destruct (can_push _ _); gsolve|].
  gsolve.
Qed.
Lemma tick_grows s : grows s (fst (tick s)).
Proof.
  unfold tick. pose proof (process_ctl_grows s) as H1.
  destruct (process_ctl s) as [s1 p1]; cbn in H1.
  destruct (crashed s1); [exact H1|]. destruct (flushing s1); [exact H1|].
  pose proof (run_pipeline_grows s1) as H2.
  destruct (run_pipeline s1) as [s2 p2]; cbn in *. eauto using grows_trans.
Qed.
Lemma step_grows s e : grows s (fst (step s e)).
Proof.
  unfold step. destruct (crashed s); [gsolve|].
  destruct e as [m|m|m| | | | ]; try (destruct (can_push _ _); gsolve).
  - pose proof (tick_grows s) as H1. destruct (tick s) as [s' p]; cbn in H1.
    destruct (crashed s'); exact H1.
  - destruct (top_out s); gsolve.
  - destruct (bot_out s); gsolve.
  - destruct (ctl_out s); gsolve.
Qed.
Lemma run_grows evs : forall s, grows s (run s evs).
Proof.
  induction evs as [|e evs IH]; intros s; cbn; [apply grows_refl|].
  eapply grows_trans; [apply step_grows|apply IH].
Qed.

(** what a discard request does when it is taken *)
Lemma discard_effect s c rest :
  crashed s = false -> ctl_in s = c :: rest -> has_flag c F_DISCARD = true -> ctl_out s = [] ->
  let s' := fst (tick s) in
  txs s' = [] /\ flushing s' = true /\
  g_fate s' = g_fate s ++ map (fun t => (t, false)) (txs s) /\
  ctl_out s' = [ctl_ack c] /\ g_out s' = g_out s /\ top_out s' = top_out s.
Proof.
  intros Hc Hin Hf Hout. unfold tick, process_ctl. rewrite Hin, Hf, Hout. cbn.
  rewrite Hc. cbn. repeat split; reflexivity.
Qed.

(** while flushing, a tick without control traffic changes nothing *)
Lemma flushing_idle s :
  flushing s = true -> ctl_in s = [] -> fst (tick s) = s.
Proof. intros Hf Hc. unfold tick, process_ctl. rewrite Hc. destruct (crashed s); rewrite ?Hf; reflexivity. Qed.

(** progress: a head transaction whose response has arrived is answered by the
    next tick if the top port has room *)
Lemma head_retires s t rest r :
  crashed s = false -> flushing s = false -> ctl_in s = [] ->
  txs s = t :: rest -> t_rsp t = Some r -> is_rsp r = true ->
  (length (top_out s) < pcap s)%nat -> (1 <= width s)%nat ->
  ext (g_out s ++ [answer t r]) (g_out (fst (tick s))).
Proof.
  intros Hc Hf Hctl Htx Hr Hk Hroom Hw.
  unfold tick, process_ctl. rewrite Hctl. rewrite Hc, Hf.
  unfold run_pipeline. destruct (width s) as [|w] eqn:Ew; [lia|].
  remember (iter (S w) parse_bottom) as IP eqn:EIP.
  remember (iter (S w) top_down) as IT eqn:EIT.
  cbn [iter]. unfold bottom_up at 1. rewrite Htx, Hr, Hk. cbn [negb].
  assert (Hp : can_push (pcap s) (top_out s) = true) by (apply Nat.ltb_lt; exact Hroom).
  rewrite Hp. cbn [negb].
  match goal with |- context [iter w bottom_up ?x] => set (s1 := x) end.
  assert (E0 : g_out s1 = g_out s ++ [answer t r]) by reflexivity.
  pose proof (iter_grows _ bottom_up_grows w s1) as [_ G1].
  destruct (iter w bottom_up s1) as [a1 q1]; cbn [fst] in G1.
  pose proof (iter_grows _ parse_bottom_grows (S w) a1) as [_ G2]. rewrite <- EIP in G2.
  destruct (IP a1) as [a2 q2]; cbn [fst] in G2.
  pose proof (iter_grows _ top_down_grows (S w) a2) as [_ G3]. rewrite <- EIT in G3.
  destruct (IT a2) as [a3 q3]; cbn [fst] in *.
  rewrite <- E0. eauto using ext_trans.
Qed.
