(** Control-port protocol of the reorder-buffer model: every accepted control message is acknowledged exactly
    once, in order, whatever the back-pressure on the control port; an acknowledgement that cannot be sent
    leaves the message in place and is retried. *)
From Coq Require Import Arith.
From VLib Require Import Akita ListX.
From VMem Require Import Rob.
From RecordUpdate Require Import RecordSet.
Import RecordSetNotations.
Open Scope N_scope.

(** acknowledgements owed / sent / collected, as one sequence *)
Definition ctl_ledger (s : rob) : list msg :=
  g_cretr s ++ ctl_out s ++ map ctl_ack (ctl_in s).

Record CInv (s : rob) : Prop := {
  ci_owed : map ctl_ack (g_cdeliv s) = g_cack s ++ map ctl_ack (ctl_in s);
  ci_sent : g_cack s = g_cretr s ++ ctl_out s
}.

Lemma init_cinv c w : CInv (init c w).
Proof. split; reflexivity. Qed.

(** the data path never touches the control side *)
Definition same_ctl (s s' : rob) : Prop :=
  g_cdeliv s' = g_cdeliv s /\ g_cack s' = g_cack s /\ g_cretr s' = g_cretr s /\
  ctl_in s' = ctl_in s /\ ctl_out s' = ctl_out s.

Lemma same_ctl_refl s : same_ctl s s.
Proof. repeat split. Qed.
Lemma same_ctl_trans a b c : same_ctl a b -> same_ctl b c -> same_ctl a c.
Proof.
  intros (A1 & A2 & A3 & A4 & A5) (B1 & B2 & B3 & B4 & B5).
  repeat split; congruence.
Qed.
Lemma same_ctl_cinv s s' : same_ctl s s' -> CInv s -> CInv s'.
Proof.
  intros (A1 & A2 & A3 & A4 & A5) [H1 H2]. split; rewrite ?A1, ?A2, ?A3, ?A4, ?A5; assumption.
Qed.

Lemma top_down_ctl s : same_ctl s (fst (top_down s)).
Proof.
  unfold top_down.
  repeat match goal with
         | |- context [match ?x with _ => _ end] => destruct x
         | |- context [if ?x then _ else _] => destruct x
         end; cbn; repeat split.
Qed.

Lemma parse_bottom_ctl s : same_ctl s (fst (parse_bottom s)).
Proof.
  unfold parse_bottom.
  repeat match goal with
         | |- context [match ?x with _ => _ end] => destruct x
         | |- context [if ?x then _ else _] => destruct x
         end; cbn; repeat split.
Qed.

Lemma bottom_up_ctl s : same_ctl s (fst (bottom_up s)).
Proof.
  unfold bottom_up.
  repeat match goal with
         | |- context [match ?x with _ => _ end] => destruct x
         | |- context [if ?x then _ else _] => destruct x
         end; cbn; repeat split.
Qed.

Lemma iter_ctl (f : rob -> rob * bool) :
  (forall s, same_ctl s (fst (f s))) -> forall n s, same_ctl s (fst (iter n f s)).
Proof.
  intros Hf; induction n as [|n IH]; intros s; cbn; [apply same_ctl_refl|].
  specialize (Hf s). destruct (f s) as [s1 p1]; cbn in Hf.
  specialize (IH s1). destruct (iter n f s1) as [s2 p2]; cbn in *.
  eapply same_ctl_trans; eauto.
Qed.

Lemma run_pipeline_ctl s : same_ctl s (fst (run_pipeline s)).
Proof.
  unfold run_pipeline.
  pose proof (iter_ctl bottom_up bottom_up_ctl (width s) s) as H1.
  destruct (iter (width s) bottom_up s) as [s1 p1]; cbn [fst] in H1.
  pose proof (iter_ctl parse_bottom parse_bottom_ctl (width s) s1) as H2.
  destruct (iter (width s) parse_bottom s1) as [s2 p2]; cbn [fst] in H2.
  pose proof (iter_ctl top_down top_down_ctl (width s) s2) as H3.
  destruct (iter (width s) top_down s2) as [s3 p3]; cbn [fst] in *.
  eapply same_ctl_trans; [exact H1|]. eapply same_ctl_trans; eassumption.
Qed.

Lemma process_ctl_cinv s : CInv s -> CInv (fst (process_ctl s)).
Proof.
  intros H. pose proof H as [H1 H2]. unfold process_ctl.
  destruct (ctl_in s) as [|c rest] eqn:Ein; [exact H|].
  destruct (has_flag c F_DISCARD).
  { destruct (can_push 1 (ctl_out s)); [|exact H].
    split; cbn.
    - rewrite H1. cbn. now rewrite <- app_assoc.
    - rewrite H2. now rewrite <- app_assoc. }
  destruct (has_flag c F_RESTART).
  { destruct (can_push 1 (ctl_out s)); [|exact H].
    split; cbn.
    - rewrite H1. cbn. now rewrite <- app_assoc.
    - rewrite H2. now rewrite <- app_assoc. }
  destruct H as [G1 G2]. split; cbn; assumption.
Qed.

Lemma tick_cinv s : CInv s -> CInv (fst (tick s)).
Proof.
  intros H. unfold tick.
  pose proof (process_ctl_cinv s H) as H1.
  destruct (process_ctl s) as [s1 p1]; cbn [fst] in H1.
  destruct (crashed s1); [exact H1|].
  destruct (flushing s1); [exact H1|].
  pose proof (run_pipeline_ctl s1) as H2.
  destruct (run_pipeline s1) as [s2 p2]; cbn [fst] in *.
  eapply same_ctl_cinv; eassumption.
Qed.

Lemma step_cinv s e : CInv s -> CInv (fst (step s e)).
Proof.
  intros H. unfold step. destruct (crashed s); [exact H|].
  destruct e as [m|m|m| | | |].
  - destruct (can_push (pcap s) (top_in s)); [|exact H]. destruct H as [H1 H2]; split; cbn; assumption.
  - destruct (can_push (pcap s) (bot_in s)); [|exact H]. destruct H as [H1 H2]; split; cbn; assumption.
  - destruct (can_push 1 (ctl_in s)); [|exact H]. destruct H as [H1 H2]; split; cbn.
    + rewrite !map_app, H1. cbn. now rewrite <- app_assoc.
    + assumption.
  - pose proof (tick_cinv s H) as H1. destruct (tick s) as [s' p]; cbn [fst] in H1.
    destruct (crashed s'); exact H1.
  - destruct (top_out s); [exact H|]. destruct H as [H1 H2]; split; cbn; assumption.
  - destruct (bot_out s); [exact H|]. destruct H as [H1 H2]; split; cbn; assumption.
  - destruct (ctl_out s) as [|m r] eqn:Eo; [exact H|]. destruct H as [H1 H2]; split; cbn.
    + assumption.
    + rewrite H2, Eo. now rewrite <- app_assoc.
Qed.

Lemma run_cinv evs : forall s, CInv s -> CInv (run s evs).
Proof.
  induction evs as [|e evs IH]; intros s H; cbn; [exact H|].
  apply IH. apply step_cinv. exact H.
Qed.

(** Every accepted control message is acknowledged exactly once and in order: at every moment the
    acknowledgements already collected, followed by those waiting in the control port, followed by those still
    owed for messages not yet processed, are exactly the acknowledgements of the accepted messages. *)
Lemma ctl_ack_exactly_once c w evs :
  let s := run (init c w) evs in
  ctl_ledger s = map ctl_ack (g_cdeliv s).
Proof.
  cbn zeta. destruct (run_cinv evs _ (init_cinv c w)) as [H1 H2].
  unfold ctl_ledger. rewrite H1, H2. now rewrite <- app_assoc.
Qed.

(** Retry: a valid control message at the head is consumed, with its acknowledgement, by the next tick as soon as
    the control port has room; nothing else is required. *)
Lemma ctl_progress s c rest :
  crashed s = false -> ctl_in s = c :: rest ->
  (has_flag c F_DISCARD || has_flag c F_RESTART)%bool = true ->
  ctl_out s = [] ->
  let s' := fst (tick s) in
  ctl_in s' = rest /\ ctl_out s' = [ctl_ack c].
Proof.
  intros Hc Hin Hv Hout. cbn zeta. unfold tick.
  assert (Hp : ctl_in (fst (process_ctl s)) = rest /\ ctl_out (fst (process_ctl s)) = [ctl_ack c]).
  { unfold process_ctl. rewrite Hin, Hout. cbn [can_push length Nat.ltb Nat.leb].
    destruct (has_flag c F_DISCARD); [cbn; split; reflexivity|].
    cbn in Hv. rewrite Hv. cbn; split; reflexivity. }
  destruct (process_ctl s) as [s1 p1]; cbn [fst] in Hp.
  destruct (crashed s1); [exact Hp|].
  destruct (flushing s1); [exact Hp|].
  pose proof (run_pipeline_ctl s1) as (_ & _ & _ & A4 & A5).
  destruct (run_pipeline s1) as [s2 p2]; cbn [fst] in *.
  rewrite A4, A5. exact Hp.
Qed.

(** * Sleep safety: "no progress" means "nothing changed"

    The event engine stops ticking a component whose [Tick] reports no progress until a message arrives or a
    port frees up. That is only safe when a tick that reports no progress leaves the component exactly as it
    was; a stage that consumes or drops something without reporting it would leave work behind a sleeping
    component. *)
Definition quiet_stage (f : rob -> rob * bool) : Prop :=
  forall s, snd (f s) = false -> crashed (fst (f s)) = false -> fst (f s) = s.
Definition mono_stage (f : rob -> rob * bool) : Prop :=
  forall s, crashed s = true -> crashed (fst (f s)) = true.

Lemma top_down_quiet : quiet_stage top_down.
Proof.
  intros s. unfold top_down.
  repeat match goal with
         | |- context [match ?x with _ => _ end] => destruct x
         end; cbn; intros; try reflexivity; discriminate.
Qed.
Lemma top_down_mono : mono_stage top_down.
Proof.
  intros s H. unfold top_down.
  repeat match goal with
         | |- context [match ?x with _ => _ end] => destruct x
         end; cbn; auto.
Qed.
Lemma parse_bottom_quiet : quiet_stage parse_bottom.
Proof.
  intros s. unfold parse_bottom. destruct (bot_in s); cbn; intros; try reflexivity; discriminate.
Qed.
Lemma parse_bottom_mono : mono_stage parse_bottom.
Proof. intros s H. unfold parse_bottom. destruct (bot_in s); cbn; auto. Qed.
Lemma bottom_up_quiet : quiet_stage bottom_up.
Proof.
  intros s. unfold bottom_up.
  repeat match goal with
         | |- context [match ?x with _ => _ end] => destruct x
         end; cbn; intros; try reflexivity; discriminate.
Qed.
Lemma bottom_up_mono : mono_stage bottom_up.
Proof.
  intros s H. unfold bottom_up.
  repeat match goal with
         | |- context [match ?x with _ => _ end] => destruct x
         end; cbn; auto.
Qed.

Lemma iter_mono f : mono_stage f -> forall n, mono_stage (iter n f).
Proof.
  intros Hm n; induction n as [|n IH]; intros s H; cbn; [exact H|].
  specialize (Hm s H). destruct (f s) as [s1 p1]; cbn in Hm.
  specialize (IH s1 Hm). destruct (iter n f s1) as [s2 p2]; cbn in *. exact IH.
Qed.

Lemma iter_quiet f : quiet_stage f -> mono_stage f -> forall n, quiet_stage (iter n f).
Proof.
  intros Hq Hm n; induction n as [|n IH]; intros s; cbn; [reflexivity|].
  specialize (Hq s). pose proof (iter_mono f Hm n) as Hmi.
  destruct (f s) as [s1 p1]; cbn in Hq.
  specialize (IH s1). specialize (Hmi s1). destruct (iter n f s1) as [s2 p2]; cbn in *.
  intros Hp Hc. apply Bool.orb_false_iff in Hp as [Hp1 Hp2].
  destruct (crashed s1) eqn:Ec1.
  - rewrite (Hmi eq_refl) in Hc. discriminate.
  - rewrite <- (Hq Hp1 eq_refl). apply IH; assumption.
Qed.

Lemma run_pipeline_quiet : quiet_stage run_pipeline.
Proof.
  intros s. unfold run_pipeline.
  pose proof (iter_quiet _ bottom_up_quiet bottom_up_mono (width s) s) as Q1.
  destruct (iter (width s) bottom_up s) as [s1 p1]; cbn [fst snd] in Q1.
  pose proof (iter_quiet _ parse_bottom_quiet parse_bottom_mono (width s) s1) as Q2.
  pose proof (iter_mono _ parse_bottom_mono (width s) s1) as M2.
  destruct (iter (width s) parse_bottom s1) as [s2 p2]; cbn [fst snd] in Q2, M2.
  pose proof (iter_quiet _ top_down_quiet top_down_mono (width s) s2) as Q3.
  pose proof (iter_mono _ top_down_mono (width s) s2) as M3.
  destruct (iter (width s) top_down s2) as [s3 p3]; cbn [fst snd] in *.
  intros Hp Hc.
  apply Bool.orb_false_iff in Hp as [Hp12 Hp3]. apply Bool.orb_false_iff in Hp12 as [Hp1 Hp2].
  assert (E2 : crashed s2 = false).
  { destruct (crashed s2) eqn:E; [|reflexivity]. rewrite (M3 eq_refl) in Hc. discriminate. }
  assert (E1 : crashed s1 = false).
  { destruct (crashed s1) eqn:E; [|reflexivity]. rewrite (M2 eq_refl) in E2. discriminate. }
  rewrite (Q3 Hp3 Hc), (Q2 Hp2 E2). exact (Q1 Hp1 E1).
Qed.

Lemma process_ctl_quiet : quiet_stage process_ctl.
Proof.
  intros s. unfold process_ctl.
  repeat match goal with
         | |- context [match ?x with _ => _ end] => destruct x
         end; cbn; intros; try reflexivity; discriminate.
Qed.

Lemma tick_quiet : quiet_stage tick.
Proof.
  intros s. unfold tick.
  pose proof (process_ctl_quiet s) as Q1.
  destruct (process_ctl s) as [s1 p1]; cbn [fst snd] in Q1.
  destruct (crashed s1) eqn:Ec; cbn [fst snd].
  - intros _ H. rewrite Ec in H. discriminate.
  - destruct (flushing s1); cbn [fst snd].
    + intros Hp _. exact (Q1 Hp eq_refl).
    + pose proof (run_pipeline_quiet s1) as Q2.
      destruct (run_pipeline s1) as [s2 p2]; cbn [fst snd] in *.
      intros Hp Hc. apply Bool.orb_false_iff in Hp as [Hp1 Hp2].
      rewrite (Q2 Hp2 Hc). exact (Q1 Hp1 eq_refl).
Qed.

(** Consequence at the level of observations: after a tick that reported no progress, further ticks (with no
    delivery or retrieval in between) report no progress either. *)
Lemma no_progress_stays s :
  crashed s = false -> snd (tick s) = false -> crashed (fst (tick s)) = false ->
  step (fst (tick s)) ETick = (s, OTick false).
Proof.
  intros Hc Hp Hc'. pose proof (tick_quiet s Hp Hc') as E. rewrite E.
  unfold step. rewrite Hc. destruct (tick s) as [s' p]; cbn [fst snd] in *. subst.
  rewrite Hc. reflexivity.
Qed.
