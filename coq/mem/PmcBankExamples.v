(** Closed example for the banked memories: the demo schedule of PmcExamples.v
    over memories of 2 and 3 banks interleaved at 64 bytes, so that the
    128-byte page of the first request is spread over both banks of A. *)
From VMem Require Import Pmc PmcBank PmcLemmas PmcProofs PmcBankProofs PmcLive PmcExamples.
Open Scope N_scope.

Definition demo_fa : N -> N := interleaved 64 2.
Definition demo_fb : N -> N := interleaved 64 3.
(** cells a bank does not own hold 99 *)
Definition demo_banks (f : N -> N) (st : store) : banks := fun b a => if b =? f a then st a else 99.

Lemma demo_banks_view f st x : bview f (demo_banks f st) x = st x.
Proof. unfold bview, demo_banks. rewrite N.eqb_refl. reflexivity. Qed.

Definition alignedb (e : ev) : bool :=
  match e with
  | ECtrlReq PA m => (mg_wr m mod 64 =? 0) && (mg_rd m mod 64 =? 0)
  | _ => true
  end.

Lemma demo_banked_ok :
  let b := brun demo_fa demo_fb
             (mkB (std_sys (gen_store 3 1) (gen_store 5 2))
                  (demo_banks demo_fa (gen_store 3 1)) (demo_banks demo_fb (gen_store 5 2)))
             demo_schedule in
  Forall (ok_ev_local CA RB demo_fa demo_fb) demo_schedule /\
  cur_mig (pa (flat b)) = None /\ length (completed (flat b)) = 2%nat /\
  read (bview demo_fa (bka b)) 2048 128 = read (gen_store 5 2) 1024 128 /\
  (* first half of the page in bank 0, second half in bank 1, nothing in the other bank *)
  read (bka b 0) 2048 64 = read (gen_store 5 2) 1024 64 /\ bka b 1 2048 = 99 /\
  read (bka b 1) 2112 64 = read (gen_store 5 2) 1088 64 /\ bka b 0 2112 = 99.
Proof.
  split.
  - apply Forall_forall. intros e He. split.
    + pose proof demo_ok as [H _]. rewrite Forall_forall in H. auto.
    + assert (H : forallb alignedb demo_schedule = true) by (vm_compute; reflexivity).
      rewrite forallb_forall in H. specialize (H e He).
      destruct e as [w|w|k|w|w k|w k|w m|w|m]; trivial. destruct w; trivial.
      cbn in H. apply andb_true_iff in H. destruct H as [H1 H2].
      apply N.eqb_eq in H1, H2.
      apply (interleaved_req_local 1 2 1 3); auto; discriminate.
  - vm_compute. repeat split; reflexivity.
Qed.
