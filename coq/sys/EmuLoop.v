(** C01, part 2 — the emulator's work-group execution loop
    (amd/emu/computeunit.go: runWG, runWfUntilBarrier, isAllWfCompleted,
    resolveBarrier), over an abstract per-wavefront instruction step.

    [wf_step w s] stands for one trip through the body of the [for] loop in
    runWfUntilBarrier for a wavefront with private state [w] (registers, PC,
    EXEC ...) and the state [s] it shares with the rest of the machine (LDS of
    the work-group, global memory, the CU's decoded-instruction cache): fetch,
    decode, advance the PC, and then either
    - [Running]   : an ordinary instruction, executed by the ALU;
    - [AtBarrier] : s_barrier  (SOPP 10): not executed, the loop is left;
    - [Done]      : s_endpgm   (SOPP 1) : not executed, the loop is left.
    Definitions only (executable); proofs are in EmuLoopProofs.v. *)
From Coq Require Import List NArith Bool.
Import ListNotations.

Inductive outcome := Running | AtBarrier | Done.

(** result of a run with explicit fuel *)
Inductive result (A : Type) :=
| Finished (a : A)      (* the loop of runWG was left normally *)
| Panicked (a : A)      (* log.Panic("not all wavefronts at barrier"); state after the round, before resolveBarrier touched a flag *)
| OutOfFuel.
Arguments Finished {A}. Arguments Panicked {A}. Arguments OutOfFuel {A}.

Section Loop.
  Context {W S : Type}.
  Context (wf_step : W -> S -> W * S * outcome).

  (** emu.Wavefront: the two flags the loop reads and writes, plus the rest *)
  Record wf := mkWf { w_st : W; w_completed : bool; w_at_barrier : bool }.

  (** initWfs: NewWavefront leaves both flags false *)
  Definition init_wf (w : W) : wf := mkWf w false false.

  (** the [for] loop of runWfUntilBarrier; [None] = fuel exhausted *)
  Fixpoint run_insts (fuel : nat) (w : W) (s : S) : option (W * S * outcome) :=
    match fuel with
    | O => None
    | Datatypes.S fuel' =>
        match wf_step w s with
        | (w', s', Running) => run_insts fuel' w' s'
        | r => Some r
        end
    end.

  (** runWfUntilBarrier *)
  Definition run_wf (fuel : nat) (x : wf) (s : S) : option (wf * S) :=
    if w_completed x then Some (x, s)
    else match run_insts fuel (w_st x) s with
         | None => None
         | Some (w', s', AtBarrier) => Some (mkWf w' (w_completed x) true, s')
         | Some (w', s', Done) => Some (mkWf w' true (w_at_barrier x), s')
         | Some (w', s', Running) => None (* not reachable: run_insts never stops on Running *)
         end.

  (** the inner [for _, wf := range cu.wfs[wg]] of runWG *)
  Fixpoint run_round (fuel : nat) (xs : list wf) (s : S) : option (list wf * S) :=
    match xs with
    | [] => Some ([], s)
    | x :: r =>
        match run_wf fuel x s with
        | None => None
        | Some (x', s') =>
            match run_round fuel r s' with
            | None => None
            | Some (r', s'') => Some (x' :: r', s'')
            end
        end
    end.

  Definition all_completed (xs : list wf) : bool := forallb w_completed xs.

  (** resolveBarrier: [None] = panic.  A wavefront that already ended counts
      as arrived (it is skipped, its flags are left alone); every other
      wavefront must be at the barrier and is released. *)
  Definition resolve_barrier (xs : list wf) : option (list wf) :=
    if all_completed xs then Some xs
    else if forallb (fun x => w_completed x || w_at_barrier x) xs
         then Some (map (fun x => if w_completed x then x
                                  else mkWf (w_st x) (w_completed x) false) xs)
         else None.

  (** the [for !cu.isAllWfCompleted(wg)] loop of runWG; [rounds] bounds the
      number of iterations, [fuel] the instructions of one wavefront between
      two barriers *)
  Fixpoint emu_loop (rounds fuel : nat) (xs : list wf) (s : S) : result (list wf * S) :=
    if all_completed xs then Finished (xs, s)
    else match rounds with
         | O => OutOfFuel
         | Datatypes.S rounds' =>
             match run_round fuel xs s with
             | None => OutOfFuel
             | Some (xs', s') =>
                 match resolve_barrier xs' with
                 | None => Panicked (xs', s')
                 | Some xs'' => emu_loop rounds' fuel xs'' s'
                 end
             end
         end.

  (** runWG from initWfs on *)
  Definition run_wg (rounds fuel : nat) (ws : list W) (s : S) : result (list wf * S) :=
    emu_loop rounds fuel (map init_wf ws) s.

  (** ---- reference semantics of a work-group, without flags or fuel ----
      [seg k w s w' s' o]: wavefront [w] runs alone from shared state [s] for
      [k] instructions, the last of which is its next barrier ([o = AtBarrier])
      or its end ([o = Done]). *)
  Inductive seg : nat -> W -> S -> W -> S -> outcome -> Prop :=
  | seg_stop w s w' s' o :
      wf_step w s = (w', s', o) -> o <> Running -> seg 1 w s w' s' o
  | seg_run k w s w1 s1 w' s' o :
      wf_step w s = (w1, s1, Running) -> seg k w1 s1 w' s' o -> seg (Datatypes.S k) w s w' s' o.

  Definition is_done (o : outcome) : bool := match o with Done => true | _ => false end.

  (** a wavefront of the reference semantics: private state and "has ended" *)
  Definition rwf : Type := W * bool.
  Definition all_ended (rs : list rwf) : bool := forallb snd rs.

  (** one phase: every wavefront that has not ended, in index order, runs to
      its next barrier or to its end, each starting from the shared state its
      predecessor left; ended wavefronts do nothing.  [m] bounds the
      instructions per wavefront. *)
  Inductive phase (m : nat) : list rwf -> S -> list rwf -> S -> Prop :=
  | phase_nil s : phase m [] s [] s
  | phase_ended w rs s rs' s' :
      phase m rs s rs' s' -> phase m ((w, true) :: rs) s ((w, true) :: rs') s'
  | phase_live k w rs s w' s1 o rs' s' :
      seg k w s w' s1 o -> k <= m -> phase m rs s1 rs' s' ->
      phase m ((w, false) :: rs) s ((w', is_done o) :: rs') s'.

  (** [wg_sem m n rs s rs' s']: [n] phases, separated by barriers at which the
      wavefronts still running wait for each other (ended ones count as
      arrived), after which every wavefront has ended. *)
  Inductive wg_sem (m : nat) : nat -> list rwf -> S -> list rwf -> S -> Prop :=
  | wg_done rs s : all_ended rs = true -> wg_sem m 0 rs s rs s
  | wg_phase n rs s rs1 s1 rs' s' :
      all_ended rs = false -> phase m rs s rs1 s1 -> wg_sem m n rs1 s1 rs' s' ->
      wg_sem m (Datatypes.S n) rs s rs' s'.

  Definition fresh (ws : list W) : list rwf := map (fun w => (w, false)) ws.
End Loop.

Arguments wf : clear implicits.
Arguments mkWf {W}.
