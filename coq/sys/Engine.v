(** C05 — executable model of akita's serial event engine
    (github.com/sarchlab/akita/v4@v4.9.0 sim/serialengine.go, sim/eventqueue.go)
    including Go's container/heap (go1.25 src/container/heap/heap.go), which
    decides the order of equal-time events.  Definitions only.

    Time: the code uses float64 seconds and only compares ([<], [<=]); the model
    uses [N] keys.  The correspondence harness uses integral times, which
    float64 represents exactly.

    eventHeap.Less(i,j) = h[i].Time() < h[j].Time()  -- strict, time only: no
    tie-breaker.  The order of equal-time events is whatever the array-heap
    algorithm makes of the sequence of pushes and pops. *)
From Coq Require Import List NArith Bool Arith.
Import ListNotations.

Set Implicit Arguments.

Record event (A : Type) := mk_event { ev_time : N; ev_sec : bool; ev_data : A }.
Arguments mk_event {A}.

Section WithPayload.
Context (A : Type).
Notation E := (event A).

(** * container/heap on a slice *)

Fixpoint upd (i : nat) (x : E) (l : list E) : list E :=
  match l, i with
  | [], _ => []
  | _ :: r, O => x :: r
  | a :: r, S i' => a :: upd i' x r
  end.

(** h[i], h[j] = h[j], h[i]  (indices are always in range in the callers) *)
Definition swap (i j : nat) (l : list E) : list E :=
  match nth_error l i, nth_error l j with
  | Some a, Some b => upd j a (upd i b l)
  | _, _ => l
  end.

(** eventHeap.Less *)
Definition less (l : list E) (i j : nat) : bool :=
  match nth_error l i, nth_error l j with
  | Some a, Some b => N.ltb (ev_time a) (ev_time b)
  | _, _ => false
  end.

(** heap.up: [for { i := (j-1)/2; if i == j || !Less(j,i) {break}; Swap(i,j); j = i }].
    Go's (0-1)/2 truncates to 0, as does the [nat] expression. *)
Fixpoint up (fuel : nat) (l : list E) (j : nat) : list E :=
  match fuel with
  | O => l
  | S f =>
      let i := Nat.div (j - 1) 2 in
      if Nat.eqb i j || negb (less l j i) then l
      else up f (swap i j l) i
  end.

(** heap.down(h, i, n) *)
Fixpoint down (fuel : nat) (l : list E) (i n : nat) : list E :=
  match fuel with
  | O => l
  | S f =>
      let j1 := 2 * i + 1 in
      if Nat.leb n j1 then l
      else
        let j := if Nat.ltb (j1 + 1) n && less l (j1 + 1) j1 then j1 + 1 else j1 in
        if negb (less l j i) then l
        else down f (swap i j l) j n
  end.

(** heap.Push: append, then up(len-1).  The loop halves j each round, so
    [length] rounds of fuel are never exhausted. *)
Definition hpush (e : E) (l : list E) : list E :=
  up (S (length l)) (l ++ [e]) (length l).

(** heap.Pop: n := len-1; Swap(0,n); down(0,n); remove last.  [None] on the
    empty heap (Go would panic with an index error; the engine never does it). *)
Definition hpop (l : list E) : option (E * list E) :=
  match l with
  | [] => None
  | d :: _ =>
      let n := length l - 1 in
      let l2 := down (length l) (swap 0 n l) 0 n in
      Some (last l2 d, removelast l2)
  end.

(** Peek: events[0] *)
Definition hpeek (l : list E) : option E := nth_error l 0.

(** * SerialEngine *)

Record eng := mk_eng {
  now     : N;
  q       : list E;       (* queue *)
  sq      : list E;       (* secondaryQueue *)
  handled : list E;       (* events passed to their handler, oldest first *)
  crashed : bool }.       (* log.Panic reached *)

Definition init : eng := mk_eng 0 [] [] [] false.

(** Schedule *)
Definition sched (e : E) (s : eng) : eng :=
  if crashed s then s
  else if N.ltb (ev_time e) (now s) then mk_eng (now s) (q s) (sq s) (handled s) true
  else if ev_sec e then mk_eng (now s) (q s) (hpush e (sq s)) (handled s) false
  else mk_eng (now s) (hpush e (q s)) (sq s) (handled s) false.

Definition no_more (s : eng) : bool :=
  match q s, sq s with [], [] => true | _, _ => false end.

(** nextEvent: which queue is popped *)
Definition next_event (s : eng) : option (E * list E * list E) :=
  match q s, sq s with
  | [], _ => match hpop (sq s) with Some (e, r) => Some (e, q s, r) | None => None end
  | _, [] => match hpop (q s) with Some (e, r) => Some (e, r, sq s) | None => None end
  | p :: _, x :: _ =>
      if N.leb (ev_time p) (ev_time x)
      then match hpop (q s) with Some (e, r) => Some (p, r, sq s) | None => None end
      else match hpop (sq s) with Some (e, r) => Some (x, q s, r) | None => None end
  end.

(** One iteration of the loop of Run (without the handler's own Schedule calls,
    which are further [sched] steps): no event -> Run returns, nothing changes. *)
Definition step (s : eng) : eng :=
  if crashed s then s
  else match next_event s with
       | None => s
       | Some (e, q', sq') =>
           if N.ltb (ev_time e) (now s) then mk_eng (now s) q' sq' (handled s) true
           else mk_eng (ev_time e) q' sq' (handled s ++ [e]) false
       end.

(** Open system: the environment (handlers, the driver thread while the engine
    is paused) is any sequence of Schedule calls interleaved with loop iterations. *)
Inductive op := Sched (e : E) | Step.

Definition apply (s : eng) (o : op) : eng :=
  match o with Sched e => sched e s | Step => step s end.

Definition exec (ops : list op) : eng := fold_left apply ops init.

Fixpoint pushes (ops : list op) : list E :=
  match ops with
  | [] => []
  | Sched e :: r => e :: pushes r
  | Step :: r => pushes r
  end.

End WithPayload.

Arguments Step {A}.
Arguments init {A}.

(** * Keys: what the order may depend on *)

Inductive opkey := KSched (t : N) (sec : bool) | KStep.

Definition op_key {A} (o : op A) : opkey :=
  match o with Sched e => KSched (ev_time e) (ev_sec e) | Step => KStep end.

(** Replace every payload by the index of its Schedule call. *)
Fixpoint label_from (n : nat) (ks : list opkey) : list (op nat) :=
  match ks with
  | [] => []
  | KSched t b :: r => Sched (mk_event t b n) :: label_from (S n) r
  | KStep :: r => Step :: label_from n r
  end.

(** The handling order determined by the keys alone: indices of Schedule calls. *)
Definition order (ks : list opkey) : list nat :=
  map (@ev_data nat) (handled (exec (label_from 0 ks))).

(** * Closed system used by the correspondence harness: handlers that schedule
    further events.  An event carries an identifier; [kids id] lists what the
    handler of [id] schedules: (delta, backwards, secondary, child id) with time
    [now + delta] or, when [backwards], [now - delta] (which makes Schedule
    panic when it lies in the past). *)

Record kid := mk_kid { k_delta : N; k_back : bool; k_sec : bool; k_id : N }.

Definition kid_event (t : N) (k : kid) : event N :=
  mk_event (if k_back k then N.sub t (k_delta k) else N.add t (k_delta k)) (k_sec k) (k_id k).

Fixpoint find_kids (tbl : list (N * list kid)) (id : N) : list kid :=
  match tbl with
  | [] => []
  | (i, ks) :: r => if N.eqb i id then ks else find_kids r id
  end.

(** Run(): loop until both queues are empty (or a panic). *)
Fixpoint run_all (fuel : nat) (tbl : list (N * list kid)) (s : eng N) : eng N :=
  match fuel with
  | O => s
  | S f =>
      if crashed s || no_more s then s
      else
        let s1 := step s in
        if crashed s1 then s1 else
        let ks := match rev (handled s1) with e :: _ => find_kids tbl (ev_data e) | [] => [] end in
        run_all f tbl (fold_left (fun st k => sched (kid_event (now s1) k) st) ks s1)
  end.

Inductive top := TSched (t : N) (sec : bool) (id : N) | TRun.

Definition apply_top (fuel : nat) (tbl : list (N * list kid)) (s : eng N) (o : top) : eng N :=
  match o with
  | TSched t b id => sched (mk_event t b id) s
  | TRun => run_all fuel tbl s
  end.

Definition run_script (fuel : nat) (tbl : list (N * list kid)) (tops : list top) : eng N :=
  fold_left (apply_top fuel tbl) tops init.

(** Comparison with what the real engine did: handled (id, time) sequence,
    panic flag, final CurrentTime().  Result: 0 = equal, k+1 = first differing
    handled position k, 1000000 = flags differ, 1000001 = final time differs. *)
Fixpoint first_diff (n : N) (a b : list (N * N)) : N :=
  match a, b with
  | [], [] => 0
  | x :: a', y :: b' => if N.eqb (fst x) (fst y) && N.eqb (snd x) (snd y) then first_diff (N.succ n) a' b' else N.succ n
  | _, _ => N.succ n
  end.

Record ecase := mk_ecase {
  c_tbl : list (N * list kid); c_tops : list top; c_fuel : nat;
  c_handled : list (N * N); c_crashed : bool; c_now : N }.

Definition check_case (c : ecase) : N :=
  let s := run_script (c_fuel c) (c_tbl c) (c_tops c) in
  let d := first_diff 0 (map (fun e => (ev_data e, ev_time e)) (handled s)) (c_handled c) in
  if negb (N.eqb d 0) then d
  else if negb (Bool.eqb (crashed s) (c_crashed c)) then 1000000%N
  else if negb (N.eqb (now s) (c_now c)) then 1000001%N
  else 0%N.

Fixpoint mismatches_from (i : N) (cs : list ecase) : list (N * N) :=
  match cs with
  | [] => []
  | c :: r => let d := check_case c in
              if N.eqb d 0 then mismatches_from (N.succ i) r else (i, d) :: mismatches_from (N.succ i) r
  end.

Definition mismatches (cs : list ecase) : list (N * N) := mismatches_from 0 cs.
