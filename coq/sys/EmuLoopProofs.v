(** Proofs about the emulator work-group loop (VSys.EmuLoop): the flag-driven,
    fuel-bounded loop of runWG computes exactly the barrier-phase semantics
    [wg_sem]; it never panics; fuel is explicit. *)
From Coq Require Import List Arith Bool Lia.
From VSys Require Import EmuLoop.
Import ListNotations.

Section Proofs.
  Context {W S : Type}.
  Context (wf_step : W -> S -> W * S * outcome).

  Notation seg := (seg wf_step).
  Notation phase := (phase wf_step).
  Notation wg_sem := (wg_sem wf_step).
  Notation run_insts := (run_insts wf_step).
  Notation run_wf := (run_wf wf_step).
  Notation run_round := (run_round wf_step).
  Notation emu_loop := (emu_loop wf_step).
  Notation run_wg := (run_wg wf_step).

  (** a reference wavefront as the emulator holds it at the head of the loop *)
  Definition emb (r : rwf) : wf W := mkWf (fst r) (snd r) false.

  (** an emulator wavefront after a round, against the reference wavefront
      after the phase: ended = Completed; still running = waiting at the barrier *)
  Definition after_round (x : wf W) (r : rwf) : Prop :=
    w_st x = fst r /\ w_completed x = snd r /\ w_at_barrier x = negb (snd r).

  (** ---- one wavefront between two barriers *)
  Lemma seg_not_running k w s w' s' o : seg k w s w' s' o -> o <> Running.
  Proof. induction 1; auto. Qed.

  Lemma seg_pos k w s w' s' o : seg k w s w' s' o -> 1 <= k.
  Proof. induction 1; lia. Qed.

  Lemma run_insts_some f w s w' s' o :
    run_insts f w s = Some (w', s', o) ->
    o <> Running /\ exists k, k <= f /\ seg k w s w' s' o.
  Proof.
    revert w s; induction f; simpl; intros w s H; [discriminate|].
    destruct (wf_step w s) as [[w1 s1] o1] eqn:E. destruct o1.
    - apply IHf in H. destruct H as (Hn & k & Hk & Hs). split; auto.
      exists (Datatypes.S k). split; [lia|]. eapply seg_run; eauto.
    - inversion H; subst. split; [discriminate|]. exists 1. split; [lia|].
      apply seg_stop; auto. discriminate.
    - inversion H; subst. split; [discriminate|]. exists 1. split; [lia|].
      apply seg_stop; auto. discriminate.
  Qed.

  Lemma seg_run_insts k w s w' s' o :
    seg k w s w' s' o -> forall f, k <= f -> run_insts f w s = Some (w', s', o).
  Proof.
    induction 1; intros f Hf; (destruct f; [lia|]); simpl; rewrite H.
    - destruct o; [congruence|reflexivity|reflexivity].
    - apply IHseg; lia.
  Qed.

  Lemma seg_det k1 k2 w s w1 s1 o1 w2 s2 o2 :
    seg k1 w s w1 s1 o1 -> seg k2 w s w2 s2 o2 -> w1 = w2 /\ s1 = s2 /\ o1 = o2.
  Proof.
    intros H1 H2.
    pose proof (seg_run_insts _ _ _ _ _ _ H1 (Nat.max k1 k2) (Nat.le_max_l _ _)) as E1.
    pose proof (seg_run_insts _ _ _ _ _ _ H2 (Nat.max k1 k2) (Nat.le_max_r _ _)) as E2.
    rewrite E1 in E2. inversion E2; subst. repeat split; auto.
  Qed.

  (** ---- one round of the emulator = one phase *)
  Lemma phase_mono m m' rs s rs' s' :
    phase m rs s rs' s' -> m <= m' -> phase m' rs s rs' s'.
  Proof. induction 1; intros; econstructor; eauto; lia. Qed.

  Lemma phase_length m rs s rs' s' : phase m rs s rs' s' -> length rs' = length rs.
  Proof. induction 1; simpl; lia. Qed.

  Lemma run_round_fwd m rs s rs' s' :
    phase m rs s rs' s' -> forall f, m <= f ->
    exists xs1, run_round f (map emb rs) s = Some (xs1, s') /\ Forall2 after_round xs1 rs'.
  Proof.
    induction 1; intros f Hf.
    - exists []. split; [reflexivity|constructor].
    - destruct (IHphase f Hf) as (xs1 & E & HR).
      exists (mkWf w true false :: xs1). simpl. unfold run_wf; simpl. rewrite E.
      split; [reflexivity|]. constructor; auto. repeat split.
    - destruct (IHphase f Hf) as (xs1 & E & HR).
      pose proof (seg_not_running _ _ _ _ _ _ H) as Hn.
      simpl. unfold run_wf; simpl. rewrite (seg_run_insts _ _ _ _ _ _ H f) by lia.
      destruct o; [congruence| |]; rewrite E; eexists; (split; [reflexivity|]);
        constructor; auto; repeat split.
  Qed.

  Lemma run_round_bwd f rs : forall s xs1 s',
    run_round f (map emb rs) s = Some (xs1, s') ->
    exists rs', phase f rs s rs' s' /\ Forall2 after_round xs1 rs'.
  Proof.
    induction rs as [|[w e] r IH]; intros s xs1 s' H; simpl in H.
    - inversion H; subst. exists []. split; constructor.
    - unfold run_wf in H; simpl in H. destruct e.
      + destruct (run_round f (map emb r) s) as [[r' s2]|] eqn:E2; [|discriminate].
        inversion H; subst. apply IH in E2. destruct E2 as (rs' & Hp & HR).
        exists ((w, true) :: rs'). split; [constructor; auto|]. constructor; auto. repeat split.
      + destruct (run_insts f w s) as [[[w1 s1] o]|] eqn:E; [|discriminate].
        apply run_insts_some in E. destruct E as (Hn & k & Hk & Hs).
        destruct o; [congruence| |].
        * destruct (run_round f (map emb r) s1) as [[r' s2]|] eqn:E2; [|discriminate].
          inversion H; subst. apply IH in E2. destruct E2 as (rs' & Hp & HR).
          exists ((w1, is_done AtBarrier) :: rs'). split; [econstructor; eauto|].
          constructor; auto. repeat split.
        * destruct (run_round f (map emb r) s1) as [[r' s2]|] eqn:E2; [|discriminate].
          inversion H; subst. apply IH in E2. destruct E2 as (rs' & Hp & HR).
          exists ((w1, is_done Done) :: rs'). split; [econstructor; eauto|].
          constructor; auto. repeat split.
  Qed.

  Lemma phase_det m1 m2 rs s a1 b1 a2 b2 :
    phase m1 rs s a1 b1 -> phase m2 rs s a2 b2 -> a1 = a2 /\ b1 = b2.
  Proof.
    intros H1; revert m2 a2 b2; induction H1; intros m2 a2 b2 H2; inversion H2; subst; auto.
    - match goal with Hp : EmuLoop.phase _ _ rs _ _ _ |- _ =>
        destruct (IHphase _ _ _ Hp) as (-> & ->) end. auto.
    - match goal with Hs : EmuLoop.seg _ _ w s _ _ _ |- _ =>
        destruct (seg_det _ _ _ _ _ _ _ _ _ _ H Hs) as (-> & -> & ->) end.
      match goal with Hp : EmuLoop.phase _ _ rs _ _ _ |- _ =>
        destruct (IHphase _ _ _ Hp) as (-> & ->) end. auto.
  Qed.

  (** ---- resolveBarrier on the result of a round: never a panic *)
  Lemma all_completed_emb rs : all_completed (map emb rs) = all_ended rs.
  Proof. induction rs as [|[w e] r IH]; simpl; auto. unfold all_completed, all_ended in *. simpl. rewrite IH. reflexivity. Qed.

  Lemma after_round_completed xs1 rs' :
    Forall2 after_round xs1 rs' -> all_completed xs1 = all_ended rs'.
  Proof.
    induction 1 as [|x [w e] xs r (A & B & C) HR IH]; simpl; auto.
    unfold all_completed, all_ended in *. simpl in *. rewrite B, IH. reflexivity.
  Qed.

  Lemma resolve_after_round xs1 rs' :
    Forall2 after_round xs1 rs' -> resolve_barrier xs1 = Some (map emb rs').
  Proof.
    intros HR. unfold resolve_barrier.
    assert (Hall : forallb (fun x => w_completed x || w_at_barrier x) xs1 = true).
    { induction HR as [|x [w e] xs r (A & B & C) HR IH]; simpl; auto.
      simpl in *. rewrite B, C, IH. destruct e; reflexivity. }
    assert (Hmap : map (fun x => if w_completed x then x else mkWf (w_st x) (w_completed x) false) xs1
                   = map emb rs').
    { clear Hall. induction HR as [|x [w e] xs r (A & B & C) HR IH]; simpl; auto.
      rewrite IH. f_equal. destruct x as [xw xc xb]; simpl in *. subst. destruct e; reflexivity. }
    destruct (all_completed xs1) eqn:C.
    - f_equal. rewrite (after_round_completed _ _ HR) in C.
      clear Hall Hmap. induction HR as [|x [w e] xs r (A & B & D) HR IH]; simpl; auto.
      unfold all_ended in C. simpl in C. apply andb_true_iff in C. destruct C as [C1 C2]. subst e.
      rewrite IH by exact C2. f_equal. destruct x; simpl in *; subst; reflexivity.
    - rewrite Hall, Hmap. reflexivity.
  Qed.

  Lemma emu_loop_completed R F xs s :
    all_completed xs = true -> emu_loop R F xs s = Finished (xs, s).
  Proof. intros H. destruct R; simpl; rewrite H; reflexivity. Qed.

  (** ---- the loop computes the phase semantics (fuel explicit) *)
  Lemma loop_complete m n rs s rs' s' :
    wg_sem m n rs s rs' s' -> forall R F, n <= R -> m <= F ->
    emu_loop R F (map emb rs) s = Finished (map emb rs', s').
  Proof.
    induction 1; intros R F HR HF.
    - apply emu_loop_completed. rewrite all_completed_emb. assumption.
    - destruct R as [|R]; [lia|]. simpl. rewrite all_completed_emb, H.
      destruct (run_round_fwd _ _ _ _ _ H0 F HF) as (xs1 & E & Hafter).
      rewrite E, (resolve_after_round _ _ Hafter). apply IHwg_sem; lia.
  Qed.

  Lemma loop_sound R F : forall rs s xs s',
    emu_loop R F (map emb rs) s = Finished (xs, s') ->
    exists n rs', n <= R /\ wg_sem F n rs s rs' s' /\ xs = map emb rs' /\ all_ended rs' = true.
  Proof.
    induction R as [|R IH]; intros rs s xs s' H.
    - simpl in H. rewrite all_completed_emb in H. destruct (all_ended rs) eqn:A; [|discriminate].
      inversion H; subst. exists 0, rs. repeat split; auto. constructor; auto.
    - simpl in H. rewrite all_completed_emb in H. destruct (all_ended rs) eqn:A.
      + inversion H; subst. exists 0, rs. repeat split; auto; [lia|constructor; auto].
      + destruct (run_round F (map emb rs) s) as [[xs1 s1]|] eqn:E; [|discriminate].
        apply run_round_bwd in E. destruct E as (rs1 & Hp & Hafter).
        rewrite (resolve_after_round _ _ Hafter) in H.
        apply IH in H. destruct H as (n & rs' & Hn & Hsem & Hxs & Hend).
        exists (Datatypes.S n), rs'. repeat split; auto; [lia|]. eapply wg_phase; eauto.
  Qed.

  Lemma loop_never_panics R F : forall rs s r,
    emu_loop R F (map emb rs) s <> Panicked r.
  Proof.
    induction R as [|R IH]; intros rs s r H.
    - simpl in H. destruct (all_completed (map emb rs)); discriminate.
    - simpl in H. destruct (all_completed (map emb rs)); [discriminate|].
      destruct (run_round F (map emb rs) s) as [[xs1 s1]|] eqn:E; [|discriminate].
      apply run_round_bwd in E. destruct E as (rs1 & Hp & Hafter).
      rewrite (resolve_after_round _ _ Hafter) in H. eapply IH; eauto.
  Qed.

  Lemma wg_sem_ended m n rs s rs' s' : wg_sem m n rs s rs' s' -> all_ended rs' = true.
  Proof. induction 1; auto. Qed.

  Lemma emb_inj a b : map emb a = map emb b -> a = b.
  Proof.
    revert b; induction a as [|[w e] a IH]; intros [|[w2 e2] b] H; simpl in *; try discriminate; auto.
    inversion H; subst. f_equal; auto.
  Qed.

  Lemma wg_sem_det m1 n1 m2 n2 rs s a1 b1 a2 b2 :
    wg_sem m1 n1 rs s a1 b1 -> wg_sem m2 n2 rs s a2 b2 -> a1 = a2 /\ b1 = b2.
  Proof.
    intros H1 H2.
    pose proof (loop_complete _ _ _ _ _ _ H1 (Nat.max n1 n2) (Nat.max m1 m2)
                  (Nat.le_max_l _ _) (Nat.le_max_l _ _)) as E1.
    pose proof (loop_complete _ _ _ _ _ _ H2 (Nat.max n1 n2) (Nat.max m1 m2)
                  (Nat.le_max_r _ _) (Nat.le_max_r _ _)) as E2.
    rewrite E1 in E2. inversion E2. split; auto using emb_inj.
  Qed.

  (** runWG starts from wavefronts with both flags clear *)
  Lemma run_wg_fresh R F ws s : run_wg R F ws s = emu_loop R F (map emb (fresh ws)) s.
  Proof. unfold run_wg, fresh. rewrite map_map. reflexivity. Qed.

  (** the special case the old code was restricted to: if all wavefronts
      reach the same barriers, every phase stops them all alike *)
  Lemma phase_fresh_outcomes m ws s rs' s' :
    phase m (fresh ws) s rs' s' -> length rs' = length ws.
  Proof. intros H. apply phase_length in H. unfold fresh in H. rewrite map_length in H. exact H. Qed.
End Proofs.
