(** C05 — types of the site list emitted by the translator tools/gen/nondet
    (coq/gen/MapRanges.v) and the accounting function that the kernel evaluates:
    every site found in the Go sources must carry a classification. *)
From Coq Require Import String List Bool.
Import ListNotations.
Open Scope string_scope.

Inductive site_kind := KMapRange | KSelect | KWallClock | KRandom | KRandomId | KGoStmt | KSyncPool | KHashSeed | KPtrOrder | KSharedObj.

Record site := mk_site {
  s_kind : site_kind;
  s_key  : string;   (* file:function:kind:expression, line independent *)
  s_file : string;
  s_func : string;
  s_expr : string }.

Inductive site_class :=
| ProvedOrderIrrelevant (lemma : string)
| BenignByInspection (reason : string)
| OrderRelevant (reach : string).

Fixpoint lookup (k : string) (cs : list (string * site_class)) : option site_class :=
  match cs with
  | [] => None
  | (k', c) :: r => if String.eqb k k' then Some c else lookup k r
  end.

(** Sites of the source tree that have no classification. *)
Definition unaccounted (ss : list site) (cs : list (string * site_class)) : list string :=
  map s_key (filter (fun s => match lookup (s_key s) cs with None => true | Some _ => false end) ss).

(** Classification entries that no longer correspond to a site (stale). *)
Definition stale (ss : list site) (cs : list (string * site_class)) : list string :=
  map fst (filter (fun kc => negb (existsb (fun s => String.eqb (s_key s) (fst kc)) ss)) cs).

Definition is_proved (c : site_class) : bool :=
  match c with ProvedOrderIrrelevant _ => true | _ => false end.
Definition is_relevant (c : site_class) : bool :=
  match c with OrderRelevant _ => true | _ => false end.

Definition count_class (p : site_class -> bool) (ss : list site) (cs : list (string * site_class)) : nat :=
  length (filter (fun s => match lookup (s_key s) cs with Some c => p c | None => false end) ss).

(** A classification "proved" is only admissible for map ranges: selects,
    clocks and identifiers are not folds over a collection. *)
Definition proved_only_on_mapranges (ss : list site) (cs : list (string * site_class)) : bool :=
  forallb (fun s => match lookup (s_key s) cs, s_kind s with
                    | Some (ProvedOrderIrrelevant _), KMapRange => true
                    | Some (ProvedOrderIrrelevant _), _ => false
                    | _, _ => true end) ss.
