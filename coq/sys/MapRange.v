(** C05 — models of the Go loops that range over a map on simulation paths.
    Definitions only.  Go visits every entry of the map exactly once in an
    unspecified order: a `for k, v := range m { body }` is [fold_left body es s0]
    for *some* permutation [es] of the entries; a `return` inside the loop is a
    state that absorbs the remaining iterations. *)
From Coq Require Import List NArith Bool.
Import ListNotations.
Open Scope N_scope.

Definition range_loop {S E : Type} (body : S -> E -> S) (entries : list E) (s0 : S) : S :=
  fold_left body entries s0.

(** ** amd/driver/internal/memoryallocator.go: deviceIDByPAddr
    [for id, dev := range a.devices { if isPAddrOnDevice(pAddr, dev.MemState) { return id } }; panic] *)
Record dev := mk_dev { d_id : N; d_init : N; d_size : N }.

(** isPAddrOnDevice: pAddr >= initial && pAddr < initial + size *)
Definition on_device (p : N) (d : dev) : bool :=
  (d_init d <=? p) && (p <? d_init d + d_size d).

(** [None] at the end = panic("device not found") *)
Definition find_body (p : N) (acc : option N) (d : dev) : option N :=
  match acc with
  | Some _ => acc
  | None => if on_device p d then Some (d_id d) else None
  end.

Definition device_id_by_paddr (p : N) (devs : list dev) : option N :=
  range_loop (find_body p) devs None.

(** RegisterDevice: initial address = bytes registered so far; total += size *)
Fixpoint layout (regs : list (N * N)) (total : N) : list dev :=
  match regs with
  | [] => []
  | (id, sz) :: r => mk_dev id total sz :: layout r (total + sz)
  end.

(** ** amd/timing/cu/cpistacktracer.go: GetCPIStack / GetSIMDCPIStack
    [stack := map{}; stack["total"] = t; for k, d := range h.timeStack { stack[k] = conv d }]
    A Go map as an association list whose newest binding shadows. *)
Section Assoc.
Context {K V : Type} (keq : K -> K -> bool).

Fixpoint alookup (k : K) (m : list (K * V)) : option V :=
  match m with
  | [] => None
  | (k', v) :: r => if keq k k' then Some v else alookup k r
  end.

Definition build_body (conv : V -> V) (m : list (K * V)) (e : K * V) : list (K * V) :=
  (fst e, conv (snd e)) :: m.

Definition build_stack (conv : V -> V) (total_key : K) (total : V) (entries : list (K * V)) : list (K * V) :=
  range_loop (build_body conv) entries [(total_key, total)].
End Assoc.

(** ** a loop that accumulates a commutative quantity (counters, sums) *)
Definition sum_loop {E : Type} (w : E -> N) (entries : list E) (s0 : N) : N :=
  range_loop (fun s e => s + w e) entries s0.
