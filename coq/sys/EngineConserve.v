(** C05 — further proofs about VSys.Engine: heap.Pop returns the old root (so
    Peek followed by Pop in nextEvent talk about the same event), and the
    engine neither invents nor duplicates events. *)
From Coq Require Import List NArith Bool Arith Lia Permutation.
From VSys Require Import Engine EngineProofs.
Import ListNotations.

Set Implicit Arguments.

Section Heap.
Context (A : Type).
Notation E := (event A).

Lemma nth_upd_other : forall (l : list E) i x m, m <> i -> nth_error (upd i x l) m = nth_error l m.
Proof.
  induction l as [|a l IH]; intros [|i] x [|m] H; simpl; auto; try congruence.
Qed.

Lemma nth_upd_same : forall (l : list E) i x, (i < length l)%nat -> nth_error (upd i x l) i = Some x.
Proof.
  induction l as [|a l IH]; intros [|i] x H; simpl in *; try lia; auto. apply IH. lia.
Qed.

Lemma swap_length : forall i j (l : list E), length (swap i j l) = length l.
Proof.
  intros. unfold swap. destruct (nth_error l i); auto. destruct (nth_error l j); auto.
  now rewrite !upd_length.
Qed.

Lemma nth_swap_other : forall i j (l : list E) m, m <> i -> m <> j -> nth_error (swap i j l) m = nth_error l m.
Proof.
  intros. unfold swap. destruct (nth_error l i); auto. destruct (nth_error l j); auto.
  rewrite !nth_upd_other; auto.
Qed.

Lemma nth_swap_right : forall i j (l : list E) a, nth_error l i = Some a -> (j < length l)%nat ->
  nth_error (swap i j l) j = Some a.
Proof.
  intros i j l a Hi Hj. unfold swap. rewrite Hi.
  destruct (nth_error l j) eqn:Ej.
  - apply nth_upd_same. now rewrite upd_length.
  - apply nth_error_None in Ej. lia.
Qed.

Lemma down_length : forall fuel (l : list E) i n, length (down fuel l i n) = length l.
Proof.
  induction fuel; intros l i n; cbn [down]; auto.
  destruct (Nat.leb _ _); auto.
  match goal with |- context [negb (less l ?j i)] => destruct (negb (less l j i)); auto end.
  rewrite IHfuel. apply swap_length.
Qed.

(** down(h, i, n) only touches indices below n *)
Lemma down_keeps_tail : forall fuel (l : list E) i n m,
  (i < n)%nat -> (n <= m)%nat -> nth_error (down fuel l i n) m = nth_error l m.
Proof.
  induction fuel; intros l i n m Hi Hm; cbn [down]; auto.
  destruct (Nat.leb n (2 * i + 1)) eqn:L; auto. apply Nat.leb_gt in L.
  destruct (Nat.ltb (2 * i + 1 + 1) n && less l (2 * i + 1 + 1) (2 * i + 1)) eqn:C.
  - apply andb_true_iff in C. destruct C as [C _]. apply Nat.ltb_lt in C.
    destruct (negb (less l (2 * i + 1 + 1) i)); auto.
    rewrite IHfuel by lia. apply nth_swap_other; lia.
  - destruct (negb (less l (2 * i + 1) i)); auto.
    rewrite IHfuel by lia. apply nth_swap_other; lia.
Qed.

Lemma last_nth : forall (l : list E) n x d, length l = S n -> nth_error l n = Some x -> last l d = x.
Proof.
  induction l as [|a l IH]; intros n x d Hl Hn; simpl in *; [discriminate|].
  destruct l as [|b l'].
  - destruct n; simpl in *; [congruence|discriminate].
  - destruct n as [|n]; simpl in Hl; [discriminate|]. simpl in Hn. eapply IH; eauto.
Qed.

(** heap.Pop returns events[0] *)
Theorem hpop_returns_root : forall d (l : list E), exists r, hpop (d :: l) = Some (d, r).
Proof.
  intros d l. unfold hpop. eexists. f_equal. f_equal.
  set (n := (length (d :: l) - 1)%nat). assert (Hn : n = length l) by (unfold n; simpl; lia).
  apply last_nth with (n := n).
  - rewrite down_length, swap_length. simpl. lia.
  - destruct (Nat.eq_dec n 0) as [Z|Z].
    + (* single element: down returns at once *)
      rewrite Z. destruct l; [|simpl in Hn; lia]. reflexivity.
    + rewrite down_keeps_tail by lia. apply nth_swap_right; [reflexivity|simpl; lia].
Qed.

(** * Conservation at the level of the engine *)
Definition contents (s : eng A) : list E := handled s ++ q s ++ sq s.

Lemma next_event_perm : forall (s : eng A) e q' sq',
  next_event s = Some (e, q', sq') -> Permutation (e :: q' ++ sq') (q s ++ sq s).
Proof.
  intros s e q' sq' H. unfold next_event in H.
  destruct (q s) as [|p qq] eqn:Q.
  - destruct (hpop (sq s)) as [[e0 r]|] eqn:P; [|discriminate]. injection H as <- <- <-.
    simpl. now apply hpop_perm.
  - destruct (sq s) as [|x xx] eqn:S.
    + destruct (hpop (p :: qq)) as [[e0 r]|] eqn:P; [|discriminate]. injection H as <- <- <-.
      rewrite !app_nil_r. now apply hpop_perm.
    + destruct (N.leb (ev_time p) (ev_time x)).
      * destruct (hpop_returns_root p qq) as [r Hr]. rewrite Hr in H. injection H as <- <- <-.
        apply hpop_perm in Hr. change (Permutation ((p :: r) ++ x :: xx) ((p :: qq) ++ x :: xx)).
        now apply Permutation_app_tail.
      * destruct (hpop_returns_root x xx) as [r Hr]. rewrite Hr in H. injection H as <- <- <-.
        apply hpop_perm in Hr.
        eapply Permutation_trans; [apply Permutation_middle|].
        apply Permutation_app_head. exact Hr.
Qed.

Lemma step_contents : forall s : eng A, exists rest, Permutation (contents (step s) ++ rest) (contents s).
Proof.
  intros s. unfold step. destruct (crashed s). { exists []. now rewrite app_nil_r. }
  destruct (next_event s) as [[[e q'] sq']|] eqn:N; [|exists []; now rewrite app_nil_r].
  apply next_event_perm in N. unfold contents.
  destruct (N.ltb (ev_time e) (now s)); simpl.
  - exists [e]. rewrite <- !app_assoc. apply Permutation_app_head.
    eapply Permutation_trans; [|exact N]. rewrite app_assoc.
    apply Permutation_sym, Permutation_cons_append.
  - exists []. rewrite app_nil_r. rewrite <- app_assoc. apply Permutation_app_head. exact N.
Qed.

Lemma sched_contents : forall (s : eng A) e, exists rest, Permutation (contents (sched e s) ++ rest) (contents s ++ [e]).
Proof.
  intros s e. unfold sched. destruct (crashed s). { exists [e]. reflexivity. }
  destruct (N.ltb (ev_time e) (now s)). { exists [e]. reflexivity. }
  exists []. rewrite app_nil_r. unfold contents.
  destruct (ev_sec e); simpl.
  - rewrite <- !app_assoc. do 2 apply Permutation_app_head.
    eapply Permutation_trans; [apply hpush_perm|]. apply Permutation_cons_append.
  - rewrite <- !app_assoc. apply Permutation_app_head.
    eapply Permutation_trans; [apply Permutation_app_tail, hpush_perm|].
    simpl. eapply Permutation_trans; [apply Permutation_cons_append|]. now rewrite <- app_assoc.
Qed.

Lemma fold_contents : forall (ops : list (op A)) (s : eng A),
  exists rest, Permutation (contents (fold_left (@apply A) ops s) ++ rest) (contents s ++ pushes ops).
Proof.
  induction ops as [|o ops IH]; intros s; simpl.
  - exists []. reflexivity.
  - destruct (IH (apply s o)) as [rest1 P1]. destruct o as [e|]; simpl in *.
    + destruct (sched_contents s e) as [rest2 P2]. exists (rest1 ++ rest2).
      eapply Permutation_trans; [rewrite app_assoc; apply Permutation_app_tail; exact P1|].
      rewrite <- app_assoc.
      eapply Permutation_trans; [apply Permutation_app_head, Permutation_app_comm|].
      rewrite app_assoc.
      eapply Permutation_trans; [apply Permutation_app_tail; exact P2|].
      now rewrite <- app_assoc.
    + destruct (step_contents s) as [rest2 P2]. exists (rest1 ++ rest2).
      eapply Permutation_trans; [rewrite app_assoc; apply Permutation_app_tail; exact P1|].
      rewrite <- app_assoc.
      eapply Permutation_trans; [apply Permutation_app_head, Permutation_app_comm|].
      rewrite app_assoc. apply Permutation_app_tail. exact P2.
Qed.

(** Handled and queued events together are a sub-multiset of the Schedule calls:
    every handled event was scheduled, and none is handled more often than it
    was scheduled. [rest] = calls rejected by a panic or made after one. *)
Theorem engine_conserves_events : forall ops : list (op A),
  exists rest, Permutation (handled (exec ops) ++ q (exec ops) ++ sq (exec ops) ++ rest) (pushes ops).
Proof.
  intros ops. destruct (fold_contents ops init) as [rest P]. exists rest.
  unfold contents in P. simpl in P. rewrite <- !app_assoc in P. exact P.
Qed.

End Heap.
