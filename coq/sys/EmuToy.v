(** A small concrete instruction set used only to tie VSys.EmuLoop to the
    real emu.ComputeUnit: the harness plugs a scripted Decoder / ALU /
    StorageAccessor into the real compute unit (the interfaces are public),
    runs work-groups through the real runWG, and the same programs are run
    here through [run_wg] instantiated with [toy_step].  Definitions only. *)
From Coq Require Import List NArith Bool.
From VSys Require Import EmuLoop.
Import ListNotations.
Open Scope N_scope.

Inductive tinstr :=
| TAddL (c k : N)        (* lds[c]  := (3*lds[c] + k + wfid) mod 2^32   -- order sensitive *)
| TAcc (c : N)           (* acc     := (acc + lds[c]) mod 2^32 *)
| TStoreL (c : N)        (* lds[c]  := acc *)
| TAddG (c k : N)        (* glob[c] := (5*glob[c] + k + wfid + acc) mod 2^32 *)
| TAccG (c : N)          (* acc     := (acc + glob[c]) mod 2^32 *)
| TSkipWfLt (k t : N)    (* if wfid < k then pc += t *)
| TSkipOdd (c t : N)     (* if lds[c] is odd then pc += t *)
| TSetCnt (k : N)        (* cnt := k *)
| TLoop (t : N)          (* if cnt > 0 then cnt -= 1, pc -= t *)
| TBarrier
| TEnd.

(** program memory: (byte size, instruction) in address order from offset 0 *)
Definition tprog := list (N * tinstr).

Fixpoint fetch (p : tprog) (pc : N) : option (N * tinstr) :=
  match p with
  | [] => None
  | (sz, i) :: r => if N.eqb pc 0 then Some (sz, i)
                    else if N.ltb pc sz then None else fetch r (pc - sz)
  end.

Record tw := mkTw { t_pc : N; t_acc : N; t_cnt : N; t_id : N }.
Record ts := mkTs { t_lds : list N; t_glob : list N; t_trace : list (N * N) }.

Definition m32 (x : N) : N := x mod 4294967296.
Definition getc (l : list N) (c : N) : N := nth (N.to_nat c) l 0.
Fixpoint setc (l : list N) (c : nat) (v : N) : list N :=
  match l, c with
  | [], _ => []
  | _ :: r, O => v :: r
  | x :: r, Datatypes.S c' => x :: setc r c' v
  end.

(** private state, LDS, global cells and outcome of one instruction at the
    already advanced program counter [pc] *)
Definition toy_exec (i : tinstr) (pc : N) (w : tw) (s : ts) : tw * list N * list N * outcome :=
  let w0 := mkTw pc (t_acc w) (t_cnt w) (t_id w) in
  match i with
  | TBarrier => (w0, t_lds s, t_glob s, AtBarrier)
  | TEnd => (w0, t_lds s, t_glob s, Done)
  | TAddL c k =>
      (w0, setc (t_lds s) (N.to_nat c) (m32 (3 * getc (t_lds s) c + k + t_id w)), t_glob s, Running)
  | TAcc c => (mkTw pc (m32 (t_acc w + getc (t_lds s) c)) (t_cnt w) (t_id w), t_lds s, t_glob s, Running)
  | TStoreL c => (w0, setc (t_lds s) (N.to_nat c) (t_acc w), t_glob s, Running)
  | TAddG c k =>
      (w0, t_lds s, setc (t_glob s) (N.to_nat c) (m32 (5 * getc (t_glob s) c + k + t_id w + t_acc w)), Running)
  | TAccG c => (mkTw pc (m32 (t_acc w + getc (t_glob s) c)) (t_cnt w) (t_id w), t_lds s, t_glob s, Running)
  | TSkipWfLt k t => (mkTw (if N.ltb (t_id w) k then pc + t else pc) (t_acc w) (t_cnt w) (t_id w), t_lds s, t_glob s, Running)
  | TSkipOdd c t => (mkTw (if N.odd (getc (t_lds s) c) then pc + t else pc) (t_acc w) (t_cnt w) (t_id w), t_lds s, t_glob s, Running)
  | TSetCnt k => (mkTw pc (t_acc w) k (t_id w), t_lds s, t_glob s, Running)
  | TLoop t => (if N.eqb (t_cnt w) 0 then w0 else mkTw (pc - t) (t_acc w) (t_cnt w - 1) (t_id w), t_lds s, t_glob s, Running)
  end.

(** fetch, advance the PC, execute or stop; the trace records the wavefront
    and its PC after the instruction (what the CU's instruction hook sees) *)
Definition toy_step (p : tprog) (w : tw) (s : ts) : tw * ts * outcome :=
  match fetch p (t_pc w) with
  | None => (w, s, Done)
  | Some (sz, i) =>
      let '(w', lds', glob', o) := toy_exec i (t_pc w + sz) w s in
      (w', mkTs lds' glob' ((t_id w, t_pc w') :: t_trace s), o)
  end.

(** one correspondence case: program, wavefronts per work-group, LDS cells,
    global cells, number of work-groups queued on the CU, and what the real
    compute unit did: panicked?, LDS of every work-group that was started,
    global cells, (wavefront, pc-after) of every instruction in execution order *)
Record tcase := mkTCase {
  tc_prog : tprog; tc_nwf : nat; tc_lds : nat; tc_glob : nat; tc_nwg : nat;
  tc_obs_panic : bool; tc_obs_lds : list (list N); tc_obs_glob : list N;
  tc_obs_trace : list (N * N) }.

Definition init_ws (n : nat) : list tw := map (fun i => mkTw 0 0 0 (N.of_nat i)) (seq 0 n).

(** runEmulation: the queued work-groups one after the other; each gets a
    fresh zeroed LDS, global memory carries over; a panic ends everything *)
Fixpoint run_cu (c : tcase) (nwg : nat) (glob : list N) (tr : list (N * N)) (ldss : list (list N))
  : bool * list (list N) * list N * list (N * N) :=
  match nwg with
  | O => (false, rev ldss, glob, rev tr)
  | Datatypes.S n =>
      match run_wg (toy_step (tc_prog c)) 200 5000 (init_ws (tc_nwf c))
                   (mkTs (repeat 0 (tc_lds c)) glob tr) with
      | Finished (_, s) => run_cu c n (t_glob s) (t_trace s) (t_lds s :: ldss)
      | Panicked (_, s) => (true, rev (t_lds s :: ldss), t_glob s, rev (t_trace s))
      | OutOfFuel => (false, [], [], [])
      end
  end.

Fixpoint nlist_eqb (a b : list N) : bool :=
  match a, b with
  | [], [] => true
  | x :: a', y :: b' => N.eqb x y && nlist_eqb a' b'
  | _, _ => false
  end.
Fixpoint nnlist_eqb (a b : list (list N)) : bool :=
  match a, b with
  | [], [] => true
  | x :: a', y :: b' => nlist_eqb x y && nnlist_eqb a' b'
  | _, _ => false
  end.
Fixpoint trace_eqb (a b : list (N * N)) : bool :=
  match a, b with
  | [], [] => true
  | (x1, x2) :: a', (y1, y2) :: b' => N.eqb x1 y1 && N.eqb x2 y2 && trace_eqb a' b'
  | _, _ => false
  end.

(** 0 = agrees; 1 = panic flag; 2 = trace; 3 = LDS contents; 4 = global cells *)
Definition check_tcase (c : tcase) : N :=
  let '(p, ldss, glob, tr) := run_cu c (tc_nwg c) (repeat 0 (tc_glob c)) [] [] in
  if negb (Bool.eqb p (tc_obs_panic c)) then 1
  else if negb (trace_eqb tr (tc_obs_trace c)) then 2
  else if negb (nnlist_eqb ldss (tc_obs_lds c)) then 3
  else if negb (nlist_eqb glob (tc_obs_glob c)) then 4 else 0.

Fixpoint tmismatches_from (i : N) (cs : list tcase) : list (N * N) :=
  match cs with
  | [] => []
  | c :: r => let d := check_tcase c in
              (if N.eqb d 0 then [] else [(i, d)]) ++ tmismatches_from (i + 1) r
  end.
Definition tmismatches := tmismatches_from 0.
