(** C05 — hand-off between the application thread and the engine thread
    (amd/driver/driver.go runAsync, api.go DrainCommandQueue; akita
    sim/ticker.go TickLater).  Definitions only.

    When a command completes, the engine thread wakes the application thread
    and goes on with whatever events are still queued ("trailing" events).  The
    application thread enqueues its next command and signals; runAsync then does
    [Engine.Pause(); TickLater(); Engine.Continue()]: the engine stops between
    two loop iterations, wherever it happens to be, and the driver's tick is
    scheduled at NextTick(CurrentTime()).  The host schedule therefore chooses a
    number [k] of loop iterations that ran before the pause.

    Time unit: one driver cycle, so NextTick(now) = now + 1.  TickLater does
    nothing when a tick at or after that time is already pending ([ntt], the
    scheduler's nextTickTime, taken as fixed while the trailing events run). *)
From Coq Require Import List NArith Bool.
From VSys Require Import Engine.
Import ListNotations.

(** engine state when the host schedule lets [k] iterations run before the pause *)
Definition pause_at (k : nat) (tbl : list (N * list kid)) (s : eng N) : eng N := run_all k tbl s.

(** simulated time at which the driver looks at the new command *)
Definition pickup_time (ntt : N) (k : nat) (tbl : list (N * list kid)) (s : eng N) : N :=
  N.max ntt (N.succ (now (pause_at k tbl s))).

(** the engine had nothing left to do when the signal arrived *)
Definition drained (k : nat) (tbl : list (N * list kid)) (s : eng N) : bool :=
  no_more (pause_at k tbl s).

(** witness: two trailing events one cycle apart *)
Definition trailing_witness : eng N :=
  sched (mk_event 2%N false 2%N) (sched (mk_event 1%N false 1%N) init).
