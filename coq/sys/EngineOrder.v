(** C05 — the event queues of VSys.Engine are binary min-heaps after every
    Push/Pop, hence the serial engine handles events in time order, primary
    events before secondary ones at equal time -- for ALL histories. *)
From Coq Require Import List NArith ZArith Bool Arith Lia Zify ZifyN ZifyNat ZifyBool Permutation Sorted.
From VSys Require Import Engine EngineProofs EngineConserve.
Import ListNotations.

Ltac Zify.zify_post_hook ::= Z.div_mod_to_equations.

Set Implicit Arguments.

Section Order.
Context (A : Type).
Notation E := (event A).

(** time at index k (0 outside the slice) *)
Definition tm (l : list E) (k : nat) : N :=
  match nth_error l k with Some e => ev_time e | None => 0%N end.

(** parent of k is (k-1)/2 *)
Definition heap_ok (l : list E) : Prop :=
  forall k, (0 < k < length l)%nat -> (tm l ((k - 1) / 2) <= tm l k)%N.

Lemma tm_swap : forall (l : list E) i j k, (i < length l)%nat -> (j < length l)%nat ->
  tm (swap i j l) k = if Nat.eqb k j then tm l i else if Nat.eqb k i then tm l j else tm l k.
Proof.
  intros l i j k Hi Hj. unfold tm at 1.
  destruct (nth_error l i) as [a|] eqn:Ei; [|apply nth_error_None in Ei; lia].
  destruct (nth_error l j) as [b|] eqn:Ej; [|apply nth_error_None in Ej; lia].
  destruct (Nat.eqb_spec k j) as [->|Nj].
  - rewrite (nth_swap_right i l Ei Hj). unfold tm. now rewrite Ei.
  - destruct (Nat.eqb_spec k i) as [->|Ni].
    + unfold swap. rewrite Ei, Ej. rewrite nth_upd_other by auto. rewrite nth_upd_same by auto.
      unfold tm. now rewrite Ej.
    + rewrite nth_swap_other by auto. reflexivity.
Qed.

Lemma less_tm : forall (l : list E) a b, (a < length l)%nat -> (b < length l)%nat ->
  less l a b = N.ltb (tm l a) (tm l b).
Proof.
  intros l a b Ha Hb. unfold less, tm.
  destruct (nth_error l a) eqn:Ea; [|apply nth_error_None in Ea; lia].
  destruct (nth_error l b) eqn:Eb; [|apply nth_error_None in Eb; lia]. reflexivity.
Qed.

(** * heap.up *)
Definition up_except (l : list E) (j : nat) : Prop :=
  (forall k, (0 < k < length l)%nat -> k <> j -> (tm l ((k - 1) / 2) <= tm l k)%N) /\
  (forall k, (0 < k < length l)%nat -> ((k - 1) / 2 = j)%nat -> (0 < j)%nat -> (tm l ((j - 1) / 2) <= tm l k)%N).

Lemma up_ok : forall fuel (l : list E) j,
  (j < fuel)%nat -> (j < length l)%nat -> up_except l j -> heap_ok (up fuel l j).
Proof.
  induction fuel; intros l j Hf Hj [H1 H2]; [lia|]. cbn [up].
  set (i := ((j - 1) / 2)%nat).
  destruct (Nat.eqb_spec i j) as [Eij|Nij]; simpl.
  - intros k Hk. apply H1; auto. unfold i in Eij. lia.
  - assert (Hi : (i < j)%nat) by (unfold i in *; lia).
    rewrite less_tm by lia.
    destruct (N.ltb_spec (tm l j) (tm l i)) as [Lt|Ge]; simpl.
    + apply IHfuel; [lia|rewrite swap_length; lia|].
      split.
      * intros k Hk Nk. rewrite swap_length in Hk.
        rewrite !tm_swap by lia.
        destruct (Nat.eqb_spec k j) as [->|Nkj].
        { fold i. destruct (Nat.eqb_spec i j); [lia|]. rewrite Nat.eqb_refl. lia. }
        destruct (Nat.eqb_spec k i); [lia|].
        destruct (Nat.eqb_spec ((k - 1) / 2) j) as [Epj|Npj].
        { assert (Hj0 : (0 < j)%nat) by lia. pose proof (H2 k Hk Epj Hj0) as H3. fold i in H3. exact H3. }
        destruct (Nat.eqb_spec ((k - 1) / 2) i) as [Epi|Npi].
        { pose proof (H1 k Hk Nkj). rewrite Epi in H. lia. }
        apply H1; auto.
      * intros k Hk Pk Pi. rewrite swap_length in Hk.
        rewrite !tm_swap by lia.
        assert (Hpi : (((i - 1) / 2) < i)%nat) by lia.
        destruct (Nat.eqb_spec ((i - 1) / 2) j); [lia|].
        destruct (Nat.eqb_spec ((i - 1) / 2) i); [lia|].
        assert (Hii : (tm l ((i - 1) / 2) <= tm l i)%N) by (apply H1; lia).
        destruct (Nat.eqb_spec k j) as [->|Nkj]; [exact Hii|].
        destruct (Nat.eqb_spec k i); [lia|].
        pose proof (H1 k Hk Nkj) as Hk1. rewrite Pk in Hk1. lia.
    + intros k Hk. destruct (Nat.eq_dec k j) as [->|Nk]; [fold i; lia|]. apply H1; auto.
Qed.

Lemma tm_app_l : forall (l : list E) x k, (k < length l)%nat -> tm (l ++ [x]) k = tm l k.
Proof. intros. unfold tm. now rewrite nth_error_app1. Qed.

Lemma hpush_heap : forall (e : E) l, heap_ok l -> heap_ok (hpush e l).
Proof.
  intros e l H. unfold hpush. apply up_ok; [lia|rewrite app_length; simpl; lia|].
  split.
  - intros k Hk Nk. rewrite app_length in Hk. simpl in Hk.
    rewrite !tm_app_l by lia. apply H. lia.
  - intros k Hk Pk Pj. rewrite app_length in Hk. simpl in Hk. lia.
Qed.

(** * heap.down on the first n elements *)
Definition hp (l : list E) (n : nat) : Prop :=
  forall k, (0 < k < n)%nat -> (tm l ((k - 1) / 2) <= tm l k)%N.

Definition dn_except (l : list E) (n i : nat) : Prop :=
  (forall k, (0 < k < n)%nat -> ((k - 1) / 2 <> i)%nat -> (tm l ((k - 1) / 2) <= tm l k)%N) /\
  (forall k, (0 < k < n)%nat -> ((k - 1) / 2 = i)%nat -> (0 < i)%nat -> (tm l ((i - 1) / 2) <= tm l k)%N).

Lemma down_ok : forall fuel (l : list E) i n,
  (n <= i + fuel)%nat -> (n <= length l)%nat -> dn_except l n i -> hp (down fuel l i n) n.
Proof.
  induction fuel; intros l i n Hf Hn [H1 H2].
  - simpl. intros k Hk. apply H1; auto. lia.
  - cbn [down]. destruct (Nat.leb_spec n (2 * i + 1)) as [Le|Gt].
    + intros k Hk. apply H1; auto. lia.
    + (* the smaller child j *)
      set (j1 := (2 * i + 1)%nat) in *.
      assert (Hc : forall k, (0 < k < n)%nat -> ((k - 1) / 2 = i)%nat -> k = j1 \/ (k = j1 + 1)%nat) by (intros; unfold j1; lia).
      match goal with |- context [if ?c then (j1 + 1)%nat else j1] => destruct c eqn:C end.
      * apply andb_true_iff in C. destruct C as [C1 C2]. apply Nat.ltb_lt in C1.
        rewrite less_tm in C2 by lia. apply N.ltb_lt in C2.
        rewrite less_tm by lia.
        destruct (N.ltb_spec (tm l (j1 + 1)) (tm l i)) as [Lt|Ge]; simpl.
        -- apply IHfuel; [lia|rewrite swap_length; lia|].
           split.
           ++ intros k Hk Pk. rewrite !tm_swap by lia.
              destruct (Nat.eqb_spec k (j1 + 1)) as [->|Nk].
              { replace ((j1 + 1 - 1) / 2)%nat with i by (unfold j1; lia).
                destruct (Nat.eqb_spec i (j1 + 1)); [lia|]. rewrite Nat.eqb_refl. lia. }
              destruct (Nat.eqb_spec k i) as [->|Nki].
              { destruct (Nat.eqb_spec ((i - 1) / 2) (j1 + 1)); [lia|].
                destruct (Nat.eqb_spec ((i - 1) / 2) i) as [Ei|_].
                - assert (i = 0)%nat by lia. lia.
                - apply (H2 (j1 + 1)%nat); unfold j1; lia. }
              destruct (Nat.eqb_spec ((k - 1) / 2) (j1 + 1)); [lia|].
              destruct (Nat.eqb_spec ((k - 1) / 2) i) as [Epi|Npi].
              { destruct (Hc k Hk Epi) as [-> | ->]; [lia|lia]. }
              apply H1; auto.
           ++ intros k Hk Pk _. rewrite !tm_swap by lia.
              replace ((j1 + 1 - 1) / 2)%nat with i by (unfold j1; lia).
              destruct (Nat.eqb_spec i (j1 + 1)); [lia|]. rewrite Nat.eqb_refl.
              destruct (Nat.eqb_spec k (j1 + 1)); [lia|]. destruct (Nat.eqb_spec k i); [lia|].
              pose proof (H1 k Hk) as Hk1. rewrite Pk in Hk1. apply Hk1. unfold j1. lia.
        -- intros k Hk. destruct (Nat.eq_dec ((k - 1) / 2) i) as [Ep|Np]; [|apply H1; auto].
           rewrite Ep. destruct (Hc k Hk Ep) as [-> | ->]; lia.
      * rewrite less_tm by lia.
        assert (Hother : (j1 + 1 < n)%nat -> (tm l j1 <= tm l (j1 + 1))%N).
        { intros Hlt. apply andb_false_iff in C. destruct C as [C|C].
          - apply Nat.ltb_ge in C. lia.
          - rewrite less_tm in C by lia. apply N.ltb_ge in C. exact C. }
        destruct (N.ltb_spec (tm l j1) (tm l i)) as [Lt|Ge]; simpl.
        -- apply IHfuel; [lia|rewrite swap_length; lia|].
           split.
           ++ intros k Hk Pk. rewrite !tm_swap by lia.
              destruct (Nat.eqb_spec k j1) as [->|Nk].
              { replace ((j1 - 1) / 2)%nat with i by (unfold j1; lia).
                destruct (Nat.eqb_spec i j1); [lia|]. rewrite Nat.eqb_refl. lia. }
              destruct (Nat.eqb_spec k i) as [->|Nki].
              { destruct (Nat.eqb_spec ((i - 1) / 2) j1); [lia|].
                destruct (Nat.eqb_spec ((i - 1) / 2) i) as [Ei|_].
                - assert (i = 0)%nat by lia. lia.
                - apply (H2 j1); unfold j1; lia. }
              destruct (Nat.eqb_spec ((k - 1) / 2) j1); [lia|].
              destruct (Nat.eqb_spec ((k - 1) / 2) i) as [Epi|Npi].
              { destruct (Hc k Hk Epi) as [-> | ->]; [lia|]. specialize (Hother ltac:(lia)). lia. }
              apply H1; auto.
           ++ intros k Hk Pk _. rewrite !tm_swap by lia.
              replace ((j1 - 1) / 2)%nat with i by (unfold j1; lia).
              destruct (Nat.eqb_spec i j1); [lia|]. rewrite Nat.eqb_refl.
              destruct (Nat.eqb_spec k j1); [lia|]. destruct (Nat.eqb_spec k i); [lia|].
              pose proof (H1 k Hk) as Hk1. rewrite Pk in Hk1. apply Hk1. unfold j1. lia.
        -- intros k Hk. destruct (Nat.eq_dec ((k - 1) / 2) i) as [Ep|Np]; [|apply H1; auto].
           rewrite Ep. destruct (Hc k Hk Ep) as [-> | ->]; [lia|]. specialize (Hother ltac:(lia)). lia.
Qed.

(** * heap.Pop *)
Lemma tm_removelast : forall (l : list E) k, (k < length l - 1)%nat -> tm (removelast l) k = tm l k.
Proof.
  induction l as [|a l IH]; intros k Hk; simpl in *; [lia|].
  destruct l as [|b l']; simpl in *; [lia|].
  destruct k; [reflexivity|]. unfold tm in *. simpl. apply (IH k). simpl. lia.
Qed.

Lemma removelast_length : forall (l : list E), length (removelast l) = (length l - 1)%nat.
Proof.
  induction l as [|a l IH]; simpl; auto. destruct l; simpl in *; auto. rewrite IH. lia.
Qed.

Lemma hpop_heap : forall (l : list E) e r, heap_ok l -> hpop l = Some (e, r) -> heap_ok r.
Proof.
  intros l e r H P. unfold hpop in P. destruct l as [|d l0]; [discriminate|].
  set (n := (length (d :: l0) - 1)%nat) in *. set (l1 := swap 0 n (d :: l0)) in *.
  set (l2 := down (length (d :: l0)) l1 0 n) in *.
  assert (Er : r = removelast l2) by congruence. subst r. clear P.
  assert (Hn : n = length l0) by (unfold n; simpl; lia).
  assert (Hl1 : length l1 = S n) by (unfold l1; rewrite swap_length; simpl; lia).
  assert (HP : hp l2 n).
  { apply down_ok; [simpl; lia|lia|]. split.
    - intros k Hk Pk. unfold l1. rewrite !tm_swap by (simpl; lia).
      destruct (Nat.eqb_spec ((k - 1) / 2) n); [lia|]. destruct (Nat.eqb_spec ((k - 1) / 2) 0); [lia|].
      destruct (Nat.eqb_spec k n); [lia|]. destruct (Nat.eqb_spec k 0); [lia|].
      apply H. simpl. lia.
    - intros; lia. }
  assert (Hl2 : length l2 = S n) by (unfold l2; rewrite down_length; exact Hl1).
  intros k Hk. rewrite removelast_length, Hl2 in Hk.
  rewrite !tm_removelast by (rewrite Hl2; lia).
  apply HP. lia.
Qed.

Lemma heap_root_min : forall (l : list E), heap_ok l -> forall k, (k < length l)%nat -> (tm l 0 <= tm l k)%N.
Proof.
  intros l H k. induction k as [k IH] using lt_wf_ind. intros Hk.
  destruct k as [|k]; [lia|].
  pose proof (H (S k) ltac:(lia)) as Hp.
  pose proof (IH ((S k - 1) / 2)%nat ltac:(lia) ltac:(lia)). lia.
Qed.

Lemma heap_root_min_In : forall d (l : list E), heap_ok (d :: l) -> forall x, In x (d :: l) -> (ev_time d <= ev_time x)%N.
Proof.
  intros d l H x Hx. apply In_nth_error in Hx. destruct Hx as [k Hk].
  assert (Hlt : (k < length (d :: l))%nat) by (apply nth_error_Some; congruence).
  pose proof (heap_root_min H Hlt) as M. unfold tm in M. rewrite Hk in M. exact M.
Qed.

(** * Engine invariant *)
Definition sorted_times (h : list E) : Prop := StronglySorted N.le (map (@ev_time A) h).

Record inv (s : eng A) : Prop := {
  inv_q  : heap_ok (q s);
  inv_sq : heap_ok (sq s);
  inv_future : forall x, In x (q s ++ sq s) -> (now s <= ev_time x)%N;
  inv_sorted : sorted_times (handled s);
  inv_past : forall x, In x (handled s) -> (ev_time x <= now s)%N }.

Lemma sorted_snoc : forall (h : list E) e, sorted_times h -> (forall x, In x h -> (ev_time x <= ev_time e)%N) ->
  sorted_times (h ++ [e]).
Proof.
  unfold sorted_times. induction h as [|a h IH]; intros e S B; simpl.
  - constructor; constructor.
  - inversion S as [|? ? S' F]; subst. constructor.
    + apply IH; auto. intros; apply B; now right.
    + rewrite map_app. apply Forall_app. split; auto. constructor; [|constructor]. apply B. now left.
Qed.

Lemma init_inv : inv init.
Proof.
  constructor; simpl; try (intros k Hk; simpl in Hk; lia); try contradiction.
  - constructor.
Qed.

Lemma sched_inv : forall (s : eng A) e, inv s -> inv (sched e s).
Proof.
  intros s e I. unfold sched. destruct (crashed s); auto.
  destruct (N.ltb_spec (ev_time e) (now s)) as [Lt|Ge].
  - destruct I; constructor; auto.
  - destruct I as [Iq Is If Ih Ip]. destruct (ev_sec e); constructor; simpl; auto; try (apply hpush_heap; auto).
    + intros x Hx. apply in_app_or in Hx. destruct Hx as [Hx|Hx].
      * apply If, in_or_app; auto.
      * eapply Permutation_in in Hx; [|apply hpush_perm]. destruct Hx as [<-|Hx]; auto. apply If, in_or_app; auto.
    + intros x Hx. apply in_app_or in Hx. destruct Hx as [Hx|Hx].
      * eapply Permutation_in in Hx; [|apply hpush_perm]. destruct Hx as [<-|Hx]; auto. apply If, in_or_app; auto.
      * apply If, in_or_app; auto.
Qed.

(** what nextEvent returns is a minimum of both queues; a secondary event is
    only returned when every queued primary event is strictly later *)
Lemma next_event_min : forall (s : eng A) e q' sq', heap_ok (q s) -> heap_ok (sq s) ->
  next_event s = Some (e, q', sq') ->
  heap_ok q' /\ heap_ok sq' /\
  (forall x, In x (q s ++ sq s) -> (ev_time e <= ev_time x)%N) /\
  (q' = q s -> forall p, In p (q s) -> (ev_time e < ev_time p)%N).
Proof.
  intros s e q' sq' Hq Hs H. unfold next_event in H.
  destruct (q s) as [|p qq] eqn:Q.
  - destruct (sq s) as [|x xx] eqn:S; [simpl in H; discriminate|].
    destruct (hpop_returns_root x xx) as [r Hr]. rewrite Hr in H. injection H as <- <- <-.
    split; [assumption|]. split; [exact (hpop_heap Hs Hr)|]. split.
    + intros y Hy. simpl in Hy. apply (heap_root_min_In Hs). exact Hy.
    + intros _ y [].
  - destruct (sq s) as [|x xx] eqn:S.
    + destruct (hpop_returns_root p qq) as [r Hr]. rewrite Hr in H. injection H as <- <- <-.
      split; [exact (hpop_heap Hq Hr)|]. split; [assumption|]. split.
      * intros y Hy. rewrite app_nil_r in Hy. apply (heap_root_min_In Hq). exact Hy.
      * intros Eq. apply hpop_perm in Hr. apply Permutation_length in Hr. rewrite Eq in Hr. simpl in Hr. lia.
    + destruct (N.leb_spec (ev_time p) (ev_time x)) as [Le|Gt].
      * destruct (hpop_returns_root p qq) as [r Hr]. rewrite Hr in H. injection H as <- <- <-.
        split; [exact (hpop_heap Hq Hr)|]. split; [assumption|]. split.
        -- intros y Hy. apply in_app_or in Hy. destruct Hy as [Hy|Hy].
           ++ apply (heap_root_min_In Hq). exact Hy.
           ++ pose proof (heap_root_min_In Hs Hy). lia.
        -- intros Eq. apply hpop_perm in Hr. apply Permutation_length in Hr. rewrite Eq in Hr. simpl in Hr. lia.
      * destruct (hpop_returns_root x xx) as [r Hr]. rewrite Hr in H. injection H as <- <- <-.
        split; [assumption|]. split; [exact (hpop_heap Hs Hr)|]. split.
        -- intros y Hy. apply in_app_or in Hy. destruct Hy as [Hy|Hy].
           ++ pose proof (heap_root_min_In Hq Hy). lia.
           ++ apply (heap_root_min_In Hs). exact Hy.
        -- intros _ y Hy. pose proof (heap_root_min_In Hq Hy). lia.
Qed.

Lemma step_inv : forall s : eng A, inv s -> inv (step s).
Proof.
  intros s I. unfold step. destruct (crashed s); auto.
  destruct (next_event s) as [[[e q'] sq']|] eqn:N; auto.
  destruct I as [Iq Is If Ih Ip].
  destruct (next_event_min s Iq Is N) as (Hq' & Hs' & Hmin & _).
  pose proof (next_event_perm s N) as P.
  assert (Sub : forall x, In x (q' ++ sq') -> In x (q s ++ sq s)).
  { intros x Hx. eapply Permutation_in; [exact P|]. now right. }
  assert (He : In e (q s ++ sq s)) by (eapply Permutation_in; [exact P|now left]).
  destruct (N.ltb_spec (ev_time e) (now s)) as [Lt|Ge]; constructor; simpl; auto.
  - apply sorted_snoc; auto. intros x Hx. pose proof (Ip x Hx). lia.
  - intros x Hx. apply in_app_or in Hx. destruct Hx as [Hx|[<-|[]]]; [|lia]. pose proof (Ip x Hx). lia.
Qed.

Lemma exec_inv : forall ops : list (op A), inv (exec ops).
Proof.
  intros ops. unfold exec. generalize (@init_inv). generalize (@init A).
  induction ops as [|o ops IH]; intros s I; simpl; auto.
  apply IH. destruct o; simpl; [apply sched_inv|apply step_inv]; auto.
Qed.


End Order.
