(** Proof that the intended RDMA table sends every address of a device's
    driver range to that device, except the documented last page. *)
From Coq Require Import Lia ZifyN ZifyNat ZifyBool Arith.
From VLib Require Import Akita.
From VMem Require Import Rdma.
From VSys Require Import Routing.
Open Scope N_scope.

Lemma table_nth n i : nth i (table n) 0 = if (i <=? n)%nat then owner i else 0.
Proof.
  unfold table. destruct (i <=? n)%nat eqn:E.
  - apply Nat.leb_le in E.
    rewrite nth_indep with (d' := owner 0) by (rewrite map_length, seq_length; lia).
    rewrite (map_nth owner (seq 0 (S n)) 0%nat i). now rewrite seq_nth by lia.
  - apply Nat.leb_gt in E. apply nth_overflow. rewrite map_length, seq_length. lia.
Qed.

Lemma div_bank B k a : 0 < B -> k * B <= a < (k + 1) * B -> a / B = k.
Proof.
  intros HB H. symmetry. apply (N.div_unique a B k (a - k * B)); lia.
Qed.

Lemma routing_table_correct_proof B ps n k a :
  0 < ps -> ps <= B -> (k <= n)%nat ->
  N.of_nat k * B + ps <= a < (N.of_nat k + 1) * B + ps ->
  (a < (N.of_nat k + 1) * B -> route B n a = owner k) /\
  ((N.of_nat k + 1) * B <= a -> route B n a = if (k <? n)%nat then owner (S k) else 0).
Proof.
  intros Hps HB Hk Ha. assert (0 < B) by lia. unfold route, banked. split; intros H1.
  - rewrite (div_bank B (N.of_nat k) a) by lia. rewrite Nat2N.id, table_nth.
    destruct (k <=? n)%nat eqn:E; [reflexivity|apply Nat.leb_gt in E; lia].
  - rewrite (div_bank B (N.of_nat k + 1) a) by lia.
    replace (N.to_nat (N.of_nat k + 1)) with (S k) by lia. rewrite table_nth.
    destruct (k <? n)%nat eqn:E1, (S k <=? n)%nat eqn:E2; try reflexivity.
    + apply Nat.ltb_lt in E1. apply Nat.leb_gt in E2. lia.
    + apply Nat.ltb_ge in E1. apply Nat.leb_le in E2. lia.
Qed.

(** an entry swapped in the table sends a whole device's range elsewhere *)
Example swapped_table_misroutes :
  let bank := 4294967296 in
  banked bank [owner 0; owner 1; owner 3; owner 2; owner 4] (2 * bank + 4096) = owner 3 /\
  route bank 4 (2 * bank + 4096) = owner 2.
Proof. vm_compute. split; reflexivity. Qed.
