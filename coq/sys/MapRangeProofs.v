(** C05 — order-irrelevance lemmas for map-range loops (VSys.MapRange). *)
From Coq Require Import List NArith Bool Lia Permutation Sorted.
From VSys Require Import MapRange.
Import ListNotations.
Open Scope N_scope.

(** * Generic lemmas *)

(** A loop whose body commutes on the entries that are actually present gives
    the same final state for every iteration order. *)
Lemma fold_perm_invariant_in : forall (S E : Type) (f : S -> E -> S) (l l' : list E),
  Permutation l l' ->
  (forall s a b, In a l -> In b l -> f (f s a) b = f (f s b) a) ->
  forall s, fold_left f l s = fold_left f l' s.
Proof.
  intros S E f l l' P. induction P; intros C s; simpl; auto.
  - apply IHP. intros; apply C; simpl; auto.
  - rewrite C; simpl; auto.
  - rewrite IHP1 by auto. apply IHP2.
    intros s0 a b Ha Hb. apply C; eapply Permutation_in; try eassumption; apply Permutation_sym; assumption.
Qed.

Lemma fold_perm_invariant : forall (S E : Type) (f : S -> E -> S),
  (forall s a b, f (f s a) b = f (f s b) a) ->
  forall l l', Permutation l l' -> forall s, fold_left f l s = fold_left f l' s.
Proof. intros S E f C l l' P s. apply fold_perm_invariant_in; auto. Qed.

(** Two sorted lists with the same elements are equal: whatever order the keys
    were collected in, `sort.Strings(keys)` yields one list. *)
Lemma sorted_perm_unique : forall (A : Type) (le : A -> A -> Prop),
  (forall a b, le a b -> le b a -> a = b) ->
  forall l1 l2, StronglySorted le l1 -> StronglySorted le l2 -> Permutation l1 l2 -> l1 = l2.
Proof.
  intros A le anti l1. induction l1 as [|a l1 IH]; intros l2 S1 S2 P.
  - apply Permutation_nil in P. now subst.
  - destruct l2 as [|b l2]. { apply Permutation_sym, Permutation_nil in P. discriminate. }
    inversion S1 as [|? ? S1' F1]; subst. inversion S2 as [|? ? S2' F2]; subst.
    assert (a = b).
    { assert (Ia : In a (b :: l2)) by (eapply Permutation_in; [exact P|left; reflexivity]).
      assert (Ib : In b (a :: l1)) by (eapply Permutation_in; [apply Permutation_sym; exact P|left; reflexivity]).
      destruct Ia as [->|Ia]; auto. destruct Ib as [->|Ib]; auto.
      rewrite Forall_forall in F1, F2. apply anti; auto. }
    subst b. f_equal. apply IH; auto. eapply Permutation_cons_inv; eauto.
Qed.

(** * Instances *)

(** sums / counters *)
Lemma sum_order_irrelevant : forall (E : Type) (w : E -> N) l l' s,
  Permutation l l' -> sum_loop w l s = sum_loop w l' s.
Proof.
  intros. unfold sum_loop, range_loop. apply fold_perm_invariant; auto. intros; lia.
Qed.

(** find the unique element satisfying a predicate *)
Lemma find_unique_order_irrelevant : forall p devs devs',
  (forall a b, In a devs -> In b devs -> on_device p a = true -> on_device p b = true -> d_id a = d_id b) ->
  Permutation devs devs' ->
  device_id_by_paddr p devs = device_id_by_paddr p devs'.
Proof.
  intros p devs devs' U P. unfold device_id_by_paddr, range_loop.
  apply fold_perm_invariant_in; auto.
  intros s a b Ha Hb. unfold find_body. destruct s; auto.
  destruct (on_device p a) eqn:Pa, (on_device p b) eqn:Pb; auto; try (rewrite ?Pa, ?Pb; reflexivity).
  now rewrite (U a b Ha Hb Pa Pb).
Qed.

(** RegisterDevice lays the devices out one after the other, so an address lies
    on at most one of them. *)
Lemma layout_starts : forall regs total d, In d (layout regs total) -> total <= d_init d.
Proof.
  induction regs as [|[id sz] r IH]; intros total d H; simpl in H; [contradiction|].
  destruct H as [<-|H]; simpl; [lia|]. apply IH in H. lia.
Qed.

Lemma layout_unique : forall regs total p a b,
  NoDup (map fst regs) ->
  In a (layout regs total) -> In b (layout regs total) ->
  on_device p a = true -> on_device p b = true -> a = b.
Proof.
  induction regs as [|[id sz] r IH]; intros total p a b ND Ha Hb Pa Pb; simpl in *; [contradiction|].
  inversion ND; subst.
  pose proof Pa as Pa0. pose proof Pb as Pb0.
  unfold on_device in Pa, Pb. apply andb_true_iff in Pa, Pb. destruct Pa as [Pa1 Pa2], Pb as [Pb1 Pb2].
  apply N.leb_le in Pa1, Pb1. apply N.ltb_lt in Pa2, Pb2.
  destruct Ha as [<-|Ha], Hb as [<-|Hb]; auto.
  - apply layout_starts in Hb. simpl in *. lia.
  - apply layout_starts in Ha. simpl in *. lia.
  - eapply IH; eauto.
Qed.

Theorem device_lookup_order_irrelevant : forall regs p devs',
  NoDup (map fst regs) ->
  Permutation (layout regs 0) devs' ->
  device_id_by_paddr p (layout regs 0) = device_id_by_paddr p devs'.
Proof.
  intros regs p devs' ND P. apply find_unique_order_irrelevant; auto.
  intros a b Ha Hb Pa Pb. now rewrite (layout_unique regs 0 p a b ND Ha Hb Pa Pb).
Qed.

(** build a map from distinct keys *)
Section Build.
Context {K V : Type} (keq : K -> K -> bool) (keq_spec : forall a b, keq a b = true <-> a = b).

Lemma alookup_fold : forall conv (es : list (K * V)) m k,
  alookup keq k (fold_left (build_body conv) es m) =
  match alookup keq k (rev es) with
  | Some v => Some (conv v)
  | None => alookup keq k m
  end.
Proof.
  intros conv es. induction es as [|[k' v'] es IH]; intros m k; simpl; auto.
  rewrite IH. clear IH.
  assert (L : forall (l1 : list (K * V)) x,
             alookup keq k (l1 ++ [x]) = match alookup keq k l1 with Some v => Some v | None => alookup keq k [x] end).
  { induction l1 as [|[a b] l1 IHl]; intros x; simpl.
    - destruct x as [xa xb]. destruct (keq k xa); auto.
    - destruct (keq k a); auto. rewrite IHl. simpl. reflexivity. }
  rewrite L. destruct (alookup keq k (rev es)); auto. simpl. destruct (keq k k'); auto.
Qed.

Lemma alookup_nodup_in : forall (l : list (K * V)) k v,
  NoDup (map fst l) -> (alookup keq k l = Some v <-> In (k, v) l).
Proof.
  induction l as [|[a b] l IH]; intros k v ND; simpl.
  - split; [discriminate|contradiction].
  - inversion ND; subst. destruct (keq k a) eqn:E.
    + apply keq_spec in E. subst a. split.
      * intros [= ->]. now left.
      * intros [[= ->]|H]; auto. exfalso. apply H1. change k with (fst (k, v)). now apply in_map.
    + split.
      * intros H. right. now apply IH.
      * intros [HH|H]; [|now apply IH]. injection HH as Ha Hb. subst a.
        assert (keq k k = true) by now apply keq_spec. congruence.
Qed.

Lemma alookup_perm : forall (l l' : list (K * V)) k,
  NoDup (map fst l) -> Permutation l l' -> alookup keq k l = alookup keq k l'.
Proof.
  intros l l' k ND P.
  assert (ND' : NoDup (map fst l')) by (eapply Permutation_NoDup; [apply Permutation_map; exact P|exact ND]).
  destruct (alookup keq k l) eqn:E1.
  - apply alookup_nodup_in in E1; auto. symmetry. apply alookup_nodup_in; auto. eapply Permutation_in; eauto.
  - destruct (alookup keq k l') eqn:E2; auto.
    apply alookup_nodup_in in E2; auto.
    assert (In (k, v) l) by (eapply Permutation_in; [apply Permutation_sym; exact P|exact E2]).
    apply alookup_nodup_in in H; auto. congruence.
Qed.

(** The keys of a Go map are distinct: [NoDup (map fst entries)]. *)
Theorem map_build_order_irrelevant : forall conv tk tv (entries entries' : list (K * V)),
  NoDup (map fst entries) -> Permutation entries entries' ->
  forall k, alookup keq k (build_stack conv tk tv entries) = alookup keq k (build_stack conv tk tv entries').
Proof.
  intros conv tk tv es es' ND P k. unfold build_stack, range_loop. rewrite !alookup_fold.
  assert (alookup keq k (rev es) = alookup keq k (rev es')) as ->; auto.
  apply alookup_perm.
  - eapply Permutation_NoDup; [|exact ND]. apply Permutation_map, Permutation_rev.
  - eapply Permutation_trans; [apply Permutation_sym, Permutation_rev|].
    eapply Permutation_trans; [exact P|apply Permutation_rev].
Qed.
End Build.
