(** C01, part 1 — kernel-argument marshalling of amd/driver/kernel.go.

    Transcribed (definitions only, executable):
    - [prepareLocalMemory]: the argument struct is copied, the fields are
      visited in declaration order; a field whose type is [driver.LocalPtr]
      (a uint32 holding the requested LDS size) is overwritten by the running
      LDS offset, which starts at the code object's static
      [GroupSegmentByteSize] and grows by the requested size (uint32
      arithmetic, wraps); the final offset becomes the packet's
      [GroupSegmentSize].  Fields inside arrays are not visited.
    - [createAQLPacket]: grid / work-group sizes, code-object and kernarg
      addresses; every other packet field stays zero.
    - serialisation by [binary.Write(LittleEndian, ...)] in
      memorycopy.go [processMemCopyH2DCommand]: fields in declaration order,
      each as its little-endian bytes, no alignment gaps (the Go argument
      structs carry explicit padding fields instead).

    A struct is a list of typed fields.  Signed fields are given by their
    two's-complement bit pattern, which is what reaches the byte stream.
    float32 fields ([FF32], IEEE bits) are special: binary.Write obtains the
    value through reflect's Float() (float32 -> float64 -> float32), which
    turns a signalling NaN into the quiet NaN with the same payload; every
    other bit pattern passes unchanged. *)
From Coq Require Import List NArith Bool Lia.
Import ListNotations.
Open Scope N_scope.

(** a scalar of [w] bytes holding bit pattern [v]; an LDS pointer asking for
    [req] bytes; a fixed-size array of scalars (padding arrays, small vectors) *)
Inductive field :=
| FInt (w : nat) (v : N)
| FLocal (req : N)
| FArr (w : nat) (vs : list N)
| FF32 (bits : N).

Definition kstruct := list field.

Definition two32 : N := 4294967296.

(** little-endian bytes of [v], exactly [w] of them (higher bits dropped, as
    a Go conversion to the field's width does) *)
Fixpoint le_bytes (w : nat) (v : N) : list N :=
  match w with
  | O => []
  | S w' => (v mod 256) :: le_bytes w' (v / 256)
  end.

Fixpoint le_decode (bs : list N) : N :=
  match bs with
  | [] => 0
  | b :: r => b + 256 * le_decode r
  end.

(** float32 round trip through float64: a NaN gets its quiet bit (bit 22) set *)
Definition quiet32 (bits : N) : N :=
  let v := bits mod two32 in
  if N.eqb ((v / 8388608) mod 256) 255 && negb (N.eqb (v mod 8388608) 0)
  then N.lor v 4194304 else v.

Definition field_size (f : field) : nat :=
  match f with
  | FInt w _ => w
  | FLocal _ => 4
  | FArr w vs => w * length vs
  | FF32 _ => 4
  end.

Definition field_bytes (f : field) : list N :=
  match f with
  | FInt w v => le_bytes w v
  | FLocal v => le_bytes 4 v
  | FArr w vs => flat_map (le_bytes w) vs
  | FF32 v => le_bytes 4 (quiet32 v)
  end.

(** binary.Write of the whole struct *)
Definition serialize (fs : kstruct) : list N := flat_map field_bytes fs.

(** binary.Size *)
Definition struct_size (fs : kstruct) : nat := list_sum (map field_size fs).

(** byte offset of field [i] *)
Definition field_offset (fs : kstruct) (i : nat) : nat := struct_size (firstn i fs).

(** prepareLocalMemory: the field loop.  [lds] is the running offset. *)
Fixpoint patch (lds : N) (fs : kstruct) : kstruct * N :=
  match fs with
  | [] => ([], lds)
  | FLocal req :: r =>
      let '(r', l') := patch ((lds + req mod two32) mod two32) r in
      (FLocal lds :: r', l')
  | f :: r =>
      let '(r', l') := patch lds r in (f :: r', l')
  end.

(** what the kernel is meant to find in field [i] after patching: the LDS
    offset for an LDS pointer, the caller's value otherwise *)
Definition lds_before (static : N) (fs : kstruct) (i : nat) : N :=
  fold_left (fun a f => match f with FLocal r => (a + r mod two32) mod two32 | _ => a end)
            (firstn i fs) static.

Definition expected_field (static : N) (fs : kstruct) (i : nat) (f : field) : field :=
  match f with
  | FLocal _ => FLocal (lds_before static fs i)
  | _ => f
  end.

(** the dispatch packet (kernels.HsaKernelDispatchPacket, 64 bytes) *)
Record packet := mkPacket {
  p_header : N; p_setup : N;
  p_wgx : N; p_wgy : N; p_wgz : N; p_res0 : N;
  p_gx : N; p_gy : N; p_gz : N;
  p_private : N; p_group : N;
  p_kobj : N; p_kernarg : N; p_res2 : N; p_signal : N }.

Definition packet_fields (p : packet) : kstruct :=
  [FInt 2 (p_header p); FInt 2 (p_setup p);
   FInt 2 (p_wgx p); FInt 2 (p_wgy p); FInt 2 (p_wgz p); FInt 2 (p_res0 p);
   FInt 4 (p_gx p); FInt 4 (p_gy p); FInt 4 (p_gz p);
   FInt 4 (p_private p); FInt 4 (p_group p);
   FInt 8 (p_kobj p); FInt 8 (p_kernarg p); FInt 8 (p_res2 p); FInt 8 (p_signal p)].

Definition packet_bytes (p : packet) : list N := serialize (packet_fields p).

(** createAQLPacket followed by prepareLocalMemory's assignment *)
Definition create_packet (grid wg : N * N * N) (dco dkernarg : N) (group : N) : packet :=
  let '(gx, gy, gz) := grid in
  let '(wx, wy, wz) := wg in
  mkPacket 0 0 wx wy wz 0 gx gy gz 0 group dco dkernarg 0 0.

(** the marshalling step of EnqueueLaunchKernel: bytes copied to the kernarg
    buffer, bytes copied to the packet buffer, the packet itself *)
Definition marshal (static : N) (fs : kstruct) (grid wg : N * N * N) (dco dkernarg : N)
  : list N * packet :=
  let '(fs', lds) := patch (static mod two32) fs in
  (serialize fs', create_packet grid wg dco dkernarg lds).

(** a little-endian load of [n] bytes at byte offset [off] *)
Definition read_le (bs : list N) (off n : nat) : N := le_decode (firstn n (skipn off bs)).

(** ---- correspondence: one case = static size, fields, geometry, addresses,
    and what the driver produced (kernarg bytes, packet bytes, packet fields) *)
Record kcase := mkKCase {
  kc_static : N; kc_fields : kstruct;
  kc_grid : N * N * N; kc_wg : N * N * N; kc_dco : N; kc_dkernarg : N;
  kc_obs_args : list N; kc_obs_pkt : list N; kc_obs_group : N }.

Fixpoint list_eqb (a b : list N) : bool :=
  match a, b with
  | [], [] => true
  | x :: a', y :: b' => N.eqb x y && list_eqb a' b'
  | _, _ => false
  end.

(** 0 = agrees; 1 = kernarg bytes differ; 2 = packet bytes differ;
    3 = GroupSegmentSize differs *)
Definition check_kcase (c : kcase) : N :=
  let '(bs, p) := marshal (kc_static c) (kc_fields c) (kc_grid c) (kc_wg c) (kc_dco c) (kc_dkernarg c) in
  if negb (list_eqb bs (kc_obs_args c)) then 1
  else if negb (list_eqb (packet_bytes p) (kc_obs_pkt c)) then 2
  else if negb (N.eqb (p_group p) (kc_obs_group c)) then 3 else 0.

Fixpoint kmismatches_from (i : N) (cs : list kcase) : list (N * N) :=
  match cs with
  | [] => []
  | c :: r => let d := check_kcase c in
              (if N.eqb d 0 then [] else [(i, d)]) ++ kmismatches_from (i + 1) r
  end.
Definition kmismatches := kmismatches_from 0.
