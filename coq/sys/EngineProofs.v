(** C05 — proofs about the serial-engine model (VSys.Engine).

    Main result ([exec_parametric]): the engine treats events as opaque.  If two
    sequences of operations (Schedule calls and loop iterations) agree on the
    keys (time, secondary flag) position by position, then the two engines go
    through related states: the same events -- by position of their Schedule
    call -- are handled in the same order, whatever the payloads (handler,
    identity, address) are.  Everything the handling order depends on is
    therefore: the sequence of keys, the heap algorithm of container/heap and
    the two-queue rule of nextEvent.  *)
From Coq Require Import List NArith Bool Arith Lia Permutation.
From VSys Require Import Engine.
Import ListNotations.

Set Implicit Arguments.

Lemma F2_length : forall A B (P : A -> B -> Prop) l1 l2, Forall2 P l1 l2 -> length l1 = length l2.
Proof. intros A B P l1 l2 H. induction H; simpl; auto. Qed.

Section Rel.
(** [ER] relates events of two engines; all it must guarantee is equal keys. *)
Context (A B : Type) (ER : event A -> event B -> Prop)
        (ER_key : forall a b, ER a b -> ev_time a = ev_time b /\ ev_sec a = ev_sec b).

Notation LR := (Forall2 ER).

Lemma LR_nth : forall l1 l2 i, LR l1 l2 ->
  match nth_error l1 i, nth_error l2 i with
  | Some a, Some b => ER a b
  | None, None => True
  | _, _ => False
  end.
Proof.
  intros l1 l2 i H. revert i. induction H; intros [|i]; simpl; auto. apply IHForall2.
Qed.

Lemma LR_upd : forall l1 l2 i a b, LR l1 l2 -> ER a b -> LR (upd i a l1) (upd i b l2).
Proof.
  intros l1 l2 i a b H. revert i. induction H; intros [|i] Hab; simpl; auto.
Qed.

Lemma LR_swap : forall l1 l2 i j, LR l1 l2 -> LR (swap i j l1) (swap i j l2).
Proof.
  intros l1 l2 i j H. unfold swap.
  pose proof (LR_nth i H) as Hi. pose proof (LR_nth j H) as Hj.
  destruct (nth_error l1 i), (nth_error l2 i); try contradiction; auto.
  destruct (nth_error l1 j), (nth_error l2 j); try contradiction; auto.
  apply LR_upd; auto. apply LR_upd; auto.
Qed.

Lemma LR_less : forall l1 l2 i j, LR l1 l2 -> less l1 i j = less l2 i j.
Proof.
  intros l1 l2 i j H. unfold less.
  pose proof (LR_nth i H) as Hi. pose proof (LR_nth j H) as Hj.
  destruct (nth_error l1 i), (nth_error l2 i); try contradiction; auto.
  destruct (nth_error l1 j), (nth_error l2 j); try contradiction; auto.
  destruct (ER_key Hi) as [Hi' _], (ER_key Hj) as [Hj' _]. now rewrite Hi', Hj'.
Qed.

Lemma LR_up : forall fuel l1 l2 j, LR l1 l2 -> LR (up fuel l1 j) (up fuel l2 j).
Proof.
  induction fuel; intros l1 l2 j H; cbn [up]; auto.
  rewrite (LR_less j (Nat.div (j - 1) 2) H).
  destruct (_ || _); auto. apply IHfuel. now apply LR_swap.
Qed.

Lemma LR_down : forall fuel l1 l2 i n, LR l1 l2 -> LR (down fuel l1 i n) (down fuel l2 i n).
Proof.
  induction fuel; intros l1 l2 i n H; cbn [down]; auto.
  destruct (Nat.leb n (2 * i + 1)); auto.
  rewrite (LR_less (2 * i + 1 + 1) (2 * i + 1) H).
  match goal with |- context [if ?c then 2 * i + 1 + 1 else _] => destruct c end.
  - rewrite (LR_less (2 * i + 1 + 1) i H). destruct (negb _); auto. apply IHfuel. now apply LR_swap.
  - rewrite (LR_less (2 * i + 1) i H). destruct (negb _); auto. apply IHfuel. now apply LR_swap.
Qed.

Lemma LR_hpush : forall l1 l2 a b, LR l1 l2 -> ER a b -> LR (hpush a l1) (hpush b l2).
Proof.
  intros l1 l2 a b H Hab. unfold hpush. rewrite (F2_length H).
  apply LR_up. apply Forall2_app; auto.
Qed.

Lemma LR_removelast : forall l1 l2, LR l1 l2 -> LR (removelast l1) (removelast l2).
Proof.
  intros l1 l2 H. induction H; simpl; auto.
  destruct H0; auto.
Qed.

Lemma LR_last : forall l1 l2 d1 d2, LR l1 l2 -> ER d1 d2 -> ER (last l1 d1) (last l2 d2).
Proof.
  intros l1 l2 d1 d2 H Hd. induction H; simpl; auto.
  destruct H0; auto.
Qed.

Definition pop_rel (r1 : option (event A * list (event A))) (r2 : option (event B * list (event B))) : Prop :=
  match r1, r2 with
  | Some (a, l1), Some (b, l2) => ER a b /\ LR l1 l2
  | None, None => True
  | _, _ => False
  end.

Lemma LR_hpop : forall l1 l2, LR l1 l2 -> pop_rel (hpop l1) (hpop l2).
Proof.
  intros l1 l2 H. unfold hpop. pose proof (F2_length H) as Hl.
  destruct H as [|a b l1 l2 Hab H]; simpl; auto.
  simpl in Hl. injection Hl as Hl. rewrite Hl.
  assert (HH : LR (a :: l1) (b :: l2)) by (constructor; auto).
  pose proof (LR_down (S (length l2)) 0 (length l2 - 0) (LR_swap 0 (length l2 - 0) HH)) as Hd.
  split.
  - apply LR_last; auto.
  - apply LR_removelast; auto.
Qed.

(** Engine states *)
Definition eng_rel (s1 : eng A) (s2 : eng B) : Prop :=
  now s1 = now s2 /\ LR (q s1) (q s2) /\ LR (sq s1) (sq s2) /\
  LR (handled s1) (handled s2) /\ crashed s1 = crashed s2.

Lemma init_rel : eng_rel init init.
Proof. repeat split; constructor. Qed.

Lemma sched_rel : forall s1 s2 a b, eng_rel s1 s2 -> ER a b -> eng_rel (sched a s1) (sched b s2).
Proof.
  intros s1 s2 a b (Hn & Hq & Hs & Hh & Hc) Hab. unfold sched.
  rewrite <- Hc. destruct (crashed s1) eqn:C. { unfold eng_rel. intuition congruence. }
  destruct (ER_key Hab) as (Ht & Hsec). rewrite <- Ht, <- Hn, <- Hsec.
  destruct (N.ltb (ev_time a) (now s1)). { unfold eng_rel; simpl. intuition congruence. }
  destruct (ev_sec a) eqn:Es; unfold eng_rel; simpl; intuition auto; apply LR_hpush; auto.
Qed.

Definition next_rel (r1 : option (event A * list (event A) * list (event A)))
                    (r2 : option (event B * list (event B) * list (event B))) : Prop :=
  match r1, r2 with
  | Some (a, q1, s1), Some (b, q2, s2) => ER a b /\ LR q1 q2 /\ LR s1 s2
  | None, None => True
  | _, _ => False
  end.

Lemma next_event_rel : forall s1 s2, eng_rel s1 s2 -> next_rel (next_event s1) (next_event s2).
Proof.
  intros s1 s2 (Hn & Hq & Hs & Hh & Hc). unfold next_event.
  pose proof (LR_hpop Hq) as Pq. pose proof (LR_hpop Hs) as Ps.
  destruct Hq as [|p1 p2 q1 q2 Hp Hq].
  - unfold pop_rel in Ps. destruct (hpop (sq s1)) as [[a l1]|], (hpop (sq s2)) as [[b l2]|]; try contradiction; simpl; auto.
    destruct Ps. auto.
  - destruct Hs as [|x1 x2 r1 r2 Hx Hs].
    + unfold pop_rel in Pq.
      destruct (hpop (p1 :: q1)) as [[a l1]|], (hpop (p2 :: q2)) as [[b l2]|]; try contradiction; simpl; auto.
      destruct Pq. auto.
    + destruct (ER_key Hp) as (Hpt & _). destruct (ER_key Hx) as (Hxt & _). rewrite <- Hpt, <- Hxt.
      destruct (N.leb (ev_time p1) (ev_time x1)).
      * unfold pop_rel in Pq.
        destruct (hpop (p1 :: q1)) as [[a l1]|], (hpop (p2 :: q2)) as [[b l2]|]; try contradiction; simpl; auto.
        destruct Pq. auto.
      * unfold pop_rel in Ps.
        destruct (hpop (x1 :: r1)) as [[a l1]|], (hpop (x2 :: r2)) as [[b l2]|]; try contradiction; simpl; auto.
        destruct Ps. auto.
Qed.

Lemma step_rel : forall s1 s2, eng_rel s1 s2 -> eng_rel (step s1) (step s2).
Proof.
  intros s1 s2 H. pose proof (next_event_rel H) as Hne.
  destruct H as (Hn & Hq & Hs & Hh & Hc). unfold step. rewrite <- Hc.
  destruct (crashed s1) eqn:C. { unfold eng_rel. intuition congruence. }
  unfold next_rel in Hne.
  destruct (next_event s1) as [[[a q1] r1]|], (next_event s2) as [[[b q2] r2]|]; try contradiction.
  - destruct Hne as (Hab & Hq' & Hs'). destruct (ER_key Hab) as (Ht & _).
    rewrite <- Ht, <- Hn. destruct (N.ltb (ev_time a) (now s1)); unfold eng_rel; simpl; intuition auto.
    apply Forall2_app; auto.
  - unfold eng_rel. intuition congruence.
Qed.

Definition op_rel (o1 : op A) (o2 : op B) : Prop :=
  match o1, o2 with
  | Sched a, Sched b => ER a b
  | Step, Step => True
  | _, _ => False
  end.

Lemma apply_rel : forall s1 s2 o1 o2, eng_rel s1 s2 -> op_rel o1 o2 -> eng_rel (apply s1 o1) (apply s2 o2).
Proof.
  intros s1 s2 [a|] [b|] H Ho; simpl in *; try contradiction.
  - now apply sched_rel.
  - now apply step_rel.
Qed.

Lemma fold_apply_rel : forall ops1 ops2 s1 s2, Forall2 op_rel ops1 ops2 -> eng_rel s1 s2 ->
  eng_rel (fold_left (@apply A) ops1 s1) (fold_left (@apply B) ops2 s2).
Proof.
  intros ops1 ops2 s1 s2 H. revert s1 s2. induction H; intros s1 s2 Hs; simpl; auto.
  apply IHForall2. now apply apply_rel.
Qed.

Theorem exec_parametric : forall ops1 ops2, Forall2 op_rel ops1 ops2 -> eng_rel (exec ops1) (exec ops2).
Proof. intros. apply fold_apply_rel; auto. apply init_rel. Qed.

End Rel.

(** The instance used in statements: same key, payloads related by [R]. *)
Definition ev_rel {A B} (R : A -> B -> Prop) (a : event A) (b : event B) : Prop :=
  ev_time a = ev_time b /\ ev_sec a = ev_sec b /\ R (ev_data a) (ev_data b).

Lemma ev_rel_key : forall A B (R : A -> B -> Prop) a b, ev_rel R a b -> ev_time a = ev_time b /\ ev_sec a = ev_sec b.
Proof. unfold ev_rel. tauto. Qed.

(** * The handling order is the function [order] of the key sequence *)

Definition at_index {A} (all : list (event A)) (e : event A) (lab : event nat) : Prop :=
  nth_error all (ev_data lab) = Some e /\ ev_time e = ev_time lab /\ ev_sec e = ev_sec lab.

Lemma at_index_key : forall A (all : list (event A)) a b, at_index all a b -> ev_time a = ev_time b /\ ev_sec a = ev_sec b.
Proof. unfold at_index. tauto. Qed.

Lemma label_rel : forall A (ops : list (op A)) n pre,
  length pre = n ->
  Forall2 (op_rel (at_index (pre ++ pushes ops))) ops (label_from n (map (@op_key A) ops)).
Proof.
  intros A ops. induction ops as [|[e|] ops IH]; intros n pre Hn; simpl; constructor.
  - simpl. unfold at_index. simpl. repeat split. rewrite nth_error_app2 by lia. rewrite Hn, Nat.sub_diag. reflexivity.
  - replace (pre ++ e :: pushes ops) with ((pre ++ [e]) ++ pushes ops) by (rewrite <- app_assoc; reflexivity).
    apply IH. rewrite app_length. simpl. lia.
  - exact I.
  - apply IH; auto.
Qed.

Theorem handled_follow_order : forall A (ops : list (op A)),
  Forall2 (fun e i => nth_error (pushes ops) i = Some e)
          (handled (exec ops)) (order (map (@op_key A) ops)).
Proof.
  intros A ops.
  pose proof (exec_parametric (@at_index_key A (pushes ops)) (@label_rel A ops 0 [] eq_refl)) as (_ & _ & _ & Hh & _).
  unfold order.
  remember (handled (exec ops)) as h1. remember (handled (exec (label_from 0 (map (@op_key A) ops)))) as h2.
  clear Heqh1 Heqh2. induction Hh; simpl; constructor; auto.
  destruct H as (H & _). exact H.
Qed.

(** same keys => related operation sequences, whatever the payloads *)
Lemma key_rel : forall A B (ops1 : list (op A)) (ops2 : list (op B)),
  map (@op_key A) ops1 = map (@op_key B) ops2 -> Forall2 (op_rel (ev_rel (fun _ _ => True))) ops1 ops2.
Proof.
  intros A B ops1. induction ops1 as [|o1 ops1 IH]; intros [|o2 ops2] H; simpl in H; try discriminate; constructor.
  - destruct o1, o2; simpl in *; try discriminate; auto. injection H as H1 H2 _. repeat split; auto.
  - apply IH. now injection H.
Qed.

(** * Heap operations do not create or lose events *)

Lemma upd_length : forall A i (x : event A) l, length (upd i x l) = length l.
Proof. intros A i x l. revert i. induction l; intros [|i]; simpl; auto. Qed.

Lemma upd_nth_perm : forall A (l : list (event A)) i j a b,
  nth_error l i = Some a -> nth_error l j = Some b ->
  Permutation (upd j a (upd i b l)) l.
Proof.
  intros A l. induction l as [|x l IH]; intros i j a b Hi Hj.
  - destruct i; discriminate.
  - destruct i as [|i], j as [|j]; simpl in *.
    + injection Hi as ->. injection Hj as ->. reflexivity.
    + injection Hi as ->.
      (* b :: upd j a l  ~  a :: l  with l[j] = b *)
      clear IH. revert j Hj. induction l as [|y l IHl]; intros [|j] Hj; simpl in *; try discriminate.
      * injection Hj as ->. apply perm_swap.
      * eapply perm_trans; [apply perm_swap|].
        eapply perm_trans; [apply perm_skip, IHl, Hj|]. apply perm_swap.
    + injection Hj as ->.
      clear IH. revert i Hi. induction l as [|y l IHl]; intros [|i] Hi; simpl in *; try discriminate.
      * injection Hi as ->. apply perm_swap.
      * eapply perm_trans; [apply perm_swap|].
        eapply perm_trans; [apply perm_skip, IHl, Hi|]. apply perm_swap.
    + apply perm_skip. eapply IH; eauto.
Qed.

Lemma swap_perm : forall A i j (l : list (event A)), Permutation (swap i j l) l.
Proof.
  intros A i j l. unfold swap.
  destruct (nth_error l i) eqn:Hi; [|reflexivity]. destruct (nth_error l j) eqn:Hj; [|reflexivity].
  eapply upd_nth_perm; eauto.
Qed.

Lemma up_perm : forall A fuel (l : list (event A)) j, Permutation (up fuel l j) l.
Proof.
  induction fuel; intros l j; cbn [up]; [reflexivity|].
  destruct (_ || _); [reflexivity|]. eapply perm_trans; [apply IHfuel|apply swap_perm].
Qed.

Lemma down_perm : forall A fuel (l : list (event A)) i n, Permutation (down fuel l i n) l.
Proof.
  induction fuel; intros l i n; cbn [down]; [reflexivity|].
  destruct (Nat.leb _ _); [reflexivity|].
  match goal with |- context [negb (less l ?j i)] => destruct (negb (less l j i)); [reflexivity|] end.
  eapply perm_trans; [apply IHfuel|apply swap_perm].
Qed.

Lemma hpush_perm : forall A (e : event A) l, Permutation (hpush e l) (e :: l).
Proof.
  intros. unfold hpush. eapply perm_trans; [apply up_perm|].
  apply Permutation_sym, Permutation_cons_append.
Qed.

Lemma hpop_perm : forall A (l : list (event A)) e r, hpop l = Some (e, r) -> Permutation (e :: r) l.
Proof.
  intros A l e r H. unfold hpop in H. destruct l as [|d l0]; [discriminate|].
  remember (down _ _ _ _) as l2. injection H as <- <-.
  assert (P : Permutation l2 (d :: l0)).
  { subst l2. eapply perm_trans; [apply down_perm|apply swap_perm]. }
  assert (l2 <> []).
  { intro E. rewrite E in P. apply Permutation_nil in P. discriminate. }
  rewrite (app_removelast_last d H) in P at 1.
  eapply perm_trans; [|exact P].
  apply Permutation_cons_append.
Qed.

(** * Hand-off: pausing the engine at iteration k of its trailing events *)

Lemma no_more_step : forall A (s : eng A), no_more s = true -> step s = s.
Proof.
  intros A s H. unfold no_more in H. unfold step, next_event.
  destruct (q s); [|discriminate]. destruct (sq s); [|discriminate]. simpl.
  destruct (crashed s); reflexivity.
Qed.

Lemma run_all_stable : forall k j tbl s,
  no_more (run_all k tbl s) = true -> run_all (k + j) tbl s = run_all k tbl s.
Proof.
  induction k; intros j tbl s H; simpl in *.
  - destruct j; simpl; auto. rewrite H. now rewrite orb_true_r.
  - destruct (crashed s || no_more s) eqn:C; auto.
    destruct (crashed (step s)) eqn:C1; auto.
Qed.

Lemma run_all_drained_eq : forall k1 k2 tbl s,
  no_more (run_all k1 tbl s) = true -> no_more (run_all k2 tbl s) = true ->
  run_all k1 tbl s = run_all k2 tbl s.
Proof.
  intros k1 k2 tbl s H1 H2. destruct (Nat.le_ge_cases k1 k2) as [L|L].
  - replace k2 with (k1 + (k2 - k1)) by lia. symmetry. now apply run_all_stable.
  - replace k1 with (k2 + (k1 - k2)) by lia. now apply run_all_stable.
Qed.
