(** The RDMA address table of the timing platform
    (amd/samples/runner/timingconfig/builder.go: createRDMAAddressMapper,
    configRDMAEngine) against the physical ranges the driver hands out
    (driver.RegisterGPU / internal.MemoryAllocator.RegisterDevice).
    Definitions only; proofs are in RoutingProofs.v. *)
From VLib Require Import Akita.
From VMem Require Import Rdma.
Open Scope N_scope.

(** Owner codes used by the harness: 1000 = "CPU", 1000+k = a port of GPU k. *)
Definition owner (k : nat) : N := 1000 + N.of_nat k.

(** The table the builder is meant to produce for n GPUs: bank i belongs to
    device i, [CPU; GPU 1; ...; GPU n] (LowModules of a
    mem.BankedAddressPortMapper with BankSize = the DRAM size). *)
Definition table (n : nat) : list N := map owner (seq 0 (S n)).

(** RemoteRDMAAddressTable.Find on that table; 0 = index out of range (panic). *)
Definition route (bank : N) (n : nat) (a : N) : N := banked bank (table n) a.

(** Correspondence record: the table found in a platform built by the real
    timingconfig builder for [r_n] GPUs. *)
Record rcase := mkRCase { r_bank : N; r_n : nat; r_mods : list N }.

Definition check_rcase (c : rcase) : bool :=
  negb (r_bank c =? 0) && list_eqb N.eqb (r_mods c) (table (r_n c)).

Fixpoint rbad_from (i : nat) (cs : list rcase) : list (nat * nat) :=
  match cs with
  | [] => []
  | c :: r => if check_rcase c then rbad_from (S i) r else (i, 0%nat) :: rbad_from (S i) r
  end.
Definition rmismatches := rbad_from 0.
