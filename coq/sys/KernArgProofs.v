(** Proofs about the kernel-argument marshalling model (VSys.KernArg). *)
From Coq Require Import List Arith NArith Bool Lia ZifyN ZifyNat ZifyBool.
From VSys Require Import KernArg.
Import ListNotations.
Open Scope N_scope.

Lemma le_bytes_length w v : length (le_bytes w v) = w.
Proof. revert v; induction w; simpl; intros; auto. Qed.

Lemma le_bytes_byte w v b : In b (le_bytes w v) -> b < 256.
Proof.
  revert v; induction w; simpl; intros v H; [tauto|].
  destruct H as [<-|H]; [apply N.mod_lt; lia|eauto].
Qed.

Lemma le_decode_le_bytes w v : le_decode (le_bytes w v) = v mod (256 ^ N.of_nat w).
Proof.
  revert v; induction w; intros v.
  - simpl. rewrite N.mod_1_r. reflexivity.
  - cbn [le_bytes le_decode]. rewrite IHw.
    replace (N.of_nat (S w)) with (N.succ (N.of_nat w)) by lia.
    rewrite N.pow_succ_r by lia.
    rewrite N.mod_mul_r by (try apply N.pow_nonzero; lia). lia.
Qed.

Lemma le_decode_small w v : v < 256 ^ N.of_nat w -> le_decode (le_bytes w v) = v.
Proof. intros. rewrite le_decode_le_bytes. apply N.mod_small; auto. Qed.

Lemma flat_map_le_bytes_length w vs : length (flat_map (le_bytes w) vs) = (w * length vs)%nat.
Proof. induction vs; simpl; [lia|]. rewrite app_length, le_bytes_length, IHvs. lia. Qed.

Lemma field_bytes_length f : length (field_bytes f) = field_size f.
Proof.
  destruct f; simpl; auto using le_bytes_length, flat_map_le_bytes_length.
Qed.

Lemma serialize_app a b : serialize (a ++ b) = serialize a ++ serialize b.
Proof. apply flat_map_app. Qed.

Lemma struct_size_app a b : struct_size (a ++ b) = (struct_size a + struct_size b)%nat.
Proof. unfold struct_size. rewrite map_app, list_sum_app. reflexivity. Qed.

Lemma serialize_length fs : length (serialize fs) = struct_size fs.
Proof.
  induction fs as [|f r IH]; auto. unfold struct_size, serialize in *. cbn [flat_map map list_sum].
  rewrite app_length, field_bytes_length, IH. reflexivity.
Qed.

Lemma serialize_bytes fs b : In b (serialize fs) -> b < 256.
Proof.
  unfold serialize. intros H. apply in_flat_map in H. destruct H as (f & _ & Hb).
  destruct f; cbn [field_bytes] in Hb; eauto using le_bytes_byte.
  apply in_flat_map in Hb. destruct Hb as (x & _ & Hb). eauto using le_bytes_byte.
Qed.

Lemma nth_error_split_at {A} (l : list A) i x :
  nth_error l i = Some x -> l = firstn i l ++ x :: skipn (S i) l.
Proof.
  revert i; induction l; intros [|i] H; simpl in *; try discriminate.
  - inversion H; reflexivity.
  - f_equal. apply IHl; auto.
Qed.

(** the bytes of field [i] sit exactly at [field_offset fs i] *)
Lemma field_slice fs i f :
  nth_error fs i = Some f ->
  firstn (field_size f) (skipn (field_offset fs i) (serialize fs)) = field_bytes f.
Proof.
  intros H. pose proof (nth_error_split_at _ _ _ H) as E.
  rewrite E at 2. rewrite serialize_app. unfold field_offset.
  rewrite <- (serialize_length (firstn i fs)).
  rewrite skipn_app, skipn_all, Nat.sub_diag. simpl.
  rewrite <- field_bytes_length. unfold serialize at 1; simpl. fold (serialize (skipn (S i) fs)).
  rewrite firstn_app, firstn_all, Nat.sub_diag. simpl. apply app_nil_r.
Qed.

Lemma field_offset_bound fs i f :
  nth_error fs i = Some f -> (field_offset fs i + field_size f <= struct_size fs)%nat.
Proof.
  intros H. pose proof (nth_error_split_at _ _ _ H) as E.
  rewrite E at 2. unfold field_offset. rewrite struct_size_app. unfold struct_size at 3. simpl. lia.
Qed.

(** ---- the LDS patching loop *)
Definition sum_local (fs : kstruct) : N :=
  fold_right (fun f a => match f with FLocal r => r mod two32 + a | _ => a end) 0 fs.

Lemma patch_length l fs : length (fst (patch l fs)) = length fs.
Proof.
  revert l; induction fs as [|f r IH]; intros l; simpl; auto.
  destruct f; simpl.
  - specialize (IH l). destruct (patch l r); simpl in *; lia.
  - specialize (IH ((l + req mod two32) mod two32)). destruct (patch _ r); simpl in *; lia.
  - specialize (IH l). destruct (patch l r); simpl in *; lia.
  - specialize (IH l). destruct (patch l r); simpl in *; lia.
Qed.

Lemma patch_nth l fs i f :
  nth_error fs i = Some f ->
  nth_error (fst (patch l fs)) i = Some (expected_field l fs i f).
Proof.
  revert l i; induction fs as [|f0 r IH]; intros l i H; [destruct i; discriminate|].
  destruct i as [|i]; simpl in H.
  - inversion H; subst f0. destruct f; simpl; try (destruct (patch _ r); reflexivity).
  - destruct f0; simpl.
    + specialize (IH l i H). destruct (patch l r); simpl in *. rewrite IH.
      unfold expected_field, lds_before. simpl. reflexivity.
    + specialize (IH ((l + req mod two32) mod two32) i H). destruct (patch _ r); simpl in *. rewrite IH.
      unfold expected_field, lds_before. simpl. reflexivity.
    + specialize (IH l i H). destruct (patch l r); simpl in *. rewrite IH.
      unfold expected_field, lds_before. simpl. reflexivity.
    + specialize (IH l i H). destruct (patch l r); simpl in *. rewrite IH.
      unfold expected_field, lds_before. simpl. reflexivity.
Qed.

Lemma patch_final l fs : snd (patch l fs) = lds_before l fs (length fs).
Proof.
  revert l; induction fs as [|f r IH]; intros l; simpl; auto.
  destruct f; unfold lds_before; simpl.
  - specialize (IH l). destruct (patch l r); simpl in *. exact IH.
  - specialize (IH ((l + req mod two32) mod two32)). destruct (patch _ r); simpl in *. exact IH.
  - specialize (IH l). destruct (patch l r); simpl in *. exact IH.
  - specialize (IH l). destruct (patch l r); simpl in *. exact IH.
Qed.

Lemma expected_field_size l fs i f : field_size (expected_field l fs i f) = field_size f.
Proof. destruct f; reflexivity. Qed.

Lemma patch_sizes l fs : map field_size (fst (patch l fs)) = map field_size fs.
Proof.
  revert l; induction fs as [|f r IH]; intros l; simpl; auto.
  destruct f; simpl.
  - specialize (IH l). destruct (patch l r); simpl in *; congruence.
  - specialize (IH ((l + req mod two32) mod two32)). destruct (patch _ r); simpl in *; congruence.
  - specialize (IH l). destruct (patch l r); simpl in *; congruence.
  - specialize (IH l). destruct (patch l r); simpl in *; congruence.
Qed.

Lemma patch_struct_size l fs : struct_size (fst (patch l fs)) = struct_size fs.
Proof. unfold struct_size. rewrite patch_sizes. reflexivity. Qed.

Lemma patch_offset l fs i : field_offset (fst (patch l fs)) i = field_offset fs i.
Proof.
  unfold field_offset, struct_size. rewrite <- !firstn_map, patch_sizes. reflexivity.
Qed.

Lemma two32_pos : two32 <> 0. Proof. discriminate. Qed.

Lemma lds_before_fold l fs :
  l < two32 ->
  fold_left (fun a f => match f with FLocal r => (a + r mod two32) mod two32 | _ => a end) fs l
  = (l + sum_local fs) mod two32.
Proof.
  revert l; induction fs as [|f r IH]; intros l Hl; simpl.
  - rewrite N.add_0_r, N.mod_small; auto.
  - destruct f; try (apply IH; auto).
    rewrite IH by (apply N.mod_lt; discriminate).
    rewrite N.add_mod_idemp_l by discriminate. f_equal. lia.
Qed.

Lemma lds_before_closed l fs i :
  l < two32 -> lds_before l fs i = (l + sum_local (firstn i fs)) mod two32.
Proof. intros. unfold lds_before. apply lds_before_fold; auto. Qed.

Lemma quiet32_lt v : quiet32 v < two32.
Proof.
  unfold quiet32. assert (H : v mod two32 < two32) by (apply N.mod_lt; discriminate).
  destruct (_ && _); auto.
  destruct (N.eq_dec (N.lor (v mod two32) 4194304) 0) as [E|E]; [rewrite E; reflexivity|].
  change two32 with (2 ^ 32) in *. apply N.log2_lt_pow2; [lia|].
  rewrite N.log2_lor. apply N.max_lub_lt.
  - destruct (N.eq_dec (v mod 2 ^ 32) 0) as [Hz|Hz]; [rewrite Hz; reflexivity|].
    apply N.log2_lt_pow2; [lia|exact H].
  - reflexivity.
Qed.

(** a bit pattern that is not a NaN is passed unchanged *)
Lemma quiet32_not_nan v :
  v < two32 -> ((v / 8388608) mod 256 <> 255 \/ v mod 8388608 = 0) -> quiet32 v = v.
Proof.
  intros Hv H. unfold quiet32. rewrite (N.mod_small v two32) by auto.
  destruct H as [H|H].
  - apply N.eqb_neq in H. rewrite H. reflexivity.
  - rewrite H. simpl. rewrite andb_false_r. reflexivity.
Qed.

(** ---- the statement used by props/C01.v *)
Lemma marshal_exact static fs grid wg dco dk :
  let s := static mod two32 in
  let bs := fst (marshal static fs grid wg dco dk) in
  let p := snd (marshal static fs grid wg dco dk) in
  length bs = struct_size fs /\
  (forall i f, nth_error fs i = Some f ->
     (field_offset fs i + field_size f <= struct_size fs)%nat /\
     firstn (field_size f) (skipn (field_offset fs i) bs) = field_bytes (expected_field s fs i f)) /\
  (forall i w v, nth_error fs i = Some (FInt w v) ->
     read_le bs (field_offset fs i) w = v mod 256 ^ N.of_nat w) /\
  (forall i r, nth_error fs i = Some (FLocal r) ->
     read_le bs (field_offset fs i) 4 = (s + sum_local (firstn i fs)) mod two32) /\
  (forall i v, nth_error fs i = Some (FF32 v) ->
     read_le bs (field_offset fs i) 4 = quiet32 v) /\
  p_group p = (s + sum_local fs) mod two32 /\
  p = create_packet grid wg dco dk (p_group p).
Proof.
  intros s bs p. subst bs p. unfold marshal. fold s.
  pose proof (patch_struct_size s fs) as Hsz.
  pose proof (patch_final s fs) as Hfin.
  assert (Hs : s < two32) by (apply N.mod_lt; discriminate).
  assert (Hslice : forall i f, nth_error fs i = Some f ->
     firstn (field_size f) (skipn (field_offset fs i) (serialize (fst (patch s fs)))) =
     field_bytes (expected_field s fs i f)).
  { intros i f H. pose proof (patch_nth s fs i f H) as Hn.
    pose proof (field_slice _ _ _ Hn) as Hsl. rewrite expected_field_size, patch_offset in Hsl. exact Hsl. }
  destruct (patch s fs) as [fs' lds] eqn:E. simpl in *.
  repeat split.
  - rewrite serialize_length. exact Hsz.
  - eapply field_offset_bound; eauto.
  - apply Hslice; auto.
  - intros i w v H. unfold read_le. specialize (Hslice i _ H). cbn [field_size expected_field field_bytes] in Hslice.
    rewrite Hslice. apply le_decode_le_bytes.
  - intros i r H. unfold read_le. specialize (Hslice i _ H). cbn [field_size expected_field field_bytes] in Hslice.
    rewrite Hslice. rewrite le_decode_le_bytes.
    rewrite lds_before_closed by auto. change (256 ^ N.of_nat 4) with two32.
    apply N.mod_mod. discriminate.
  - intros i v H. unfold read_le. specialize (Hslice i _ H). cbn [field_size expected_field field_bytes] in Hslice.
    rewrite Hslice. rewrite le_decode_le_bytes. change (256 ^ N.of_nat 4) with two32.
    apply N.mod_small. apply quiet32_lt.
  - destruct grid as [[? ?] ?], wg as [[? ?] ?]. simpl. rewrite Hfin.
    rewrite lds_before_closed by auto. rewrite firstn_all. reflexivity.
  - destruct grid as [[? ?] ?], wg as [[? ?] ?]. reflexivity.
Qed.

(** fields that are not LDS pointers are untouched; nothing is added or dropped *)
Lemma patch_preserves l fs i f :
  nth_error fs i = Some f -> (forall r, f <> FLocal r) ->
  nth_error (fst (patch l fs)) i = Some f.
Proof.
  intros H Hn. rewrite (patch_nth l fs i f H). destruct f; auto. exfalso; eapply Hn; eauto.
Qed.

(** packet byte layout (the AQL offsets a kernel reads through the dispatch
    pointer): total 64 bytes; work-group size at 4/6/8, grid size at 12/16/20,
    group segment size at 28, kernel object at 32, kernarg address at 40 *)
Lemma packet_layout p :
  length (packet_bytes p) = 64%nat /\
  read_le (packet_bytes p) 4 2 = p_wgx p mod 65536 /\
  read_le (packet_bytes p) 6 2 = p_wgy p mod 65536 /\
  read_le (packet_bytes p) 8 2 = p_wgz p mod 65536 /\
  read_le (packet_bytes p) 12 4 = p_gx p mod two32 /\
  read_le (packet_bytes p) 16 4 = p_gy p mod two32 /\
  read_le (packet_bytes p) 20 4 = p_gz p mod two32 /\
  read_le (packet_bytes p) 28 4 = p_group p mod two32 /\
  read_le (packet_bytes p) 32 8 = p_kobj p mod 2 ^ 64 /\
  read_le (packet_bytes p) 40 8 = p_kernarg p mod 2 ^ 64.
Proof.
  unfold packet_bytes.
  pose proof (fun i f H => field_slice (packet_fields p) i f H) as S.
  split; [rewrite serialize_length; reflexivity|].
  unfold read_le.
  pose proof (S 2%nat _ eq_refl) as S2. pose proof (S 3%nat _ eq_refl) as S3.
  pose proof (S 4%nat _ eq_refl) as S4. pose proof (S 6%nat _ eq_refl) as S6.
  pose proof (S 7%nat _ eq_refl) as S7. pose proof (S 8%nat _ eq_refl) as S8.
  pose proof (S 10%nat _ eq_refl) as S10. pose proof (S 11%nat _ eq_refl) as S11.
  pose proof (S 12%nat _ eq_refl) as S12.
  cbn [field_size field_bytes] in *.
  change (field_offset (packet_fields p) 2) with 4%nat in S2.
  change (field_offset (packet_fields p) 3) with 6%nat in S3.
  change (field_offset (packet_fields p) 4) with 8%nat in S4.
  change (field_offset (packet_fields p) 6) with 12%nat in S6.
  change (field_offset (packet_fields p) 7) with 16%nat in S7.
  change (field_offset (packet_fields p) 8) with 20%nat in S8.
  change (field_offset (packet_fields p) 10) with 28%nat in S10.
  change (field_offset (packet_fields p) 11) with 32%nat in S11.
  change (field_offset (packet_fields p) 12) with 40%nat in S12.
  rewrite S2, S3, S4, S6, S7, S8, S10, S11, S12.
  rewrite !le_decode_le_bytes. repeat split; reflexivity.
Qed.
