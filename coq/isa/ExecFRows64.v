(** C03 — binary64 rows and the binary32 <-> binary64 / integer -> binary64
    conversions: 64-bit operand and destination plumbing (register pairs,
    RegCount 2, the value written as two dwords) through the 64-bit glue. *)
From Coq Require Import ZArith List Bool Lia ZifyBool.
Import ListNotations.
From Flocq Require Import IEEE754.Binary IEEE754.Bits.
From VIsa Require Import IsaState IsaFloat ExecImpl ExecSpec ExecImplV ExecSpecV ExecImplF ExecSpecF ExecProofs ExecRows ExecVProofs ExecVRowsA ExecVProofs64 ExecFRows.
Open Scope Z_scope.

Definition row_ok_f64 (m0 m1 m2 : omode) (a : arch) (f : format) (op : Z) : Prop :=
  forall d r, vdesc_f a f op = Some d -> vrow_f a f op = Some r -> vrel64 m0 m1 m2 d r.
Ltac v64f_start := constructor; cbv [dst_ok64]; unfold_rows; cbv [mode_c mode_w marg];
  [ split; [reflexivity|lia] | repeat split; reflexivity | intros; reflexivity | split; reflexivity | exact I | try lia; auto
  | intros a b c cin Ha Hb Hc ].

Lemma bits64_range : forall x, 0 <= bits_of_b64 x < W64.
Proof. intros. unfold bits_of_b64. apply (bits_of_binary_float_range 52 11); reflexivity. Qed.
Lemma f64_of_f32_u : forall a, f64_of_f32 (u32 a) = f64_of_f32 a.
Proof. intros. unfold f64_of_f32. rewrite b32_u32. reflexivity. Qed.

Lemma r_x_vop3a_640 : forall a, row_ok_f64 M64 M64 M32 a F_VOP3A 640.
Proof.
  intros a0; destruct a0; open_rowf; v64f_start;
    (split; [eexists; split; [reflexivity|split; [apply bits64_range|reflexivity]]|reflexivity]).
Qed.
Lemma r_x_vop3a_641 : forall a, row_ok_f64 M64 M64 M32 a F_VOP3A 641.
Proof.
  intros a0; destruct a0; open_rowf; v64f_start;
    (split; [eexists; split; [reflexivity|split; [apply bits64_range|reflexivity]]|reflexivity]).
Qed.
Lemma r_x_vop1_4 : forall a, row_ok_f64 M32 M32 M32 a F_VOP1 4.
Proof.
  intros a0; destruct a0; open_rowf; v64f_start;
    (split; [eexists; split; [reflexivity|split; [apply bits64_range|rewrite sg_s32; reflexivity]]|reflexivity]).
Qed.
Lemma r_x_vop1_16 : forall a, row_ok_f64 M32 M32 M32 a F_VOP1 16.
Proof.
  intros a0; destruct a0; open_rowf; v64f_start;
    (split; [eexists; split; [reflexivity|split; [apply bits64_range|rewrite f64_of_f32_u; reflexivity]]|reflexivity]).
Qed.
Lemma r_x_vop1_15 : forall a, row_ok_f64 M64 M32 M32 a F_VOP1 15.
Proof.
  intros a0; destruct a0; open_rowf; v64f_start;
    (split; [eexists; split; [reflexivity|apply u32_small; apply bits32_range]|reflexivity]).
Qed.
Lemma r_c_vop1_22 : row_ok_f64 M32 M32 M32 CDNA3 F_VOP1 22.
Proof.
  open_rowf; v64f_start;
    (split; [eexists; split; [reflexivity|split; [apply bits64_range|reflexivity]]|reflexivity]).
Qed.
