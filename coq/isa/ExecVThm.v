(** C03 — the vector theorem: every listed (format, opcode) row of either ALU
    agrees with the manual for all states, EXEC masks and admissible operands. *)
From Coq Require Import ZArith List Bool Lia ZifyBool.
Import ListNotations.
From VIsa Require Import IsaState ExecImpl ExecSpec ExecImplV ExecSpecV ExecProofs ExecRows ExecVProofs ExecVRowsA ExecBrev ExecVProofs64 ExecVRows64 ExecVRowsB1 ExecVRowsB2 ExecVRowsB3 ExecVRowsB4 ExecVRowsB5 ExecVRowsB6.
Open Scope Z_scope.

Definition vrows (a : arch) : list (format * Z) :=
  match a with
  | GCN3 => [(F_VOP2, 0); (F_VOP2, 6); (F_VOP2, 8); (F_VOP2, 12); (F_VOP2, 13); (F_VOP2, 14); (F_VOP2, 15); (F_VOP2, 16); (F_VOP2, 17); (F_VOP2, 18); (F_VOP2, 19); (F_VOP2, 20); (F_VOP2, 21); (F_VOP2, 25); (F_VOP2, 26); (F_VOP2, 27); (F_VOP2, 28); (F_VOP2, 29); (F_VOP2, 30); (F_VOP1, 1); (F_VOP1, 43); (F_VOP1, 44); (F_VOPC, 193); (F_VOPC, 195); (F_VOPC, 196); (F_VOPC, 197); (F_VOPC, 198); (F_VOPC, 201); (F_VOPC, 202); (F_VOPC, 203); (F_VOPC, 204); (F_VOPC, 205); (F_VOPC, 206); (F_VOP3A, 193); (F_VOP3A, 195); (F_VOP3A, 196); (F_VOP3A, 198); (F_VOP3A, 201); (F_VOP3A, 202); (F_VOP3A, 203); (F_VOP3A, 204); (F_VOP3A, 205); (F_VOP3A, 206); (F_VOP3A, 256); (F_VOP3A, 450); (F_VOP3A, 451); (F_VOP3A, 456); (F_VOP3A, 457); (F_VOP3A, 465); (F_VOP3A, 466); (F_VOP3A, 468); (F_VOP3A, 469); (F_VOP3A, 471); (F_VOP3A, 472); (F_VOP3A, 645); (F_VOP3A, 646); (F_VOP3B, 281); (F_VOP3B, 282); (F_VOP3B, 283); (F_VOP3B, 284); (F_VOP3B, 285); (F_VOP3B, 286); (F_VOP1, 45); (F_VOP3A, 462)]
  | CDNA3 => [(F_VOP2, 0); (F_VOP2, 6); (F_VOP2, 8); (F_VOP2, 12); (F_VOP2, 13); (F_VOP2, 14); (F_VOP2, 15); (F_VOP2, 16); (F_VOP2, 17); (F_VOP2, 18); (F_VOP2, 19); (F_VOP2, 20); (F_VOP2, 21); (F_VOP2, 25); (F_VOP2, 26); (F_VOP2, 27); (F_VOP2, 28); (F_VOP2, 29); (F_VOP2, 30); (F_VOP2, 52); (F_VOP2, 53); (F_VOP2, 54); (F_VOP1, 1); (F_VOP1, 43); (F_VOP1, 44); (F_VOP1, 45); (F_VOPC, 193); (F_VOPC, 195); (F_VOPC, 196); (F_VOPC, 197); (F_VOPC, 198); (F_VOPC, 201); (F_VOPC, 202); (F_VOPC, 203); (F_VOPC, 204); (F_VOPC, 205); (F_VOPC, 206); (F_VOP3A, 193); (F_VOP3A, 195); (F_VOP3A, 196); (F_VOP3A, 198); (F_VOP3A, 201); (F_VOP3A, 202); (F_VOP3A, 203); (F_VOP3A, 204); (F_VOP3A, 205); (F_VOP3A, 206); (F_VOP3A, 256); (F_VOP3A, 450); (F_VOP3A, 451); (F_VOP3A, 456); (F_VOP3A, 457); (F_VOP3A, 465); (F_VOP3A, 466); (F_VOP3A, 468); (F_VOP3A, 469); (F_VOP3A, 471); (F_VOP3A, 472); (F_VOP3A, 645); (F_VOP3A, 646); (F_VOP3A, 509); (F_VOP3A, 510); (F_VOP3A, 511); (F_VOP3A, 512); (F_VOP3B, 281); (F_VOP3B, 282); (F_VOP3B, 283); (F_VOP3B, 284); (F_VOP3B, 285); (F_VOP3B, 286); (F_VOP3A, 462); (F_VOP3A, 276); (F_VOP2, 38); (F_VOP2, 42); (F_VOPC, 164)]
  end.

Lemma row_agree : forall a f op, row_ok a f op ->
  (exists d, vdesc_of a f op = Some d) -> (exists r, vrow_of a f op = Some r) ->
  ~ (f = F_VOP1 /\ op = 2) ->
  forall st i, i_fmt i = f -> i_op i = op -> wf st -> 0 <= i_lit i < W32 ->
    (forall d r, vdesc_of a f op = Some d -> vrow_of a f op = Some r -> vadm d r i) -> agree_v a st i.
Proof.
  intros a f op Hok (d & Hd) (r & Hr) Hn st i Hf Ho Hwf Hl Hadm. subst f op.
  apply (vglue a st i d r); auto.
Qed.

Ltac row_case L := eapply (row_agree _ _ _ L); eauto;
  [eexists; reflexivity | eexists; reflexivity | intros [E1 E2]; try discriminate E1; try discriminate E2].

Theorem vector_agree : forall a st i, In (i_fmt i, i_op i) (vrows a) -> wf st -> 0 <= i_lit i < W32 ->
  (forall d r, vdesc_of a (i_fmt i) (i_op i) = Some d -> vrow_of a (i_fmt i) (i_op i) = Some r -> vadm d r i) ->
  agree_v a st i.
Proof.
  intros a st i Hin Hwf Hl Hadm.
  remember (i_fmt i) as f eqn:Ef. remember (i_op i) as op eqn:Eo. symmetry in Ef, Eo.
  destruct a; unfold vrows in Hin; cbn [In] in Hin;
    repeat (destruct Hin as [Hin|Hin]; [injection Hin as <- <-|]); try contradiction.
  - row_case r_g_vop2_0.
  - row_case r_g_vop2_6.
  - row_case r_g_vop2_8.
  - row_case r_g_vop2_12.
  - row_case r_g_vop2_13.
  - row_case r_g_vop2_14.
  - row_case r_g_vop2_15.
  - row_case r_g_vop2_16.
  - row_case r_g_vop2_17.
  - row_case r_g_vop2_18.
  - row_case r_g_vop2_19.
  - row_case r_g_vop2_20.
  - row_case r_g_vop2_21.
  - row_case r_g_vop2_25.
  - row_case r_g_vop2_26.
  - row_case r_g_vop2_27.
  - row_case r_g_vop2_28.
  - row_case r_g_vop2_29.
  - row_case r_g_vop2_30.
  - row_case r_g_vop1_1.
  - row_case r_g_vop1_43.
  - row_case r_g_vop1_44.
  - row_case r_g_vopc_193.
  - row_case r_g_vopc_195.
  - row_case r_g_vopc_196.
  - row_case r_g_vopc_197.
  - row_case r_g_vopc_198.
  - row_case r_g_vopc_201.
  - row_case r_g_vopc_202.
  - row_case r_g_vopc_203.
  - row_case r_g_vopc_204.
  - row_case r_g_vopc_205.
  - row_case r_g_vopc_206.
  - row_case r_g_vop3a_193.
  - row_case r_g_vop3a_195.
  - row_case r_g_vop3a_196.
  - row_case r_g_vop3a_198.
  - row_case r_g_vop3a_201.
  - row_case r_g_vop3a_202.
  - row_case r_g_vop3a_203.
  - row_case r_g_vop3a_204.
  - row_case r_g_vop3a_205.
  - row_case r_g_vop3a_206.
  - row_case r_g_vop3a_256.
  - row_case r_g_vop3a_450.
  - row_case r_g_vop3a_451.
  - row_case r_g_vop3a_456.
  - row_case r_g_vop3a_457.
  - row_case r_g_vop3a_465.
  - row_case r_g_vop3a_466.
  - row_case r_g_vop3a_468.
  - row_case r_g_vop3a_469.
  - row_case r_g_vop3a_471.
  - row_case r_g_vop3a_472.
  - row_case r_g_vop3a_645.
  - row_case r_g_vop3a_646.
  - row_case r_g_vop3b_281.
  - row_case r_g_vop3b_282.
  - row_case r_g_vop3b_283.
  - row_case r_g_vop3b_284.
  - row_case r_g_vop3b_285.
  - row_case r_g_vop3b_286.
  - row_case r_g_vop1_45.
  - row_case r_g_vop3a_462.
  - row_case r_c_vop2_0.
  - row_case r_c_vop2_6.
  - row_case r_c_vop2_8.
  - row_case r_c_vop2_12.
  - row_case r_c_vop2_13.
  - row_case r_c_vop2_14.
  - row_case r_c_vop2_15.
  - row_case r_c_vop2_16.
  - row_case r_c_vop2_17.
  - row_case r_c_vop2_18.
  - row_case r_c_vop2_19.
  - row_case r_c_vop2_20.
  - row_case r_c_vop2_21.
  - row_case r_c_vop2_25.
  - row_case r_c_vop2_26.
  - row_case r_c_vop2_27.
  - row_case r_c_vop2_28.
  - row_case r_c_vop2_29.
  - row_case r_c_vop2_30.
  - row_case r_c_vop2_52.
  - row_case r_c_vop2_53.
  - row_case r_c_vop2_54.
  - row_case r_c_vop1_1.
  - row_case r_c_vop1_43.
  - row_case r_c_vop1_44.
  - row_case r_c_vop1_45.
  - row_case r_c_vopc_193.
  - row_case r_c_vopc_195.
  - row_case r_c_vopc_196.
  - row_case r_c_vopc_197.
  - row_case r_c_vopc_198.
  - row_case r_c_vopc_201.
  - row_case r_c_vopc_202.
  - row_case r_c_vopc_203.
  - row_case r_c_vopc_204.
  - row_case r_c_vopc_205.
  - row_case r_c_vopc_206.
  - row_case r_c_vop3a_193.
  - row_case r_c_vop3a_195.
  - row_case r_c_vop3a_196.
  - row_case r_c_vop3a_198.
  - row_case r_c_vop3a_201.
  - row_case r_c_vop3a_202.
  - row_case r_c_vop3a_203.
  - row_case r_c_vop3a_204.
  - row_case r_c_vop3a_205.
  - row_case r_c_vop3a_206.
  - row_case r_c_vop3a_256.
  - row_case r_c_vop3a_450.
  - row_case r_c_vop3a_451.
  - row_case r_c_vop3a_456.
  - row_case r_c_vop3a_457.
  - row_case r_c_vop3a_465.
  - row_case r_c_vop3a_466.
  - row_case r_c_vop3a_468.
  - row_case r_c_vop3a_469.
  - row_case r_c_vop3a_471.
  - row_case r_c_vop3a_472.
  - row_case r_c_vop3a_645.
  - row_case r_c_vop3a_646.
  - row_case r_c_vop3a_509.
  - row_case r_c_vop3a_510.
  - row_case r_c_vop3a_511.
  - row_case r_c_vop3a_512.
  - row_case r_c_vop3b_281.
  - row_case r_c_vop3b_282.
  - row_case r_c_vop3b_283.
  - row_case r_c_vop3b_284.
  - row_case r_c_vop3b_285.
  - row_case r_c_vop3b_286.
  - row_case r_c_vop3a_462.
  - row_case r_c_vop3a_276.
  - row_case r_c_vop2_38.
  - row_case r_c_vop2_42.
  - row_case r_c_vopc_164.
Qed.

(** V_READFIRSTLANE_B32: the scalar destination receives the source of the
    lowest active lane (lane 0 when EXEC is zero). *)
Theorem readfirstlane_agree : forall a st i, i_fmt i = F_VOP1 -> i_op i = 2 -> wf st ->
  0 <= i_lit i < W32 -> admv (i_src0 i) -> admd32 (i_dst i) -> agree_v a st i.
Proof.
  intros a st i Hf Ho Hwf Hl H0 Hd. unfold agree_v, exec_vector, exec_spec_v. rewrite Hf, Ho.
  change (first_lane (exec st)) with (first_active st).
  destruct (rdv32_ok st (i_src0 i) (i_lit i) (first_active st) Hwf Hl H0) as (v & R1 & R2 & R3).
  rewrite R1, R2. cbn [bind obind].
  destruct (wr32_ok st (i_dst i) v Hwf Hd) as (s1 & s2 & W1 & W2 & W3).
  exists s1, s2. auto.
Qed.

(** both ALUs: where the manuals define the row identically, the two handlers
    leave equal states *)
Lemma spec_v_arch : forall st i, vrow_of GCN3 (i_fmt i) (i_op i) = vrow_of CDNA3 (i_fmt i) (i_op i) ->
  exec_spec_v GCN3 st i = exec_spec_v CDNA3 st i.
Proof.
  intros st i H. unfold exec_spec_v, exec_spec_vgen. rewrite H. reflexivity.
Qed.

Lemma vrows_arch : forall f op, In (f, op) (vrows GCN3) ->
  In (f, op) (vrows CDNA3) /\ vrow_of GCN3 f op = vrow_of CDNA3 f op.
Proof.
  intros f op Hin. unfold vrows in Hin. cbn [In] in Hin.
  repeat (destruct Hin as [Hin|Hin]; [injection Hin as <- <-; split; [unfold vrows; cbn [In]; tauto|reflexivity]|]).
  contradiction.
Qed.

Theorem vector_both : forall st i, In (i_fmt i, i_op i) (vrows GCN3) -> wf st -> 0 <= i_lit i < W32 ->
  (forall a d r, vdesc_of a (i_fmt i) (i_op i) = Some d -> vrow_of a (i_fmt i) (i_op i) = Some r -> vadm d r i) ->
  exists s1 s2, exec_vector GCN3 st i = Some s1 /\ exec_vector CDNA3 st i = Some s2 /\ state_eq s1 s2.
Proof.
  intros st i Hin Hwf Hl Hadm.
  destruct (vrows_arch _ _ Hin) as [Hin2 Hrow].
  destruct (vector_agree GCN3 st i Hin Hwf Hl (Hadm GCN3)) as (g & sg & G1 & G2 & G3).
  destruct (vector_agree CDNA3 st i Hin2 Hwf Hl (Hadm CDNA3)) as (c & sc & C1 & C2 & C3).
  rewrite (spec_v_arch st i Hrow) in G2. rewrite G2 in C2. inversion C2; subst sc.
  exists g, c. split; [exact G1|split; [exact C1|]].
  eapply state_eq_trans; [exact G3|]. apply state_eq_sym; exact C3.
Qed.

(** rows with 64-bit operands (both ALUs): 64-bit compares, v_mad_u64_u32,
    v_lshlrev_b64, v_ashrrev_i64 *)
Definition vrows64 : list (format * Z) :=
  [(F_VOPC, 232); (F_VOPC, 233); (F_VOPC, 234); (F_VOPC, 235); (F_VOPC, 236); (F_VOPC, 237); (F_VOPC, 238);
   (F_VOPC, 239); (F_VOP3A, 233); (F_VOP3A, 488); (F_VOP3A, 655); (F_VOP3A, 657)].
Definition modes_of (f : format) (op : Z) : omode * omode * omode :=
  match f, op with
  | F_VOP3A, 488 => (M32, M32, M64)
  | F_VOP3A, 655 | F_VOP3A, 657 => (M64lo, M64, M32)
  | _, _ => (M64, M64, M32)
  end.

Lemma row_agree64 : forall a f op m0 m1 m2, row_ok64 m0 m1 m2 a f op ->
  (exists d, vdesc_of a f op = Some d) -> (exists r, vrow_of a f op = Some r) ->
  ~ (f = F_VOP1 /\ op = 2) ->
  forall st i, i_fmt i = f -> i_op i = op -> wf st -> 0 <= i_lit i < W32 ->
    (forall d r, vdesc_of a f op = Some d -> vrow_of a f op = Some r -> vadm64 m0 m1 m2 d r i) -> agree_v a st i.
Proof.
  intros a f op m0 m1 m2 Hok (d & Hd) (r & Hr) Hn st i Hf Ho Hwf Hl Hadm. subst f op.
  apply (vglue64 a st i d r m0 m1 m2); auto.
Qed.

Ltac row_case64 x L := eapply (row_agree64 _ _ _ _ _ _ L); eauto;
  [destruct x; eexists; reflexivity | destruct x; eexists; reflexivity
  | intros [E1 E2]; try discriminate E1; try discriminate E2].

Theorem vector_agree64 : forall a st i, In (i_fmt i, i_op i) vrows64 -> wf st -> 0 <= i_lit i < W32 ->
  (forall d r, vdesc_of a (i_fmt i) (i_op i) = Some d -> vrow_of a (i_fmt i) (i_op i) = Some r ->
     let '(m0, m1, m2) := modes_of (i_fmt i) (i_op i) in vadm64 m0 m1 m2 d r i) ->
  agree_v a st i.
Proof.
  intros a st i Hin Hwf Hl Hadm.
  remember (i_fmt i) as f eqn:Ef. remember (i_op i) as op eqn:Eo. symmetry in Ef, Eo.
  unfold vrows64 in Hin; cbn [In] in Hin.
  repeat (destruct Hin as [Hin|Hin]; [injection Hin as <- <-|]); try contradiction; cbn [modes_of] in Hadm.
  - row_case64 a (r64_vopc a 232 ltac:(cbn; tauto)).
  - row_case64 a (r64_vopc a 233 ltac:(cbn; tauto)).
  - row_case64 a (r64_vopc a 234 ltac:(cbn; tauto)).
  - row_case64 a (r64_vopc a 235 ltac:(cbn; tauto)).
  - row_case64 a (r64_vopc a 236 ltac:(cbn; tauto)).
  - row_case64 a (r64_vopc a 237 ltac:(cbn; tauto)).
  - row_case64 a (r64_vopc a 238 ltac:(cbn; tauto)).
  - row_case64 a (r64_vopc a 239 ltac:(cbn; tauto)).
  - row_case64 a (r64_vop3a_233 a).
  - row_case64 a (r64_vop3a_488 a).
  - row_case64 a (r64_vop3a_655 a).
  - row_case64 a (r64_vop3a_657 a).
Qed.

(** every (format, opcode) row covered by an [impl_eq_spec_*] theorem, per ALU
    (printed by ./check C03 to classify the opcode closure of shipped kernels) *)
Definition proved_rows (a : arch) : list (format * Z) :=
  map (pair F_SOP2) (sop2_rows32 a ++ sop2_rows64 a) ++
  map (pair F_SOP1) (sop1_rows32 a ++ [1; 8; 28] ++ saveexec_ops) ++
  map (pair F_SOPC) (sopc_ops a) ++ map (pair F_SOPK) sopk_ops ++ map (pair F_SOPP) sopp_ops ++
  (F_VOP1, 2) :: vrows a ++ vrows64.
