(** C03 — vector rows proved by the generic arithmetic tactic (part 6). *)
From Coq Require Import ZArith List Bool Lia ZifyBool.
Import ListNotations.
From VIsa Require Import IsaState ExecImpl ExecSpec ExecImplV ExecSpecV ExecProofs ExecRows ExecVProofs ExecVRowsA.
Open Scope Z_scope.
Ltac Zify.zify_post_hook ::= Z.div_mod_to_equations.

Lemma r_g_vop2_15 : row_ok GCN3 F_VOP2 15. Proof. try_row. Qed.
Lemma r_g_vop2_27 : row_ok GCN3 F_VOP2 27. Proof. try_row. Qed.
Lemma r_g_vopc_195 : row_ok GCN3 F_VOPC 195. Proof. try_row. Qed.
Lemma r_g_vopc_203 : row_ok GCN3 F_VOPC 203. Proof. try_row. Qed.
Lemma r_g_vop3a_196 : row_ok GCN3 F_VOP3A 196. Proof. try_row. Qed.
Lemma r_g_vop3a_205 : row_ok GCN3 F_VOP3A 205. Proof. try_row. Qed.
Lemma r_g_vop3b_282 : row_ok GCN3 F_VOP3B 282. Proof. try_row. Qed.
Lemma r_c_vop2_8 : row_ok CDNA3 F_VOP2 8. Proof. try_row. Qed.
Lemma r_c_vop2_26 : row_ok CDNA3 F_VOP2 26. Proof. try_row. Qed.
Lemma r_c_vop2_53 : row_ok CDNA3 F_VOP2 53. Proof. try_row. Qed.
Lemma r_c_vopc_197 : row_ok CDNA3 F_VOPC 197. Proof. try_row. Qed.
Lemma r_c_vopc_205 : row_ok CDNA3 F_VOPC 205. Proof. try_row. Qed.
Lemma r_c_vop3a_201 : row_ok CDNA3 F_VOP3A 201. Proof. try_row. Qed.
Lemma r_c_vop3a_256 : row_ok CDNA3 F_VOP3A 256. Proof. try_row. Qed.
Lemma r_c_vop3b_283 : row_ok CDNA3 F_VOP3B 283. Proof. try_row. Qed.
