(** C07 — proofs: the register stores of both execution modes refine the
    flat cell array of RegSpec.v.  Statements are collected in props/C07.v. *)
From Coq Require Import ZArith NArith List Bool Lia ZifyN ZifyNat ZifyBool PeanoNat FinFun.
From VIsa Require Import RegSpec RegModel.
Import ListNotations.
Open Scope N_scope.
Ltac Zify.zify_post_hook ::= Z.div_mod_to_equations.

(** * little-endian byte strings *)

Lemma le_val_bound : forall l, bytes_ok l -> le_val l < 256 ^ lenN l.
Proof.
  induction l as [|b r IH]; intros H; unfold lenN in *; cbn [le_val length].
  - change (N.of_nat 0) with 0. rewrite N.pow_0_r. lia.
  - inversion H; subst. specialize (IH H3).
    rewrite Nat2N.inj_succ, N.pow_succ_r' by lia. set (p := 256 ^ N.of_nat (length r)) in *. lia.
Qed.

Lemma le_bytes_le_val : forall l, bytes_ok l -> le_bytes (length l) (le_val l) = l.
Proof.
  induction l as [|b r IH]; intros H; cbn [le_val length le_bytes]; auto.
  inversion H; subst. specialize (IH H3).
  replace ((b + 256 * le_val r) mod 256) with b by lia.
  replace ((b + 256 * le_val r) / 256) with (le_val r) by lia.
  now rewrite IH.
Qed.

Lemma le_val_le_bytes : forall n x, le_val (le_bytes n x) = x mod 256 ^ N.of_nat n.
Proof.
  induction n as [|n IH]; intros x; cbn [le_bytes le_val].
  - cbn. now rewrite N.mod_1_r.
  - rewrite IH, Nat2N.inj_succ, N.pow_succ_r'.
    assert (256 ^ N.of_nat n <> 0) by (apply N.pow_nonzero; lia).
    rewrite N.mod_mul_r by lia. reflexivity.
Qed.

Lemma le_bytes_length : forall n x, length (le_bytes n x) = n.
Proof. induction n; intros; cbn; auto. Qed.

Lemma le_bytes_ok : forall n x, bytes_ok (le_bytes n x).
Proof.
  induction n; intros x; cbn; constructor.
  - apply N.mod_lt; lia.
  - apply IHn.
Qed.

Lemma le_bytes_app : forall n m x, le_bytes (n + m) x = le_bytes n x ++ le_bytes m (x / 256 ^ N.of_nat n).
Proof.
  induction n as [|n IH]; intros m x.
  - cbn. now rewrite N.div_1_r.
  - cbn [plus le_bytes app]. rewrite IH. f_equal. f_equal.
    assert (256 ^ N.of_nat n <> 0) by (apply N.pow_nonzero; lia).
    rewrite Nat2N.inj_succ, N.pow_succ_r', N.div_div by lia. reflexivity.
Qed.

Lemma le_val_app : forall l1 l2, le_val (l1 ++ l2) = le_val l1 + 256 ^ lenN l1 * le_val l2.
Proof.
  induction l1 as [|b r IH]; intros l2; unfold lenN in *; cbn [app le_val length].
  - change (N.of_nat 0) with 0. rewrite N.pow_0_r. lia.
  - rewrite IH, Nat2N.inj_succ, N.pow_succ_r' by lia. set (p := 256 ^ N.of_nat (length r)). nia.
Qed.

Lemma le_val_zeros : forall k, le_val (repeat 0 k) = 0.
Proof. induction k; cbn; auto. rewrite IHk. lia. Qed.

Lemma bytes_ok_firstn : forall n l, bytes_ok l -> bytes_ok (firstn n l).
Proof. unfold bytes_ok. intros n l H. rewrite <- (firstn_skipn n l) in H. apply Forall_app in H. tauto. Qed.

Lemma bytes_ok_skipn : forall n l, bytes_ok l -> bytes_ok (skipn n l).
Proof. unfold bytes_ok. intros n l H. rewrite <- (firstn_skipn n l) in H. apply Forall_app in H. tauto. Qed.

Lemma bytes_ok_app : forall a b, bytes_ok a -> bytes_ok b -> bytes_ok (a ++ b).
Proof. unfold bytes_ok. intros. apply Forall_app; auto. Qed.

(** zero-padding to 8 bytes does not change the value of the first 8 bytes *)
Lemma u64_padded_eq : forall l, u64_padded l = le_val (firstn 8 l).
Proof.
  intros l. unfold u64_padded. destruct (Nat.le_gt_cases 8 (length l)) as [H|H].
  - replace (8 - length l)%nat with O by lia. cbn [repeat]. now rewrite app_nil_r.
  - rewrite (firstn_all2 (n:=8) l) by lia.
    rewrite firstn_all2 by (rewrite app_length, repeat_length; lia).
    rewrite le_val_app, le_val_zeros. lia.
Qed.

(** * byte memories *)

Lemma nseq_length : forall n, length (nseq n) = N.to_nat n.
Proof. intros. unfold nseq. now rewrite map_length, seq_length. Qed.

Lemma mem_read_length : forall m off n, length (mem_read m off n) = N.to_nat n.
Proof. intros. unfold mem_read. now rewrite map_length, nseq_length. Qed.

Lemma mem_read_nth : forall m off n k, (k < N.to_nat n)%nat -> nth k (mem_read m off n) 0 = m (off + N.of_nat k).
Proof.
  intros. unfold mem_read, nseq. rewrite map_map.
  rewrite (nth_indep _ 0 ((fun x => m (off + N.of_nat x)) O)) by (rewrite map_length, seq_length; lia).
  change (m (off + N.of_nat 0)) with ((fun x : nat => m (off + N.of_nat x)) O).
  rewrite map_nth, seq_nth by lia. reflexivity.
Qed.

Lemma list_eq_nth : forall (a b : list N), length a = length b ->
  (forall k, (k < length a)%nat -> nth k a 0 = nth k b 0) -> a = b.
Proof. intros. apply (nth_ext a b 0 0); auto. Qed.

Lemma mem_read_ext : forall m m' off n,
  (forall a, off <= a < off + n -> m' a = m a) -> mem_read m' off n = mem_read m off n.
Proof.
  intros. apply list_eq_nth; rewrite !mem_read_length; auto.
  intros k Hk. rewrite !mem_read_nth by auto. apply H. lia.
Qed.

Lemma mem_write_out : forall m off data a, a < off \/ off + lenN data <= a -> mem_write m off data a = m a.
Proof.
  intros. unfold mem_write.
  destruct ((off <=? a) && (a <? off + lenN data)) eqn:E; auto. lia.
Qed.

Lemma mem_write_in : forall m off data a, off <= a < off + lenN data ->
  mem_write m off data a = nth (N.to_nat (a - off)) data 0.
Proof.
  intros. unfold mem_write.
  destruct ((off <=? a) && (a <? off + lenN data)) eqn:E; auto. lia.
Qed.

Lemma nth_firstn' : forall (l : list N) n i d, (i < n)%nat -> nth i (firstn n l) d = nth i l d.
Proof.
  induction l as [|x r IH]; intros n i d H.
  - now rewrite firstn_nil.
  - destruct n; [lia|]. destruct i; cbn; auto. apply IH. lia.
Qed.

Lemma nth_skipn' : forall (l : list N) n i d, nth i (skipn n l) d = nth (n + i) l d.
Proof.
  induction l as [|x r IH]; intros n i d.
  - rewrite skipn_nil. destruct i, n; reflexivity.
  - destruct n; cbn; auto.
Qed.

Lemma skipn_add : forall (l : list N) a b, skipn a (skipn b l) = skipn (b + a) l.
Proof.
  induction l as [|x r IH]; intros a b.
  - now rewrite !skipn_nil.
  - destruct b; cbn [skipn plus]; auto.
Qed.

(** reading back a part of what was written *)
Lemma mem_read_write_in : forall m off data k n,
  (k + n <= length data)%nat ->
  mem_read (mem_write m off data) (off + N.of_nat k) (N.of_nat n) = firstn n (skipn k data).
Proof.
  intros. apply list_eq_nth.
  - rewrite mem_read_length, firstn_length, skipn_length. lia.
  - intros j Hj. rewrite mem_read_length in Hj. rewrite mem_read_nth by auto.
    rewrite mem_write_in by (unfold lenN; lia).
    rewrite nth_firstn' by lia. rewrite nth_skipn'. f_equal. lia.
Qed.

Lemma mem_read_write_in4 : forall m off data k,
  (k + 4 <= length data)%nat ->
  mem_read (mem_write m off data) (off + N.of_nat k) 4 = firstn 4 (skipn k data).
Proof. intros. exact (mem_read_write_in m off data k 4 H). Qed.

Lemma mem_read_write_out : forall m off data a n,
  a + n <= off \/ off + lenN data <= a -> mem_read (mem_write m off data) a n = mem_read m a n.
Proof. intros. apply mem_read_ext. intros. apply mem_write_out. lia. Qed.

Lemma mem_read_app : forall m off a b, mem_read m off (a + b) = mem_read m off a ++ mem_read m (off + a) b.
Proof.
  intros. apply list_eq_nth.
  - rewrite app_length, !mem_read_length. lia.
  - intros k Hk. rewrite mem_read_length in Hk. rewrite mem_read_nth by auto.
    destruct (Nat.lt_ge_cases k (N.to_nat a)).
    + rewrite app_nth1 by (rewrite mem_read_length; auto). now rewrite mem_read_nth.
    + rewrite app_nth2 by (rewrite mem_read_length; auto). rewrite mem_read_length.
      rewrite mem_read_nth by lia. f_equal. lia.
Qed.

Lemma firstn_mem_read : forall k m off n, (k <= N.to_nat n)%nat -> firstn k (mem_read m off n) = mem_read m off (N.of_nat k).
Proof.
  intros. replace n with (N.of_nat k + (n - N.of_nat k)) by lia.
  rewrite mem_read_app. rewrite firstn_app.
  rewrite mem_read_length. replace (k - N.to_nat (N.of_nat k))%nat with O by lia.
  cbn [firstn]. rewrite app_nil_r. apply firstn_all2. rewrite mem_read_length. lia.
Qed.

(** a run of dwords read as one block *)
Lemma mem_read_dwords : forall (f : nat -> list N) m off w s,
  (forall k, (s <= k < s + w)%nat -> f k = mem_read m (off + 4 * N.of_nat (k - s)) 4) ->
  flat_map f (seq s w) = mem_read m off (4 * N.of_nat w).
Proof.
  intros f m off w. revert off. induction w as [|w IH]; intros off s H.
  - reflexivity.
  - cbn [seq flat_map]. rewrite (H s) by lia.
    replace (4 * N.of_nat (S w)) with (4 + 4 * N.of_nat w) by lia.
    rewrite mem_read_app. f_equal.
    + f_equal. lia.
    + apply IH. intros k Hk. rewrite (H k) by lia. f_equal. lia.
Qed.

(** * cells *)

Lemma cell_eqb_eq : forall a b, cell_eqb a b = true <-> a = b.
Proof.
  intros a b; split.
  - destruct a, b; cbn; intros H; try discriminate; auto.
    + apply N.eqb_eq in H. now subst.
    + apply andb_true_iff in H. destruct H as [H1 H2]. apply N.eqb_eq in H1, H2. now subst.
  - intros <-. destruct a; cbn; auto. apply N.eqb_refl. now rewrite !N.eqb_refl.
Qed.

Lemma set_cell_same : forall c id v, set_cell c id v id = v.
Proof. intros. unfold set_cell. now rewrite (proj2 (cell_eqb_eq id id) eq_refl). Qed.

Lemma set_cell_other : forall c id v j, j <> id -> set_cell c id v j = c j.
Proof.
  intros. unfold set_cell. destruct (cell_eqb j id) eqn:E; auto.
  apply cell_eqb_eq in E. contradiction.
Qed.

(** a write changes no cell outside the operand *)
Lemma write_ids_other : forall ids c data j, ~ In j ids -> write_ids c ids data j = c j.
Proof.
  induction ids as [|id rest IH]; intros c data j Hn; cbn [write_ids]; auto.
  rewrite IH by (intros X; apply Hn; right; auto).
  apply set_cell_other. intros ->. apply Hn. left; auto.
Qed.

(** what a write stores into the k-th dword cell of an operand *)
Lemma write_ids_dwords : forall (g : nat -> cell) w s c data k,
  (forall a b, (s <= a < s + w)%nat -> (s <= b < s + w)%nat -> g a = g b -> a = b) ->
  (forall a, (s <= a < s + w)%nat -> cbytes (g a) = 4%nat) ->
  (s <= k < s + w)%nat ->
  write_ids c (map g (seq s w)) data (g k) = le_val (firstn 4 (skipn (4 * (k - s)) data)).
Proof.
  intros g w. induction w as [|w IH]; intros s c data k Hinj Hcb Hk. lia.
  cbn [seq map write_ids]. rewrite (Hcb s) by lia.
  destruct (Nat.eq_dec k s) as [->|Hne].
  - rewrite write_ids_other.
    + rewrite set_cell_same. replace (4 * (s - s))%nat with O by lia. reflexivity.
    + intros Hin. apply in_map_iff in Hin. destruct Hin as [x [Hx Hin]]. apply in_seq in Hin.
      apply Hinj in Hx; lia.
  - rewrite IH; try lia.
    + rewrite skipn_add. do 3 f_equal. lia.
    + intros a b Ha Hb. apply Hinj; lia.
    + intros a Ha. apply Hcb. lia.
Qed.

Lemma firstn_skipn_chunk_len : forall (data : list N) k w, length data = (4 * w)%nat -> (k < w)%nat ->
  length (firstn 4 (skipn (4 * k) data)) = 4%nat.
Proof. intros. rewrite firstn_length, skipn_length. lia. Qed.

(** reading a well-formed operand back after writing it returns the data *)
Lemma read_after_write_ids : forall ids c data,
  NoDup ids -> length data = fold_right (fun c n => (cbytes c + n)%nat) O ids -> bytes_ok data ->
  flat_map (fun id => le_bytes (cbytes id) (write_ids c ids data id)) ids = data.
Proof.
  induction ids as [|id rest IH]; intros c data Hnd Hlen Hok.
  - cbn in *. destruct data; auto. discriminate.
  - cbn [flat_map write_ids fold_right] in *. inversion Hnd; subst.
    rewrite write_ids_other by auto. rewrite set_cell_same.
    transitivity (firstn (cbytes id) data ++ skipn (cbytes id) data); [|apply firstn_skipn]. f_equal.
    + replace (cbytes id) with (length (firstn (cbytes id) data)) at 1 by (rewrite firstn_length; lia).
      apply le_bytes_le_val. now apply bytes_ok_firstn.
    + apply IH; auto. rewrite skipn_length. lia. now apply bytes_ok_skipn.
Qed.

(** * more byte-string facts *)

Lemma le_inj : forall a b, bytes_ok a -> bytes_ok b -> length a = length b -> le_val a = le_val b -> a = b.
Proof.
  intros a b Ha Hb Hl Hv. rewrite <- (le_bytes_le_val a Ha), <- (le_bytes_le_val b Hb). now rewrite Hl, Hv.
Qed.

Lemma split64 : forall x, le_bytes 8 x = le_bytes 4 (lo32 x) ++ le_bytes 4 (hi32 x).
Proof.
  intros x. apply le_inj.
  - apply le_bytes_ok.
  - apply bytes_ok_app; apply le_bytes_ok.
  - rewrite app_length, !le_bytes_length. reflexivity.
  - rewrite le_val_app, !le_val_le_bytes. unfold lenN. rewrite le_bytes_length.
    unfold lo32, hi32, two32. change (256 ^ N.of_nat 8) with (4294967296 * 4294967296).
    change (256 ^ N.of_nat 4) with 4294967296.
    rewrite N.mod_mul_r by lia. rewrite !N.mod_mod by lia. reflexivity.
Qed.

Lemma lo32_lt : forall x, lo32 x < two32. Proof. intros. unfold lo32, two32. apply N.mod_lt. lia. Qed.
Lemma hi32_lt : forall x, hi32 x < two32. Proof. intros. unfold hi32, two32. apply N.mod_lt. lia. Qed.

Lemma lo_hi_join : forall x, x < 2 ^ 64 -> lo32 x + two32 * hi32 x = x.
Proof. intros x H. unfold lo32, hi32, two32. change (2 ^ 64) with 18446744073709551616 in H. lia. Qed.

Lemma le_val4_lt : forall l, bytes_ok l -> le_val (firstn 4 l) < two32.
Proof.
  intros l H. pose proof (le_val_bound (firstn 4 l) (bytes_ok_firstn 4 l H)) as B.
  unfold lenN in B. rewrite firstn_length in B.
  assert (256 ^ N.of_nat (Nat.min 4 (length l)) <= 256 ^ 4) by (apply N.pow_le_mono_r; lia).
  change (256 ^ 4) with two32 in *. lia.
Qed.

Lemma le_val8_lt : forall l, bytes_ok l -> le_val (firstn 8 l) < 2 ^ 64.
Proof.
  intros l H. pose proof (le_val_bound (firstn 8 l) (bytes_ok_firstn 8 l H)) as B.
  unfold lenN in B. rewrite firstn_length in B.
  assert (256 ^ N.of_nat (Nat.min 8 (length l)) <= 256 ^ 8) by (apply N.pow_le_mono_r; lia).
  change (256 ^ 8) with (2 ^ 64) in *. lia.
Qed.

Lemma le_val8_halves : forall l, bytes_ok l -> length l = 8%nat ->
  lo32 (le_val (firstn 8 l)) = le_val (firstn 4 l) /\ hi32 (le_val (firstn 8 l)) = le_val (firstn 4 (skipn 4 l)).
Proof.
  intros l Hok Hl. rewrite (firstn_all2 (n:=8) l) by lia.
  rewrite <- (firstn_skipn 4 l) at 1 3. rewrite le_val_app.
  unfold lenN. rewrite firstn_length. replace (Nat.min 4 (length l)) with 4%nat by lia.
  change (256 ^ N.of_nat 4) with two32.
  pose proof (le_val4_lt l Hok). pose proof (le_val4_lt (skipn 4 l) (bytes_ok_skipn 4 l Hok)).
  rewrite (firstn_all2 (n:=4) (skipn 4 l)) in * by (rewrite skipn_length; lia).
  unfold lo32, hi32, two32 in *. split; lia.
Qed.

Lemma copy_into_zero_exact : forall nb l, lenN l = nb -> copy_into_zero nb l = l.
Proof.
  intros nb l H. unfold copy_into_zero, firstnN, lenN in *. subst nb.
  rewrite Nat2N.id, firstn_all, Nat.sub_diag. apply app_nil_r.
Qed.

Lemma flat_map_map : forall {A B C} (f : B -> list C) (g : A -> B) l, flat_map f (map g l) = flat_map (fun x => f (g x)) l.
Proof. induction l; cbn; auto. now rewrite IHl. Qed.

(** * a register file seen as an array of dword cells *)

(** cells [g 0 .. g (n-1)] are stored as consecutive dwords from byte [base] of [m] *)
Definition view (m : mem) (base n : N) (g : N -> cell) (c : cells) : Prop :=
  forall j, j < n -> le_bytes 4 (c (g j)) = mem_read m (base + 4 * j) 4.

Definition dword_cells (g : N -> cell) : Prop :=
  (forall j, cbytes (g j) = 4%nat) /\ (forall a b, g a = g b -> a = b).

Lemma view_read : forall m base n g c i w, view m base n g c -> dword_cells g -> i + w <= n ->
  flat_map (fun id => le_bytes (cbytes id) (c id)) (map (fun k => g (i + k)) (nseq w)) = mem_read m (base + 4 * i) (4 * w).
Proof.
  intros m base n g c i w Hv [Hcb _] Hle. unfold nseq. rewrite map_map, flat_map_map.
  rewrite <- (N2Nat.id w) at 2. apply mem_read_dwords. intros k Hk.
  rewrite Hcb, Hv by lia. f_equal. lia.
Qed.

Lemma view_write : forall m base n g c i w data, view m base n g c -> dword_cells g -> i + w <= n ->
  length data = (4 * N.to_nat w)%nat -> bytes_ok data ->
  view (mem_write m (base + 4 * i) data) base n g (write_ids c (map (fun k => g (i + k)) (nseq w)) data).
Proof.
  intros m base n g c i w data Hv [Hcb Hinj] Hle Hlen Hok j Hj.
  unfold nseq. rewrite map_map.
  destruct (N.ltb_spec j i) as [Hlt|Hge]; [|destruct (N.ltb_spec j (i + w)) as [Hin|Hout]].
  - rewrite write_ids_other.
    + rewrite mem_read_write_out by lia. apply Hv; auto.
    + intros X. apply in_map_iff in X. destruct X as [k [X _]]. apply Hinj in X. lia.
  - set (k := N.to_nat (j - i)).
    replace (g j) with (g (i + N.of_nat k)) by (f_equal; lia).
    rewrite (write_ids_dwords (fun x : nat => g (i + N.of_nat x)) (N.to_nat w) 0 c data k).
    + replace (base + 4 * j) with (base + 4 * i + N.of_nat (4 * (k - 0))) by lia.
      rewrite mem_read_write_in4 by lia.
      replace 4%nat with (length (firstn 4 (skipn (4 * (k - 0)) data))) at 1
        by (rewrite firstn_length, skipn_length; lia).
      apply le_bytes_le_val. apply bytes_ok_firstn, bytes_ok_skipn, Hok.
    + intros a b _ _ X. apply Hinj in X. lia.
    + intros; apply Hcb.
    + lia.
  - rewrite write_ids_other.
    + rewrite mem_read_write_out by (unfold lenN; lia). apply Hv; auto.
    + intros X. apply in_map_iff in X. destruct X as [k [X Hk]]. apply in_seq in Hk. apply Hinj in X. lia.
Qed.

(** a view is untouched by writes to other addresses and other cells *)
Lemma view_frame : forall m base n g c off data ids,
  view m base n g c ->
  (base + 4 * n <= off \/ off + lenN data <= base) ->
  (forall j, j < n -> ~ In (g j) ids) ->
  view (mem_write m off data) base n g (write_ids c ids data).
Proof.
  intros m base n g c off data ids Hv Hd Hni j Hj.
  rewrite write_ids_other by auto. rewrite mem_read_write_out by lia. auto.
Qed.

Lemma view_cells : forall m base n g c c', view m base n g c ->
  (forall j, j < n -> c' (g j) = c (g j)) -> view m base n g c'.
Proof. intros m base n g c c' Hv H j Hj. rewrite H by auto. auto. Qed.

Lemma dword_cells_CS : dword_cells CS.
Proof. split; auto. intros a b H; now inversion H. Qed.
Lemma dword_cells_CV : forall l, dword_cells (CV l).
Proof. split; auto. intros a b H; now inversion H. Qed.

(** * the emulator wavefront refines the cells *)

Record emu_R (s : emu_wf) (c : cells) : Prop := {
  ER_s : view (e_sreg s) 0 102 CS c;
  ER_v : forall l, l < 64 -> view (e_vreg s) (l * 1024) 256 (CV l) c;
  ER_vcclo : c CVccLo = lo32 (e_vcc s);
  ER_vcchi : c CVccHi = hi32 (e_vcc s);
  ER_vcc64 : e_vcc s < 2 ^ 64;
  ER_execlo : c CExecLo = lo32 (e_exec s);
  ER_exechi : c CExecHi = hi32 (e_exec s);
  ER_exec64 : e_exec s < 2 ^ 64;
  ER_scc : c CScc = e_scc s;
  ER_scc8 : e_scc s < 256;
  ER_m0 : c CM0 = e_m0 s;
  ER_m032 : e_m0 s < two32 }.

Lemma num_bytes_dw : forall r cnt, bytesize r = 4 -> num_bytes r cnt = 4 * width cnt.
Proof.
  intros r cnt H. unfold num_bytes, width. rewrite H.
  destruct (2 <=? cnt) eqn:A, (cnt <=? 1) eqn:B; lia.
Qed.

Lemma op_bytes_fold : forall (g : N -> cell) l, (forall k, cbytes (g k) = 4%nat) ->
  fold_right (fun c n => (cbytes c + n)%nat) O (map g l) = (4 * length l)%nat.
Proof. intros g l H. induction l; cbn [map fold_right length]; auto. rewrite IHl, H. lia. Qed.

Lemma op_bytes_S : forall i cnt lane, op_bytes (RS i) cnt lane = (4 * N.to_nat (width cnt))%nat.
Proof. intros. unfold op_bytes, cells_of. rewrite (op_bytes_fold (fun k => CS (i + k))) by auto. now rewrite nseq_length. Qed.
Lemma op_bytes_V : forall i cnt lane, op_bytes (RV i) cnt lane = (4 * N.to_nat (width cnt))%nat.
Proof. intros. unfold op_bytes, cells_of. rewrite (op_bytes_fold (fun k => CV lane (i + k))) by auto. now rewrite nseq_length. Qed.

Lemma width_pos : forall cnt, 1 <= width cnt.
Proof. intros. unfold width. destruct (cnt <=? 1) eqn:E; lia. Qed.
Lemma width_big : forall cnt, 2 <= cnt -> width cnt = cnt.
Proof. intros. unfold width. destruct (cnt <=? 1) eqn:E; lia. Qed.
Lemma width_small : forall cnt, cnt <= 1 -> width cnt = 1.
Proof. intros. unfold width. destruct (cnt <=? 1) eqn:E; lia. Qed.

Ltac nb_is v :=
  match goal with |- context [num_bytes ?r ?cnt] =>
    replace (num_bytes r cnt) with v by (unfold num_bytes; cbn [bytesize]; destruct (2 <=? cnt) eqn:?; lia) end.

Ltac not_in_ids :=
  let X := fresh "X" in
  intros X;
  first [ apply in_map_iff in X; destruct X as [? [X _]]; first [discriminate X | inversion X; lia]
        | cbn in X; intuition discriminate ].

Lemma emu_read_reg_ok : forall s c r cnt lane, emu_R s c -> wf_operand 102 256 r cnt lane = true ->
  emu_read_reg s r cnt lane = Some (read_bytes c r cnt lane).
Proof.
  intros s c r cnt lane R Hwf. unfold wf_operand in Hwf. apply andb_true_iff in Hwf. destruct Hwf as [Hs Hi].
  destruct r; cbn [wf_shape] in Hs; try discriminate; unfold emu_read_reg, read_bytes, cells_of.
  - rewrite num_bytes_dw by reflexivity. pose proof (width_pos cnt).
    replace (i * 4 + 4 * width cnt <=? S_LEN) with true by (unfold S_LEN; lia). f_equal.
    rewrite (view_read _ 0 102 CS c i (width cnt) (ER_s _ _ R) dword_cells_CS) by lia. f_equal; lia.
  - rewrite num_bytes_dw by reflexivity. pose proof (width_pos cnt).
    replace (lane * 256 * 4 + i * 4 + 4 * width cnt <=? V_LEN) with true by (unfold V_LEN; lia). f_equal.
    rewrite (view_read _ (lane * 1024) 256 (CV lane) c i (width cnt) (ER_v _ _ R lane ltac:(lia)) (dword_cells_CV lane)) by lia.
    f_equal; lia.
  - nb_is 8. rewrite copy_into_zero_exact by reflexivity. cbn [flat_map cbytes app].
    now rewrite app_nil_r, (ER_vcclo _ _ R), (ER_vcchi _ _ R), split64.
  - destruct (cnt <=? 1) eqn:E.
    + nb_is 4. rewrite copy_into_zero_exact by reflexivity. cbn [flat_map cbytes app].
      now rewrite app_nil_r, (ER_vcclo _ _ R).
    + nb_is 8. rewrite copy_into_zero_exact by reflexivity. cbn [flat_map cbytes app].
      now rewrite app_nil_r, (ER_vcclo _ _ R), (ER_vcchi _ _ R), split64.
  - rewrite Hs. nb_is 4. rewrite copy_into_zero_exact by reflexivity. cbn [flat_map cbytes app].
    now rewrite app_nil_r, (ER_vcchi _ _ R).
  - nb_is 8. rewrite copy_into_zero_exact by reflexivity. cbn [flat_map cbytes app].
    now rewrite app_nil_r, (ER_execlo _ _ R), (ER_exechi _ _ R), split64.
  - destruct (cnt =? 2) eqn:E2; destruct (cnt <=? 1) eqn:E; try lia.
    + nb_is 8. rewrite copy_into_zero_exact by reflexivity. cbn [flat_map cbytes app].
      now rewrite app_nil_r, (ER_execlo _ _ R), (ER_exechi _ _ R), split64.
    + nb_is 4. rewrite copy_into_zero_exact by reflexivity. cbn [flat_map cbytes app].
      now rewrite app_nil_r, (ER_execlo _ _ R).
  - rewrite Hs. nb_is 4. rewrite copy_into_zero_exact by reflexivity. cbn [flat_map cbytes app].
    now rewrite app_nil_r, (ER_exechi _ _ R).
  - nb_is 1. cbn [flat_map cbytes app le_bytes]. rewrite (ER_scc _ _ R). pose proof (ER_scc8 _ _ R).
    replace (e_scc s mod 256) with (e_scc s) by lia. reflexivity.
  - nb_is 4. rewrite copy_into_zero_exact by reflexivity. cbn [flat_map cbytes app].
    now rewrite app_nil_r, (ER_m0 _ _ R).
Qed.

Lemma le_val_le_bytes4_small : forall x, x < two32 -> le_val (firstn 8 (le_bytes 4 x)) = x.
Proof.
  intros x H. rewrite firstn_all2 by (rewrite le_bytes_length; lia). rewrite le_val_le_bytes.
  change (256 ^ N.of_nat 4) with two32. apply N.mod_small; auto.
Qed.

Lemma le_val_le_bytes8_small : forall x, x < 2 ^ 64 -> le_val (firstn 8 (le_bytes 8 x)) = x.
Proof.
  intros x H. rewrite firstn_all2 by (rewrite le_bytes_length; lia). rewrite le_val_le_bytes.
  change (256 ^ N.of_nat 8) with (2 ^ 64). apply N.mod_small; auto.
Qed.

Lemma read_from_reg_file_ok : forall m len off cnt, off + 4 * width cnt <= len ->
  read_from_reg_file m len off cnt = Some (le_val (firstn 8 (mem_read m off (4 * width cnt)))).
Proof.
  intros m len off cnt H. unfold read_from_reg_file.
  destruct (2 <=? cnt) eqn:E.
  - rewrite width_big in * by lia. replace (4 * cnt =? 4) with false by lia.
    replace (off + 8 <=? len) with true by lia. rewrite firstn_mem_read by lia. reflexivity.
  - rewrite width_small in * by lia. cbn [N.eqb Pos.eqb]. replace (off + 4 <=? len) with true by lia.
    rewrite firstn_all2 by (rewrite mem_read_length; lia). reflexivity.
Qed.

Lemma emu_read_operand_ok : forall s c r cnt lane, emu_R s c -> wf_operand 102 256 r cnt lane = true ->
  emu_read_operand s r cnt lane = Some (le_val (firstn 8 (read_bytes c r cnt lane))).
Proof.
  intros s c r cnt lane R Hwf. unfold wf_operand in Hwf. apply andb_true_iff in Hwf. destruct Hwf as [Hs Hi].
  pose proof (lo32_lt (e_vcc s)). pose proof (hi32_lt (e_vcc s)). pose proof (lo32_lt (e_exec s)). pose proof (hi32_lt (e_exec s)).
  destruct r; cbn [wf_shape] in Hs; try discriminate; unfold emu_read_operand, read_bytes, cells_of.
  - rewrite (view_read _ 0 102 CS c i (width cnt) (ER_s _ _ R) dword_cells_CS) by lia.
    rewrite (read_from_reg_file_ok _ S_LEN) by (unfold S_LEN; lia). do 4 f_equal; lia.
  - rewrite (view_read _ (lane * 1024) 256 (CV lane) c i (width cnt) (ER_v _ _ R lane ltac:(lia)) (dword_cells_CV lane)) by lia.
    rewrite (read_from_reg_file_ok _ V_LEN) by (unfold V_LEN; lia). do 4 f_equal; lia.
  - cbn [flat_map cbytes app]. rewrite app_nil_r, (ER_vcclo _ _ R), (ER_vcchi _ _ R), <- split64.
    now rewrite le_val_le_bytes8_small by apply (ER_vcc64 _ _ R).
  - destruct (cnt <=? 1) eqn:E; cbn [flat_map cbytes app]; rewrite app_nil_r.
    + rewrite (ER_vcclo _ _ R). now rewrite le_val_le_bytes4_small.
    + rewrite (ER_vcclo _ _ R), (ER_vcchi _ _ R), <- split64.
      now rewrite le_val_le_bytes8_small by apply (ER_vcc64 _ _ R).
  - rewrite Hs. cbn [flat_map cbytes app]. rewrite app_nil_r, (ER_vcchi _ _ R). now rewrite le_val_le_bytes4_small.
  - cbn [flat_map cbytes app]. rewrite app_nil_r, (ER_execlo _ _ R), (ER_exechi _ _ R), <- split64.
    now rewrite le_val_le_bytes8_small by apply (ER_exec64 _ _ R).
  - destruct (cnt =? 2) eqn:E2; destruct (cnt <=? 1) eqn:E; try lia; cbn [flat_map cbytes app]; rewrite app_nil_r.
    + rewrite (ER_execlo _ _ R), (ER_exechi _ _ R), <- split64.
      now rewrite le_val_le_bytes8_small by apply (ER_exec64 _ _ R).
    + rewrite (ER_execlo _ _ R). now rewrite le_val_le_bytes4_small.
  - rewrite Hs. cbn [flat_map cbytes app]. rewrite app_nil_r, (ER_exechi _ _ R). now rewrite le_val_le_bytes4_small.
  - cbn [flat_map cbytes app le_bytes firstn le_val]. rewrite (ER_scc _ _ R). pose proof (ER_scc8 _ _ R).
    f_equal. lia.
  - cbn [flat_map cbytes app]. rewrite app_nil_r, (ER_m0 _ _ R).
    now rewrite le_val_le_bytes4_small by apply (ER_m032 _ _ R).
Qed.

Lemma u32_of_exact : forall data, length data = 4%nat -> u32_of data = Some (le_val (firstn 4 data)).
Proof. intros. unfold u32_of, lenN. rewrite H. reflexivity. Qed.
Lemma u64_of_exact : forall data, length data = 8%nat -> u64_of data = Some (le_val (firstn 8 data)).
Proof. intros. unfold u64_of, lenN. rewrite H. reflexivity. Qed.

Lemma put_lo_ok : forall x data, bytes_ok data -> length data = 4%nat ->
  exists y, put_lo x data = (y, false) /\ lo32 y = le_val (firstn 4 data) /\ hi32 y = hi32 x /\ y < 2 ^ 64.
Proof.
  intros x data Hok Hl. unfold put_lo. rewrite u32_of_exact by auto. eexists; split; [reflexivity|].
  pose proof (le_val4_lt data Hok). pose proof (hi32_lt x). unfold keep_hi.
  set (h := hi32 x) in *. set (v := le_val (firstn 4 data)) in *.
  unfold lo32, hi32, two32 in *. change (2 ^ 64) with 18446744073709551616. repeat split; lia.
Qed.

Lemma put_hi_ok : forall x data, bytes_ok data -> length data = 4%nat ->
  exists y, put_hi x data = (y, false) /\ lo32 y = lo32 x /\ hi32 y = le_val (firstn 4 data) /\ y < 2 ^ 64.
Proof.
  intros x data Hok Hl. unfold put_hi. rewrite u32_of_exact by auto. eexists; split; [reflexivity|].
  pose proof (le_val4_lt data Hok). pose proof (lo32_lt x). unfold keep_lo.
  set (l := lo32 x) in *. set (v := le_val (firstn 4 data)) in *.
  unfold lo32, hi32, two32 in *. change (2 ^ 64) with 18446744073709551616. repeat split; lia.
Qed.

Lemma put_64_ok : forall x data, bytes_ok data -> length data = 8%nat ->
  exists y, put_64 x data = (y, false) /\ lo32 y = le_val (firstn 4 data) /\
            hi32 y = le_val (firstn 4 (skipn 4 data)) /\ y < 2 ^ 64.
Proof.
  intros x data Hok Hl. unfold put_64. rewrite u64_of_exact by auto. eexists; split; [reflexivity|].
  destruct (le_val8_halves data Hok Hl). repeat split; auto. now apply le_val8_lt.
Qed.

Ltac cell_simpl :=
  repeat first [ rewrite set_cell_same | rewrite set_cell_other by discriminate ].

(** rebuild the relation after a write to special cells only (memories untouched) *)
Ltac special_R R :=
  constructor; cbn [e_sreg e_vreg e_vcc e_exec e_scc e_m0 set_vcc set_exec set_scc set_m0];
  [ apply (view_cells _ _ _ _ _ _ (ER_s _ _ R)); intros; now cell_simpl
  | let l := fresh "l" in let Hl := fresh "Hl" in
    intros l Hl; apply (view_cells _ _ _ _ _ _ (ER_v _ _ R l Hl)); intros; now cell_simpl
  | .. ]; cell_simpl;
  first [ assumption | apply R | congruence | idtac ].

Lemma emu_write_reg_ok : forall s c r cnt lane data, emu_R s c -> wf_operand 102 256 r cnt lane = true ->
  length data = op_bytes r cnt lane -> bytes_ok data ->
  exists s', emu_write_reg s r cnt lane data = (s', false) /\ emu_R s' (write_bytes c r cnt lane data).
Proof.
  intros s c r cnt lane data R Hwf Hlen Hok. unfold wf_operand in Hwf. apply andb_true_iff in Hwf. destruct Hwf as [Hs Hi].
  destruct r; cbn [wf_shape] in Hs; try discriminate; unfold emu_write_reg, write_bytes.
  - (* s registers *)
    rewrite op_bytes_S in Hlen. rewrite num_bytes_dw by reflexivity. pose proof (width_pos cnt).
    replace (i * 4 + 4 * width cnt <=? S_LEN) with true by (unfold S_LEN; lia).
    unfold firstnN. rewrite firstn_all2 by lia. eexists; split; [reflexivity|].
    unfold cells_of. constructor; cbn [e_sreg e_vreg e_vcc e_exec e_scc e_m0 set_sreg];
      try (try rewrite write_ids_other by not_in_ids; apply R).
    + replace (i * 4) with (0 + 4 * i) by lia. apply view_write; auto using dword_cells_CS. apply R. lia.
    + intros l Hl. apply (view_cells _ _ _ _ _ _ (ER_v _ _ R l Hl)). intros. apply write_ids_other. not_in_ids.
  - (* v registers *)
    rewrite op_bytes_V in Hlen. rewrite num_bytes_dw by reflexivity. pose proof (width_pos cnt).
    replace (lane * 256 * 4 + i * 4 + 4 * width cnt <=? V_LEN) with true by (unfold V_LEN; lia).
    unfold firstnN. rewrite firstn_all2 by lia. eexists; split; [reflexivity|].
    unfold cells_of. constructor; cbn [e_sreg e_vreg e_vcc e_exec e_scc e_m0 set_vreg];
      try (try rewrite write_ids_other by not_in_ids; apply R).
    + apply (view_cells _ _ _ _ _ _ (ER_s _ _ R)). intros. apply write_ids_other. not_in_ids.
    + intros l Hl. destruct (N.eq_dec l lane) as [->|Hne].
      * replace (lane * 256 * 4 + i * 4) with (lane * 1024 + 4 * i) by lia.
        apply view_write; auto using dword_cells_CV. apply R; auto. lia.
      * apply view_frame. apply R; auto. unfold lenN. lia.
        intros j Hj. not_in_ids.
  - (* vcc *)
    cbn [cells_of op_bytes fold_right cbytes] in *. destruct (put_64_ok (e_vcc s) data Hok Hlen) as [y [E [Hl [Hh Hb]]]].
    rewrite E. cbn [fst snd]. eexists; split; [reflexivity|].
    cbn [cells_of write_ids cbytes]. special_R R.
  - (* vcc_lo *)
    unfold op_bytes in Hlen. cbn [cells_of] in *. destruct (cnt <=? 1) eqn:E1.
    + cbn [fold_right cbytes] in Hlen. destruct (put_lo_ok (e_vcc s) data Hok Hlen) as [y [E [Hl [Hh Hb]]]].
      rewrite E. cbn [fst snd]. eexists; split; [reflexivity|]. cbn [write_ids cbytes]. special_R R.
      rewrite Hh. apply R.
    + cbn [fold_right cbytes] in Hlen. destruct (put_64_ok (e_vcc s) data Hok Hlen) as [y [E [Hl [Hh Hb]]]].
      rewrite E. cbn [fst snd]. eexists; split; [reflexivity|]. cbn [write_ids cbytes]. special_R R.
  - (* vcc_hi *)
    rewrite Hs. cbn [cells_of op_bytes fold_right cbytes] in *.
    destruct (put_hi_ok (e_vcc s) data Hok Hlen) as [y [E [Hl [Hh Hb]]]].
    rewrite E. cbn [fst snd]. eexists; split; [reflexivity|]. cbn [write_ids cbytes]. special_R R.
    rewrite Hl. apply R.
  - (* exec *)
    cbn [cells_of op_bytes fold_right cbytes] in *. destruct (put_64_ok (e_exec s) data Hok Hlen) as [y [E [Hl [Hh Hb]]]].
    rewrite E. cbn [fst snd]. eexists; split; [reflexivity|].
    cbn [cells_of write_ids cbytes]. special_R R.
  - (* exec_lo *)
    unfold op_bytes in Hlen. cbn [cells_of] in *. destruct (cnt =? 2) eqn:E2; destruct (cnt <=? 1) eqn:E1; try lia.
    + cbn [fold_right cbytes] in Hlen. destruct (put_64_ok (e_exec s) data Hok Hlen) as [y [E [Hl [Hh Hb]]]].
      rewrite E. cbn [fst snd]. eexists; split; [reflexivity|]. cbn [write_ids cbytes]. special_R R.
    + cbn [fold_right cbytes] in Hlen. destruct (put_lo_ok (e_exec s) data Hok Hlen) as [y [E [Hl [Hh Hb]]]].
      rewrite E. cbn [fst snd]. eexists; split; [reflexivity|]. cbn [write_ids cbytes]. special_R R.
      rewrite Hh. apply R.
  - (* exec_hi *)
    rewrite Hs. cbn [cells_of op_bytes fold_right cbytes] in *.
    destruct (put_hi_ok (e_exec s) data Hok Hlen) as [y [E [Hl [Hh Hb]]]].
    rewrite E. cbn [fst snd]. eexists; split; [reflexivity|]. cbn [write_ids cbytes]. special_R R.
    rewrite Hl. apply R.
  - (* scc *)
    cbn [cells_of op_bytes fold_right cbytes] in *. destruct data as [|b [|? ?]]; try discriminate.
    eexists; split; [reflexivity|]. cbn [cells_of write_ids cbytes firstn le_val]. special_R R.
    + lia.
    + inversion Hok; auto.
  - (* m0 *)
    cbn [cells_of op_bytes fold_right cbytes] in *. rewrite u32_of_exact by auto.
    eexists; split; [reflexivity|]. cbn [cells_of write_ids cbytes]. special_R R.
    apply le_val4_lt; auto.
Qed.

Lemma num_bytes_op_bytes : forall ns nv r cnt lane, wf_operand ns nv r cnt lane = true ->
  num_bytes r cnt = N.of_nat (op_bytes r cnt lane).
Proof.
  intros ns nv r cnt lane Hwf. unfold wf_operand in Hwf. apply andb_true_iff in Hwf. destruct Hwf as [Hs _].
  destruct r; cbn [wf_shape] in Hs; try discriminate.
  - rewrite op_bytes_S, num_bytes_dw by reflexivity. lia.
  - rewrite op_bytes_V, num_bytes_dw by reflexivity. lia.
  - nb_is 8. reflexivity.
  - unfold op_bytes. cbn [cells_of]. destruct (cnt <=? 1) eqn:E; [nb_is 4|nb_is 8]; reflexivity.
  - nb_is 4. reflexivity.
  - nb_is 8. reflexivity.
  - unfold op_bytes. cbn [cells_of]. destruct (cnt <=? 1) eqn:E; [nb_is 4|nb_is 8]; reflexivity.
  - nb_is 4. reflexivity.
  - nb_is 1. reflexivity.
  - nb_is 4. reflexivity.
Qed.

Lemma emu_access_ok : forall s c a r cnt lane, emu_R s c -> wf_access 102 256 a r cnt lane ->
  exists s', emu_access s a r cnt lane = (s', snd (spec_access c a r cnt lane)) /\
             emu_R s' (fst (spec_access c a r cnt lane)).
Proof.
  intros s c a r cnt lane R [Hwf Ha]. destruct a; cbn [emu_access spec_access fst snd].
  - rewrite (emu_read_reg_ok s c) by auto. eexists; split; [reflexivity|auto].
  - destruct Ha as [Hl Hok]. destruct (emu_write_reg_ok s c r cnt lane data R Hwf Hl Hok) as [s' [E R']].
    rewrite E. eauto.
  - rewrite (emu_read_operand_ok s c) by auto. eexists; split; [reflexivity|auto].
  - destruct Ha as [Hl Hv]. unfold emu_write_operand. rewrite (num_bytes_op_bytes _ _ _ _ _ Hwf).
    replace (N.of_nat (op_bytes r cnt lane) <=? 8) with true by lia.
    unfold firstnN. rewrite Nat2N.id.
    destruct (emu_write_reg_ok s c r cnt lane (firstn (op_bytes r cnt lane) (le_bytes 8 v)) R Hwf) as [s' [E R']].
    + rewrite firstn_length, le_bytes_length. lia.
    + apply bytes_ok_firstn, le_bytes_ok.
    + rewrite E. eauto.
  - contradiction.
Qed.

Definition wf_acc (ns nv : N -> N) (a : acc) : Prop :=
  wf_access (ns (a_w a)) (nv (a_w a)) (a_api a) (a_reg a) (a_cnt a) (a_lane a).

Definition emu_world_R (ws : emu_world) (cs : wcells) : Prop := forall w, emu_R (ws w) (cs w).

Lemma emu_step_ok : forall ws cs a, emu_world_R ws cs -> wf_acc (fun _ => 102) (fun _ => 256) a ->
  snd (emu_step ws a) = snd (spec_step cs a) /\ emu_world_R (fst (emu_step ws a)) (fst (spec_step cs a)).
Proof.
  intros ws cs a R Hwf. unfold emu_step, spec_step.
  destruct (emu_access_ok _ _ _ _ _ _ (R (a_w a)) Hwf) as [s' [E R']]. rewrite E.
  destruct (spec_access (cs (a_w a)) (a_api a) (a_reg a) (a_cnt a) (a_lane a)) as [c' o]. cbn [fst snd] in *.
  split; auto. intros w. unfold wupd. destruct (w =? a_w a); auto.
Qed.

Lemma emu_run_ok : forall h ws cs, emu_world_R ws cs -> Forall (wf_acc (fun _ => 102) (fun _ => 256)) h ->
  snd (emu_run ws h) = snd (spec_run cs h) /\ emu_world_R (fst (emu_run ws h)) (fst (spec_run cs h)).
Proof.
  induction h as [|a rest IH]; intros ws cs R Hwf; cbn [emu_run spec_run].
  - auto.
  - inversion Hwf; subst. destruct (emu_step_ok ws cs a R H1) as [Ho R1].
    destruct (emu_step ws a) as [w1 o]. destruct (spec_step cs a) as [c1 o']. cbn [fst snd] in *.
    destruct (IH w1 c1 R1 H2) as [Hos R2].
    destruct (emu_run w1 rest) as [w2 os]. destruct (spec_run c1 rest) as [c2 os']. cbn [fst snd] in *.
    split; auto. congruence.
Qed.

(** * the timing register files refine the cells of every co-resident wavefront *)

Record wave_R (sm vm : mem) (sp : tspecial) (wv : wave) (c : cells) : Prop := {
  TR_s : view sm (soff wv) (nsgpr wv) CS c;
  TR_v : forall l, l < 64 -> view vm (l * 1024 + voff wv) (nvgpr wv) (CV l) c;
  TR_vcclo : c CVccLo = lo32 (t_vcc sp);
  TR_vcchi : c CVccHi = hi32 (t_vcc sp);
  TR_vcc64 : t_vcc sp < 2 ^ 64;
  TR_execlo : c CExecLo = lo32 (t_exec sp);
  TR_exechi : c CExecHi = hi32 (t_exec sp);
  TR_exec64 : t_exec sp < 2 ^ 64;
  TR_scc : c CScc = t_scc sp;
  TR_scc8 : t_scc sp < 256;
  TR_m0 : c CM0 = t_m0 sp;
  TR_m032 : t_m0 sp < two32 }.

(** the allocations of the co-resident wavefronts 0 .. nw-1 lie inside the
    files and are pairwise disjoint (what the dispatcher's resource masks
    guarantee, property C09) *)
Record layout_ok (st : tstate) (nw : N) : Prop := {
  L_bpl : t_bpl st = 1024;
  L_vlen : 64 * 1024 <= t_vlen st;
  L_in : forall w, w < nw ->
         soff (t_waves st w) + 4 * nsgpr (t_waves st w) <= t_slen st /\
         simd (t_waves st w) < t_nsimd st /\
         voff (t_waves st w) + 4 * nvgpr (t_waves st w) <= 1024;
  L_disj : forall w w', w < nw -> w' < nw -> w <> w' ->
         (soff (t_waves st w) + 4 * nsgpr (t_waves st w) <= soff (t_waves st w') \/
          soff (t_waves st w') + 4 * nsgpr (t_waves st w') <= soff (t_waves st w)) /\
         (simd (t_waves st w) <> simd (t_waves st w') \/
          voff (t_waves st w) + 4 * nvgpr (t_waves st w) <= voff (t_waves st w') \/
          voff (t_waves st w') + 4 * nvgpr (t_waves st w') <= voff (t_waves st w)) }.

Definition timing_R (st : tstate) (nw : N) (cs : wcells) : Prop :=
  layout_ok st nw /\
  forall w, w < nw -> wave_R (t_sreg st) (t_vreg st (simd (t_waves st w))) (t_sp st w) (t_waves st w) (cs w).

Lemma size_is_width : forall cnt, 4 * (if cnt =? 0 then 1 else cnt) = 4 * width cnt.
Proof. intros. unfold width. destruct (cnt =? 0) eqn:A, (cnt <=? 1) eqn:B; lia. Qed.

Lemma dlen_is_width : forall r cnt, bytesize r = 4 -> (if 2 <=? cnt then bytesize r * cnt else bytesize r) = 4 * width cnt.
Proof. intros. exact (num_bytes_dw r cnt H). Qed.

Lemma timing_read_reg_ok : forall st nw cs w r cnt lane, timing_R st nw cs -> w < nw ->
  wf_operand (nsgpr (t_waves st w)) (nvgpr (t_waves st w)) r cnt lane = true ->
  timing_read_reg st w r cnt lane = Some (read_bytes (cs w) r cnt lane).
Proof.
  intros st nw cs w r cnt lane [L Rs] Hw Hwf. pose proof (Rs w Hw) as R.
  destruct (L_in _ _ L w Hw) as [Ls [Lsimd Lv]]. pose proof (L_bpl _ _ L) as Lb. pose proof (L_vlen _ _ L) as Lvl.
  unfold wf_operand in Hwf. apply andb_true_iff in Hwf. destruct Hwf as [Hs Hi].
  destruct r; cbn [wf_shape] in Hs; try discriminate; unfold timing_read_reg, read_bytes, cells_of.
  - rewrite size_is_width, dlen_is_width by reflexivity. pose proof (width_pos cnt).
    replace (i * 4 + soff (t_waves st w) + 4 * width cnt <=? t_slen st) with true by lia.
    unfold firstnN. rewrite firstn_all2 by (rewrite mem_read_length; lia). f_equal.
    rewrite (view_read _ _ _ CS _ i (width cnt) (TR_s _ _ _ _ _ R) dword_cells_CS) by lia. f_equal; lia.
  - rewrite size_is_width, dlen_is_width by reflexivity. pose proof (width_pos cnt). rewrite Lb.
    replace (simd (t_waves st w) <? t_nsimd st) with true by lia.
    replace (i * 4 + lane * 1024 + voff (t_waves st w) + 4 * width cnt <=? t_vlen st) with true by lia.
    cbn [andb]. unfold firstnN. rewrite firstn_all2 by (rewrite mem_read_length; lia). f_equal.
    rewrite (view_read _ _ _ (CV lane) _ i (width cnt) (TR_v _ _ _ _ _ R lane ltac:(lia)) (dword_cells_CV lane)) by lia.
    f_equal; lia.
  - cbn [flat_map cbytes app]. now rewrite app_nil_r, (TR_vcclo _ _ _ _ _ R), (TR_vcchi _ _ _ _ _ R), split64.
  - destruct (cnt <=? 1) eqn:E; destruct (2 <=? cnt) eqn:E2; try lia; cbn [flat_map cbytes app]; rewrite app_nil_r.
    + now rewrite (TR_vcclo _ _ _ _ _ R).
    + now rewrite (TR_vcclo _ _ _ _ _ R), (TR_vcchi _ _ _ _ _ R), split64.
  - replace (2 <=? cnt) with false by lia. cbn [flat_map cbytes app]. now rewrite app_nil_r, (TR_vcchi _ _ _ _ _ R).
  - cbn [flat_map cbytes app]. now rewrite app_nil_r, (TR_execlo _ _ _ _ _ R), (TR_exechi _ _ _ _ _ R), split64.
  - destruct (cnt <=? 1) eqn:E; destruct (2 <=? cnt) eqn:E2; try lia; cbn [flat_map cbytes app]; rewrite app_nil_r.
    + now rewrite (TR_execlo _ _ _ _ _ R).
    + now rewrite (TR_execlo _ _ _ _ _ R), (TR_exechi _ _ _ _ _ R), split64.
  - replace (2 <=? cnt) with false by lia. cbn [flat_map cbytes app]. now rewrite app_nil_r, (TR_exechi _ _ _ _ _ R).
  - cbn [flat_map cbytes app le_bytes]. rewrite (TR_scc _ _ _ _ _ R). pose proof (TR_scc8 _ _ _ _ _ R).
    replace (t_scc (t_sp st w) mod 256) with (t_scc (t_sp st w)) by lia. reflexivity.
  - cbn [flat_map cbytes app]. now rewrite app_nil_r, (TR_m0 _ _ _ _ _ R).
Qed.

Lemma view_mem_frame : forall m base n g c off data, view m base n g c ->
  (base + 4 * n <= off \/ off + lenN data <= base) -> view (mem_write m off data) base n g c.
Proof. intros m base n g c off data Hv Hd j Hj. rewrite mem_read_write_out by lia. auto. Qed.

Lemma tput_lo_ok : forall x cnt data, bytes_ok data -> length data = 4%nat -> cnt <= 1 ->
  exists y, tput x false cnt data = Some y /\ lo32 y = le_val (firstn 4 data) /\ hi32 y = hi32 x /\ y < 2 ^ 64.
Proof.
  intros x cnt data Hok Hl Hc. unfold tput, lenN. rewrite Hl. replace (2 <=? cnt) with false by lia. cbn [orb N.leb N.compare N.of_nat Pos.of_succ_nat Pos.succ Pos.compare Pos.compare_cont].
  destruct (put_lo_ok x data Hok Hl) as [y [E P]]. unfold put_lo in E. rewrite u32_of_exact in * by auto.
  inversion E; subst. eauto.
Qed.

Lemma tput_hi_ok : forall x cnt data, bytes_ok data -> length data = 4%nat -> cnt <= 1 ->
  exists y, tput x true cnt data = Some y /\ lo32 y = lo32 x /\ hi32 y = le_val (firstn 4 data) /\ y < 2 ^ 64.
Proof.
  intros x cnt data Hok Hl Hc. unfold tput, lenN. rewrite Hl. replace (2 <=? cnt) with false by lia. cbn [orb N.leb N.compare N.of_nat Pos.of_succ_nat Pos.succ Pos.compare Pos.compare_cont].
  destruct (put_hi_ok x data Hok Hl) as [y [E P]]. unfold put_hi in E. rewrite u32_of_exact in * by auto.
  inversion E; subst. rewrite N.add_comm. eauto.
Qed.

Lemma tput_64_ok : forall x h cnt data, bytes_ok data -> length data = 8%nat ->
  exists y, tput x h cnt data = Some y /\ lo32 y = le_val (firstn 4 data) /\
            hi32 y = le_val (firstn 4 (skipn 4 data)) /\ y < 2 ^ 64.
Proof.
  intros x h cnt data Hok Hl. unfold tput, lenN. rewrite Hl.
  replace ((2 <=? cnt) || (8 <=? N.of_nat 8)) with true by (rewrite orb_true_r; reflexivity).
  rewrite u64_padded_eq. destruct (le_val8_halves data Hok Hl). eexists; split; [reflexivity|].
  repeat split; auto. now apply le_val8_lt.
Qed.

Ltac special_TR R :=
  constructor; cbn [t_vcc t_exec t_scc t_m0];
  [ apply (view_cells _ _ _ _ _ _ (TR_s _ _ _ _ _ R)); intros; now cell_simpl
  | let l := fresh "l" in let Hl := fresh "Hl" in
    intros l Hl; apply (view_cells _ _ _ _ _ _ (TR_v _ _ _ _ _ R l Hl)); intros; now cell_simpl
  | .. ]; cell_simpl;
  first [ assumption | apply R | congruence | idtac ].

Lemma layout_ok_same : forall st st' nw, layout_ok st nw ->
  t_bpl st' = t_bpl st -> t_vlen st' = t_vlen st -> t_slen st' = t_slen st -> t_nsimd st' = t_nsimd st ->
  t_waves st' = t_waves st -> layout_ok st' nw.
Proof. intros st st' nw [A B C D] E1 E2 E3 E4 E5. constructor; rewrite ?E1, ?E2, ?E3, ?E4, ?E5; auto. Qed.

(** a write that only replaces the special registers of wavefront w *)
Lemma timing_R_special : forall st nw cs w sp' c',
  timing_R st nw cs -> w < nw ->
  wave_R (t_sreg st) (t_vreg st (simd (t_waves st w))) sp' (t_waves st w) c' ->
  timing_R (set_tsp st w sp') nw (wupd cs w c').
Proof.
  intros st nw cs w sp' c' [L Rs] Hw R'. split.
  - apply (layout_ok_same st); auto.
  - intros w' Hw'. cbn [set_tsp t_sreg t_vreg t_sp t_waves]. unfold wupd.
    destruct (w' =? w) eqn:E.
    + apply N.eqb_eq in E. subst. auto.
    + auto.
Qed.

Lemma timing_write_reg_ok : forall st nw cs w r cnt lane data, timing_R st nw cs -> w < nw ->
  wf_operand (nsgpr (t_waves st w)) (nvgpr (t_waves st w)) r cnt lane = true ->
  length data = op_bytes r cnt lane -> bytes_ok data ->
  exists st', timing_write_reg st w r cnt lane data = (st', false) /\
              timing_R st' nw (wupd cs w (write_bytes (cs w) r cnt lane data)).
Proof.
  intros st nw cs w r cnt lane data HR Hw Hwf Hlen Hok. pose proof HR as [L Rs]. pose proof (Rs w Hw) as R.
  destruct (L_in _ _ L w Hw) as [Ls [Lsimd Lv]]. pose proof (L_bpl _ _ L) as Lb. pose proof (L_vlen _ _ L) as Lvl.
  unfold wf_operand in Hwf. apply andb_true_iff in Hwf. destruct Hwf as [Hs Hi].
  destruct r; cbn [wf_shape] in Hs; try discriminate; unfold timing_write_reg, write_bytes.
  - (* s registers: the shared scalar file *)
    rewrite op_bytes_S in Hlen. rewrite size_is_width. pose proof (width_pos cnt).
    replace (4 * width cnt <=? lenN data) with true by (unfold lenN; lia).
    replace (i * 4 + soff (t_waves st w) + 4 * width cnt <=? t_slen st) with true by lia. cbn [andb].
    unfold firstnN. rewrite firstn_all2 by lia. eexists; split; [reflexivity|]. split.
    + apply (layout_ok_same st); auto.
    + intros w' Hw'. cbn [set_tsreg t_sreg t_vreg t_sp t_waves]. unfold wupd. destruct (w' =? w) eqn:E.
      * apply N.eqb_eq in E. subst w'. unfold cells_of.
        constructor; try (try rewrite write_ids_other by not_in_ids; apply R).
        -- replace (i * 4 + soff (t_waves st w)) with (soff (t_waves st w) + 4 * i) by lia.
           apply view_write; auto using dword_cells_CS. apply R. lia.
        -- intros l Hl. apply (view_cells _ _ _ _ _ _ (TR_v _ _ _ _ _ R l Hl)). intros. apply write_ids_other. not_in_ids.
      * apply N.eqb_neq in E. pose proof (Rs w' Hw') as R'. destruct (L_disj _ _ L w w' Hw Hw' ltac:(congruence)) as [Ds _].
        constructor; try apply R'.
        apply view_mem_frame. apply R'. unfold lenN. lia.
  - (* v registers: the vector file of the wavefront's SIMD *)
    rewrite op_bytes_V in Hlen. rewrite size_is_width. pose proof (width_pos cnt). rewrite Lb.
    replace (simd (t_waves st w) <? t_nsimd st) with true by lia.
    replace (4 * width cnt <=? lenN data) with true by (unfold lenN; lia).
    replace (i * 4 + lane * 1024 + voff (t_waves st w) + 4 * width cnt <=? t_vlen st) with true by lia. cbn [andb].
    unfold firstnN. rewrite firstn_all2 by lia. eexists; split; [reflexivity|]. split.
    + apply (layout_ok_same st); auto.
    + intros w' Hw'. cbn [set_tvreg t_sreg t_vreg t_sp t_waves]. unfold wupd at 2. destruct (w' =? w) eqn:E.
      * apply N.eqb_eq in E. subst w'. unfold wupd. rewrite N.eqb_refl. unfold cells_of.
        constructor; try (try rewrite write_ids_other by not_in_ids; apply R).
        -- apply (view_cells _ _ _ _ _ _ (TR_s _ _ _ _ _ R)). intros. apply write_ids_other. not_in_ids.
        -- intros l Hl. destruct (N.eq_dec l lane) as [->|Hne].
           ++ replace (i * 4 + lane * 1024 + voff (t_waves st w)) with (lane * 1024 + voff (t_waves st w) + 4 * i) by lia.
              apply view_write; auto using dword_cells_CV. apply R; auto. lia.
           ++ apply view_frame. apply R; auto. unfold lenN. lia.
              intros j Hj. not_in_ids.
      * apply N.eqb_neq in E. pose proof (Rs w' Hw') as R'.
        destruct (L_disj _ _ L w w' Hw Hw' ltac:(congruence)) as [_ Dv].
        destruct (L_in _ _ L w' Hw') as [_ [_ Lv']].
        unfold wupd. destruct (simd (t_waves st w') =? simd (t_waves st w)) eqn:Es.
        -- apply N.eqb_eq in Es. constructor; try apply R'.
           intros l Hl. apply view_mem_frame. rewrite <- Es. apply R'; auto. unfold lenN. lia.
        -- auto.
  - (* vcc *)
    cbn [cells_of op_bytes fold_right cbytes] in *.
    destruct (tput_64_ok (t_vcc (t_sp st w)) false cnt data Hok Hlen) as [y [E [Hl [Hh Hb]]]].
    rewrite E. eexists; split; [reflexivity|]. apply timing_R_special; auto. cbn [write_ids cbytes]. special_TR R.
  - (* vcc_lo *)
    unfold op_bytes in Hlen. cbn [cells_of] in *. destruct (cnt <=? 1) eqn:E1; cbn [fold_right cbytes] in Hlen.
    + destruct (tput_lo_ok (t_vcc (t_sp st w)) cnt data Hok Hlen ltac:(lia)) as [y [E [Hl [Hh Hb]]]].
      rewrite E. eexists; split; [reflexivity|]. apply timing_R_special; auto. cbn [write_ids cbytes]. special_TR R.
      rewrite Hh. apply R.
    + destruct (tput_64_ok (t_vcc (t_sp st w)) false cnt data Hok Hlen) as [y [E [Hl [Hh Hb]]]].
      rewrite E. eexists; split; [reflexivity|]. apply timing_R_special; auto. cbn [write_ids cbytes]. special_TR R.
  - (* vcc_hi *)
    cbn [cells_of op_bytes fold_right cbytes] in *.
    destruct (tput_hi_ok (t_vcc (t_sp st w)) cnt data Hok Hlen ltac:(lia)) as [y [E [Hl [Hh Hb]]]].
    rewrite E. eexists; split; [reflexivity|]. apply timing_R_special; auto. cbn [write_ids cbytes]. special_TR R.
    rewrite Hl. apply R.
  - (* exec *)
    cbn [cells_of op_bytes fold_right cbytes] in *.
    destruct (tput_64_ok (t_exec (t_sp st w)) false cnt data Hok Hlen) as [y [E [Hl [Hh Hb]]]].
    rewrite E. eexists; split; [reflexivity|]. apply timing_R_special; auto. cbn [write_ids cbytes]. special_TR R.
  - (* exec_lo *)
    unfold op_bytes in Hlen. cbn [cells_of] in *. destruct (cnt <=? 1) eqn:E1; cbn [fold_right cbytes] in Hlen.
    + destruct (tput_lo_ok (t_exec (t_sp st w)) cnt data Hok Hlen ltac:(lia)) as [y [E [Hl [Hh Hb]]]].
      rewrite E. eexists; split; [reflexivity|]. apply timing_R_special; auto. cbn [write_ids cbytes]. special_TR R.
      rewrite Hh. apply R.
    + destruct (tput_64_ok (t_exec (t_sp st w)) false cnt data Hok Hlen) as [y [E [Hl [Hh Hb]]]].
      rewrite E. eexists; split; [reflexivity|]. apply timing_R_special; auto. cbn [write_ids cbytes]. special_TR R.
  - (* exec_hi *)
    cbn [cells_of op_bytes fold_right cbytes] in *.
    destruct (tput_hi_ok (t_exec (t_sp st w)) cnt data Hok Hlen ltac:(lia)) as [y [E [Hl [Hh Hb]]]].
    rewrite E. eexists; split; [reflexivity|]. apply timing_R_special; auto. cbn [write_ids cbytes]. special_TR R.
    rewrite Hl. apply R.
  - (* scc *)
    cbn [cells_of op_bytes fold_right cbytes] in *. destruct data as [|b [|? ?]]; try discriminate.
    eexists; split; [reflexivity|]. apply timing_R_special; auto. cbn [cells_of write_ids cbytes firstn le_val]. special_TR R.
    + lia.
    + inversion Hok; auto.
  - (* m0 *)
    cbn [cells_of op_bytes fold_right cbytes] in *. rewrite u32_of_exact by auto.
    eexists; split; [reflexivity|]. apply timing_R_special; auto. cbn [cells_of write_ids cbytes]. special_TR R.
    apply le_val4_lt; auto.
Qed.

Lemma timing_write_reg_waves : forall st w r cnt lane data,
  t_waves (fst (timing_write_reg st w r cnt lane data)) = t_waves st.
Proof.
  intros. unfold timing_write_reg.
  destruct r; repeat match goal with |- context [match ?x with _ => _ end] => destruct x end; reflexivity.
Qed.

Lemma timing_R_ext : forall st nw cs cs', (forall w, cs' w = cs w) -> timing_R st nw cs -> timing_R st nw cs'.
Proof. intros st nw cs cs' H [L R]. split; auto. intros w Hw. rewrite H. auto. Qed.

Lemma wupd_same : forall (cs : wcells) w j, wupd cs w (cs w) j = cs j.
Proof. intros. unfold wupd. destruct (j =? w) eqn:E; auto. apply N.eqb_eq in E. now subst. Qed.

Definition twf (wv : N -> wave) (nw : N) (a : acc) : Prop :=
  a_w a < nw /\ wf_acc (fun w => nsgpr (wv w)) (fun w => nvgpr (wv w)) a.

Lemma timing_step_ok : forall st nw cs a, timing_R st nw cs -> twf (t_waves st) nw a ->
  snd (timing_step st a) = snd (spec_step cs a) /\
  timing_R (fst (timing_step st a)) nw (fst (spec_step cs a)) /\
  t_waves (fst (timing_step st a)) = t_waves st.
Proof.
  intros st nw cs [w a r cnt lane] R [Hw [Hwf Ha]]. cbn [a_w a_api a_reg a_cnt a_lane] in *.
  unfold timing_step, spec_step, spec_access. cbn [a_w a_api a_reg a_cnt a_lane].
  destruct a; cbn [fst snd].
  - rewrite (timing_read_reg_ok st nw cs) by auto. cbn [fst snd]. split; [reflexivity|split; [|reflexivity]].
    apply (timing_R_ext st nw cs); auto using wupd_same.
  - destruct Ha as [Hl Hok]. pose proof (timing_write_reg_waves st w r cnt lane data) as Wv.
    destruct (timing_write_reg_ok st nw cs w r cnt lane data R Hw Hwf Hl Hok) as [st' [E R']].
    rewrite E in *. cbn [fst snd] in *. auto.
  - unfold timing_read_operand. rewrite (timing_read_reg_ok st nw cs) by auto. cbn [fst snd].
    rewrite u64_padded_eq. split; [reflexivity|split; [|reflexivity]].
    apply (timing_R_ext st nw cs); auto using wupd_same.
  - destruct Ha as [Hl Hv]. unfold timing_write_operand. rewrite (num_bytes_op_bytes _ _ _ _ _ Hwf).
    replace (N.of_nat (op_bytes r cnt lane) <=? 8) with true by lia.
    unfold firstnN. rewrite Nat2N.id.
    pose proof (timing_write_reg_waves st w r cnt lane (firstn (op_bytes r cnt lane) (le_bytes 8 v))) as Wv.
    destruct (timing_write_reg_ok st nw cs w r cnt lane (firstn (op_bytes r cnt lane) (le_bytes 8 v)) R Hw Hwf) as [st' [E R']].
    + rewrite firstn_length, le_bytes_length. lia.
    + apply bytes_ok_firstn, le_bytes_ok.
    + rewrite E in *. cbn [fst snd] in *. auto.
  - contradiction.
Qed.

Lemma timing_run_ok : forall h st nw cs, timing_R st nw cs -> Forall (twf (t_waves st) nw) h ->
  snd (timing_run st h) = snd (spec_run cs h) /\ timing_R (fst (timing_run st h)) nw (fst (spec_run cs h)).
Proof.
  induction h as [|a rest IH]; intros st nw cs R Hwf; cbn [timing_run spec_run].
  - auto.
  - inversion Hwf; subst. destruct (timing_step_ok st nw cs a R H1) as [Ho [R1 Wv]].
    destruct (timing_step st a) as [s1 o]. destruct (spec_step cs a) as [c1 o']. cbn [fst snd] in *.
    rewrite <- Wv in H2. destruct (IH s1 nw c1 R1 H2) as [Hos R2].
    destruct (timing_run s1 rest) as [s2 os]. destruct (spec_run c1 rest) as [c2 os']. cbn [fst snd] in *.
    split; auto. congruence.
Qed.

(** * the cell array itself: independence and read-back *)

Lemma cells_of_nodup : forall r cnt lane, NoDup (cells_of r cnt lane).
Proof.
  intros. destruct r; cbn [cells_of].
  - unfold nseq. rewrite map_map. apply Injective_map_NoDup; [|apply seq_NoDup].
    intros a b H. inversion H. lia.
  - unfold nseq. rewrite map_map. apply Injective_map_NoDup; [|apply seq_NoDup].
    intros a b H. inversion H. lia.
  - repeat constructor; cbn; intuition discriminate.
  - destruct (cnt <=? 1); repeat constructor; cbn; intuition discriminate.
  - repeat constructor; cbn; intuition discriminate.
  - repeat constructor; cbn; intuition discriminate.
  - destruct (cnt <=? 1); repeat constructor; cbn; intuition discriminate.
  - repeat constructor; cbn; intuition discriminate.
  - repeat constructor; cbn; intuition discriminate.
  - repeat constructor; cbn; intuition discriminate.
  - constructor.
Qed.

Lemma spec_write_frame : forall c r cnt lane data id,
  ~ In id (cells_of r cnt lane) -> write_bytes c r cnt lane data id = c id.
Proof. intros. apply write_ids_other; auto. Qed.

Lemma spec_read_after_write : forall c r cnt lane data,
  length data = op_bytes r cnt lane -> bytes_ok data ->
  read_bytes (write_bytes c r cnt lane data) r cnt lane = data.
Proof. intros. unfold read_bytes, write_bytes. apply read_after_write_ids; auto using cells_of_nodup. Qed.

Lemma spec_step_other_wave : forall cs a w, w <> a_w a -> fst (spec_step cs a) w = cs w.
Proof.
  intros. unfold spec_step. destruct (spec_access _ _ _ _ _). cbn [fst]. unfold wupd.
  destruct (w =? a_w a) eqn:E; auto. apply N.eqb_eq in E. contradiction.
Qed.

Lemma in_cells_S : forall i cnt lane j, In (CS j) (cells_of (RS i) cnt lane) <-> i <= j < i + width cnt.
Proof.
  intros. cbn [cells_of]. unfold nseq. rewrite map_map, in_map_iff. split.
  - intros [k [E Hk]]. apply in_seq in Hk. inversion E. lia.
  - intros H. exists (N.to_nat (j - i)). split. f_equal; lia. apply in_seq. lia.
Qed.

Lemma in_cells_V : forall i cnt lane l j, In (CV l j) (cells_of (RV i) cnt lane) <-> l = lane /\ i <= j < i + width cnt.
Proof.
  intros. cbn [cells_of]. unfold nseq. rewrite map_map, in_map_iff. split.
  - intros [k [E Hk]]. apply in_seq in Hk. inversion E. lia.
  - intros [-> H]. exists (N.to_nat (j - i)). split. f_equal; lia. apply in_seq. lia.
Qed.

Lemma spec_run_no_panic : forall h cs, ~ In OPanic (snd (spec_run cs h)).
Proof.
  induction h as [|a rest IH]; intros cs; cbn [spec_run]; auto.
  destruct (spec_step cs a) as [c1 o] eqn:E. specialize (IH c1).
  destruct (spec_run c1 rest) as [c2 os]. cbn [snd] in *. intros [H|H]; auto.
  unfold spec_step in E. destruct (spec_access _ _ _ _ _) as [c' o'] eqn:E2. inversion E; subst.
  unfold spec_access in E2. destruct (a_api a); inversion E2; discriminate.
Qed.

Lemma wupd_eq : forall {A} (f : N -> A) w x, wupd f w x w = x.
Proof. intros. unfold wupd. now rewrite N.eqb_refl. Qed.

(** a value written to an operand is read back unchanged at the same width *)
Lemma spec_write_then_read : forall cs w r cnt lane data,
  length data = op_bytes r cnt lane -> bytes_ok data ->
  snd (spec_run cs [mkAcc w (AWrite data) r cnt lane; mkAcc w (ARead (lenN data)) r cnt lane]) = [ODone; OBytes data].
Proof.
  intros. cbn [spec_run spec_step spec_access a_w a_api a_reg a_cnt a_lane snd]. rewrite wupd_eq.
  rewrite spec_read_after_write by auto. unfold lenN. rewrite Nat2N.id, firstn_all. reflexivity.
Qed.

(** ... and every cell outside the operand, every other lane and every other wavefront keeps its content *)
Lemma spec_write_changes_nothing_else : forall cs w r cnt lane data w' id,
  w' <> w \/ ~ In id (cells_of r cnt lane) ->
  fst (spec_step cs (mkAcc w (AWrite data) r cnt lane)) w' id = cs w' id.
Proof.
  intros. cbn [spec_step spec_access a_w a_api a_reg a_cnt a_lane fst]. unfold wupd.
  destruct (w' =? w) eqn:E; auto. apply N.eqb_eq in E. subst. destruct H; [contradiction|].
  now apply spec_write_frame.
Qed.

(** * abstraction functions *)

Definition emu_abs (s : emu_wf) : cells := fun id =>
  match id with
  | CS j => le_val (mem_read (e_sreg s) (4 * j) 4)
  | CV l j => le_val (mem_read (e_vreg s) (l * 1024 + 4 * j) 4)
  | CVccLo => lo32 (e_vcc s) | CVccHi => hi32 (e_vcc s)
  | CExecLo => lo32 (e_exec s) | CExecHi => hi32 (e_exec s)
  | CScc => e_scc s | CM0 => e_m0 s
  end.

(** what the Go types guarantee: bytes are bytes, vcc/exec are uint64, M0 is uint32 *)
Definition emu_ok (s : emu_wf) : Prop :=
  (forall a, e_sreg s a < 256) /\ (forall a, e_vreg s a < 256) /\
  e_vcc s < 2 ^ 64 /\ e_exec s < 2 ^ 64 /\ e_scc s < 256 /\ e_m0 s < two32.

Lemma mem_read_bytes_ok : forall m off n, (forall a, m a < 256) -> bytes_ok (mem_read m off n).
Proof. intros. unfold bytes_ok, mem_read. apply Forall_forall. intros x Hx. apply in_map_iff in Hx. destruct Hx as [k [<- _]]. auto. Qed.

Lemma view_abs : forall m base n g c, (forall a, m a < 256) ->
  (forall j, j < n -> c (g j) = le_val (mem_read m (base + 4 * j) 4)) -> view m base n g c.
Proof.
  intros m base n g c Hm H j Hj. rewrite H by auto.
  replace 4%nat with (length (mem_read m (base + 4 * j) 4)) at 1 by (now rewrite mem_read_length).
  apply le_bytes_le_val. now apply mem_read_bytes_ok.
Qed.

Lemma emu_abs_R : forall s, emu_ok s -> emu_R s (emu_abs s).
Proof.
  intros s [Hs [Hv [A [B [C D]]]]]. constructor; cbn [emu_abs]; auto.
  - apply view_abs; auto.
  - intros l Hl. apply view_abs; auto.
Qed.

Definition timing_abs (st : tstate) (w : N) : cells := fun id =>
  let wv := t_waves st w in let sp := t_sp st w in
  match id with
  | CS j => le_val (mem_read (t_sreg st) (soff wv + 4 * j) 4)
  | CV l j => le_val (mem_read (t_vreg st (simd wv)) (l * 1024 + voff wv + 4 * j) 4)
  | CVccLo => lo32 (t_vcc sp) | CVccHi => hi32 (t_vcc sp)
  | CExecLo => lo32 (t_exec sp) | CExecHi => hi32 (t_exec sp)
  | CScc => t_scc sp | CM0 => t_m0 sp
  end.

Definition timing_ok (st : tstate) (nw : N) : Prop :=
  layout_ok st nw /\ (forall a, t_sreg st a < 256) /\ (forall k a, t_vreg st k a < 256) /\
  forall w, w < nw -> t_vcc (t_sp st w) < 2 ^ 64 /\ t_exec (t_sp st w) < 2 ^ 64 /\
                      t_scc (t_sp st w) < 256 /\ t_m0 (t_sp st w) < two32.

Lemma timing_abs_R : forall st nw, timing_ok st nw -> timing_R st nw (timing_abs st).
Proof.
  intros st nw [L [Hs [Hv Hsp]]]. split; auto. intros w Hw. destruct (Hsp w Hw) as [A [B [C D]]].
  constructor; cbn [timing_abs]; auto.
  - apply view_abs; auto.
  - intros l Hl. apply view_abs; auto.
Qed.

(** * both register stores give identical answers *)

Lemma wf_access_mono : forall ns nv ns' nv' a r cnt lane, ns <= ns' -> nv <= nv' ->
  wf_access ns nv a r cnt lane -> wf_access ns' nv' a r cnt lane.
Proof.
  intros ns nv ns' nv' a r cnt lane Hs Hv [Hwf Ha]. split; auto.
  unfold wf_operand in *. apply andb_true_iff in Hwf. destruct Hwf as [H1 H2]. apply andb_true_iff. split; auto.
  destruct r; auto; lia.
Qed.

Lemma emu_timing_agree : forall h ws st nw cs,
  emu_world_R ws cs -> timing_R st nw cs -> (forall w, w < nw -> nsgpr (t_waves st w) <= 102) ->
  Forall (twf (t_waves st) nw) h ->
  snd (emu_run ws h) = snd (timing_run st h).
Proof.
  intros h ws st nw cs Re Rt Hns Hwf.
  destruct (timing_run_ok h st nw cs Rt Hwf) as [Ht _].
  assert (He : Forall (wf_acc (fun _ => 102) (fun _ => 256)) h).
  { destruct Rt as [L _]. eapply Forall_impl; [|exact Hwf]. intros a [Hw Ha]. unfold wf_acc in *.
    destruct (L_in _ _ L (a_w a) Hw) as [_ [_ Lv]]. eapply wf_access_mono; [| |exact Ha]; auto. lia. }
  destruct (emu_run_ok h ws cs Re He) as [He' _]. congruence.
Qed.
