(** C07 — implementation models: transcriptions of the register stores of
    /repo (with the C07 repairs applied, see docs/C07.md):
      emulation:  amd/emu/wavefront.go  ReadReg / WriteReg / readRegOperand /
                  ReadOperand / WriteOperand / ReadOperandBytes / WriteOperandBytes
      timing:     amd/timing/wavefront/wavefront.go (the same four operand
                  functions), amd/timing/cu/regfileaccessor.go (ReadReg / WriteReg),
                  amd/timing/cu/registerfile.go (SimpleRegisterFile),
                  amd/timing/cu/scheduler.go resetRegisterValue.
    Go byte slices are total maps address -> byte together with their length;
    every slice expression of the Go code is an explicit bounds test here and
    a Go panic is [None] / a crash flag.  Definitions only. *)
From Coq Require Import NArith List Bool.
From VIsa Require Import RegSpec.
Import ListNotations.
Open Scope N_scope.

Definition mem := N -> N.

Definition lenN {A} (l : list A) : N := N.of_nat (length l).

(** copy(m[off:off+len data], data) *)
Definition mem_write (m : mem) (off : N) (data : list N) : mem :=
  fun a => if (off <=? a) && (a <? off + lenN data) then nth (N.to_nat (a - off)) data 0 else m a.

(** the n bytes m[off:off+n] *)
Definition mem_read (m : mem) (off n : N) : list N := map (fun k => m (off + k)) (nseq n).

Definition firstnN {A} (n : N) (l : list A) := firstn (N.to_nat n) l.

(** copy(value, src) into a fresh zeroed buffer of nb bytes *)
Definition copy_into_zero (nb : N) (src : list N) : list N :=
  firstnN nb src ++ repeat 0 (N.to_nat nb - length src).

Definition two32 : N := 4294967296.
Definition lo32 (x : N) : N := x mod two32.                 (* uint32(x) *)
Definition hi32 (x : N) : N := (x / two32) mod two32.       (* uint32(x >> 32) *)
Definition keep_hi (x : N) : N := hi32 x * two32.           (* x & 0xffffffff00000000 *)
Definition keep_lo (x : N) : N := lo32 x.                   (* x & 0x00000000ffffffff *)

(** insts.Reg.ByteSize *)
Definition bytesize (r : reg) : N :=
  match r with
  | RVcc | RExec => 8
  | RScc => 1
  | _ => 4
  end.

(** numBytes := reg.ByteSize; if regCount >= 2 { numBytes *= regCount } *)
Definition num_bytes (r : reg) (cnt : N) : N :=
  if 2 <=? cnt then bytesize r * cnt else bytesize r.

(** binary.LittleEndian.Uint32 / Uint64: panic on short slices *)
Definition u32_of (data : list N) : option N :=
  if 4 <=? lenN data then Some (le_val (firstn 4 data)) else None.
Definition u64_of (data : list N) : option N :=
  if 8 <=? lenN data then Some (le_val (firstn 8 data)) else None.

(** ** the emulator wavefront (emu.Wavefront) *)
Record emu_wf := mkEmu {
  e_sreg : mem;   (* SRegFile, 4*102 bytes *)
  e_vreg : mem;   (* VRegFile, 4*64*256 bytes *)
  e_vcc : N; e_exec : N; e_scc : N; e_m0 : N }.

Definition S_LEN : N := 408.
Definition V_LEN : N := 65536.

(** emu.Wavefront.ReadReg *)
Definition emu_read_reg (s : emu_wf) (r : reg) (cnt lane : N) : option (list N) :=
  let nb := num_bytes r cnt in
  match r with
  | RS i => let off := i * 4 in
            if off + nb <=? S_LEN then Some (mem_read (e_sreg s) off nb) else None
  | RV i => let off := lane * 256 * 4 + i * 4 in
            if off + nb <=? V_LEN then Some (mem_read (e_vreg s) off nb) else None
  | RScc => Some (copy_into_zero nb [e_scc s])
  | RVcc => Some (copy_into_zero nb (le_bytes 8 (e_vcc s)))
  | RVccLo => if cnt <=? 1 then Some (copy_into_zero nb (le_bytes 4 (lo32 (e_vcc s))))
              else Some (copy_into_zero nb (le_bytes 8 (e_vcc s)))   (* RegCount 2, and the by-name fall-back for > 2 *)
  | RVccHi => if cnt <=? 1 then Some (copy_into_zero nb (le_bytes 4 (hi32 (e_vcc s))))
              else Some (copy_into_zero nb (le_bytes 8 (e_vcc s)))   (* by-name fall-back *)
  | RExec => Some (copy_into_zero nb (le_bytes 8 (e_exec s)))
  | RExecLo => if cnt =? 2 then Some (copy_into_zero nb (le_bytes 8 (e_exec s)))
               else if cnt <=? 1 then Some (copy_into_zero nb (le_bytes 4 (lo32 (e_exec s))))
               else None
  | RExecHi => if cnt <=? 1 then Some (copy_into_zero nb (le_bytes 4 (hi32 (e_exec s)))) else None
  | RM0 => Some (copy_into_zero nb (le_bytes 4 (e_m0 s)))
  | ROther => None
  end.

Definition set_sreg s m := mkEmu m (e_vreg s) (e_vcc s) (e_exec s) (e_scc s) (e_m0 s).
Definition set_vreg s m := mkEmu (e_sreg s) m (e_vcc s) (e_exec s) (e_scc s) (e_m0 s).
Definition set_vcc s v := mkEmu (e_sreg s) (e_vreg s) v (e_exec s) (e_scc s) (e_m0 s).
Definition set_exec s v := mkEmu (e_sreg s) (e_vreg s) (e_vcc s) v (e_scc s) (e_m0 s).
Definition set_scc s v := mkEmu (e_sreg s) (e_vreg s) (e_vcc s) (e_exec s) v (e_m0 s).
Definition set_m0 s v := mkEmu (e_sreg s) (e_vreg s) (e_vcc s) (e_exec s) (e_scc s) v.

(** x &= 0xffffffff00000000; x |= uint64(BytesToUint32(data))   (the mask is applied before the conversion can panic) *)
Definition put_lo (x : N) (data : list N) : N * bool :=
  match u32_of data with Some v => (keep_hi x + v, false) | None => (keep_hi x, true) end.
(** x &= 0x00000000ffffffff; x |= uint64(BytesToUint32(data)) << 32 *)
Definition put_hi (x : N) (data : list N) : N * bool :=
  match u32_of data with Some v => (keep_lo x + v * two32, false) | None => (keep_lo x, true) end.
Definition put_64 (x : N) (data : list N) : N * bool :=
  match u64_of data with Some v => (v, false) | None => (x, true) end.

(** emu.Wavefront.WriteReg; the boolean is "panicked" *)
Definition emu_write_reg (s : emu_wf) (r : reg) (cnt lane : N) (data : list N) : emu_wf * bool :=
  let nb := num_bytes r cnt in
  let vcc_with (p : N * bool) := (set_vcc s (fst p), snd p) in
  let exec_with (p : N * bool) := (set_exec s (fst p), snd p) in
  match r with
  | RS i => let off := i * 4 in
            if off + nb <=? S_LEN then (set_sreg s (mem_write (e_sreg s) off (firstnN nb data)), false) else (s, true)
  | RV i => let off := lane * 256 * 4 + i * 4 in
            if off + nb <=? V_LEN then (set_vreg s (mem_write (e_vreg s) off (firstnN nb data)), false) else (s, true)
  | RScc => match data with b :: _ => (set_scc s b, false) | [] => (s, true) end
  | RVcc => vcc_with (put_64 (e_vcc s) data)
  | RVccLo => if cnt <=? 1 then vcc_with (put_lo (e_vcc s) data)   (* RegCount 1; RegCount 0 through the by-name fall-back *)
              else vcc_with (put_64 (e_vcc s) data)                (* RegCount 2; > 2 through the fall-back *)
  | RVccHi => if cnt <=? 1 then vcc_with (put_hi (e_vcc s) data)
              else vcc_with (put_64 (e_vcc s) data)
  | RExec => exec_with (put_64 (e_exec s) data)
  | RExecLo => if cnt =? 2 then exec_with (put_64 (e_exec s) data)
               else if cnt <=? 1 then exec_with (put_lo (e_exec s) data)
               else (s, true)
  | RExecHi => if cnt <=? 1 then exec_with (put_hi (e_exec s) data) else (s, true)
  | RM0 => match u32_of data with Some v => (set_m0 s v, false) | None => (s, true) end
  | ROther => (s, true)
  end.

(** readFromRegFile + readRegOperand (ReadOperand of a register operand) *)
Definition read_from_reg_file (m : mem) (len off cnt : N) : option N :=
  if (if 2 <=? cnt then 4 * cnt else 4) =? 4
  then (if off + 4 <=? len then Some (le_val (mem_read m off 4)) else None)
  else (if off + 8 <=? len then Some (le_val (mem_read m off 8)) else None).

Definition emu_read_operand (s : emu_wf) (r : reg) (cnt lane : N) : option N :=
  match r with
  | RV i => read_from_reg_file (e_vreg s) V_LEN (lane * 256 * 4 + i * 4) cnt
  | RS i => read_from_reg_file (e_sreg s) S_LEN (i * 4) cnt
  | RScc => Some (e_scc s)
  | RVcc => Some (e_vcc s)
  | RVccLo => if cnt <=? 1 then Some (lo32 (e_vcc s)) else Some (e_vcc s)
  | RVccHi => if cnt <=? 1 then Some (hi32 (e_vcc s)) else Some (e_vcc s)
  | RExec => Some (e_exec s)
  | RExecLo => if cnt =? 2 then Some (e_exec s) else Some (lo32 (e_exec s))
  | RExecHi => if cnt <=? 1 then Some (hi32 (e_exec s)) else None   (* falls back to ReadReg, which panics *)
  | RM0 => Some (e_m0 s)
  | ROther => None
  end.

(** WriteOperand: data := Uint64ToBytes(value); WriteReg(..., data[:numBytes]) *)
Definition emu_write_operand (s : emu_wf) (r : reg) (cnt lane v : N) : emu_wf * bool :=
  let nb := num_bytes r cnt in
  if nb <=? 8 then emu_write_reg s r cnt lane (firstnN nb (le_bytes 8 v)) else (s, true).

Definition emu_access (s : emu_wf) (a : api) (r : reg) (cnt lane : N) : emu_wf * obs :=
  match a with
  | ARead bc => (s, match emu_read_reg s r cnt lane with Some buf => OBytes (firstnN bc buf) | None => OPanic end)
  | AReadU => (s, match emu_read_operand s r cnt lane with Some v => OVal v | None => OPanic end)
  | AWrite data => let '(s', p) := emu_write_reg s r cnt lane data in (s', if p then OPanic else ODone)
  | AWriteU v => let '(s', p) := emu_write_operand s r cnt lane v in (s', if p then OPanic else ODone)
  | AReset => (s, ODone)
  end.

(** one emulator wavefront object per co-resident wavefront *)
Definition emu_world := N -> emu_wf.

Definition emu_step (ws : emu_world) (a : acc) : emu_world * obs :=
  let '(s', o) := emu_access (ws (a_w a)) (a_api a) (a_reg a) (a_cnt a) (a_lane a) in
  (wupd ws (a_w a) s', o).

Fixpoint emu_run (ws : emu_world) (h : list acc) : emu_world * list obs :=
  match h with
  | [] => (ws, [])
  | a :: rest => let '(w1, o) := emu_step ws a in let '(w2, os) := emu_run w1 rest in (w2, o :: os)
  end.

(** ** the timing model: shared register files of a compute unit *)
Record wave := mkWave { soff : N; voff : N; simd : N; nsgpr : N; nvgpr : N }.

Record tspecial := mkSp { t_vcc : N; t_exec : N; t_scc : N; t_m0 : N }.

Record tstate := mkT {
  t_sreg : mem;            (* cu.SRegFile storage *)
  t_slen : N;
  t_vreg : N -> mem;       (* cu.VRegFile[simd] storage *)
  t_vlen : N;
  t_nsimd : N;
  t_bpl : N;               (* ByteSizePerLane of the vector files *)
  t_sp : N -> tspecial;    (* vcc/exec/scc/M0 fields of the wavefront objects *)
  t_waves : N -> wave      (* SRegOffset / VRegOffset / SIMDID / register counts of the code object *)
}.

(** SimpleRegisterFile.getRegOffset + Read, through CURegFileAccessor.ReadReg *)
Definition timing_read_reg (st : tstate) (w : N) (r : reg) (cnt lane : N) : option (list N) :=
  let sp := t_sp st w in
  let wv := t_waves st w in
  let size := 4 * (if cnt =? 0 then 1 else cnt) in                     (* RegisterFile.Read *)
  let dlen := if 2 <=? cnt then bytesize r * cnt else bytesize r in     (* len(access.Data) *)
  match r with
  | RScc => Some [t_scc sp]
  | RVcc => Some (le_bytes 8 (t_vcc sp))
  | RVccLo => if 2 <=? cnt then Some (le_bytes 8 (t_vcc sp)) else Some (le_bytes 4 (lo32 (t_vcc sp)))
  | RVccHi => if 2 <=? cnt then Some (le_bytes 8 (t_vcc sp)) else Some (le_bytes 4 (hi32 (t_vcc sp)))
  | RExec => Some (le_bytes 8 (t_exec sp))
  | RExecLo => if 2 <=? cnt then Some (le_bytes 8 (t_exec sp)) else Some (le_bytes 4 (lo32 (t_exec sp)))
  | RExecHi => if 2 <=? cnt then Some (le_bytes 8 (t_exec sp)) else Some (le_bytes 4 (hi32 (t_exec sp)))
  | RM0 => Some (le_bytes 4 (t_m0 sp))
  | RS i => let off := i * 4 + soff wv in
            if off + size <=? t_slen st then Some (firstnN dlen (mem_read (t_sreg st) off size)) else None
  | RV i => let off := i * 4 + lane * t_bpl st + voff wv in
            if (simd wv <? t_nsimd st) && (off + size <=? t_vlen st)
            then Some (firstnN dlen (mem_read (t_vreg st (simd wv)) off size)) else None
  | ROther => None
  end.

Definition set_tsp (st : tstate) (w : N) (sp : tspecial) : tstate :=
  mkT (t_sreg st) (t_slen st) (t_vreg st) (t_vlen st) (t_nsimd st) (t_bpl st) (wupd (t_sp st) w sp) (t_waves st).
Definition set_tsreg (st : tstate) (m : mem) : tstate :=
  mkT m (t_slen st) (t_vreg st) (t_vlen st) (t_nsimd st) (t_bpl st) (t_sp st) (t_waves st).
Definition set_tvreg (st : tstate) (k : N) (m : mem) : tstate :=
  mkT (t_sreg st) (t_slen st) (wupd (t_vreg st) k m) (t_vlen st) (t_nsimd st) (t_bpl st) (t_sp st) (t_waves st).

(** padTo8 + BytesToUint64 *)
Definition u64_padded (data : list N) : N := le_val (firstn 8 (data ++ repeat 0 (8 - length data))).

(** the 64/32-bit choice of CURegFileAccessor.WriteReg for vcc/exec and their halves *)
Definition tput (x : N) (high : bool) (cnt : N) (data : list N) : option N :=
  if (2 <=? cnt) || (8 <=? lenN data) then Some (u64_padded data)
  else match u32_of data with
       | Some v => Some (if high then v * two32 + keep_lo x else keep_hi x + v)
       | None => None
       end.

Definition timing_write_reg (st : tstate) (w : N) (r : reg) (cnt lane : N) (data : list N) : tstate * bool :=
  let sp := t_sp st w in
  let wv := t_waves st w in
  let size := 4 * (if cnt =? 0 then 1 else cnt) in
  let vcc_with (o : option N) := match o with Some v => (set_tsp st w (mkSp v (t_exec sp) (t_scc sp) (t_m0 sp)), false) | None => (st, true) end in
  let exec_with (o : option N) := match o with Some v => (set_tsp st w (mkSp (t_vcc sp) v (t_scc sp) (t_m0 sp)), false) | None => (st, true) end in
  match r with
  | RScc => match data with b :: _ => (set_tsp st w (mkSp (t_vcc sp) (t_exec sp) b (t_m0 sp)), false) | [] => (st, true) end
  | RVcc | RVccLo => vcc_with (tput (t_vcc sp) false cnt data)
  | RVccHi => vcc_with (tput (t_vcc sp) true cnt data)
  | RExec | RExecLo => exec_with (tput (t_exec sp) false cnt data)
  | RExecHi => exec_with (tput (t_exec sp) true cnt data)
  | RM0 => match u32_of data with Some v => (set_tsp st w (mkSp (t_vcc sp) (t_exec sp) (t_scc sp) v), false) | None => (st, true) end
  | RS i => let off := i * 4 + soff wv in
            if (size <=? lenN data) && (off + size <=? t_slen st)
            then (set_tsreg st (mem_write (t_sreg st) off (firstnN size data)), false) else (st, true)
  | RV i => let off := i * 4 + lane * t_bpl st + voff wv in
            if (simd wv <? t_nsimd st) && (size <=? lenN data) && (off + size <=? t_vlen st)
            then (set_tvreg st (simd wv) (mem_write (t_vreg st (simd wv)) off (firstnN size data)), false) else (st, true)
  | ROther => (st, true)
  end.

(** timing wavefront.ReadOperand: pad the accessor's bytes to 8, BytesToUint64 *)
Definition timing_read_operand (st : tstate) (w : N) (r : reg) (cnt lane : N) : option N :=
  match timing_read_reg st w r cnt lane with
  | Some buf => Some (u64_padded buf)
  | None => None
  end.

Definition timing_write_operand (st : tstate) (w : N) (r : reg) (cnt lane v : N) : tstate * bool :=
  let nb := num_bytes r cnt in
  if nb <=? 8 then timing_write_reg st w r cnt lane (firstnN nb (le_bytes 8 v)) else (st, true).

(** copy(storage[off:], data) *)
Definition copy_tail (m : mem) (len off : N) (data : list N) : option mem :=
  if off <=? len then Some (mem_write m off (firstnN (len - off) data)) else None.

(** SchedulerImpl.resetRegisterValue *)
Definition timing_reset (st : tstate) (w : N) : tstate * bool :=
  let wv := t_waves st w in
  let st1 :=
    if 0 <? nvgpr wv then
      if simd wv <? t_nsimd st then
        fold_left (fun (acc : option mem) (i : N) =>
                     match acc with
                     | Some m => copy_tail m (t_vlen st) (voff wv + t_bpl st * i) (repeat 0 (N.to_nat (nvgpr wv * 4)))
                     | None => None
                     end) (nseq 64) (Some (t_vreg st (simd wv)))
      else None
    else Some (t_vreg st (simd wv)) in
  match st1 with
  | None => (st, true)   (* an earlier iteration may already have zeroed lanes: only compared when it does not panic *)
  | Some vm =>
    let st' := if 0 <? nvgpr wv then set_tvreg st (simd wv) vm else st in
    if 0 <? nsgpr wv then
      match copy_tail (t_sreg st') (t_slen st') (soff wv) (repeat 0 (N.to_nat (nsgpr wv * 4))) with
      | Some sm => (set_tsreg st' sm, false)
      | None => (st', true)
      end
    else (st', false)
  end.

Definition timing_step (st : tstate) (a : acc) : tstate * obs :=
  let w := a_w a in let r := a_reg a in let cnt := a_cnt a in let lane := a_lane a in
  match a_api a with
  | ARead bc => (st, match timing_read_reg st w r cnt lane with Some buf => OBytes (firstnN bc buf) | None => OPanic end)
  | AReadU => (st, match timing_read_operand st w r cnt lane with Some v => OVal v | None => OPanic end)
  | AWrite data => let '(s', p) := timing_write_reg st w r cnt lane data in (s', if p then OPanic else ODone)
  | AWriteU v => let '(s', p) := timing_write_operand st w r cnt lane v in (s', if p then OPanic else ODone)
  | AReset => let '(s', p) := timing_reset st w in (s', if p then OPanic else ODone)
  end.

Fixpoint timing_run (st : tstate) (h : list acc) : tstate * list obs :=
  match h with
  | [] => (st, [])
  | a :: rest => let '(s1, o) := timing_step st a in let '(s2, os) := timing_run s1 rest in (s2, o :: os)
  end.

(** ** correspondence: replay of recorded histories (check driver) *)
Definition pat (salt a : N) : N := (a * 37 + salt * 101 + 11) mod 251.

Definition emu_init (w : N) : emu_wf :=
  mkEmu (pat (w + 1)) (pat (w + 11)) (1229782938533634594 + w) (3689348815028241476 + w) (w mod 2) (1431655765 + w).

Fixpoint find_wave {A} (f : N -> wave -> option A) (k : N) (ws : list wave) : option A :=
  match ws with
  | [] => None
  | wv :: rest => match f k wv with Some x => Some x | None => find_wave f (k + 1) rest end
  end.

Definition s_init (ws : list wave) : mem := fun a =>
  match find_wave (fun w wv => if (soff wv <=? a) && (a <? soff wv + 4 * nsgpr wv) then Some (pat (w + 1) (a - soff wv)) else None) 0 ws with
  | Some b => b | None => pat 50 a end.

Definition v_init (ws : list wave) (sd : N) : mem := fun a =>
  let lane := a / 1024 in let r := a mod 1024 in
  match find_wave (fun w wv => if (simd wv =? sd) && (voff wv <=? r) && (r <? voff wv + 4 * nvgpr wv)
                               then Some (pat (w + 11) (lane * 1024 + r - voff wv)) else None) 0 ws with
  | Some b => b | None => pat (60 + sd) a end.

Definition timing_init (ws : list wave) : tstate :=
  mkT (s_init ws) 12800 (v_init ws) 65536 4 1024
      (fun w => mkSp (1229782938533634594 + w) (3689348815028241476 + w) (w mod 2) (1431655765 + w))
      (fun w => nth (N.to_nat w) ws (mkWave 0 0 0 0 0)).

Definition obs_eqb (a b : obs) : bool :=
  match a, b with
  | OPanic, OPanic | ODone, ODone | ONone, ONone => true
  | OBytes x, OBytes y => (lenN x =? lenN y) && forallb (fun p => fst p =? snd p) (combine x y)
  | OVal x, OVal y => x =? y
  | _, _ => false
  end.

Record case := mkCase {
  c_waves : list wave;
  c_accs : list (acc * obs * obs);                                   (* access, emulator answer, timing answer (ONone: not issued) *)
  c_emu_end : list (list (N * N) * list (N * N * N) * list N);       (* per wavefront: changed s (idx,dword), v (lane,idx,dword), [vcc;exec;scc;m0] *)
  c_tim_end : list (N * N) * list (N * N * N) * list (list N) }.     (* changed bytes of the shared files, specials per wavefront *)

Fixpoint replay (ws : emu_world) (st : tstate) (k : N) (l : list (acc * obs * obs)) : emu_world * tstate * option N :=
  match l with
  | [] => (ws, st, None)
  | (a, oe, ot) :: rest =>
    let '(ws', ge) := match oe with ONone => (ws, ONone) | _ => emu_step ws a end in
    let '(st', gt) := match ot with ONone => (st, ONone) | _ => timing_step st a end in
    if obs_eqb ge oe && obs_eqb gt ot then replay ws' st' (k + 1) rest else (ws', st', Some k)
  end.

Definition emu_end_ok (s : emu_wf) (d : list (N * N) * list (N * N * N) * list N) : bool :=
  let '(ss, vs, sp) := d in
  forallb (fun p => le_val (mem_read (e_sreg s) (4 * fst p) 4) =? snd p) ss &&
  forallb (fun p => let '(l, i, v) := p in le_val (mem_read (e_vreg s) (l * 1024 + 4 * i) 4) =? v) vs &&
  obs_eqb (OBytes [e_vcc s; e_exec s; e_scc s; e_m0 s]) (OBytes sp).

Definition tim_end_ok (st : tstate) (n : N) (d : list (N * N) * list (N * N * N) * list (list N)) : bool :=
  let '(ss, vs, sps) := d in
  forallb (fun p => t_sreg st (fst p) =? snd p) ss &&
  forallb (fun p => let '(sd, a, b) := p in t_vreg st sd a =? b) vs &&
  forallb (fun p => let sp := t_sp st (fst p) in obs_eqb (OBytes [t_vcc sp; t_exec sp; t_scc sp; t_m0 sp]) (OBytes (snd p)))
          (combine (nseq n) sps).

Definition check_case (c : case) : option N :=
  let '(ws, st, r) := replay emu_init (timing_init (c_waves c)) 0 (c_accs c) in
  match r with
  | Some k => Some k
  | None =>
    if forallb (fun p => emu_end_ok (ws (fst p)) (snd p)) (combine (nseq (lenN (c_emu_end c))) (c_emu_end c))
       && tim_end_ok st (lenN (c_waves c)) (c_tim_end c)
    then None else Some 1000000
  end.

Fixpoint mismatches_from (k : N) (cs : list case) : list (N * N) :=
  match cs with
  | [] => []
  | c :: rest => match check_case c with Some d => (k, d) :: mismatches_from (k + 1) rest | None => mismatches_from (k + 1) rest end
  end.
Definition mismatches := mismatches_from 0.

(** the (register, RegCount) shapes the real disassembler produces: how many of
    them are inside the operand set of the theorems (reported as (0, count)) *)
Definition shape_mismatches (ls : list (list (reg * N))) : list (N * N) :=
  match ls with
  | l :: _ => [(0, lenN (filter (fun p => wf_shape (fst p) (snd p)) l))]
  | [] => []
  end.

(** ** which accesses panic (stated independently of the register contents;
    RegProofs2 proves that these predicates are exact for every state) *)

Definition emu_oob (r : reg) (nb lane : N) : bool :=
  match r with
  | RS i => S_LEN <? i * 4 + nb
  | RV i => V_LEN <? lane * 256 * 4 + i * 4 + nb
  | _ => false
  end.

(** ReadReg / ReadOperandBytes *)
Definition emu_read_panics (r : reg) (cnt lane : N) : bool :=
  match r with
  | RS _ | RV _ => emu_oob r (num_bytes r cnt) lane     (* operand runs over the end of the file *)
  | RExecLo => 3 <=? cnt
  | RExecHi => 2 <=? cnt
  | ROther => true                                       (* register not implemented *)
  | _ => false
  end.

(** ReadOperand *)
Definition emu_readu_panics (r : reg) (cnt lane : N) : bool :=
  match r with
  | RS _ | RV _ => emu_oob r (if 2 <=? cnt then 8 else 4) lane
  | RExecHi => 2 <=? cnt
  | ROther => true
  | _ => false
  end.

(** WriteReg / WriteOperandBytes with [len] bytes of data *)
Definition emu_write_panics (r : reg) (cnt lane len : N) : bool :=
  match r with
  | RS _ | RV _ => emu_oob r (num_bytes r cnt) lane
  | RScc => len =? 0
  | RVcc | RExec => len <? 8
  | RVccLo | RVccHi => if cnt <=? 1 then len <? 4 else len <? 8
  | RExecLo => if cnt =? 2 then len <? 8 else if cnt <=? 1 then len <? 4 else true
  | RExecHi => if cnt <=? 1 then len <? 4 else true
  | RM0 => len <? 4
  | ROther => true
  end.

Definition emu_panics (a : api) (r : reg) (cnt lane : N) : bool :=
  match a with
  | ARead _ => emu_read_panics r cnt lane
  | AReadU => emu_readu_panics r cnt lane
  | AWrite data => emu_write_panics r cnt lane (lenN data)
  | AWriteU _ => (8 <? num_bytes r cnt) || emu_write_panics r cnt lane (num_bytes r cnt)   (* data[:numBytes] of an 8-byte slice *)
  | AReset => false
  end.

Definition timing_oob (st : tstate) (w : N) (r : reg) (cnt lane : N) : bool :=
  let wv := t_waves st w in
  let size := 4 * (if cnt =? 0 then 1 else cnt) in
  match r with
  | RS i => t_slen st <? i * 4 + soff wv + size
  | RV i => negb (simd wv <? t_nsimd st) || (t_vlen st <? i * 4 + lane * t_bpl st + voff wv + size)
  | _ => false
  end.

Definition timing_read_panics (st : tstate) (w : N) (r : reg) (cnt lane : N) : bool :=
  match r with
  | RS _ | RV _ => timing_oob st w r cnt lane
  | ROther => true
  | _ => false
  end.

Definition timing_write_panics (st : tstate) (w : N) (r : reg) (cnt lane len : N) : bool :=
  match r with
  | RS _ | RV _ => (len <? 4 * (if cnt =? 0 then 1 else cnt)) || timing_oob st w r cnt lane
  | RScc => len =? 0
  | RM0 => len <? 4
  | ROther => true
  | _ => negb ((2 <=? cnt) || (8 <=? len)) && (len <? 4)      (* vcc, exec and their halves *)
  end.

Definition timing_reset_panics (st : tstate) (w : N) : bool :=
  let wv := t_waves st w in
  ((0 <? nvgpr wv) && (negb (simd wv <? t_nsimd st) || existsb (fun i => t_vlen st <? voff wv + t_bpl st * i) (nseq 64)))
  || ((0 <? nsgpr wv) && (t_slen st <? soff wv)).

Definition timing_panics (st : tstate) (a : acc) : bool :=
  let w := a_w a in let r := a_reg a in let cnt := a_cnt a in let lane := a_lane a in
  match a_api a with
  | ARead _ | AReadU => timing_read_panics st w r cnt lane
  | AWrite data => timing_write_panics st w r cnt lane (lenN data)
  | AWriteU _ => (8 <? num_bytes r cnt) || timing_write_panics st w r cnt lane (num_bytes r cnt)
  | AReset => timing_reset_panics st w
  end.

(** ** wavefront lifetimes: what a newly dispatched wavefront starts from *)

(** emulation — ComputeUnit.initWfs: a new Wavefront object (NewWavefront:
    zeroed register files and special registers) on which initWfRegs sets EXEC
    to the initial mask and v0 of every lane to the work-item id (code object
    without enabled SGPRs).  Nothing of an earlier wavefront enters. *)
Definition emu_zero : emu_wf := mkEmu (fun _ => 0) (fun _ => 0) 0 0 0 0.

Definition emu_dispatch (exec0 : N) (ids : N -> N) : emu_wf :=
  fold_left (fun s l => fst (emu_write_reg s (RV 0) 1 l (le_bytes 4 (ids l)))) (nseq 64) (set_exec emu_zero exec0).

Definition emu_newgen (ws : emu_world) (w exec0 : N) (ids : N -> N) : emu_world := wupd ws w (emu_dispatch exec0 ids).

(** timing — a new wavefront.Wavefront object (special registers zero) at the
    offsets of the released one, WfDispatcherImpl.DispatchWf: EXEC := initial
    mask, v0 of every lane := work-item id, written straight into the SIMD's
    register file *)
Definition timing_dispatch (st : tstate) (w exec0 : N) (ids : N -> N) : tstate :=
  fold_left (fun s l => fst (timing_write_reg s w (RV 0) 1 l (le_bytes 4 (ids l)))) (nseq 64)
            (set_tsp st w (mkSp 0 exec0 0 0)).

(** release of the previous occupant, then dispatch *)
Definition timing_redispatch (st : tstate) (w exec0 : N) (ids : N -> N) : tstate :=
  timing_dispatch (fst (timing_reset st w)) w exec0 ids.
