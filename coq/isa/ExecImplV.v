(** C03 — ExecImpl, vector part: the VOP2 / VOP1 / VOPC / VOP3a / VOP3b integer
    handlers of both ALUs.  Every handler is a sequential loop over the 64
    lanes ([vloop]) that reads its operands with ReadOperand at the lane, writes
    the VGPR destination of that lane and accumulates one mask bit; the mask is
    stored after the loop (SetVCC or WriteOperand of an SGPR pair).  EXEC and
    the VCC carry-in are read once before the loop, as in the Go code.
    Modifier fields of VOP3 (abs/neg/clamp/omod) are assumed zero (the integer
    handlers ignore abs/neg/clamp; omod panics).  For VOP3b the scalar
    destination code travels in [i_simm].  Definitions only. *)
From Coq Require Import ZArith List Bool.
From RecordUpdate Require Import RecordSet.
Import RecordSetNotations.
Import ListNotations.
From VIsa Require Import IsaState ExecImpl.
Open Scope Z_scope.

(** WriteOperand of a VGPR operand with RegCount [cnt] at [lane] *)
Definition wrvn (st : state) (code cnt v lane : Z) : option state :=
  if (256 <=? code) && (code <=? 511) then
    if cnt <=? 1 then Some (st <| vgpr := upd2 (vgpr st) lane (code - 256) (u32 v) |>)
    else Some (st <| vgpr := upd2 (upd2 (vgpr st) lane (code - 256) (u32 v))
                                  lane (code - 255) (u32 (v / W32)) |>)
  else None.

(** what a lane computes: value for the VGPR destination (if any) and mask bit *)
Definition lane_fn := Z -> state -> option (option Z * bool).

Definition vloop (e : Z) (d dcnt : Z) (g : lane_fn) (st : state) : option (state * Z) :=
  fold_left (fun acc l =>
    match acc with
    | None => None
    | Some (s, m) =>
        if bit e l then
          match g l s with
          | None => None
          | Some (ov, b) =>
              match (match ov with Some v => wrvn s d dcnt v l | None => Some s end) with
              | None => None
              | Some s' => Some (s', if b then Z.lor m (Z.shiftl 1 l) else m)
              end
          end
        else Some (s, m)
    end) lanes (Some (st, 0)).

(** where the per-lane carry/select input comes from, where the mask goes *)
Inductive cin_kind := CNone | CVcc | CSrc2.
Inductive mask_kind := MNone | MVcc | MDst | MSdst.

Record vdesc := mkV {
  vd_n : Z;                       (* number of source operands *)
  vd_c0 : Z; vd_c1 : Z; vd_c2 : Z; (* RegCount the decoder attaches *)
  vd_dc : Z;                      (* RegCount of the VGPR destination; -1: no VGPR destination *)
  vd_cin : cin_kind; vd_mask : mask_kind;
  vd_f : Z -> Z -> Z -> bool -> option Z * bool   (* raw S0 S1 S2, carry-in -> value, mask bit *)
}.

Definition s24 (x : Z) : Z := sx 16777216 x.      (* SignExt(x[23:0], 23) as int32 *)
Definition val (v : Z) : option Z * bool := (Some v, false).
Definition valf (v : Z) (b : bool) : option Z * bool := (Some v, b).
Definition flag (b : bool) : option Z * bool := (None, b).
Definition cz (c : bool) : Z := if c then 1 else 0.

Definition d2 (f : Z -> Z -> option Z * bool) : vdesc :=
  mkV 2 0 0 0 0 CNone MNone (fun a b _ _ => f a b).
Definition d2c (m : mask_kind) (f : Z -> Z -> option Z * bool) : vdesc :=
  mkV 2 0 0 0 0 CNone m (fun a b _ _ => f a b).
Definition d2cc (m : mask_kind) (f : Z -> Z -> bool -> option Z * bool) : vdesc :=
  mkV 2 0 0 0 0 CVcc m (fun a b _ c => f a b c).
Definition d3 (f : Z -> Z -> Z -> option Z * bool) : vdesc :=
  mkV 3 0 0 0 0 CNone MNone (fun a b c _ => f a b c).
Definition dcmp (m : mask_kind) (c0 : Z) (r : Z -> Z -> bool) : vdesc :=
  mkV 2 c0 c0 0 (-1) CNone m (fun a b _ _ => flag (r a b)).
Definition d3b (n : Z) (cin : cin_kind) (f : Z -> Z -> bool -> option Z * bool) : vdesc :=
  mkV n 0 0 2 1 cin MSdst (fun a b _ c => f a b c).

Definition min3 (lt : Z -> Z -> bool) (a b c : Z) : Z :=
  let d := if lt b a then b else a in if lt c d then c else d.
Definition med3s (a b c : Z) : Z :=   (* sort.Ints, middle element *)
  Z.max (Z.min a b) (Z.min (Z.max a b) c).

(** ** rows shared by both ALUs (identical Go code up to naming) *)
Definition x_cmp (m : mask_kind) (c0 : Z) (op : Z) : option vdesc :=
  match op with
  | 193 => Some (dcmp m c0 (fun a b => s32 a <? s32 b))
  | 195 => Some (dcmp m c0 (fun a b => s32 a <=? s32 b))
  | 196 => Some (dcmp m c0 (fun a b => s32 a >? s32 b))
  | 197 => Some (dcmp m c0 (fun a b => negb (s32 a =? s32 b)))
  | 198 => Some (dcmp m c0 (fun a b => s32 a >=? s32 b))
  | 202 => Some (dcmp m c0 (fun a b => u32 a =? u32 b))
  | _ => None
  end.

(** 64-bit compares (both ALUs): operands are read as register pairs *)
Definition x_cmp64 (m : mask_kind) (op : Z) : option vdesc :=
  match op with
  | 232 => Some (dcmp m 2 (fun _ _ => false))
  | 233 => Some (dcmp m 2 Z.ltb) | 234 => Some (dcmp m 2 Z.eqb)
  | 235 => Some (dcmp m 2 Z.leb) | 236 => Some (dcmp m 2 Z.gtb)
  | 237 => Some (dcmp m 2 (fun a b => negb (a =? b)))
  | 238 => Some (dcmp m 2 Z.geb)
  | 239 => Some (dcmp m 2 (fun _ _ => true))
  | _ => None
  end.

Definition x_cmp_u (m : mask_kind) (op : Z) : option vdesc :=  (* uint32 compares, both ALUs *)
  match op with
  | 201 => Some (dcmp m 0 (fun a b => u32 a <? u32 b))
  | 203 => Some (dcmp m 0 (fun a b => u32 a <=? u32 b))
  | 204 => Some (dcmp m 0 (fun a b => u32 a >? u32 b))
  | 205 => Some (dcmp m 0 (fun a b => negb (u32 a =? u32 b)))
  | 206 => Some (dcmp m 0 (fun a b => u32 a >=? u32 b))
  | _ => x_cmp m 0 op
  end.

Definition x_vop3_common (op : Z) : option vdesc :=
  match op with
  | 256 => Some (mkV 3 0 0 2 0 CSrc2 MNone (fun a b _ c => val (if c then b else a)))
  | 450 => Some (d3 (fun a b c => val (s32 (s24 a * s24 b + s32 c))))
  | 462 => Some (d3 (fun a b c => val (u32 (Z.shiftr (Z.lor (Z.shiftl (u32 a) 32) (u32 b)) (Z.land c 31)))))
  | 465 => Some (d3 (fun a b c => val (min3 Z.ltb (s32 a) (s32 b) (s32 c))))
  | 466 => Some (d3 (fun a b c => val (min3 Z.ltb (u32 a) (u32 b) (u32 c))))
  | 468 => Some (d3 (fun a b c => val (min3 Z.gtb (s32 a) (s32 b) (s32 c))))
  | 469 => Some (d3 (fun a b c => val (min3 Z.gtb (u32 a) (u32 b) (u32 c))))
  | 471 => Some (d3 (fun a b c => val (med3s (s32 a) (s32 b) (s32 c))))
  | 511 => Some (d3 (fun a b c => val (u32 (u32 a + u32 b + u32 c))))
  | 451 => Some (d3 (fun a b c => val (u32 ((u32 a mod 16777216) * (u32 b mod 16777216) + u32 c))))
  | 457 => Some (d3 (fun a b c => val (u32 (bfe_core (s32 a) (Z.land (u32 b) 31) (Z.land (u32 c) 31)))))
  | 472 => Some (d3 (fun a b c => val (med3s (u32 a) (u32 b) (u32 c))))
  | 488 => Some (mkV 3 0 0 2 2 CNone MNone (fun a b c _ => val (u64 (u32 a * u32 b + c))))
  | 645 => Some (d2 (fun a b => val (u64 (a * b))))
  | 646 => Some (d2 (fun a b => val (Z.shiftr (u64 (u32 a * u32 b)) 32)))
  | 655 => Some (mkV 2 2 2 0 2 CNone MNone (fun a b _ _ => val (u64 (Z.shiftl b (Z.land a 63)))))
  | 657 => Some (mkV 2 2 2 0 2 CNone MNone (fun a b _ _ => val (u64 (Z.shiftr (s64 b) (Z.land a 63)))))
  | _ => None
  end.

(** ** GCN3 ALU *)
Definition g_vop2 (op : Z) : option vdesc :=
  match op with
  | 0 => Some (d2cc MNone (fun a b c => val (if c then b else a)))
  | 6 => Some (d2 (fun a b => val (s32 (s24 a * s24 b))))
  | 8 => Some (d2 (fun a b => val (u32 ((u32 a mod 16777216) * (u32 b mod 16777216)))))
  | 12 => Some (d2 (fun a b => val (if s32 a <? s32 b then s32 a else s32 b)))
  | 13 => Some (d2 (fun a b => val (if s32 a >? s32 b then s32 a else s32 b)))
  | 14 => Some (d2 (fun a b => val (if u32 a <? u32 b then u32 a else u32 b)))
  | 15 => Some (d2 (fun a b => val (if u32 a >=? u32 b then u32 a else u32 b)))
  | 16 => Some (d2 (fun a b => val (Z.shiftr (u32 b) (Z.land a 31))))
  | 17 => Some (d2 (fun a b => val (Z.shiftr (s32 b) (Z.land (u32 a) 31))))
  | 18 => Some (d2 (fun a b => val (u32 (Z.shiftl (u32 b) (Z.land (u32 a) 31)))))
  | 19 => Some (d2 (fun a b => val (Z.land (u32 a) (u32 b))))
  | 20 => Some (d2 (fun a b => val (Z.lor (u32 a) (u32 b))))
  | 21 => Some (d2 (fun a b => val (Z.lxor (u32 a) (u32 b))))
  | 25 | 52 => Some (d2c MVcc (fun a b => valf (u32 (u32 a + u32 b)) (u32 a + u32 b >? 4294967295)))
  | 26 | 53 => Some (d2c MVcc (fun a b => valf (u32 (u32 a - u32 b)) (u32 a <? u32 b)))
  | 27 | 54 => Some (d2c MVcc (fun a b => valf (u32 (u32 b - u32 a)) (u32 a >? u32 b)))
  | 28 => Some (d2cc MVcc (fun a b c => valf (u64 (u32 a + u32 b + cz c)) (u32 a + u32 b + cz c >? 4294967295)))
  | 29 => Some (d2cc MVcc (fun a b c => valf (u64 (u32 a - u32 b - cz c)) (u32 a <? u32 b + cz c)))
  | 30 => Some (d2cc MVcc (fun a b c => valf (u64 (u32 b - u32 a - cz c)) (u32 b <? u32 a + cz c)))
  | _ => None
  end.

Definition x_not (a : Z) : Z := not32 (u32 a).

Definition ffbh (x : Z) : Z :=   (* position of the first 1 bit from the MSB, -1 if none *)
  if x =? 0 then 4294967295 else 31 - Z.log2 x.

Definition g_vop1 (op : Z) : option vdesc :=
  match op with
  | 1 => Some (mkV 1 0 0 0 0 CNone MNone (fun a _ _ _ => val a))
  | 43 => Some (mkV 1 0 0 0 0 CNone MNone (fun a _ _ _ => val (x_not a)))
  | 44 => Some (mkV 1 0 0 0 0 CNone MNone (fun a _ _ _ => val (brev_impl (u32 a))))
  | 45 => Some (mkV 1 0 0 0 0 CNone MNone (fun a _ _ _ => val (ffbh (u32 a))))
  | _ => None
  end.

Definition g_bfe_u (a b c : Z) : Z :=
  let s0 := u32 a in let off := Z.land (u32 b) 31 in let w := Z.land (u32 c) 31 in
  if w =? 0 then 0
  else if off + w <? 32 then Z.land (Z.shiftr s0 off) (Z.shiftl 1 w - 1)
  else Z.shiftr s0 off.
Definition g_vop3a (op : Z) : option vdesc :=
  match op with
  | 456 => Some (d3 (fun a b c => val (g_bfe_u a b c)))
  | 520 => Some (mkV 3 2 0 2 2 CNone MNone
                  (fun a b c _ => val (u64 (u64 (Z.shiftl a (Z.land (u32 b) 63)) + c))))
  | 193 | 195 | 196 | 198 | 201 | 202 | 203 | 204 | 205 | 206 => x_cmp_u MDst op
  | 233 => x_cmp64 MDst op
  | _ => x_vop3_common op
  end.

Definition g_vop3b (op : Z) : option vdesc :=
  match op with
  | 281 => Some (d3b 2 CNone (fun a b _ => valf (u32 (u32 a + u32 b)) (u32 a + u32 b >? 4294967295)))
  | 282 => Some (d3b 2 CNone (fun a b _ => valf (u32 (u64 (u32 a - u32 b))) (u32 a <? u32 b)))
  | 283 => Some (d3b 2 CNone (fun a b _ => valf (u32 (u64 (u32 b - u32 a))) (u64 (u32 b - u32 a) >? 4294967295)))
  | 284 => Some (d3b 3 CSrc2 (fun a b c => valf (u32 (u32 a + u32 b + cz c)) (u32 a + u32 b + cz c >? 4294967295)))
  | 285 => Some (d3b 3 CSrc2 (fun a b c => valf (u32 (u64 (u32 a - u32 b - cz c))) (u64 (u32 a - u32 b - cz c) >? 4294967295)))
  | 286 => Some (d3b 3 CSrc2 (fun a b c => valf (u32 (u64 (u32 b - u32 a - cz c))) (u64 (u32 b - u32 a - cz c) >? 4294967295)))
  | _ => None
  end.

(** ** CDNA3 ALU *)
Definition c_vop2 (op : Z) : option vdesc :=
  match op with
  | 6 => Some (d2 (fun a b => val (s32 (s24 a * s24 b))))
  | 8 => Some (d2 (fun a b => val (u32 ((u32 a mod 16777216) * (u32 b mod 16777216)))))
  | 15 => Some (d2 (fun a b => val (if u32 a >? u32 b then u32 a else u32 b)))
  | 16 => Some (d2 (fun a b => val (Z.shiftr (u32 b) (Z.land (u32 a) 31))))
  | 19 => Some (d2 (fun a b => val (Z.land a b)))
  | 20 => Some (d2 (fun a b => val (Z.lor a b)))
  | 21 => Some (d2 (fun a b => val (Z.lxor a b)))
  | 25 => Some (d2c MVcc (fun a b => valf (u32 (u32 a + u32 b)) (u32 a + u32 b >? 4294967295)))
  | 28 => Some (d2cc MVcc (fun a b c => valf (u32 (u32 a + u32 b + cz c)) (u32 a + u32 b + cz c >? 4294967295)))
  | 29 => Some (d2cc MVcc (fun a b c => valf (u32 (u64 (u32 a - u32 b - cz c))) (u32 b + cz c >? u32 a)))
  | 30 => Some (d2cc MVcc (fun a b c => valf (u32 (u64 (u32 b - u32 a - cz c))) (u32 a + cz c >? u32 b)))
  | 38 => Some (d2 (fun a b => val (u16 (u16 a + u16 b))))
  | 42 => Some (d2 (fun a b => val (u16 (Z.shiftl (u16 b) (Z.land (u16 a) 15)))))
  | 52 => Some (d2 (fun a b => val (u32 (u32 a + u32 b))))
  | 53 => Some (d2 (fun a b => val (u32 (u32 a - u32 b))))
  | 54 => Some (d2 (fun a b => val (u32 (u32 b - u32 a))))
  | 0 | 12 | 13 | 14 | 17 | 18 | 26 | 27 => g_vop2 op
  | _ => None
  end.

Definition c_vop1 (op : Z) : option vdesc :=
  match op with
  | 43 => Some (mkV 1 0 0 0 0 CNone MNone (fun a _ _ _ => val (not64 a)))
  | _ => g_vop1 op
  end.

Definition c_bfe_u (a b c : Z) : Z :=
  let s0 := u32 a in let off := Z.land (u32 b) 31 in let w := Z.land (u32 c) 31 in
  if w =? 0 then 0 else Z.land (Z.shiftr s0 off) (Z.shiftl 1 w - 1).
Definition c_vop3a (op : Z) : option vdesc :=
  match op with
  | 276 => Some (d2 (fun a b => val (Z.lor (u32 a) (u32 b))))
  | 456 => Some (d3 (fun a b c => val (c_bfe_u a b c)))
  | 509 => Some (d3 (fun a b c => val (u32 (u32 (Z.shiftl (u32 a) (Z.land (u32 b) 31)) + u32 c))))
  | 510 => Some (d3 (fun a b c => val (u32 (Z.shiftl (u32 (u32 a + u32 b)) (Z.land (u32 c) 31)))))
  | 512 => Some (d3 (fun a b c => val (Z.lor (u32 (Z.shiftl (u32 a) (Z.land (u32 b) 31))) (u32 c))))
  | 520 => Some (mkV 3 2 0 2 2 CNone MNone
                  (fun a b c _ => val (u64 (u64 (Z.shiftl a (Z.land b 63)) + c))))
  | 193 | 195 | 196 | 198 | 201 | 202 | 203 | 204 | 205 | 206 => x_cmp_u MDst op
  | 233 => x_cmp64 MDst op
  | _ => x_vop3_common op
  end.

Definition c_vop3b (op : Z) : option vdesc :=
  match op with
  | 282 => Some (d3b 2 CNone (fun a b _ => valf (u32 (u32 a - u32 b)) (u32 b >? u32 a)))
  | 283 => Some (d3b 2 CNone (fun a b _ => valf (u32 (u32 b - u32 a)) (u32 a >? u32 b)))
  | 285 => Some (d3b 3 CSrc2 (fun a b c => valf (u32 (u64 (u32 a - u32 b - cz c))) (u32 b + cz c >? u32 a)))
  | 286 => Some (d3b 3 CSrc2 (fun a b c => valf (u32 (u64 (u32 b - u32 a - cz c))) (u32 a + cz c >? u32 b)))
  | 281 | 284 => g_vop3b op
  | _ => None
  end.

Definition vdesc_of (a : arch) (f : format) (op : Z) : option vdesc :=
  match a, f with
  | GCN3, F_VOP2 => g_vop2 op | CDNA3, F_VOP2 => c_vop2 op
  | GCN3, F_VOP1 => g_vop1 op | CDNA3, F_VOP1 => c_vop1 op
  | CDNA3, F_VOPC => if op =? 164 then Some (dcmp MVcc 0 (fun a b => s16 a >? s16 b))
                     else if (232 <=? op) && (op <=? 239) then x_cmp64 MVcc op else x_cmp_u MVcc op
  | GCN3, F_VOPC => if (232 <=? op) && (op <=? 239) then x_cmp64 MVcc op else x_cmp_u MVcc op
  | GCN3, F_VOP3A => g_vop3a op | CDNA3, F_VOP3A => c_vop3a op
  | GCN3, F_VOP3B => g_vop3b op | CDNA3, F_VOP3B => c_vop3b op
  | _, _ => None
  end.

Definition lane_of (d : vdesc) (st0 : state) (i : inst) : lane_fn := fun l s =>
  bind (rdv s (i_src0 i) (vd_c0 d) (i_lit i) l) (fun a =>
  bind (if 2 <=? vd_n d then rdv s (i_src1 i) (vd_c1 d) (i_lit i) l else Some 0) (fun b =>
  bind (if 3 <=? vd_n d then rdv s (i_src2 i) (vd_c2 d) (i_lit i) l else Some 0) (fun c =>
  let cin := match vd_cin d with
             | CNone => false | CVcc => bit (vcc st0) l | CSrc2 => bit c l end in
  let r := vd_f d a b c cin in
  Some ((if vd_dc d <? 0 then None else fst r), snd r)))).

(** first active lane, 0 when EXEC is empty *)
Definition first_lane (e : Z) : Z :=
  match find (fun l => bit e l) lanes with Some l => l | None => 0 end.

(** run one descriptor: the lane loop, then the mask store *)
Definition run_d (d : vdesc) (st : state) (i : inst) : option state :=
  match vloop (exec st) (i_dst i) (vd_dc d) (lane_of d st i) st with
  | None => None
  | Some (s, m) =>
      match vd_mask d with
      | MNone => Some s
      | MVcc => Some (s <| vcc := m |>)
      | MDst => wr s (i_dst i) 2 m
      | MSdst => wr s (i_simm i) 2 m
      end
  end.

Definition exec_vector_gen (a : arch) (st : state) (i : inst) : option state :=
  match vdesc_of a (i_fmt i) (i_op i) with
  | None => None
  | Some d => run_d d st i
  end.

Definition exec_vector (a : arch) (st : state) (i : inst) : option state :=
  match i_fmt i, i_op i with
  | F_VOP1, 2 =>   (* v_readfirstlane_b32: scalar destination, written once per lane with the same value *)
      bind (rdv st (i_src0 i) 0 (i_lit i) (first_lane (exec st))) (fun v => wr st (i_dst i) 0 v)
  | _, _ => exec_vector_gen a st i
  end.
