(** C04 — decode (encode d) = d: bit-field library and per-format proofs. *)
From Coq Require Import NArith ZArith List String Bool Lia.
From Coq Require Import ZifyN ZifyBool.
From RecordUpdate Require Import RecordSet.
From VIsa Require Import InstTypes Decode DecodeProofs Encode.
From VGen Require Import FormatTable DecodeTable RegTable.
Import ListNotations.
Open Scope N_scope.

(* ------------------------------------------------------------------ bit fields *)

Lemma extract_bits_spec w lo hi :
  lo <= hi -> extract_bits w lo hi = (w / 2 ^ lo) mod 2 ^ (hi - lo + 1).
Proof.
  intros H. unfold extract_bits.
  rewrite N.shiftl_1_l, <- N.pred_sub, <- N.ones_equiv.
  rewrite N.shiftr_land, N.shiftr_shiftl_l by lia.
  rewrite N.sub_diag, N.shiftl_0_r, N.land_ones, N.shiftr_div_pow2. reflexivity.
Qed.

Definition fields_ok (fs : list (N * N)) : Prop := Forall (fun f => fst f < 2 ^ snd f) fs.

(** the fields from bit [lo] upwards; a field that straddles [lo] is cut *)
Fixpoint drop (fs : list (N * N)) (lo : N) : option (list (N * N)) :=
  if lo =? 0 then Some fs else
  match fs with
  | [] => None
  | (v, k) :: r => if k <=? lo then drop r (lo - k) else Some ((v / 2 ^ lo, k - lo) :: r)
  end.

Lemma pack_cons_div v k r : v < 2 ^ k -> pack ((v, k) :: r) / 2 ^ k = pack r.
Proof.
  intros H. simpl. rewrite N.mul_comm, N.div_add by (apply N.pow_nonzero; lia).
  rewrite N.div_small by auto. reflexivity.
Qed.

Lemma pack_cons_mod v k r : v < 2 ^ k -> pack ((v, k) :: r) mod 2 ^ k = v.
Proof.
  intros H. simpl. rewrite N.mul_comm, N.mod_add by (apply N.pow_nonzero; lia).
  apply N.mod_small; auto.
Qed.

Lemma pack_cons_div_in v k r lo :
  lo < k -> pack ((v, k) :: r) / 2 ^ lo = pack ((v / 2 ^ lo, k - lo) :: r).
Proof.
  intros H. cbn [pack]. replace k with (lo + (k - lo)) at 1 by lia.
  rewrite N.pow_add_r, <- N.mul_assoc, (N.mul_comm (2 ^ lo)), N.div_add by (apply N.pow_nonzero; lia).
  reflexivity.
Qed.

Lemma drop_div fs : fields_ok fs -> forall lo fs', drop fs lo = Some fs' -> pack fs / 2 ^ lo = pack fs'.
Proof.
  induction 1 as [|[v k] r Hv Hr IH]; intros lo fs'.
  - simpl. destruct (N.eqb_spec lo 0); [|discriminate]. intros E; inversion E; subst. reflexivity.
  - cbn [drop]. destruct (N.eqb_spec lo 0).
    + intros E; inversion E; subst. rewrite N.pow_0_r, N.div_1_r. reflexivity.
    + destruct (N.leb_spec k lo).
      * intros E.
        replace lo with (k + (lo - k)) by lia. rewrite N.pow_add_r, <- N.div_div by (apply N.pow_nonzero; lia).
        rewrite pack_cons_div by exact Hv. apply IH; auto.
      * intros E; inversion E; subst. apply pack_cons_div_in; auto.
Qed.

Lemma fields_ok_drop fs : fields_ok fs -> forall lo fs', drop fs lo = Some fs' -> fields_ok fs'.
Proof.
  induction 1 as [|[v k] r Hv Hr IH]; intros lo fs'.
  - simpl. destruct (lo =? 0); [|discriminate]. intros E; inversion E; constructor.
  - cbn [drop]. destruct (lo =? 0).
    + intros E; inversion E; subst. constructor; auto.
    + destruct (N.leb_spec k lo); [apply IH|].
      intros E; inversion E; subst. constructor; auto. cbn [fst snd] in *.
      apply N.div_lt_upper_bound; [apply N.pow_nonzero; lia|].
      rewrite <- N.pow_add_r. replace (lo + (k - lo)) with k by lia. exact Hv.
Qed.

(** bits lo..hi inside the field that starts (or is cut) at lo *)
Lemma extract_field_sub fs lo hi v k r :
  fields_ok fs -> drop fs lo = Some ((v, k) :: r) -> (lo <=? hi) && (hi - lo + 1 <=? k) = true ->
  extract_bits (pack fs) lo hi = v mod 2 ^ (hi - lo + 1).
Proof.
  intros Hok Hd Hc. apply andb_true_iff in Hc. destruct Hc as [H1 H2].
  apply N.leb_le in H1, H2. rewrite extract_bits_spec by lia.
  rewrite (drop_div fs Hok lo _ Hd). cbn [pack].
  replace k with ((hi - lo + 1) + (k - (hi - lo + 1))) at 1 by lia.
  rewrite N.pow_add_r, <- N.mul_assoc, (N.mul_comm (2 ^ (hi - lo + 1))).
  rewrite N.mod_add by (apply N.pow_nonzero; lia). reflexivity.
Qed.

Lemma extract_field fs lo hi v k r :
  fields_ok fs -> drop fs lo = Some ((v, k) :: r) -> hi = lo + k - 1 -> 0 < k ->
  extract_bits (pack fs) lo hi = v.
Proof.
  intros Hok Hd -> Hk. rewrite (extract_field_sub fs lo _ v k r Hok Hd).
  - replace (lo + k - 1 - lo + 1) with k by lia. apply N.mod_small.
    pose proof (fields_ok_drop fs Hok lo _ Hd) as H. inversion H; auto.
  - apply andb_true_iff. split; apply N.leb_le; lia.
Qed.

Lemma pack_bound fs : fields_ok fs -> pack fs < 2 ^ fold_right (fun f a => snd f + a) 0 fs.
Proof.
  induction 1 as [|[v k] r Hv Hr IH]; simpl; [lia|].
  rewrite N.pow_add_r. simpl in Hv. nia.
Qed.

(* ------------------------------------------------------------------ bytes *)

Lemma le32_bytes w tl : w < 4294967296 -> le32 (bytes_of_word w ++ tl) = w.
Proof.
  intros H. unfold le32, bytes_of_word. cbn [nth app].
  pose proof (N.div_mod w 256 ltac:(lia)). pose proof (N.div_mod (w / 256) 256 ltac:(lia)).
  pose proof (N.div_mod (w / 65536) 256 ltac:(lia)).
  replace (w / 65536) with (w / 256 / 256) in * by (rewrite N.div_div by lia; reflexivity).
  replace (w / 16777216) with (w / 256 / 256 / 256) by (rewrite !N.div_div by lia; reflexivity).
  assert (w / 256 / 256 / 256 < 256).
  { apply N.div_lt_upper_bound; [lia|]. apply N.div_lt_upper_bound; [lia|]. apply N.div_lt_upper_bound; lia. }
  rewrite (N.mod_small (w / 256 / 256 / 256) 256) by auto. lia.
Qed.

(* ------------------------------------------------------------------ format selection *)

(** every mask lies in the nine most significant bits *)
Lemma masks_top9 : forallb (fun f => N.land (f_mask f) (N.ones 23) =? 0) format_table = true.
Proof. vm_compute. reflexivity. Qed.

Lemma land_cut w m : N.land m (N.ones 23) = 0 -> N.land w m = N.land (2 ^ 23 * (w / 2 ^ 23)) m.
Proof.
  intros Hm. apply N.bits_inj. intro n. rewrite !N.land_spec.
  destruct (N.ltb_spec n 23) as [L|L].
  - assert (N.testbit m n = false).
    { pose proof (f_equal (fun x => N.testbit x n) Hm) as E. cbv beta in E.
      rewrite N.land_spec, N.ones_spec_low, N.bits_0, andb_true_r in E by auto. exact E. }
    rewrite H, !andb_false_r. reflexivity.
  - f_equal. rewrite N.mul_comm, <- N.shiftl_mul_pow2, <- N.shiftr_div_pow2.
    rewrite N.shiftl_spec_high' by auto. rewrite N.shiftr_spec'. f_equal. lia.
Qed.

Lemma candidate_cut w f : In f format_table -> candidate w f = candidate (2 ^ 23 * (w / 2 ^ 23)) f.
Proof.
  intros Hf. unfold candidate, matches. f_equal. rewrite !land_lxor_distr.
  pose proof masks_top9 as M. rewrite forallb_forall in M. specialize (M f Hf). apply N.eqb_eq in M.
  rewrite <- (land_cut w _ M). reflexivity.
Qed.

Lemma find_ext {A} (p q : A -> bool) l : (forall x, In x l -> p x = q x) -> find p l = find q l.
Proof.
  induction l as [|a l IH]; simpl; auto. intros H. rewrite (H a) by auto.
  destruct (q a); auto.
Qed.

Lemma format_list_in f : In f format_list -> In f format_table.
Proof. destruct format_list_possible as [P _]. apply Permutation.Permutation_in; auto. Qed.

Lemma find_candidate_cut w t :
  w / 2 ^ 23 = t -> find (candidate w) format_list = find (candidate (2 ^ 23 * t)) format_list.
Proof.
  intros <-. apply find_ext. intros f Hf. apply candidate_cut. apply format_list_in; auto.
Qed.

(* ------------------------------------------------------------------ operands *)

Ltac split_ifs_in H :=
  repeat match type of H with context[if ?c then _ else _] =>
    lazymatch type of c with bool => destruct c eqn:? end end.
Ltac split_ifs :=
  repeat match goal with |- context[if ?c then _ else _] =>
    lazymatch type of c with bool => destruct c eqn:?; try lia end end.

Lemma opnd_code_bound p : opnd_wf p = true -> code_of p < 512.
Proof.
  destruct p; cbn [opnd_wf code_of]; intros H.
  - lia.
  - lia.
  - unfold special_reg in H.
    split_ifs_in H; try discriminate; lia.
  - destruct (0 <=? v)%Z eqn:?; lia.
  - unfold float_bits in H.
    split_ifs_in H; try discriminate; lia.
  - lia.
Qed.

Lemma get_operand_spec p :
  opnd_wf p = true ->
  get_operand (code_of p) = Some (match p with PLit _ => lit_operand 255 | _ => spec_operand p 0 end).
Proof.
  destruct p as [i|i|c|v|c|v]; cbn [opnd_wf code_of spec_operand]; intros H.
  - unfold get_operand. destruct (N.leb_spec i 101); [|lia].
    unfold new_sreg, new_reg, regs_lookup. destruct (N.ltb_spec (R_S0 + i) reg_type_count); [reflexivity|].
    unfold R_S0, reg_type_count in *. lia.
  - unfold get_operand.
    split_ifs.
    unfold new_vreg, new_reg, regs_lookup. replace (256 + i - 256) with i by lia.
    destruct (N.ltb_spec (R_V0 + i) reg_type_count); [reflexivity|]. unfold R_V0, reg_type_count in *. lia.
  - unfold special_reg in H. unfold get_operand, special_reg.
    split_ifs_in H; try discriminate;
      split_ifs; try reflexivity.
    unfold new_reg, regs_lookup.
    destruct (N.ltb_spec (R_Timp0 + (c - 112)) reg_type_count); [reflexivity|]. unfold R_Timp0, reg_type_count in *. lia.
  - unfold get_operand. destruct (Z.leb_spec 0 v).
    + split_ifs.
      unfold new_int. f_equal. f_equal. lia.
    + split_ifs.
      unfold new_int. f_equal. f_equal. lia.
  - unfold float_bits in H. unfold get_operand, float_bits.
    split_ifs_in H; try discriminate;
      split_ifs; reflexivity.
  - unfold get_operand. reflexivity.
Qed.

Lemma with_count_spec p c : with_count (spec_operand p 0) c = spec_operand p c.
Proof. destruct p; reflexivity. Qed.

(* ------------------------------------------------------------------ rows *)

Lemma row_ok_spec t r :
  row_ok t r = true -> lookup t (r_opcode r) = Some r /\ r_fmt r = t /\ In r decode_table.
Proof.
  unfold row_ok. intros H. apply andb_true_iff in H. destruct H as [Hf H].
  apply fmt_eqb_eq in Hf.
  destruct (lookup t (r_opcode r)) as [r'|] eqn:L; [|discriminate].
  rewrite !andb_true_iff in H. destruct H as [[[[[[[[H1 H2] H3] H4] H5] H6] H7] H8] H9].
  apply N.eqb_eq in H1, H3, H4, H5, H6, H7, H8. apply String.eqb_eq in H2. apply fmt_eqb_eq in H9.
  assert (r' = r) by (destruct r', r; simpl in *; congruence). subst r'.
  split; [reflexivity|]. split; [assumption|]. apply lookup_some in L. tauto.
Qed.

(** every opcode fits the opcode field of its format *)
Definition opcode_range_check : bool :=
  forallb (fun r => r_opcode r <? 2 ^ (f_ophi (fmt_format (r_fmt r)) - f_oplo (fmt_format (r_fmt r)) + 1)) decode_table.
Lemma opcode_range_true : opcode_range_check = true.
Proof. vm_compute. reflexivity. Qed.
Lemma opcode_range r :
  In r decode_table ->
  r_opcode r < 2 ^ (f_ophi (fmt_format (r_fmt r)) - f_oplo (fmt_format (r_fmt r)) + 1).
Proof.
  intros H. pose proof opcode_range_true as E. unfold opcode_range_check in E.
  rewrite forallb_forall in E. apply N.ltb_lt. auto.
Qed.

(** VOP3: the opcode decides between the a and the b form exactly as the rows are filed *)
Definition vop3_check : bool :=
  forallb (fun r => match r_fmt r with
                    | VOP3a => negb (is_vop3b_opcode (r_opcode r))
                    | VOP3b => is_vop3b_opcode (r_opcode r) && (255 <? r_opcode r)
                    | _ => true
                    end) decode_table.
Lemma vop3_check_true : vop3_check = true.
Proof. vm_compute. reflexivity. Qed.

(* ------------------------------------------------------------------ format selection from (format, opcode) *)

(** bit position [a] from which the word is determined by encoding and opcode,
    and the value of [w / 2^a] (ISA encodings) *)
Definition top_of (t : fmt) (op : N) : option (N * N) :=
  match t with
  | SOP2 => Some (23, 256 + op)
  | SOPK => Some (23, 352 + op)
  | SOP1 => Some (23, 381)
  | SOPC => Some (23, 382)
  | SOPP => Some (23, 383)
  | VOP2 => Some (25, op)
  | VOP1 => Some (25, 63)
  | VOPC => Some (25, 62)
  | SMEM => Some (26, 48)
  | VOP3a | VOP3b => Some (26, 52)
  | DS => Some (26, 54)
  | FLAT => Some (26, 55)
  | _ => None
  end.

Definition cand_fmt (t : fmt) : fmt := match t with VOP3b => VOP3a | _ => t end.

Definition sel_row (r : row) : bool :=
  match top_of (r_fmt r) (r_opcode r) with
  | Some (a, h) =>
      (23 <=? a) &&
      forallb (fun j => match find (candidate (2 ^ 23 * (h * 2 ^ (a - 23) + j))) format_list with
                        | Some f => format_eqb f (fmt_format (cand_fmt (r_fmt r)))
                        | None => false
                        end) (nrange (N.to_nat (2 ^ (a - 23))) 0)
  | None => true
  end.
Definition sel_check : bool := forallb sel_row decode_table.
Lemma sel_check_true : sel_check = true.
Proof. vm_compute. reflexivity. Qed.

Lemma nrange_in k : forall from j, j < N.of_nat k -> In (from + j) (nrange k from).
Proof.
  induction k as [|k IH]; intros from j Hj; [lia|]. simpl.
  destruct (N.eq_dec j 0) as [->|Hn]; [left; lia|]. right.
  replace (from + j) with (from + 1 + (j - 1)) by lia. apply IH. lia.
Qed.

Lemma nrange_in0 k j : j < N.of_nat k -> In j (nrange k 0).
Proof. intros H. pose proof (nrange_in k 0 j H) as H1. rewrite N.add_0_l in H1. exact H1. Qed.

Lemma select_format r w a h :
  In r decode_table -> top_of (r_fmt r) (r_opcode r) = Some (a, h) -> w / 2 ^ a = h ->
  find (candidate w) format_list = Some (fmt_format (cand_fmt (r_fmt r))).
Proof.
  intros Hin Ht Hw. pose proof sel_check_true as E. unfold sel_check in E.
  rewrite forallb_forall in E. specialize (E r Hin). unfold sel_row in E. rewrite Ht in E.
  apply andb_true_iff in E. destruct E as [Ha E]. apply N.leb_le in Ha.
  rewrite forallb_forall in E.
  set (t := w / 2 ^ 23).
  assert (Ht2 : t / 2 ^ (a - 23) = h).
  { unfold t. rewrite N.div_div by (apply N.pow_nonzero; lia). rewrite <- N.pow_add_r.
    replace (23 + (a - 23)) with a by lia. exact Hw. }
  pose proof (N.div_mod t (2 ^ (a - 23)) ltac:(apply N.pow_nonzero; lia)) as Hdm.
  rewrite Ht2 in Hdm.
  assert (Hj : t mod 2 ^ (a - 23) < 2 ^ (a - 23)) by (apply N.mod_lt, N.pow_nonzero; lia).
  specialize (E (t mod 2 ^ (a - 23))).
  rewrite (find_candidate_cut w t eq_refl).
  rewrite Hdm at 1. rewrite (N.mul_comm (2 ^ (a - 23)) h).
  destruct (find (candidate (2 ^ 23 * (h * 2 ^ (a - 23) + t mod 2 ^ (a - 23)))) format_list) as [f|].
  - f_equal. apply format_eqb_eq. apply E. apply nrange_in0. rewrite N2Nat.id. exact Hj.
  - exfalso. assert (false = true); [|discriminate]. apply E. apply nrange_in0. rewrite N2Nat.id. exact Hj.
Qed.

Lemma ftype_fmt_format t : f_type (fmt_format t) = t.
Proof. destruct t; vm_compute; reflexivity. Qed.

Lemma fmt_format_in t : In (fmt_format t) format_table.
Proof. destruct t; vm_compute; tauto. Qed.

Lemma format_of_fmt_format t : format_of t = Some (fmt_format t).
Proof. destruct t; vm_compute; reflexivity. Qed.

(** matchFormat on a word whose first candidate is the format of a table row *)
Lemma match_format_row r w :
  In r decode_table ->
  find (candidate w) format_list = Some (fmt_format (cand_fmt (r_fmt r))) ->
  retrieve_opcode (fmt_format (cand_fmt (r_fmt r))) w = r_opcode r ->
  match_format format_list w = ROk (fmt_format (r_fmt r)).
Proof.
  intros Hin Hf Hop. unfold match_format. rewrite Hf, ftype_fmt_format, Hop.
  pose proof vop3_check_true as E. unfold vop3_check in E. rewrite forallb_forall in E. specialize (E r Hin).
  destruct (r_fmt r) eqn:Er; cbn [cand_fmt fmt_eqb andb]; try reflexivity.
  - apply negb_true_iff in E. rewrite E. reflexivity.
  - apply andb_true_iff in E. destruct E as [E _]. rewrite E, format_of_fmt_format. reflexivity.
Qed.

(* ------------------------------------------------------------------ bytes *)

Lemma decode_bytes c w0 tl :
  w0 < 4294967296 ->
  decode c (bytes_of_word w0 ++ tl)
  = to_outcome (decode_core format_list c (4 + N.of_nat (List.length tl)) w0 (le32 tl)).
Proof.
  intros H. unfold decode, decode_with. rewrite le32_bytes by exact H.
  replace (skipn 4 (bytes_of_word w0 ++ tl)) with tl by reflexivity.
  rewrite app_length. replace (List.length (bytes_of_word w0)) with 4%nat by reflexivity.
  rewrite Nat2N.inj_add. reflexivity.
Qed.

(** the preamble of Decode for a word that belongs to table row [r] *)
Lemma decode_core_row c len w0 w1 r :
  In r decode_table -> lookup (r_fmt r) (r_opcode r) = Some r ->
  find (candidate w0) format_list = Some (fmt_format (cand_fmt (r_fmt r))) ->
  retrieve_opcode (fmt_format (cand_fmt (r_fmt r))) w0 = r_opcode r ->
  retrieve_opcode (fmt_format (r_fmt r)) w0 = r_opcode r ->
  f_size (fmt_format (r_fmt r)) <= len -> 4 <= len ->
  decode_core format_list c len w0 w1
  = dispatch (r_fmt r) c len w0 w1 (inst0 (fmt_format (r_fmt r)) r).
Proof.
  intros Hin Hl Hf Hop1 Hop2 Hs H4. unfold decode_core.
  destruct (N.ltb_spec len 4); [lia|].
  rewrite (match_format_row r w0 Hin Hf Hop1). cbn [bind].
  rewrite ftype_fmt_format, Hop2, Hl. cbn [bind].
  change (i_size (inst0 (fmt_format (r_fmt r)) r)) with (f_size (fmt_format (r_fmt r))).
  destruct (N.ltb_spec len (f_size (fmt_format (r_fmt r)))); [lia|]. reflexivity.
Qed.
