(** C04 — decode (encode d) = d: bit-field library and per-format proofs. *)
From Coq Require Import NArith ZArith List String Bool Lia.
From Coq Require Import ZifyN ZifyBool.
From RecordUpdate Require Import RecordSet.
From VIsa Require Import InstTypes Decode DecodeProofs Encode.
From VGen Require Import FormatTable DecodeTable RegTable.
Import ListNotations.
Open Scope N_scope.

(* ------------------------------------------------------------------ bit fields *)

Lemma extract_bits_spec w lo hi :
  lo <= hi -> extract_bits w lo hi = (w / 2 ^ lo) mod 2 ^ (hi - lo + 1).
Proof.
  intros H. unfold extract_bits.
  rewrite N.shiftl_1_l, <- N.pred_sub, <- N.ones_equiv.
  rewrite N.shiftr_land, N.shiftr_shiftl_l by lia.
  rewrite N.sub_diag, N.shiftl_0_r, N.land_ones, N.shiftr_div_pow2. reflexivity.
Qed.

Definition fields_ok (fs : list (N * N)) : Prop := Forall (fun f => fst f < 2 ^ snd f) fs.

Fixpoint drop (fs : list (N * N)) (lo : N) : option (list (N * N)) :=
  if lo =? 0 then Some fs else
  match fs with
  | [] => None
  | (v, k) :: r => if k <=? lo then drop r (lo - k) else None
  end.

Lemma pack_cons_div v k r : v < 2 ^ k -> pack ((v, k) :: r) / 2 ^ k = pack r.
Proof.
  intros H. simpl. rewrite N.mul_comm, N.div_add by (apply N.pow_nonzero; lia).
  rewrite N.div_small by auto. reflexivity.
Qed.

Lemma pack_cons_mod v k r : v < 2 ^ k -> pack ((v, k) :: r) mod 2 ^ k = v.
Proof.
  intros H. simpl. rewrite N.mul_comm, N.mod_add by (apply N.pow_nonzero; lia).
  apply N.mod_small; auto.
Qed.

Lemma drop_div fs : fields_ok fs -> forall lo fs', drop fs lo = Some fs' -> pack fs / 2 ^ lo = pack fs'.
Proof.
  induction 1 as [|[v k] r Hv Hr IH]; intros lo fs'.
  - simpl. destruct (N.eqb_spec lo 0); [|discriminate]. intros E; inversion E; subst. reflexivity.
  - cbn [drop]. destruct (N.eqb_spec lo 0).
    + intros E; inversion E; subst. rewrite N.pow_0_r, N.div_1_r. reflexivity.
    + destruct (N.leb_spec k lo); [|discriminate]. intros E.
      replace lo with (k + (lo - k)) by lia. rewrite N.pow_add_r, <- N.div_div by (apply N.pow_nonzero; lia).
      rewrite pack_cons_div by exact Hv. apply IH; auto.
Qed.

Lemma fields_ok_drop fs : fields_ok fs -> forall lo fs', drop fs lo = Some fs' -> fields_ok fs'.
Proof.
  induction 1 as [|[v k] r Hv Hr IH]; intros lo fs'.
  - simpl. destruct (lo =? 0); [|discriminate]. intros E; inversion E; constructor.
  - cbn [drop]. destruct (lo =? 0).
    + intros E; inversion E; subst. constructor; auto.
    + destruct (k <=? lo); [|discriminate]. apply IH.
Qed.

Lemma extract_field fs lo hi v k r :
  fields_ok fs -> drop fs lo = Some ((v, k) :: r) -> hi = lo + k - 1 -> 0 < k ->
  extract_bits (pack fs) lo hi = v.
Proof.
  intros Hok Hd -> Hk. rewrite extract_bits_spec by lia.
  rewrite (drop_div fs Hok lo _ Hd). replace (lo + k - 1 - lo + 1) with k by lia.
  apply pack_cons_mod. pose proof (fields_ok_drop fs Hok lo _ Hd) as H. inversion H; auto.
Qed.

Lemma pack_bound fs : fields_ok fs -> pack fs < 2 ^ fold_right (fun f a => snd f + a) 0 fs.
Proof.
  induction 1 as [|[v k] r Hv Hr IH]; simpl; [lia|].
  rewrite N.pow_add_r. simpl in Hv. nia.
Qed.

(* ------------------------------------------------------------------ bytes *)

Lemma le32_bytes w tl : w < 4294967296 -> le32 (bytes_of_word w ++ tl) = w.
Proof.
  intros H. unfold le32, bytes_of_word. cbn [nth app].
  pose proof (N.div_mod w 256 ltac:(lia)). pose proof (N.div_mod (w / 256) 256 ltac:(lia)).
  pose proof (N.div_mod (w / 65536) 256 ltac:(lia)).
  replace (w / 65536) with (w / 256 / 256) in * by (rewrite N.div_div by lia; reflexivity).
  replace (w / 16777216) with (w / 256 / 256 / 256) by (rewrite !N.div_div by lia; reflexivity).
  assert (w / 256 / 256 / 256 < 256).
  { apply N.div_lt_upper_bound; [lia|]. apply N.div_lt_upper_bound; [lia|]. apply N.div_lt_upper_bound; lia. }
  rewrite (N.mod_small (w / 256 / 256 / 256) 256) by auto. lia.
Qed.

(* ------------------------------------------------------------------ format selection *)

(** every mask lies in the nine most significant bits *)
Lemma masks_top9 : forallb (fun f => N.land (f_mask f) (N.ones 23) =? 0) format_table = true.
Proof. vm_compute. reflexivity. Qed.

Lemma land_cut w m : N.land m (N.ones 23) = 0 -> N.land w m = N.land (2 ^ 23 * (w / 2 ^ 23)) m.
Proof.
  intros Hm. apply N.bits_inj. intro n. rewrite !N.land_spec.
  destruct (N.ltb_spec n 23) as [L|L].
  - assert (N.testbit m n = false).
    { pose proof (f_equal (fun x => N.testbit x n) Hm) as E. cbv beta in E.
      rewrite N.land_spec, N.ones_spec_low, N.bits_0, andb_true_r in E by auto. exact E. }
    rewrite H, !andb_false_r. reflexivity.
  - f_equal. rewrite N.mul_comm, <- N.shiftl_mul_pow2, <- N.shiftr_div_pow2.
    rewrite N.shiftl_spec_high' by auto. rewrite N.shiftr_spec'. f_equal. lia.
Qed.

Lemma candidate_cut w f : In f format_table -> candidate w f = candidate (2 ^ 23 * (w / 2 ^ 23)) f.
Proof.
  intros Hf. unfold candidate, matches. f_equal. rewrite !land_lxor_distr.
  pose proof masks_top9 as M. rewrite forallb_forall in M. specialize (M f Hf). apply N.eqb_eq in M.
  rewrite <- (land_cut w _ M). reflexivity.
Qed.

Lemma find_ext {A} (p q : A -> bool) l : (forall x, In x l -> p x = q x) -> find p l = find q l.
Proof.
  induction l as [|a l IH]; simpl; auto. intros H. rewrite (H a) by auto.
  destruct (q a); auto.
Qed.

Lemma format_list_in f : In f format_list -> In f format_table.
Proof. destruct format_list_possible as [P _]. apply Permutation.Permutation_in; auto. Qed.

Lemma find_candidate_cut w t :
  w / 2 ^ 23 = t -> find (candidate w) format_list = find (candidate (2 ^ 23 * t)) format_list.
Proof.
  intros <-. apply find_ext. intros f Hf. apply candidate_cut. apply format_list_in; auto.
Qed.

(* ------------------------------------------------------------------ operands *)

Ltac split_ifs_in H :=
  repeat match type of H with context[if ?c then _ else _] =>
    lazymatch type of c with bool => destruct c eqn:? end end.
Ltac split_ifs :=
  repeat match goal with |- context[if ?c then _ else _] =>
    lazymatch type of c with bool => destruct c eqn:?; try lia end end.

Lemma opnd_code_bound p : opnd_wf p = true -> code_of p < 512.
Proof.
  destruct p; cbn [opnd_wf code_of]; intros H.
  - lia.
  - lia.
  - unfold special_reg in H.
    split_ifs_in H; try discriminate; lia.
  - destruct (0 <=? v)%Z eqn:?; lia.
  - unfold float_bits in H.
    split_ifs_in H; try discriminate; lia.
  - lia.
Qed.

Lemma get_operand_spec p :
  opnd_wf p = true ->
  get_operand (code_of p) = Some (match p with PLit _ => lit_operand 255 | _ => spec_operand p 0 end).
Proof.
  destruct p as [i|i|c|v|c|v]; cbn [opnd_wf code_of spec_operand]; intros H.
  - unfold get_operand. destruct (N.leb_spec i 101); [|lia].
    unfold new_sreg, new_reg, regs_lookup. destruct (N.ltb_spec (R_S0 + i) reg_type_count); [reflexivity|].
    unfold R_S0, reg_type_count in *. lia.
  - unfold get_operand.
    split_ifs.
    unfold new_vreg, new_reg, regs_lookup. replace (256 + i - 256) with i by lia.
    destruct (N.ltb_spec (R_V0 + i) reg_type_count); [reflexivity|]. unfold R_V0, reg_type_count in *. lia.
  - unfold special_reg in H. unfold get_operand, special_reg.
    split_ifs_in H; try discriminate;
      split_ifs; try reflexivity.
    unfold new_reg, regs_lookup.
    destruct (N.ltb_spec (R_Timp0 + (c - 112)) reg_type_count); [reflexivity|]. unfold R_Timp0, reg_type_count in *. lia.
  - unfold get_operand. destruct (Z.leb_spec 0 v).
    + split_ifs.
      unfold new_int. f_equal. f_equal. lia.
    + split_ifs.
      unfold new_int. f_equal. f_equal. lia.
  - unfold float_bits in H. unfold get_operand, float_bits.
    split_ifs_in H; try discriminate;
      split_ifs; reflexivity.
  - unfold get_operand. reflexivity.
Qed.
