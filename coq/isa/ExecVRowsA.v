(** C03 — relation between handler descriptors (ExecImplV) and manual rows
    (ExecSpecV): definitions, tactics and the rows that need their own
    arithmetic lemmas. *)
From Coq Require Import ZArith List Bool Lia ZifyBool.
Import ListNotations.
From VIsa Require Import IsaState ExecImpl ExecSpec ExecImplV ExecSpecV ExecProofs ExecRows ExecVProofs.
Open Scope Z_scope.
Ltac Zify.zify_post_hook ::= Z.div_mod_to_equations.

Definition row_ok (a : arch) (f : format) (op : Z) : Prop :=
  forall d r, vdesc_of a f op = Some d -> vrow_of a f op = Some r -> vrel d r.

Lemma some_inj : forall (A : Type) (x y : A), Some x = Some y -> x = y.
Proof. intros A x y H; inversion H; reflexivity. Qed.
Ltac open_row := intros d r Hd Hr;
  unfold vdesc_of, g_vop2, c_vop2, g_vop1, c_vop1, g_vop3a, c_vop3a, g_vop3b, c_vop3b, x_vop3_common,
         x_cmp_u, x_cmp, x_cmp64 in Hd;
  unfold vrow_of, vop2_row, vop1_row, vop3a_row, vop3b_row, cmp_row, gfx9_only in Hr;
  cbv beta iota in Hd, Hr; apply some_inj in Hd; apply some_inj in Hr; subst d r.
Ltac unfold_rows := cbv [d2 d2c d2cc d3 dcmp d3b op1 op2 op3 arith compare
  vd_n vd_c0 vd_c1 vd_c2 vd_dc vd_cin vd_mask vd_f r_n r_w0 r_w1 r_w2 r_dw r_cin r_mask r_val r_flag r_dom
  cin_ok mask_ok dst_ok c2arg val valf flag fst snd all3 nof no_c no_cb add_f add_c sub_f sub_c subrev_f subrev_c cz].
Ltac vrel_start := constructor; unfold_rows;
  [ split; [reflexivity|lia] | repeat split; reflexivity | intros; reflexivity | try (intros; split; (reflexivity || lia)); auto | exact I | try lia; auto
  | intros a b c cin Ha Hb Hc ].
Ltac arith_fin := unfold u32, u64, s32, s64, sx, sg, signed, W32, W64 in *; cbv beta iota;
  repeat case_if; repeat case_ifh; try lia.

Ltac try_row := open_row; vrel_start;
  (split; [first [exact I | eexists; split; [reflexivity|]]|]);
  try (match goal with c : bool |- _ => destruct c end); arith_fin.
Ltac row_val := open_row; vrel_start; (split; [eexists; split; [reflexivity|]|reflexivity]).

Lemma s24_sext : forall a, s24 a = sext24 (u32 a).
Proof. intros; unfold s24, sx, sext24, u32, W32. cbn [Z.div]. repeat case_if; lia. Qed.
Lemma sg_s32 : forall x, sg (u32 x) = s32 x. Proof. intros; symmetry; apply s32_signed. Qed.

Lemma mul24 : forall a b, u32 (s32 (s24 a * s24 b)) = (sext24 (u32 a) * sext24 (u32 b)) mod W32.
Proof. intros. rewrite u32_s32, (s24_sext a), (s24_sext b). reflexivity. Qed.
Lemma mad24 : forall a b c, u32 (s32 (s24 a * s24 b + s32 c)) = (sext24 (u32 a) * sext24 (u32 b) + sg (u32 c)) mod W32.
Proof. intros. rewrite u32_s32, (s24_sext a), (s24_sext b), sg_s32. reflexivity. Qed.
Lemma r_g_vop2_6 : row_ok GCN3 F_VOP2 6. Proof. row_val. apply mul24. Qed.
Lemma r_c_vop2_6 : row_ok CDNA3 F_VOP2 6. Proof. row_val. apply mul24. Qed.
Lemma r_g_vop3a_450 : row_ok GCN3 F_VOP3A 450. Proof. row_val. apply mad24. Qed.
Lemma r_c_vop3a_450 : row_ok CDNA3 F_VOP3A 450. Proof. row_val. apply mad24. Qed.

(* shifts *)
Lemma lshrrev_g : forall a b, u32 (Z.shiftr (u32 b) (Z.land a 31)) = (u32 b / 2 ^ (u32 a mod 32)) mod W32.
Proof. intros. rewrite land31, (amt32' a), Z.shiftr_div_pow2 by apply m32. reflexivity. Qed.
Lemma lshrrev_c : forall a b, u32 (Z.shiftr (u32 b) (Z.land (u32 a) 31)) = (u32 b / 2 ^ (u32 a mod 32)) mod W32.
Proof. intros. rewrite land31, Z.shiftr_div_pow2 by apply m32. reflexivity. Qed.
Lemma ashrrev_x : forall a b, u32 (Z.shiftr (s32 b) (Z.land (u32 a) 31)) = (sg (u32 b) / 2 ^ (u32 a mod 32)) mod W32.
Proof. intros. rewrite land31, Z.shiftr_div_pow2, sg_s32 by apply m32. reflexivity. Qed.
Lemma lshlrev_x : forall a b, u32 (u32 (Z.shiftl (u32 b) (Z.land (u32 a) 31))) = (u32 b * 2 ^ (u32 a mod 32)) mod W32.
Proof. intros. rewrite land31, Z.shiftl_mul_pow2, u32_u32 by apply m32. reflexivity. Qed.
Lemma r_g_vop2_16 : row_ok GCN3 F_VOP2 16. Proof. row_val. apply lshrrev_g. Qed.
Lemma r_c_vop2_16 : row_ok CDNA3 F_VOP2 16. Proof. row_val. apply lshrrev_c. Qed.
Lemma r_g_vop2_17 : row_ok GCN3 F_VOP2 17. Proof. row_val. apply ashrrev_x. Qed.
Lemma r_c_vop2_17 : row_ok CDNA3 F_VOP2 17. Proof. row_val. apply ashrrev_x. Qed.
Lemma r_g_vop2_18 : row_ok GCN3 F_VOP2 18. Proof. row_val. apply lshlrev_x. Qed.
Lemma r_c_vop2_18 : row_ok CDNA3 F_VOP2 18. Proof. row_val. apply lshlrev_x. Qed.

(* logic on raw 64-bit values (CDNA3 handlers) *)
Lemma u32_ones : forall x, u32 x = Z.land x (Z.ones 32).
Proof. intros. rewrite Z.land_ones by lia. reflexivity. Qed.
Lemma u32_land : forall a b, u32 (Z.land a b) = Z.land (u32 a) (u32 b) mod W32.
Proof.
  intros. pose proof (land_range 32 (u32 a) (u32 b) ltac:(lia) (u32_range a) (u32_range b)) as Hr.
  rewrite (Z.mod_small _ W32) by exact Hr. rewrite !u32_ones. apply Z.bits_inj'. intros n Hn.
  rewrite !Z.land_spec. destruct (Z.testbit a n), (Z.testbit b n), (Z.testbit (Z.ones 32) n); reflexivity.
Qed.
Lemma u32_lor : forall a b, u32 (Z.lor a b) = Z.lor (u32 a) (u32 b) mod W32.
Proof.
  intros. pose proof (lor_range 32 (u32 a) (u32 b) ltac:(lia) (u32_range a) (u32_range b)) as Hr.
  rewrite (Z.mod_small _ W32) by exact Hr. rewrite !u32_ones. apply Z.bits_inj'. intros n Hn.
  rewrite !Z.land_spec, !Z.lor_spec, !Z.land_spec.
  destruct (Z.testbit a n), (Z.testbit b n), (Z.testbit (Z.ones 32) n); reflexivity.
Qed.
Lemma u32_lxor : forall a b, u32 (Z.lxor a b) = Z.lxor (u32 a) (u32 b) mod W32.
Proof.
  intros. pose proof (lxor_range 32 (u32 a) (u32 b) ltac:(lia) (u32_range a) (u32_range b)) as Hr.
  rewrite (Z.mod_small _ W32) by exact Hr. rewrite !u32_ones. apply Z.bits_inj'. intros n Hn.
  rewrite !Z.land_spec, !Z.lxor_spec, !Z.land_spec.
  destruct (Z.testbit a n), (Z.testbit b n), (Z.testbit (Z.ones 32) n); reflexivity.
Qed.
Lemma r_c_vop2_19 : row_ok CDNA3 F_VOP2 19. Proof. row_val. apply u32_land. Qed.
Lemma r_c_vop2_20 : row_ok CDNA3 F_VOP2 20. Proof. row_val. apply u32_lor. Qed.
Lemma r_c_vop2_21 : row_ok CDNA3 F_VOP2 21. Proof. row_val. apply u32_lxor. Qed.

(* min3 / max3 / med3 *)
Lemma min3_eq : forall x y z, min3 Z.ltb x y z = min_3 x y z.
Proof. intros; unfold min3, min_3; cbv zeta; repeat case_if; repeat case_ifh; lia. Qed.
Lemma max3_eq : forall x y z, min3 Z.gtb x y z = max_3 x y z.
Proof. intros; unfold min3, max_3; cbv zeta; repeat case_if; repeat case_ifh; lia. Qed.
Lemma med3_eq : forall x y z, med3s x y z = med_3 x y z.
Proof. reflexivity. Qed.
Ltac row_m3 := row_val; rewrite ?sg_s32, ?min3_eq, ?max3_eq, ?med3_eq; try reflexivity;
  unfold u32; rewrite ?Z.mod_mod by (unfold W32; lia); reflexivity.
Lemma r_g_vop3a_465 : row_ok GCN3 F_VOP3A 465. Proof. row_m3. Qed.
Lemma r_g_vop3a_466 : row_ok GCN3 F_VOP3A 466. Proof. row_m3. Qed.
Lemma r_g_vop3a_468 : row_ok GCN3 F_VOP3A 468. Proof. row_m3. Qed.
Lemma r_g_vop3a_469 : row_ok GCN3 F_VOP3A 469. Proof. row_m3. Qed.
Lemma r_g_vop3a_471 : row_ok GCN3 F_VOP3A 471. Proof. row_m3. Qed.
Lemma r_g_vop3a_472 : row_ok GCN3 F_VOP3A 472. Proof. row_m3. Qed.
Lemma r_c_vop3a_465 : row_ok CDNA3 F_VOP3A 465. Proof. row_m3. Qed.
Lemma r_c_vop3a_466 : row_ok CDNA3 F_VOP3A 466. Proof. row_m3. Qed.
Lemma r_c_vop3a_468 : row_ok CDNA3 F_VOP3A 468. Proof. row_m3. Qed.
Lemma r_c_vop3a_469 : row_ok CDNA3 F_VOP3A 469. Proof. row_m3. Qed.
Lemma r_c_vop3a_471 : row_ok CDNA3 F_VOP3A 471. Proof. row_m3. Qed.
Lemma r_c_vop3a_472 : row_ok CDNA3 F_VOP3A 472. Proof. row_m3. Qed.

(* v_mul_hi_u32 *)
Lemma mulhi_row : forall a b, u32 (Z.shiftr (u64 (u32 a * u32 b)) 32) = (u32 a * u32 b / W32) mod W32.
Proof.
  intros. pose proof (u32_range a) as Ha. pose proof (u32_range b) as Hb.
  assert (Hm : 0 <= u32 a * u32 b < W64) by (unfold W32, W64 in *; nia).
  rewrite Z.shiftr_div_pow2 by lia. change (2 ^ 32) with W32. unfold u64. rewrite (Z.mod_small _ _ Hm). reflexivity.
Qed.
Lemma r_g_vop3a_646 : row_ok GCN3 F_VOP3A 646. Proof. row_val. apply mulhi_row. Qed.
Lemma r_c_vop3a_646 : row_ok CDNA3 F_VOP3A 646. Proof. row_val. apply mulhi_row. Qed.

(* v_not_b32, v_ffbh_u32 *)
Lemma not_g : forall a, u32 (x_not a) = (W32 - 1 - u32 a) mod W32.
Proof. intros. unfold x_not, not32. reflexivity. Qed.
Lemma not_c : forall a, 0 <= a < W64 -> u32 (not64 a) = (W32 - 1 - u32 a) mod W32.
Proof. intros a H. unfold not64, u32, W32, W64 in *. lia. Qed.
Lemma r_g_vop1_43 : row_ok GCN3 F_VOP1 43. Proof. row_val. apply not_g. Qed.
Lemma r_c_vop1_43 : row_ok CDNA3 F_VOP1 43. Proof. row_val. apply not_c; assumption. Qed.
Lemma ffbh_row : forall a, u32 (ffbh (u32 a)) = ffbh32 (u32 a) mod W32.
Proof.
  intros a. unfold ffbh, ffbh32. case_if; [reflexivity|]. reflexivity.
Qed.
Lemma r_c_vop1_45 : row_ok CDNA3 F_VOP1 45. Proof. row_val. apply ffbh_row. Qed.

(* gfx9 three-operand shifts/adds *)
Lemma lshl_add_row : forall a b c,
  u32 (u32 (u32 (Z.shiftl (u32 a) (Z.land (u32 b) 31)) + u32 c)) = (u32 a * 2 ^ (u32 b mod 32) + u32 c) mod W32.
Proof.
  intros. rewrite land31, Z.shiftl_mul_pow2, u32_u32 by apply m32. unfold u32 at 1 2.
  rewrite Z.add_mod_idemp_l by (unfold W32; lia). reflexivity.
Qed.
Lemma add_lshl_row : forall a b c,
  u32 (u32 (Z.shiftl (u32 (u32 a + u32 b)) (Z.land (u32 c) 31))) = ((u32 a + u32 b) * 2 ^ (u32 c mod 32)) mod W32.
Proof.
  intros. rewrite land31, Z.shiftl_mul_pow2, u32_u32 by apply m32. unfold u32 at 1 2.
  rewrite Z.mul_mod_idemp_l by (unfold W32; lia). reflexivity.
Qed.
Lemma lshl_or_row : forall a b c,
  u32 (Z.lor (u32 (Z.shiftl (u32 a) (Z.land (u32 b) 31))) (u32 c)) =
  Z.lor ((u32 a * 2 ^ (u32 b mod 32)) mod W32) (u32 c) mod W32.
Proof. intros. rewrite land31, Z.shiftl_mul_pow2 by apply m32. reflexivity. Qed.
Lemma r_c_vop3a_509 : row_ok CDNA3 F_VOP3A 509. Proof. row_val. apply lshl_add_row. Qed.
Lemma r_c_vop3a_510 : row_ok CDNA3 F_VOP3A 510. Proof. row_val. apply add_lshl_row. Qed.
Lemma r_c_vop3a_512 : row_ok CDNA3 F_VOP3A 512. Proof. row_val. apply lshl_or_row. Qed.

(* bit-field extract *)
Lemma bfe_u_g : forall a b c, u32 (g_bfe_u a b c) = bfe_u (u32 a) (u32 b) (u32 c) mod W32.
Proof.
  intros. unfold g_bfe_u, bfe_u. rewrite !land31.
  set (off := u32 b mod 32). set (w := u32 c mod 32).
  assert (Hoff : 0 <= off < 32) by (subst off; lia). assert (Hw : 0 <= w < 32) by (subst w; lia).
  rewrite Z.shiftr_div_pow2 by lia.
  pose proof (div_pow2_range0 W32 (u32 a) off ltac:(lia) (u32_range a)) as Hq.
  set (q := u32 a / 2 ^ off) in *.
  destruct (w =? 0) eqn:E0.
  - assert (w = 0) by lia. subst w. rewrite H. rewrite Z.pow_0_r, Z.mod_1_r. reflexivity.
  - replace (Z.shiftl 1 w - 1) with (Z.ones w) by (rewrite Z.ones_equiv, Z.shiftl_mul_pow2 by lia; lia).
    destruct (off + w <? 32) eqn:E1.
    + rewrite Z.land_ones by lia. reflexivity.
    + unfold u32. f_equal. symmetry. apply Z.mod_small. split; [lia|].
      assert (Hq2 : q < 2 ^ (32 - off)).
      { subst q. apply Z.div_lt_upper_bound; [apply Z.pow_pos_nonneg; lia|].
        rewrite <- Z.pow_add_r by lia. replace (off + (32 - off)) with 32 by lia.
        pose proof (u32_range a). unfold W32 in *. lia. }
      assert (2 ^ (32 - off) <= 2 ^ w) by (apply Z.pow_le_mono_r; lia). lia.
Qed.
Lemma bfe_u_c : forall a b c, u32 (c_bfe_u a b c) = bfe_u (u32 a) (u32 b) (u32 c) mod W32.
Proof.
  intros. unfold c_bfe_u, bfe_u. rewrite !land31.
  set (off := u32 b mod 32). set (w := u32 c mod 32).
  assert (Hoff : 0 <= off < 32) by (subst off; lia). assert (Hw : 0 <= w < 32) by (subst w; lia).
  rewrite Z.shiftr_div_pow2 by lia.
  destruct (w =? 0) eqn:E0.
  - assert (w = 0) by lia. rewrite H. rewrite Z.pow_0_r, Z.mod_1_r. reflexivity.
  - replace (Z.shiftl 1 w - 1) with (Z.ones w) by (rewrite Z.ones_equiv, Z.shiftl_mul_pow2 by lia; lia).
    rewrite Z.land_ones by lia. reflexivity.
Qed.
Lemma r_g_vop3a_456 : row_ok GCN3 F_VOP3A 456. Proof. row_val. apply bfe_u_g. Qed.
Lemma r_c_vop3a_456 : row_ok CDNA3 F_VOP3A 456. Proof. row_val. apply bfe_u_c. Qed.

Lemma bfe_s_row : forall a b c,
  u32 (u32 (bfe_core (s32 a) (Z.land (u32 b) 31) (Z.land (u32 c) 31))) = bfe_s (u32 a) (u32 b) (u32 c) mod W32.
Proof.
  intros. rewrite u32_u32, !land31. unfold bfe_s. rewrite sg_s32.
  rewrite bfe_core_value by (try apply s32_range; lia). unfold sext. reflexivity.
Qed.
Lemma r_g_vop3a_457 : row_ok GCN3 F_VOP3A 457. Proof. row_val. apply bfe_s_row. Qed.
Lemma r_c_vop3a_457 : row_ok CDNA3 F_VOP3A 457. Proof. row_val. apply bfe_s_row. Qed.

(* round 4: v_ffbh_u32 (GCN3), v_alignbit_b32, VOP3 v_or_b32, 16-bit opcodes *)
Lemma r_g_vop1_45 : row_ok GCN3 F_VOP1 45. Proof. row_val. apply ffbh_row. Qed.

Lemma lor_shl32 : forall x y, 0 <= x -> 0 <= y < W32 -> Z.lor (Z.shiftl x 32) y = x * W32 + y.
Proof.
  intros x y Hx Hy. rewrite Z.shiftl_mul_pow2 by lia. change (2 ^ 32) with W32.
  assert (Hl : Z.land (x * W32) y = 0).
  { apply Z.bits_inj'. intros n Hn. rewrite Z.land_spec, Z.bits_0.
    destruct (Z.lt_ge_cases n 32).
    - change W32 with (2 ^ 32). rewrite Z.mul_pow2_bits_low by lia. reflexivity.
    - destruct (Z.eq_dec y 0) as [->|Hz]; [rewrite Z.bits_0; apply andb_false_r|].
      rewrite (Z.bits_above_log2 y n); [apply andb_false_r|lia|].
      assert (Z.log2 y < 32) by (apply Z.log2_lt_pow2; unfold W32 in *; lia). lia. }
  rewrite <- Z.lxor_lor by exact Hl. symmetry. apply Z.add_nocarry_lxor. exact Hl.
Qed.
Lemma alignbit_row : forall a b c,
  u32 (u32 (Z.shiftr (Z.lor (Z.shiftl (u32 a) 32) (u32 b)) (Z.land c 31))) =
  ((u32 a * W32 + u32 b) / 2 ^ (u32 c mod 32)) mod W32.
Proof.
  intros. rewrite u32_u32, land31, lor_shl32 by (try apply u32_range; pose proof (u32_range a); lia).
  rewrite Z.shiftr_div_pow2 by apply m32. rewrite (amt32' c). reflexivity.
Qed.
Lemma r_g_vop3a_462 : row_ok GCN3 F_VOP3A 462. Proof. row_val. apply alignbit_row. Qed.
Lemma r_c_vop3a_462 : row_ok CDNA3 F_VOP3A 462. Proof. row_val. apply alignbit_row. Qed.
Lemma r_c_vop3a_276 : row_ok CDNA3 F_VOP3A 276. Proof. row_val. reflexivity. Qed.

Lemma add16_row : forall a b, u32 (u16 (u16 a + u16 b)) = ((u32 a mod 65536 + u32 b mod 65536) mod 65536) mod W32.
Proof. intros. unfold u32, u16, W16, W32. lia. Qed.
Lemma shl16_row : forall a b,
  u32 (u16 (Z.shiftl (u16 b) (Z.land (u16 a) 15))) = (((u32 b mod 65536) * 2 ^ (u32 a mod 16)) mod 65536) mod W32.
Proof.
  intros. change 15 with (Z.ones 4). rewrite Z.land_ones by lia.
  assert (E : u16 a mod 2 ^ 4 = u32 a mod 16) by (unfold u16, u32, W16, W32; change (2 ^ 4) with 16; lia).
  rewrite E. rewrite Z.shiftl_mul_pow2 by lia.
  assert (E2 : u16 b = u32 b mod 65536) by (unfold u16, u32, W16, W32; lia). rewrite E2.
  unfold u16, u32 at 1, W16, W32. rewrite (Z.mod_small (_ mod 65536)) by lia. reflexivity.
Qed.
Lemma r_c_vop2_38 : row_ok CDNA3 F_VOP2 38. Proof. row_val. apply add16_row. Qed.
Lemma r_c_vop2_42 : row_ok CDNA3 F_VOP2 42. Proof. row_val. apply shl16_row. Qed.
Lemma r_c_vopc_164 : row_ok CDNA3 F_VOPC 164.
Proof.
  intros d r Hd Hr. cbn [vdesc_of Z.eqb Pos.eqb] in Hd. unfold vrow_of, cmp_row in Hr. cbv beta iota in Hd, Hr.
  apply some_inj in Hd; apply some_inj in Hr; subst d r.
  vrel_start. split; [exact I|]. cbv [sext16]. unfold s16, sx, u32, W16, W32. cbn [Z.div].
  repeat case_if; lia.
Qed.
