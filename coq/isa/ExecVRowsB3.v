(** C03 — vector rows proved by the generic arithmetic tactic (part 3). *)
From Coq Require Import ZArith List Bool Lia ZifyBool.
Import ListNotations.
From VIsa Require Import IsaState ExecImpl ExecSpec ExecImplV ExecSpecV ExecProofs ExecRows ExecVProofs ExecVRowsA.
Open Scope Z_scope.
Ltac Zify.zify_post_hook ::= Z.div_mod_to_equations.

Lemma r_g_vop2_12 : row_ok GCN3 F_VOP2 12. Proof. try_row. Qed.
Lemma r_g_vop2_21 : row_ok GCN3 F_VOP2 21. Proof. try_row. Qed.
Lemma r_g_vop2_30 : row_ok GCN3 F_VOP2 30. Proof. try_row. Qed.
Lemma r_g_vopc_198 : row_ok GCN3 F_VOPC 198. Proof. try_row. Qed.
Lemma r_g_vopc_206 : row_ok GCN3 F_VOPC 206. Proof. try_row. Qed.
Lemma r_g_vop3a_202 : row_ok GCN3 F_VOP3A 202. Proof. try_row. Qed.
Lemma r_g_vop3a_451 : row_ok GCN3 F_VOP3A 451. Proof. try_row. Qed.
Lemma r_g_vop3b_285 : row_ok GCN3 F_VOP3B 285. Proof. try_row. Qed.
Lemma r_c_vop2_14 : row_ok CDNA3 F_VOP2 14. Proof. try_row. Qed.
Lemma r_c_vop2_29 : row_ok CDNA3 F_VOP2 29. Proof. try_row. Qed.
Lemma r_c_vopc_193 : row_ok CDNA3 F_VOPC 193. Proof. try_row. Qed.
Lemma r_c_vopc_202 : row_ok CDNA3 F_VOPC 202. Proof. try_row. Qed.
Lemma r_c_vop3a_195 : row_ok CDNA3 F_VOP3A 195. Proof. try_row. Qed.
Lemma r_c_vop3a_204 : row_ok CDNA3 F_VOP3A 204. Proof. try_row. Qed.
Lemma r_c_vop3a_511 : row_ok CDNA3 F_VOP3A 511. Proof. try_row. Qed.
Lemma r_c_vop3b_286 : row_ok CDNA3 F_VOP3B 286. Proof. try_row. Qed.
