(** C03 — ExecImpl, binary32 part: the floating point handlers of both ALUs
    (Go float32 arithmetic through IsaFloat / Flocq).  Kept apart from
    ExecImplV so that the integer development does not depend on the classical
    real numbers of the standard library.  [exec_vector_f] is the complete vector model the
    differential check evaluates: float table first, integer table otherwise.
    Definitions only. *)
From Coq Require Import ZArith List Bool.
From RecordUpdate Require Import RecordSet.
Import RecordSetNotations.
Import ListNotations.
From VIsa Require Import IsaState ExecImpl IsaFloat ExecImplV.
Open Scope Z_scope.

(** ** floating point (binary32): Go float32 arithmetic through IsaFloat *)
Definition go_ne (a b : Z) : bool := negb (f32_eq a b).          (* Go's != : true when unordered *)
Definition go_lg (a b : Z) : bool := f32_lt a b || f32_gt a b.   (* src0 < src1 || src0 > src1 *)
(** float compares as the handlers of both ALUs write them *)
Definition x_fcmp (m : mask_kind) (op : Z) : option vdesc :=
  match op with
  | 65 => Some (dcmp m 0 f32_lt) | 66 => Some (dcmp m 0 f32_eq) | 67 => Some (dcmp m 0 f32_le)
  | 68 => Some (dcmp m 0 f32_gt) | 69 => Some (dcmp m 0 go_lg) | 70 => Some (dcmp m 0 f32_ge)
  | 73 => Some (dcmp m 0 (fun a b => negb (f32_ge a b)))
  | 74 => Some (dcmp m 0 (fun a b => negb (go_lg a b)))
  | 75 => Some (dcmp m 0 (fun a b => negb (f32_gt a b)))
  | 76 => Some (dcmp m 0 (fun a b => negb (f32_le a b)))
  | 77 => Some (dcmp m 0 (fun a b => negb (f32_eq a b)))
  | 78 => Some (dcmp m 0 (fun a b => negb (f32_lt a b)))
  | _ => None
  end.
(** math.Min / math.Max on float64 images, converted back (CDNA3 v_min/max_f32) *)
Definition go_fmin (a b : Z) : Z :=
  if (u32 a =? 4286578688) || (u32 b =? 4286578688) then 4286578688      (* Min(x, -Inf) = -Inf, before the NaN test *)
  else if f32_isnan a || f32_isnan b then 2143289344
  else if f32_iszero a && f32_iszero b then Z.lor (u32 a) (u32 b)
  else if f32_lt a b then u32 a else u32 b.
Definition go_fmax (a b : Z) : Z :=
  if (u32 a =? 2139095040) || (u32 b =? 2139095040) then 2139095040      (* Max(x, +Inf) = +Inf *)
  else if f32_isnan a || f32_isnan b then 2143289344
  else if f32_iszero a && f32_iszero b then Z.land (u32 a) (u32 b)
  else if f32_gt a b then u32 a else u32 b.
(** float -> integer conversions of the repaired handlers (explicit range tests
    in the float domain, then an in-range Go conversion = truncation) *)
Definition go_cvt_u32 (a : Z) : Z :=
  if f32_isnan a then 0
  else if f32_le a 0 then 0                          (* src <= 0 *)
  else if f32_ge a 1333788672 then 4294967295        (* src >= 4294967296.0 *)
  else f32_trunc a.
Definition go_cvt_i32 (a : Z) : Z :=
  if f32_isnan a then 0
  else if f32_ge a 1325400064 then 2147483647        (* src >= 2147483648.0 *)
  else if f32_le a 3472883712 then 2147483648        (* src <= -2147483648.0 : MinInt32 bits *)
  else u32 (f32_trunc a).
Definition x_vop1_f (op : Z) : option vdesc :=
  match op with
  | 4 => Some (mkV 1 0 0 0 2 CNone MNone (fun a _ _ _ => val (f64_of_Z (s32 a))))     (* Float64bits(float64(int32(src0))) *)
  | 15 => Some (mkV 1 2 0 0 0 CNone MNone (fun a _ _ _ => val (f32_of_f64 a)))        (* float32(Float64frombits(src)) *)
  | 16 => Some (mkV 1 0 0 0 2 CNone MNone (fun a _ _ _ => val (f64_of_f32 a)))        (* float64(Float32frombits(uint32(src))) *)
  | 5 => Some (mkV 1 0 0 0 0 CNone MNone (fun a _ _ _ => val (f32_of_Z (s32 a))))
  | 6 => Some (mkV 1 0 0 0 0 CNone MNone (fun a _ _ _ => val (f32_of_Z (u32 a))))
  | 7 => Some (mkV 1 0 0 0 0 CNone MNone (fun a _ _ _ => val (go_cvt_u32 a)))
  | 8 => Some (mkV 1 0 0 0 0 CNone MNone (fun a _ _ _ => val (go_cvt_i32 a)))
  | 28 => Some (mkV 1 0 0 0 0 CNone MNone (fun a _ _ _ => val (f32_truncf a)))   (* float32(math.Trunc(float64(src))) *)
  | 30 => Some (mkV 1 0 0 0 0 CNone MNone (fun a _ _ _ => val (f32_rndne a)))   (* float32(math.RoundToEven(float64(src))) *)
  | _ => None
  end.
(** CDNA3 only: v_cvt_f64_u32 (the decode table gives the opcode DSTWidth 64 since
    the repair: WriteOperand stores both dwords of the binary64 result). *)
Definition c_vop1_f (op : Z) : option vdesc :=
  match op with
  | 22 => Some (mkV 1 0 0 0 2 CNone MNone (fun a _ _ _ => val (f64_of_Z (u32 a))))
  | _ => x_vop1_f op
  end.
(** binary64 arithmetic: src0 + src1, src0 * src1 on the float64 images (abs/neg = 0) *)
Definition x_vop3a_f64 (op : Z) : option vdesc :=
  match op with
  | 640 => Some (mkV 2 2 2 0 2 CNone MNone (fun a b _ _ => val (f64_add a b)))
  | 641 => Some (mkV 2 2 2 0 2 CNone MNone (fun a b _ _ => val (f64_mul a b)))
  | _ => None
  end.

Definition gf_vop2 (op : Z) : option vdesc :=
  match op with
  | 1 => Some (d2 (fun a b => val (f32_add a b)))
  | 2 => Some (d2 (fun a b => val (f32_sub a b)))
  | 3 => Some (d2 (fun a b => val (f32_sub b a)))
  | 5 => Some (d2 (fun a b => val (f32_mul a b)))
  | 10 => Some (d2 (fun a b => val (if f32_lt b a then u32 b else u32 a)))
  | 11 => Some (d2 (fun a b => val (if f32_gt b a then u32 b else u32 a)))
  | 22 => Some (d3 (fun a b c => val (f32_add c (f32_mul a b))))        (* dst += src0 * src1; the third operand is vdst *)
  | 24 => Some (d3 (fun a b c => val (f32_add (f32_mul a b) c)))        (* v_madak_f32, c = literal K *)
  | _ => None
  end.
Definition cf_vop2 (op : Z) : option vdesc :=
  match op with
  | 10 => Some (d2 (fun a b => val (go_fmin a b)))
  | 11 => Some (d2 (fun a b => val (go_fmax a b)))
  | 23 => Some (d3 (fun a b c => val (f32_add (f32_mul a c) b)))        (* src0*K + src1, unfused *)
  | 24 => Some (d3 (fun a b c => val (f32_add (f32_mul a b) c)))
  | 59 => Some (d3 (fun a b c => val (f32_add (f32_mul a b) c)))        (* src0*src1 + dst, unfused *)
  | 1 | 2 | 3 | 5 => gf_vop2 op
  | _ => None
  end.
Definition gf_vop3a (op : Z) : option vdesc :=
  match op with
  | 65 | 68 | 77 | 78 => x_fcmp MDst op
  | 258 => Some (d2 (fun a b => val (f32_sub a b)))
  | 449 => Some (d3 (fun a b c => val (f32_add (f32_mul a b) c)))
  | 640 | 641 => x_vop3a_f64 op
  | _ => None
  end.
Definition cf_vop3a (op : Z) : option vdesc :=
  match op with
  | 65 | 67 | 68 | 70 | 78 => x_fcmp MDst op
  | 258 => Some (d2 (fun a b => val (f32_sub a b)))
  | 261 => Some (d2 (fun a b => val (f32_mul a b)))
  | 449 | 459 => Some (d3 (fun a b c => val (f32_add (f32_mul a b) c)))
  | 640 | 641 => x_vop3a_f64 op
  | _ => None
  end.

Definition vdesc_f (a : arch) (f : format) (op : Z) : option vdesc :=
  match a, f with
  | GCN3, F_VOP2 => gf_vop2 op | CDNA3, F_VOP2 => cf_vop2 op
  | GCN3, F_VOP1 => x_vop1_f op | CDNA3, F_VOP1 => c_vop1_f op
  | CDNA3, F_VOPC => if (65 <=? op) && (op <=? 70) || (op =? 75) || (op =? 78) then x_fcmp MVcc op else None
  | GCN3, F_VOPC => if (65 <=? op) && (op <=? 78) then x_fcmp MVcc op else None
  | GCN3, F_VOP3A => gf_vop3a op | CDNA3, F_VOP3A => cf_vop3a op
  | _, _ => None
  end.

Definition exec_vector_f (a : arch) (st : state) (i : inst) : option state :=
  match vdesc_f a (i_fmt i) (i_op i) with
  | Some d => run_d d st i
  | None => exec_vector a st i
  end.
