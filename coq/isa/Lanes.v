(** The only place where lanes exist: an executable model of how the vector
    handlers of amd/emu (aluvop*.go, aluds.go, alu_flat.go) and amd/emu/cdna3
    treat the 64 lanes of a wavefront.

    - [vec_lift d st]  : the per-lane function of descriptor [d] applied to all
      lanes whose EXEC bit is set, every lane looking at the state [st] the
      instruction started from (the "parallel" reading of the ISA manual);
    - [seq_loop d st]  : what the Go code does - [for i := 0; i < 64; i++] with
      a running state (register file, memory, LDS, mask accumulator
      [vcc |= 1 << i]) - as [fold_left lane_step (seq 0 64)];
    - [perm_state]     : a lane permutation applied to a state;
    - [sprog], [srun]  : the access pattern of a scalar handler.

    Definitions only; proofs are in LanesProofs.v, statements in props/C06.v. *)
From Coq Require Import List NArith Bool Arith.
Import ListNotations.
Open Scope N_scope.

(** number of lanes of a wavefront *)
Definition NL : nat := 64.

(** ** Registers, masks, memory *)

Definition mem := N -> N.            (* byte address -> byte *)
Definition row := nat -> N.          (* VGPR index -> 32-bit value, one lane *)

Definition mupd (m : mem) (a v : N) : mem := fun x => if N.eqb x a then v else m x.
Definition rupd (r : row) (k : nat) (v : N) : row := fun x => if Nat.eqb x k then v else r x.

Definition apply_stores (ws : list (N * N)) (m : mem) : mem :=
  fold_left (fun m w => mupd m (fst w) (snd w)) ws m.
Definition apply_writes (ws : list (nat * N)) (r : row) : row :=
  fold_left (fun r w => rupd r (fst w) (snd w)) ws r.

(** one logged memory / LDS access: lane, LDS?, write?, byte address *)
Record access := mkAcc { a_lane : nat; a_lds : bool; a_wr : bool; a_addr : N }.

Record vstate := mkV {
  vgpr : nat -> row;                 (* lane -> register -> value *)
  sgpr : nat -> N;                   (* 32-bit scalar registers *)
  exec : N; vcc : N; scc : N; m0 : N;(* masks are numbers read with N.testbit *)
  gmem : mem; lds : mem;
  trace : list access                (* ghost: every memory / LDS access made *)
}.

Definition B32 : N := 4294967296.
Definition pair_val (s : nat -> N) (n : nat) : N := s n + B32 * s (S n).
Definition supd (s : nat -> N) (k : nat) (v : N) : nat -> N := fun x => if Nat.eqb x k then v else s x.
Definition supd_pair (s : nat -> N) (n : nat) (v : N) : nat -> N :=
  supd (supd s n (v mod B32)) (S n) (v / B32).

Definition active (e : N) (i : nat) : bool := N.testbit e (N.of_nat i).

(** ** Descriptor of a vector instruction *)

(** where the per-lane input bit comes from (carry-in, select) *)
Inductive msrc := MNone | MVcc | MSgpr (n : nat).
(** where the per-lane result bit goes (carry-out, compare result) *)
Inductive mdst := DNone | DVcc | DSgpr (n : nat) | DExec.

Record lane_in := mkLI { li_row : row; li_bit : bool }.
Record lane_out := mkLO {
  lo_wr : list (nat * N);            (* writes to this lane's VGPRs *)
  lo_bit : option bool;              (* this lane's bit of the mask destination *)
  lo_gst : list (N * N);             (* byte stores to memory *)
  lo_lst : list (N * N);             (* byte stores to the LDS *)
  lo_gld : list N;                   (* byte addresses loaded from memory *)
  lo_lld : list N                    (* byte addresses loaded from the LDS *)
}.

(** uniform operands (SGPR file), memory, LDS, the lane's own inputs *)
Definition lane_fn := (nat -> N) -> mem -> mem -> lane_in -> lane_out.

Record desc := mkD {
  d_f : lane_fn;
  d_src : msrc;
  d_from_acc : bool;  (* the input bit is read from the running accumulator (cdna3 v_addc) *)
  d_dst : mdst;
  d_keep : bool       (* the accumulator starts from the old destination value
                         (inactive lanes keep their bit) instead of 0 (cleared) *)
}.

Definition src_val (d : desc) (st : vstate) : N :=
  match d_src d with MNone => 0 | MVcc => vcc st | MSgpr n => pair_val (sgpr st) n end.
Definition dst_val (d : desc) (st : vstate) : N :=
  match d_dst d with DNone => 0 | DVcc => vcc st | DSgpr n => pair_val (sgpr st) n | DExec => exec st end.
Definition acc0 (d : desc) (st : vstate) : N := if d_keep d then dst_val d st else 0.

(** the lane function never sees the register pair that holds the per-lane
    mask except through its own bit *)
Definition in_pair (n r : nat) : bool := Nat.eqb r n || Nat.eqb r (S n).
Definition hide (s : msrc) (u : nat -> N) : nat -> N :=
  match s with MSgpr n => fun r => if in_pair n r then 0 else u r | _ => u end.

Definition set_bit_opt (acc : N) (i : nat) (b : option bool) : N :=
  match b with
  | Some true => N.setbit acc (N.of_nat i)      (* vcc |= 1 << i *)
  | Some false => N.clearbit acc (N.of_nat i)   (* vcc &= ^(1 << i); no-op when acc started at 0 *)
  | None => acc
  end.

Definition lane_trace (i : nat) (o : lane_out) : list access :=
  map (mkAcc i false false) (lo_gld o) ++ map (mkAcc i true false) (lo_lld o) ++
  map (fun w => mkAcc i false true (fst w)) (lo_gst o) ++ map (fun w => mkAcc i true true (fst w)) (lo_lst o).

Definition write_dst (d : desc) (acc : N) (st : vstate) : vstate :=
  match d_dst d with
  | DNone => st
  | DVcc => mkV (vgpr st) (sgpr st) (exec st) acc (scc st) (m0 st) (gmem st) (lds st) (trace st)
  | DSgpr n => mkV (vgpr st) (supd_pair (sgpr st) n acc) (exec st) (vcc st) (scc st) (m0 st) (gmem st) (lds st) (trace st)
  | DExec => mkV (vgpr st) (sgpr st) acc (vcc st) (scc st) (m0 st) (gmem st) (lds st) (trace st)
  end.

(** ** The parallel lift *)

(** what lane [i] computes when it looks at the initial state *)
Definition out_at (d : desc) (st : vstate) (i : nat) : lane_out :=
  d_f d (hide (d_src d) (sgpr st)) (gmem st) (lds st)
      (mkLI (vgpr st i) (N.testbit (src_val d st) (N.of_nat i))).

Definition lift_vgpr (d : desc) (st : vstate) : nat -> row :=
  fun i => if Nat.ltb i NL && active (exec st) i
           then apply_writes (lo_wr (out_at d st i)) (vgpr st i) else vgpr st i.

Definition mask_fold (g : nat -> option bool) (n : nat) (a : N) : N :=
  fold_left (fun acc i => set_bit_opt acc i (g i)) (seq 0 n) a.

Definition lift_bit (d : desc) (st : vstate) (i : nat) : option bool :=
  if active (exec st) i then lo_bit (out_at d st i) else None.
Definition lift_mask (d : desc) (st : vstate) : N := mask_fold (lift_bit d st) NL (acc0 d st).

Definition stores_fold (w : nat -> list (N * N)) (ls : list nat) (m : mem) : mem :=
  fold_left (fun m i => apply_stores (w i) m) ls m.

Definition lift_gst (d : desc) (st : vstate) (i : nat) : list (N * N) :=
  if active (exec st) i then lo_gst (out_at d st i) else [].
Definition lift_lst (d : desc) (st : vstate) (i : nat) : list (N * N) :=
  if active (exec st) i then lo_lst (out_at d st i) else [].
Definition lift_tr (d : desc) (st : vstate) (i : nat) : list access :=
  if active (exec st) i then lane_trace i (out_at d st i) else [].

Definition vec_lift (d : desc) (st : vstate) : vstate :=
  write_dst d (lift_mask d st)
    (mkV (lift_vgpr d st) (sgpr st) (exec st) (vcc st) (scc st) (m0 st)
         (stores_fold (lift_gst d st) (seq 0 NL) (gmem st))
         (stores_fold (lift_lst d st) (seq 0 NL) (lds st))
         (trace st ++ flat_map (lift_tr d st) (seq 0 NL))).

(** ** The sequential loop of the Go handlers *)

Record loopst := mkL { l_vg : nat -> row; l_acc : N; l_gm : mem; l_lds : mem; l_tr : list access }.

(** One iteration.  [u], [e], [sv] are the values the handler read before the
    loop ([exec := state.EXEC()], [vcc := state.VCC()], scalar operands). *)
Definition lane_step (d : desc) (u : nat -> N) (e sv : N) (ls : loopst) (i : nat) : loopst :=
  if active e i then
    let mb := N.testbit (if d_from_acc d then l_acc ls else sv) (N.of_nat i) in
    let o := d_f d u (l_gm ls) (l_lds ls) (mkLI (l_vg ls i) mb) in
    mkL (fun j => if Nat.eqb j i then apply_writes (lo_wr o) (l_vg ls i) else l_vg ls j)
        (set_bit_opt (l_acc ls) i (lo_bit o))
        (apply_stores (lo_gst o) (l_gm ls))
        (apply_stores (lo_lst o) (l_lds ls))
        (l_tr ls ++ lane_trace i o)
  else ls.

Definition loop_init (d : desc) (st : vstate) : loopst :=
  mkL (vgpr st) (acc0 d st) (gmem st) (lds st) (trace st).

Definition loop_run (d : desc) (st : vstate) (n : nat) : loopst :=
  fold_left (lane_step d (hide (d_src d) (sgpr st)) (exec st) (src_val d st)) (seq 0 n) (loop_init d st).

Definition seq_loop (d : desc) (st : vstate) : vstate :=
  let ls := loop_run d st NL in
  write_dst d (l_acc ls)
    (mkV (l_vg ls) (sgpr st) (exec st) (vcc st) (scc st) (m0 st) (l_gm ls) (l_lds ls) (l_tr ls)).

(** ** Side conditions on a lane function *)

(** extensional in its function-typed arguments *)
Definition fn_ext (f : lane_fn) : Prop :=
  forall u u' g g' l l' rw rw' b,
    (forall r, u r = u' r) -> (forall a, g a = g' a) -> (forall a, l a = l' a) -> (forall k, rw k = rw' k) ->
    f u g l (mkLI rw b) = f u' g' l' (mkLI rw' b).

(** a load (never stores) or a store / ALU operation (never looks at memory) *)
Definition ld_or_st (f : lane_fn) : Prop :=
  (forall u g l g' l' li, f u g l li = f u g' l' li) \/
  (forall u g l li, lo_gst (f u g l li) = [] /\ lo_lst (f u g l li) = []).

(** ** Lane permutations *)

(** [p] and [p'] are mutually inverse bijections of the lanes *)
Definition is_perm (p p' : nat -> nat) : Prop :=
  (forall i, (i < NL)%nat -> (p i < NL)%nat /\ p' (p i) = i) /\
  (forall j, (j < NL)%nat -> (p' j < NL)%nat /\ p (p' j) = j).

(** bit [j] of the result is bit [p' j] of [m] *)
Definition perm_mask (p' : nat -> nat) (m : N) : N :=
  mask_fold (fun j => Some (N.testbit m (N.of_nat (p' j)))) NL 0.

(** lane [j] of the result holds what lane [p' j] held; EXEC, VCC and the
    SGPR pair that is read as a per-lane mask are permuted along *)
Definition perm_state (p' : nat -> nat) (d : desc) (st : vstate) : vstate :=
  mkV (fun j => if Nat.ltb j NL then vgpr st (p' j) else vgpr st j)
      (match d_src d with MSgpr n => supd_pair (sgpr st) n (perm_mask p' (pair_val (sgpr st) n)) | _ => sgpr st end)
      (perm_mask p' (exec st)) (perm_mask p' (vcc st)) (scc st) (m0 st) (gmem st) (lds st) (trace st).

(** [st'] is [st] with its lanes permuted by [p] as far as [d] can see *)
Record perm_rel (p : nat -> nat) (d : desc) (st st' : vstate) : Prop := mkPR {
  pr_vgpr : forall i r, (i < NL)%nat -> vgpr st' (p i) r = vgpr st i r;
  pr_exec : forall i, (i < NL)%nat -> active (exec st') (p i) = active (exec st) i;
  pr_vcc : forall i, (i < NL)%nat -> active (vcc st') (p i) = active (vcc st) i;
  pr_src : forall i, (i < NL)%nat -> active (src_val d st') (p i) = active (src_val d st) i;
  pr_acc : forall i, (i < NL)%nat -> active (acc0 d st') (p i) = active (acc0 d st) i;
  pr_uni : forall r, hide (d_src d) (sgpr st') r = hide (d_src d) (sgpr st) r;
  pr_gmem : forall a, gmem st' a = gmem st a;
  pr_lds : forall a, lds st' a = lds st a;
  pr_scal : scc st' = scc st /\ m0 st' = m0 st
}.

(** the registers of the mask destination pair *)
Definition in_dst (d : desc) (r : nat) : bool :=
  match d_dst d with DSgpr n => in_pair n r | _ => false end.
Definition in_src (d : desc) (r : nat) : bool :=
  match d_src d with MSgpr n => in_pair n r | _ => false end.

(** what equivariance promises about the results *)
Record perm_out (p : nat -> nat) (d : desc) (o o' : vstate) : Prop := mkPO {
  po_vgpr : forall i r, (i < NL)%nat -> vgpr o' (p i) r = vgpr o i r;
  po_exec : forall i, (i < NL)%nat -> active (exec o') (p i) = active (exec o) i;
  po_vcc : forall i, (i < NL)%nat -> active (vcc o') (p i) = active (vcc o) i;
  po_dst : forall i, (i < NL)%nat -> active (dst_val d o') (p i) = active (dst_val d o) i;
  po_sgpr : forall r, in_dst d r = false -> in_src d r = false -> sgpr o' r = sgpr o r;
  po_scal : scc o' = scc o /\ m0 o' = m0 o
}.

(** store addresses of different active lanes are pairwise distinct *)
Definition addrs (ws : list (N * N)) : list N := map fst ws.
Definition distinct_stores (w : nat -> list (N * N)) : Prop :=
  forall i j a, (i < NL)%nat -> (j < NL)%nat -> i <> j -> In a (addrs (w i)) -> ~ In a (addrs (w j)).

(** ** Lane independence of the sequential loop (what a Go handler is)

    For the handler described by [d], run as the sequential loop [seq_loop]:
    (1) a lane whose EXEC bit is clear keeps all its registers, its bit of the
        mask destination is the bit of the initial accumulator (0 unless the
        handler preserves), no access is logged for it, and a byte of memory /
        LDS changes only if an ACTIVE lane stores to it;
    (2) permuting the lanes of the input (registers, EXEC, VCC, mask source)
        permutes the output in the same way (registers, EXEC, VCC, mask
        destination bitwise; other scalars equal), and memory / LDS agree when
        the active lanes store to pairwise distinct addresses. *)
Definition lane_independent (d : desc) : Prop :=
  (forall st i, active (exec st) i = false ->
     (forall r, vgpr (seq_loop d st) i r = vgpr st i r) /\
     N.testbit (dst_val d (seq_loop d st)) (N.of_nat i) = N.testbit (acc0 d st) (N.of_nat i) /\
     (forall x, In x (trace (seq_loop d st)) -> a_lane x = i -> In x (trace st)) /\
     (forall a, (forall j, (j < NL)%nat -> active (exec st) j = true -> ~ In a (addrs (lo_gst (out_at d st j)))) ->
                gmem (seq_loop d st) a = gmem st a) /\
     (forall a, (forall j, (j < NL)%nat -> active (exec st) j = true -> ~ In a (addrs (lo_lst (out_at d st j)))) ->
                lds (seq_loop d st) a = lds st a)) /\
  (forall p p' st st', is_perm p p' -> perm_rel p d st st' ->
     perm_out p d (seq_loop d st) (seq_loop d st') /\
     (distinct_stores (lift_gst d st) -> forall a, gmem (seq_loop d st') a = gmem (seq_loop d st) a) /\
     (distinct_stores (lift_lst d st) -> forall a, lds (seq_loop d st') a = lds (seq_loop d st) a)).

(** ** Scalar handlers: the access pattern *)

Record sstate := mkS {
  s_sgpr : nat -> N; s_scc : N; s_vcc : N; s_exec : N; s_m0 : N; s_pc : N; s_mem : mem
}.

(** A scalar handler as the sequence of state accesses it makes; what it
    computes in between is arbitrary (the continuations). *)
Inductive sprog :=
| SRet
| SRdSgpr (r : nat) (k : N -> sprog)
| SRdScc (k : N -> sprog)
| SRdVcc (k : N -> sprog)
| SRdExec (k : N -> sprog)
| SRdM0 (k : N -> sprog)
| SRdPc (k : N -> sprog)
| SRdMem (a : N) (k : N -> sprog)
| SWrSgpr (r : nat) (v : N) (k : sprog)
| SWrScc (v : N) (k : sprog)
| SWrVcc (v : N) (k : sprog)
| SWrExec (v : N) (k : sprog)
| SWrM0 (v : N) (k : sprog)
| SWrPc (v : N) (k : sprog).

Fixpoint srun (p : sprog) (s : sstate) : sstate :=
  match p with
  | SRet => s
  | SRdSgpr r k => srun (k (s_sgpr s r)) s
  | SRdScc k => srun (k (s_scc s)) s
  | SRdVcc k => srun (k (s_vcc s)) s
  | SRdExec k => srun (k (s_exec s)) s
  | SRdM0 k => srun (k (s_m0 s)) s
  | SRdPc k => srun (k (s_pc s)) s
  | SRdMem a k => srun (k (s_mem s a)) s
  | SWrSgpr r v k => srun k (mkS (supd (s_sgpr s) r v) (s_scc s) (s_vcc s) (s_exec s) (s_m0 s) (s_pc s) (s_mem s))
  | SWrScc v k => srun k (mkS (s_sgpr s) v (s_vcc s) (s_exec s) (s_m0 s) (s_pc s) (s_mem s))
  | SWrVcc v k => srun k (mkS (s_sgpr s) (s_scc s) v (s_exec s) (s_m0 s) (s_pc s) (s_mem s))
  | SWrExec v k => srun k (mkS (s_sgpr s) (s_scc s) (s_vcc s) v (s_m0 s) (s_pc s) (s_mem s))
  | SWrM0 v k => srun k (mkS (s_sgpr s) (s_scc s) (s_vcc s) (s_exec s) v (s_pc s) (s_mem s))
  | SWrPc v k => srun k (mkS (s_sgpr s) (s_scc s) (s_vcc s) (s_exec s) (s_m0 s) v (s_mem s))
  end.

(** does the run from [s] write EXEC? *)
Fixpoint swrote (p : sprog) (s : sstate) : bool :=
  match p with
  | SRet => false
  | SRdSgpr r k => swrote (k (s_sgpr s r)) s
  | SRdScc k => swrote (k (s_scc s)) s
  | SRdVcc k => swrote (k (s_vcc s)) s
  | SRdExec k => swrote (k (s_exec s)) s
  | SRdM0 k => swrote (k (s_m0 s)) s
  | SRdPc k => swrote (k (s_pc s)) s
  | SRdMem a k => swrote (k (s_mem s a)) s
  | SWrSgpr r v k => swrote k (mkS (supd (s_sgpr s) r v) (s_scc s) (s_vcc s) (s_exec s) (s_m0 s) (s_pc s) (s_mem s))
  | SWrScc v k => swrote k (mkS (s_sgpr s) v (s_vcc s) (s_exec s) (s_m0 s) (s_pc s) (s_mem s))
  | SWrVcc v k => swrote k (mkS (s_sgpr s) (s_scc s) v (s_exec s) (s_m0 s) (s_pc s) (s_mem s))
  | SWrExec v k => true
  | SWrM0 v k => swrote k (mkS (s_sgpr s) (s_scc s) (s_vcc s) (s_exec s) v (s_pc s) (s_mem s))
  | SWrPc v k => swrote k (mkS (s_sgpr s) (s_scc s) (s_vcc s) (s_exec s) (s_m0 s) v (s_mem s))
  end.

(** the handler never asks for EXEC (no [state.EXEC()], no EXEC operand) *)
Inductive no_exec_read : sprog -> Prop :=
| NE_ret : no_exec_read SRet
| NE_sgpr r k : (forall v, no_exec_read (k v)) -> no_exec_read (SRdSgpr r k)
| NE_scc k : (forall v, no_exec_read (k v)) -> no_exec_read (SRdScc k)
| NE_vcc k : (forall v, no_exec_read (k v)) -> no_exec_read (SRdVcc k)
| NE_m0 k : (forall v, no_exec_read (k v)) -> no_exec_read (SRdM0 k)
| NE_pc k : (forall v, no_exec_read (k v)) -> no_exec_read (SRdPc k)
| NE_mem a k : (forall v, no_exec_read (k v)) -> no_exec_read (SRdMem a k)
| NE_wsgpr r v k : no_exec_read k -> no_exec_read (SWrSgpr r v k)
| NE_wscc v k : no_exec_read k -> no_exec_read (SWrScc v k)
| NE_wvcc v k : no_exec_read k -> no_exec_read (SWrVcc v k)
| NE_wexec v k : no_exec_read k -> no_exec_read (SWrExec v k)
| NE_wm0 v k : no_exec_read k -> no_exec_read (SWrM0 v k)
| NE_wpc v k : no_exec_read k -> no_exec_read (SWrPc v k).

(** two scalar states that agree on everything but EXEC *)
Definition seq_mod_exec (a b : sstate) : Prop :=
  (forall r, s_sgpr a r = s_sgpr b r) /\ s_scc a = s_scc b /\ s_vcc a = s_vcc b /\
  s_m0 a = s_m0 b /\ s_pc a = s_pc b /\ (forall x, s_mem a x = s_mem b x).

Definition set_exec (e : N) (s : sstate) : sstate :=
  mkS (s_sgpr s) (s_scc s) (s_vcc s) e (s_m0 s) (s_pc s) (s_mem s).

(** ** Documented cross-lane instructions (outside the combinator) *)

(** v_readfirstlane_b32 as implemented: the value of the first active lane
    (lane 0 when EXEC = 0) goes to a scalar register. *)
Fixpoint first_active (e : N) (n : nat) (i : nat) : nat :=
  match n with
  | O => O
  | S n' => if active e i then i else first_active e n' (S i)
  end.
Definition readfirstlane (src dst : nat) (st : vstate) : vstate :=
  let l := first_active (exec st) NL 0 in
  mkV (vgpr st) (supd (sgpr st) dst (vgpr st l src)) (exec st) (vcc st) (scc st) (m0 st) (gmem st) (lds st) (trace st).
