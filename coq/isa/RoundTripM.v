(** C04 — decode∘encode for DS, FLAT, VOP3a, VOP3b. *)
From Coq Require Import NArith ZArith List String Bool Lia.
From Coq Require Import ZifyN ZifyBool.
From RecordUpdate Require Import RecordSet.
From VIsa Require Import InstTypes Decode DecodeProofs Encode EncodeProofs RoundTrip RoundTripV.
From VGen Require Import FormatTable DecodeTable RegTable.
Import ListNotations.
Open Scope N_scope.

Lemma extract_bit_spec w p : extract_bit w p = extract_bits w p p.
Proof.
  rewrite extract_bits_spec by flia. unfold extract_bit.
  rewrite N.shiftr_div_pow2. change 1 with (N.ones 1) at 1. rewrite N.land_ones.
  replace (p - p + 1) with 1 by flia. reflexivity.
Qed.

Lemma ds_offsets_same op : ds_two_offsets op = ds_dual_offset op.
Proof.
  unfold ds_two_offsets, ds_dual_offset. cbn [existsb]. rewrite orb_false_r, !orb_assoc. reflexivity.
Qed.

Theorem decode_encode_ds c r offset0 offset1 gds addr data0 data1 vdst tail :
  let d := DDs r offset0 offset1 gds addr data0 data1 vdst in
  wf d = true -> decode c (encode d ++ tail) = Ok (spec_inst c d) (dsize d).
Proof.
  intros d. subst d. cbn [wf]. rewrite !andb_true_iff.
  intros [[[[[[Hr H0] H1] Ha] Hd0] Hd1] Hvd]. apply N.leb_le in H0, H1, Ha, Hd0, Hd1, Hvd.
  pose proof (row_opcode_bound DS r 8 Hr eq_refl) as Hop.
  set (fs := [(offset0, 8); (offset1, 8); (b2n gds, 1); (r_opcode r, 8); (0, 1); (54, 6)]).
  set (gs := [(addr, 8); (data0, 8); (data1, 8); (vdst, 8)]).
  assert (Hok : fields_ok fs) by (unfold fs; destruct gds; fok).
  assert (Hgk : fields_ok gs) by fok.
  apply decode_encode_wrap; unfold dsize; cbn [words fst snd]; fold fs; fold gs.
  - exact (pack_bound fs Hok).
  - intros w E; inversion E. exact (pack_bound gs Hgk).
  - intros len w1 Hlen Hw1. rewrite (Hw1 _ eq_refl). clear Hw1.
    rewrite (core_of_row c len (pack fs) (pack gs) r DS 26 54 Hr eq_refl).
    + cbn [dispatch]. unfold decode_ds, decode_ds_body, read_hi.
      destruct (N.ltb_spec len 8); [flia|]. cbn [bind]. cbv zeta. rewrite extract_bit_spec.
      xfield Hok. xfield Hgk.
      change (i_row (inst0 (fmt_format DS) r)) with r.
      rewrite nz_b2n, ds_offsets_same, N.shiftl_mul_pow2, (N.mul_comm offset1). pow2.
      rewrite !new_vreg_spec by assumption.
      unfold spec_inst, base_inst, dsize. cbn [d_row words snd]. rowfmt Hr. reflexivity.
    + rewrite (drop_div fs Hok 26 _ eq_refl). reflexivity.
    + opc DS 17 24 Hok.
    + opc DS 17 24 Hok.
    + change (f_size (fmt_format DS)) with 8. flia.
    + flia.
  - unfold spec_inst, base_inst, dsize. cbn [d_row words snd]. reflexivity.
Qed.

(** sign extension of the 13-bit FLAT offset, checked for all 8192 values *)
Definition flat_offset_check : bool :=
  forallb (fun raw => (if nz (N.land raw 4096) then N.lor raw 4294959104 else raw)
                      =? (if 4096 <=? raw then raw + 4294959104 else raw)) (nrange (N.to_nat 8192) 0).
Lemma flat_offset_true : flat_offset_check = true.
Proof. vm_compute. reflexivity. Qed.
Lemma flat_offset_spec raw :
  raw < 8192 ->
  (if nz (N.land raw 4096) then N.lor raw 4294959104 else raw)
  = (if 4096 <=? raw then raw + 4294959104 else raw).
Proof.
  intros H. pose proof flat_offset_true as E. unfold flat_offset_check in E.
  rewrite forallb_forall in E. apply N.eqb_eq. apply E. apply nrange_in0. rewrite N2Nat.id. exact H.
Qed.

Theorem decode_encode_flat c r offset glc slc addr data saddr tfe vdst tail :
  let d := DFlat r offset glc slc addr data saddr tfe vdst in
  wf d = true -> decode c (encode d ++ tail) = Ok (spec_inst c d) (dsize d).
Proof.
  intros d. subst d. cbn [wf]. rewrite !andb_true_iff.
  intros [[[[[Hr Hof] Ha] Hd] Hsa] Hvd]. apply N.leb_le in Ha, Hd, Hsa, Hvd. apply N.ltb_lt in Hof.
  pose proof (row_opcode_bound FLAT r 7 Hr eq_refl) as Hop.
  set (fs := [(offset, 13); (0, 3); (b2n glc, 1); (b2n slc, 1); (r_opcode r, 7); (0, 1); (55, 6)]).
  set (gs := [(addr, 8); (data, 8); (saddr, 7); (b2n tfe, 1); (vdst, 8)]).
  assert (Hok : fields_ok fs) by (unfold fs; destruct glc, slc; fok).
  assert (Hgk : fields_ok gs) by (unfold gs; destruct tfe; fok).
  apply decode_encode_wrap; unfold dsize; cbn [words fst snd]; fold fs; fold gs.
  - exact (pack_bound fs Hok).
  - intros w E; inversion E. exact (pack_bound gs Hgk).
  - intros len w1 Hlen Hw1. rewrite (Hw1 _ eq_refl). clear Hw1.
    rewrite (core_of_row c len (pack fs) (pack gs) r FLAT 26 55 Hr eq_refl).
    + cbn [dispatch]. unfold decode_flat, decode_flat_body, read_hi.
      destruct (N.ltb_spec len 8); [flia|]. cbn [bind]. cbv zeta.
      xfield Hok. xfield Hgk.
      change (i_row (inst0 (fmt_format FLAT) r)) with r.
      rewrite !nz_b2n, flat_offset_spec by assumption.
      rewrite !new_vreg_spec by assumption.
      unfold spec_inst, base_inst, dsize. cbn [d_row words snd]. rowfmt Hr.
      destruct c, (saddr =? 127), (saddr =? 0); reflexivity.
    + rewrite (drop_div fs Hok 26 _ eq_refl). reflexivity.
    + opc FLAT 18 24 Hok.
    + opc FLAT 18 24 Hok.
    + change (f_size (fmt_format FLAT)) with 8. flia.
    + flia.
  - unfold spec_inst, base_inst, dsize. cbn [d_row words snd]. reflexivity.
Qed.

Lemma code_sdst_opnd k : code_of (sdst_opnd k) = k.
Proof. unfold sdst_opnd. destruct (k <=? 101); reflexivity. Qed.

Lemma cnt64_vgpr w v : cnt64 w (spec_vgpr v 1) = spec_vgpr v (if w =? 64 then 2 else 1).
Proof. unfold cnt64. destruct (w =? 64); reflexivity. Qed.

Lemma cnt64_vgpr0 w v : cnt64 w (spec_vgpr v 0) = spec_vgpr v (w64 w).
Proof. unfold cnt64, w64. destruct (w =? 64); reflexivity. Qed.

(** a VOP3 source: operand code -> operand with the register count of the row width *)
Lemma vop3_src p w : opnd_wf p = true -> opnd_is_lit p = false ->
  getop (code_of p) = ROk (pre_operand p) /\ cnt64 w (pre_operand p) = spec_operand p (w64 w).
Proof.
  intros H L. split; [apply getop_code; auto|]. rewrite (pre_nolit p L). apply cnt64_spec.
Qed.

Lemma src9nl_split p : src9nl p = true -> opnd_wf p = true /\ opnd_is_lit p = false.
Proof. unfold src9nl. rewrite andb_true_iff, negb_true_iff. auto. Qed.

Theorem decode_encode_vop3b c r vdst sdst clamp s0 s1 s2 omod neg tail :
  let d := DVop3b r vdst sdst clamp s0 s1 s2 omod neg in
  wf d = true -> decode c (encode d ++ tail) = Ok (spec_inst c d) (dsize d).
Proof.
  intros d. subst d. cbn [wf]. unfold sdst7. rewrite !andb_true_iff.
  intros [[[[[[[Hr Hvd] [Hsd1 Hsd2]] Ha] Hb] Hc] Hom] Hng].
  apply N.leb_le in Hvd. apply N.ltb_lt in Hom, Hng.
  apply src9nl_split in Ha, Hb, Hc. destruct Ha as [Ha La], Hb as [Hb Lb], Hc as [Hc Lc].
  pose proof (row_opcode_bound VOP3b r 10 Hr eq_refl) as Hop.
  pose proof (opnd_code_bound s0 Ha) as Hab. pose proof (opnd_code_bound s1 Hb) as Hbb.
  pose proof (opnd_code_bound s2 Hc) as Hcb.
  pose proof (code_bound_sdst _ Hsd1 Hsd2) as Hsb. rewrite code_sdst_opnd in Hsb.
  set (fs := [(vdst, 8); (sdst, 7); (b2n clamp, 1); (r_opcode r, 10); (52, 6)]).
  set (gs := [(code_of s0, 9); (code_of s1, 9); (code_of s2, 9); (omod, 2); (neg, 3)]).
  assert (Hok : fields_ok fs) by (unfold fs; destruct clamp; fok).
  assert (Hgk : fields_ok gs) by fok.
  apply decode_encode_wrap; unfold dsize; cbn [words fst snd]; fold fs; fold gs.
  - exact (pack_bound fs Hok).
  - intros w E; inversion E. exact (pack_bound gs Hgk).
  - intros len w1 Hlen Hw1. rewrite (Hw1 _ eq_refl). clear Hw1.
    rewrite (core_of_row c len (pack fs) (pack gs) r VOP3b 26 52 Hr eq_refl).
    + cbn [dispatch]. unfold decode_vop3b, decode_vop3b_body, read_hi.
      destruct (N.ltb_spec len 8); [flia|]. cbn [bind]. cbv zeta.
      xfield Hok. xfield Hgk.
      change (i_row (inst0 (fmt_format VOP3b) r)) with r.
      rewrite <- (code_sdst_opnd sdst) at 1. rewrite (getop_code _ Hsd1). cbn [bind].
      rewrite (pre_nolit _ (sdst_nolit _ Hsd2)), cnt64_spec.
      destruct (vop3_src s0 (r_src0w r) Ha La) as [G0 C0]. rewrite G0. cbn [bind]. rewrite C0.
      destruct (vop3_src s1 (r_src1w r) Hb Lb) as [G1 C1]. rewrite G1. cbn [bind]. rewrite C1.
      destruct (vop3_src s2 (r_src2w r) Hc Lc) as [G2 C2].
      rewrite nz_b2n, new_vreg_spec, cnt64_vgpr by assumption.
      unfold spec_inst, base_inst, dsize. cbn [d_row words snd]. rowfmt Hr.
      destruct (255 <? r_opcode r), (0 <? r_src2w r); cbn [andb]; rewrite ?G2; cbn [bind]; rewrite ?C2; reflexivity.
    + rewrite (drop_div fs Hok 26 _ eq_refl). reflexivity.
    + opc VOP3a 16 25 Hok.
    + opc VOP3b 16 25 Hok.
    + change (f_size (fmt_format VOP3b)) with 8. flia.
    + flia.
  - unfold spec_inst, base_inst, dsize. cbn [d_row words snd]. reflexivity.
Qed.

Lemma bit_tests x : x < 8 ->
  nz (N.land x 1) = N.testbit x 0 /\ nz (N.land x 2) = N.testbit x 1 /\ nz (N.land x 4) = N.testbit x 2.
Proof.
  intros H. assert (x = 0 \/ x = 1 \/ x = 2 \/ x = 3 \/ x = 4 \/ x = 5 \/ x = 6 \/ x = 7) as E by flia.
  destruct E as [->|[->|[->|[->|[->|[->|[->| ->]]]]]]]; repeat split; reflexivity.
Qed.

Lemma lor_shift2 a b : a < 4 -> b < 2 -> N.lor a (N.shiftl b 2) = a + 4 * b.
Proof.
  intros Ha Hb. assert (a = 0 \/ a = 1 \/ a = 2 \/ a = 3) as Ea by flia.
  assert (b = 0 \/ b = 1) as Eb by flia.
  destruct Ea as [->|[->|[->| ->]]], Eb as [->| ->]; reflexivity.
Qed.

Theorem decode_encode_vop3a c r vdst abs opsel clamp s0 s1 s2 omod neg tail :
  let d := DVop3a r vdst abs opsel clamp s0 s1 s2 omod neg in
  wf d = true -> decode c (encode d ++ tail) = Ok (spec_inst c d) (dsize d).
Proof.
  intros d. subst d. cbn [wf]. rewrite !andb_true_iff.
  intros [[[[[[[[Hr Hvd] Hab] Hos] Ha] Hb] Hc] Hom] Hng].
  apply N.ltb_lt in Hab, Hos, Hom, Hng.
  apply src9nl_split in Ha, Hb, Hc. destruct Ha as [Ha La], Hb as [Hb Lb], Hc as [Hc Lc].
  pose proof (row_opcode_bound VOP3a r 10 Hr eq_refl) as Hop.
  pose proof (opnd_code_bound s0 Ha) as Hab0. pose proof (opnd_code_bound s1 Hb) as Hbb.
  pose proof (opnd_code_bound s2 Hc) as Hcb.
  assert (Hvb : vdst <= 255) by (destruct (r_opcode r <=? 255); flia).
  assert (Ho8 : opsel / 8 < 2) by (apply N.div_lt_upper_bound; flia).
  assert (Hhi : (opsel / 2 ^ (14 - 11)) mod 2 ^ (14 - 14 + 1) = opsel / 8).
  { pow2. apply N.mod_small. exact Ho8. }
  set (fs := [(vdst, 8); (abs, 3); (opsel, 4); (b2n clamp, 1); (r_opcode r, 10); (52, 6)]).
  set (gs := [(code_of s0, 9); (code_of s1, 9); (code_of s2, 9); (omod, 2); (neg, 3)]).
  assert (Hok : fields_ok fs) by (unfold fs; destruct clamp; fok).
  assert (Hgk : fields_ok gs) by fok.
  apply decode_encode_wrap; unfold dsize; cbn [words fst snd]; fold fs; fold gs.
  - exact (pack_bound fs Hok).
  - intros w E; inversion E. exact (pack_bound gs Hgk).
  - intros len w1 Hlen Hw1. rewrite (Hw1 _ eq_refl). clear Hw1.
    rewrite (core_of_row c len (pack fs) (pack gs) r VOP3a 26 52 Hr eq_refl).
    + cbn [dispatch]. unfold decode_vop3a, decode_vop3a_body, read_hi.
      destruct (N.ltb_spec len 8); [flia|]. cbn [bind]. cbv zeta.
      xfield Hok. xfield Hgk. xsub Hok.
      change (i_row (inst0 (fmt_format VOP3a) r)) with r.
      assert (Hd : (if r_opcode r <=? 255 then getop vdst else ROk (new_vreg vdst vdst 0))
                   = ROk (if r_opcode r <=? 255 then spec_operand (PS vdst) 0 else spec_vgpr vdst 0)).
      { destruct (r_opcode r <=? 255).
        - apply (getop_code (PS vdst)). exact Hvd.
        - rewrite new_vreg_spec by exact Hvb. reflexivity. }
      rewrite Hd. cbn [bind].
      destruct (vop3_src s0 (r_src0w r) Ha La) as [G0 C0]. rewrite G0. cbn [bind]. rewrite C0.
      destruct (vop3_src s1 (r_src1w r) Hb Lb) as [G1 C1]. rewrite G1. cbn [bind]. rewrite C1.
      destruct (vop3_src s2 (r_src2w r) Hc Lc) as [G2 C2].
      destruct (bit_tests abs Hab) as (A0 & A1 & A2). rewrite A0, A1, A2.
      destruct (bit_tests neg Hng) as (N0' & N1' & N2'). rewrite N0', N1', N2'.
      rewrite nz_b2n.
      unfold spec_inst, base_inst, dsize. cbn [d_row words snd]. rowfmt Hr.
      destruct (r_src2w r =? 0); cbn [negb]; rewrite ?G2; cbn [bind]; rewrite ?C2;
        destruct (r_opcode r <=? 255); rewrite ?cnt64_spec, ?cnt64_vgpr0;
        destruct (r_opcode r =? 944); [| destruct ((945 <=? r_opcode r) && (r_opcode r <=? 946)) | |
                                         destruct ((945 <=? r_opcode r) && (r_opcode r <=? 946)) | |
                                         destruct ((945 <=? r_opcode r) && (r_opcode r <=? 946)) | |
                                         destruct ((945 <=? r_opcode r) && (r_opcode r <=? 946))];
        rewrite ?Hhi, ?lor_shift2 by assumption;
        pow2; rewrite ?N.div_1_r; reflexivity.
    + rewrite (drop_div fs Hok 26 _ eq_refl). reflexivity.
    + opc VOP3a 16 25 Hok.
    + opc VOP3a 16 25 Hok.
    + change (f_size (fmt_format VOP3a)) with 8. flia.
    + flia.
  - unfold spec_inst, base_inst, dsize. cbn [d_row words snd].
    destruct (r_opcode r =? 944); [|destruct ((945 <=? r_opcode r) && (r_opcode r <=? 946))]; reflexivity.
Qed.
