(** C03 — vector rows proved by the generic arithmetic tactic (part 1). *)
From Coq Require Import ZArith List Bool Lia ZifyBool.
Import ListNotations.
From VIsa Require Import IsaState ExecImpl ExecSpec ExecImplV ExecSpecV ExecProofs ExecRows ExecVProofs ExecVRowsA.
Open Scope Z_scope.
Ltac Zify.zify_post_hook ::= Z.div_mod_to_equations.

Lemma r_g_vop2_0 : row_ok GCN3 F_VOP2 0. Proof. try_row. Qed.
Lemma r_g_vop2_19 : row_ok GCN3 F_VOP2 19. Proof. try_row. Qed.
Lemma r_g_vop2_28 : row_ok GCN3 F_VOP2 28. Proof. try_row. Qed.
Lemma r_g_vopc_196 : row_ok GCN3 F_VOPC 196. Proof. try_row. Qed.
Lemma r_g_vopc_204 : row_ok GCN3 F_VOPC 204. Proof. try_row. Qed.
Lemma r_g_vop3a_198 : row_ok GCN3 F_VOP3A 198. Proof. try_row. Qed.
Lemma r_g_vop3a_206 : row_ok GCN3 F_VOP3A 206. Proof. try_row. Qed.
Lemma r_g_vop3b_283 : row_ok GCN3 F_VOP3B 283. Proof. try_row. Qed.
Lemma r_c_vop2_12 : row_ok CDNA3 F_VOP2 12. Proof. try_row. Qed.
Lemma r_c_vop2_27 : row_ok CDNA3 F_VOP2 27. Proof. try_row. Qed.
Lemma r_c_vop2_54 : row_ok CDNA3 F_VOP2 54. Proof. try_row. Qed.
Lemma r_c_vopc_198 : row_ok CDNA3 F_VOPC 198. Proof. try_row. Qed.
Lemma r_c_vopc_206 : row_ok CDNA3 F_VOPC 206. Proof. try_row. Qed.
Lemma r_c_vop3a_202 : row_ok CDNA3 F_VOP3A 202. Proof. try_row. Qed.
Lemma r_c_vop3a_451 : row_ok CDNA3 F_VOP3A 451. Proof. try_row. Qed.
Lemma r_c_vop3b_284 : row_ok CDNA3 F_VOP3B 284. Proof. try_row. Qed.
