(** C03 — vector rows proved by the generic arithmetic tactic (part 4). *)
From Coq Require Import ZArith List Bool Lia ZifyBool.
Import ListNotations.
From VIsa Require Import IsaState ExecImpl ExecSpec ExecImplV ExecSpecV ExecProofs ExecRows ExecVProofs ExecVRowsA.
Open Scope Z_scope.
Ltac Zify.zify_post_hook ::= Z.div_mod_to_equations.

Lemma r_g_vop2_13 : row_ok GCN3 F_VOP2 13. Proof. try_row. Qed.
Lemma r_g_vop2_25 : row_ok GCN3 F_VOP2 25. Proof. try_row. Qed.
Lemma r_g_vop1_1 : row_ok GCN3 F_VOP1 1. Proof. try_row. Qed.
Lemma r_g_vopc_201 : row_ok GCN3 F_VOPC 201. Proof. try_row. Qed.
Lemma r_g_vop3a_193 : row_ok GCN3 F_VOP3A 193. Proof. try_row. Qed.
Lemma r_g_vop3a_203 : row_ok GCN3 F_VOP3A 203. Proof. try_row. Qed.
Lemma r_g_vop3a_645 : row_ok GCN3 F_VOP3A 645. Proof. try_row. Qed.
Lemma r_g_vop3b_286 : row_ok GCN3 F_VOP3B 286. Proof. try_row. Qed.
Lemma r_c_vop2_15 : row_ok CDNA3 F_VOP2 15. Proof. try_row. Qed.
Lemma r_c_vop2_30 : row_ok CDNA3 F_VOP2 30. Proof. try_row. Qed.
Lemma r_c_vopc_195 : row_ok CDNA3 F_VOPC 195. Proof. try_row. Qed.
Lemma r_c_vopc_203 : row_ok CDNA3 F_VOPC 203. Proof. try_row. Qed.
Lemma r_c_vop3a_196 : row_ok CDNA3 F_VOP3A 196. Proof. try_row. Qed.
Lemma r_c_vop3a_205 : row_ok CDNA3 F_VOP3A 205. Proof. try_row. Qed.
Lemma r_c_vop3b_281 : row_ok CDNA3 F_VOP3B 281. Proof. try_row. Qed.
