(** C03 — evaluation of recorded runs of the real ALUs against both
    transcriptions (used by tools/checks/c03.py through vm_compute). *)
From Coq Require Import ZArith List Bool.
Import ListNotations.
From VIsa Require Import IsaState ExecImpl ExecSpec ExecImplV ExecSpecV IsaFloat ExecImplF ExecSpecF ExecImplM ExecSpecM.
Open Scope Z_scope.

(** partial state as the harness records it: scalars + the probed registers *)
Record pstate := mkP {
  p_scc : Z; p_vcc : Z; p_exec : Z; p_m0 : Z; p_pc : Z;
  p_s : list (Z * Z); p_v : list (Z * Z * Z);
  p_vc : list (Z * list Z);                     (* VGPR columns: (register, its values in lanes 0..63) *)
  p_seed : Z;                                   (* memory and LDS hold [dflt p_seed x] at address x unless listed *)
  p_mem : list (Z * list Z); p_lds : list (Z * list Z)   (* byte runs (start, bytes) that differ from the default content *)
}.

Record case := mkCase {
  c_arch : arch; c_inst : inst; c_pre : pstate;
  c_crash : bool;        (* the Go ALU panicked *)
  c_eff : bool;          (* storage accessor called or LDS changed *)
  c_post : pstate        (* same register keys as c_pre: named by the instruction or changed *)
}.

Fixpoint lookup (l : list (Z * Z)) (i : Z) : Z :=
  match l with [] => 0 | (k, v) :: t => if k =? i then v else lookup t i end.
Fixpoint lookup2 (l : list (Z * Z * Z)) (a b : Z) : Z :=
  match l with [] => 0 | (k1, k2, v) :: t => if (k1 =? a) && (k2 =? b) then v else lookup2 t a b end.

Fixpoint lookupc (cs : list (Z * list Z)) (l r : Z) : option Z :=
  match cs with
  | [] => None
  | (k, vs) :: t => if k =? r then Some (nth (Z.to_nat l) vs 0) else lookupc t l r
  end.
Fixpoint lookupr (rs : list (Z * list Z)) (x : Z) : option Z :=
  match rs with
  | [] => None
  | (b, vs) :: t => if (b <=? x) && (x <? b + Z.of_nat (length vs)) then Some (nth (Z.to_nat (x - b)) vs 0) else lookupr t x
  end.
(** default content of the harness's byte memory and LDS (same formula in harness/cmd/c03/mem.go) *)
Definition dflt (s x : Z) : Z := ((x mod 251) * 167 + ((x / 256) mod 65521) * 59 + s) mod 256.
Definition bytes_of (s : Z) (rs : list (Z * list Z)) (x : Z) : Z :=
  match lookupr rs x with Some v => v | None => dflt s x end.
(** all values of a run / column agree with [f] from index [b] on *)
Fixpoint chk (eqv : Z -> Z -> bool) (f : Z -> Z) (b : Z) (vs : list Z) : bool :=
  match vs with [] => true | v :: t => eqv (f b) v && chk eqv f (b + 1) t end.

Definition to_state (p : pstate) : state :=
  mkState (lookup (p_s p))
          (fun l r => match lookupc (p_vc p) l r with Some v => v | None => lookup2 (p_v p) l r end)
          (p_exec p) (p_vcc p) (p_scc p) (p_m0 p) (p_pc p)
          (bytes_of (p_seed p) (p_mem p)) (bytes_of (p_seed p) (p_lds p)).

(** instructions whose VGPR result is a binary32 value: NaN results are compared
    as a class (payloads are outside the model) *)
Definition float_dst (i : inst) : bool :=
  match i_fmt i with
  | F_VOP2 => existsb (Z.eqb (i_op i)) [1; 2; 3; 5; 10; 11; 22; 23; 24; 59]
  | F_VOP3A => existsb (Z.eqb (i_op i)) [258; 261; 449; 459]
  | F_VOP1 => existsb (Z.eqb (i_op i)) [5; 6; 15; 28; 30]
  | _ => false
  end.
Definition veq (fl : bool) (a b : Z) : bool := (a =? b) || (fl && f32_isnan a && f32_isnan b).

(** store instructions: the bytes the manual says are written (computed from the
    pre-state) are compared too, so that a store the ALU dropped is seen *)
Definition act_lanes (st : state) : list Z := filter (fun l => Z.testbit (exec st) l) lanes.
Definition span (norm : Z -> Z) (a n : Z) : list Z := map (fun j => norm (a + Z.of_nat j)) (seq 0 (Z.to_nat n)).
Definition mem_probes (a : arch) (st : state) (i : inst) : list Z :=
  match i_fmt i, flat_store_row (i_op i) with
  | F_FLAT, Some k =>
      if flat_ok a i then flat_map (fun l => span (fun x => x mod W64) (flat_ea a st i l) (4 * k)) (act_lanes st) else []
  | _, _ => []
  end.
Definition lds_probes (a : arch) (st : state) (i : inst) : list Z :=
  match i_fmt i with
  | F_DS =>
      match ds_row a (i_op i) with
      | Some (DsWrite k) => flat_map (fun l => span (fun x => x) (ds_ea st i l (ds_off0 i)) (4 * k)) (act_lanes st)
      | Some (DsWrite2 k) =>
          flat_map (fun l => span (fun x => x) (ds_ea st i l (ds_off0 i * (4 * k))) (4 * k) ++
                             span (fun x => x) (ds_ea st i l (ds_off1 i * (4 * k))) (4 * k)) (act_lanes st)
      | Some DsWriteB8 => map (fun l => ds_ea st i l (ds_off0 i)) (act_lanes st)
      | _ => []
      end
  | _ => []
  end.

(** binary64 destinations (a VGPR pair): a NaN result is compared as a class -
    the model's pair is a NaN and the recorded high dword is that of a quiet NaN
    (Go arithmetic and conversions only produce quiet NaNs) *)
Definition f64_dst (i : inst) : option Z :=
  match i_fmt i with
  | F_VOP3A => if (i_op i =? 640) || (i_op i =? 641) then Some (i_dst i - 256) else None
  | F_VOP1 => if i_op i =? 16 then Some (i_dst i - 256) else None
  | _ => None
  end.
Definition qnan_hi (v : Z) : bool := Z.land v 2146959360 =? 2146959360.
Definition veq_g (fl : bool) (d64 : option Z) (st : state) (l r v : Z) : bool :=
  veq fl (vgpr st l r) v ||
  match d64 with
  | Some d => f64_isnan (vgpr st l d + 4294967296 * vgpr st l (d + 1)) && ((r =? d) || ((r =? d + 1) && qnan_hi v))
  | None => false
  end.
Fixpoint chkl (eqv : Z -> Z -> bool) (b : Z) (vs : list Z) : bool :=
  match vs with [] => true | v :: t => eqv b v && chkl eqv (b + 1) t end.
Definition agrees_g (fl : bool) (d64 : option Z) (st : state) (p : pstate) : bool :=
  (scc st =? p_scc p) && (vcc st =? p_vcc p) && (exec st =? p_exec p) && (m0 st =? p_m0 p) &&
  (pc st =? p_pc p) &&
  forallb (fun kv => sgpr st (fst kv) =? snd kv) (p_s p) &&
  forallb (fun kv => veq_g fl d64 st (fst (fst kv)) (snd (fst kv)) (snd kv)) (p_v p) &&
  forallb (fun cv => chkl (fun l v => veq_g fl d64 st l (fst cv) v) 0 (snd cv)) (p_vc p) &&
  forallb (fun bv => chk Z.eqb (mem st) (fst bv) (snd bv)) (p_mem p) &&
  forallb (fun bv => chk Z.eqb (lds st) (fst bv) (snd bv)) (p_lds p).
Definition agrees_f (fl : bool) (st : state) (p : pstate) : bool := agrees_g fl None st p.
Definition probes_ok (st : state) (p : pstate) (mp lp : list Z) : bool :=
  forallb (fun x => mem st x =? bytes_of (p_seed p) (p_mem p) x) mp &&
  forallb (fun x => lds st x =? bytes_of (p_seed p) (p_lds p) x) lp.
Definition post_ok (c : case) (st' : state) : bool :=
  let st := to_state (c_pre c) in
  agrees_g (float_dst (c_inst c)) (f64_dst (c_inst c)) st' (c_post c) &&
  probes_ok st' (c_post c) (mem_probes (c_arch c) st (c_inst c)) (lds_probes (c_arch c) st (c_inst c)).
Definition agrees (st : state) (p : pstate) : bool := agrees_f false st p.

Definition is_vector (f : format) : bool :=
  match f with F_VOP2 | F_VOP1 | F_VOPC | F_VOP3A | F_VOP3B => true | _ => false end.
Definition is_mem (f : format) : bool :=
  match f with F_SMEM | F_FLAT | F_DS => true | _ => false end.
(** size of the LDS slice the harness hands to the ALU *)
Definition LSZ : Z := 65536.
Definition exec_impl (a : arch) (st : state) (i : inst) : option state :=
  if is_mem (i_fmt i) then exec_mem a LSZ st i else
  if is_vector (i_fmt i) then exec_vector_f a st i else exec_scalar a st i.
Definition exec_spec_all (a : arch) (st : state) (i : inst) : option state :=
  if is_mem (i_fmt i) then exec_spec_mem a LSZ st i else
  if is_vector (i_fmt i) then exec_spec_vf a st i else exec_spec a st i.

(** 0 = the Go run is exactly what the transcription of the Go code computes *)
Definition check_impl (c : case) : Z :=
  match exec_impl (c_arch c) (to_state (c_pre c)) (c_inst c) with
  | None => if c_crash c then 0 else 1
  | Some st' => if negb (c_crash c) && (is_mem (i_fmt (c_inst c)) || negb (c_eff c)) && post_ok c st' then 0 else 1
  end.

(** 0 = the Go run is what the manual prescribes; 2 = it is not; 4 = the
    manual transcription does not define this instruction/operand combination *)
Definition check_spec (c : case) : Z :=
  match exec_spec_all (c_arch c) (to_state (c_pre c)) (c_inst c) with
  | None => 4
  | Some st' => if negb (c_crash c) && (is_mem (i_fmt (c_inst c)) || negb (c_eff c)) && post_ok c st' then 0 else 2
  end.

Fixpoint mism (n : Z) (l : list case) : list (Z * Z) :=
  match l with
  | [] => []
  | c :: t => let d := check_impl c + check_spec c in
              if d =? 0 then mism (n + 1) t else (n, d) :: mism (n + 1) t
  end.
Definition mismatches (l : list case) : list (Z * Z) := mism 0 l.
