(** C03 — proofs that the transcription of the Go handlers (ExecImpl) equals
    the transcription of the ISA manuals (ExecSpec) on the covered opcode
    classes, for every well-formed state and every admissible operand. *)
From Coq Require Import ZArith List Bool Lia ZifyBool.
From RecordUpdate Require Import RecordSet.
Import RecordSetNotations.
Import ListNotations.
From VIsa Require Import IsaState ExecImpl ExecSpec.
Open Scope Z_scope.

Ltac Zify.zify_post_hook ::= Z.div_mod_to_equations.

(** ** helpers *)
Lemma state_eq_refl : forall s, state_eq s s.
Proof. intros s; repeat split; reflexivity. Qed.
Lemma state_eq_sym : forall a b, state_eq a b -> state_eq b a.
Proof. intros a b (H1&H2&H3&H4&H5&H6&H7&H8&H9); repeat split; intros; symmetry; auto. Qed.
Lemma state_eq_trans : forall a b c, state_eq a b -> state_eq b c -> state_eq a c.
Proof.
  intros a b c (H1&H2&H3&H4&H5&H6&H7&H8&H9) (G1&G2&G3&G4&G5&G6&G7&G8&G9).
  repeat split; intros; etransitivity; eauto.
Qed.

Ltac case_if :=
  match goal with
  | |- context [if ?b then _ else _] =>
      let E := fresh "E" in destruct b eqn:E; try (exfalso; lia)
  end.

Lemma u32_small : forall x, 0 <= x < W32 -> u32 x = x.
Proof. intros; unfold u32, W32 in *; apply Z.mod_small; lia. Qed.
Lemma u32_range : forall x, 0 <= u32 x < W32.
Proof. intros; unfold u32, W32; apply Z.mod_pos_bound; lia. Qed.
Lemma u32_u32 : forall x, u32 (u32 x) = u32 x.
Proof. intros; apply u32_small, u32_range. Qed.
Lemma u32_s32 : forall x, u32 (s32 x) = u32 x.
Proof. intros; unfold u32, s32, sx, W32; simpl; case_if; lia. Qed.
Lemma s32_signed : forall x, s32 x = signed B32 (u32 x).
Proof. intros; unfold s32, sx, signed, u32, W32; simpl. reflexivity. Qed.
Lemma u32_u64 : forall x, u32 (u64 x) = u32 x.
Proof. intros; unfold u32, u64, W32, W64; lia. Qed.

(** ** operand reads.  [adm32 wide c]: operand codes of a 32-bit source that the
    theorems cover; with [wide] also the kind ReadOperand delivers as a 64-bit
    value (negative inline constants: uint64(int64(-k))). *)
Definition adm32 (wide : bool) (c : Z) : Prop :=
  0 <= c <= 101 \/ c = 106 \/ c = 107 \/ c = 124 \/ c = 126 \/ c = 127 \/ 128 <= c <= 192 \/
  240 <= c <= 248 \/ c = 253 \/ c = 255 \/ (wide = true /\ 193 <= c <= 208).
Definition adm64 (c : Z) : Prop :=
  0 <= c <= 100 \/ c = 106 \/ c = 126 \/ 128 <= c <= 208 \/ c = 255.
Definition admd32 (c : Z) : Prop := 0 <= c <= 101 \/ c = 106 \/ c = 107 \/ c = 124 \/ c = 126 \/ c = 127.
Definition admd64 (c : Z) : Prop := 0 <= c <= 100 \/ c = 106 \/ c = 126.

Lemma inline_f32_range : forall c, 0 <= inline_f32 c < W32.
Proof.
  intros c; unfold inline_f32, W32.
  repeat match goal with |- context [match ?x with _ => _ end] => destruct x; try lia end.
Qed.

Lemma rd32_ok : forall st wide c lit, wf st -> 0 <= lit < W32 -> adm32 wide c ->
  exists a, rd st c 0 lit = Some a /\ src32 st c lit = Some (u32 a) /\ 0 <= a < W64 /\
            (wide = false -> a < W32).
Proof.
  intros st wide c lit (Hs&Hv&He&Hc&Hscc&Hm&Hp) Hl H.
  pose proof (inline_f32_range c) as Hf.
  pose proof (Hs c) as Hsc.
  unfold adm32 in H. unfold rd, src32.
  repeat case_if; eexists; (split; [reflexivity|]);
    unfold u32, hi32, W32, W64 in *;
    (split; [f_equal; try lia|split; [try lia|intros; try lia]]).
  all: try (rewrite Z.mod_small; lia).
  all: try subst wide; intuition (try discriminate; try lia).
Qed.

Lemma rd64_ok : forall st c lit, wf st -> 0 <= lit < W32 -> adm64 c ->
  exists a, rd st c 2 lit = Some a /\ src64 st c lit = Some a /\ 0 <= a < W64.
Proof.
  intros st c lit (Hs&Hv&He&Hc&Hscc&Hm&Hp) Hl H.
  pose proof (Hs c) as Hsc. pose proof (Hs (c + 1)) as Hsc1.
  unfold adm64 in H. unfold rd, src64.
  repeat case_if; eexists; (split; [reflexivity|]); unfold W32, W64 in *;
    (split; [f_equal; try lia|try lia]).
Qed.

Ltac steq := repeat split; cbn; intros; try reflexivity; try lia.

Lemma wr32_ok : forall st d v, wf st -> admd32 d ->
  exists s1 s2, wr st d 0 v = Some s1 /\ dst32 st d (u32 v) = Some s2 /\ state_eq s1 s2.
Proof.
  intros st d v (Hs&Hv&He&Hc&Hscc&Hm&Hp) H. unfold admd32 in H. unfold wr, dst32.
  repeat case_if; do 2 eexists; (split; [reflexivity|split; [reflexivity|]]); steq.
  all: unfold hi32, u32, W32, W64 in *; try lia.
Qed.

Lemma wr64_ok : forall st d v, wf st -> admd64 d ->
  exists s1 s2, wr st d 2 v = Some s1 /\ dst64 st d (u64 v) = Some s2 /\ state_eq s1 s2.
Proof.
  intros st d v (Hs&Hv&He&Hc&Hscc&Hm&Hp) H. unfold admd64 in H. unfold wr, dst64.
  repeat case_if; do 2 eexists; (split; [reflexivity|split; [reflexivity|]]); steq.
  all: unfold hi32, u32, u64, W32, W64 in *; try lia.
  all: try (rewrite Z.mod_small; lia).
  all: replace (v mod 18446744073709551616 mod 4294967296) with (v mod 4294967296) by lia;
       replace ((v / 4294967296) mod 4294967296) with (v mod 18446744073709551616 / 4294967296) by lia;
       reflexivity.
Qed.

(** ** frame facts of the destination writers *)
Lemma dst32_frame : forall st d v s, dst32 st d v = Some s -> pc s = pc st /\ scc s = scc st.
Proof. intros st d v s; unfold dst32; repeat case_if; intros H; inversion H; subst; cbn; auto. Qed.
Lemma dst64_frame : forall st d v s, dst64 st d v = Some s -> pc s = pc st /\ scc s = scc st.
Proof. intros st d v s; unfold dst64; repeat case_if; intros H; inversion H; subst; cbn; auto. Qed.

Definition h2 (a : arch) := match a with GCN3 => g_sop2 | CDNA3 => c_sop2 end.
Definition sccbit (st : state) : Prop := scc st = 0 \/ scc st = 1.

(** value-level obligation of one SOP2 opcode: what the handler hands to
    WriteOperand / SetSCC equals the row of the manual on the architectural
    operand values *)
Definition val_ok32 (a : arch) (op : Z) (wide : bool) : Prop :=
  sop2_cnt op = 0 /\
  exists r f, sop2_row a op = Some r /\ w_src r = B32 /\ w_dst r = B32 /\ f_dst r = Some f /\
  forall st x y, sccbit st -> 0 <= x < W64 -> 0 <= y < W64 ->
    (wide = false -> x < W32 /\ y < W32) ->
    exists v c, h2 a op x y st = Some (mkS (Some v) c None (pc st)) /\
      u32 v = f (u32 x) (u32 y) (scc st) /\
      c = f_scc r (u32 x) (u32 y) (scc st) (f (u32 x) (u32 y) (scc st)).

Definition val_ok64 (a : arch) (op : Z) : Prop :=
  sop2_cnt op = 2 /\
  exists r f, sop2_row a op = Some r /\ w_src r = B64 /\ w_dst r = B64 /\ f_dst r = Some f /\
  forall st x y, sccbit st -> 0 <= x < W64 -> 0 <= y < W64 ->
    exists v c, h2 a op x y st = Some (mkS (Some v) c None (pc st)) /\
      u64 v = f x y (scc st) /\
      c = f_scc r x y (scc st) (f x y (scc st)).

Definition agree (a : arch) (st : state) (i : inst) : Prop :=
  exists s1 s2, exec_scalar a st i = Some s1 /\ exec_spec a st i = Some s2 /\ state_eq s1 s2.

Lemma state_eq_set_scc_pc : forall s1 s2 c p, state_eq s1 s2 -> pc s2 = p ->
  state_eq (s1 <| scc := c |> <| pc := p |>) (s2 <| scc := c |>).
Proof.
  intros s1 s2 c p (H1&H2&H3&H4&H5&H6&H7&H8&H9) Hp. repeat split; cbn; intros; auto.
Qed.

Lemma glue_sop2_32 : forall a st i wide, val_ok32 a (i_op i) wide -> wf st ->
  i_fmt i = F_SOP2 -> 0 <= i_lit i < W32 ->
  adm32 wide (i_src0 i) -> adm32 wide (i_src1 i) -> admd32 (i_dst i) -> agree a st i.
Proof.
  intros a st i wide (Hc & r & f & Hr & Hws & Hwd & Hf & Hv) Hwf Hfmt Hl H0 H1 Hd.
  destruct (rd32_ok st wide _ _ Hwf Hl H0) as (x & Hx1 & Hx2 & Hx3 & Hx4).
  destruct (rd32_ok st wide _ _ Hwf Hl H1) as (y & Hy1 & Hy2 & Hy3 & Hy4).
  assert (Hscc : sccbit st) by (destruct Hwf as (_&_&_&_&H&_); exact H).
  destruct (Hv st x y Hscc Hx3 Hy3) as (v & c & Hh & Hval & Hcc).
  { intros Hw; split; auto. }
  destruct (wr32_ok st (i_dst i) v Hwf Hd) as (s1 & s2 & Hw1 & Hw2 & Heq).
  unfold agree, exec_scalar, exec_spec. rewrite Hfmt, Hc, Hx1, Hy1. cbn [bind].
  fold (h2 a). rewrite Hh. cbn [bind]. unfold commit. cbn [r_dst r_exec r_scc r_pc].
  rewrite Hw1, Hr. cbn [obind]. rewrite Hws. cbn [src]. rewrite Hx2, Hy2. cbn [obind].
  unfold run_row. rewrite Hf, Hwd. cbn [dst]. rewrite <- Hval, Hw2.
  do 2 eexists. split; [reflexivity|split; [reflexivity|]].
  rewrite Hcc, Hval. apply state_eq_set_scc_pc; auto.
  apply dst32_frame in Hw2. tauto.
Qed.

Lemma glue_sop2_64 : forall a st i, val_ok64 a (i_op i) -> wf st ->
  i_fmt i = F_SOP2 -> 0 <= i_lit i < W32 ->
  adm64 (i_src0 i) -> adm64 (i_src1 i) -> admd64 (i_dst i) -> agree a st i.
Proof.
  intros a st i (Hc & r & f & Hr & Hws & Hwd & Hf & Hv) Hwf Hfmt Hl H0 H1 Hd.
  destruct (rd64_ok st _ _ Hwf Hl H0) as (x & Hx1 & Hx2 & Hx3).
  destruct (rd64_ok st _ _ Hwf Hl H1) as (y & Hy1 & Hy2 & Hy3).
  assert (Hscc : sccbit st) by (destruct Hwf as (_&_&_&_&H&_); exact H).
  destruct (Hv st x y Hscc Hx3 Hy3) as (v & c & Hh & Hval & Hcc).
  destruct (wr64_ok st (i_dst i) v Hwf Hd) as (s1 & s2 & Hw1 & Hw2 & Heq).
  unfold agree, exec_scalar, exec_spec. rewrite Hfmt, Hc, Hx1, Hy1. cbn [bind].
  fold (h2 a). rewrite Hh. cbn [bind]. unfold commit. cbn [r_dst r_exec r_scc r_pc].
  rewrite Hw1, Hr. cbn [obind]. rewrite Hws. cbn [src]. rewrite Hx2, Hy2. cbn [obind].
  unfold run_row. rewrite Hf, Hwd. cbn [dst]. rewrite <- Hval, Hw2.
  do 2 eexists. split; [reflexivity|split; [reflexivity|]].
  rewrite Hcc, Hval. apply state_eq_set_scc_pc; auto.
  apply dst64_frame in Hw2. tauto.
Qed.

(** ** tactics for the value-level obligations *)
Ltac case_ifh :=
  match goal with
  | H : context [if ?b then _ else _] |- _ =>
      let E := fresh "E" in destruct b eqn:E; try (exfalso; lia)
  end.
Ltac vok32 := split; [reflexivity|]; do 2 eexists; split; [reflexivity|]; split; [reflexivity|];
  split; [reflexivity|]; split; [reflexivity|];
  intros st x y Hscc Hx Hy Hn; unfold h2, g_sop2, c_sop2, dres; cbv beta iota.
Ltac vok64 := split; [reflexivity|]; do 2 eexists; split; [reflexivity|]; split; [reflexivity|];
  split; [reflexivity|]; split; [reflexivity|];
  intros st x y Hscc Hx Hy; unfold h2, g_sop2, c_sop2, dres; cbv beta iota.
Ltac unf := cbv [f_scc add_carry sub_borrow arith_ovf pick sel bin bin_nz shl lshr ashr cmp scc_same
                 scc_nonzero wrap signed bits ones amount lnot nz b2z];
  unfold sccbit, u32, u64, s32, s64, sx, not32, not64, W32, W64 in *; cbv beta iota.
Ltac fin := unf; split; repeat case_if; try lia.
Ltac one := vok32; do 2 eexists; (split; [reflexivity|]); fin.
Ltac narrow Hn := destruct (Hn eq_refl) as [Hnx Hny].

(** *** SOPP: branches, S_NOP, S_WAITCNT (same handler code in both ALUs) *)
Lemma land_ffff : forall k, Z.land k 65535 = k mod 65536.
Proof. intros; change 65535 with (Z.ones 16); rewrite Z.land_ones by lia; reflexivity. Qed.

Definition sopp_ops : list Z := [0; 2; 4; 5; 6; 7; 8; 9; 12].

Lemma sopp_agree : forall a st i, wf st -> i_fmt i = F_SOPP -> In (i_op i) sopp_ops -> agree a st i.
Proof.
  intros a st i (Hs&Hv&He&Hc&Hscc&Hm&Hp) Hfmt Hop.
  unfold agree, exec_scalar, exec_spec. rewrite Hfmt, land_ffff.
  unfold sopp_ops in Hop. cbn [In] in Hop.
  repeat (destruct Hop as [Hop|Hop]; [rewrite <- Hop|]); try contradiction;
    unfold x_sopp, branch, keep, commit, bind, simm_sext; cbv beta iota; cbn [r_dst r_exec r_scc r_pc];
    repeat case_if; do 2 eexists; (split; [reflexivity|split; [reflexivity|]]); steq.
  all: unfold s16, sx, u64, W16, W64 in *; repeat case_if; try lia.
Qed.

(** *** SOPC: compares *)
Definition sopc_ops (a : arch) : list Z :=
  match a with GCN3 => [0; 1; 2; 3; 4; 5; 6; 7; 8; 10] | CDNA3 => [0; 1; 2; 3; 4; 5; 6; 7; 8; 9; 10; 11] end.

Lemma sopc_agree : forall a st i, wf st -> i_fmt i = F_SOPC -> In (i_op i) (sopc_ops a) ->
  0 <= i_lit i < W32 -> adm32 true (i_src0 i) -> adm32 true (i_src1 i) -> agree a st i.
Proof.
  intros a st i Hwf Hfmt Hop Hl H0 H1.
  destruct (rd32_ok st true _ _ Hwf Hl H0) as (x & Hx1 & Hx2 & Hx3 & _).
  destruct (rd32_ok st true _ _ Hwf Hl H1) as (y & Hy1 & Hy2 & Hy3 & _).
  unfold agree, exec_scalar, exec_spec. rewrite Hfmt, Hx1, Hy1. cbn [bind].
  destruct a; unfold sopc_ops in Hop; cbn [In] in Hop;
  repeat (destruct Hop as [Hop|Hop]; [rewrite <- Hop|]); try contradiction;
    unfold c_sopc, g_sopc, cres, commit, bind; cbv beta iota; cbn [r_dst r_exec r_scc r_pc];
    unfold sopc_row, obind; cbv beta iota; rewrite Hx2, Hy2; unfold run_row, cmp; cbn [f_dst f_scc];
    do 2 eexists; (split; [reflexivity|split; [reflexivity|]]); steq.
  all: unfold b2z, s32, sx, signed, u32, W32, W64 in *; repeat case_if; try lia.
  all: repeat case_ifh; lia.
Qed.

(** ** refutations: a computable witness of disagreement *)
Definition differs (a : arch) (st : state) (i : inst) : bool :=
  match exec_scalar a st i, exec_spec a st i with
  | Some s1, Some s2 =>
      negb ((scc s1 =? scc s2) && (sgpr s1 (i_dst i) =? sgpr s2 (i_dst i)) &&
            (sgpr s1 (i_dst i + 1) =? sgpr s2 (i_dst i + 1)) && (vcc s1 =? vcc s2) &&
            (exec s1 =? exec s2) && (pc s1 =? pc s2))
  | None, Some _ => true          (* the Go handler panics where the manual defines a result *)
  | _, None => false
  end.

Lemma differs_not_agree : forall a st i, differs a st i = true -> ~ agree a st i.
Proof.
  intros a st i H (s1 & s2 & H1 & H2 & (E1&E2&E3&E4&E5&E6&E7&E8&E9)).
  unfold differs in H. rewrite H1, H2 in H.
  rewrite E1, E1, E3, E4, E5, E7 in H. rewrite !Z.eqb_refl in H. discriminate.
Qed.

(** witness states: listed SGPRs, everything else zero *)
Fixpoint lookupz (l : list (Z * Z)) (i : Z) : Z :=
  match l with [] => 0 | (k, v) :: t => if k =? i then v else lookupz t i end.
Definition wst (sv : list (Z * Z)) (c vc ex : Z) : state :=
  mkState (lookupz sv) (fun _ _ => 0) ex vc c 0 1024 (fun _ => 0) (fun _ => 0).
Lemma wf_wst : forall sv c vc ex,
  forallb (fun kv => (0 <=? snd kv) && (snd kv <? W32)) sv = true ->
  (c = 0 \/ c = 1) -> 0 <= vc < W64 -> 0 <= ex < W64 -> wf (wst sv c vc ex).
Proof.
  intros sv c vc ex Hl Hc Hv He. unfold wf, wst; cbn. repeat split; try lia; try (unfold W32, W64; lia); auto.
  - induction sv as [|[k v] t IH]; cbn in *; [unfold W32; lia|].
    apply andb_true_iff in Hl. destruct Hl as [Hh Ht]. case_if; [lia|]. apply IH; auto.
  - induction sv as [|[k v] t IH]; cbn in *; [unfold W32; lia|].
    apply andb_true_iff in Hl. destruct Hl as [Hh Ht]. case_if; [lia|]. apply IH; auto.
Qed.

(** ** architecture independence of the specification *)
Lemma sop2_row_arch : forall op, op <> 44 -> sop2_row GCN3 op = sop2_row CDNA3 op.
Proof.
  intros op H. unfold sop2_row.
  destruct op as [|p|p]; try reflexivity.
  do 7 (try (destruct p as [p|p|]; try reflexivity)); contradiction.
Qed.

Lemma spec_arch_indep : forall st i, (i_fmt i = F_SOP2 -> i_op i <> 44) ->
  exec_spec GCN3 st i = exec_spec CDNA3 st i.
Proof.
  intros st i H. unfold exec_spec. destruct (i_fmt i); try reflexivity.
  rewrite sop2_row_arch by auto. reflexivity.
Qed.

Lemma agree_both : forall st i, (i_fmt i = F_SOP2 -> i_op i <> 44) ->
  agree GCN3 st i -> agree CDNA3 st i ->
  exists s1 s2, exec_scalar GCN3 st i = Some s1 /\ exec_scalar CDNA3 st i = Some s2 /\ state_eq s1 s2.
Proof.
  intros st i H (g & sg & Hg1 & Hg2 & Hg3) (c & sc & Hc1 & Hc2 & Hc3).
  rewrite (spec_arch_indep st i H) in Hg2. rewrite Hg2 in Hc2. inversion Hc2; subst sc.
  exists g, c. split; [exact Hg1|split; [exact Hc1|]].
  eapply state_eq_trans; [exact Hg3|]. apply state_eq_sym; exact Hc3.
Qed.
