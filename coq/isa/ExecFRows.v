(** C03 — binary32 rows: both transcriptions call the same Flocq operation; what
    is proved is the plumbing (operand selection and truncation, operand order,
    the accumulator of v_mac, the literal of v_madak, one vs two roundings,
    compare classes, mask/destination/frame through the vector glue). *)
From Coq Require Import ZArith List Bool Lia ZifyBool.
Import ListNotations.
From Flocq Require Import IEEE754.Binary IEEE754.Bits.
From VIsa Require Import IsaState IsaFloat ExecImpl ExecSpec ExecImplV ExecSpecV ExecImplF ExecSpecF ExecProofs ExecRows ExecVProofs ExecVRowsA.
Open Scope Z_scope.

Lemma b32_u32 : forall a, b32 (u32 a) = b32 a.
Proof. intros. unfold b32, u32, W32. rewrite Z.mod_mod by lia. reflexivity. Qed.
Lemma bits32_range : forall x, 0 <= bits_of_b32 x < W32.
Proof. intros. unfold bits_of_b32. apply (bits_of_binary_float_range 23 8); reflexivity. Qed.

Lemma fadd_u : forall a b, f32_add (u32 a) (u32 b) = f32_add a b.
Proof. intros; unfold f32_add; rewrite !b32_u32; reflexivity. Qed.
Lemma fsub_u : forall a b, f32_sub (u32 a) (u32 b) = f32_sub a b.
Proof. intros; unfold f32_sub; rewrite !b32_u32; reflexivity. Qed.
Lemma fmul_u : forall a b, f32_mul (u32 a) (u32 b) = f32_mul a b.
Proof. intros; unfold f32_mul; rewrite !b32_u32; reflexivity. Qed.
Lemma fadd_ul : forall a b, f32_add (u32 a) b = f32_add a b.
Proof. intros; unfold f32_add; rewrite !b32_u32; reflexivity. Qed.
Lemma fadd_ur : forall a b, f32_add a (u32 b) = f32_add a b.
Proof. intros; unfold f32_add; rewrite !b32_u32; reflexivity. Qed.
Lemma fmul_ul : forall a b, f32_mul (u32 a) b = f32_mul a b.
Proof. intros; unfold f32_mul; rewrite !b32_u32; reflexivity. Qed.
Lemma fmul_ur : forall a b, f32_mul a (u32 b) = f32_mul a b.
Proof. intros; unfold f32_mul; rewrite !b32_u32; reflexivity. Qed.
Lemma fcmp_u : forall a b, f32_cmp (u32 a) (u32 b) = f32_cmp a b.
Proof. intros; unfold f32_cmp; rewrite !b32_u32; reflexivity. Qed.

Lemma fadd_wrap : forall a b, u32 (f32_add a b) = f32_add a b.
Proof. intros; apply u32_small; unfold f32_add; apply bits32_range. Qed.
Lemma fsub_wrap : forall a b, u32 (f32_sub a b) = f32_sub a b.
Proof. intros; apply u32_small; unfold f32_sub; apply bits32_range. Qed.
Lemma fmul_wrap : forall a b, u32 (f32_mul a b) = f32_mul a b.
Proof. intros; apply u32_small; unfold f32_mul; apply bits32_range. Qed.
Lemma fofz_wrap : forall z, u32 (f32_of_Z z) = f32_of_Z z.
Proof. intros; apply u32_small; unfold f32_of_Z; apply bits32_range. Qed.

Ltac fnorm := rewrite ?fadd_u, ?fsub_u, ?fmul_u, ?fadd_ul, ?fadd_ur, ?fmul_ul, ?fmul_ur;
  unfold u32 at 1; rewrite ?fadd_wrap, ?fsub_wrap, ?fmul_wrap; try reflexivity.
Definition row_ok_f (a : arch) (f : format) (op : Z) : Prop :=
  forall d r, vdesc_f a f op = Some d -> vrow_f a f op = Some r -> vrel d r.
Ltac open_rowf := intros d r Hd Hr;
  unfold vdesc_f, gf_vop2, cf_vop2, c_vop1_f, x_vop1_f, gf_vop3a, cf_vop3a, x_vop3a_f64 in Hd;
  unfold vrow_f, fvop2_row, fvop1_row, fvop3a_row in Hr;
  cbv beta iota in Hd, Hr; apply some_inj in Hd; apply some_inj in Hr; subst d r.
Ltac row_valf := open_rowf; cbv [fop2 fop3 fcompare]; vrel_start; (split; [eexists; split; [reflexivity|]|reflexivity]).

Lemma fbin_row : forall (f : Z -> Z -> Z), (forall a b, f (u32 a) (u32 b) = f a b) -> (forall a b, u32 (f a b) = f a b) ->
  forall a b, u32 (f a b) = f (u32 a) (u32 b) mod W32.
Proof. intros f H1 H2 a b. rewrite H1. rewrite <- (H2 a b) at 2. unfold u32. rewrite Z.mod_mod by (unfold W32; lia). reflexivity. Qed.

Lemma r_x_vop2_1 : forall a, row_ok_f a F_VOP2 1.
Proof. intros a0; destruct a0; row_valf; apply (fbin_row f32_add fadd_u fadd_wrap). Qed.
Lemma r_x_vop2_2 : forall a, row_ok_f a F_VOP2 2.
Proof. intros a0; destruct a0; row_valf; apply (fbin_row f32_sub fsub_u fsub_wrap). Qed.
Lemma r_x_vop2_3 : forall a, row_ok_f a F_VOP2 3.
Proof.
  intros a0; destruct a0; row_valf;
    apply (fbin_row (fun x y => f32_sub y x) (fun a b => fsub_u b a) (fun a b => fsub_wrap b a)).
Qed.
Lemma r_x_vop2_5 : forall a, row_ok_f a F_VOP2 5.
Proof. intros a0; destruct a0; row_valf; apply (fbin_row f32_mul fmul_u fmul_wrap). Qed.
Lemma r_x_vop3a_258 : forall a, row_ok_f a F_VOP3A 258.
Proof. intros a0; destruct a0; row_valf; apply (fbin_row f32_sub fsub_u fsub_wrap). Qed.
Lemma r_c_vop3a_261 : row_ok_f CDNA3 F_VOP3A 261.
Proof. row_valf; apply (fbin_row f32_mul fmul_u fmul_wrap). Qed.

Lemma mad_row : forall a b c, u32 (f32_add (f32_mul a b) c) = f32_add (f32_mul (u32 a) (u32 b)) (u32 c) mod W32.
Proof. intros. rewrite fmul_u, fadd_ur, fadd_wrap. symmetry. apply Z.mod_small. rewrite <- fadd_wrap. apply u32_range. Qed.
Lemma mac_row : forall a b c, u32 (f32_add c (f32_mul a b)) = f32_add (u32 c) (f32_mul (u32 a) (u32 b)) mod W32.
Proof. intros. rewrite fmul_u, fadd_ul, fadd_wrap. symmetry. apply Z.mod_small. rewrite <- fadd_wrap. apply u32_range. Qed.
Lemma r_g_vop2_22 : row_ok_f GCN3 F_VOP2 22. Proof. row_valf. apply mac_row. Qed.
Lemma r_g_vop2_24 : row_ok_f GCN3 F_VOP2 24. Proof. row_valf. apply mad_row. Qed.
Lemma r_x_vop3a_449 : forall a, row_ok_f a F_VOP3A 449.
Proof. intros a0; destruct a0; row_valf; apply mad_row. Qed.

Lemma cvt_f_row : forall z, u32 (f32_of_Z z) = f32_of_Z z mod W32.
Proof. intros. rewrite fofz_wrap. symmetry. apply Z.mod_small. rewrite <- fofz_wrap. apply u32_range. Qed.
Lemma r_x_vop1_5 : forall a, row_ok_f a F_VOP1 5.
Proof. intros a0; destruct a0; row_valf; rewrite sg_s32; apply cvt_f_row. Qed.
Lemma r_x_vop1_6 : forall a, row_ok_f a F_VOP1 6.
Proof. intros a0; destruct a0; row_valf; apply cvt_f_row. Qed.

(** compares *)
Ltac open_rowc := intros d r Hd Hr;
  cbn [vdesc_f Z.leb Z.compare Pos.compare Pos.compare_cont andb orb CompOpp Z.eqb Pos.eqb] in Hd;
  unfold x_fcmp, gf_vop3a, cf_vop3a in Hd; unfold vrow_f, fvop3a_row, fcmp_row in Hr;
  cbv beta iota zeta in Hd, Hr; apply some_inj in Hd; apply some_inj in Hr; subst d r.
Ltac fcmp_fin := cbv [fcompare]; vrel_start; split; [exact I|];
  unfold go_lg, go_ne, f32_lt, f32_gt, f32_eq, f32_le, f32_ge, f32_unord; rewrite !fcmp_u; reflexivity.

Lemma r_g_vopc_f : forall op, In op [65; 66; 67; 68; 69; 70; 73; 74; 75; 76; 77; 78] -> row_ok_f GCN3 F_VOPC op.
Proof.
  intros op Hin. cbn [In] in Hin.
  repeat (destruct Hin as [<-|Hin]; [open_rowc; fcmp_fin|]). contradiction.
Qed.
Lemma r_c_vopc_f : forall op, In op [65; 66; 67; 68; 69; 70; 75; 78] -> row_ok_f CDNA3 F_VOPC op.
Proof.
  intros op Hin. cbn [In] in Hin.
  repeat (destruct Hin as [<-|Hin]; [open_rowc; fcmp_fin|]). contradiction.
Qed.
Lemma r_g_vop3a_f : forall op, In op [65; 68; 77; 78] -> row_ok_f GCN3 F_VOP3A op.
Proof.
  intros op Hin. cbn [In] in Hin.
  repeat (destruct Hin as [<-|Hin]; [open_rowc; fcmp_fin|]). contradiction.
Qed.
Lemma r_c_vop3a_f : forall op, In op [65; 67; 68; 70; 78] -> row_ok_f CDNA3 F_VOP3A op.
Proof.
  intros op Hin. cbn [In] in Hin.
  repeat (destruct Hin as [<-|Hin]; [open_rowc; fcmp_fin|]). contradiction.
Qed.
