(** C04 — decode (encode d ++ tail) = Ok (spec_inst d) (dsize d), format by format. *)
From Coq Require Import NArith ZArith List String Bool Lia.
From Coq Require Import ZifyN ZifyBool.
From RecordUpdate Require Import RecordSet.
From VIsa Require Import InstTypes Decode DecodeProofs Encode EncodeProofs.
From VGen Require Import FormatTable DecodeTable RegTable.
Import ListNotations.
Open Scope N_scope.

(** rewrite every extractBits of a packed word whose range is exactly one field *)
Ltac xfield Hok :=
  repeat match goal with
  | |- context[extract_bits (pack ?fs) ?lo ?hi] =>
      rewrite (extract_field fs lo hi _ _ _ Hok eq_refl eq_refl eq_refl)
  end.

Ltac pow2 :=
  repeat match goal with
  | |- context[2 ^ ?k] => let v := eval vm_compute in (2 ^ k) in change (2 ^ k) with v
  end.
(** lia without the boolean hypotheses (ZifyBool spends seconds on hypotheses
    like [row_ok X r = true]) *)
Ltac qlia :=
  solve [ repeat match goal with
                 | H : _ = true |- _ => clear H
                 | H : _ = false |- _ => clear H
                 end; lia ].
Ltac flia := first [ qlia | lia ].
Ltac fok := repeat constructor; cbn [fst snd]; pow2; try flia.

Lemma to_outcome_ok r i n : r = ROk i -> i_size i = n -> to_outcome r = Ok i n.
Proof. intros -> <-. reflexivity. Qed.

(** reduce decode_core on a word of row [r] to the format's decode function *)
Ltac core_row r Hin Hf Hl Hsel Hopa Hopb :=
  match goal with
  | |- decode_core format_list ?c ?len ?w0 ?w1 = _ =>
      let DC := fresh "DC" in
      pose proof (decode_core_row c len w0 w1 r Hin) as DC;
      rewrite Hf in DC; cbn [cand_fmt] in DC;
      rewrite DC; [ clear DC | exact Hl | exact Hsel | exact Hopa | exact Hopb | | lia ]
  end.

Theorem decode_encode_sopp c r simm tail :
  wf (DSopp r simm) = true ->
  decode c (encode (DSopp r simm) ++ tail) = Ok (spec_inst c (DSopp r simm)) (dsize (DSopp r simm)).
Proof.
  cbn [wf]. rewrite andb_true_iff. intros [Hr Hs]. apply N.ltb_lt in Hs.
  destruct (row_ok_spec _ _ Hr) as (Hl & Hf & Hin).
  pose proof (opcode_range r Hin) as Hop. rewrite Hf in Hop.
  change (f_ophi (fmt_format SOPP) - f_oplo (fmt_format SOPP) + 1) with 7 in Hop.
  set (fs := [(simm, 16); (r_opcode r, 7); (383, 9)]).
  assert (Hok : fields_ok fs) by fok.
  unfold encode, dsize. cbn [words snd]. fold fs. rewrite app_nil_r.
  rewrite decode_bytes by (pose proof (pack_bound fs Hok); exact H).
  assert (Hsel : find (candidate (pack fs)) format_list = Some (fmt_format SOPP)).
  { rewrite (select_format r (pack fs) 23 383); [rewrite Hf; reflexivity | exact Hin | rewrite Hf; reflexivity |].
    rewrite (drop_div fs Hok 23 _ eq_refl). reflexivity. }
  assert (Hopc : retrieve_opcode (fmt_format SOPP) (pack fs) = r_opcode r).
  { unfold retrieve_opcode. change (f_oplo (fmt_format SOPP)) with 16. change (f_ophi (fmt_format SOPP)) with 22.
    xfield Hok. reflexivity. }
  apply to_outcome_ok.
  - core_row r Hin Hf Hl Hsel Hopc Hopc.
    2: { change (f_size (fmt_format SOPP)) with 4. flia. }
    cbn [dispatch]. unfold decode_sopp. xfield Hok.
    unfold spec_inst, base_inst. cbn [d_row]. rewrite Hf.
    change (i_row (inst0 (fmt_format SOPP) r)) with r.
    destruct (r_opcode r =? 12).
    + rewrite !extract_bits_spec by flia. pow2. rewrite N.div_1_r. reflexivity.
    + reflexivity.
  - unfold spec_inst. destruct (r_opcode r =? 12); reflexivity.
Qed.

(* ------------------------------------------------------------------ operands through getop / literal *)

(** what getOperand returns for the code of [p]: the literal value is filled in later *)
Definition pre_operand (p : opnd) : operand :=
  match p with PLit _ => lit_operand 255 | _ => spec_operand p 0 end.

Lemma getop_code p : opnd_wf p = true -> getop (code_of p) = ROk (pre_operand p).
Proof. intros H. unfold getop. rewrite (get_operand_spec p H). reflexivity. Qed.

Lemma literal_pre p c len w1 sz lsz :
  (opnd_is_lit p = true -> 8 <= len /\ w1 = lit_value p) ->
  literal len w1 (with_count (pre_operand p) c) sz lsz
  = ROk (spec_operand p c, if opnd_is_lit p then lsz else sz).
Proof.
  intros H. destruct p; try reflexivity.
  destruct (H eq_refl) as [H8 ->]. unfold literal. cbn [pre_operand is_lit with_count].
  cbn. destruct (N.ltb_spec len 8); [flia|]. reflexivity.
Qed.

Lemma with_count_pre0 p : with_count (pre_operand p) 0 = pre_operand p.
Proof. destruct p; reflexivity. Qed.

Lemma literal_pre0 p len w1 sz lsz :
  (opnd_is_lit p = true -> 8 <= len /\ w1 = lit_value p) ->
  literal len w1 (pre_operand p) sz lsz = ROk (spec_operand p 0, if opnd_is_lit p then lsz else sz).
Proof. intros H. rewrite <- (with_count_pre0 p). apply literal_pre; auto. Qed.

Lemma cnt64_pre w p : cnt64 w (pre_operand p) = with_count (pre_operand p) (w64 w).
Proof. unfold cnt64, w64. destruct (w =? 64); [reflexivity|]. symmetry. apply with_count_pre0. Qed.

Lemma cnt64_spec w p : cnt64 w (spec_operand p 0) = spec_operand p (w64 w).
Proof. unfold cnt64, w64. destruct (w =? 64); [apply with_count_spec|reflexivity]. Qed.

Lemma pre_nolit p : opnd_is_lit p = false -> pre_operand p = spec_operand p 0.
Proof. destruct p; try reflexivity. discriminate. Qed.

Lemma code_bound_scalar p : opnd_wf p = true -> opnd_scalar p = true -> code_of p < 256.
Proof.
  destruct p; cbn [opnd_wf opnd_scalar code_of]; intros H S; try discriminate; try flia.
  - unfold special_reg in H. split_ifs_in H; try discriminate; flia.
  - destruct (0 <=? v)%Z eqn:?; flia.
  - unfold float_bits in H. split_ifs_in H; try discriminate; flia.
Qed.

Lemma code_bound_sdst p : opnd_wf p = true -> opnd_sdst p = true -> code_of p < 128.
Proof. destruct p; cbn [opnd_wf opnd_sdst code_of]; intros H S; try discriminate; flia. Qed.

Lemma sdst_nolit p : opnd_sdst p = true -> opnd_is_lit p = false.
Proof. destruct p; try reflexivity; discriminate. Qed.

Lemma lit_bound p : opnd_wf p = true -> lit_value p < 4294967296.
Proof. destruct p; cbn [opnd_wf lit_value]; intros; flia. Qed.

(* ------------------------------------------------------------------ from decode_core to bytes *)

Lemma decode_encode_wrap c d tail :
  fst (words d) < 4294967296 ->
  (forall w, snd (words d) = Some w -> w < 4294967296) ->
  (forall len w1, dsize d <= len -> (forall w, snd (words d) = Some w -> w1 = w) ->
     decode_core format_list c len (fst (words d)) w1 = ROk (spec_inst c d)) ->
  i_size (spec_inst c d) = dsize d ->
  decode c (encode d ++ tail) = Ok (spec_inst c d) (dsize d).
Proof.
  intros H0 H1 Hc Hs. unfold encode. unfold dsize in *. destruct (words d) as [w0 [w1|]]; cbn [fst snd] in *.
  - rewrite <- app_assoc. rewrite decode_bytes by exact H0.
    apply to_outcome_ok; [|exact Hs]. apply Hc.
    + rewrite app_length. change (List.length (bytes_of_word w1)) with 4%nat. flia.
    + intros w E. inversion E; subst. apply le32_bytes. apply H1; reflexivity.
  - rewrite app_nil_r. rewrite decode_bytes by exact H0.
    apply to_outcome_ok; [|exact Hs]. apply Hc; [flia|]. intros w E; discriminate.
Qed.

(** the preamble of Decode for the encoding of a description of row [r] *)
Lemma core_of_row c len w0 w1 r X a h :
  row_ok X r = true ->
  top_of X (r_opcode r) = Some (a, h) -> w0 / 2 ^ a = h ->
  retrieve_opcode (fmt_format (cand_fmt X)) w0 = r_opcode r ->
  retrieve_opcode (fmt_format X) w0 = r_opcode r ->
  f_size (fmt_format X) <= len -> 4 <= len ->
  decode_core format_list c len w0 w1 = dispatch X c len w0 w1 (inst0 (fmt_format X) r).
Proof.
  intros Hr Ht Hw Ho1 Ho2 Hs H4. destruct (row_ok_spec _ _ Hr) as (Hl & Hf & Hin). subst X.
  apply decode_core_row; auto. apply (select_format r w0 a h); auto.
Qed.

Lemma row_opcode_bound X r k :
  row_ok X r = true -> f_ophi (fmt_format X) - f_oplo (fmt_format X) + 1 = k -> r_opcode r < 2 ^ k.
Proof.
  intros Hr <-. destruct (row_ok_spec _ _ Hr) as (Hl & Hf & Hin). subst X. apply opcode_range; auto.
Qed.

Ltac bools H := repeat (rewrite ?andb_true_iff, ?negb_true_iff in H);
  repeat match type of H with _ /\ _ => let H' := fresh H in destruct H as [H H'] end.

Theorem decode_encode_sopk c r dst simm tail :
  wf (DSopk r dst simm) = true ->
  decode c (encode (DSopk r dst simm) ++ tail) = Ok (spec_inst c (DSopk r dst simm)) (dsize (DSopk r dst simm)).
Proof.
  cbn [wf]. unfold sdst7. rewrite !andb_true_iff. intros [[Hr [Hd1 Hd2]] Hs]. apply N.ltb_lt in Hs.
  pose proof (row_opcode_bound SOPK r 5 Hr eq_refl) as Hop.
  pose proof (code_bound_sdst dst Hd1 Hd2) as Hdb.
  set (fs := [(simm, 16); (code_of dst, 7); (r_opcode r, 5); (11, 4)]).
  assert (Hok : fields_ok fs) by fok.
  apply decode_encode_wrap; cbn [words fst snd]; fold fs.
  - exact (pack_bound fs Hok).
  - discriminate.
  - intros len w1 Hlen _. change (dsize (DSopk r dst simm)) with 4 in Hlen.
    rewrite (core_of_row c len (pack fs) w1 r SOPK 23 (352 + r_opcode r) Hr eq_refl).
    + cbn [dispatch]. unfold decode_sopk. xfield Hok.
      rewrite (getop_code dst Hd1). cbn [bind]. rewrite (pre_nolit dst (sdst_nolit dst Hd2)).
      unfold spec_inst, base_inst. cbn [d_row].
      destruct (row_ok_spec _ _ Hr) as (_ & Hf & _). rewrite Hf. reflexivity.
    + rewrite (drop_div fs Hok 23 _ eq_refl). cbn [pack]. pow2. flia.
    + unfold retrieve_opcode. cbn [cand_fmt]. change (f_oplo (fmt_format SOPK)) with 23.
      change (f_ophi (fmt_format SOPK)) with 27. xfield Hok. reflexivity.
    + unfold retrieve_opcode. change (f_oplo (fmt_format SOPK)) with 23.
      change (f_ophi (fmt_format SOPK)) with 27. xfield Hok. reflexivity.
    + change (f_size (fmt_format SOPK)) with 4. flia.
    + flia.
  - reflexivity.
Qed.

Ltac opc X lo hi Hok :=
  unfold retrieve_opcode; cbn [cand_fmt]; change (f_oplo (fmt_format X)) with lo;
  change (f_ophi (fmt_format X)) with hi; xfield Hok; reflexivity.

Ltac rowfmt Hr := let Hf := fresh "Hf" in
  destruct (row_ok_spec _ _ Hr) as (_ & Hf & _); rewrite Hf.

Theorem decode_encode_sop1 c r dst s0 tail :
  wf (DSop1 r dst s0) = true ->
  decode c (encode (DSop1 r dst s0) ++ tail) = Ok (spec_inst c (DSop1 r dst s0)) (dsize (DSop1 r dst s0)).
Proof.
  cbn [wf]. unfold sdst7, src8. rewrite !andb_true_iff. intros [[Hr [Hd1 Hd2]] [Hs1 Hs2]].
  pose proof (row_opcode_bound SOP1 r 8 Hr eq_refl) as Hop.
  pose proof (code_bound_sdst dst Hd1 Hd2) as Hdb.
  pose proof (code_bound_scalar s0 Hs1 Hs2) as Hsb.
  set (fs := [(code_of s0, 8); (r_opcode r, 8); (code_of dst, 7); (381, 9)]).
  assert (Hok : fields_ok fs) by fok.
  apply decode_encode_wrap; unfold dsize; cbn [words fst snd]; fold fs.
  - exact (pack_bound fs Hok).
  - destruct (opnd_is_lit s0); intros w E; inversion E. apply lit_bound; auto.
  - intros len w1 Hlen Hw1.
    rewrite (core_of_row c len (pack fs) w1 r SOP1 23 381 Hr eq_refl).
    + cbn [dispatch]. unfold decode_sop1. xfield Hok.
      rewrite (getop_code s0 Hs1). cbn [bind]. rewrite cnt64_pre.
      rewrite (getop_code dst Hd1). cbn [bind]. rewrite (pre_nolit dst (sdst_nolit dst Hd2)), cnt64_spec.
      rewrite literal_pre.
      2: { intros EL. rewrite EL in *. split; [exact Hlen | apply Hw1; reflexivity]. }
      cbn [bind]. cbv beta iota.
      unfold spec_inst, base_inst, dsize. cbn [d_row words snd]. rowfmt Hr.
      destruct (opnd_is_lit s0); reflexivity.
    + rewrite (drop_div fs Hok 23 _ eq_refl). reflexivity.
    + opc SOP1 8 15 Hok.
    + opc SOP1 8 15 Hok.
    + change (f_size (fmt_format SOP1)) with 4. destruct (opnd_is_lit s0); flia.
    + destruct (opnd_is_lit s0); flia.
  - unfold spec_inst, base_inst, dsize. cbn [d_row words snd]. reflexivity.
Qed.

Theorem decode_encode_sopc c r s0 s1 tail :
  wf (DSopc r s0 s1) = true ->
  decode c (encode (DSopc r s0 s1) ++ tail) = Ok (spec_inst c (DSopc r s0 s1)) (dsize (DSopc r s0 s1)).
Proof.
  cbn [wf]. unfold src8. rewrite !andb_true_iff. intros [[[Hr [Ha1 Ha2]] [Hb1 Hb2]] Hnl].
  apply negb_true_iff in Hnl.
  pose proof (row_opcode_bound SOPC r 7 Hr eq_refl) as Hop.
  pose proof (code_bound_scalar s0 Ha1 Ha2) as Hab.
  pose proof (code_bound_scalar s1 Hb1 Hb2) as Hbb.
  set (fs := [(code_of s0, 8); (code_of s1, 8); (r_opcode r, 7); (382, 9)]).
  assert (Hok : fields_ok fs) by fok.
  apply decode_encode_wrap; unfold dsize; cbn [words fst snd]; fold fs.
  - exact (pack_bound fs Hok).
  - destruct (opnd_is_lit s0), (opnd_is_lit s1); intros w E; inversion E; apply lit_bound; auto.
  - intros len w1 Hlen Hw1.
    rewrite (core_of_row c len (pack fs) w1 r SOPC 23 382 Hr eq_refl).
    + cbn [dispatch]. unfold decode_sopc. xfield Hok.
      rewrite (getop_code s0 Ha1). cbn [bind]. rewrite literal_pre0.
      2: { intros EL. rewrite EL in *. split; [exact Hlen | apply Hw1; reflexivity]. }
      cbn [bind]. cbv beta iota.
      rewrite (getop_code s1 Hb1). cbn [bind]. rewrite literal_pre0.
      2: { intros EL. rewrite EL in *. rewrite andb_true_r in Hnl. rewrite Hnl in *.
           split; [exact Hlen | apply Hw1; reflexivity]. }
      cbn [bind]. cbv beta iota.
      unfold spec_inst, base_inst, dsize. cbn [d_row words snd]. rowfmt Hr.
      destruct (opnd_is_lit s0), (opnd_is_lit s1); try discriminate; reflexivity.
    + rewrite (drop_div fs Hok 23 _ eq_refl). reflexivity.
    + opc SOPC 16 22 Hok.
    + opc SOPC 16 22 Hok.
    + change (f_size (fmt_format SOPC)) with 4. destruct (opnd_is_lit s0), (opnd_is_lit s1); flia.
    + destruct (opnd_is_lit s0), (opnd_is_lit s1); flia.
  - unfold spec_inst, base_inst, dsize. cbn [d_row words snd]. reflexivity.
Qed.

Theorem decode_encode_sop2 c r dst s0 s1 tail :
  wf (DSop2 r dst s0 s1) = true ->
  decode c (encode (DSop2 r dst s0 s1) ++ tail)
  = Ok (spec_inst c (DSop2 r dst s0 s1)) (dsize (DSop2 r dst s0 s1)).
Proof.
  cbn [wf]. unfold src8, sdst7. rewrite !andb_true_iff. intros [[[[Hr [Hd1 Hd2]] [Ha1 Ha2]] [Hb1 Hb2]] Hnl].
  apply negb_true_iff in Hnl.
  pose proof (row_opcode_bound SOP2 r 7 Hr eq_refl) as Hop.
  pose proof (code_bound_sdst dst Hd1 Hd2) as Hdb.
  pose proof (code_bound_scalar s0 Ha1 Ha2) as Hab.
  pose proof (code_bound_scalar s1 Hb1 Hb2) as Hbb.
  set (fs := [(code_of s0, 8); (code_of s1, 8); (code_of dst, 7); (r_opcode r, 7); (2, 2)]).
  assert (Hok : fields_ok fs) by fok.
  apply decode_encode_wrap; unfold dsize; cbn [words fst snd]; fold fs.
  - exact (pack_bound fs Hok).
  - destruct (opnd_is_lit s0), (opnd_is_lit s1); intros w E; inversion E; apply lit_bound; auto.
  - intros len w1 Hlen Hw1.
    rewrite (core_of_row c len (pack fs) w1 r SOP2 23 (256 + r_opcode r) Hr eq_refl).
    + cbn [dispatch]. unfold decode_sop2. xfield Hok.
      rewrite (getop_code s0 Ha1). cbn [bind]. rewrite literal_pre0.
      2: { intros EL. rewrite EL in *. split; [exact Hlen | apply Hw1; reflexivity]. }
      cbn [bind]. cbv beta iota.
      rewrite (getop_code s1 Hb1). cbn [bind]. rewrite literal_pre0.
      2: { intros EL. rewrite EL in *. rewrite andb_true_r in Hnl. rewrite Hnl in *.
           split; [exact Hlen | apply Hw1; reflexivity]. }
      cbn [bind]. cbv beta iota.
      rewrite (getop_code dst Hd1). cbn [bind]. rewrite (pre_nolit dst (sdst_nolit dst Hd2)).
      change (i_row (inst0 (fmt_format SOP2) r)) with r.
      unfold spec_inst, base_inst, dsize. cbn [d_row words snd]. rowfmt Hr.
      destruct (contains "64" (r_name r)); rewrite ?with_count_spec;
        destruct (opnd_is_lit s0), (opnd_is_lit s1); try discriminate; reflexivity.
    + rewrite (drop_div fs Hok 23 _ eq_refl). cbn [pack]. pow2. flia.
    + opc SOP2 23 29 Hok.
    + opc SOP2 23 29 Hok.
    + change (f_size (fmt_format SOP2)) with 4. destruct (opnd_is_lit s0), (opnd_is_lit s1); flia.
    + destruct (opnd_is_lit s0), (opnd_is_lit s1); flia.
  - unfold spec_inst, base_inst, dsize. cbn [d_row words snd]. destruct (contains "64" (r_name r)); reflexivity.
Qed.
