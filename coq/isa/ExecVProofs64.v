(** C03 — the same glue as ExecVProofs for rows with 64-bit operands or a
    64-bit destination (64-bit compares, v_mad_u64_u32, v_lshlrev_b64,
    v_ashrrev_i64): no carry-in, per-operand read modes. *)
From Coq Require Import ZArith List Bool Lia ZifyBool.
From RecordUpdate Require Import RecordSet.
Import RecordSetNotations.
Import ListNotations.
From VIsa Require Import IsaState ExecImpl ExecSpec ExecImplV ExecSpecV ExecProofs ExecRows ExecVProofs.
Open Scope Z_scope.

(** how an operand is read: 32 bits on both sides; 64 bits on both sides; the
    handler reads a register pair but the manual (and the handler's masking)
    only use the low dword *)
Inductive omode := M32 | M64 | M64lo.
Definition mode_c (m : omode) : Z := match m with M32 => 0 | _ => 2 end.
Definition mode_w (m : omode) : width := match m with M64 => B64 | _ => B32 end.
Definition marg (m : omode) (a : Z) : Z := match m with M64 => a | _ => u32 a end.
Definition admv64 (c : Z) : Prop := (is_vgpr c = true /\ c <= 510) \/ adm64 c.
Definition adm_mode (m : omode) (c : Z) : Prop := match m with M32 => admv c | _ => admv64 c end.

Lemma rd64_lo : forall st c lit, wf st -> 0 <= lit < W32 -> adm64 c ->
  exists x, rd st c 2 lit = Some x /\ src32 st c lit = Some (u32 x) /\ 0 <= x < W64.
Proof.
  intros st c lit (Hs&Hv&He&Hc&Hscc&Hm&Hp) Hl H.
  pose proof (Hs c) as Hsc. pose proof (Hs (c + 1)) as Hsc1.
  unfold adm64 in H. unfold rd, src32.
  repeat case_if; eexists; (split; [reflexivity|]); unfold u32, W32, W64 in *;
    (split; [f_equal; try lia|try lia]).
Qed.

Lemma rd_mode : forall m st c lit l, wf st -> 0 <= lit < W32 -> adm_mode m c ->
  exists x, rdv st c (mode_c m) lit l = Some x /\ vsrc (mode_w m) st c lit l = Some (marg m x) /\ 0 <= x < W64.
Proof.
  intros m st c lit l Hwf Hl Hc. destruct m; cbn [mode_c mode_w marg adm_mode] in *.
  - apply rdv32_ok; auto.
  - destruct Hc as [[Hv Hle]|Hc].
    + unfold rdv, vsrc. unfold is_vgpr in *. rewrite Hv. cbn [Z.leb].
      replace (c <=? 510) with true by lia.
      destruct Hwf as (_&Hvr&_). pose proof (Hvr l (c - 256)). pose proof (Hvr l (c - 255)).
      eexists. split; [reflexivity|]. split; [reflexivity|unfold W32, W64 in *; lia].
    + destruct (rdv64_ok st c lit l Hwf Hl Hc) as (x & R1 & R2 & R3). exists x. auto.
  - destruct Hc as [[Hv Hle]|Hc].
    + unfold rdv, vsrc. unfold is_vgpr in *. rewrite Hv. cbn [Z.leb].
      destruct Hwf as (_&Hvr&_). pose proof (Hvr l (c - 256)). pose proof (Hvr l (c - 255)).
      eexists. split; [reflexivity|]. split; [f_equal; unfold u32, W32 in *; lia|unfold W32, W64 in *; lia].
    + destruct (rd64_lo st c lit Hwf Hl Hc) as (x & R1 & R2 & R3).
      assert (E : (256 <=? c) && (c <=? 511) = false) by (unfold adm64 in Hc; lia).
      exists x. unfold rdv, vsrc, is_vgpr. rewrite E. cbn [src]. auto.
Qed.

Definition dst_ok64 (d : vdesc) (r : vrow) : Prop :=
  match r_dw r with
  | Some B32 => 0 <= vd_dc d <= 1
  | Some B64 => vd_dc d = 2
  | None => vd_dc d = -1
  end.

Record vrel64 (m0 m1 m2 : omode) (d : vdesc) (r : vrow) : Prop := mkRel64 {
  r6_n : vd_n d = r_n r /\ 1 <= vd_n d <= 3;
  r6_c : vd_c0 d = mode_c m0 /\ vd_c1 d = mode_c m1 /\ vd_c2 d = mode_c m2 /\
         r_w0 r = mode_w m0 /\ r_w1 r = mode_w m1 /\ r_w2 r = mode_w m2;
  r6_dom : forall a b c, r_dom r a b c = true;
  r6_cin : vd_cin d = CNone /\ r_cin r = SNone;
  r6_mask : mask_ok d r; r6_dst : dst_ok64 d r;
  r6_val : forall a b c cin, 0 <= a < W64 -> 0 <= b < W64 -> 0 <= c < W64 ->
    (match r_dw r with
     | Some B32 => exists v, fst (vd_f d a b c cin) = Some v /\ u32 v = r_val r (marg m0 a) (marg m1 b) (marg m2 c) cin
     | Some B64 => exists v, fst (vd_f d a b c cin) = Some v /\ 0 <= v < W64 /\ v = r_val r (marg m0 a) (marg m1 b) (marg m2 c) cin
     | None => True end) /\
    snd (vd_f d a b c cin) = r_flag r (marg m0 a) (marg m1 b) (marg m2 c) cin
}.

Definition vadm64 (m0 m1 m2 : omode) (d : vdesc) (r : vrow) (i : inst) : Prop :=
  adm_mode m0 (i_src0 i) /\ (2 <= vd_n d -> adm_mode m1 (i_src1 i)) /\ (3 <= vd_n d -> adm_mode m2 (i_src2 i)) /\
  (match r_dw r with
   | Some B32 => is_vgpr (i_dst i) = true
   | Some B64 => is_vgpr (i_dst i) = true /\ i_dst i <= 510
   | None => True end) /\
  (match r_mask r with DDst => admd64 (i_dst i) | DSdst => admd64 (i_simm i) | _ => True end).

Section Glue64.
  Context (a : arch) (st : state) (i : inst) (d : vdesc) (r : vrow) (q0 q1 q2 : omode).
  Context (Hd : vdesc_of a (i_fmt i) (i_op i) = Some d).
  Context (Hr : vrow_of a (i_fmt i) (i_op i) = Some r).
  Context (Hrel : vrel64 q0 q1 q2 d r).
  Context (Hnr : ~ (i_fmt i = F_VOP1 /\ i_op i = 2)).
  Context (Hwf : wf st).
  Context (Hlit : 0 <= i_lit i < W32).
  Context (Hadm : vadm64 q0 q1 q2 d r i).

  Let A (l : Z) := oget (rdv st (i_src0 i) (vd_c0 d) (i_lit i) l).
  Let B (l : Z) := if 2 <=? vd_n d then oget (rdv st (i_src1 i) (vd_c1 d) (i_lit i) l) else 0.
  Let C (l : Z) := if 3 <=? vd_n d then oget (rdv st (i_src2 i) (vd_c2 d) (i_lit i) l) else 0.
  Let valof (l : Z) := if vd_dc d <? 0 then None else fst (vd_f d (A l) (B l) (C l) false).
  Let flagof (l : Z) := snd (vd_f d (A l) (B l) (C l) false).

  Lemma marg0 : forall m, marg m 0 = 0. Proof. destruct m; reflexivity. Qed.

  Lemma g6_reads : forall l,
    rdv st (i_src0 i) (vd_c0 d) (i_lit i) l = Some (A l) /\
    (if 2 <=? vd_n d then rdv st (i_src1 i) (vd_c1 d) (i_lit i) l else Some 0) = Some (B l) /\
    (if 3 <=? vd_n d then rdv st (i_src2 i) (vd_c2 d) (i_lit i) l else Some 0) = Some (C l) /\
    sp_s0 r st i l = Some (marg q0 (A l)) /\ sp_s1 r st i l = Some (marg q1 (B l)) /\
    sp_s2 r st i l = Some (marg q2 (C l)) /\
    0 <= A l < W64 /\ 0 <= B l < W64 /\ 0 <= C l < W64.
  Proof.
    intros l. destruct Hrel as [[Hn Hn13] (Hc0 & Hc1 & Hc2 & Hw0 & Hw1 & Hw2) _ _ _ _ _].
    destruct Hadm as (H0 & H1 & H2 & _).
    unfold sp_s0, sp_s1, sp_s2, A, B, C. rewrite <- Hn, Hc0, Hc1, Hc2, Hw0, Hw1, Hw2.
    destruct (rd_mode q0 st (i_src0 i) (i_lit i) l Hwf Hlit H0) as (x0 & P1 & P2 & P3).
    rewrite P1, P2. cbn [oget].
    assert (Q1 : exists x1, (if 2 <=? vd_n d then rdv st (i_src1 i) (mode_c q1) (i_lit i) l else Some 0) = Some x1 /\
        (if 2 <=? vd_n d then vsrc (mode_w q1) st (i_src1 i) (i_lit i) l else Some 0) = Some (marg q1 x1) /\
        (if 2 <=? vd_n d then oget (rdv st (i_src1 i) (mode_c q1) (i_lit i) l) else 0) = x1 /\ 0 <= x1 < W64).
    { destruct (2 <=? vd_n d) eqn:E.
      - destruct (rd_mode q1 st (i_src1 i) (i_lit i) l Hwf Hlit (H1 ltac:(lia))) as (x1 & R1 & R2 & R3).
        exists x1. rewrite R1. cbn [oget]. auto.
      - exists 0. rewrite marg0. repeat split; unfold W64; lia. }
    destruct Q1 as (x1 & Q1 & Q2 & Q3 & Q4).
    assert (Q5 : exists x2, (if 3 <=? vd_n d then rdv st (i_src2 i) (mode_c q2) (i_lit i) l else Some 0) = Some x2 /\
        (if 3 <=? vd_n d then vsrc (mode_w q2) st (i_src2 i) (i_lit i) l else Some 0) = Some (marg q2 x2) /\
        (if 3 <=? vd_n d then oget (rdv st (i_src2 i) (mode_c q2) (i_lit i) l) else 0) = x2 /\ 0 <= x2 < W64).
    { destruct (3 <=? vd_n d) eqn:E.
      - destruct (rd_mode q2 st (i_src2 i) (i_lit i) l Hwf Hlit (H2 ltac:(lia))) as (x2 & R1 & R2 & R3).
        exists x2. rewrite R1. cbn [oget]. auto.
      - exists 0. rewrite marg0. repeat split; unfold W64; lia. }
    destruct Q5 as (x2 & Q5 & Q6 & Q7 & Q8).
    rewrite Q1, Q2, Q3, Q5, Q6, Q7. repeat split; auto; lia.
  Qed.

  Lemma g6_lane : forall l s, lane_agree st s l -> lane_of d st i l s = Some (valof l, flagof l).
  Proof.
    intros l s Hl. unfold lane_of. rewrite !(rdv_agree st s _ _ _ _ Hl).
    destruct (g6_reads l) as (R0 & R1 & R2 & _).
    rewrite R0. cbn [bind]. rewrite R1. cbn [bind]. rewrite R2. cbn [bind].
    destruct Hrel as [_ _ _ [Hc _] _ _ _]. rewrite Hc. reflexivity.
  Qed.

  Lemma g6_loop : exists s',
    vloop (exec st) (i_dst i) (vd_dc d) (lane_of d st i) st =
      Some (s', fold_left (fm_impl (fun l => bit (exec st) l && flagof l)) lanes 0) /\
    scal_agree st s' /\
    forall l x, vgpr s' l x =
      if memz l lanes && bit (exec st) l then newv (i_dst i) (vd_dc d) (valof l) (vgpr st l) x else vgpr st l x.
  Proof.
    rewrite vloop_fold.
    apply (vloop_gen (exec st) (i_dst i) (vd_dc d) (lane_of d st i) st valof flagof).
    - intros l v Hv. unfold valof in Hv. destruct Hrel as [_ _ _ _ _ Hdst _]. destruct Hadm as (_&_&_&Hvd&_).
      unfold dst_ok64 in Hdst. destruct (r_dw r) as [[|]|]; try tauto.
      rewrite Hdst in Hv. cbn in Hv. discriminate.
    - exact g6_lane.
    - rewrite lanes_eq. apply nodup_lanes_upto.
    - apply scal_agree_refl.
    - reflexivity.
  Qed.

  Lemma g6_flag : forall l, sp_flag r st i l = flagof l /\ sp_ok r st i l = true /\
    (r_dw r = Some B32 -> exists v, valof l = Some v /\ u32 v = sp_val r st i l) /\
    (r_dw r = Some B64 -> exists v, valof l = Some v /\ 0 <= v < W64 /\ v = sp_val r st i l) /\
    (r_dw r = None -> valof l = None).
  Proof.
    intros l. destruct (g6_reads l) as (_ & _ & _ & S0 & S1 & S2 & RA & RB & RC).
    destruct Hrel as [_ _ Hdom [Hc1 Hc2] _ Hdst Hval].
    destruct (Hval (A l) (B l) (C l) false RA RB RC) as [V1 V2].
    unfold sp_flag, sp_ok, sp_val, sp_cin. rewrite S0, S1, S2, Hc2. cbn [oget isS andb].
    split; [symmetry; exact V2|]. split; [apply Hdom|]. unfold valof, dst_ok64 in *.
    repeat split; intros Hw; rewrite Hw in *.
    - replace (vd_dc d <? 0) with false by lia. exact V1.
    - replace (vd_dc d <? 0) with false by lia. exact V1.
    - rewrite Hdst. reflexivity.
  Qed.

  Lemma g6_mask :
    fold_left (fm_impl (fun l => bit (exec st) l && flagof l)) lanes 0 =
      mask_of (fun l => active st l && sp_flag r st i l) /\
    0 <= mask_of (fun l => active st l && sp_flag r st i l) < W64.
  Proof.
    rewrite mask_of_fold. rewrite lanes_eq.
    destruct (mask_impl_spec (fun l => bit (exec st) l && flagof l) 64) as [M1 M2].
    rewrite M1.
    assert (E : fold_left (fm_spec (fun l => bit (exec st) l && flagof l)) (lanes_upto 64) 0 =
                fold_left (fm_spec (fun l => active st l && sp_flag r st i l)) (lanes_upto 64) 0).
    { apply fold_ext_in. intros m l Hl. unfold fm_spec.
      destruct (g6_flag l) as (F & _). rewrite F. unfold active, lane_ok, bit.
      apply in_lanes_upto in Hl. replace ((0 <=? l) && (l <? 64)) with true by lia. reflexivity. }
    rewrite <- E. split; [reflexivity|]. rewrite W64_pow. exact M2.
  Qed.

  Definition spec_st1_64 : option state :=
    match r_dw r with
    | None => Some st
    | Some w => if is_vgpr (i_dst i) && (match w with B32 => true | B64 => i_dst i <=? 510 end)
                then Some (st <| vgpr := sp_vgpr r w st i |>) else None
    end.

  Lemma g6_st1 : forall s', scal_agree st s' ->
    (forall l x, vgpr s' l x =
      if memz l lanes && bit (exec st) l then newv (i_dst i) (vd_dc d) (valof l) (vgpr st l) x else vgpr st l x) ->
    exists st1, spec_st1_64 = Some st1 /\ state_eq s' st1.
  Proof.
    intros s' HS HV. unfold spec_st1_64.
    destruct HS as (A1&A2&A3&A4&A5&A6&A7&A8).
    destruct Hadm as (_&_&_&Hvd&_). destruct Hrel as [_ _ _ _ _ Hdst _]. unfold dst_ok64 in Hdst.
    destruct (r_dw r) as [w|] eqn:Ew.
    - destruct w.
      + rewrite Hvd. cbn [andb]. eexists. split; [reflexivity|].
        repeat split; cbn [vgpr sgpr exec vcc scc m0 pc mem lds set]; auto.
        intros l x. rewrite HV, memz_lanes. unfold sp_vgpr, active, bit.
        destruct (lane_ok l && Z.testbit (exec st) l); [|reflexivity].
        destruct (g6_flag l) as (_ & _ & K & _). destruct (K Ew) as (v & Kv & Ku).
        rewrite Kv. unfold newv. replace (2 <=? vd_dc d) with false by lia. cbn [andb].
        destruct (x =? i_dst i - 256); [exact Ku|reflexivity].
      + destruct Hvd as [Hv1 Hv2]. rewrite Hv1. replace (i_dst i <=? 510) with true by lia. cbn [andb].
        eexists. split; [reflexivity|].
        repeat split; cbn [vgpr sgpr exec vcc scc m0 pc mem lds set]; auto.
        intros l x. rewrite HV, memz_lanes. unfold sp_vgpr, active, bit.
        destruct (lane_ok l && Z.testbit (exec st) l); [|reflexivity].
        destruct (g6_flag l) as (_ & _ & _ & K & _). destruct (K Ew) as (v & Kv & Kr & Ku).
        rewrite Kv. unfold newv. rewrite Hdst. cbn [Z.leb andb]. rewrite <- Ku.
        replace (i_dst i - 256 + 1) with (i_dst i - 255) by lia.
        destruct (x =? i_dst i - 256); [reflexivity|].
        destruct (x =? i_dst i - 255); [|reflexivity].
        unfold u32. apply Z.mod_small. unfold W32, W64 in *. lia.
    - exists st. split; [reflexivity|]. repeat split; auto. intros l x. rewrite HV.
      destruct (g6_flag l) as (_ & _ & _ & _ & K). rewrite (K Ew). unfold newv.
      destruct (memz l lanes && bit (exec st) l); reflexivity.
  Qed.

  Lemma g6_ok : forallb (fun l => negb (active st l) || sp_ok r st i l) (map Z.of_nat (seq 0 64)) = true.
  Proof. apply forallb_forall. intros l _. destruct (g6_flag l) as (_ & K & _). rewrite K. apply orb_true_r. Qed.

  Lemma g6_finish : forall s' st1 m, 0 <= m < W64 -> state_eq s' st1 ->
    exists s1 s2,
      match vd_mask d with
      | MNone => Some s' | MVcc => Some (s' <| vcc := m |>)
      | MDst => wr s' (i_dst i) 2 m | MSdst => wr s' (i_simm i) 2 m end = Some s1 /\
      match r_mask r with
      | DNone => Some st1 | DVcc => Some (st1 <| vcc := m |>)
      | DDst => dst64 st1 (i_dst i) m | DSdst => dst64 st1 (i_simm i) m end = Some s2 /\
      state_eq s1 s2.
  Proof.
    intros s' st1 m HMr Heq.
    destruct Hrel as [_ _ _ _ Hmask _ _]. unfold mask_ok in Hmask.
    destruct Hadm as (_&_&_&_&Hmd).
    destruct (vd_mask d), (r_mask r); try contradiction.
    - do 2 eexists. split; [reflexivity|split; [reflexivity|exact Heq]].
    - do 2 eexists. split; [reflexivity|split; [reflexivity|]].
      destruct Heq as (E2&E3&E4&E5&E6&E7&E8&E9&E10).
      repeat split; cbn [vgpr sgpr exec vcc scc m0 pc mem lds set]; auto.
    - destruct (wr64_eq s' st1 (i_dst i) m Heq Hmd) as (x & y & W1 & W2 & W3).
      unfold u64 in W2. rewrite (Z.mod_small _ _ HMr) in W2. rewrite W1, W2.
      do 2 eexists. split; [reflexivity|split; [reflexivity|exact W3]].
    - destruct (wr64_eq s' st1 (i_simm i) m Heq Hmd) as (x & y & W1 & W2 & W3).
      unfold u64 in W2. rewrite (Z.mod_small _ _ HMr) in W2. rewrite W1, W2.
      do 2 eexists. split; [reflexivity|split; [reflexivity|exact W3]].
  Qed.

  (** the same statement on the descriptor / row themselves (used by the float
      tables, which are not part of [vdesc_of] / [vrow_of]) *)
  Theorem vglue64_core : exists s1 s2, run_d d st i = Some s1 /\ run_r r st i = Some s2 /\ state_eq s1 s2.
  Proof.
    unfold run_d, run_r.
    destruct g6_loop as (s' & HL & HS & HV). rewrite HL, g6_ok. cbn [negb].
    destruct g6_mask as [HM HMr]. rewrite HM.
    destruct (g6_st1 s' HS HV) as (st1 & E1 & Heq).
    fold spec_st1_64. rewrite E1. cbn [obind].
    exact (g6_finish s' st1 _ HMr Heq).
  Qed.

  Theorem vglue64 : agree_v a st i.
  Proof.
    unfold agree_v. rewrite (exec_vector_eq a st i Hnr), (exec_spec_v_eq a st i Hnr).
    unfold exec_vector_gen, exec_spec_vgen. rewrite Hd, Hr. cbn [obind]. unfold run_d, run_r.
    destruct g6_loop as (s' & HL & HS & HV). rewrite HL, g6_ok. cbn [negb].
    destruct g6_mask as [HM HMr]. rewrite HM.
    destruct (g6_st1 s' HS HV) as (st1 & E1 & Heq).
    fold spec_st1_64. rewrite E1. cbn [obind].
    exact (g6_finish s' st1 _ HMr Heq).
  Qed.
End Glue64.
