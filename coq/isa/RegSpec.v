(** C07 — specification: the architectural registers of one wavefront are a
    flat array of independent cells.  Scalar registers s0..s101 and vector
    registers v0..v255 of each of the 64 lanes are dword cells; VCC and EXEC are
    two dword cells each (low and high half); M0 is a dword cell; SCC is a
    one-byte cell.  An operand (register designator + RegCount) names a list of
    cells; reading returns their contents, writing replaces exactly them.
    Definitions only (executable); proofs are in RegProofs.v. *)
From Coq Require Import NArith List Bool.
Import ListNotations.
Open Scope N_scope.

(** ** little-endian byte strings *)
Fixpoint le_bytes (n : nat) (x : N) : list N :=
  match n with O => [] | S k => (x mod 256) :: le_bytes k (x / 256) end.

Fixpoint le_val (l : list N) : N :=
  match l with [] => 0 | b :: r => b + 256 * le_val r end.

Definition nseq (n : N) : list N := map N.of_nat (seq 0 (N.to_nat n)).

Definition bytes_ok (l : list N) : Prop := Forall (fun b => b < 256) l.

(** ** cells *)
Inductive cell :=
| CS (i : N) | CV (lane i : N)
| CVccLo | CVccHi | CExecLo | CExecHi | CScc | CM0.

Definition cell_eqb (a b : cell) : bool :=
  match a, b with
  | CS i, CS j => i =? j
  | CV l i, CV m j => (l =? m) && (i =? j)
  | CVccLo, CVccLo | CVccHi, CVccHi | CExecLo, CExecLo | CExecHi, CExecHi | CScc, CScc | CM0, CM0 => true
  | _, _ => false
  end.

(** width of a cell in bytes *)
Definition cbytes (c : cell) : nat := match c with CScc => 1%nat | _ => 4%nat end.

(** the register file of one wavefront *)
Definition cells := cell -> N.

Definition set_cell (c : cells) (id : cell) (v : N) : cells :=
  fun j => if cell_eqb j id then v else c j.

(** ** register designators as the decoder produces them (insts.Reg + RegCount) *)
Inductive reg :=
| RS (i : N) | RV (i : N)
| RVcc | RVccLo | RVccHi | RExec | RExecLo | RExecHi | RScc | RM0
| ROther.   (* any other entry of insts.Regs: flat_scratch, xnack_mask, tba, tma, ttmp, vccz, execz, pc ... *)

(** RegCount 0 (what getOperand attaches) and 1 both mean one register *)
Definition width (cnt : N) : N := if cnt <=? 1 then 1 else cnt.

(** the cells an operand designates; a multi-register operand aliases exactly
    its constituent registers, and the 64-bit pairs alias their two halves *)
Definition cells_of (r : reg) (cnt lane : N) : list cell :=
  match r with
  | RS i => map (fun k => CS (i + k)) (nseq (width cnt))
  | RV i => map (fun k => CV lane (i + k)) (nseq (width cnt))
  | RVcc => [CVccLo; CVccHi]
  | RVccLo => if cnt <=? 1 then [CVccLo] else [CVccLo; CVccHi]
  | RVccHi => [CVccHi]
  | RExec => [CExecLo; CExecHi]
  | RExecLo => if cnt <=? 1 then [CExecLo] else [CExecLo; CExecHi]
  | RExecHi => [CExecHi]
  | RScc => [CScc]
  | RM0 => [CM0]
  | ROther => []
  end.

(** which (register, RegCount) shapes the property speaks about *)
Definition wf_shape (r : reg) (cnt : N) : bool :=
  match r with
  | RS _ | RV _ => cnt <=? 16
  | RVccLo | RExecLo => cnt <=? 2
  | RVcc | RExec | RVccHi | RExecHi | RScc | RM0 => cnt <=? 1
  | ROther => false
  end.

(** ... inside a wavefront that owns [ns] scalar and [nv] vector registers *)
Definition wf_operand (ns nv : N) (r : reg) (cnt lane : N) : bool :=
  wf_shape r cnt &&
  match r with
  | RS i => i + width cnt <=? ns
  | RV i => (i + width cnt <=? nv) && (lane <? 64)
  | _ => true
  end.

Definition op_bytes (r : reg) (cnt lane : N) : nat :=
  fold_right (fun c n => (cbytes c + n)%nat) O (cells_of r cnt lane).

(** ** reads and writes of the flat model *)
Definition read_cells (c : cells) (r : reg) (cnt lane : N) : list N :=
  map c (cells_of r cnt lane).

Definition read_bytes (c : cells) (r : reg) (cnt lane : N) : list N :=
  flat_map (fun id => le_bytes (cbytes id) (c id)) (cells_of r cnt lane).

Fixpoint write_ids (c : cells) (ids : list cell) (data : list N) : cells :=
  match ids with
  | [] => c
  | id :: rest => write_ids (set_cell c id (le_val (firstn (cbytes id) data))) rest (skipn (cbytes id) data)
  end.

Definition write_bytes (c : cells) (r : reg) (cnt lane : N) (data : list N) : cells :=
  write_ids c (cells_of r cnt lane) data.

(** ** the four access functions of the wavefront API, on cells *)
Inductive api :=
| ARead (bc : N)            (* ReadOperandBytes(op, lane, bc) *)
| AWrite (data : list N)    (* WriteOperandBytes(op, lane, data) *)
| AReadU                    (* ReadOperand(op, lane) : uint64 *)
| AWriteU (v : N)           (* WriteOperand(op, lane, v : uint64) *)
| AReset.                   (* timing only: register release at wavefront end *)

Inductive obs := ONone | OPanic | ODone | OBytes (l : list N) | OVal (v : N).

Definition spec_access (c : cells) (a : api) (r : reg) (cnt lane : N) : cells * obs :=
  match a with
  | ARead bc => (c, OBytes (firstn (N.to_nat bc) (read_bytes c r cnt lane)))
  | AReadU => (c, OVal (le_val (firstn 8 (read_bytes c r cnt lane))))
  | AWrite data => (write_bytes c r cnt lane data, ODone)
  | AWriteU v => (write_bytes c r cnt lane (firstn (op_bytes r cnt lane) (le_bytes 8 v)), ODone)
  | AReset => (c, ODone)
  end.

(** an access the property speaks about: well-formed operand, data of exactly
    the operand's width (bytes), the uint64 API only for operands up to 64 bits *)
Definition wf_access (ns nv : N) (a : api) (r : reg) (cnt lane : N) : Prop :=
  wf_operand ns nv r cnt lane = true /\
  match a with
  | AWrite data => length data = op_bytes r cnt lane /\ bytes_ok data
  | AWriteU v => (op_bytes r cnt lane <= 8)%nat /\ v < 2 ^ 64
  | AReset => False
  | _ => True
  end.

(** several co-resident wavefronts: one cell array each *)
Definition wcells := N -> cells.
Definition wupd {A} (f : N -> A) (w : N) (x : A) : N -> A := fun j => if j =? w then x else f j.

Record acc := mkAcc { a_w : N; a_api : api; a_reg : reg; a_cnt : N; a_lane : N }.

Definition spec_step (c : wcells) (a : acc) : wcells * obs :=
  let '(c', o) := spec_access (c (a_w a)) (a_api a) (a_reg a) (a_cnt a) (a_lane a) in
  (wupd c (a_w a) c', o).

Fixpoint spec_run (c : wcells) (h : list acc) : wcells * list obs :=
  match h with
  | [] => (c, [])
  | a :: rest => let '(c1, o) := spec_step c a in let '(c2, os) := spec_run c1 rest in (c2, o :: os)
  end.

(** ** register release at wavefront end (timing model only): the released
    wavefront's [ns] scalar and [nv] vector registers (all 64 lanes) read zero
    afterwards; its special registers and every other wavefront keep their contents *)
Definition reset_cells (ns nv : N) (c : cells) : cells := fun id =>
  match id with
  | CS j => if j <? ns then 0 else c id
  | CV l j => if (l <? 64) && (j <? nv) then 0 else c id
  | _ => c id
  end.

Definition tspec_step (ns nv : N -> N) (c : wcells) (a : acc) : wcells * obs :=
  match a_api a with
  | AReset => (wupd c (a_w a) (reset_cells (ns (a_w a)) (nv (a_w a)) (c (a_w a))), ODone)
  | _ => spec_step c a
  end.

Fixpoint tspec_run (ns nv : N -> N) (c : wcells) (h : list acc) : wcells * list obs :=
  match h with
  | [] => (c, [])
  | a :: rest => let '(c1, o) := tspec_step ns nv c a in let '(c2, os) := tspec_run ns nv c1 rest in (c2, o :: os)
  end.

(** ** the cells of a newly dispatched wavefront: everything zero except EXEC
    (initial mask) and v0 of each lane (work-item id) — a constant, independent
    of whatever any earlier wavefront did *)
Definition fresh_cells (exec0 : N) (ids : N -> N) : cells := fun id =>
  match id with
  | CV l 0 => if l <? 64 then le_val (le_bytes 4 (ids l)) else 0
  | CExecLo => exec0 mod 4294967296
  | CExecHi => (exec0 / 4294967296) mod 4294967296
  | _ => 0
  end.
