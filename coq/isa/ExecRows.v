(** C03 — value-level lemmas per opcode row (handler result = manual row on
    the architectural operand values) and the format-level theorems. *)
From Coq Require Import ZArith List Bool Lia ZifyBool.
Import ListNotations.
From VIsa Require Import IsaState ExecImpl ExecSpec ExecProofs.
Open Scope Z_scope.
Ltac Zify.zify_post_hook ::= Z.div_mod_to_equations.

Ltac ifone := vok32;
  match goal with |- context [Some (if ?b then _ else _)] => let Eb := fresh "Eb" in destruct b eqn:Eb end;
  do 2 eexists; (split; [reflexivity|]); unf; split; repeat case_if; repeat case_ifh; try lia.

(** *** SOP2 arithmetic, min/max, select *)
Lemma g_sop2_0 : val_ok32 GCN3 0 true. Proof. one. Qed.
Lemma g_sop2_1 : val_ok32 GCN3 1 true. Proof. one. Qed.
Lemma g_sop2_2 : val_ok32 GCN3 2 true. Proof. one. Qed.
Lemma g_sop2_3 : val_ok32 GCN3 3 true.
Proof.
  vok32; do 2 eexists; (split; [reflexivity|]). unf. split; repeat case_if; try lia.
  all: repeat case_ifh; lia.
Qed.
Lemma g_sop2_4 : val_ok32 GCN3 4 true. Proof. one. Qed.
Lemma g_sop2_5 : val_ok32 GCN3 5 true. Proof. one. Qed.
Lemma g_sop2_6 : val_ok32 GCN3 6 true. Proof. ifone. Qed.
Lemma g_sop2_7 : val_ok32 GCN3 7 true. Proof. ifone. Qed.
Lemma g_sop2_8 : val_ok32 GCN3 8 true. Proof. ifone. Qed.
Lemma g_sop2_9 : val_ok32 GCN3 9 true. Proof. ifone. Qed.
Lemma g_sop2_10 : val_ok32 GCN3 10 true. Proof. one. Qed.
Lemma c_sop2_0 : val_ok32 CDNA3 0 true. Proof. one. Qed.
Lemma c_sop2_1 : val_ok32 CDNA3 1 true. Proof. one. Qed.
Lemma c_sop2_2 : val_ok32 CDNA3 2 true. Proof. one. Qed.
Lemma c_sop2_3 : val_ok32 CDNA3 3 true. Proof. one. Qed.
Lemma c_sop2_4 : val_ok32 CDNA3 4 true. Proof. one. Qed.
Lemma c_sop2_5 : val_ok32 CDNA3 5 true. Proof. one. Qed.
Lemma c_sop2_6 : val_ok32 CDNA3 6 true. Proof. ifone. Qed.
Lemma c_sop2_7 : val_ok32 CDNA3 7 true. Proof. ifone. Qed.
Lemma c_sop2_8 : val_ok32 CDNA3 8 true. Proof. ifone. Qed.
Lemma c_sop2_9 : val_ok32 CDNA3 9 true. Proof. ifone. Qed.
Lemma c_sop2_10 : val_ok32 CDNA3 10 true. Proof. one. Qed.

(** *** bitwise range facts *)
Lemma log2_lt : forall a n, 0 < n -> 0 <= a < 2 ^ n -> Z.log2 a < n.
Proof.
  intros a n Hn [H0 H1]. destruct (Z.eq_dec a 0) as [->|Hz]; [cbn; lia|].
  apply Z.log2_lt_pow2; lia.
Qed.
Lemma lt_of_log2 : forall a n, 0 < n -> 0 <= a -> Z.log2 a < n -> a < 2 ^ n.
Proof.
  intros a n Hn H0 H. destruct (Z.eq_dec a 0) as [->|Hz]; [apply Z.pow_pos_nonneg; lia|].
  apply Z.log2_lt_pow2; lia.
Qed.
Lemma land_range : forall n a b, 0 < n -> 0 <= a < 2 ^ n -> 0 <= b < 2 ^ n -> 0 <= Z.land a b < 2 ^ n.
Proof.
  intros n a b Hn Ha Hb. split; [apply Z.land_nonneg; lia|].
  apply lt_of_log2; auto; [apply Z.land_nonneg; lia|].
  pose proof (Z.log2_land a b ltac:(lia) ltac:(lia)). pose proof (log2_lt a n Hn Ha). lia.
Qed.
Lemma lor_range : forall n a b, 0 < n -> 0 <= a < 2 ^ n -> 0 <= b < 2 ^ n -> 0 <= Z.lor a b < 2 ^ n.
Proof.
  intros n a b Hn Ha Hb. split; [apply Z.lor_nonneg; lia|].
  apply lt_of_log2; auto; [apply Z.lor_nonneg; lia|].
  rewrite Z.log2_lor by lia. pose proof (log2_lt a n Hn Ha). pose proof (log2_lt b n Hn Hb). lia.
Qed.
Lemma lxor_range : forall n a b, 0 < n -> 0 <= a < 2 ^ n -> 0 <= b < 2 ^ n -> 0 <= Z.lxor a b < 2 ^ n.
Proof.
  intros n a b Hn Ha Hb. split; [apply Z.lxor_nonneg; lia|].
  apply lt_of_log2; auto; [apply Z.lxor_nonneg; lia|].
  pose proof (Z.log2_lxor a b ltac:(lia) ltac:(lia)).
  pose proof (log2_lt a n Hn Ha). pose proof (log2_lt b n Hn Hb). lia.
Qed.
Lemma W32_pow : W32 = 2 ^ 32. Proof. reflexivity. Qed.
Lemma W64_pow : W64 = 2 ^ 64. Proof. reflexivity. Qed.

(** *** 32-bit logic rows *)
Lemma not32_range : forall x, 0 <= x < W32 -> 0 <= not32 x < W32.
Proof. intros; unfold not32, W32 in *; lia. Qed.
Lemma not64_range : forall x, 0 <= x < W64 -> 0 <= not64 x < W64.
Proof. intros; unfold not64, W64 in *; lia. Qed.
(* d is the handler's result expression; R a proof of 0 <= d < 2^32 *)
Ltac logic32 x y lem yy :=
  do 2 eexists; (split; [reflexivity|]);
  pose proof (u32_range x) as Hx'; pose proof (u32_range y) as Hy';
  pose proof (not32_range _ Hy') as Hny'; rewrite W32_pow in Hx', Hy', Hny';
  cbv [f_scc bin_nz scc_nonzero wrap nz lnot ones]; fold (not32 (u32 y)) in *;
  let Hr := fresh "Hr" in
  pose proof (lem 32 (u32 x) yy ltac:(lia) Hx' ltac:(assumption)) as Hr; rewrite <- W32_pow in Hr;
  unfold u32 at 1; rewrite !(Z.mod_small _ W32) by exact Hr; split; reflexivity.
Lemma g_sop2_12 : val_ok32 GCN3 12 true. Proof. vok32. logic32 x y land_range (u32 y). Qed.
Lemma g_sop2_16 : val_ok32 GCN3 16 true. Proof. vok32. logic32 x y lxor_range (u32 y). Qed.
Lemma c_sop2_12 : val_ok32 CDNA3 12 true. Proof. vok32. logic32 x y land_range (u32 y). Qed.
Lemma c_sop2_14 : val_ok32 CDNA3 14 true. Proof. vok32. logic32 x y lor_range (u32 y). Qed.
Lemma c_sop2_16 : val_ok32 CDNA3 16 true. Proof. vok32. logic32 x y lxor_range (u32 y). Qed.
Lemma c_sop2_18 : val_ok32 CDNA3 18 true. Proof. vok32. logic32 x y land_range (not32 (u32 y)). Qed.
Lemma c_sop2_20 : val_ok32 CDNA3 20 true. Proof. vok32. logic32 x y lor_range (not32 (u32 y)). Qed.

(** *** 64-bit logic rows, S_CSELECT_B64 *)
Ltac logic64 x y Hx Hy lem yy :=
  do 2 eexists; (split; [reflexivity|]);
  pose proof (not64_range _ Hy) as Hny'; rewrite W64_pow in Hx, Hy, Hny';
  cbv [f_scc bin_nz scc_nonzero wrap nz lnot ones]; fold (not64 y) in *;
  let Hr := fresh "Hr" in
  pose proof (lem 64 x yy ltac:(lia) Hx ltac:(assumption)) as Hr; rewrite <- W64_pow in Hr;
  unfold u64; rewrite !(Z.mod_small _ W64) by exact Hr; split; reflexivity.
Lemma g_sop2_13 : val_ok64 GCN3 13. Proof. vok64. logic64 x y Hx Hy land_range y. Qed.
Lemma g_sop2_15 : val_ok64 GCN3 15. Proof. vok64. logic64 x y Hx Hy lor_range y. Qed.
Lemma g_sop2_17 : val_ok64 GCN3 17. Proof. vok64. logic64 x y Hx Hy lxor_range y. Qed.
Lemma g_sop2_19 : val_ok64 GCN3 19. Proof. vok64. logic64 x y Hx Hy land_range (not64 y). Qed.
Lemma c_sop2_13 : val_ok64 CDNA3 13. Proof. vok64. logic64 x y Hx Hy land_range y. Qed.
Lemma c_sop2_15 : val_ok64 CDNA3 15. Proof. vok64. logic64 x y Hx Hy lor_range y. Qed.
Lemma c_sop2_17 : val_ok64 CDNA3 17. Proof. vok64. logic64 x y Hx Hy lxor_range y. Qed.
Lemma c_sop2_19 : val_ok64 CDNA3 19. Proof. vok64. logic64 x y Hx Hy land_range (not64 y). Qed.
Lemma c_sop2_21 : val_ok64 CDNA3 21. Proof. vok64. logic64 x y Hx Hy lor_range (not64 y). Qed.
Lemma c_sop2_11 : val_ok64 CDNA3 11.
Proof. vok64. do 2 eexists; (split; [reflexivity|]). cbv [f_scc sel scc_same]. unfold u64, W64 in *. split; [|reflexivity].
  case_if; rewrite Z.mod_small; lia. Qed.

(** *** shifts, S_BFM, S_MUL_I32, S_MUL_HI_U32 *)
Lemma land31 : forall b, Z.land b 31 = b mod 32.
Proof. intros; change 31 with (Z.ones 5); rewrite Z.land_ones by lia; reflexivity. Qed.
Lemma land63 : forall b, Z.land b 63 = b mod 64.
Proof. intros; change 63 with (Z.ones 6); rewrite Z.land_ones by lia; reflexivity. Qed.
Lemma land127 : forall b, Z.land b 127 = b mod 128.
Proof. intros; change 127 with (Z.ones 7); rewrite Z.land_ones by lia; reflexivity. Qed.
Lemma div_pow2_range : forall M x k, 0 <= k -> 0 < M -> - M <= x < M -> - M <= x / 2 ^ k < M.
Proof.
  intros M x k Hk HM Hx. assert (Hp : 0 < 2 ^ k) by (apply Z.pow_pos_nonneg; lia).
  split.
  - apply Z.div_le_lower_bound; auto. nia.
  - apply Z.div_lt_upper_bound; auto. nia.
Qed.
Lemma div_pow2_range0 : forall M x k, 0 <= k -> 0 <= x < M -> 0 <= x / 2 ^ k < M.
Proof.
  intros M x k Hk Hx. assert (Hp : 0 < 2 ^ k) by (apply Z.pow_pos_nonneg; lia).
  split; [apply Z.div_pos; lia|]. apply Z.div_lt_upper_bound; auto. nia.
Qed.
Lemma m32 : forall b, 0 <= b mod 32. Proof. intros; lia. Qed.
Lemma m64 : forall b, 0 <= b mod 64. Proof. intros; lia. Qed.
Lemma amt32 : forall y, (y mod 256) mod 32 = (u32 y) mod 32. Proof. intros; unfold u32, W32; lia. Qed.
Lemma amt32' : forall y, y mod 32 = (u32 y) mod 32. Proof. intros; unfold u32, W32; lia. Qed.
Lemma amt64 : forall y, (y mod 256) mod 64 = y mod 64. Proof. intros; lia. Qed.

Ltac start32 := vok32; do 2 eexists; (split; [reflexivity|]);
  cbv [f_scc shl lshr ashr bin bin_nz scc_nonzero scc_same wrap nz amount bits signed].
Ltac start64 := vok64; do 2 eexists; (split; [reflexivity|]);
  cbv [f_scc shl lshr ashr bin bin_nz scc_nonzero scc_same wrap nz amount bits signed].

Lemma g_sop2_28 : val_ok32 GCN3 28 true.
Proof. start32. rewrite land31, amt32, Z.shiftl_mul_pow2 by apply m32. rewrite u32_u32. split; reflexivity. Qed.
Lemma c_sop2_28 : val_ok32 CDNA3 28 true.
Proof. start32. rewrite land31, Z.shiftl_mul_pow2 by apply m32. rewrite u32_u32, u32_u64, (amt32' y).
  assert (E : u32 (x * 2 ^ (u32 y mod 32)) = (u32 x * 2 ^ (u32 y mod 32)) mod W32).
  { unfold u32. rewrite Z.mul_mod_idemp_l by (unfold W32; lia). reflexivity. }
  rewrite E. split; reflexivity. Qed.
Lemma g_sop2_30 : val_ok32 GCN3 30 true.
Proof. start32. rewrite land31, Z.shiftr_div_pow2 by apply m32.
  pose proof (div_pow2_range0 W32 (u32 x) (u32 y mod 32) (m32 _) (u32_range x)) as Hr.
  rewrite (u32_small _ Hr). split; reflexivity. Qed.
Lemma c_sop2_30 : val_ok32 CDNA3 30 true.
Proof. start32. rewrite land31, (amt32' y), Z.shiftr_div_pow2 by apply m32.
  pose proof (div_pow2_range0 W32 (u32 x) (u32 y mod 32) (m32 _) (u32_range x)) as Hr.
  rewrite (u32_small _ Hr). split; reflexivity. Qed.
Lemma s32_range : forall x, - 2147483648 <= s32 x < 2147483648.
Proof. intros; unfold s32, sx, W32; simpl; case_if; lia. Qed.
Lemma nz_mod32 : forall d, - 2147483648 <= d < 2147483648 -> (d mod W32 =? 0) = (d =? 0).
Proof. intros; unfold W32; lia. Qed.
Lemma g_sop2_32 : val_ok32 GCN3 32 true.
Proof. start32. rewrite land31, amt32, Z.shiftr_div_pow2 by apply m32.
  pose proof (div_pow2_range 2147483648 (s32 x) (u32 y mod 32) (m32 _) ltac:(lia) (s32_range x)) as Hr.
  fold (signed B32 (u32 x)). rewrite <- s32_signed.
  rewrite (nz_mod32 _ Hr). split; [unfold u32; rewrite Z.mod_mod by (unfold W32; lia)|]; reflexivity. Qed.
Lemma c_sop2_32 : val_ok32 CDNA3 32 true.
Proof. start32. rewrite land31, (amt32' y), Z.shiftr_div_pow2 by apply m32.
  fold (signed B32 (u32 x)). rewrite <- s32_signed. rewrite u32_u32. unfold u32 at 1 3. split; reflexivity. Qed.
Lemma g_sop2_29 : val_ok64 GCN3 29.
Proof. start64. rewrite land63, amt64, Z.shiftl_mul_pow2 by apply m64.
  unfold u64. rewrite Z.mod_mod by (unfold W64; lia). split; reflexivity. Qed.
Lemma c_sop2_29 : val_ok64 CDNA3 29.
Proof. start64. rewrite land63, Z.shiftl_mul_pow2 by apply m64.
  unfold u64. rewrite Z.mod_mod by (unfold W64; lia). split; reflexivity. Qed.
Lemma g_sop2_31 : val_ok64 GCN3 31.
Proof. start64. rewrite land63, Z.shiftr_div_pow2 by apply m64.
  pose proof (div_pow2_range0 W64 x (y mod 64) (m64 _) Hx) as Hr.
  unfold u64. rewrite (Z.mod_small _ _ Hr). split; reflexivity. Qed.
Lemma c_sop2_31 : val_ok64 CDNA3 31.
Proof. start64. rewrite land63, Z.shiftr_div_pow2 by apply m64.
  pose proof (div_pow2_range0 W64 x (y mod 64) (m64 _) Hx) as Hr.
  unfold u64. rewrite (Z.mod_small _ _ Hr). split; reflexivity. Qed.
Lemma s64_signed : forall x, 0 <= x < W64 -> s64 x = (if x <? W64 / 2 then x else x - W64).
Proof. intros; unfold s64, sx. rewrite Z.mod_small by lia. reflexivity. Qed.
Lemma c_sop2_33 : val_ok64 CDNA3 33.
Proof. start64. rewrite land63, Z.shiftr_div_pow2 by apply m64. rewrite <- (s64_signed x Hx).
  unfold u64. rewrite Z.mod_mod by (unfold W64; lia). split; reflexivity. Qed.
Lemma g_sop2_34 : val_ok32 GCN3 34 true.
Proof. start32. rewrite !land31, (amt32' x), (amt32' y), !Z.shiftl_mul_pow2 by apply m32.
  rewrite Z.mul_1_l, u32_u64. split; reflexivity. Qed.
Lemma c_sop2_34 : val_ok32 CDNA3 34 true.
Proof. start32. rewrite !land31, (amt32' x), (amt32' y), !Z.shiftl_mul_pow2 by apply m32.
  rewrite Z.mul_1_l, u32_u32, u32_u64. split; reflexivity. Qed.
Lemma g_sop2_36 : val_ok32 GCN3 36 true.
Proof. start32. fold (signed B32 (u32 x)). fold (signed B32 (u32 y)). rewrite <- !s32_signed.
  rewrite u32_u32, u32_s32. split; reflexivity. Qed.
Lemma c_sop2_36 : val_ok32 CDNA3 36 true.
Proof. start32. fold (signed B32 (u32 x)). fold (signed B32 (u32 y)). rewrite <- !s32_signed.
  rewrite u32_u32, u32_s32. split; reflexivity. Qed.
Lemma c_sop2_44 : val_ok32 CDNA3 44 true.
Proof. start32. change 32 with (Z.log2 W32) at 1. 
  pose proof (u32_range x) as Hx'. pose proof (u32_range y) as Hy'.
  assert (Hm : 0 <= u32 x * u32 y < W64) by (unfold W32, W64 in *; nia).
  rewrite Z.shiftr_div_pow2 by (cbn; lia). unfold u64. rewrite (Z.mod_small _ _ Hm).
  change (2 ^ Z.log2 W32) with W32.
  assert (Hd : 0 <= u32 x * u32 y / W32 < W32).
  { split; [apply Z.div_pos; unfold W32 in *; lia|]. apply Z.div_lt_upper_bound; unfold W32, W64 in *; lia. }
  rewrite (u32_small _ Hd). split; [|reflexivity]. symmetry; apply Z.mod_small; exact Hd. Qed.

(** *** S_BFE_U32 *)
Lemma mask64_small : forall w, 0 < w < 64 -> mask64 w = Z.ones w.
Proof.
  intros w Hw. unfold mask64. rewrite Z.shiftl_mul_pow2, Z.mul_1_l by lia.
  assert (H : 0 < 2 ^ w < W64).
  { split; [apply Z.pow_pos_nonneg; lia|]. rewrite W64_pow. apply Z.pow_lt_mono_r; lia. }
  unfold u64. rewrite (Z.mod_small (2 ^ w)) by lia. rewrite Z.mod_small by lia.
  rewrite Z.ones_equiv. lia.
Qed.
Lemma mask64_big : forall w, 64 <= w -> mask64 w = Z.ones 64.
Proof.
  intros w Hw. unfold mask64. rewrite Z.shiftl_mul_pow2, Z.mul_1_l by lia.
  replace w with ((w - 64) + 64) by lia. rewrite Z.pow_add_r by lia.
  unfold u64. rewrite W64_pow. rewrite Z.mod_mul by lia. reflexivity.
Qed.
Lemma c_sop2_37 : val_ok32 CDNA3 37 true.
Proof.
  vok32; do 2 eexists; (split; [reflexivity|]).
  cbv [f_scc bfe32 scc_nonzero nz bfe_off bfe_width andb].
  rewrite land31, land127, (Z.shiftr_div_pow2 _ 16) by lia. change (2 ^ 16) with 65536.
  set (off := u32 y mod 32). set (w := u32 y / 65536 mod 128).
  assert (Hoff : 0 <= off) by (subst off; lia). assert (Hw : 0 <= w < 128) by (subst w; lia).
  rewrite Z.shiftr_div_pow2 by exact Hoff.
  pose proof (div_pow2_range0 W32 (u32 x) off Hoff (u32_range x)) as Hq.
  set (q := u32 x / 2 ^ off) in *.
  destruct (w =? 0) eqn:E0; [split; reflexivity|].
  assert (Hf : Z.land q (mask64 w) = q mod 2 ^ w).
  { destruct (Z.lt_ge_cases w 64) as [Hlt|Hge].
    - rewrite mask64_small by lia. apply Z.land_ones; lia.
    - rewrite mask64_big by lia. rewrite Z.land_ones by lia.
      assert (2 ^ 64 <= 2 ^ w) by (apply Z.pow_le_mono_r; lia).
      rewrite !Z.mod_small; auto; unfold W32 in *; lia. }
  rewrite Hf.
  assert (Hr : 0 <= q mod 2 ^ w < W32).
  { assert (0 < 2 ^ w) by (apply Z.pow_pos_nonneg; lia).
    pose proof (Z.mod_pos_bound q (2 ^ w) H). pose proof (Z.mod_le q (2 ^ w) ltac:(lia) H). lia. }
  split; [reflexivity|]. rewrite (Z.mod_small _ W32) by exact Hr. reflexivity.
Qed.
