(** C03 — value-level lemmas per opcode row (handler result = manual row on
    the architectural operand values) and the format-level theorems. *)
From Coq Require Import ZArith List Bool Lia ZifyBool.
From RecordUpdate Require Import RecordSet.
Import RecordSetNotations.
Import ListNotations.
From VIsa Require Import IsaState ExecImpl ExecSpec ExecProofs.
Open Scope Z_scope.
Ltac Zify.zify_post_hook ::= Z.div_mod_to_equations.

Ltac ifone := vok32;
  match goal with |- context [Some (if ?b then _ else _)] => let Eb := fresh "Eb" in destruct b eqn:Eb end;
  do 2 eexists; (split; [reflexivity|]); unf; split; repeat case_if; repeat case_ifh; try lia.

(** *** SOP2 arithmetic, min/max, select *)
Lemma g_sop2_0 : val_ok32 GCN3 0 true. Proof. one. Qed.
Lemma g_sop2_1 : val_ok32 GCN3 1 true. Proof. one. Qed.
Lemma g_sop2_2 : val_ok32 GCN3 2 true. Proof. one. Qed.
Lemma g_sop2_3 : val_ok32 GCN3 3 true.
Proof.
  vok32; do 2 eexists; (split; [reflexivity|]). unf. split; repeat case_if; try lia.
  all: repeat case_ifh; lia.
Qed.
Lemma g_sop2_4 : val_ok32 GCN3 4 true. Proof. one. Qed.
Lemma g_sop2_5 : val_ok32 GCN3 5 true. Proof. one. Qed.
Lemma g_sop2_6 : val_ok32 GCN3 6 true. Proof. ifone. Qed.
Lemma g_sop2_7 : val_ok32 GCN3 7 true. Proof. ifone. Qed.
Lemma g_sop2_8 : val_ok32 GCN3 8 true. Proof. ifone. Qed.
Lemma g_sop2_9 : val_ok32 GCN3 9 true. Proof. ifone. Qed.
Lemma g_sop2_10 : val_ok32 GCN3 10 true. Proof. one. Qed.
Lemma c_sop2_0 : val_ok32 CDNA3 0 true. Proof. one. Qed.
Lemma c_sop2_1 : val_ok32 CDNA3 1 true. Proof. one. Qed.
Lemma c_sop2_2 : val_ok32 CDNA3 2 true. Proof. one. Qed.
Lemma c_sop2_3 : val_ok32 CDNA3 3 true. Proof. one. Qed.
Lemma c_sop2_4 : val_ok32 CDNA3 4 true. Proof. one. Qed.
Lemma c_sop2_5 : val_ok32 CDNA3 5 true. Proof. one. Qed.
Lemma c_sop2_6 : val_ok32 CDNA3 6 true. Proof. ifone. Qed.
Lemma c_sop2_7 : val_ok32 CDNA3 7 true. Proof. ifone. Qed.
Lemma c_sop2_8 : val_ok32 CDNA3 8 true. Proof. ifone. Qed.
Lemma c_sop2_9 : val_ok32 CDNA3 9 true. Proof. ifone. Qed.
Lemma c_sop2_10 : val_ok32 CDNA3 10 true. Proof. one. Qed.

(** *** bitwise range facts *)
Lemma log2_lt : forall a n, 0 < n -> 0 <= a < 2 ^ n -> Z.log2 a < n.
Proof.
  intros a n Hn [H0 H1]. destruct (Z.eq_dec a 0) as [->|Hz]; [cbn; lia|].
  apply Z.log2_lt_pow2; lia.
Qed.
Lemma lt_of_log2 : forall a n, 0 < n -> 0 <= a -> Z.log2 a < n -> a < 2 ^ n.
Proof.
  intros a n Hn H0 H. destruct (Z.eq_dec a 0) as [->|Hz]; [apply Z.pow_pos_nonneg; lia|].
  apply Z.log2_lt_pow2; lia.
Qed.
Lemma land_range : forall n a b, 0 < n -> 0 <= a < 2 ^ n -> 0 <= b < 2 ^ n -> 0 <= Z.land a b < 2 ^ n.
Proof.
  intros n a b Hn Ha Hb. split; [apply Z.land_nonneg; lia|].
  apply lt_of_log2; auto; [apply Z.land_nonneg; lia|].
  pose proof (Z.log2_land a b ltac:(lia) ltac:(lia)). pose proof (log2_lt a n Hn Ha). lia.
Qed.
Lemma lor_range : forall n a b, 0 < n -> 0 <= a < 2 ^ n -> 0 <= b < 2 ^ n -> 0 <= Z.lor a b < 2 ^ n.
Proof.
  intros n a b Hn Ha Hb. split; [apply Z.lor_nonneg; lia|].
  apply lt_of_log2; auto; [apply Z.lor_nonneg; lia|].
  rewrite Z.log2_lor by lia. pose proof (log2_lt a n Hn Ha). pose proof (log2_lt b n Hn Hb). lia.
Qed.
Lemma lxor_range : forall n a b, 0 < n -> 0 <= a < 2 ^ n -> 0 <= b < 2 ^ n -> 0 <= Z.lxor a b < 2 ^ n.
Proof.
  intros n a b Hn Ha Hb. split; [apply Z.lxor_nonneg; lia|].
  apply lt_of_log2; auto; [apply Z.lxor_nonneg; lia|].
  pose proof (Z.log2_lxor a b ltac:(lia) ltac:(lia)).
  pose proof (log2_lt a n Hn Ha). pose proof (log2_lt b n Hn Hb). lia.
Qed.
Lemma W32_pow : W32 = 2 ^ 32. Proof. reflexivity. Qed.
Lemma W64_pow : W64 = 2 ^ 64. Proof. reflexivity. Qed.

(** *** 32-bit logic rows *)
Lemma not32_range : forall x, 0 <= x < W32 -> 0 <= not32 x < W32.
Proof. intros; unfold not32, W32 in *; lia. Qed.
Lemma not64_range : forall x, 0 <= x < W64 -> 0 <= not64 x < W64.
Proof. intros; unfold not64, W64 in *; lia. Qed.
(* d is the handler's result expression; R a proof of 0 <= d < 2^32 *)
Ltac logic32 x y lem yy :=
  do 2 eexists; (split; [reflexivity|]);
  pose proof (u32_range x) as Hx'; pose proof (u32_range y) as Hy';
  pose proof (not32_range _ Hy') as Hny'; rewrite W32_pow in Hx', Hy', Hny';
  cbv [f_scc bin_nz scc_nonzero wrap nz lnot ones]; fold (not32 (u32 y)) in *;
  let Hr := fresh "Hr" in
  pose proof (lem 32 (u32 x) yy ltac:(lia) Hx' ltac:(assumption)) as Hr; rewrite <- W32_pow in Hr;
  unfold u32 at 1; rewrite !(Z.mod_small _ W32) by exact Hr; split; reflexivity.
Lemma g_sop2_12 : val_ok32 GCN3 12 true. Proof. vok32. logic32 x y land_range (u32 y). Qed.
Lemma g_sop2_16 : val_ok32 GCN3 16 true. Proof. vok32. logic32 x y lxor_range (u32 y). Qed.
Lemma c_sop2_12 : val_ok32 CDNA3 12 true. Proof. vok32. logic32 x y land_range (u32 y). Qed.
Lemma c_sop2_14 : val_ok32 CDNA3 14 true. Proof. vok32. logic32 x y lor_range (u32 y). Qed.
Lemma c_sop2_16 : val_ok32 CDNA3 16 true. Proof. vok32. logic32 x y lxor_range (u32 y). Qed.
Lemma c_sop2_18 : val_ok32 CDNA3 18 true. Proof. vok32. logic32 x y land_range (not32 (u32 y)). Qed.
Lemma c_sop2_20 : val_ok32 CDNA3 20 true. Proof. vok32. logic32 x y lor_range (not32 (u32 y)). Qed.

(** *** 64-bit logic rows, S_CSELECT_B64 *)
Ltac logic64 x y Hx Hy lem yy :=
  do 2 eexists; (split; [reflexivity|]);
  pose proof (not64_range _ Hy) as Hny'; rewrite W64_pow in Hx, Hy, Hny';
  cbv [f_scc bin_nz scc_nonzero wrap nz lnot ones]; fold (not64 y) in *;
  let Hr := fresh "Hr" in
  pose proof (lem 64 x yy ltac:(lia) Hx ltac:(assumption)) as Hr; rewrite <- W64_pow in Hr;
  unfold u64; rewrite !(Z.mod_small _ W64) by exact Hr; split; reflexivity.
Lemma g_sop2_13 : val_ok64 GCN3 13. Proof. vok64. logic64 x y Hx Hy land_range y. Qed.
Lemma g_sop2_15 : val_ok64 GCN3 15. Proof. vok64. logic64 x y Hx Hy lor_range y. Qed.
Lemma g_sop2_17 : val_ok64 GCN3 17. Proof. vok64. logic64 x y Hx Hy lxor_range y. Qed.
Lemma g_sop2_19 : val_ok64 GCN3 19. Proof. vok64. logic64 x y Hx Hy land_range (not64 y). Qed.
Lemma c_sop2_13 : val_ok64 CDNA3 13. Proof. vok64. logic64 x y Hx Hy land_range y. Qed.
Lemma c_sop2_15 : val_ok64 CDNA3 15. Proof. vok64. logic64 x y Hx Hy lor_range y. Qed.
Lemma c_sop2_17 : val_ok64 CDNA3 17. Proof. vok64. logic64 x y Hx Hy lxor_range y. Qed.
Lemma c_sop2_19 : val_ok64 CDNA3 19. Proof. vok64. logic64 x y Hx Hy land_range (not64 y). Qed.
Lemma c_sop2_21 : val_ok64 CDNA3 21. Proof. vok64. logic64 x y Hx Hy lor_range (not64 y). Qed.
Lemma c_sop2_11 : val_ok64 CDNA3 11.
Proof. vok64. do 2 eexists; (split; [reflexivity|]). cbv [f_scc sel scc_same]. unfold u64, W64 in *. split; [|reflexivity].
  case_if; rewrite Z.mod_small; lia. Qed.

(** *** shifts, S_BFM, S_MUL_I32, S_MUL_HI_U32 *)
Lemma land31 : forall b, Z.land b 31 = b mod 32.
Proof. intros; change 31 with (Z.ones 5); rewrite Z.land_ones by lia; reflexivity. Qed.
Lemma land63 : forall b, Z.land b 63 = b mod 64.
Proof. intros; change 63 with (Z.ones 6); rewrite Z.land_ones by lia; reflexivity. Qed.
Lemma land127 : forall b, Z.land b 127 = b mod 128.
Proof. intros; change 127 with (Z.ones 7); rewrite Z.land_ones by lia; reflexivity. Qed.
Lemma div_pow2_range : forall M x k, 0 <= k -> 0 < M -> - M <= x < M -> - M <= x / 2 ^ k < M.
Proof.
  intros M x k Hk HM Hx. assert (Hp : 0 < 2 ^ k) by (apply Z.pow_pos_nonneg; lia).
  split.
  - apply Z.div_le_lower_bound; auto. nia.
  - apply Z.div_lt_upper_bound; auto. nia.
Qed.
Lemma div_pow2_range0 : forall M x k, 0 <= k -> 0 <= x < M -> 0 <= x / 2 ^ k < M.
Proof.
  intros M x k Hk Hx. assert (Hp : 0 < 2 ^ k) by (apply Z.pow_pos_nonneg; lia).
  split; [apply Z.div_pos; lia|]. apply Z.div_lt_upper_bound; auto. nia.
Qed.
Lemma m32 : forall b, 0 <= b mod 32. Proof. intros; lia. Qed.
Lemma m64 : forall b, 0 <= b mod 64. Proof. intros; lia. Qed.
Lemma amt32 : forall y, (y mod 256) mod 32 = (u32 y) mod 32. Proof. intros; unfold u32, W32; lia. Qed.
Lemma amt32' : forall y, y mod 32 = (u32 y) mod 32. Proof. intros; unfold u32, W32; lia. Qed.
Lemma amt64 : forall y, (y mod 256) mod 64 = y mod 64. Proof. intros; lia. Qed.

Ltac start32 := vok32; do 2 eexists; (split; [reflexivity|]);
  cbv [f_scc shl lshr ashr bin bin_nz scc_nonzero scc_same wrap nz amount bits signed].
Ltac start64 := vok64; do 2 eexists; (split; [reflexivity|]);
  cbv [f_scc shl lshr ashr bin bin_nz scc_nonzero scc_same wrap nz amount bits signed].

Lemma g_sop2_28 : val_ok32 GCN3 28 true.
Proof. start32. rewrite land31, amt32, Z.shiftl_mul_pow2 by apply m32. rewrite u32_u32. split; reflexivity. Qed.
Lemma c_sop2_28 : val_ok32 CDNA3 28 true.
Proof. start32. rewrite land31, Z.shiftl_mul_pow2 by apply m32. rewrite u32_u32, u32_u64, (amt32' y).
  assert (E : u32 (x * 2 ^ (u32 y mod 32)) = (u32 x * 2 ^ (u32 y mod 32)) mod W32).
  { unfold u32. rewrite Z.mul_mod_idemp_l by (unfold W32; lia). reflexivity. }
  rewrite E. split; reflexivity. Qed.
Lemma g_sop2_30 : val_ok32 GCN3 30 true.
Proof. start32. rewrite land31, Z.shiftr_div_pow2 by apply m32.
  pose proof (div_pow2_range0 W32 (u32 x) (u32 y mod 32) (m32 _) (u32_range x)) as Hr.
  rewrite (u32_small _ Hr). split; reflexivity. Qed.
Lemma c_sop2_30 : val_ok32 CDNA3 30 true.
Proof. start32. rewrite land31, (amt32' y), Z.shiftr_div_pow2 by apply m32.
  pose proof (div_pow2_range0 W32 (u32 x) (u32 y mod 32) (m32 _) (u32_range x)) as Hr.
  rewrite (u32_small _ Hr). split; reflexivity. Qed.
Lemma s32_range : forall x, - 2147483648 <= s32 x < 2147483648.
Proof. intros; unfold s32, sx, W32; simpl; case_if; lia. Qed.
Lemma nz_mod32 : forall d, - 2147483648 <= d < 2147483648 -> (d mod W32 =? 0) = (d =? 0).
Proof. intros; unfold W32; lia. Qed.
Lemma g_sop2_32 : val_ok32 GCN3 32 true.
Proof. start32. rewrite land31, amt32, Z.shiftr_div_pow2 by apply m32.
  pose proof (div_pow2_range 2147483648 (s32 x) (u32 y mod 32) (m32 _) ltac:(lia) (s32_range x)) as Hr.
  fold (signed B32 (u32 x)). rewrite <- s32_signed.
  rewrite (nz_mod32 _ Hr). split; [unfold u32; rewrite Z.mod_mod by (unfold W32; lia)|]; reflexivity. Qed.
Lemma c_sop2_32 : val_ok32 CDNA3 32 true.
Proof. start32. rewrite land31, (amt32' y), Z.shiftr_div_pow2 by apply m32.
  fold (signed B32 (u32 x)). rewrite <- s32_signed. rewrite u32_u32. unfold u32 at 1 3. split; reflexivity. Qed.
Lemma g_sop2_29 : val_ok64 GCN3 29.
Proof. start64. rewrite land63, amt64, Z.shiftl_mul_pow2 by apply m64.
  unfold u64. rewrite Z.mod_mod by (unfold W64; lia). split; reflexivity. Qed.
Lemma c_sop2_29 : val_ok64 CDNA3 29.
Proof. start64. rewrite land63, Z.shiftl_mul_pow2 by apply m64.
  unfold u64. rewrite Z.mod_mod by (unfold W64; lia). split; reflexivity. Qed.
Lemma g_sop2_31 : val_ok64 GCN3 31.
Proof. start64. rewrite land63, Z.shiftr_div_pow2 by apply m64.
  pose proof (div_pow2_range0 W64 x (y mod 64) (m64 _) Hx) as Hr.
  unfold u64. rewrite (Z.mod_small _ _ Hr). split; reflexivity. Qed.
Lemma c_sop2_31 : val_ok64 CDNA3 31.
Proof. start64. rewrite land63, Z.shiftr_div_pow2 by apply m64.
  pose proof (div_pow2_range0 W64 x (y mod 64) (m64 _) Hx) as Hr.
  unfold u64. rewrite (Z.mod_small _ _ Hr). split; reflexivity. Qed.
Lemma s64_signed : forall x, 0 <= x < W64 -> s64 x = (if x <? W64 / 2 then x else x - W64).
Proof. intros; unfold s64, sx. rewrite Z.mod_small by lia. reflexivity. Qed.
Lemma c_sop2_33 : val_ok64 CDNA3 33.
Proof. start64. rewrite land63, Z.shiftr_div_pow2 by apply m64. rewrite <- (s64_signed x Hx).
  unfold u64. rewrite Z.mod_mod by (unfold W64; lia). split; reflexivity. Qed.
Lemma g_sop2_34 : val_ok32 GCN3 34 true.
Proof. start32. rewrite !land31, (amt32' x), (amt32' y), !Z.shiftl_mul_pow2 by apply m32.
  rewrite Z.mul_1_l, u32_u64. split; reflexivity. Qed.
Lemma c_sop2_34 : val_ok32 CDNA3 34 true.
Proof. start32. rewrite !land31, (amt32' x), (amt32' y), !Z.shiftl_mul_pow2 by apply m32.
  rewrite Z.mul_1_l, u32_u32, u32_u64. split; reflexivity. Qed.
Lemma g_sop2_36 : val_ok32 GCN3 36 true.
Proof. start32. fold (signed B32 (u32 x)). fold (signed B32 (u32 y)). rewrite <- !s32_signed.
  rewrite u32_u32, u32_s32. split; reflexivity. Qed.
Lemma c_sop2_36 : val_ok32 CDNA3 36 true.
Proof. start32. fold (signed B32 (u32 x)). fold (signed B32 (u32 y)). rewrite <- !s32_signed.
  rewrite u32_u32, u32_s32. split; reflexivity. Qed.
Lemma c_sop2_44 : val_ok32 CDNA3 44 true.
Proof. start32. change 32 with (Z.log2 W32) at 1. 
  pose proof (u32_range x) as Hx'. pose proof (u32_range y) as Hy'.
  assert (Hm : 0 <= u32 x * u32 y < W64) by (unfold W32, W64 in *; nia).
  rewrite Z.shiftr_div_pow2 by (cbn; lia). unfold u64. rewrite (Z.mod_small _ _ Hm).
  change (2 ^ Z.log2 W32) with W32.
  assert (Hd : 0 <= u32 x * u32 y / W32 < W32).
  { split; [apply Z.div_pos; unfold W32 in *; lia|]. apply Z.div_lt_upper_bound; unfold W32, W64 in *; lia. }
  rewrite (u32_small _ Hd). split; [|reflexivity]. symmetry; apply Z.mod_small; exact Hd. Qed.

(** *** S_BFE_U32 *)
Lemma mask64_small : forall w, 0 < w < 64 -> mask64 w = Z.ones w.
Proof.
  intros w Hw. unfold mask64. rewrite Z.shiftl_mul_pow2, Z.mul_1_l by lia.
  assert (H : 0 < 2 ^ w < W64).
  { split; [apply Z.pow_pos_nonneg; lia|]. rewrite W64_pow. apply Z.pow_lt_mono_r; lia. }
  unfold u64. rewrite (Z.mod_small (2 ^ w)) by lia. rewrite Z.mod_small by lia.
  rewrite Z.ones_equiv. lia.
Qed.
Lemma mask64_big : forall w, 64 <= w -> mask64 w = Z.ones 64.
Proof.
  intros w Hw. unfold mask64. rewrite Z.shiftl_mul_pow2, Z.mul_1_l by lia.
  replace w with ((w - 64) + 64) by lia. rewrite Z.pow_add_r by lia.
  unfold u64. rewrite W64_pow. rewrite Z.mod_mul by lia. reflexivity.
Qed.
Lemma c_sop2_37 : val_ok32 CDNA3 37 true.
Proof.
  vok32; do 2 eexists; (split; [reflexivity|]).
  cbv [f_scc bfe32 scc_nonzero nz bfe_off bfe_width andb].
  rewrite land31, land127, (Z.shiftr_div_pow2 _ 16) by lia. change (2 ^ 16) with 65536.
  set (off := u32 y mod 32). set (w := u32 y / 65536 mod 128).
  assert (Hoff : 0 <= off) by (subst off; lia). assert (Hw : 0 <= w < 128) by (subst w; lia).
  rewrite Z.shiftr_div_pow2 by exact Hoff.
  pose proof (div_pow2_range0 W32 (u32 x) off Hoff (u32_range x)) as Hq.
  set (q := u32 x / 2 ^ off) in *.
  destruct (w =? 0) eqn:E0; [split; reflexivity|].
  assert (Hf : Z.land q (mask64 w) = q mod 2 ^ w).
  { destruct (Z.lt_ge_cases w 64) as [Hlt|Hge].
    - rewrite mask64_small by lia. apply Z.land_ones; lia.
    - rewrite mask64_big by lia. rewrite Z.land_ones by lia.
      assert (2 ^ 64 <= 2 ^ w) by (apply Z.pow_le_mono_r; lia).
      rewrite !Z.mod_small; auto; unfold W32 in *; lia. }
  rewrite Hf.
  assert (Hr : 0 <= q mod 2 ^ w < W32).
  { assert (0 < 2 ^ w) by (apply Z.pow_pos_nonneg; lia).
    pose proof (Z.mod_pos_bound q (2 ^ w) H). pose proof (Z.mod_le q (2 ^ w) ltac:(lia) H). lia. }
  split; [reflexivity|]. rewrite (Z.mod_small _ W32) by exact Hr. reflexivity.
Qed.

(** *** S_BFE_I32 (both ALUs run the same repaired computation) *)
Definition sext (P Wd f : Z) : Z := if P <=? f then f - Wd else f.

Lemma bfe_caseB : forall x A Wd N M P f lo hi,
  0 < A -> 0 < N -> 0 < P -> Wd = 2 * P -> M = A * N -> Wd * M = W32 ->
  x = (hi * Wd + f) * A + lo -> 0 <= f < Wd -> 0 <= lo < A ->
  s32 (x * N) / M = sext P Wd f.
Proof.
  intros x A Wd N M P f lo hi HA HN HP HW HM H32 Hx Hf Hlo.
  assert (HMp : 0 < M) by nia.
  set (r := f * M + lo * N).
  assert (Hxn : x * N = r + hi * W32).
  { subst r. rewrite <- H32. subst x M. ring. }
  assert (Hlon : 0 <= lo * N < M) by (subst M; nia).
  assert (Hr : 0 <= r < W32).
  { subst r. rewrite <- H32. split; [nia|].
    assert (f * M <= (Wd - 1) * M) by nia. nia. }
  unfold s32, sx. rewrite Hxn, Z.mod_add by (unfold W32; lia).
  rewrite (Z.mod_small r W32 Hr). unfold sext.
  assert (Hhalf : W32 / 2 = P * M).
  { rewrite <- H32, HW. replace (2 * P * M) with (P * M * 2) by ring. apply Z.div_mul; lia. }
  rewrite Hhalf.
  destruct (P <=? f) eqn:E.
  - assert (P * M <= r) by (subst r; nia).
    replace (r <? P * M) with false by (symmetry; apply Z.ltb_ge; lia).
    symmetry. apply (Z.div_unique_pos _ _ _ (lo * N)); [exact Hlon|].
    subst r. rewrite <- H32. ring.
  - assert (r < P * M).
    { subst r. assert (f <= P - 1) by lia. assert (f * M <= (P - 1) * M) by nia. nia. }
    replace (r <? P * M) with true by (symmetry; apply Z.ltb_lt; lia).
    symmetry. apply (Z.div_unique_pos _ _ _ (lo * N)); [exact Hlon|]. subst r. ring.
Qed.

Lemma sext_id : forall P q, 0 < P -> - P <= q < P -> sext P (2 * P) (q mod (2 * P)) = q.
Proof.
  intros P q HP Hq. unfold sext.
  destruct (Z_lt_le_dec q 0).
  - assert (E : q mod (2 * P) = q + 2 * P).
    { symmetry. apply (Z.mod_unique_pos _ _ (-1)); lia. }
    rewrite E. replace (P <=? q + 2 * P) with true by (symmetry; apply Z.leb_le; lia). lia.
  - rewrite Z.mod_small by lia. replace (P <=? q) with false by (symmetry; apply Z.leb_gt; lia). reflexivity.
Qed.

Lemma bfe_core_value : forall x off w,
  - 2147483648 <= x < 2147483648 -> 0 <= off < 32 -> 0 <= w < 128 ->
  bfe_core x off w = if w =? 0 then 0 else sext (2 ^ (w - 1)) (2 ^ w) ((x / 2 ^ off) mod 2 ^ w).
Proof.
  intros x off w Hx Hoff Hw. unfold bfe_core.
  destruct (w =? 0) eqn:E0; [reflexivity|]. assert (Hw1 : 1 <= w) by lia.
  assert (HA : 0 < 2 ^ off) by (apply Z.pow_pos_nonneg; lia).
  assert (HP : 0 < 2 ^ (w - 1)) by (apply Z.pow_pos_nonneg; lia).
  assert (HWd : 2 ^ w = 2 * 2 ^ (w - 1)).
  { replace w with (Z.succ (w - 1)) at 1 by lia. apply Z.pow_succ_r; lia. }
  destruct (off + w >=? 32) eqn:Eow.
  - rewrite Z.shiftr_div_pow2 by lia. rewrite HWd. symmetry. apply sext_id; auto.
    assert (H31 : 2147483648 = 2 ^ off * 2 ^ (31 - off)).
    { rewrite <- Z.pow_add_r by lia. replace (off + (31 - off)) with 31 by lia. reflexivity. }
    assert (Hle : 2 ^ (31 - off) <= 2 ^ (w - 1)) by (apply Z.pow_le_mono_r; lia).
    assert (Hq : - 2 ^ (31 - off) <= x / 2 ^ off < 2 ^ (31 - off)).
    { split; [apply Z.div_le_lower_bound; auto; nia|apply Z.div_lt_upper_bound; auto; nia]. }
    lia.
  - rewrite Z.shiftl_mul_pow2, Z.shiftr_div_pow2 by lia.
    apply (bfe_caseB x (2 ^ off) (2 ^ w) (2 ^ (32 - off - w)) (2 ^ (32 - w)) (2 ^ (w - 1))
                     ((x / 2 ^ off) mod 2 ^ w) (x mod 2 ^ off) ((x / 2 ^ off) / 2 ^ w)); auto.
    + apply Z.pow_pos_nonneg; lia.
    + rewrite <- Z.pow_add_r by lia. f_equal. lia.
    + rewrite <- Z.pow_add_r by lia. replace (w + (32 - w)) with 32 by lia. reflexivity.
    + rewrite (Z.mul_comm (x / 2 ^ off / 2 ^ w)), <- Z.div_mod by lia.
      rewrite (Z.mul_comm _ (2 ^ off)). apply Z.div_mod; lia.
    + apply Z.mod_pos_bound. apply Z.pow_pos_nonneg; lia.
    + apply Z.mod_pos_bound; auto.
Qed.

Lemma bfe_core_range : forall x off w,
  - 2147483648 <= x < 2147483648 -> 0 <= off -> 0 <= w <= 32 + off + w ->
  - 2147483648 <= bfe_core x off w < 2147483648.
Proof.
  intros x off w Hx Hoff Hw. unfold bfe_core. change (-2147483648) with (- (2147483648)) in *.
  repeat case_if; try lia.
  - rewrite Z.shiftr_div_pow2 by lia. apply div_pow2_range; [lia|lia|exact Hx].
  - rewrite Z.shiftr_div_pow2 by lia. apply div_pow2_range; [lia|lia|apply s32_range].
Qed.

Lemma bfe_i32_value : forall a b,
  let x := s32 a in let off := u32 b mod 32 in let w := (u32 b / 65536) mod 128 in
  bfe_i32_impl a b = if w =? 0 then 0 else sext (2 ^ (w - 1)) (2 ^ w) ((x / 2 ^ off) mod 2 ^ w).
Proof.
  intros a b x off w. unfold bfe_i32_impl.
  rewrite land31, land127, (Z.shiftr_div_pow2 _ 16) by lia. change (2 ^ 16) with 65536.
  fold off. fold w. fold x.
  apply bfe_core_value; [apply s32_range|subst off; lia|subst w; lia].
Qed.

Lemma bfe_i32_range : forall a b, - 2147483648 <= bfe_i32_impl a b < 2147483648.
Proof.
  intros a b. unfold bfe_i32_impl. rewrite land31, land127.
  apply bfe_core_range; [apply s32_range|lia|lia].
Qed.

Lemma bfe_row : forall (st : state) x y, sccbit st -> 0 <= x < W64 -> 0 <= y < W64 ->
  exists f, f_dst (bfe32 true) = Some f /\
  u32 (u32 (bfe_i32_impl x y)) = f (u32 x) (u32 y) (scc st) /\
  nz (bfe_i32_impl x y) = f_scc (bfe32 true) (u32 x) (u32 y) (scc st) (f (u32 x) (u32 y) (scc st)).
Proof.
  intros st x y Hs Hx Hy. eexists. split; [reflexivity|].
  cbv [f_scc bfe32 scc_nonzero bfe_off bfe_width andb]. fold (signed B32 (u32 x)). rewrite <- s32_signed.
  pose proof (bfe_i32_range x y) as Hr. rewrite u32_u32.
  rewrite (bfe_i32_value x y) in *. cbv zeta in *.
  set (w := u32 y / 65536 mod 128) in *. set (q := s32 x / 2 ^ (u32 y mod 32)) in *.
  destruct (w =? 0) eqn:E0; [split; reflexivity|].
  unfold sext in *. destruct (2 ^ (w - 1) <=? q mod 2 ^ w) eqn:E1.
  - unfold u32 at 1. unfold nz. rewrite (nz_mod32 _ Hr). split; reflexivity.
  - unfold u32 at 1. unfold nz. rewrite (nz_mod32 _ Hr). split; reflexivity.
Qed.
Lemma g_sop2_38 : val_ok32 GCN3 38 true.
Proof.
  vok32. do 2 eexists; (split; [reflexivity|]).
  destruct (bfe_row st x y Hscc Hx Hy) as (f & Hf & Hv & Hc). cbn [f_dst] in Hf. inversion Hf; subst f.
  split; [exact Hv|exact Hc].
Qed.
Lemma c_sop2_38 : val_ok32 CDNA3 38 true.
Proof.
  vok32. do 2 eexists; (split; [reflexivity|]).
  destruct (bfe_row st x y Hscc Hx Hy) as (f & Hf & Hv & Hc). cbn [f_dst] in Hf. inversion Hf; subst f.
  split; [exact Hv|exact Hc].
Qed.

(** *** SOP1 *)
Definition h1 (a : arch) := match a with GCN3 => g_sop1 | CDNA3 => c_sop1 end.

Definition val_ok1 (a : arch) (op : Z) : Prop :=
  sop1_cnt op = 0 /\ (op =? 28) = false /\ saveexec_fn op = None /\
  exists r f, sop1_row op = Some r /\ w_src r = B32 /\ w_dst r = B32 /\ f_dst r = Some f /\
  forall st x, sccbit st -> 0 <= x < W64 ->
    exists v c, h1 a op x st = Some (mkS (Some v) c None (pc st)) /\
      u32 v = f (u32 x) 0 (scc st) /\
      c = f_scc r (u32 x) 0 (scc st) (f (u32 x) 0 (scc st)).

Lemma glue_sop1_32 : forall a st i, val_ok1 a (i_op i) -> wf st ->
  i_fmt i = F_SOP1 -> 0 <= i_lit i < W32 -> adm32 true (i_src0 i) -> admd32 (i_dst i) -> agree a st i.
Proof.
  intros a st i (Hc & H28 & Hsx & r & f & Hr & Hws & Hwd & Hf & Hv) Hwf Hfmt Hl H0 Hd.
  destruct (rd32_ok st true _ _ Hwf Hl H0) as (x & Hx1 & Hx2 & Hx3 & _).
  assert (Hscc : sccbit st) by (destruct Hwf as (_&_&_&_&H&_); exact H).
  destruct (Hv st x Hscc Hx3) as (v & c & Hh & Hval & Hcc).
  destruct (wr32_ok st (i_dst i) v Hwf Hd) as (s1 & s2 & Hw1 & Hw2 & Heq).
  unfold agree, exec_scalar, exec_spec. rewrite Hfmt, Hc, H28, Hx1. cbn [bind].
  fold (h1 a). rewrite Hh. cbn [bind]. unfold commit. cbn [r_dst r_exec r_scc r_pc].
  rewrite Hw1, Hsx, Hr. cbn [obind]. rewrite Hws. cbn [src]. rewrite Hx2. cbn [obind].
  unfold run_row. rewrite Hf, Hwd. cbn [dst]. rewrite <- Hval, Hw2.
  do 2 eexists. split; [reflexivity|split; [reflexivity|]].
  rewrite Hcc, Hval. apply state_eq_set_scc_pc; auto.
  apply dst32_frame in Hw2. tauto.
Qed.

Ltac vok1 := split; [reflexivity|]; split; [reflexivity|]; split; [reflexivity|];
  do 2 eexists; split; [reflexivity|]; split; [reflexivity|]; split; [reflexivity|]; split; [reflexivity|];
  intros st x Hscc Hx; unfold h1, c_sop1, g_sop1, dres; cbv beta iota; do 2 eexists; (split; [reflexivity|]);
  cbv [f_scc bin bin_nz scc_nonzero scc_same wrap nz lnot ones signed].

Lemma mov_row : forall x, u32 x = u32 x mod W32. Proof. intros; unfold u32, W32; lia. Qed.
Lemma g_sop1_0 : val_ok1 GCN3 0. Proof. vok1. split; [apply mov_row|reflexivity]. Qed.
Lemma c_sop1_0 : val_ok1 CDNA3 0. Proof. vok1. split; [apply mov_row|reflexivity]. Qed.
Lemma not_row : forall x, u32 (not32 (u32 x)) = (W32 - 1 - u32 x) mod W32 /\
  (if not32 (u32 x) =? 0 then 0 else 1) = (if (W32 - 1 - u32 x) mod W32 =? 0 then 0 else 1).
Proof.
  intros x. pose proof (u32_range x) as H. unfold not32.
  rewrite (u32_small (W32 - 1 - u32 x)) by (unfold W32 in *; lia).
  rewrite (Z.mod_small (W32 - 1 - u32 x)) by (unfold W32 in *; lia). split; reflexivity.
Qed.
Lemma g_sop1_4 : val_ok1 GCN3 4. Proof. vok1. apply not_row. Qed.
Lemma c_sop1_4 : val_ok1 CDNA3 4. Proof. vok1. apply not_row. Qed.
Lemma abs_row : forall X, - 2147483648 <= X < 2147483648 ->
  u32 (if X <? 0 then s32 (- X) else X) = Z.abs X mod W32 /\
  ((if X <? 0 then s32 (- X) else X) =? 0) = (Z.abs X mod W32 =? 0).
Proof.
  intros X H. unfold u32, s32, sx, W32. cbn [Z.div]. split; repeat case_if; try lia.
Qed.
Lemma g_sop1_48 : val_ok1 GCN3 48.
Proof.
  vok1. fold (signed B32 (u32 x)). rewrite <- s32_signed. pose proof (s32_range x) as Hr.
  destruct (abs_row _ Hr) as [E1 E2]. rewrite u32_u32, E1, E2. split; reflexivity.
Qed.

Lemma state_eq_upd3 : forall s1 s2 e c p, state_eq s1 s2 -> pc s2 = p ->
  state_eq (s1 <| exec := e |> <| scc := c |> <| pc := p |>) (s2 <| exec := e |> <| scc := c |>).
Proof. intros s1 s2 e c p (H1&H2&H3&H4&H5&H6&H7&H8&H9) Hp. repeat split; cbn; intros; auto. Qed.
Lemma state_eq_keep : forall s1 s2 st, state_eq s1 s2 -> pc s2 = pc st -> scc s2 = scc st ->
  state_eq (s1 <| scc := scc st |> <| pc := pc st |>) s2.
Proof. intros s1 s2 st (H1&H2&H3&H4&H5&H6&H7&H8&H9) Hp Hc. repeat split; cbn; intros; auto. Qed.

Lemma sop1_mov64_agree : forall a st i, wf st -> i_fmt i = F_SOP1 -> i_op i = 1 ->
  0 <= i_lit i < W32 -> adm64 (i_src0 i) -> admd64 (i_dst i) -> agree a st i.
Proof.
  intros a st i Hwf Hfmt Hop Hl H0 Hd.
  destruct (rd64_ok st _ _ Hwf Hl H0) as (x & Hx1 & Hx2 & Hx3).
  destruct (wr64_ok st (i_dst i) x Hwf Hd) as (s1 & s2 & Hw1 & Hw2 & Heq).
  unfold agree, exec_scalar, exec_spec. rewrite Hfmt, Hop. cbn [sop1_cnt Z.eqb Pos.eqb]. rewrite Hx1. cbn [bind].
  assert (Hh : match a with GCN3 => g_sop1 | CDNA3 => c_sop1 end 1 x st = Some (dres st x (scc st)))
    by (destruct a; reflexivity).
  rewrite Hh. cbn [bind saveexec_fn sop1_row obind bin w_src src]. rewrite Hx2. cbn [obind].
  unfold commit, dres, run_row. cbn [r_dst r_exec r_scc r_pc f_dst w_dst dst wrap f_scc scc_same].
  rewrite Hw1. cbv [bin f_dst w_dst dst wrap f_scc scc_same]. fold (u64 x). rewrite Hw2.
  do 2 eexists. split; [reflexivity|split; [reflexivity|]].
  apply dst64_frame in Hw2. destruct Hw2 as [Hp Hc].
  destruct Heq as (E1&E2&E3&E4&E5&E6&E7&E8&E9). repeat split; cbn; intros; auto.
Qed.

Lemma sop1_getpc_agree : forall a st i, wf st -> i_fmt i = F_SOP1 -> i_op i = 28 ->
  admd64 (i_dst i) -> agree a st i.
Proof.
  intros a st i Hwf Hfmt Hop Hd.
  destruct (wr64_ok st (i_dst i) (pc st) Hwf Hd) as (s1 & s2 & Hw1 & Hw2 & Heq).
  assert (Hpc : u64 (pc st) = pc st).
  { destruct Hwf as (_&_&_&_&_&_&Hp). unfold u64. apply Z.mod_small; exact Hp. }
  rewrite Hpc in Hw2.
  unfold agree, exec_scalar, exec_spec. rewrite Hfmt, Hop. cbn [sop1_cnt Z.eqb Pos.eqb].
  assert (Hh : match a with GCN3 => g_sop1 | CDNA3 => c_sop1 end 28 0 st = Some (dres st (pc st) (scc st)))
    by (destruct a; reflexivity).
  rewrite Hh. cbn [bind]. unfold commit, dres. cbn [r_dst r_exec r_scc r_pc]. rewrite Hw1, Hw2.
  do 2 eexists. split; [reflexivity|split; [reflexivity|]].
  apply dst64_frame in Hw2. destruct Hw2 as [Hp Hc]. apply state_eq_keep; auto.
Qed.

Definition saveexec_ops : list Z := [32; 33; 34; 35; 36; 37; 38; 39].
Lemma sop1_saveexec_agree : forall a st i, wf st -> i_fmt i = F_SOP1 -> In (i_op i) saveexec_ops ->
  0 <= i_lit i < W32 -> adm64 (i_src0 i) -> admd64 (i_dst i) -> agree a st i.
Proof.
  intros a st i Hwf Hfmt Hop Hl H0 Hd.
  destruct (rd64_ok st _ _ Hwf Hl H0) as (x & Hx1 & Hx2 & Hx3).
  destruct (wr64_ok st (i_dst i) (exec st) Hwf Hd) as (s1 & s2 & Hw1 & Hw2 & Heq).
  assert (He : u64 (exec st) = exec st).
  { destruct Hwf as (_&_&He&_). unfold u64. apply Z.mod_small; exact He. }
  rewrite He in Hw2. pose proof (dst64_frame _ _ _ _ Hw2) as [Hp Hc].
  unfold agree, exec_scalar, exec_spec. rewrite Hfmt.
  unfold saveexec_ops in Hop. cbn [In] in Hop.
  repeat (destruct Hop as [Hop|Hop]; [rewrite <- Hop|]); try contradiction;
    cbn [sop1_cnt Z.eqb Pos.eqb]; rewrite Hx1; cbn [bind];
    (assert (Hh : forall op, In op saveexec_ops ->
        match a with GCN3 => g_sop1 | CDNA3 => c_sop1 end op x st =
        Some (mkS (Some (exec st)) (nz (saveexec op x (exec st))) (Some (saveexec op x (exec st))) (pc st)))
      by (intros op Ho; unfold saveexec_ops in Ho; cbn [In] in Ho;
          repeat (destruct Ho as [Ho|Ho]; [rewrite <- Ho; destruct a; reflexivity|]); contradiction));
    rewrite Hh by (unfold saveexec_ops; cbn [In]; tauto); cbn [bind saveexec_fn]; rewrite Hx2; cbn [obind];
    unfold commit; cbn [r_dst r_exec r_scc r_pc]; rewrite Hw1, Hw2; cbn [obind];
    do 2 eexists; (split; [reflexivity|split; [reflexivity|]]);
    unfold saveexec, nz, lnot, not64, ones; apply state_eq_upd3; auto.
Qed.

(** *** SOPK *)
Definition sopk_ops : list Z := [0; 1; 2; 3; 15].
Lemma s16_sext : forall k, 0 <= k < 65536 -> s16 k = simm_sext k.
Proof. intros k H. unfold s16, sx, simm_sext, W16. cbn [Z.div]. rewrite Z.mod_small by lia. reflexivity. Qed.
Lemma admd32_adm32 : forall d, admd32 d -> adm32 false d.
Proof. unfold admd32, adm32; intros; lia. Qed.

Lemma sopk_agree : forall a st i, wf st -> i_fmt i = F_SOPK -> In (i_op i) sopk_ops ->
  admd32 (i_dst i) -> agree a st i.
Proof.
  intros a st i Hwf Hfmt Hop Hd.
  destruct (rd32_ok st false _ 0 Hwf ltac:(unfold W32; lia) (admd32_adm32 _ Hd)) as (x & Hx1 & Hx2 & Hx3 & Hx4).
  specialize (Hx4 eq_refl). rewrite (u32_small x) in Hx2 by lia.
  assert (Hk : 0 <= i_simm i mod 65536 < 65536) by lia.
  pose proof (s16_sext _ Hk) as Hs. set (k := i_simm i mod 65536) in *.
  assert (Hkr : - 32768 <= simm_sext k <= 32767) by (unfold simm_sext; case_if; lia).
  assert (Hscc : sccbit st) by (destruct Hwf as (_&_&_&_&H&_); exact H).
  assert (Hv1 : u32 (u64 (s16 k)) = simm_sext k mod W32) by (rewrite u32_u64, Hs; reflexivity).
  assert (Hv2 : u32 (u32 (s16 k)) = simm_sext k mod W32) by (rewrite u32_u32, Hs; reflexivity).
  assert (Hm1 : u32 (u64 (s32 (s16 k * s32 x))) = (signed B32 x * simm_sext k) mod W32).
  { rewrite u32_u64, u32_s32, Hs, s32_signed, (u32_small x) by lia. unfold u32. f_equal. lia. }
  assert (Hm2 : u32 (u32 (s32 (s32 x * s16 k))) = (signed B32 x * simm_sext k) mod W32).
  { rewrite u32_u32, u32_s32, Hs, s32_signed, (u32_small x) by lia. reflexivity. }
  assert (Hc : s32 x = signed B32 x) by (rewrite s32_signed, (u32_small x) by lia; reflexivity).
  unfold agree, exec_scalar, exec_spec. rewrite Hfmt, land_ffff. fold k.
  unfold sopk_ops in Hop. cbn [In] in Hop.
  destruct a; repeat (destruct Hop as [Hop|Hop]; [rewrite <- Hop|]); try contradiction;
    cbn [Z.eqb Pos.eqb orb]; rewrite ?Hx1; unfold g_sopk, c_sopk, dres, cres, keep; cbv beta iota;
    repeat case_if; cbn [bind obind]; rewrite ?Hx2; cbn [obind]; unfold commit; cbn [r_dst r_exec r_scc r_pc].
  all: try match goal with |- context [wr ?s ?d 0 ?v] =>
         destruct (wr32_ok s d v Hwf Hd) as (s1 & s2 & Hw1 & Hw2 & Heq); rewrite Hw1;
         rewrite ?Hv1, ?Hv2, ?Hm1, ?Hm2 in Hw2; rewrite Hw2;
         pose proof (dst32_frame _ _ _ _ Hw2) as [Hp Hcc] end.
  all: do 2 eexists; (split; [reflexivity|split; [reflexivity|]]).
  all: try (apply state_eq_keep; auto).
  all: try (apply state_eq_keep; [apply state_eq_refl|reflexivity|reflexivity]).
  all: rewrite ?Hc, ?Hs; unfold b2z; repeat split; cbn; intros; auto; repeat case_if; try lia.
Qed.


(** ** format-level theorems *)
Definition sop2_rows32 (a : arch) : list Z :=
  match a with
  | GCN3 => [0; 1; 2; 3; 4; 5; 6; 7; 8; 9; 10; 12; 16; 28; 30; 32; 34; 36; 38]
  | CDNA3 => [0; 1; 2; 3; 4; 5; 6; 7; 8; 9; 10; 12; 14; 16; 18; 20; 28; 30; 32; 34; 36; 37; 38; 44]
  end.
Definition sop2_rows64 (a : arch) : list Z :=
  match a with
  | GCN3 => [13; 15; 17; 19; 29; 31]
  | CDNA3 => [11; 13; 15; 17; 19; 21; 29; 31; 33]
  end.
Definition sop1_rows32 (a : arch) : list Z :=
  match a with GCN3 => [0; 4; 48] | CDNA3 => [0; 4] end.

Lemma sop2_32_agree : forall a st i, In (i_op i) (sop2_rows32 a) -> wf st ->
  i_fmt i = F_SOP2 -> 0 <= i_lit i < W32 ->
  adm32 true (i_src0 i) -> adm32 true (i_src1 i) -> admd32 (i_dst i) -> agree a st i.
Proof.
  intros a st i Hop Hwf Hfmt Hl H0 H1 Hd.
  apply (glue_sop2_32 a st i true); auto.
  destruct a; unfold sop2_rows32 in Hop; cbn [In] in Hop;
    repeat (destruct Hop as [Hop|Hop]; [rewrite <- Hop|]); try contradiction.
  exact g_sop2_0. exact g_sop2_1. exact g_sop2_2. exact g_sop2_3. exact g_sop2_4. exact g_sop2_5.
  exact g_sop2_6. exact g_sop2_7. exact g_sop2_8. exact g_sop2_9. exact g_sop2_10. exact g_sop2_12.
  exact g_sop2_16. exact g_sop2_28. exact g_sop2_30. exact g_sop2_32. exact g_sop2_34. exact g_sop2_36.
  exact g_sop2_38.
  exact c_sop2_0. exact c_sop2_1. exact c_sop2_2. exact c_sop2_3. exact c_sop2_4. exact c_sop2_5.
  exact c_sop2_6. exact c_sop2_7. exact c_sop2_8. exact c_sop2_9. exact c_sop2_10. exact c_sop2_12.
  exact c_sop2_14. exact c_sop2_16. exact c_sop2_18. exact c_sop2_20. exact c_sop2_28. exact c_sop2_30.
  exact c_sop2_32. exact c_sop2_34. exact c_sop2_36. exact c_sop2_37. exact c_sop2_38. exact c_sop2_44.
Qed.

Lemma sop2_64_agree : forall a st i, In (i_op i) (sop2_rows64 a) -> wf st ->
  i_fmt i = F_SOP2 -> 0 <= i_lit i < W32 ->
  adm64 (i_src0 i) -> adm64 (i_src1 i) -> admd64 (i_dst i) -> agree a st i.
Proof.
  intros a st i Hop Hwf Hfmt Hl H0 H1 Hd.
  apply (glue_sop2_64 a st i); auto.
  destruct a; unfold sop2_rows64 in Hop; cbn [In] in Hop;
    repeat (destruct Hop as [Hop|Hop]; [rewrite <- Hop|]); try contradiction.
  exact g_sop2_13. exact g_sop2_15. exact g_sop2_17. exact g_sop2_19. exact g_sop2_29. exact g_sop2_31.
  exact c_sop2_11. exact c_sop2_13. exact c_sop2_15. exact c_sop2_17. exact c_sop2_19. exact c_sop2_21.
  exact c_sop2_29. exact c_sop2_31. exact c_sop2_33.
Qed.

Lemma sop1_32_agree : forall a st i, In (i_op i) (sop1_rows32 a) -> wf st ->
  i_fmt i = F_SOP1 -> 0 <= i_lit i < W32 -> adm32 true (i_src0 i) -> admd32 (i_dst i) -> agree a st i.
Proof.
  intros a st i Hop Hwf Hfmt Hl H0 Hd.
  apply (glue_sop1_32 a st i); auto.
  destruct a; unfold sop1_rows32 in Hop; cbn [In] in Hop;
    repeat (destruct Hop as [Hop|Hop]; [rewrite <- Hop|]); try contradiction.
  exact g_sop1_0. exact g_sop1_4. exact g_sop1_48. exact c_sop1_0. exact c_sop1_4.
Qed.
