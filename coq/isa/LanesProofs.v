(** Proofs about the lane combinator of Lanes.v. *)
From Coq Require Import List NArith Bool Arith Lia.
From VIsa Require Import Lanes LanesCorr.
Import ListNotations.
Open Scope N_scope.

(* the proofs never depend on the number of lanes *)
Global Opaque NL.

(** ** Bits *)

Lemma set_bit_opt_spec : forall a i b m,
  N.testbit (set_bit_opt a i b) m =
  if N.eqb (N.of_nat i) m then match b with Some x => x | None => N.testbit a m end else N.testbit a m.
Proof.
  intros a i b m. unfold set_bit_opt. destruct b as [[|]|].
  - rewrite N.setbit_eqb. destruct (N.eqb (N.of_nat i) m); reflexivity.
  - rewrite N.clearbit_eqb. destruct (N.eqb (N.of_nat i) m); cbn; [apply andb_false_r|apply andb_true_r].
  - destruct (N.eqb (N.of_nat i) m); reflexivity.
Qed.

Lemma mask_fold_S : forall g n a, mask_fold g (S n) a = set_bit_opt (mask_fold g n a) n (g n).
Proof. intros. unfold mask_fold. rewrite seq_S, fold_left_app. reflexivity. Qed.

Lemma mask_fold_out : forall g n a m,
  (forall j, (j < n)%nat -> N.of_nat j <> m) -> N.testbit (mask_fold g n a) m = N.testbit a m.
Proof.
  induction n; intros a m H; [reflexivity|].
  rewrite mask_fold_S, set_bit_opt_spec.
  destruct (N.eqb_spec (N.of_nat n) m) as [E|E].
  - exfalso. apply (H n); [lia|exact E].
  - apply IHn. intros j Hj. apply H. lia.
Qed.

Lemma mask_fold_in : forall g n a j, (j < n)%nat ->
  N.testbit (mask_fold g n a) (N.of_nat j) =
  match g j with Some b => b | None => N.testbit a (N.of_nat j) end.
Proof.
  induction n; intros a j Hj; [lia|].
  rewrite mask_fold_S, set_bit_opt_spec.
  destruct (N.eqb_spec (N.of_nat n) (N.of_nat j)) as [E|E].
  - apply Nat2N.inj in E. subst j. destruct (g n); [reflexivity|].
    apply mask_fold_out. intros k Hk E. apply Nat2N.inj in E. lia.
  - apply IHn. assert (n <> j) by (intros ->; apply E; reflexivity). lia.
Qed.

Lemma perm_mask_spec : forall p' m j, (j < NL)%nat ->
  N.testbit (perm_mask p' m) (N.of_nat j) = N.testbit m (N.of_nat (p' j)).
Proof. intros. unfold perm_mask. rewrite mask_fold_in by assumption. reflexivity. Qed.

Lemma pair_val_supd_pair : forall s n v, pair_val (supd_pair s n v) n = v.
Proof.
  intros. unfold pair_val, supd_pair, supd.
  rewrite Nat.eqb_refl. replace (Nat.eqb n (S n)) with false by (symmetry; apply Nat.eqb_neq; lia).
  rewrite Nat.eqb_refl. rewrite N.add_comm. symmetry. apply N.div_mod'.
Qed.

Lemma supd_pair_other : forall s n v r, in_pair n r = false -> supd_pair s n v r = s r.
Proof.
  intros s n v r H. unfold in_pair in H. apply orb_false_iff in H. destruct H as [H1 H2].
  unfold supd_pair, supd. rewrite H2, H1. reflexivity.
Qed.

(** ** Register rows and memory *)

Lemma apply_writes_ext : forall ws r r', (forall k, r k = r' k) ->
  forall k, apply_writes ws r k = apply_writes ws r' k.
Proof.
  induction ws as [|w ws IH]; intros r r' H k; cbn; [apply H|].
  apply IH. intros x. unfold rupd. destruct (Nat.eqb x (fst w)); [reflexivity|apply H].
Qed.

Lemma apply_stores_ext : forall ws m m', (forall a, m a = m' a) ->
  forall a, apply_stores ws m a = apply_stores ws m' a.
Proof.
  induction ws as [|w ws IH]; intros m m' H a; cbn; [apply H|].
  apply IH. intros x. unfold mupd. destruct (N.eqb x (fst w)); [reflexivity|apply H].
Qed.

Lemma apply_stores_notin : forall ws m a, ~ In a (addrs ws) -> apply_stores ws m a = m a.
Proof.
  induction ws as [|w ws IH]; intros m a H; cbn; [reflexivity|].
  cbn in H. rewrite IH by tauto. unfold mupd.
  destruct (N.eqb_spec a (fst w)); [exfalso; apply H; left; congruence|reflexivity].
Qed.

Lemma apply_stores_indep : forall ws m m' a, In a (addrs ws) -> apply_stores ws m a = apply_stores ws m' a.
Proof.
  induction ws as [|w ws IH]; intros m m' a H; cbn in *; [tauto|].
  destruct (in_dec N.eq_dec a (addrs ws)) as [Hin|Hn].
  - apply IH. exact Hin.
  - rewrite !apply_stores_notin by exact Hn. unfold mupd.
    destruct H as [H|H]; [|tauto]. subst a. rewrite N.eqb_refl. reflexivity.
Qed.

Lemma stores_fold_snoc : forall w ls x m, stores_fold w (ls ++ [x]) m = apply_stores (w x) (stores_fold w ls m).
Proof. intros. unfold stores_fold. rewrite fold_left_app. reflexivity. Qed.

Lemma stores_fold_notin : forall w ls m a,
  (forall i, In i ls -> ~ In a (addrs (w i))) -> stores_fold w ls m a = m a.
Proof.
  intros w ls. induction ls as [|x ls IH] using rev_ind; intros m a H; [reflexivity|].
  rewrite stores_fold_snoc, apply_stores_notin.
  - apply IH. intros i Hi. apply H. apply in_or_app. tauto.
  - apply H. apply in_or_app. right. left. reflexivity.
Qed.

Lemma stores_fold_in : forall w ls m a i,
  In i ls -> In a (addrs (w i)) -> (forall j, In j ls -> j <> i -> ~ In a (addrs (w j))) ->
  stores_fold w ls m a = apply_stores (w i) m a.
Proof.
  intros w ls. induction ls as [|x ls IH] using rev_ind; intros m a i Hi Ha Ho; [destruct Hi|].
  rewrite stores_fold_snoc. destruct (Nat.eq_dec x i) as [->|Hx].
  - apply apply_stores_indep. exact Ha.
  - rewrite apply_stores_notin.
    + apply IH; auto.
      * apply in_app_or in Hi. destruct Hi as [Hi|[Hi|[]]]; [exact Hi|congruence].
      * intros j Hj. apply Ho. apply in_or_app. tauto.
    + apply Ho; [apply in_or_app; right; left; reflexivity|exact Hx].
Qed.

Lemma stores_fold_ext : forall w w' ls m m',
  (forall a, m a = m' a) -> (forall i, In i ls -> w i = w' i) ->
  forall a, stores_fold w ls m a = stores_fold w' ls m' a.
Proof.
  intros w w' ls. induction ls as [|x ls IH] using rev_ind; intros m m' Hm Hw a; [apply Hm|].
  rewrite !stores_fold_snoc. rewrite <- Hw by (apply in_or_app; right; left; reflexivity).
  apply apply_stores_ext. intros b. apply IH; auto. intros i Hi. apply Hw. apply in_or_app. tauto.
Qed.

Lemma stores_fold_nil : forall w ls m, (forall i, In i ls -> w i = []) -> forall a, stores_fold w ls m a = m a.
Proof.
  intros. apply stores_fold_notin. intros i Hi. rewrite H by exact Hi. intros [].
Qed.

(** ** Fields of a state after [write_dst] *)

Lemma wd_vgpr : forall d acc s, vgpr (write_dst d acc s) = vgpr s.
Proof. intros. unfold write_dst. destruct (d_dst d); reflexivity. Qed.
Lemma wd_gmem : forall d acc s, gmem (write_dst d acc s) = gmem s.
Proof. intros. unfold write_dst. destruct (d_dst d); reflexivity. Qed.
Lemma wd_lds : forall d acc s, lds (write_dst d acc s) = lds s.
Proof. intros. unfold write_dst. destruct (d_dst d); reflexivity. Qed.
Lemma wd_trace : forall d acc s, trace (write_dst d acc s) = trace s.
Proof. intros. unfold write_dst. destruct (d_dst d); reflexivity. Qed.
Lemma wd_scc : forall d acc s, scc (write_dst d acc s) = scc s /\ m0 (write_dst d acc s) = m0 s.
Proof. intros. unfold write_dst. destruct (d_dst d); split; reflexivity. Qed.
Lemma wd_exec : forall d acc s, exec (write_dst d acc s) = match d_dst d with DExec => acc | _ => exec s end.
Proof. intros. unfold write_dst. destruct (d_dst d); reflexivity. Qed.
Lemma wd_vcc : forall d acc s, vcc (write_dst d acc s) = match d_dst d with DVcc => acc | _ => vcc s end.
Proof. intros. unfold write_dst. destruct (d_dst d); reflexivity. Qed.
Lemma wd_sgpr : forall d acc s, sgpr (write_dst d acc s) = match d_dst d with DSgpr n => supd_pair (sgpr s) n acc | _ => sgpr s end.
Proof. intros. unfold write_dst. destruct (d_dst d); reflexivity. Qed.

Lemma wd_dst_val : forall d acc s, d_dst d <> DNone -> dst_val d (write_dst d acc s) = acc.
Proof.
  intros d acc s H. unfold dst_val, write_dst. destruct (d_dst d); cbn; try reflexivity; [congruence|].
  apply pair_val_supd_pair.
Qed.

(** pointwise equality of states *)
Definition veq (a b : vstate) : Prop :=
  (forall i r, vgpr a i r = vgpr b i r) /\ (forall r, sgpr a r = sgpr b r) /\
  exec a = exec b /\ vcc a = vcc b /\ scc a = scc b /\ m0 a = m0 b /\
  (forall x, gmem a x = gmem b x) /\ (forall x, lds a x = lds b x) /\ trace a = trace b.

Lemma write_dst_veq : forall d acc a b, veq a b -> veq (write_dst d acc a) (write_dst d acc b).
Proof.
  intros d acc a b (Hv & Hs & He & Hc & Hscc & Hm & Hg & Hl & Ht).
  unfold write_dst. destruct (d_dst d); unfold veq; cbn; repeat split; auto.
  intros r. unfold supd_pair, supd. repeat destruct (Nat.eqb r _); auto.
Qed.

(** ** The sequential loop equals the lift *)

Lemma loop_run_S : forall d st n,
  loop_run d st (S n) = lane_step d (hide (d_src d) (sgpr st)) (exec st) (src_val d st) (loop_run d st n) n.
Proof. intros. unfold loop_run. rewrite seq_S, fold_left_app. reflexivity. Qed.

Definition loop_inv (d : desc) (st : vstate) (n : nat) (ls : loopst) : Prop :=
  (forall j r, l_vg ls j r =
     if Nat.ltb j n && active (exec st) j then apply_writes (lo_wr (out_at d st j)) (vgpr st j) r else vgpr st j r) /\
  l_acc ls = mask_fold (lift_bit d st) n (acc0 d st) /\
  (forall a, l_gm ls a = stores_fold (lift_gst d st) (seq 0 n) (gmem st) a) /\
  (forall a, l_lds ls a = stores_fold (lift_lst d st) (seq 0 n) (lds st) a) /\
  l_tr ls = trace st ++ flat_map (lift_tr d st) (seq 0 n).

Lemma flat_map_snoc : forall (A B : Type) (f : A -> list B) l x, flat_map f (l ++ [x]) = flat_map f l ++ f x.
Proof. intros. rewrite flat_map_app. cbn. rewrite app_nil_r. reflexivity. Qed.

Lemma loop_inv_holds : forall d st, fn_ext (d_f d) -> ld_or_st (d_f d) ->
  (d_from_acc d = true -> acc0 d st = src_val d st) ->
  forall n, loop_inv d st n (loop_run d st n).
Proof.
  intros d st Hext Hls Hacc. induction n as [|n IH].
  - unfold loop_inv, loop_run. cbn. repeat split; auto. rewrite app_nil_r. reflexivity.
  - rewrite loop_run_S. destruct IH as (Hv & Ha & Hg & Hl & Ht).
    set (ls := loop_run d st n) in *. unfold lane_step.
    destruct (active (exec st) n) eqn:En.
    + (* the running lane sees what it would have seen in the initial state *)
      assert (Ho : d_f d (hide (d_src d) (sgpr st)) (l_gm ls) (l_lds ls)
                     (mkLI (l_vg ls n) (N.testbit (if d_from_acc d then l_acc ls else src_val d st) (N.of_nat n)))
                   = out_at d st n).
      { unfold out_at.
        assert (Hb : N.testbit (if d_from_acc d then l_acc ls else src_val d st) (N.of_nat n)
                     = N.testbit (src_val d st) (N.of_nat n)).
        { destruct (d_from_acc d) eqn:Ef; [|reflexivity].
          rewrite Ha, mask_fold_out, Hacc by (auto; intros k Hk E; apply Nat2N.inj in E; lia). reflexivity. }
        rewrite Hb.
        assert (Hrow : forall k, l_vg ls n k = vgpr st n k).
        { intros k. rewrite Hv. rewrite Nat.ltb_irrefl. reflexivity. }
        destruct Hls as [Hst|Hld].
        - rewrite (Hst _ _ _ (gmem st) (lds st)). apply Hext; auto.
        - apply Hext; auto.
          + intros a. rewrite Hg. apply stores_fold_nil. intros i _. unfold lift_gst.
            destruct (active (exec st) i); [apply Hld|reflexivity].
          + intros a. rewrite Hl. apply stores_fold_nil. intros i _. unfold lift_lst.
            destruct (active (exec st) i); [apply Hld|reflexivity]. }
      rewrite Ho. unfold loop_inv. cbn [l_vg l_acc l_gm l_lds l_tr]. repeat split.
      * intros j r. destruct (Nat.eqb_spec j n) as [->|Hj].
        -- replace (Nat.ltb n (S n)) with true by (symmetry; apply Nat.ltb_lt; lia). rewrite En. cbn. apply apply_writes_ext. intros k. rewrite Hv, Nat.ltb_irrefl. reflexivity.
        -- rewrite Hv. replace (Nat.ltb j (S n)) with (Nat.ltb j n); [reflexivity|].
           destruct (Nat.ltb_spec j n), (Nat.ltb_spec j (S n)); try reflexivity; lia.
      * rewrite mask_fold_S, Ha. f_equal. unfold lift_bit. rewrite En. reflexivity.
      * intros a. rewrite seq_S, stores_fold_snoc, Nat.add_0_l.
        replace (lift_gst d st n) with (lo_gst (out_at d st n)) by (unfold lift_gst; rewrite En; reflexivity).
        apply apply_stores_ext. exact Hg.
      * intros a. rewrite seq_S, stores_fold_snoc, Nat.add_0_l.
        replace (lift_lst d st n) with (lo_lst (out_at d st n)) by (unfold lift_lst; rewrite En; reflexivity).
        apply apply_stores_ext. exact Hl.
      * rewrite seq_S, flat_map_snoc, Ht, app_assoc, Nat.add_0_l. f_equal. unfold lift_tr. rewrite En. reflexivity.
    + unfold loop_inv. repeat split.
      * intros j r. rewrite Hv. destruct (Nat.eqb_spec j n) as [->|Hj].
        -- rewrite En, !andb_false_r. reflexivity.
        -- replace (Nat.ltb j (S n)) with (Nat.ltb j n); [reflexivity|].
           destruct (Nat.ltb_spec j n), (Nat.ltb_spec j (S n)); try reflexivity; lia.
      * rewrite mask_fold_S, Ha. replace (lift_bit d st n) with (@None bool) by (unfold lift_bit; rewrite En; reflexivity). reflexivity.
      * intros a. rewrite seq_S, stores_fold_snoc, Nat.add_0_l.
        replace (lift_gst d st n) with (@nil (N * N)) by (unfold lift_gst; rewrite En; reflexivity). apply Hg.
      * intros a. rewrite seq_S, stores_fold_snoc, Nat.add_0_l.
        replace (lift_lst d st n) with (@nil (N * N)) by (unfold lift_lst; rewrite En; reflexivity). apply Hl.
      * rewrite seq_S, flat_map_snoc, Ht, Nat.add_0_l.
        replace (lift_tr d st n) with (@nil access) by (unfold lift_tr; rewrite En; reflexivity). rewrite app_nil_r. reflexivity.
Qed.

Theorem seq_loop_veq_lift : forall d st, fn_ext (d_f d) -> ld_or_st (d_f d) ->
  (d_from_acc d = true -> acc0 d st = src_val d st) ->
  veq (seq_loop d st) (vec_lift d st).
Proof.
  intros d st Hext Hls Hacc. destruct (loop_inv_holds d st Hext Hls Hacc NL) as (Hv & Ha & Hg & Hl & Ht).
  unfold seq_loop, vec_lift. rewrite Ha. fold (lift_mask d st). apply write_dst_veq.
  unfold veq; cbn. repeat split; auto.
  intros i r. rewrite Hv. unfold lift_vgpr. destruct (Nat.ltb i NL && active (exec st) i); reflexivity.
Qed.

(** ** Inactive lanes *)

Lemma lift_mask_inactive : forall d st i, active (exec st) i = false ->
  N.testbit (lift_mask d st) (N.of_nat i) = N.testbit (acc0 d st) (N.of_nat i).
Proof.
  intros d st i H. unfold lift_mask. destruct (Nat.ltb_spec i NL) as [Hi|Hi].
  - rewrite mask_fold_in by exact Hi. unfold lift_bit. rewrite H. reflexivity.
  - apply mask_fold_out. intros j Hj E. apply Nat2N.inj in E. lia.
Qed.

Lemma lift_mask_active : forall d st i, (i < NL)%nat -> active (exec st) i = true ->
  N.testbit (lift_mask d st) (N.of_nat i) =
  match lo_bit (out_at d st i) with Some b => b | None => N.testbit (acc0 d st) (N.of_nat i) end.
Proof. intros d st i Hi H. unfold lift_mask. rewrite mask_fold_in by exact Hi. unfold lift_bit. rewrite H. reflexivity. Qed.

Lemma lift_mask_high : forall d st m, N.of_nat NL <= m -> N.testbit (lift_mask d st) m = N.testbit (acc0 d st) m.
Proof. intros d st m H. apply mask_fold_out. intros j Hj E. lia. Qed.

Lemma vec_lift_vgpr_inactive : forall d st i r, active (exec st) i = false -> vgpr (vec_lift d st) i r = vgpr st i r.
Proof. intros. unfold vec_lift. rewrite wd_vgpr. cbn. unfold lift_vgpr. rewrite H, andb_false_r. reflexivity. Qed.

Lemma vec_lift_vgpr_beyond : forall d st i r, (NL <= i)%nat -> vgpr (vec_lift d st) i r = vgpr st i r.
Proof.
  intros. unfold vec_lift. rewrite wd_vgpr. cbn. unfold lift_vgpr.
  replace (Nat.ltb i NL) with false by (symmetry; apply Nat.ltb_ge; lia). reflexivity.
Qed.

Lemma lane_trace_lane : forall i o x, In x (lane_trace i o) -> a_lane x = i.
Proof.
  intros i o x H. unfold lane_trace in H. repeat (apply in_app_or in H; destruct H as [H|H]);
    apply in_map_iff in H; destruct H as (y & <- & _); reflexivity.
Qed.

Lemma vec_lift_trace : forall d st x, In x (trace (vec_lift d st)) ->
  In x (trace st) \/ ((a_lane x < NL)%nat /\ active (exec st) (a_lane x) = true).
Proof.
  intros d st x H. unfold vec_lift in H. rewrite wd_trace in H. cbn in H.
  apply in_app_or in H. destruct H as [H|H]; [left; exact H|right].
  apply in_flat_map in H. destruct H as (i & Hi & Hx). apply in_seq in Hi. unfold lift_tr in Hx.
  destruct (active (exec st) i) eqn:E; [|destruct Hx].
  apply lane_trace_lane in Hx. subst i. split; [lia|exact E].
Qed.

Lemma vec_lift_gmem_frame : forall d st a,
  (forall i, (i < NL)%nat -> active (exec st) i = true -> ~ In a (addrs (lo_gst (out_at d st i)))) ->
  gmem (vec_lift d st) a = gmem st a.
Proof.
  intros d st a H. unfold vec_lift. rewrite wd_gmem. cbn. apply stores_fold_notin.
  intros i Hi. apply in_seq in Hi. unfold lift_gst. destruct (active (exec st) i) eqn:E; [apply H; [lia|exact E]|intros []].
Qed.

Lemma vec_lift_lds_frame : forall d st a,
  (forall i, (i < NL)%nat -> active (exec st) i = true -> ~ In a (addrs (lo_lst (out_at d st i)))) ->
  lds (vec_lift d st) a = lds st a.
Proof.
  intros d st a H. unfold vec_lift. rewrite wd_lds. cbn. apply stores_fold_notin.
  intros i Hi. apply in_seq in Hi. unfold lift_lst. destruct (active (exec st) i) eqn:E; [apply H; [lia|exact E]|intros []].
Qed.

(** ** Equivariance *)

Section Equivariance.
Variables (p p' : nat -> nat) (d : desc) (st st' : vstate).
Hypothesis Hp : is_perm p p'.
Hypothesis Hext : fn_ext (d_f d).
Hypothesis Hrel : perm_rel p d st st'.

Lemma p_lt : forall i, (i < NL)%nat -> (p i < NL)%nat.
Proof. intros i Hi. apply (proj1 Hp i Hi). Qed.

Lemma out_at_perm : forall i, (i < NL)%nat -> out_at d st' (p i) = out_at d st i.
Proof.
  intros i Hi. unfold out_at. pose proof (pr_src _ _ _ _ Hrel i Hi) as Hs. unfold active in Hs. rewrite Hs.
  apply Hext.
  - apply (pr_uni _ _ _ _ Hrel).
  - apply (pr_gmem _ _ _ _ Hrel).
  - apply (pr_lds _ _ _ _ Hrel).
  - intros k. apply (pr_vgpr _ _ _ _ Hrel). exact Hi.
Qed.

Lemma lift_vgpr_perm : forall i r, (i < NL)%nat -> lift_vgpr d st' (p i) r = lift_vgpr d st i r.
Proof.
  intros i r Hi. unfold lift_vgpr. rewrite (pr_exec _ _ _ _ Hrel i Hi), out_at_perm by exact Hi.
  replace (Nat.ltb (p i) NL) with true by (symmetry; apply Nat.ltb_lt; apply p_lt; exact Hi).
  replace (Nat.ltb i NL) with true by (symmetry; apply Nat.ltb_lt; exact Hi).
  cbn. destruct (active (exec st) i).
  - apply apply_writes_ext. intros k. apply (pr_vgpr _ _ _ _ Hrel). exact Hi.
  - apply (pr_vgpr _ _ _ _ Hrel). exact Hi.
Qed.

Lemma lift_mask_perm : forall i, (i < NL)%nat ->
  active (lift_mask d st') (p i) = active (lift_mask d st) i.
Proof.
  intros i Hi. unfold active, lift_mask. rewrite !mask_fold_in by (try apply p_lt; exact Hi).
  unfold lift_bit. rewrite (pr_exec _ _ _ _ Hrel i Hi), out_at_perm by exact Hi.
  pose proof (pr_acc _ _ _ _ Hrel i Hi) as Ha. unfold active in Ha. rewrite Ha. reflexivity.
Qed.

Theorem vec_lift_perm_out : perm_out p d (vec_lift d st) (vec_lift d st').
Proof.
  constructor.
  - intros i r Hi. unfold vec_lift. rewrite !wd_vgpr. cbn. apply lift_vgpr_perm. exact Hi.
  - intros i Hi. unfold vec_lift. rewrite !wd_exec. cbn.
    destruct (d_dst d); try apply (pr_exec _ _ _ _ Hrel i Hi). apply lift_mask_perm. exact Hi.
  - intros i Hi. unfold vec_lift. rewrite !wd_vcc. cbn.
    destruct (d_dst d); try apply (pr_vcc _ _ _ _ Hrel i Hi). apply lift_mask_perm. exact Hi.
  - intros i Hi. destruct (d_dst d) eqn:E.
    + unfold dst_val. rewrite E. reflexivity.
    + unfold vec_lift. rewrite !wd_dst_val by congruence. apply lift_mask_perm. exact Hi.
    + unfold vec_lift. rewrite !wd_dst_val by congruence. apply lift_mask_perm. exact Hi.
    + unfold vec_lift. rewrite !wd_dst_val by congruence. apply lift_mask_perm. exact Hi.
  - intros r Hd Hs. unfold vec_lift. rewrite !wd_sgpr. cbn.
    pose proof (pr_uni _ _ _ _ Hrel r) as Hu. unfold hide in Hu. unfold in_src in Hs. unfold in_dst in Hd.
    destruct (d_src d) eqn:Es; destruct (d_dst d) eqn:Ed; try rewrite !supd_pair_other by exact Hd;
      try exact Hu; rewrite Hs in Hu; exact Hu.
  - unfold vec_lift. pose proof (wd_scc d (lift_mask d st')) as H1. pose proof (wd_scc d (lift_mask d st)) as H2.
    destruct (pr_scal _ _ _ _ Hrel) as [Hc Hm]. split.
    + rewrite (proj1 (H1 _)), (proj1 (H2 _)). exact Hc.
    + rewrite (proj2 (H1 _)), (proj2 (H2 _)). exact Hm.
Qed.

Lemma lift_gst_perm : forall i, (i < NL)%nat -> lift_gst d st' (p i) = lift_gst d st i.
Proof. intros i Hi. unfold lift_gst. rewrite (pr_exec _ _ _ _ Hrel i Hi), out_at_perm by exact Hi. reflexivity. Qed.
Lemma lift_lst_perm : forall i, (i < NL)%nat -> lift_lst d st' (p i) = lift_lst d st i.
Proof. intros i Hi. unfold lift_lst. rewrite (pr_exec _ _ _ _ Hrel i Hi), out_at_perm by exact Hi. reflexivity. Qed.

Lemma exists_lt_dec : forall (P : nat -> Prop) n, (forall i, {P i} + {~ P i}) ->
  {i | (i < n)%nat /\ P i} + {forall i, (i < n)%nat -> ~ P i}.
Proof.
  intros P n Hdec. induction n as [|n IH].
  - right. intros i Hi. lia.
  - destruct IH as [(i & Hi & Hpi)|Hn].
    + left. exists i. split; [lia|exact Hpi].
    + destruct (Hdec n) as [Hy|Hno].
      * left. exists n. split; [lia|exact Hy].
      * right. intros i Hi. destruct (Nat.eq_dec i n) as [->|Hne]; [exact Hno|apply Hn; lia].
Qed.

(** generic: two store families related by the permutation give the same memory *)
Lemma stores_fold_perm : forall (w w' : nat -> list (N * N)) m m',
  (forall a, m' a = m a) -> (forall i, (i < NL)%nat -> w' (p i) = w i) -> distinct_stores w ->
  forall a, stores_fold w' (seq 0 NL) m' a = stores_fold w (seq 0 NL) m a.
Proof.
  intros w w' m m' Hm Hw Hdis a.
  assert (Hw' : forall j, (j < NL)%nat -> w' j = w (p' j)).
  { intros j Hj. destruct (proj2 Hp j Hj) as [Hl He]. rewrite <- (Hw (p' j) Hl), He. reflexivity. }
  destruct (exists_lt_dec (fun i => In a (addrs (w i))) NL) as [(i & Hi & Ha)|Hno].
  - intros i. apply in_dec. apply N.eq_dec.
  - rewrite (stores_fold_in w (seq 0 NL) m a i).
    + rewrite (stores_fold_in w' (seq 0 NL) m' a (p i)).
      * rewrite Hw by exact Hi. apply apply_stores_ext. exact Hm.
      * apply in_seq. pose proof (p_lt i Hi). lia.
      * rewrite Hw by exact Hi. exact Ha.
      * intros j Hj Hne. apply in_seq in Hj. assert (Hj' : (j < NL)%nat) by lia.
        rewrite Hw' by exact Hj'. destruct (proj2 Hp j Hj') as [Hl He].
        apply (Hdis i (p' j) a); auto. intros ->. apply Hne. symmetry. exact He.
    + apply in_seq. lia.
    + exact Ha.
    + intros j Hj Hne. apply in_seq in Hj. apply (Hdis i j a); auto; lia.
  - rewrite !stores_fold_notin.
    + apply Hm.
    + intros i Hi. apply in_seq in Hi. apply Hno. lia.
    + intros j Hj. apply in_seq in Hj. assert (Hj' : (j < NL)%nat) by lia.
      rewrite Hw' by exact Hj'. apply Hno. apply (proj2 Hp j Hj').
Qed.

Theorem vec_lift_perm_gmem : distinct_stores (lift_gst d st) ->
  forall a, gmem (vec_lift d st') a = gmem (vec_lift d st) a.
Proof.
  intros Hdis a. unfold vec_lift. rewrite !wd_gmem. cbn.
  apply stores_fold_perm; [apply (pr_gmem _ _ _ _ Hrel)|apply lift_gst_perm|exact Hdis].
Qed.

Theorem vec_lift_perm_lds : distinct_stores (lift_lst d st) ->
  forall a, lds (vec_lift d st') a = lds (vec_lift d st) a.
Proof.
  intros Hdis a. unfold vec_lift. rewrite !wd_lds. cbn.
  apply stores_fold_perm; [apply (pr_lds _ _ _ _ Hrel)|apply lift_lst_perm|exact Hdis].
Qed.

End Equivariance.

(** the permuted state of Lanes.v is related to the original one *)
Lemma perm_state_rel : forall p p' d st, is_perm p p' ->
  (d_keep d = true -> d_dst d = DVcc \/ d_dst d = DExec \/ exists n, d_dst d = DSgpr n /\ d_src d = MSgpr n) ->
  perm_rel p d st (perm_state p' d st).
Proof.
  intros p p' d st Hp Hk.
  assert (Hm : forall m i, (i < NL)%nat -> active (perm_mask p' m) (p i) = active m i).
  { intros m i Hi. unfold active. destruct (proj1 Hp i Hi) as [Hl He]. rewrite perm_mask_spec by exact Hl. rewrite He. reflexivity. }
  assert (Hsrc : forall i, (i < NL)%nat -> active (src_val d (perm_state p' d st)) (p i) = active (src_val d st) i).
  { intros i Hi. unfold src_val, perm_state. cbn. destruct (d_src d) eqn:Es; cbn; [reflexivity|apply Hm; exact Hi|].
    rewrite pair_val_supd_pair. apply Hm. exact Hi. }
  constructor.
  - intros i r Hi. unfold perm_state. cbn [vgpr]. destruct (proj1 Hp i Hi) as [Hl He].
    replace (Nat.ltb (p i) NL) with true by (symmetry; apply Nat.ltb_lt; exact Hl). rewrite He. reflexivity.
  - intros i Hi. unfold perm_state. cbn. apply Hm. exact Hi.
  - intros i Hi. unfold perm_state. cbn. apply Hm. exact Hi.
  - exact Hsrc.
  - intros i Hi. unfold acc0. destruct (d_keep d) eqn:Ek; [|reflexivity].
    destruct (Hk eq_refl) as [E|[E|(n & E & Es)]]; unfold dst_val; rewrite E.
    + unfold perm_state. cbn. apply Hm. exact Hi.
    + unfold perm_state. cbn. apply Hm. exact Hi.
    + pose proof (Hsrc i Hi) as H. unfold src_val in H. rewrite Es in H. exact H.
  - intros r. unfold hide, perm_state. cbn. destruct (d_src d); try reflexivity.
    destruct (in_pair n r) eqn:E; [reflexivity|]. apply supd_pair_other. exact E.
  - reflexivity.
  - reflexivity.
  - split; reflexivity.
Qed.

(** ** Scalar handlers *)

Ltac wr_case IH :=
  match goal with
  | |- seq_mod_exec (srun ?k ?t1) (srun ?k ?t2) /\ _ =>
    let H := fresh "Ht" in
    assert (H : seq_mod_exec t1 t2);
    [ unfold seq_mod_exec; cbn; repeat split; auto | exact (IH t1 t2 H) ]
  end.

Lemma srun_mod_exec : forall p, no_exec_read p -> forall s1 s2, seq_mod_exec s1 s2 ->
  seq_mod_exec (srun p s1) (srun p s2) /\ swrote p s1 = swrote p s2 /\
  (swrote p s1 = true -> s_exec (srun p s1) = s_exec (srun p s2)) /\
  (swrote p s1 = false -> s_exec (srun p s1) = s_exec s1 /\ s_exec (srun p s2) = s_exec s2).
Proof.
  intros p Hp. induction Hp; intros s1 s2 Hs; cbn [srun swrote];
    pose proof Hs as (Hr & Hscc & Hvcc & Hm0 & Hpc & Hmem).
  - repeat split; auto; discriminate.
  - rewrite <- Hr. apply H0. exact Hs.
  - rewrite <- Hscc. apply H0. exact Hs.
  - rewrite <- Hvcc. apply H0. exact Hs.
  - rewrite <- Hm0. apply H0. exact Hs.
  - rewrite <- Hpc. apply H0. exact Hs.
  - rewrite <- Hmem. apply H0. exact Hs.
  - wr_case IHHp. intros x. unfold supd. destruct (Nat.eqb x r); auto.
  - wr_case IHHp.
  - wr_case IHHp.
  - (* EXEC is overwritten: from here on the two runs are in the same situation *)
    set (t1 := mkS (s_sgpr s1) (s_scc s1) (s_vcc s1) v (s_m0 s1) (s_pc s1) (s_mem s1)).
    set (t2 := mkS (s_sgpr s2) (s_scc s2) (s_vcc s2) v (s_m0 s2) (s_pc s2) (s_mem s2)).
    assert (Ht : seq_mod_exec t1 t2) by (unfold seq_mod_exec; cbn; repeat split; auto).
    destruct (IHHp t1 t2 Ht) as (A & B & C & D). repeat split; try apply A; try discriminate.
    intros _. destruct (swrote k t1) eqn:E.
    + apply C. reflexivity.
    + destruct (D eq_refl) as [D1 D2]. rewrite D1, D2. reflexivity.
  - wr_case IHHp.
  - wr_case IHHp.
Qed.

(** ** The transcribed handlers are instances of the combinator *)

Lemma rd_ext : forall u u' rw rw', (forall r, u r = u' r) -> (forall k, rw k = rw' k) ->
  forall o, rd u rw o = rd u' rw' o.
Proof. intros u u' rw rw' Hu Hr o. destruct o; cbn; rewrite ?Hu, ?Hr; reflexivity. Qed.

Lemma flat_addr_ext : forall o u u' rw rw', (forall r, u r = u' r) -> (forall k, rw k = rw' k) ->
  flat_addr o u rw = flat_addr o u' rw'.
Proof.
  intros o u u' rw rw' Hu Hr. unfold flat_addr, pair_val. rewrite (rd_ext u u' rw rw' Hu Hr).
  destruct (o_saddr o); rewrite ?Hu; reflexivity.
Qed.

Lemma ds_addr_ext : forall o u u' rw rw' off, (forall r, u r = u' r) -> (forall k, rw k = rw' k) ->
  ds_addr o u rw off = ds_addr o u' rw' off.
Proof. intros. unfold ds_addr. rewrite (rd_ext u u' rw rw'); auto. Qed.

Lemma reg_bytes_ext : forall rw rw' o n, (forall k, rw k = rw' k) -> reg_bytes rw o n = reg_bytes rw' o n.
Proof. intros. unfold reg_bytes. apply map_ext. intros k. rewrite H. reflexivity. Qed.

Lemma ld_ext : forall m m' a n, (forall x, m x = m' x) -> ld m a n = ld m' a n.
Proof. intros. unfold ld. apply map_ext. intros. apply H. Qed.

Lemma hfn_ext : forall h o, fn_ext (hfn h o).
Proof.
  intros h o u u' g g' l l' rw rw' b Hu Hg Hl Hr.
  destruct h; unfold hfn; try (destruct (ExecImplV.vdesc_of a f op); [unfold v_core|]); cbv zeta; cbn [li_row li_bit];
    rewrite ?(rd_ext u u' rw rw' Hu Hr), ?(flat_addr_ext o u u' rw rw' Hu Hr),
      ?(fun off => ds_addr_ext o u u' rw rw' off Hu Hr), ?(fun x n => reg_bytes_ext rw rw' x n Hr),
      ?(fun a n => ld_ext g g' a n Hg), ?(fun a n => ld_ext l l' a n Hl); reflexivity.
Qed.

Lemma hfn_ld_or_st : forall h o, ld_or_st (hfn h o).
Proof.
  intros h o. destruct (is_mem h) eqn:E.
  - destruct h; try discriminate E; right; intros; split; reflexivity.
  - left. intros. destruct h; try discriminate E; reflexivity.
Qed.

Lemma hdesc_f : forall h o, d_f (hdesc h o) = hfn h o.
Proof. reflexivity. Qed.

Lemma hdesc_acc : forall h o st, d_from_acc (hdesc h o) = true -> acc0 (hdesc h o) st = src_val (hdesc h o) st.
Proof. intros h o st H. discriminate H. Qed.

Theorem hdesc_seq_loop_is_lift : forall h o st, veq (seq_loop (hdesc h o) st) (vec_lift (hdesc h o) st).
Proof.
  intros. apply seq_loop_veq_lift.
  - rewrite hdesc_f. apply hfn_ext.
  - rewrite hdesc_f. apply hfn_ld_or_st.
  - apply hdesc_acc.
Qed.

(** ** Lane independence of the sequential loop, for every handler that is a lift *)

Lemma dst_val_veq : forall d a b, veq a b -> dst_val d a = dst_val d b.
Proof.
  intros d a b (Hv & Hs & He & Hc & _). unfold dst_val, pair_val. destruct (d_dst d); auto. rewrite !Hs. reflexivity.
Qed.

Lemma perm_out_veq : forall p d a a' b b', veq a a' -> veq b b' -> perm_out p d a' b' -> perm_out p d a b.
Proof.
  intros p d a a' b b' Ha Hb H.
  pose proof (dst_val_veq d a a' Ha) as Da. pose proof (dst_val_veq d b b' Hb) as Db.
  destruct Ha as (Av & As & Ae & Ac & Asc & Am & _). destruct Hb as (Bv & Bs & Be & Bc & Bsc & Bm & _).
  destruct H as [H1 H2 H3 H4 H5 H6].
  constructor.
  - intros. rewrite Av, Bv. auto.
  - intros. rewrite Ae, Be. auto.
  - intros. rewrite Ac, Bc. auto.
  - intros. rewrite Da, Db. auto.
  - intros. rewrite As, Bs. auto.
  - rewrite Asc, Am, Bsc, Bm. exact H6.
Qed.

Theorem seq_loop_lane_independent : forall d,
  fn_ext (d_f d) -> ld_or_st (d_f d) -> (forall st, d_from_acc d = true -> acc0 d st = src_val d st) ->
  lane_independent d.
Proof.
  intros d He Hl Ha.
  assert (V : forall st, veq (seq_loop d st) (vec_lift d st)) by (intros; apply seq_loop_veq_lift; auto).
  split.
  - intros st i Hi. pose proof (V st) as Hv. pose proof (dst_val_veq d _ _ Hv) as Dv.
    destruct Hv as (Vv & Vs & Ve & Vc & Vsc & Vm & Vg & Vl & Vt).
    split; [intros r; rewrite Vv; apply vec_lift_vgpr_inactive; exact Hi|].
    split.
    { rewrite Dv.
      assert (D : d_dst d = DNone \/ d_dst d <> DNone) by (destruct (d_dst d); [left; reflexivity|right; discriminate..]).
      destruct D as [D|D].
      - unfold acc0, dst_val. rewrite D. destruct (d_keep d); reflexivity.
      - replace (dst_val d (vec_lift d st)) with (lift_mask d st)
          by (symmetry; unfold vec_lift; apply wd_dst_val; exact D).
        apply lift_mask_inactive; exact Hi. }
    split.
    { intros x Hx Hlane. rewrite Vt in Hx. destruct (vec_lift_trace d st x Hx) as [Hin|[_ Hact]]; [exact Hin|].
      rewrite Hlane, Hi in Hact. discriminate. }
    split; intros a Hna; [rewrite Vg; apply vec_lift_gmem_frame; exact Hna | rewrite Vl; apply vec_lift_lds_frame; exact Hna].
  - intros p p' st st' Hp Hr.
    destruct (V st) as (_ & _ & _ & _ & _ & _ & Vg & Vl & _). destruct (V st') as (_ & _ & _ & _ & _ & _ & Vg' & Vl' & _).
    split; [|split].
    + apply (perm_out_veq p d _ (vec_lift d st) _ (vec_lift d st')); auto. apply (vec_lift_perm_out p p'); auto.
    + intros Hd a. rewrite Vg, Vg'. apply (vec_lift_perm_gmem p p' d st st' Hp He Hr Hd).
    + intros Hd a. rewrite Vl, Vl'. apply (vec_lift_perm_lds p p' d st st' Hp He Hr Hd).
Qed.

Theorem hdesc_lane_independent : forall h o, lane_independent (hdesc h o).
Proof.
  intros. apply seq_loop_lane_independent.
  - rewrite hdesc_f. apply hfn_ext.
  - rewrite hdesc_f. apply hfn_ld_or_st.
  - intros st. apply hdesc_acc.
Qed.
