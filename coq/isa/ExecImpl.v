(** C03 — ExecImpl: what the Go handlers of amd/emu (GCN3 ALU) and
    amd/emu/cdna3 (CDNA3 ALU) compute, transcribed at the level where they can
    differ from the manuals: what Wavefront.ReadOperand hands them for every
    operand kind and RegCount (64-bit values for VCC halves and negative inline
    constants read with count 0), the Go integer width of every intermediate
    (wrap-around written out), what WriteOperand truncates or refuses, and which
    condition codes a handler sets or forgets.  [None] = the Go code panics
    (unsupported register, unimplemented opcode).  Definitions only. *)
From Coq Require Import ZArith List Bool.
From RecordUpdate Require Import RecordSet.
Import RecordSetNotations.
Import ListNotations.
From VIsa Require Import IsaState.
Open Scope Z_scope.

(** * Wavefront.ReadOperand / readRegOperand (amd/emu/wavefront.go) *)
Definition rd (st : state) (code cnt lit : Z) : option Z :=
  if (0 <=? code) && (code <=? 101) then
    if cnt <=? 1 then Some (sgpr st code)
    else if code =? 101 then None           (* slice out of range *)
    else Some (sgpr st code + W32 * sgpr st (code + 1))
  else if code =? 106 then Some (if cnt <=? 1 then u32 (vcc st) else vcc st)
  else if code =? 107 then Some (if cnt <=? 1 then hi32 (vcc st) else vcc st)
  else if code =? 124 then Some (m0 st)
  else if code =? 126 then Some (if cnt =? 2 then exec st else u32 (exec st))
  else if code =? 127 then (if cnt <=? 1 then Some (hi32 (exec st)) else None)
  else if (128 <=? code) && (code <=? 192) then Some (code - 128)
  else if (193 <=? code) && (code <=? 208) then Some (W64 - (code - 192))  (* uint64(int64(-k)) *)
  else if (240 <=? code) && (code <=? 248) then Some (inline_f32 code)
  else if code =? 253 then Some (scc st)
  else if code =? 255 then Some lit
  else None.                                 (* vccz, execz, ...: "Register type not supported" *)

(** per-lane read for vector formats: VGPRs are read at the lane, everything
    else is lane independent *)
Definition rdv (st : state) (code cnt lit lane : Z) : option Z :=
  if (256 <=? code) && (code <=? 511) then
    if cnt <=? 1 then Some (vgpr st lane (code - 256))
    else Some (vgpr st lane (code - 256) + W32 * vgpr st lane (code - 255))
  else rd st code cnt lit.

(** * Wavefront.WriteOperand / WriteReg *)
Definition wr (st : state) (code cnt v : Z) : option state :=
  if (0 <=? code) && (code <=? 101) then
    if cnt <=? 1 then Some (st <| sgpr := upd (sgpr st) code (u32 v) |>)
    else if code =? 101 then None
    else Some (st <| sgpr := upd (upd (sgpr st) code (u32 v)) (code + 1) (u32 (v / W32)) |>)
  else if code =? 106 then
    if cnt =? 2 then Some (st <| vcc := u64 v |>)
    else Some (st <| vcc := hi32 (vcc st) * W32 + u32 v |>)
  else if code =? 107 then
    if cnt <=? 1 then Some (st <| vcc := u32 (vcc st) + u32 v * W32 |>)
    else Some (st <| vcc := u64 v |>)
  else if code =? 124 then Some (st <| m0 := u32 v |>)
  else if code =? 126 then
    if cnt =? 2 then Some (st <| exec := u64 v |>)
    else Some (st <| exec := hi32 (exec st) * W32 + u32 v |>)
  else if code =? 127 then
    if cnt <=? 1 then Some (st <| exec := u32 (exec st) + u32 v * W32 |>) else None
  else None.

Definition wrv (st : state) (code v lane : Z) : option state :=
  if (256 <=? code) && (code <=? 511)
  then Some (st <| vgpr := upd2 (vgpr st) lane (code - 256) (u32 v) |>)
  else None.

(** * Result of a scalar handler: destination value handed to WriteOperand (raw,
    before truncation), final SCC, EXEC if the handler calls SetEXEC, final PC *)
Record sres := mkS { r_dst : option Z; r_scc : Z; r_exec : option Z; r_pc : Z }.
Definition keep (st : state) : sres := mkS None (scc st) None (pc st).
Definition dres (st : state) (v c : Z) : sres := mkS (Some v) c None (pc st).
Definition cres (st : state) (c : Z) : sres := mkS None c None (pc st).

Definition not64 (x : Z) : Z := W64 - 1 - x.
Definition not32 (x : Z) : Z := W32 - 1 - x.

(** S_BREV_B32 loops (both ALUs): bit (31-i) of the source goes to bit i *)
Definition brev_impl (x : Z) : Z :=
  fold_left (fun acc i =>
     Z.lor acc (Z.shiftl (Z.shiftr (Z.land x (Z.shiftl 1 (31 - i))) (31 - i)) i))
    (map Z.of_nat (seq 0 32)) 0.

(** S_BFE_I32 as both ALUs compute it after the repair: int32 arithmetic,
    offset = S1[4:0], width = S1[22:16] *)
Definition bfe_core (x off w : Z) : Z :=
  if w =? 0 then 0
  else if off + w >=? 32 then Z.shiftr x off
  else Z.shiftr (s32 (Z.shiftl x (32 - off - w))) (32 - w).
Definition bfe_i32_impl (a b : Z) : Z :=
  let s1 := u32 b in bfe_core (s32 a) (Z.land s1 31) (Z.land (Z.shiftr s1 16) 127).

(** * GCN3 ALU (amd/emu/alusop2.go, alusop1.go, alusopc.go, alusopk.go, alu.go) *)
Definition g_sop2 (op a b : Z) (st : state) : option sres :=
  let c := scc st in
  match op with
  | 0 => let s0 := u32 a in let s1 := u32 b in
      Some (dres st (u32 (s0 + s1)) (if s0 >? W32 - 1 - s1 then 1 else 0))
  | 1 => let s0 := u32 a in let s1 := u32 b in
      Some (dres st (u32 (s0 - s1)) (b2z (s1 >? s0)))
  | 2 => let s := s32 a + s32 b in
      Some (dres st (u32 s) (b2z ((s >? 2147483647) || (s <? -2147483648))))
  | 3 => let x := s32 a in let y := s32 b in let d := s32 (x - y) in
      Some (dres st (u32 d) (if ((y >? 0) && (d >? x)) || ((y <? 0) && (d <? x)) then 1 else 0))
  | 4 => let s := u32 a + u32 b + c in Some (dres st (u32 s) (b2z (s >? W32 - 1)))
  | 5 => let s0 := u32 a in let s1 := u32 b in
      Some (dres st (u64 (s0 - s1 - c)) (if s0 <? u64 (s1 + c) then 1 else 0))
  | 6 => Some (if s32 a <? s32 b then dres st a 1 else dres st b 0)
  | 7 => Some (if u32 a <? u32 b then dres st (u32 a) 1 else dres st (u32 b) 0)
  | 8 => Some (if s32 a >? s32 b then dres st a 1 else dres st b 0)
  | 9 => Some (if u32 a >? u32 b then dres st (u32 a) 1 else dres st (u32 b) 0)
  | 10 => Some (dres st (if c =? 1 then a else b) c)
  | 12 => let d := Z.land (u32 a) (u32 b) in Some (dres st d (nz d))
  | 13 => let d := Z.land a b in Some (dres st d (nz d))
  | 15 => let d := Z.lor a b in Some (dres st d (nz d))
  | 16 => let d := Z.lxor (u32 a) (u32 b) in Some (dres st d (nz d))
  | 17 => let d := Z.lxor a b in Some (dres st d (nz d))
  | 19 => let d := Z.land a (not64 b) in Some (dres st d (nz d))
  | 28 => let d := u32 (Z.shiftl (u32 a) (Z.land (b mod 256) 31)) in Some (dres st d (nz d))
  | 29 => let d := u64 (Z.shiftl a (Z.land (b mod 256) 63)) in Some (dres st d (nz d))
  | 30 => let d := Z.shiftr (u32 a) (Z.land (u32 b) 31) in Some (dres st d (nz d))
  | 31 => let d := Z.shiftr a (Z.land b 63) in Some (dres st d (nz d))
  | 32 => let d := Z.shiftr (s32 a) (Z.land (b mod 256) 31) in Some (dres st (u32 d) (nz d))
  | 34 => Some (dres st (u64 (Z.shiftl (Z.shiftl 1 (Z.land a 31) - 1) (Z.land b 31))) c)
  | 36 => Some (dres st (u32 (s32 (s32 a * s32 b))) c)
  | 38 => let d := bfe_i32_impl a b in Some (dres st (u32 d) (nz d))
  | _ => None
  end.

Definition saveexec (op a e : Z) : Z :=
  match op with
  | 32 => Z.land a e | 33 => Z.lor a e | 34 => Z.lxor a e
  | 35 => Z.land a (not64 e) | 36 => Z.lor a (not64 e)
  | 37 => not64 (Z.land a e) | 38 => not64 (Z.lor a e) | _ => not64 (Z.lxor a e)
  end.

Definition g_sop1 (op a : Z) (st : state) : option sres :=
  let c := scc st in
  match op with
  | 0 | 1 => Some (dres st a c)
  | 4 => let d := not32 (u32 a) in Some (dres st d (nz d))
  | 8 => Some (dres st (brev_impl (u32 a)) c)
  | 28 => Some (dres st (pc st) c)
  | 32 | 33 | 34 | 35 | 36 | 37 | 38 | 39 =>
      let e := exec st in let e' := saveexec op a e in
      Some (mkS (Some e) (nz e') (Some e') (pc st))
  | 48 => let x := s32 a in let r := if x <? 0 then s32 (- x) else x in
      Some (dres st (u32 r) (nz r))
  | _ => None
  end.

Definition g_sopc (op a b : Z) (st : state) : option sres :=
  match op with
  | 0 | 6 => Some (cres st (b2z (u32 a =? u32 b)))
  | 1 | 7 => Some (cres st (b2z (negb (u32 a =? u32 b))))
  | 2 => Some (cres st (b2z (s32 a >? s32 b)))
  | 3 => Some (cres st (b2z (s32 a >=? s32 b)))
  | 4 => Some (cres st (b2z (s32 a <? s32 b)))
  | 5 => Some (cres st (b2z (s32 a <=? s32 b)))
  | 8 => Some (cres st (b2z (u32 a >? u32 b)))
  | 10 => Some (cres st (b2z (u32 a <? u32 b)))
  | _ => None
  end.

(** SOPK: [k] is ReadOperand(SImm16) & 0xffff, [d] the current destination
    register as ReadOperand(inst.Dst) returns it ([None]: unreadable) *)
Definition g_sopk (op k : Z) (d : option Z) (st : state) : option sres :=
  let c := scc st in
  match op with
  | 0 => Some (dres st (u64 (s16 k)) c)
  | 1 => Some (if c =? 1 then dres st (u64 (s16 k)) c else keep st)
  | 2 => match d with Some d => Some (cres st (b2z (s32 d =? s16 k))) | None => None end
  | 3 => match d with Some d => Some (cres st (b2z (negb (s32 d =? s16 k)))) | None => None end
  | 15 => match d with Some d => Some (dres st (u64 (s32 (s16 k * s32 d))) c) | None => None end
  | _ => None
  end.

Definition branch (st : state) (k : Z) (taken : bool) : sres :=
  mkS None (scc st) None (if taken then u64 (pc st + s16 k * 4) else pc st).

Definition x_sopp (op k : Z) (st : state) : option sres :=
  match op with
  | 0 | 12 => Some (keep st)
  | 2 => Some (branch st k true)
  | 4 => Some (branch st k (scc st =? 0))
  | 5 => Some (branch st k (scc st =? 1))
  | 6 => Some (branch st k (vcc st =? 0))
  | 7 => Some (branch st k (negb (vcc st =? 0)))
  | 8 => Some (branch st k (exec st =? 0))
  | 9 => Some (branch st k (negb (exec st =? 0)))
  | _ => None
  end.

(** * CDNA3 ALU (amd/emu/cdna3/sop2.go, sop1.go, sopc.go, sopk.go, sop.go) *)
Definition mask64 (w : Z) : Z := u64 (u64 (Z.shiftl 1 w) - 1).   (* (uint64(1) << w) - 1 *)

Definition c_sop2 (op a b : Z) (st : state) : option sres :=
  let c := scc st in
  let s0 := u32 a in let s1 := u32 b in
  match op with
  | 0 => let s := s0 + s1 in Some (dres st (u32 s) (b2z (s >? W32 - 1)))
  | 1 => Some (dres st (u32 (s0 - s1)) (b2z (s1 >? s0)))
  | 2 => let s := s32 a + s32 b in
      Some (dres st (u32 s) (b2z ((s >? 2147483647) || (s <? -2147483648))))
  | 3 => let s := s32 a - s32 b in
      Some (dres st (u32 s) (b2z ((s >? 2147483647) || (s <? -2147483648))))
  | 4 => let s := s0 + s1 + c in Some (dres st (u32 s) (b2z (s >? W32 - 1)))
  | 5 => Some (dres st (u32 (s0 - s1 - c)) (b2z (s1 + c >? s0)))
  | 6 => Some (if s32 a <? s32 b then dres st s0 1 else dres st s1 0)
  | 7 => Some (if s0 <? s1 then dres st s0 1 else dres st s1 0)
  | 8 => Some (if s32 a >? s32 b then dres st s0 1 else dres st s1 0)
  | 9 => Some (if s0 >? s1 then dres st s0 1 else dres st s1 0)
  | 10 | 11 => Some (dres st (if c =? 1 then a else b) c)
  | 12 => let d := Z.land s0 s1 in Some (dres st d (nz d))
  | 13 => let d := Z.land a b in Some (dres st d (nz d))
  | 14 => let d := Z.lor s0 s1 in Some (dres st d (nz d))
  | 15 => let d := Z.lor a b in Some (dres st d (nz d))
  | 16 => let d := Z.lxor s0 s1 in Some (dres st d (nz d))
  | 17 => let d := Z.lxor a b in Some (dres st d (nz d))
  | 18 => let d := Z.land s0 (not32 s1) in Some (dres st d (nz d))
  | 19 => let d := Z.land a (not64 b) in Some (dres st d (nz d))
  | 20 => let d := Z.lor s0 (not32 s1) in Some (dres st d (nz d))
  | 21 => let d := Z.lor a (not64 b) in Some (dres st d (nz d))
  | 28 => let d := u32 (u64 (Z.shiftl a (Z.land b 31))) in Some (dres st d (nz d))
  | 29 => let d := u64 (Z.shiftl a (Z.land b 63)) in Some (dres st d (nz d))
  | 30 => let d := Z.shiftr s0 (Z.land b 31) in Some (dres st d (nz d))
  | 31 => let d := Z.shiftr a (Z.land b 63) in Some (dres st d (nz d))
  | 32 => let d := u32 (Z.shiftr (s32 a) (Z.land b 31)) in Some (dres st d (nz d))
  | 33 => let d := u64 (Z.shiftr (s64 a) (Z.land b 63)) in Some (dres st d (nz d))
  | 34 => Some (dres st (u32 (u64 (Z.shiftl (Z.shiftl 1 (Z.land a 31) - 1) (Z.land b 31)))) c)
  | 36 => Some (dres st (u32 (s32 (s32 a * s32 b))) c)
  | 37 => let off := Z.land s1 31 in let w := Z.land (Z.shiftr s1 16) 127 in
      let d := if w =? 0 then 0 else Z.land (Z.shiftr s0 off) (mask64 w) in
      Some (dres st d (nz d))
  | 38 => let d := bfe_i32_impl a b in Some (dres st (u32 d) (nz d))
  | 44 => Some (dres st (Z.shiftr (u64 (s0 * s1)) 32) c)
  | _ => None
  end.

Definition c_sop1 (op a : Z) (st : state) : option sres :=
  let c := scc st in
  match op with
  | 48 => let x := s32 a in
      Some (if x <? 0 then dres st (u32 (s32 (- x))) 1 else dres st (u32 x) 0)
  | _ => g_sop1 op a st     (* the remaining handlers are line-by-line the same computation *)
  end.

Definition c_sopc (op a b : Z) (st : state) : option sres :=
  match op with
  | 0 => Some (cres st (b2z (s32 a =? s32 b)))
  | 1 => Some (cres st (b2z (negb (s32 a =? s32 b))))
  | 9 => Some (cres st (b2z (u32 a >=? u32 b)))
  | 11 => Some (cres st (b2z (u32 a <=? u32 b)))
  | _ => g_sopc op a b st
  end.

Definition c_sopk (op k : Z) (d : option Z) (st : state) : option sres :=
  let c := scc st in
  match op with
  | 0 => Some (dres st (u32 (s16 k)) c)
  | 1 => Some (if c =? 1 then dres st (u32 (s16 k)) c else keep st)
  | 2 => match d with Some d => Some (cres st (b2z (s32 d =? s16 k))) | None => None end
  | 3 => match d with Some d => Some (cres st (b2z (negb (s32 d =? s16 k)))) | None => None end
  | 15 => match d with Some d => Some (dres st (u32 (s32 (s32 d * s16 k))) c) | None => None end
  | _ => None
  end.

(** * RegCount the decoder attaches to the operands (amd/insts/disassembler.go):
    SOP2: 2 for all three operands when the mnemonic contains "64"; SOP1: from
    the SRC0Width/DSTWidth columns of the decode table; otherwise 0. *)
Definition sop2_cnt (op : Z) : Z :=
  match op with
  | 11 | 13 | 15 | 17 | 19 | 21 | 23 | 25 | 27 | 29 | 31 | 33 | 35 | 39 | 40 | 43 => 2
  | _ => 0
  end.
Definition sop1_cnt (op : Z) : Z :=
  match op with
  | 1 | 3 | 5 | 7 | 9 | 25 | 27 | 28 | 29 | 30 | 31 | 32 | 33 | 34 | 35 | 36 | 37 | 38 | 39 | 41 | 43 | 45 => 2
  | _ => 0
  end.

(** * Commit: WriteOperand(inst.Dst), SetEXEC, SetSCC, SetPC *)
Definition commit (st : state) (dcode cnt : Z) (r : sres) : option state :=
  let st1 := match r_dst r with Some v => wr st dcode cnt v | None => Some st end in
  match st1 with
  | None => None
  | Some s =>
      let s := match r_exec r with Some e => s <| exec := e |> | None => s end in
      Some (s <| scc := r_scc r |> <| pc := r_pc r |>)
  end.

Definition bind {A B} (o : option A) (f : A -> option B) : option B :=
  match o with Some x => f x | None => None end.

Definition exec_scalar (a : arch) (st : state) (i : inst) : option state :=
  match i_fmt i with
  | F_SOP2 =>
      let cnt := sop2_cnt (i_op i) in
      bind (rd st (i_src0 i) cnt (i_lit i)) (fun x =>
      bind (rd st (i_src1 i) cnt (i_lit i)) (fun y =>
      bind (match a with GCN3 => g_sop2 | CDNA3 => c_sop2 end (i_op i) x y st)
           (commit st (i_dst i) cnt)))
  | F_SOP1 =>
      let cnt := sop1_cnt (i_op i) in
      if i_op i =? 28
      then bind (match a with GCN3 => g_sop1 | CDNA3 => c_sop1 end 28 0 st) (commit st (i_dst i) cnt)
      else
      bind (rd st (i_src0 i) cnt (i_lit i)) (fun x =>
      bind (match a with GCN3 => g_sop1 | CDNA3 => c_sop1 end (i_op i) x st)
           (commit st (i_dst i) cnt))
  | F_SOPC =>
      bind (rd st (i_src0 i) 0 (i_lit i)) (fun x =>
      bind (rd st (i_src1 i) 0 (i_lit i)) (fun y =>
      bind (match a with GCN3 => g_sopc | CDNA3 => c_sopc end (i_op i) x y st)
           (commit st (-1) 0)))
  | F_SOPK =>
      let k := Z.land (i_simm i) 65535 in
      let needs_d := (i_op i =? 2) || (i_op i =? 3) || (i_op i =? 15) in
      let d := if needs_d then rd st (i_dst i) 0 0 else Some 0 in
      bind (match a with GCN3 => g_sopk | CDNA3 => c_sopk end (i_op i) k d st)
           (commit st (i_dst i) 0)
  | F_SOPP =>
      bind (x_sopp (i_op i) (Z.land (i_simm i) 65535) st) (commit st (-1) 0)
  | _ => None
  end.
