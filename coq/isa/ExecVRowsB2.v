(** C03 — vector rows proved by the generic arithmetic tactic (part 2). *)
From Coq Require Import ZArith List Bool Lia ZifyBool.
Import ListNotations.
From VIsa Require Import IsaState ExecImpl ExecSpec ExecImplV ExecSpecV ExecProofs ExecRows ExecVProofs ExecVRowsA.
Open Scope Z_scope.
Ltac Zify.zify_post_hook ::= Z.div_mod_to_equations.

Lemma r_g_vop2_8 : row_ok GCN3 F_VOP2 8. Proof. try_row. Qed.
Lemma r_g_vop2_20 : row_ok GCN3 F_VOP2 20. Proof. try_row. Qed.
Lemma r_g_vop2_29 : row_ok GCN3 F_VOP2 29. Proof. try_row. Qed.
Lemma r_g_vopc_197 : row_ok GCN3 F_VOPC 197. Proof. try_row. Qed.
Lemma r_g_vopc_205 : row_ok GCN3 F_VOPC 205. Proof. try_row. Qed.
Lemma r_g_vop3a_201 : row_ok GCN3 F_VOP3A 201. Proof. try_row. Qed.
Lemma r_g_vop3a_256 : row_ok GCN3 F_VOP3A 256. Proof. try_row. Qed.
Lemma r_g_vop3b_284 : row_ok GCN3 F_VOP3B 284. Proof. try_row. Qed.
Lemma r_c_vop2_13 : row_ok CDNA3 F_VOP2 13. Proof. try_row. Qed.
Lemma r_c_vop2_28 : row_ok CDNA3 F_VOP2 28. Proof. try_row. Qed.
Lemma r_c_vop1_1 : row_ok CDNA3 F_VOP1 1. Proof. try_row. Qed.
Lemma r_c_vopc_201 : row_ok CDNA3 F_VOPC 201. Proof. try_row. Qed.
Lemma r_c_vop3a_193 : row_ok CDNA3 F_VOP3A 193. Proof. try_row. Qed.
Lemma r_c_vop3a_203 : row_ok CDNA3 F_VOP3A 203. Proof. try_row. Qed.
Lemma r_c_vop3a_645 : row_ok CDNA3 F_VOP3A 645. Proof. try_row. Qed.
Lemma r_c_vop3b_285 : row_ok CDNA3 F_VOP3B 285. Proof. try_row. Qed.
