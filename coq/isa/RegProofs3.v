(** C07, third part — wavefront lifetimes: a newly dispatched wavefront starts
    from a state that does not depend on anything an earlier wavefront did. *)
From Coq Require Import ZArith NArith List Bool Lia ZifyN ZifyNat ZifyBool PeanoNat.
From VIsa Require Import RegSpec RegModel RegProofs RegProofs2.
Import ListNotations.
Open Scope N_scope.
Ltac Zify.zify_post_hook ::= Z.div_mod_to_equations.

Lemma timing_write_v0_step : forall st w l data,
  simd (t_waves st w) < t_nsimd st -> t_bpl st = 1024 -> lenN data = 4 ->
  l * 1024 + voff (t_waves st w) + 4 <= t_vlen st ->
  timing_write_reg st w (RV 0) 1 l data =
  (set_tvreg st (simd (t_waves st w)) (mem_write (t_vreg st (simd (t_waves st w))) (l * 1024 + voff (t_waves st w)) data), false).
Proof.
  intros st w l data Hs Hb Hl Hv. unfold timing_write_reg. rewrite Hb, Hl.
  replace (simd (t_waves st w) <? t_nsimd st) with true by lia.
  change (4 * (if 1 =? 0 then 1 else 1)) with 4.
  change (4 <=? 4) with true.
  replace (0 * 4 + l * 1024 + voff (t_waves st w) + 4 <=? t_vlen st) with true by lia. cbn [andb].
  unfold firstnN. rewrite firstn_all2 by (unfold lenN in Hl; lia).
  replace (0 * 4 + l * 1024 + voff (t_waves st w)) with (l * 1024 + voff (t_waves st w)) by lia. reflexivity.
Qed.

(** the dispatcher's loop over the 64 lanes, on the state *)
Lemma dispatch_fold : forall st0 w (ids : N -> N) k,
  (k <= 64)%nat -> simd (t_waves st0 w) < t_nsimd st0 -> t_bpl st0 = 1024 ->
  64 * 1024 <= t_vlen st0 -> voff (t_waves st0 w) + 4 <= 1024 ->
  let sd := simd (t_waves st0 w) in let vo := voff (t_waves st0 w) in
  let st' := fold_left (fun s l => fst (timing_write_reg s w (RV 0) 1 l (le_bytes 4 (ids l)))) (map N.of_nat (seq 0 k)) st0 in
  t_sreg st' = t_sreg st0 /\ t_sp st' = t_sp st0 /\ t_waves st' = t_waves st0 /\ t_bpl st' = t_bpl st0 /\
  t_vlen st' = t_vlen st0 /\ t_slen st' = t_slen st0 /\ t_nsimd st' = t_nsimd st0 /\
  (forall k' a, k' <> sd -> t_vreg st' k' a = t_vreg st0 k' a) /\
  (forall l o, l < N.of_nat k -> o < 4 -> t_vreg st' sd (l * 1024 + vo + o) = nth (N.to_nat o) (le_bytes 4 (ids l)) 0) /\
  (forall a, (forall l, l < N.of_nat k -> ~ (l * 1024 + vo <= a < l * 1024 + vo + 4)) -> t_vreg st' sd a = t_vreg st0 sd a).
Proof.
  intros st0 w ids k. induction k as [|k IH]; intros Hk Hs Hb Hvl Hvo sd vo.
  - cbn. repeat split; auto; intros; lia.
  - destruct (IH ltac:(lia) Hs Hb Hvl Hvo) as [A [B [C [D [E [F [G [H [I J]]]]]]]]]. clear IH.
    rewrite seq_S, map_app, fold_left_app. cbn [plus map fold_left].
    set (s1 := fold_left _ (map N.of_nat (seq 0 k)) st0) in *.
    rewrite timing_write_v0_step; try (rewrite ?C, ?G, ?D, ?E; auto; fail); try (unfold lenN; now rewrite le_bytes_length).
    2:{ rewrite C, E. fold vo. lia. }
    cbn [fst set_tvreg t_sreg t_sp t_waves t_bpl t_vlen t_slen t_nsimd t_vreg]. rewrite C. fold sd vo.
    repeat split; auto.
    + intros k' a Hn. unfold wupd. destruct (k' =? sd) eqn:X; [lia|]. auto.
    + intros l o Hl Ho. unfold wupd. rewrite N.eqb_refl.
      destruct (N.eq_dec l (N.of_nat k)) as [->|Hne].
      * rewrite mem_write_in by (unfold lenN; rewrite le_bytes_length; lia). f_equal. lia.
      * rewrite mem_write_out by (unfold lenN; rewrite le_bytes_length; lia). apply I; lia.
    + intros a Ha. unfold wupd. rewrite N.eqb_refl.
      rewrite mem_write_out.
      * apply J. intros l Hl. apply Ha. lia.
      * unfold lenN. rewrite le_bytes_length. specialize (Ha (N.of_nat k) ltac:(lia)). lia.
Qed.

Lemma mem_read4_zero : forall m b, (forall a, b <= a < b + 4 -> m a = 0) -> le_bytes 4 0 = mem_read m b 4.
Proof.
  intros m b Hm. apply list_eq_nth. rewrite mem_read_length. reflexivity.
  intros k Hk. change (length (le_bytes 4 0)) with 4%nat in Hk.
  rewrite mem_read_nth by (change (N.to_nat 4) with 4%nat; lia). rewrite Hm by lia.
  destruct k as [|[|[|[|k]]]]; try reflexivity. lia.
Qed.

Lemma le_bytes4_le_val : forall x, le_bytes 4 (le_val (le_bytes 4 x)) = le_bytes 4 x.
Proof. intros. exact (le_bytes_le_val (le_bytes 4 x) (le_bytes_ok 4 x)). Qed.

(** release + dispatch: the new wavefront's cells are [fresh_cells], every
    co-resident wavefront keeps its cells *)
Lemma timing_redispatch_fresh : forall st nw cs w exec0 ids,
  timing_R st nw cs -> w < nw -> 1 <= nvgpr (t_waves st w) -> exec0 < 2 ^ 64 ->
  timing_R (timing_redispatch st w exec0 ids) nw (wupd cs w (fresh_cells exec0 ids)) /\
  t_waves (timing_redispatch st w exec0 ids) = t_waves st.
Proof.
  intros st nw cs w e ids [L Rs] Hw Hnv He. unfold timing_redispatch.
  destruct (timing_reset_char st nw w L Hw) as [st1 [E [Sp [Wv [Bp [Vl [Sl [Ns [Sz [Sf [Vz Vf]]]]]]]]]]].
  rewrite E. cbn [fst]. unfold timing_dispatch, nseq. change (N.to_nat 64) with 64%nat.
  destruct (L_in _ _ L w Hw) as [Ls [Lsimd Lv]]. pose proof (L_bpl _ _ L) as Lb. pose proof (L_vlen _ _ L) as Lvl.
  set (st0 := set_tsp st1 w (mkSp 0 e 0 0)).
  assert (W0 : t_waves st0 = t_waves st) by (unfold st0; cbn; auto).
  destruct (dispatch_fold st0 w ids 64) as [A [B [C [D [E' [F [G [H [I J]]]]]]]]]; try lia;
    try (unfold st0; cbn [set_tsp t_waves t_nsimd t_bpl t_vlen]; rewrite ?Wv, ?Ns, ?Bp, ?Vl; lia).
  set (st' := fold_left _ (map N.of_nat (seq 0 64)) st0) in *.
  rewrite W0 in *.
  assert (S0 : t_sreg st0 = t_sreg st1) by reflexivity.
  assert (V0 : t_vreg st0 = t_vreg st1) by reflexivity.
  split; [|rewrite C; auto]. split.
  - apply (layout_ok_same st); auto; unfold st0 in *; cbn [set_tsp t_bpl t_vlen t_slen t_nsimd t_waves] in *; congruence.
  - intros w' Hw'. rewrite C, A, B, S0. pose proof (Rs w' Hw') as R'.
    destruct (L_in _ _ L w' Hw') as [Ls' [Lsimd' Lv']].
    unfold wupd at 1. unfold st0 at 1. cbn [set_tsp t_sp]. unfold wupd at 1. destruct (w' =? w) eqn:Ew.
    + apply N.eqb_eq in Ew. subst w'. constructor; cbn [t_vcc t_exec t_scc t_m0 fresh_cells]; try reflexivity; try lia.
      * apply view_zero; [|reflexivity]. intros a Ha. apply Sz. unfold own_s. lia.
      * intros l Hl j Hj. destruct j as [|p].
        -- cbn [fresh_cells]. replace (l <? 64) with true by lia. rewrite le_bytes4_le_val.
           apply list_eq_nth. rewrite mem_read_length, le_bytes_length. reflexivity.
           intros k Hk. rewrite le_bytes_length in Hk.
           rewrite mem_read_nth by (change (N.to_nat 4) with 4%nat; lia).
           replace (l * 1024 + voff (t_waves st w) + 4 * 0 + N.of_nat k) with (l * 1024 + voff (t_waves st w) + N.of_nat k) by lia.
           rewrite I by lia. now rewrite Nat2N.id.
        -- cbn [fresh_cells]. apply mem_read4_zero. intros a Ha. rewrite J, V0.
           ++ apply Vz. split; auto. exists l. lia.
           ++ intros l2 Hl2 X. assert (l2 = l) by lia. subst l2. lia.
    + apply N.eqb_neq in Ew. destruct (L_disj _ _ L w w' Hw Hw' ltac:(congruence)) as [Ds Dv]. rewrite Sp.
      constructor; try apply R'.
      * apply (view_mem_ext (t_sreg st)). apply R'. intros a Ha. apply Sf. unfold own_s. lia.
      * intros l Hl. apply (view_mem_ext (t_vreg st (simd (t_waves st w')))). apply R'; auto.
        intros a Ha. destruct (N.eq_dec (simd (t_waves st w')) (simd (t_waves st w))) as [Es|Es].
        -- rewrite Es, J, V0.
           ++ apply Vf. intros [_ [l2 [Hl2 Ha2]]]. lia.
           ++ intros l2 Hl2 X. lia.
        -- rewrite H, V0 by auto. apply Vf. intros [X _]. auto.
Qed.

(** * emulation: the wavefront object initWfs creates *)

Lemma emu_write_v0_step : forall s l data, l < 64 -> lenN data = 4 ->
  emu_write_reg s (RV 0) 1 l data = (set_vreg s (mem_write (e_vreg s) (l * 1024) data), false).
Proof.
  intros s l data Hl Hd. unfold emu_write_reg.
  change (num_bytes (RV 0) 1) with 4.
  replace (l * 256 * 4 + 0 * 4 + 4 <=? V_LEN) with true by (unfold V_LEN; lia).
  unfold firstnN. rewrite firstn_all2 by (unfold lenN in Hd; lia).
  replace (l * 256 * 4 + 0 * 4) with (l * 1024) by lia. reflexivity.
Qed.

Lemma emu_dispatch_fold : forall s0 (ids : N -> N) k, (k <= 64)%nat ->
  let s' := fold_left (fun s l => fst (emu_write_reg s (RV 0) 1 l (le_bytes 4 (ids l)))) (map N.of_nat (seq 0 k)) s0 in
  e_sreg s' = e_sreg s0 /\ e_vcc s' = e_vcc s0 /\ e_exec s' = e_exec s0 /\ e_scc s' = e_scc s0 /\ e_m0 s' = e_m0 s0 /\
  (forall l o, l < N.of_nat k -> o < 4 -> e_vreg s' (l * 1024 + o) = nth (N.to_nat o) (le_bytes 4 (ids l)) 0) /\
  (forall a, (forall l, l < N.of_nat k -> ~ (l * 1024 <= a < l * 1024 + 4)) -> e_vreg s' a = e_vreg s0 a).
Proof.
  intros s0 ids k. induction k as [|k IH]; intros Hk s'.
  - subst s'. cbn. repeat split; auto; intros; lia.
  - destruct (IH ltac:(lia)) as [A [B [C [D [E [I J]]]]]]. clear IH. subst s'.
    rewrite seq_S, map_app, fold_left_app. cbn [plus map fold_left].
    set (s1 := fold_left _ (map N.of_nat (seq 0 k)) s0) in *.
    rewrite emu_write_v0_step by (try lia; unfold lenN; now rewrite le_bytes_length).
    cbn [fst set_vreg e_sreg e_vreg e_vcc e_exec e_scc e_m0]. repeat split; auto.
    + intros l o Hl Ho. destruct (N.eq_dec l (N.of_nat k)) as [->|Hne].
      * rewrite mem_write_in by (unfold lenN; rewrite le_bytes_length; lia). f_equal. lia.
      * rewrite mem_write_out by (unfold lenN; rewrite le_bytes_length; lia). apply I; lia.
    + intros a Ha. rewrite mem_write_out.
      * apply J. intros l Hl. apply Ha. lia.
      * unfold lenN. rewrite le_bytes_length. specialize (Ha (N.of_nat k) ltac:(lia)). lia.
Qed.

Lemma emu_dispatch_fresh : forall exec0 ids, exec0 < 2 ^ 64 -> emu_R (emu_dispatch exec0 ids) (fresh_cells exec0 ids).
Proof.
  intros e ids He. unfold emu_dispatch, nseq. change (N.to_nat 64) with 64%nat.
  destruct (emu_dispatch_fold (set_exec emu_zero e) ids 64 ltac:(lia)) as [A [B [C [D [E [I J]]]]]].
  set (s' := fold_left _ (map N.of_nat (seq 0 64)) (set_exec emu_zero e)) in *.
  constructor; rewrite ?A, ?B, ?C, ?D, ?E; cbn [set_exec emu_zero e_sreg e_vcc e_exec e_scc e_m0 fresh_cells];
    try reflexivity; try lia.
  - apply view_zero; reflexivity.
  - intros l Hl j Hj. destruct j as [|p].
    + cbn [fresh_cells]. replace (l <? 64) with true by lia. rewrite le_bytes4_le_val.
      apply list_eq_nth. rewrite mem_read_length, le_bytes_length. reflexivity.
      intros k Hk. rewrite le_bytes_length in Hk.
      rewrite mem_read_nth by (change (N.to_nat 4) with 4%nat; lia).
      replace (l * 1024 + 4 * 0 + N.of_nat k) with (l * 1024 + N.of_nat k) by lia.
      rewrite I by lia. now rewrite Nat2N.id.
    + cbn [fresh_cells]. apply mem_read4_zero. intros a Ha. rewrite J. reflexivity.
      intros l2 Hl2 X. assert (l2 = l) by lia. subst l2. lia.
Qed.

(** * the state a new wavefront starts from does not depend on any history *)

Lemma emu_fresh_independent : forall h1 h2 ws1 ws2 w exec0 ids,
  emu_newgen (fst (emu_run ws1 h1)) w exec0 ids w = emu_newgen (fst (emu_run ws2 h2)) w exec0 ids w.
Proof. intros. unfold emu_newgen. now rewrite !wupd_eq. Qed.

Lemma timing_fresh_independent : forall h1 h2 st nw cs w exec0 ids r cnt lane,
  timing_R st nw cs -> Forall (twf_r (t_waves st) nw) h1 -> Forall (twf_r (t_waves st) nw) h2 ->
  w < nw -> 1 <= nvgpr (t_waves st w) -> exec0 < 2 ^ 64 ->
  wf_operand (nsgpr (t_waves st w)) (nvgpr (t_waves st w)) r cnt lane = true ->
  timing_read_reg (timing_redispatch (fst (timing_run st h1)) w exec0 ids) w r cnt lane
  = Some (read_bytes (fresh_cells exec0 ids) r cnt lane) /\
  timing_read_reg (timing_redispatch (fst (timing_run st h1)) w exec0 ids) w r cnt lane
  = timing_read_reg (timing_redispatch (fst (timing_run st h2)) w exec0 ids) w r cnt lane.
Proof.
  intros h1 h2 st nw cs w e ids r cnt lane R H1 H2 Hw Hnv He Hwf.
  assert (P : forall h, Forall (twf_r (t_waves st) nw) h ->
              timing_read_reg (timing_redispatch (fst (timing_run st h)) w e ids) w r cnt lane
              = Some (read_bytes (fresh_cells e ids) r cnt lane)).
  { intros h Hh. destruct (timing_trun_ok h st nw cs R Hh) as [_ [Rh Wh]].
    destruct (timing_redispatch_fresh _ nw _ w e ids Rh Hw ltac:(rewrite Wh; auto) He) as [Rf Wf].
    rewrite (timing_read_reg_ok _ nw _ w r cnt lane Rf Hw) by (rewrite Wf, Wh; auto).
    now rewrite wupd_eq. }
  split; [apply P; auto|]. now rewrite !P.
Qed.
