(** C03 — FLAT / GLOBAL loads and stores: handler loop = manual. *)
From Coq Require Import ZArith List Bool Lia ZifyBool.
From RecordUpdate Require Import RecordSet.
Import RecordSetNotations.
Import ListNotations.
From VIsa Require Import IsaState ExecImpl ExecSpec ExecImplV ExecSpecV ExecProofs ExecRows ExecVProofs ExecImplM ExecSpecM ExecMProofs.
Open Scope Z_scope.
Ltac Zify.zify_post_hook ::= Z.div_mod_to_equations.

(** the final state of a load loop is the manual's *)
Lemma load_finish : forall st s' r k (W : Z -> list Z),
  scal_agree st s' -> (forall l, Z.of_nat (length (W l)) = k) ->
  (forall l j, vgpr s' l j = if lane_ok l && bit (exec st) l then newk r (W l) (vgpr st l) j else vgpr st l j) ->
  state_eq s' (st <| vgpr := load_vgpr st r k W |>).
Proof.
  intros st s' r k W (A1&A2&A3&A4&A5&A6&A7&A8) HL HV.
  repeat split; cbn [sgpr vgpr exec vcc scc m0 pc mem lds set]; auto.
  intros l j. rewrite HV. unfold load_vgpr, active, bit, newk. rewrite HL.
  destruct (lane_ok l && Z.testbit (exec st) l); cbn [andb]; reflexivity.
Qed.

Lemma wrk_ok : forall s l d ws k, vrange_ok d k = true -> Z.of_nat (length ws) = k ->
  wrk s l d ws = Some (s <| vgpr := updk (vgpr s) l (d - 256) ws |>).
Proof. intros s l d ws k H1 H2. unfold wrk. unfold vrange_ok in H1. rewrite H2, H1. reflexivity. Qed.

Lemma land_ones32 : forall v, 0 <= v < W32 -> Z.land v 4294967295 = v.
Proof.
  intros v Hv. change 4294967295 with (Z.ones 32). rewrite Z.land_ones by lia.
  apply Z.mod_small. unfold W32 in Hv. change (2 ^ 32) with 4294967296. lia.
Qed.

(** address computation *)
Lemma flat_addr_ok : forall a st i, wf st -> flat_ok a i = true ->
  exists hb, flat_base a st i = Some hb /\
    forall l s, lane_agree st s l -> flat_addr hb s i l = Some (flat_ea a st i l).
Proof.
  intros a st i Hwf Hok. destruct Hwf as (Hs & Hv & _).
  unfold flat_base, has_saddr.
  destruct a; unfold flat_ok, vrange_ok in Hok.
  - (* GCN3: offset 0, SADDR field 0 *)
    assert (E1 : i_simm i = 0) by lia. assert (E2 : i_src2 i = 0) by lia.
    assert (E3 : vrange_ok (i_src0 i) 2 = true) by (unfold vrange_ok; lia).
    rewrite E2. cbn [Z.eqb negb andb]. eexists. split; [reflexivity|].
    intros l s Hag. unfold flat_addr, rdvk. cbn [fst snd]. unfold vrange_ok in E3. rewrite E3.
    rewrite (rdv_agree st s _ _ _ _ Hag). unfold rdv.
    replace ((256 <=? i_src0 i) && (i_src0 i <=? 511)) with true by lia.
    change (2 <=? 1) with false; change (1 <=? 1) with true; cbv beta iota; cbn [bind]. rewrite E1. cbn [Z.eqb]. unfold flat_ea.
    replace (i_src0 i - 255) with (i_src0 i - 256 + 1) by lia. reflexivity.
  - destruct (i_src2 i =? 127) eqn:Esa.
    + cbn [negb]. eexists. split; [reflexivity|].
      assert (E3 : vrange_ok (i_src0 i) 2 = true) by (unfold vrange_ok; lia).
      intros l s Hag. unfold flat_addr, rdvk. cbn [fst snd]. unfold vrange_ok in E3. rewrite E3.
      rewrite (rdv_agree st s _ _ _ _ Hag). unfold rdv.
      replace ((256 <=? i_src0 i) && (i_src0 i <=? 511)) with true by lia.
      change (2 <=? 1) with false; change (1 <=? 1) with true; cbv beta iota; cbn [bind]. unfold flat_ea. rewrite Esa.
      replace (i_src0 i - 255) with (i_src0 i - 256 + 1) by lia.
      pose proof (Hv l (i_src0 i - 256)) as R0. pose proof (Hv l (i_src0 i - 256 + 1)) as R1.
      destruct (i_simm i =? 0) eqn:Ez; [|reflexivity].
      f_equal. apply Z.eqb_eq in Ez. rewrite Ez, Z.add_0_r. symmetry. apply Z.mod_small. unfold W32, W64 in *. lia.
    + cbn [negb].
      assert (E3 : (0 <=? i_src2 i) && (i_src2 i <=? 100) = true) by lia.
      assert (E4 : vrange_ok (i_src0 i) 1 = true) by (unfold vrange_ok; lia).
      rewrite E3. unfold rd. replace ((0 <=? i_src2 i) && (i_src2 i <=? 101)) with true by lia.
      replace (2 <=? 1) with false by reflexivity. replace (i_src2 i =? 101) with false by lia. cbn [bind].
      eexists. split; [reflexivity|].
      intros l s Hag. unfold flat_addr, rdvk. cbn [fst snd]. unfold vrange_ok in E4. rewrite E4.
      rewrite (rdv_agree st s _ _ _ _ Hag). unfold rdv.
      replace ((256 <=? i_src0 i) && (i_src0 i <=? 511)) with true by lia.
      change (2 <=? 1) with false; change (1 <=? 1) with true; cbv beta iota; cbn [bind]. unfold flat_ea. rewrite Esa.
      pose proof (Hv l (i_src0 i - 256)) as R0. rewrite (land_ones32 _ R0).
      f_equal. unfold u64. destruct (i_simm i =? 0) eqn:Ez.
      * apply Z.eqb_eq in Ez. rewrite Ez, Z.add_0_r. reflexivity.
      * rewrite Zplus_mod_idemp_l. reflexivity.
Qed.

Lemma flat_ea_range : forall a st i l, wf st -> flat_ok a i = true -> 0 <= flat_ea a st i l < W64.
Proof.
  intros a st i l (Hs & Hv & _) Hok. unfold flat_ea. destruct a; unfold flat_ok, vrange_ok in Hok.
  - pose proof (Hv l (i_src0 i - 256)). pose proof (Hv l (i_src0 i - 256 + 1)). unfold W32, W64 in *. lia.
  - destruct (i_src2 i =? 127); apply Z.mod_pos_bound; unfold W64; lia.
Qed.

Lemma gmem_agree : forall st s x, scal_agree st s -> gmem s x = gmem st x.
Proof. intros st s x (_&_&_&_&_&_&Hm&_). unfold gmem. apply Hm. Qed.

(** loads *)
Lemma flat_words_ok : forall op k val st s ad, flat_load_row op = Some (k, val) -> scal_agree st s ->
  flat_load_words op (gmem s) ad = Some (val (MEM st) ad) /\ Z.of_nat (length (val (MEM st) ad)) = k /\
  flat_store_regs op = None /\ 0 < k.
Proof.
  intros op k val st s ad Hrow Hs. unfold flat_load_row in Hrow.
  assert (Hop : In op [16; 17; 18; 20; 21; 22; 23]).
  { destruct op as [|p|p]; try discriminate.
    do 5 (destruct p as [p|p|]; try discriminate); cbn [In]; tauto. }
  cbn [In] in Hop.
  repeat (destruct Hop as [<-|Hop]; [injection Hrow as <- <-; cbn [flat_load_words flat_store_regs length];
    rewrite ?(gmem_agree st s) by exact Hs; rewrite ?ld4_dword; repeat split; try lia|]); try contradiction.
  unfold gmem, MEM, u64. try change (2 ^ 8) with 256. try change (Z.pow_pos 2 8) with 256. do 2 f_equal. ring.
  all: unfold dword_at, MEM; destruct Hs as (_&_&_&_&_&_&Hm&_); rewrite !Hm; reflexivity.
Qed.

Theorem flat_load_agree : forall a lsz st i k val, i_fmt i = F_FLAT -> wf st ->
  flat_load_row (i_op i) = Some (k, val) -> flat_ok a i = true -> vrange_ok (i_dst i) k = true ->
  agree_m a lsz st i.
Proof.
  intros a lsz st i k val Hf Hwf Hrow Hok Hd.
  unfold agree_m, exec_mem, exec_spec_mem. rewrite Hf. unfold x_flat, spec_flat. rewrite Hok, Hrow, Hd. cbn [negb].
  destruct (flat_addr_ok a st i Hwf Hok) as (hb & Hb & Hadr). rewrite Hb. cbn [bind].
  destruct (flat_words_ok (i_op i) k val st st 0 Hrow (scal_agree_refl st)) as (_ & _ & Hst & Hk). rewrite Hst.
  set (W := fun l => val (MEM st) (flat_ea a st i l)).
  destruct (load_mloop (exec st)
      (fun l s => bind (flat_addr hb s i l) (fun ad => bind (flat_load_words (i_op i) (gmem s) ad) (fun ws => wrk s l (i_dst i) ws)))
      st (i_dst i - 256) W (fun _ => True)) as (s' & HL & HS & HV).
  { intros l s _ Hag. rewrite (Hadr l s Hag). cbn [bind].
    destruct (flat_words_ok (i_op i) k val st s (flat_ea a st i l) Hrow (proj1 Hag)) as (Hw & Hlen & _ & _).
    rewrite Hw. cbn [bind]. apply (wrk_ok _ _ _ _ k Hd Hlen). }
  { intros; exact I. }
  rewrite HL. do 2 eexists. split; [reflexivity|]. split; [reflexivity|].
  apply load_finish; [exact HS| |exact HV].
  intros l. destruct (flat_words_ok (i_op i) k val st st (flat_ea a st i l) Hrow (scal_agree_refl st)) as (_ & Hlen & _ & _). exact Hlen.
Qed.

(** ** stores *)
Definition b4 (v : Z) : list Z := [byte_of v 0; byte_of v 1; byte_of v 2; byte_of v 3].
Fixpoint wrb (norm : Z -> Z) (m : Z -> Z) (a : Z) (bs : list Z) : Z -> Z :=
  match bs with [] => m | b :: t => wrb norm (upd m (norm a) b) (a + 1) t end.

Lemma wr_bytes_gen : forall norm a bs s m,
  fold_left (fun m kb => upd m (norm (a + Z.of_nat (fst kb))) (snd kb)) (combine (seq s (length bs)) bs) m
  = wrb norm m (a + Z.of_nat s) bs.
Proof.
  induction bs as [|b t IH]; intros s m; [reflexivity|].
  cbn [length seq combine fold_left fst snd wrb]. rewrite IH. f_equal. lia.
Qed.
Lemma wr_bytes_wrb : forall norm m a bs, wr_bytes norm m a bs = wrb norm m a bs.
Proof. intros. unfold wr_bytes. rewrite wr_bytes_gen. f_equal. lia. Qed.

Lemma wrb_set : forall norm norm' vs m m' a, (forall x, norm x = norm' x) -> (forall x, m x = m' x) ->
  forall x, wrb norm m a (flat_map b4 vs) x = set_dwords norm' m' a vs x.
Proof.
  induction vs as [|v t IH]; intros m m' a Hn Hm x; [apply Hm|].
  cbn [flat_map b4 app wrb set_dwords].
  replace (a + 1 + 1 + 1 + 1) with (a + 4) by lia.
  apply IH; [exact Hn|]. intros y. unfold set_dword.
  apply upd_pw; [rewrite Hn; f_equal; lia|reflexivity|].
  intros y1. apply upd_pw; [rewrite Hn; f_equal; lia|reflexivity|].
  intros y2. apply upd_pw; [rewrite Hn; f_equal; lia|reflexivity|].
  intros y3. apply upd_pw; [apply Hn|unfold byte_of; rewrite Z.pow_0_r, Z.div_1_r; reflexivity|exact Hm].
Qed.

Lemma fm_map : forall (A B C : Type) (f : B -> list C) (g : A -> B) l, flat_map f (map g l) = flat_map (fun x => f (g x)) l.
Proof. induction l as [|a t IH]; [reflexivity|]. cbn. rewrite IH. reflexivity. Qed.

Lemma reg_bytes_ok : forall st s l d k, (forall l j, vgpr s l j = vgpr st l j) -> vrange_ok d k = true ->
  reg_bytes s l d k = Some (flat_map b4 (vregs st l (d - 256) k)).
Proof.
  intros st s l d k Hv Hd. unfold reg_bytes. unfold vrange_ok in Hd. rewrite Hd. f_equal.
  unfold vregs. rewrite fm_map. apply flat_map_ext. intros j. unfold b4. rewrite Hv. reflexivity.
Qed.

Lemma flat_addr_regs : forall hb st s i l, (forall l j, vgpr s l j = vgpr st l j) ->
  flat_addr hb s i l = flat_addr hb st i l.
Proof.
  intros hb st s i l Hv. unfold flat_addr, rdvk.
  destruct ((256 <=? i_src0 i) && (i_src0 i - 256 + (if fst hb then 1 else 2) <=? 256)) eqn:G; [|reflexivity].
  unfold rdv. replace ((256 <=? i_src0 i) && (i_src0 i <=? 511)) with true by (destruct (fst hb); lia).
  rewrite !Hv. reflexivity.
Qed.

Lemma lanes_seq : lanes = map Z.of_nat (seq 0 64). Proof. reflexivity. Qed.
Lemma active_bit : forall st l, In l lanes -> active st l = bit (exec st) l.
Proof. intros st l H. apply in_lanes in H. unfold active, lane_ok, bit. replace ((0 <=? l) && (l <? 64)) with true by lia. reflexivity. Qed.

Theorem flat_store_agree : forall a lsz st i k, i_fmt i = F_FLAT -> wf st ->
  flat_store_row (i_op i) = Some k -> flat_ok a i = true -> vrange_ok (i_src1 i) k = true ->
  agree_m a lsz st i.
Proof.
  intros a lsz st i k Hf Hwf Hrow Hok Hd.
  assert (Hops : flat_store_regs (i_op i) = Some k /\ flat_load_row (i_op i) = None).
  { unfold flat_store_row in Hrow. unfold flat_store_regs, flat_load_row.
    destruct (i_op i) as [|p|p]; try discriminate.
    do 5 (destruct p as [p|p|]; try discriminate); auto. }
  destruct Hops as [Hst Hld].
  unfold agree_m, exec_mem, exec_spec_mem. rewrite Hf. unfold x_flat, spec_flat. rewrite Hok, Hrow, Hld, Hd. cbn [negb].
  destruct (flat_addr_ok a st i Hwf Hok) as (hb & Hb & Hadr). rewrite Hb, Hst. cbn [bind].
  set (Wm := fun l m => wr_bytes u64 m (flat_ea a st i l) (flat_map b4 (vregs st l (i_src1 i - 256) k))).
  destruct (store_mloop (exec st)
      (fun l s => bind (flat_addr hb s i l) (fun ad => bind (reg_bytes s l (i_src1 i) k) (fun bs =>
         Some (s <| mem := wr_bytes u64 (mem s) ad bs |>))))
      st true Wm (fun _ => True)) as (s' & HL & HS & HM).
  { intros l s _ (A1&A2&_). rewrite (flat_addr_regs hb st s i l A2).
    rewrite (Hadr l st) by (split; [apply scal_agree_refl|reflexivity]). cbn [bind].
    rewrite (reg_bytes_ok st s l _ k A2 Hd). cbn [bind]. reflexivity. }
  { intros; exact I. }
  rewrite HL. do 2 eexists. split; [reflexivity|]. split; [reflexivity|].
  destruct HS as (A1&A2&A3&A4&A5&A6&A7&A8). cbn [getsp negb] in A8, HM.
  repeat split; cbn [sgpr vgpr exec vcc scc m0 pc mem lds set]; auto.
  intros x. rewrite HM. unfold store_lanes. rewrite <- lanes_seq.
  apply fold_pw; [|reflexivity].
  intros l m m' Hl Hm y. rewrite (active_bit st l Hl). destruct (bit (exec st) l); [|apply Hm].
  unfold Wm. rewrite wr_bytes_wrb. apply wrb_set; [reflexivity|exact Hm].
Qed.
